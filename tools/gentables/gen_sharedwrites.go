package main

// sharedWrites (property C17): a static list of every place where code that a
// USER of a parsed configuration can reach writes into memory it did not
// allocate itself — i.e. into objects that may be shared with other goroutines
// using the same parsed tree: struct fields reached through a pointer, elements
// of maps and slices, package-level variables, and appends into slices the
// function does not own.
//
// Why: the schedule-isolation theorems of C17 (Conc/AnonSymProofs.v) are about
// AnonSymbolExpr.values being the ONLY mutable state a parsed tree shares
// between evaluations. A lazily filled cache on a tree node (memoised
// flattening, once-initialisation without sync, ...) is new shared mutable
// state; whether the concurrent workload of the harness notices it depends on
// scheduling luck, whereas this table changes deterministically and the lemma
// `shared_writes_expected` (Conc/AnonSymProofs.v: the table equals the audited
// list) stops compiling.
//
// Output: appended to coq/theories/Gen/AnonOps.v by genAnonOps:
//
//	Definition shared_writes : list (string * string * string) := [(function, kind, what); ...]
//
// Method (go/types on the non-test, non-verif files that `go list` reports for
// the packages hcl, hclsyntax, json, ext/dynblock, hcldec; dependencies are
// read from compiler export data, `go list -export -deps`):
//
//  1. REACHABLE functions. Roots are all exported functions and all exported
//     methods of the packages, except the entry points that BUILD trees or are
//     mutators by contract (rootExcluded: Parse*/Lex*/Scan*/New* ..., listed in
//     the table's header), plus every function whose value is taken (it may be
//     called through a variable). Edges: every reference to a function or
//     method of the packages inside a function body (calls and function values,
//     closures belong to the enclosing declaration); a call of an interface
//     method adds edges to that method of every type of the packages that
//     implements the interface (class-hierarchy analysis).
//  2. WRITES in reachable functions: assignments (incl. op=, ++/--, range with
//     =) whose target is reached through a pointer, map or slice ("assign"),
//     or is a package-level variable ("global"); delete/clear ("delete"),
//     copy ("copy"), sort.*/slices.Sort* ("sort") on such memory; and
//     append(s, ...) ("append": writes into the spare capacity of s).
//  3. A write is NOT listed when the memory is FRESH: the handle through which
//     it is reached (the pointer / map / slice expression) is, flow-
//     insensitively within the function, a local variable (not a parameter or
//     receiver, not a range or type-switch variable over non-fresh data) all of
//     whose definitions are composite literals, &literals, new, make, nil,
//     appends to / slices of / conversions of fresh values, or calls of
//     functions of the packages all of whose returns are fresh (computed as a
//     greatest fixpoint); for a handle `x.f` the root x must be such a local
//     and every definition of x.f in the function (literal field or
//     assignment) must be fresh.
//
// The analysis is deliberately one-sided: parameters are never fresh (a helper
// that fills a map handed in by its caller is listed), results of functions
// outside the packages are never fresh. What it cannot see: writes through
// unsafe/reflect, writes made by functions outside the packages (other than
// the sort helpers) to memory handed to them, aliasing through fields of
// fresh objects that were loaded with shared data by a callee.

import (
	"bytes"
	"crypto/sha256"
	"encoding/json"
	"fmt"
	"go/ast"
	"go/importer"
	"go/parser"
	"go/token"
	"go/types"
	"io"
	"os"
	"os/exec"
	"path/filepath"
	"regexp"
	"sort"
	"strings"
)

var swPackages = []string{".", "./hclsyntax", "./json", "./ext/dynblock", "./hcldec"}

// exported entry points that are not "uses of a parsed configuration"
var swRootExcluded = regexp.MustCompile(`^(Parse|Lex|Scan|New|scanTokens$)`)

type swListPkg struct {
	ImportPath string
	Dir        string
	GoFiles    []string
	Export     string
	DepOnly    bool
	Error      *struct{ Err string }
}

type swEntry struct{ fn, kind, what string }

type swFunc struct {
	obj   *types.Func
	decl  *ast.FuncDecl
	pkg   *swPkg
	edges map[*types.Func]bool
}

type swPkg struct {
	path  string
	short string
	files []*ast.File
	info  *types.Info
	tpkg  *types.Package
}

type swAnalysis struct {
	fset   *token.FileSet
	pkgs   []*swPkg
	funcs  map[*types.Func]*swFunc
	order  []*swFunc
	named  []*types.Named // all named types of the packages
	fresh  map[*types.Func][]bool
	taken  map[*types.Func]bool
	inPkgs map[*types.Package]bool
}

// sharedWritesCoq returns the Coq text of the table. It never aborts the
// generator: on any internal problem the table holds one entry naming the
// problem (which makes only C17's lemma fail, not every property's build).
func sharedWritesCoq() (out string) {
	defer func() {
		if p := recover(); p != nil {
			out = swRender([]swEntry{{"<analysis failed>", "error", fmt.Sprint(p)}}, nil)
		}
	}()
	// the result depends only on the source files: keep it per content hash
	// (gentables runs at the start of every property's check)
	cache := ""
	if key := swSourceKey(); key != "" {
		cache = filepath.Join(os.TempDir(), "gentables-sharedwrites-"+swVersion+"-"+key+".v")
		if b, err := os.ReadFile(cache); err == nil && len(b) > 0 {
			return string(b)
		}
	}
	entries, roots, err := swAnalyse()
	if err != nil {
		return swRender([]swEntry{{"<analysis failed>", "error", err.Error()}}, nil)
	}
	out = swRender(entries, roots)
	if cache != "" {
		tmp := fmt.Sprintf("%s.%d", cache, os.Getpid())
		if os.WriteFile(tmp, []byte(out), 0o644) == nil {
			os.Rename(tmp, cache)
		}
	}
	return out
}

// swVersion is part of the cache key: change it with the analysis.
const swVersion = "v2"

// swSourceKey hashes go.mod and every non-test .go file of the packages' directories.
func swSourceKey() string {
	var paths []string
	for _, d := range swPackages {
		dir := filepath.Join(repo, d)
		ents, err := os.ReadDir(dir)
		if err != nil {
			return ""
		}
		for _, e := range ents {
			n := e.Name()
			if e.IsDir() || !strings.HasSuffix(n, ".go") || strings.HasSuffix(n, "_test.go") {
				continue
			}
			paths = append(paths, filepath.Join(dir, n))
		}
	}
	sort.Strings(paths)
	h := sha256.New()
	for _, p := range append([]string{filepath.Join(repo, "go.mod")}, paths...) {
		b, err := os.ReadFile(p)
		if err != nil {
			return ""
		}
		fmt.Fprintf(h, "%s %d\n", strings.TrimPrefix(p, repo), len(b))
		h.Write(b)
	}
	return fmt.Sprintf("%x", h.Sum(nil))[:24]
}

func swCoqStr(s string) string { return "\"" + strings.ReplaceAll(s, "\"", "\"\"") + "\"" }

func swRender(entries []swEntry, excluded []string) string {
	var b strings.Builder
	b.WriteString("\n(* GENERATED by tools/gentables (gen_sharedwrites.go) from the packages hcl, hclsyntax, json, ext/dynblock, hcldec\n")
	b.WriteString("   (non-test files of the default build). Every write into memory the writing function did not allocate itself,\n")
	b.WriteString("   in functions reachable from the exported API other than the tree-building / mutating entry points\n")
	if len(excluded) > 0 {
		// no "(*" inside a Coq comment: it would open a nested one
		b.WriteString("   never entered (roots excluded, calls not followed): " + strings.NewReplacer("(*", "*", ")", "").Replace(strings.Join(excluded, " ")) + "\n")
	}
	b.WriteString("   (function, kind, what). See the header of gen_sharedwrites.go for the method and its limits. *)\n")
	b.WriteString("Definition shared_writes : list (string * string * string) :=\n  [")
	for i, e := range entries {
		if i > 0 {
			b.WriteString(";\n   ")
		}
		fmt.Fprintf(&b, "(%s, %s, %s)", swCoqStr(e.fn), swCoqStr(e.kind), swCoqStr(e.what))
	}
	b.WriteString("].\n")
	return b.String()
}

func swAnalyse() ([]swEntry, []string, error) {
	// 1. go list: files and export data
	args := append([]string{"list", "-e", "-export", "-deps", "-json=ImportPath,Dir,GoFiles,Export,DepOnly,Error"}, swPackages...)
	cmd := exec.Command("go", args...)
	cmd.Dir = repo
	env := os.Environ()
	has := func(k string) bool {
		for _, kv := range env {
			if strings.HasPrefix(kv, k+"=") {
				return true
			}
		}
		return false
	}
	if !has("GOFLAGS") {
		env = append(env, "GOFLAGS=-mod=mod")
	}
	if !has("GOPROXY") {
		env = append(env, "GOPROXY=off")
	}
	cmd.Env = env
	var stderr bytes.Buffer
	cmd.Stderr = &stderr
	outb, err := cmd.Output()
	if err != nil {
		return nil, nil, fmt.Errorf("go list failed: %v %s", err, strings.TrimSpace(stderr.String()))
	}
	exports := map[string]string{}
	var targets []swListPkg
	dec := json.NewDecoder(bytes.NewReader(outb))
	for {
		var p swListPkg
		if err := dec.Decode(&p); err == io.EOF {
			break
		} else if err != nil {
			return nil, nil, fmt.Errorf("go list output: %v", err)
		}
		if p.Export != "" {
			exports[p.ImportPath] = p.Export
		}
		if !p.DepOnly {
			if p.Error != nil {
				return nil, nil, fmt.Errorf("package %s: %s", p.ImportPath, p.Error.Err)
			}
			targets = append(targets, p)
		}
	}
	if len(targets) != len(swPackages) {
		return nil, nil, fmt.Errorf("go list returned %d target packages, expected %d", len(targets), len(swPackages))
	}
	sort.Slice(targets, func(i, j int) bool { return targets[i].ImportPath < targets[j].ImportPath })

	a := &swAnalysis{fset: token.NewFileSet(), funcs: map[*types.Func]*swFunc{}, fresh: map[*types.Func][]bool{}, taken: map[*types.Func]bool{}, inPkgs: map[*types.Package]bool{}}
	checked := map[string]*types.Package{}
	gc := importer.ForCompiler(a.fset, "gc", func(path string) (io.ReadCloser, error) {
		f, ok := exports[path]
		if !ok {
			return nil, fmt.Errorf("no export data for %q", path)
		}
		return os.Open(f)
	})
	imp := swImporter{checked: checked, gc: gc}

	// 2. type-check the targets from source, dependencies among them first
	// (root package first: the others import it; dynblock and hcldec import hclsyntax? no, but order by deps anyway)
	done := map[string]bool{}
	byPath := map[string]swListPkg{}
	for _, t := range targets {
		byPath[t.ImportPath] = t
	}
	var check func(t swListPkg) error
	check = func(t swListPkg) error {
		if done[t.ImportPath] {
			return nil
		}
		done[t.ImportPath] = true
		var files []*ast.File
		for _, name := range t.GoFiles {
			if strings.HasSuffix(name, "_verif.go") || name == "verif_hooks.go" {
				continue
			}
			f, err := parser.ParseFile(a.fset, filepath.Join(t.Dir, name), nil, 0)
			if err != nil {
				return err
			}
			files = append(files, f)
		}
		// targets imported by this one go first
		for _, f := range files {
			for _, is := range f.Imports {
				p := strings.Trim(is.Path.Value, "\"")
				if dep, ok := byPath[p]; ok {
					if err := check(dep); err != nil {
						return err
					}
				}
			}
		}
		info := &types.Info{
			Types:      map[ast.Expr]types.TypeAndValue{},
			Defs:       map[*ast.Ident]types.Object{},
			Uses:       map[*ast.Ident]types.Object{},
			Selections: map[*ast.SelectorExpr]*types.Selection{},
			Implicits:  map[ast.Node]types.Object{},
		}
		conf := types.Config{Importer: imp, Error: func(error) {}}
		tp, err := conf.Check(t.ImportPath, a.fset, files, info)
		if err != nil && tp == nil {
			return err
		}
		checked[t.ImportPath] = tp
		short := tp.Name()
		a.pkgs = append(a.pkgs, &swPkg{path: t.ImportPath, short: short, files: files, info: info, tpkg: tp})
		a.inPkgs[tp] = true
		return nil
	}
	for _, t := range targets {
		if err := check(t); err != nil {
			return nil, nil, fmt.Errorf("type-checking %s: %v", t.ImportPath, err)
		}
	}
	sort.Slice(a.pkgs, func(i, j int) bool { return a.pkgs[i].path < a.pkgs[j].path })

	// 3. functions, named types
	for _, p := range a.pkgs {
		for _, f := range p.files {
			for _, d := range f.Decls {
				fd, ok := d.(*ast.FuncDecl)
				if !ok || fd.Body == nil {
					continue
				}
				obj, _ := p.info.Defs[fd.Name].(*types.Func)
				if obj == nil {
					continue
				}
				sf := &swFunc{obj: obj, decl: fd, pkg: p, edges: map[*types.Func]bool{}}
				a.funcs[obj] = sf
				a.order = append(a.order, sf)
			}
		}
		sc := p.tpkg.Scope()
		for _, n := range sc.Names() {
			if tn, ok := sc.Lookup(n).(*types.TypeName); ok && !tn.IsAlias() {
				if nt, ok := tn.Type().(*types.Named); ok {
					a.named = append(a.named, nt)
				}
			}
		}
	}
	sort.Slice(a.order, func(i, j int) bool { return a.name(a.order[i].obj) < a.name(a.order[j].obj) })

	// 4. call graph
	for _, sf := range a.order {
		a.collectEdges(sf)
	}
	// 5. roots and reachability
	var excluded []string
	reach := map[*types.Func]bool{}
	why := map[*types.Func]string{}
	cause := "root"
	var work []*types.Func
	add := func(f *types.Func) {
		if f != nil && a.funcs[f] != nil && !reach[f] && !swRootExcluded.MatchString(f.Name()) {
			reach[f] = true
			why[f] = cause
			work = append(work, f)
		}
	}
	for _, sf := range a.order {
		if swRootExcluded.MatchString(sf.obj.Name()) {
			excluded = append(excluded, a.name(sf.obj))
			continue
		}
		if sf.obj.Exported() && a.escapes(sf.obj) {
			add(sf.obj)
		}
	}
	cause = "value taken"
	for _, sf := range a.order {
		if a.taken[sf.obj] {
			add(sf.obj)
		}
	}
	for len(work) > 0 {
		f := work[len(work)-1]
		work = work[:len(work)-1]
		cause = "from " + a.name(f)
		var es []*types.Func
		for e := range a.funcs[f].edges {
			es = append(es, e)
		}
		for _, e := range es {
			add(e)
		}
	}
	if os.Getenv("SW_WHY") != "" {
		for _, sf := range a.order {
			if reach[sf.obj] {
				fmt.Fprintf(os.Stderr, "reach %s: %s\n", a.name(sf.obj), why[sf.obj])
			}
		}
	}
	// 6. fresh-result summaries (greatest fixpoint)
	for _, sf := range a.order {
		n := sf.obj.Type().(*types.Signature).Results().Len()
		fr := make([]bool, n)
		for i := range fr {
			fr[i] = true
		}
		a.fresh[sf.obj] = fr
	}
	for changed := true; changed; {
		changed = false
		for _, sf := range a.order {
			fa := newSwFn(a, sf)
			for i, ok := range fa.resultsFresh() {
				if !ok && a.fresh[sf.obj][i] {
					a.fresh[sf.obj][i] = false
					changed = true
				}
			}
		}
	}
	// 7. writes
	seen := map[swEntry]bool{}
	var entries []swEntry
	for _, sf := range a.order {
		if !reach[sf.obj] {
			continue
		}
		fa := newSwFn(a, sf)
		for _, e := range fa.writes() {
			if !seen[e] {
				seen[e] = true
				entries = append(entries, e)
			}
		}
	}
	sort.Slice(entries, func(i, j int) bool {
		x, y := entries[i], entries[j]
		if x.fn != y.fn {
			return x.fn < y.fn
		}
		if x.kind != y.kind {
			return x.kind < y.kind
		}
		return x.what < y.what
	})
	sort.Strings(excluded)
	return entries, excluded, nil
}

type swImporter struct {
	checked map[string]*types.Package
	gc      types.Importer
}

func (i swImporter) Import(path string) (*types.Package, error) {
	if p, ok := i.checked[path]; ok {
		return p, nil
	}
	return i.gc.Import(path)
}

// escapes: can code outside the packages call this exported function? Methods
// count when their receiver type is exported, or when it implements an
// exported interface declared in the packages (json.body is an hcl.Body).
func (a *swAnalysis) escapes(f *types.Func) bool {
	r := f.Type().(*types.Signature).Recv()
	if r == nil {
		return true
	}
	nt, _ := swDeref(r.Type()).(*types.Named)
	if nt == nil {
		return true
	}
	if nt.Obj().Exported() {
		return true
	}
	for _, it := range a.named {
		iface, ok := it.Underlying().(*types.Interface)
		if !ok || !it.Obj().Exported() || iface.NumMethods() == 0 {
			continue
		}
		if types.Implements(nt, iface) || types.Implements(types.NewPointer(nt), iface) {
			return true
		}
	}
	return false
}

// name renders a function as pkg.Func or pkg.(*T).Method / pkg.T.Method.
func (a *swAnalysis) name(f *types.Func) string {
	sig := f.Type().(*types.Signature)
	pk := ""
	if f.Pkg() != nil {
		pk = f.Pkg().Name() + "."
	}
	if r := sig.Recv(); r != nil {
		t := r.Type()
		star := ""
		if p, ok := t.(*types.Pointer); ok {
			t = p.Elem()
			star = "*"
		}
		tn := types.TypeString(t, func(*types.Package) string { return "" })
		if star != "" {
			return pk + "(*" + tn + ")." + f.Name()
		}
		return pk + tn + "." + f.Name()
	}
	return pk + f.Name()
}

func (a *swAnalysis) collectEdges(sf *swFunc) {
	info := sf.pkg.info
	callFuns := map[ast.Expr]bool{}
	ast.Inspect(sf.decl.Body, func(n ast.Node) bool {
		if c, ok := n.(*ast.CallExpr); ok {
			callFuns[ast.Unparen(c.Fun)] = true
		}
		return true
	})
	ast.Inspect(sf.decl.Body, func(n ast.Node) bool {
		switch x := n.(type) {
		case *ast.SelectorExpr:
			if sel := info.Selections[x]; sel != nil && (sel.Kind() == types.MethodVal || sel.Kind() == types.MethodExpr) {
				m, _ := sel.Obj().(*types.Func)
				if m == nil {
					return true
				}
				if types.IsInterface(sel.Recv()) {
					// every implementation in the packages
					iface, _ := sel.Recv().Underlying().(*types.Interface)
					for _, nt := range a.named {
						for _, t := range []types.Type{nt, types.NewPointer(nt)} {
							if iface != nil && types.Implements(t, iface) {
								if o, _, _ := types.LookupFieldOrMethod(t, true, m.Pkg(), m.Name()); o != nil {
									if mf, ok := o.(*types.Func); ok {
										sf.edges[mf] = true
									}
								}
							}
						}
					}
					return true
				}
				sf.edges[m] = true
				if !callFuns[x] {
					a.taken[m] = true
				}
			}
		case *ast.Ident:
			if f, ok := info.Uses[x].(*types.Func); ok && a.inPkgs[f.Pkg()] {
				sf.edges[f] = true
				// a function value (not the operand of a call)?
				if !callFuns[x] {
					isSelOfCall := false
					// pkg.Func(...) appears as SelectorExpr{X: pkg, Sel: x}; handled by looking the selector up
					for fun := range callFuns {
						if se, ok := fun.(*ast.SelectorExpr); ok && se.Sel == x {
							isSelOfCall = true
							break
						}
					}
					if !isSelOfCall {
						a.taken[f] = true
					}
				}
			}
		}
		return true
	})
}

// ---- per-function analysis -------------------------------------------------------------

type swFn struct {
	a      *swAnalysis
	sf     *swFunc
	info   *types.Info
	params map[types.Object]bool          // parameters and receivers (of the declaration and of its closures)
	locals map[types.Object]bool          // variables declared in the body
	defs   map[types.Object][]swDef       // definitions of local variables
	fdefs  map[string][]ast.Expr          // definitions of places "x.f.g"
	lits   map[types.Object]bool          // locals all of whose own definitions are (pointers to) keyed literals / zero values
	memo   map[types.Object]int           // 0 unknown, 1 in progress, 2 fresh, 3 not fresh
	pmemo  map[string]int
}

type swDef struct {
	expr  ast.Expr // defining expression (nil: zero value)
	index int      // >= 0: result index of a multi-value call expr
	never bool     // a definition that is never fresh (range / type-switch over shared data is decided by expr)
}

func newSwFn(a *swAnalysis, sf *swFunc) *swFn {
	f := &swFn{a: a, sf: sf, info: sf.pkg.info, params: map[types.Object]bool{}, locals: map[types.Object]bool{},
		defs: map[types.Object][]swDef{}, fdefs: map[string][]ast.Expr{}, memo: map[types.Object]int{}, pmemo: map[string]int{}}
	addParams := func(fl *ast.FieldList) {
		if fl == nil {
			return
		}
		for _, fld := range fl.List {
			for _, n := range fld.Names {
				if o := f.info.Defs[n]; o != nil {
					f.params[o] = true
				}
			}
		}
	}
	addParams(sf.decl.Recv)
	addParams(sf.decl.Type.Params)
	// named results are locals (zero-initialised)
	if sf.decl.Type.Results != nil {
		for _, fld := range sf.decl.Type.Results.List {
			for _, n := range fld.Names {
				if o := f.info.Defs[n]; o != nil {
					f.locals[o] = true
					f.defs[o] = append(f.defs[o], swDef{index: -1})
				}
			}
		}
	}
	def := func(lhs ast.Expr, d swDef) {
		lhs = ast.Unparen(lhs)
		if id, ok := lhs.(*ast.Ident); ok {
			o := f.info.Defs[id]
			if o == nil {
				o = f.info.Uses[id]
			}
			if o != nil {
				if f.info.Defs[id] != nil {
					f.locals[o] = true
				}
				f.defs[o] = append(f.defs[o], d)
			}
			return
		}
		if key := f.placeKey(lhs); key != "" && d.index < 0 && !d.never {
			f.fdefs[key] = append(f.fdefs[key], d.expr)
		} else if key != "" {
			f.fdefs[key] = append(f.fdefs[key], nil) // unknown
		}
	}
	ast.Inspect(sf.decl.Body, func(n ast.Node) bool {
		switch x := n.(type) {
		case *ast.FuncLit:
			addParams(x.Type.Params)
			if x.Type.Results != nil {
				for _, fld := range x.Type.Results.List {
					for _, nm := range fld.Names {
						if o := f.info.Defs[nm]; o != nil {
							f.locals[o] = true
							f.defs[o] = append(f.defs[o], swDef{index: -1})
						}
					}
				}
			}
		case *ast.AssignStmt:
			if len(x.Lhs) == len(x.Rhs) {
				for i := range x.Lhs {
					if x.Tok == token.ASSIGN || x.Tok == token.DEFINE {
						def(x.Lhs[i], swDef{expr: x.Rhs[i], index: -1})
					} else {
						def(x.Lhs[i], swDef{never: true, index: -1}) // op=: only for non-reference types anyway
					}
				}
			} else if len(x.Rhs) == 1 {
				for i := range x.Lhs {
					def(x.Lhs[i], swDef{expr: x.Rhs[0], index: i})
				}
			}
		case *ast.ValueSpec:
			for i, nm := range x.Names {
				o := f.info.Defs[nm]
				if o == nil {
					continue
				}
				f.locals[o] = true
				switch {
				case len(x.Values) == 0:
					f.defs[o] = append(f.defs[o], swDef{index: -1})
				case len(x.Values) == len(x.Names):
					f.defs[o] = append(f.defs[o], swDef{expr: x.Values[i], index: -1})
				default:
					f.defs[o] = append(f.defs[o], swDef{expr: x.Values[0], index: i})
				}
			}
		case *ast.RangeStmt:
			// range variables: elements of the collection; fresh only when they cannot carry a reference
			for _, kv := range []ast.Expr{x.Key, x.Value} {
				if kv == nil {
					continue
				}
				if id, ok := ast.Unparen(kv).(*ast.Ident); ok {
					o := f.info.Defs[id]
					if o == nil {
						o = f.info.Uses[id]
					}
					if o == nil {
						continue
					}
					if f.info.Defs[id] != nil {
						f.locals[o] = true
					}
					f.defs[o] = append(f.defs[o], swDef{never: swHasRefs(o.Type(), 0), index: -1})
				} else if key := f.placeKey(kv); key != "" {
					f.fdefs[key] = append(f.fdefs[key], nil)
				}
			}
		case *ast.TypeSwitchStmt:
			// switch v := x.(type): one implicit object per clause, defined by x
			var src ast.Expr
			if as, ok := x.Assign.(*ast.AssignStmt); ok && len(as.Rhs) == 1 {
				if ta, ok := ast.Unparen(as.Rhs[0]).(*ast.TypeAssertExpr); ok {
					src = ta.X
				}
			}
			if src != nil {
				for _, cl := range x.Body.List {
					if o := f.info.Implicits[cl]; o != nil {
						f.locals[o] = true
						f.defs[o] = append(f.defs[o], swDef{expr: src, index: -1})
					}
				}
			}
		case *ast.CompositeLit:
			// literal fields become definitions of places when the literal defines a local: handled in litFields
		}
		return true
	})
	// fields set by the (keyed) literal that defines a local: x := T{f: e} / x := &T{f: e}
	for o, ds := range f.defs {
		if !f.locals[o] {
			continue
		}
		for _, d := range ds {
			if d.expr == nil || d.index >= 0 {
				continue
			}
			e := ast.Unparen(d.expr)
			if u, ok := e.(*ast.UnaryExpr); ok && u.Op == token.AND {
				e = ast.Unparen(u.X)
			}
			cl, ok := e.(*ast.CompositeLit)
			if !ok {
				continue
			}
			for _, el := range cl.Elts {
				kv, ok := el.(*ast.KeyValueExpr)
				if !ok {
					continue
				}
				if k, ok := kv.Key.(*ast.Ident); ok {
					if _, isStruct := swDeref(f.info.TypeOf(cl)).Underlying().(*types.Struct); isStruct {
						f.fdefs[o.Name()+"#"+fmt.Sprint(o.Pos())+"."+k.Name] = append(f.fdefs[o.Name()+"#"+fmt.Sprint(o.Pos())+"."+k.Name], kv.Value)
					}
				}
			}
		}
	}
	return f
}

func swDeref(t types.Type) types.Type {
	if t == nil {
		return types.Typ[types.Invalid]
	}
	if p, ok := t.Underlying().(*types.Pointer); ok {
		return p.Elem()
	}
	return t
}

// swHasRefs: can a value of type t carry a reference to shared memory?
func swHasRefs(t types.Type, depth int) bool {
	if t == nil || depth > 6 {
		return true
	}
	switch u := t.Underlying().(type) {
	case *types.Basic:
		return u.Kind() == types.UnsafePointer
	case *types.Struct:
		for i := 0; i < u.NumFields(); i++ {
			if swHasRefs(u.Field(i).Type(), depth+1) {
				return true
			}
		}
		return false
	case *types.Array:
		return swHasRefs(u.Elem(), depth+1)
	}
	return true // pointer, map, slice, chan, func, interface, ...
}

// placeKey names a place made of a variable and field selections: "x#pos.f.g"; "" otherwise.
func (f *swFn) placeKey(e ast.Expr) string {
	e = ast.Unparen(e)
	switch x := e.(type) {
	case *ast.Ident:
		o := f.info.Uses[x]
		if o == nil {
			o = f.info.Defs[x]
		}
		if v, ok := o.(*types.Var); ok && !v.IsField() {
			return v.Name() + "#" + fmt.Sprint(v.Pos())
		}
	case *ast.SelectorExpr:
		if sel := f.info.Selections[x]; sel != nil && sel.Kind() == types.FieldVal {
			if base := f.placeKey(x.X); base != "" {
				return base + "." + x.Sel.Name
			}
		}
	case *ast.IndexExpr:
		// all elements of a map / slice / array are one place
		if base := f.placeKey(x.X); base != "" {
			return base + "[]"
		}
	}
	return ""
}

func (f *swFn) rootVar(e ast.Expr) *types.Var {
	e = ast.Unparen(e)
	switch x := e.(type) {
	case *ast.Ident:
		o := f.info.Uses[x]
		if o == nil {
			o = f.info.Defs[x]
		}
		v, _ := o.(*types.Var)
		return v
	case *ast.SelectorExpr:
		if sel := f.info.Selections[x]; sel != nil && sel.Kind() == types.FieldVal {
			return f.rootVar(x.X)
		}
	case *ast.IndexExpr:
		return f.rootVar(x.X)
	}
	return nil
}

func (f *swFn) freshVar(o types.Object) bool {
	if o == nil || f.params[o] || !f.locals[o] {
		return false
	}
	switch f.memo[o] {
	case 1, 2:
		return true // in progress: optimistic on cycles (x = append(x, ...))
	case 3:
		return false
	}
	f.memo[o] = 1
	ok := true
	for _, d := range f.defs[o] {
		switch {
		case d.never:
			ok = false
		case d.expr == nil:
			// zero value
		case d.index >= 0:
			ok = f.freshCallResult(d.expr, d.index)
		default:
			ok = f.freshExpr(d.expr)
		}
		if !ok {
			break
		}
	}
	if ok {
		f.memo[o] = 2
	} else {
		f.memo[o] = 3
	}
	return ok
}

func (f *swFn) callee(c *ast.CallExpr) *types.Func {
	switch fun := ast.Unparen(c.Fun).(type) {
	case *ast.Ident:
		fn, _ := f.info.Uses[fun].(*types.Func)
		return fn
	case *ast.SelectorExpr:
		if sel := f.info.Selections[fun]; sel != nil {
			if types.IsInterface(sel.Recv()) {
				return nil
			}
			fn, _ := sel.Obj().(*types.Func)
			return fn
		}
		fn, _ := f.info.Uses[fun.Sel].(*types.Func)
		return fn
	}
	return nil
}

func (f *swFn) freshCallResult(e ast.Expr, i int) bool {
	c, ok := ast.Unparen(e).(*ast.CallExpr)
	if !ok {
		// v, ok := m[k] / x.(T) / <-ch : the value comes out of existing data
		return false
	}
	if fn := f.callee(c); fn != nil {
		if fr, ok := f.a.fresh[fn]; ok && i < len(fr) {
			return fr[i]
		}
	}
	return false
}

func (f *swFn) freshExpr(e ast.Expr) bool {
	e = ast.Unparen(e)
	switch x := e.(type) {
	case *ast.CompositeLit, *ast.FuncLit, *ast.BasicLit:
		return true
	case *ast.UnaryExpr:
		if x.Op == token.AND {
			inner := ast.Unparen(x.X)
			if _, ok := inner.(*ast.CompositeLit); ok {
				return true
			}
			// &local (or a field of a fresh local): a pointer into the function's own variable
			if v := f.rootVar(inner); v != nil && f.locals[v] && !f.params[v] {
				if _, isIdent := inner.(*ast.Ident); isIdent {
					return !swIsRefType(v.Type()) || f.freshVar(v)
				}
				return f.freshPlace(inner)
			}
			return false
		}
		return !swHasRefs(f.info.TypeOf(e), 0)
	case *ast.Ident:
		if x.Name == "nil" || x.Name == "true" || x.Name == "false" {
			return true
		}
		o := f.info.Uses[x]
		if o == nil {
			o = f.info.Defs[x]
		}
		switch ov := o.(type) {
		case *types.Const, *types.Nil:
			return true
		case *types.Var:
			if !swHasRefs(ov.Type(), 0) {
				return true
			}
			return f.freshVar(ov)
		}
		return false
	case *ast.SelectorExpr:
		if t := f.info.TypeOf(e); t != nil && !swHasRefs(t, 0) {
			return true
		}
		if sel := f.info.Selections[x]; sel != nil && sel.Kind() == types.FieldVal {
			return f.freshPlace(x)
		}
		return false
	case *ast.SliceExpr:
		return f.freshExpr(x.X)
	case *ast.TypeAssertExpr:
		return f.freshExpr(x.X)
	case *ast.IndexExpr:
		if t := f.info.TypeOf(e); t != nil && !swHasRefs(t, 0) {
			return true
		}
		if f.placeKey(x) != "" {
			return f.freshPlace(x)
		}
		return false
	case *ast.CallExpr:
		if tv, ok := f.info.Types[x.Fun]; ok && tv.IsType() {
			// conversion
			return len(x.Args) == 1 && f.freshExpr(x.Args[0])
		}
		if id, ok := ast.Unparen(x.Fun).(*ast.Ident); ok {
			if _, isBuiltin := f.info.Uses[id].(*types.Builtin); isBuiltin {
				switch id.Name {
				case "new", "make":
					return true
				case "append":
					return len(x.Args) > 0 && f.freshExpr(x.Args[0])
				case "len", "cap", "min", "max", "real", "imag", "complex":
					return true
				}
				return false
			}
		}
		if t := f.info.TypeOf(e); t != nil {
			if _, isTuple := t.(*types.Tuple); !isTuple && !swHasRefs(t, 0) {
				return true
			}
		}
		return f.freshCallResult(x, 0)
	case *ast.BinaryExpr:
		return !swHasRefs(f.info.TypeOf(e), 0)
	}
	if t := f.info.TypeOf(e); t != nil && !swHasRefs(t, 0) {
		return true
	}
	return false
}

func swIsRefType(t types.Type) bool {
	switch t.Underlying().(type) {
	case *types.Pointer, *types.Map, *types.Slice, *types.Chan, *types.Interface, *types.Signature:
		return true
	}
	return false
}

// freshPlace: x.f(.g)* with a local root.
func (f *swFn) freshPlace(e ast.Expr) bool {
	key := f.placeKey(e)
	root := f.rootVar(e)
	if key == "" || root == nil || f.params[root] || !f.locals[root] {
		return false
	}
	switch f.pmemo[key] {
	case 1, 2:
		return true
	case 3:
		return false
	}
	f.pmemo[key] = 1
	ok := f.rootFresh(root)
	if ok {
		// every prefix place and the place itself: all definitions in this function fresh;
		// no definition at all is acceptable only when the root is defined by literals / zero values
		cur := ast.Unparen(e)
		for ok {
			var next ast.Expr
			isElem := false
			switch c := cur.(type) {
			case *ast.SelectorExpr:
				next = c.X
			case *ast.IndexExpr:
				next = c.X
				isElem = true
			}
			if next == nil {
				break
			}
			k := f.placeKey(cur)
			ds, has := f.fdefs[k]
			if !has && !isElem {
				// a field never set here: zero when the root was made here by a literal, unknown otherwise
				if !f.rootLiteral(root) {
					ok = false
				}
			}
			// (elements never stored by this function: the container is fresh, so they are zero values)
			for _, d := range ds {
				if d == nil || !f.freshExpr(d) {
					ok = false
					break
				}
			}
			cur = ast.Unparen(next)
		}
	}
	if ok {
		f.pmemo[key] = 2
	} else {
		f.pmemo[key] = 3
	}
	return ok
}

// rootFresh: the root variable of a place is the function's own (a struct value
// variable, or a pointer that is fresh).
func (f *swFn) rootFresh(v *types.Var) bool {
	if f.params[v] || !f.locals[v] {
		return false
	}
	return f.freshVar(v)
}

// rootLiteral: all definitions of v are (pointers to) composite literals, new(T) or zero values.
func (f *swFn) rootLiteral(v *types.Var) bool {
	for _, d := range f.defs[v] {
		if d.never || d.index >= 0 {
			return false
		}
		if d.expr == nil {
			continue
		}
		e := ast.Unparen(d.expr)
		if u, ok := e.(*ast.UnaryExpr); ok && u.Op == token.AND {
			e = ast.Unparen(u.X)
		}
		switch x := e.(type) {
		case *ast.CompositeLit:
		case *ast.CallExpr:
			id, ok := ast.Unparen(x.Fun).(*ast.Ident)
			if !ok || id.Name != "new" {
				return false
			}
		default:
			return false
		}
	}
	return true
}

func (f *swFn) resultsFresh() []bool {
	sig := f.sf.obj.Type().(*types.Signature)
	n := sig.Results().Len()
	out := make([]bool, n)
	for i := range out {
		out[i] = true
	}
	if n == 0 {
		return out
	}
	var named []types.Object
	if f.sf.decl.Type.Results != nil {
		for _, fld := range f.sf.decl.Type.Results.List {
			for _, nm := range fld.Names {
				named = append(named, f.info.Defs[nm])
			}
		}
	}
	var visit func(n ast.Node) bool
	visit = func(nd ast.Node) bool {
		switch x := nd.(type) {
		case *ast.FuncLit:
			return false // returns of closures are not returns of the function
		case *ast.ReturnStmt:
			switch {
			case len(x.Results) == 0:
				for i, o := range named {
					if i < n && o != nil && swHasRefs(o.Type(), 0) && !f.freshVar(o) {
						out[i] = false
					}
				}
			case len(x.Results) == n:
				for i, r := range x.Results {
					if !f.freshExpr(r) {
						out[i] = false
					}
				}
			case len(x.Results) == 1:
				for i := 0; i < n; i++ {
					if swHasRefs(sig.Results().At(i).Type(), 0) && !f.freshCallResult(x.Results[0], i) {
						out[i] = false
					}
				}
			}
		}
		return true
	}
	ast.Inspect(f.sf.decl.Body, visit)
	return out
}

// typeLabel: a short stable name for the type owning a field.
func swTypeLabel(t types.Type) string {
	t = swDeref(t)
	return types.TypeString(t, func(p *types.Package) string { return p.Name() })
}

// describe names the memory behind a handle expression in a line-independent way.
func (f *swFn) describe(h ast.Expr) string {
	h = ast.Unparen(h)
	switch x := h.(type) {
	case *ast.Ident:
		o := f.info.Uses[x]
		if o == nil {
			o = f.info.Defs[x]
		}
		role := "local"
		if o != nil && f.params[o] {
			role = "parameter"
		} else if v, ok := o.(*types.Var); ok && v.Parent() == v.Pkg().Scope() {
			role = "global"
		}
		return role + " " + x.Name + " " + swTypeLabel(f.info.TypeOf(h))
	case *ast.SelectorExpr:
		if sel := f.info.Selections[x]; sel != nil && sel.Kind() == types.FieldVal {
			return "field " + swTypeLabel(sel.Recv()) + "." + x.Sel.Name
		}
		return "global " + types.ExprString(h)
	case *ast.IndexExpr:
		return "element of " + f.describe(x.X)
	case *ast.CallExpr:
		return "result of " + types.ExprString(x.Fun)
	case *ast.StarExpr:
		return "target of " + f.describe(x.X)
	case *ast.SliceExpr:
		return "slice of " + f.describe(x.X)
	case *ast.TypeAssertExpr:
		return "asserted " + f.describe(x.X)
	}
	return "expression of type " + swTypeLabel(f.info.TypeOf(h))
}

// target analyses an assigned expression: is memory behind a handle written?
// Returns the handle (nil for a package-level variable), a description, and ok.
func (f *swFn) target(e ast.Expr) (handle ast.Expr, what string, global, ok bool) {
	e = ast.Unparen(e)
	switch x := e.(type) {
	case *ast.Ident:
		if x.Name == "_" {
			return nil, "", false, false
		}
		o := f.info.Uses[x]
		if o == nil {
			o = f.info.Defs[x]
		}
		if v, isVar := o.(*types.Var); isVar && v.Pkg() != nil && v.Parent() == v.Pkg().Scope() {
			return nil, "package variable " + v.Pkg().Name() + "." + v.Name(), true, true
		}
		return nil, "", false, false
	case *ast.SelectorExpr:
		sel := f.info.Selections[x]
		if sel == nil {
			// qualified identifier
			if v, isVar := f.info.Uses[x.Sel].(*types.Var); isVar {
				return nil, "package variable " + v.Pkg().Name() + "." + v.Name(), true, true
			}
			return nil, "", false, false
		}
		if sel.Kind() != types.FieldVal {
			return nil, "", false, false
		}
		what = "field " + swTypeLabel(sel.Recv()) + "." + x.Sel.Name
		if _, isPtr := f.info.TypeOf(x.X).Underlying().(*types.Pointer); isPtr || sel.Indirect() {
			return x.X, what, false, true
		}
		h, _, g, ok2 := f.target(x.X)
		return h, what, g, ok2
	case *ast.IndexExpr:
		t := f.info.TypeOf(x.X)
		if t == nil {
			return nil, "", false, false
		}
		switch u := t.Underlying().(type) {
		case *types.Map, *types.Slice:
			return x.X, "element of " + f.describe(x.X), false, true
		case *types.Pointer:
			return x.X, "element of " + f.describe(x.X), false, true
		case *types.Array:
			_ = u
			h, _, g, ok2 := f.target(x.X)
			return h, "element of " + f.describe(x.X), g, ok2
		}
		return nil, "", false, false
	case *ast.StarExpr:
		return x.X, "target of " + f.describe(x.X), false, true
	}
	return nil, "", false, false
}

func (f *swFn) writes() []swEntry {
	fn := f.a.name(f.sf.obj)
	var out []swEntry
	emit := func(kind, what string) { out = append(out, swEntry{fn, kind, what}) }
	lhs := func(e ast.Expr) {
		h, what, global, ok := f.target(e)
		if !ok {
			return
		}
		if global {
			emit("global", what)
			return
		}
		if h != nil && f.freshExpr(h) {
			return
		}
		emit("assign", what)
	}
	through := func(kind string, h ast.Expr) {
		if h == nil {
			return
		}
		if id, ok := ast.Unparen(h).(*ast.Ident); ok && id.Name == "nil" {
			return
		}
		if f.freshExpr(h) {
			return
		}
		emit(kind, f.describe(h))
	}
	ast.Inspect(f.sf.decl.Body, func(n ast.Node) bool {
		switch x := n.(type) {
		case *ast.AssignStmt:
			if x.Tok != token.DEFINE {
				for _, l := range x.Lhs {
					lhs(l)
				}
			} else {
				// := may also assign to existing variables (package-level ones cannot be redeclared in a function; skip)
			}
		case *ast.IncDecStmt:
			lhs(x.X)
		case *ast.RangeStmt:
			if x.Tok == token.ASSIGN {
				if x.Key != nil {
					lhs(x.Key)
				}
				if x.Value != nil {
					lhs(x.Value)
				}
			}
		case *ast.CallExpr:
			switch fun := ast.Unparen(x.Fun).(type) {
			case *ast.Ident:
				if _, isBuiltin := f.info.Uses[fun].(*types.Builtin); isBuiltin && len(x.Args) > 0 {
					switch fun.Name {
					case "delete", "clear":
						through("delete", x.Args[0])
					case "copy":
						through("copy", x.Args[0])
					case "append":
						through("append", x.Args[0])
					}
				}
			case *ast.SelectorExpr:
				if pk, ok := ast.Unparen(fun.X).(*ast.Ident); ok && len(x.Args) > 0 {
					if pn, isPkg := f.info.Uses[pk].(*types.PkgName); isPkg {
						p := pn.Imported().Path()
						if (p == "sort" && fun.Sel.Name != "Search" && !strings.HasPrefix(fun.Sel.Name, "Search") && !strings.HasSuffix(fun.Sel.Name, "AreSorted") && !strings.HasPrefix(fun.Sel.Name, "Is")) ||
							(p == "slices" && (strings.HasPrefix(fun.Sel.Name, "Sort") || fun.Sel.Name == "Reverse")) {
							through("sort", x.Args[0])
						}
					}
				}
			}
		}
		return true
	})
	return out
}
