#!/bin/sh
# evalrun.sh <seed> <n>: run the eval correspondence and list mismatches
rm -rf /tmp/ceval && /verif/build/ceval ceval -seed $1 -n $2 -out /tmp/ceval && cd /tmp/ceval && (ls evalcases_*.v | xargs -P 16 -I{} sh -c 'timeout 900 coqc -Q /verif/coq/theories HclV -w -notation-overridden {} > {}.out 2>&1'); cat *.out | grep -v "^ *:" | tr -d '\n' | sed 's/bad = /\nbad /g; s/skipped = /\nskipped /g' | grep "^bad" | grep -v "^bad \[\]"; cat *.out | tr -d '\n ' | sed 's/skipped=/\n/g' | grep -v "^bad" | awk -F';' '{n+=NF} END{print "skipped approx", n}'; python3 -c "
import json;r=json.load(open('/tmp/ceval/report.json'));print(r['evaluations'],r['distinct_nontrivial'],r['failures']);print({k:v for k,v in r['histogram'].items() if not k.startswith('expr') and not k.startswith('val')})"
