#!/bin/sh
# seedall.sh [Cxx ...]: run every recorded seeded change (seeded/Cxx*/patch.diff) through
# tools/seedtest.sh and print one line per seed: the check's final VIOLATION line (or MISSED).
# A regression test of the machinery itself; /repo is never modified.
cd /verif
ids="$@"
[ -z "$ids" ] && ids=$(ls seeded | sort)
for d in $ids; do
  [ -f seeded/$d/patch.diff ] || continue
  pid=$(echo $d | cut -c1-3)
  out=$(SEED_TAIL=400 tools/seedtest.sh $pid /verif/seeded/$d/patch.diff 2>&1)
  v=$(echo "$out" | grep '^VIOLATION' | tail -1)
  if [ -z "$v" ]; then
    echo "$d MISSED: $(echo "$out" | tail -1 | cut -c1-160)"
  else
    echo "$d $v"
  fi
done
