#!/usr/bin/env python3
"""evaldebug.py <rundir> <global index>...: print model output vs expected for eval cases."""
import sys, re, json, subprocess, os
rd = sys.argv[1]
rep = json.load(open(os.path.join(rd, 'report.json')))
files = rep['case_files']
for gi in map(int, sys.argv[2:]):
    # find shard
    for f in files:
        src = open(os.path.join(rd, f)).read()
        base = int(re.search(r'base_index : Z := (\d+)', src).group(1))
        body = src[src.index('Definition cases'):src.index('\n].\n')]
        cases = body.split(';\nmkCase')
        if base <= gi < base + len(cases):
            c = cases[gi - base]
            if not c.lstrip().startswith('mkCase') and 'mkCase' not in c[:60]:
                c = 'mkCase' + c
            c = c[c.index('mkCase'):]
            hdr = src[:src.index('Definition base_index')]
            tmp = os.path.join(rd, 'dbg.v')
            open(tmp, 'w').write(hdr + 'Definition c := %s.\nEval vm_compute in (let r := value (c_ctx c) (c_expr c) in (fst r, diag_ids (snd r), map d_frags (snd r))).\nEval vm_compute in (c_val c, c_diags c, c_mode c).\nEval vm_compute in c_expr c.\nEval vm_compute in (variables (c_expr c), c_vars c).\n' % c)
            out = subprocess.run('coqc -Q /verif/coq/theories HclV -w -notation-overridden dbg.v', shell=True, cwd=rd, capture_output=True, text=True)
            print('=== case', gi, rep['case_index'][gi][:300])
            print(out.stdout[-3000:], out.stderr[-1500:])
