#!/bin/sh
# compact view of mismatching cases
for i in "$@"; do python3 /verif/tools/evaldebug.py /tmp/ceval $i 2>&1 | python3 -c "
import sys,re
t=sys.stdin.read()
t=re.sub(r'\(RExact\s*\{\|\s*r_notnull := (\w+);\s*r_prefix := (\[[^\]]*\]);\s*r_lo := ([^;]*);\s*r_hi := ([^;]*);\s*r_lenlo := ([^;]*);\s*r_lenhi := ([^|]*)\|\}\)', lambda m: '(R nn=%s pre=%s lo=%s hi=%s len=%s..%s)'%tuple(' '.join(x.split()) for x in m.groups()), t)
parts=t.split('     = ')
print(parts[0][:600].replace('\n',' '))
print('MODEL :', ' '.join(parts[1].split())[:900])
print('GO    :', ' '.join(parts[2].split())[:900])
"; done
