#!/bin/sh
# seedtest.sh <Cxx> <patch.diff> [tier]: apply a seeded change to a FRESH worktree of /repo HEAD
# (outside /repo and /verif), run the property's check against it, remove the worktree.
# /repo itself is never modified.
set -e
pid=$1; patch=$2; tier=${3:-quick}
wt=/var/tmp/hclatk/cur_$(echo $pid | tr A-Z a-z)_$$
git -C /repo worktree add -q $wt HEAD
trap 'git -C /repo worktree remove --force '$wt' 2>/dev/null; git -C /repo worktree prune' EXIT
git -C $wt apply $patch
(cd $wt && GOFLAGS=-mod=mod GOPROXY=off go build ./... ) || { echo "SEED DOES NOT BUILD"; exit 3; }
cp /verif/evidence/$pid.json /tmp/ev_$pid.$$ 2>/dev/null || true
cd /verif && VERIF_REPO=$wt bin/check $pid $tier | tail -${SEED_TAIL:-4} || true
cp /tmp/ev_$pid.$$ /verif/evidence/$pid.json 2>/dev/null || true; rm -f /tmp/ev_$pid.$$
tag=$(printf %s "$wt" | sha1sum | cut -c1-10); rm -rf "/verif/build/alt_harness_$tag" "/verif/build/alt_bin_$tag"
