(* Write/FormatCheck.v — correspondence checkers for the formatter model: they
   compare the model's output with what the harness observed on the Go code.
   Executed with vm_compute from generated case files. *)
From Coq Require Import String Ascii.
From HclV Require Import Base.Prelude Write.Format.
Open Scope Z_scope.

Definition T (ty : Z) (hex : string) (g sp : Z) : tok :=
  {| ty := ty; bytes := unhex hex; gcols := g; sp := sp |}.

(* one case: input tokens, SpacesBefore of every token after Go's format *)
Definition check_format_case (c : list tok * list Z) : bool :=
  zlist_eqb (map sp (format (fst c))) (snd c).

Definition check_format_cases (cs : list (list tok * list Z)) : list Z :=
  failing check_format_case cs.

(* exhaustive spaceAfterToken table: order subject, before, after, then four byte variants:
   subject "x"/"in" with after "z", subject "x" with after "e5", subject "in" with after "E0x" *)
Definition mk (ty : Z) (bs : list Z) : tok := {| ty := ty; bytes := bs; gcols := 1; sp := 0 |}.

Definition space_table (types : list Z) : list bool :=
  flat_map (fun s =>
  flat_map (fun b =>
  flat_map (fun a =>
    [ space_after (mk s [120]) (mk b [121]) (mk a [122]);
      space_after (mk s [105; 110]) (mk b [121]) (mk a [122]);
      space_after (mk s [120]) (mk b [121]) (mk a [101; 53]);            (* after = "e5" *)
      space_after (mk s [105; 110]) (mk b [121]) (mk a [69; 48; 120]);   (* after = "E0x" *)
      space_after (mk s [120]) (mk b [121]) (mk a [101; 45; 53]);        (* after = "e-5" *)
      space_after (mk s [120]) (mk b [121]) (mk a [101; 45; 120]) ]      (* after = "e-x" *)
  ) types) types) types.

Fixpoint bits_of_string (s : string) : list bool :=
  match s with
  | EmptyString => []
  | String c r => (Nat.eqb (nat_of_ascii c) 49) :: bits_of_string r
  end.

Definition space_table_mismatches (types : list Z) (observed : list string) : list Z :=
  let obs := flat_map bits_of_string observed in
  let mdl := space_table types in
  if negb (Nat.eqb (length obs) (length mdl)) then [-1]
  else failing (fun p => Bool.eqb (fst p) (snd p)) (combine mdl obs).
