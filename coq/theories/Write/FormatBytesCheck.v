(* Write/FormatBytesCheck.v — byte-level correspondence checker for hclwrite.Format:
   composes the formatter model with the scanner model inside Coq and compares
   with what the harness observed on the Go code. Executed with vm_compute from
   generated case files.

   One case = (ts, out):
     ts   the writer tokens of the source, i.e. what hclwrite's lexConfig returned for
          the source BEFORE format: T ty "hex of Bytes" grapheme-count SpacesBefore,
          the final TokenEOF token included (same shape as the cases of FormatCheck.v);
     out  hex of the bytes hclwrite.Format returned for the source.

   check_fb_case c = true iff
     (a) write (format ts) = out               the model writes the observed bytes
     (b) the scanner model accepts those bytes (no panic / fuel status)
     (c) it yields the same token types and bytes as ts, in order
     (d) and even the same writer tokens as format ts (SpacesBefore recomputed
         from the token offsets = the formatted SpacesBefore), which is what makes
         a second Format a no-op on bytes.
   The separate functions tell the failure classes apart; fb_layout reports
   the proved sufficient condition (FormatBytesProofs.relex_exact_clean) so that
   the harness can count how many cases the theorem covers. *)
From Coq Require Import String Ascii.
From HclV Require Import Base.Prelude Gen.TokenTypes Lex.Scanner Lex.HclLex Write.Format
  Write.FormatCheck Write.FormatBytes.
Open Scope Z_scope.

Definition fb_case : Type := (list tok * string)%type.

(* (a) *)
Definition fb_bytes_ok (c : fb_case) : bool :=
  zlist_eqb (write (format (fst c))) (unhex (snd c)).

(* (b) + (c) *)
Definition fb_tokens_ok (c : fb_case) : bool := relex_ok_b (fst c).

(* (d): SpacesBefore of the re-lexed tokens, recomputed as writerTokens does *)
Fixpoint spaces_before (last : Z) (ks : list rtok) : list Z :=
  match ks with
  | [] => []
  | k :: r => (k_s k - last) :: spaces_before (k_e k) r
  end.
Definition fb_spaces_ok (c : fb_case) : bool :=
  let out := format (fst c) in
  match relex out with
  | Some ks => zlist_eqb (spaces_before 0 ks) (map sp out)
  | None => false
  end.

Definition check_fb_case (c : fb_case) : bool :=
  fb_bytes_ok c && fb_tokens_ok c && fb_spaces_ok c.

Definition check_fb_cases (cs : list fb_case) : list Z := failing check_fb_case cs.

(* per-class indices, for diagnosis *)
Definition fb_bytes_mismatches (cs : list fb_case) : list Z := failing fb_bytes_ok cs.
Definition fb_token_mismatches (cs : list fb_case) : list Z := failing fb_tokens_ok cs.
Definition fb_space_mismatches (cs : list fb_case) : list Z := failing fb_spaces_ok cs.

(* coverage of the theorem (FormatBytesProofs.relex_exact_clean): clean token types,
   local layout condition holds on the formatted list *)
Definition fb_layout (c : fb_case) : bool :=
  let ts := fst c in
  forallb (fun t => clean_ty (ty t)) ts && layout_okb (format ts).
Definition fb_hazard_free (c : fb_case) : bool :=
  hazard_free (map (fun t => Scanner.mkTok (ty t) 0 0 (bytes t)) (fst c)).
(* indices of cases where the proved sufficient condition holds *)
Definition fb_covered (cs : list fb_case) : list Z := failing (fun c => negb (fb_layout c)) cs.
(* cases that contradict the PROVED statement relex_exact_hazard_free_stmt on the real
   code (clean, hazard-free, and yet not stable): a model/implementation divergence or a
   formatter defect — must stay [] *)
Definition fb_conjecture_violations (cs : list fb_case) : list Z :=
  failing (fun c => negb (forallb (fun t => clean_ty (ty t)) (fst c) && fb_hazard_free c)
                    || (fb_tokens_ok c && fb_spaces_ok c)) cs.

(* sanity: "a   =     1\nbb=-1\n" *)
Example fb_example :
  check_fb_cases
    [ ([ T 73 "61" 1 0; T 61 "3d" 1 3; T 78 "31" 1 5; T 10 "0a" 1 0;
         T 73 "6262" 2 0; T 61 "3d" 1 0; T 45 "2d" 1 0; T 78 "31" 1 0; T 10 "0a" 1 0;
         T 9220 "" 0 0 ],
       "6120203d20310a6262203d202d310a"%string) ] = [].
Proof. vm_compute. reflexivity. Qed.
