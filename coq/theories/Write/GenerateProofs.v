(* Write/GenerateProofs.v — token-shape theorems for hclwrite's generator
   (TokensForValue, TokensForTraversal), the `for`-keyword defect of generated
   object constructors, and block-label round trips.
   Model: Write/Generate.v, Write/StringLit.v; codec: Write/StringLitProofs.v. *)
From HclV Require Import Base.Prelude Base.Utf8 Gen.TokenTypes Write.Generate Write.StringLit
  Write.StringLitProofs.

(* ---- induction principle for nested values -------------------------------- *)
Section ValInd.
  Variable P : val -> Prop.
  Hypothesis Hnull : P VNull.
  Hypothesis Hbool : forall b, P (VBool b).
  Hypothesis Hnum : forall t, P (VNum t).
  Hypothesis Hstr : forall s, P (VStr s).
  Hypothesis Hseq : forall vs, Forall P vs -> P (VSeq vs).
  Hypothesis Hmap : forall kvs, Forall (fun kv => P (snd kv)) kvs -> P (VMap kvs).

  Fixpoint val_ind2 (v : val) : P v :=
    match v with
    | VNull => Hnull
    | VBool b => Hbool b
    | VNum t => Hnum t
    | VStr s => Hstr s
    | VSeq vs => Hseq vs ((fix go (l : list val) : Forall P l :=
                             match l with
                             | [] => Forall_nil P
                             | x :: r => Forall_cons x (val_ind2 x) (go r)
                             end) vs)
    | VMap kvs => Hmap kvs ((fix go (l : list (list Z * val)) : Forall (fun kv => P (snd kv)) l :=
                               match l with
                               | [] => Forall_nil _
                               | kv :: r => Forall_cons kv (val_ind2 (snd kv)) (go r)
                               end) kvs)
    end.
End ValInd.

(* ---- bracket / quote nesting of a token sequence --------------------------- *)
Definition closer (ty : Z) : option Z :=
  if ty =? TokenOBrack then Some TokenCBrack
  else if ty =? TokenOBrace then Some TokenCBrace
  else if ty =? TokenOQuote then Some TokenCQuote
  else None.
Definition is_closer (ty : Z) : bool :=
  (ty =? TokenCBrack) || (ty =? TokenCBrace) || (ty =? TokenCQuote).

(* stack of expected closing token types; None = mismatch *)
Fixpoint bal (stk : list Z) (ts : list tok) : option (list Z) :=
  match ts with
  | [] => Some stk
  | t :: r =>
      match closer (fst t) with
      | Some c => bal (c :: stk) r
      | None =>
          if is_closer (fst t) then
            match stk with
            | c :: stk' => if c =? fst t then bal stk' r else None
            | [] => None
            end
          else bal stk r
      end
  end.
Definition balanced (ts : list tok) : Prop := bal [] ts = Some [].

Lemma utf8_eq_ascii : forall k l,
  Forall valid_scalar k -> Forall (fun b => b < 128) l -> utf8 k = l -> k = l.
Proof.
  induction k as [|r k IH]; intros l Hv Hl E.
  - simpl in E. congruence.
  - apply Forall_cons_iff in Hv. destruct Hv as [Hr Hk]. cbn [utf8 flat_map] in E. fold (utf8 k) in E.
    destruct (Z.lt_ge_cases r 128) as [Hlt|Hge].
    + rewrite utf8_enc_ascii in E by assumption. simpl in E. subst l.
      inversion Hl; subst. f_equal. apply IH; [assumption|assumption|reflexivity].
    + exfalso. assert (Hr' : 128 <= r <= 1114111) by (unfold valid_scalar in Hr; lia).
      pose proof (utf8_enc_shape r ltac:(lia)) as S. pose proof (utf8_enc_high r) as Hh.
      destruct (utf8_enc r) as [|b tl] eqn:Eu; [inversion S|].
      specialize (Hh b Hr' (or_introl eq_refl)). subst l. simpl in Hl. inversion Hl; subst. lia.
Qed.

Section GenFacts.
  Variable is_print : Z -> bool.
  Variable valid_ident : list Z -> bool.
  Notation esc := (escape is_print).
  Notation gs := (gen_string is_print).
  Notation gk := (gen_key is_print valid_ident).
  Notation gv := (gen_value is_print valid_ident).
  Notation ge := (gen_elems is_print valid_ident).
  Notation gi := (gen_items is_print valid_ident).

  Lemma gen_value_seq vs : gv (VSeq vs) = t_obrack :: ge true vs ++ [t_cbrack].
  Proof. reflexivity. Qed.

  Lemma gen_value_map kvs :
    gv (VMap kvs) = t_obrace :: (match kvs with [] => [] | _ => [t_newline] end) ++ gi kvs ++ [t_cbrace].
  Proof. reflexivity. Qed.

  (* ---- leaves -------------------------------------------------------------- *)
  Theorem gen_value_leaf :
    gv VNull = [(TokenIdent, b_null)] /\
    (forall b, gv (VBool b) = [(TokenIdent, if b then b_true else b_false)]) /\
    (forall t, gv (VNum t) = [(TokenNumberLit, t)]).
  Proof. repeat split. Qed.

  (* ---- strings --------------------------------------------------------------- *)
  Lemma gen_string_bytes s : tok_bytes (gs s) = 34 :: esc s ++ [34].
  Proof.
    unfold gen_string. destruct (esc s) as [|b tl]; [reflexivity|].
    unfold tok_bytes. simpl. rewrite ?app_nil_r. reflexivity.
  Qed.

  Theorem gen_string_shape s :
    (gs s = [t_oquote; t_cquote] /\ esc s = []) \/
    (gs s = [t_oquote; (TokenQuotedLit, esc s); t_cquote] /\ esc s <> []).
  Proof.
    unfold gen_string. destruct (esc s) as [|b tl]; [left; split; reflexivity|].
    right. split; [reflexivity|discriminate].
  Qed.

  (* ---- keys ------------------------------------------------------------------ *)
  Theorem gen_key_shape k :
    (valid_ident k = true /\ utf8 k <> b_for /\ gk k = [(TokenIdent, utf8 k)]) \/
    ((valid_ident k = false \/ utf8 k = b_for) /\ gk k = gs k).
  Proof.
    unfold gen_key. destruct (valid_ident k); simpl andb.
    - destruct (zlist_eqb (utf8 k) b_for) eqn:E; simpl negb; cbv iota.
      + right. split; [right; apply zlist_eqb_eq, E|reflexivity].
      + left. repeat split. intros Hk. apply zlist_eqb_eq in Hk. congruence.
    - right. split; [left|]; reflexivity.
  Qed.

  (* ---- nesting --------------------------------------------------------------- *)
  Lemma bal_string s stk rest : bal stk (gs s ++ rest) = bal stk rest.
  Proof.
    destruct (gen_string_shape s) as [[E _]|[E _]]; rewrite E; simpl; rewrite ?Z.eqb_refl; reflexivity.
  Qed.

  Lemma bal_key k stk rest : bal stk (gk k ++ rest) = bal stk rest.
  Proof.
    destruct (gen_key_shape k) as [(_ & _ & E)|[_ E]]; rewrite E; [reflexivity|apply bal_string].
  Qed.

  Definition nests (v : val) : Prop := forall stk rest, bal stk (gv v ++ rest) = bal stk rest.

  Lemma bal_elems vs : Forall nests vs ->
    forall first stk rest, bal stk (ge first vs ++ rest) = bal stk rest.
  Proof.
    induction 1 as [|x r Hx Hr IH]; intros first stk rest; [reflexivity|].
    cbn [gen_elems]. rewrite <- !app_assoc.
    destruct first; simpl app; [|change (bal stk (t_comma :: gv x ++ ge false r ++ rest))
      with (bal stk (gv x ++ ge false r ++ rest))]; rewrite Hx; apply IH.
  Qed.

  Lemma bal_items kvs : Forall (fun kv => nests (snd kv)) kvs ->
    forall stk rest, bal stk (gi kvs ++ rest) = bal stk rest.
  Proof.
    induction 1 as [|[k x] r Hx Hr IH]; intros stk rest; [reflexivity|].
    cbn [gen_items]. rewrite <- !app_assoc. rewrite bal_key.
    change (bal stk ([t_equal] ++ gv x ++ [t_newline] ++ gi r ++ rest))
      with (bal stk (gv x ++ [t_newline] ++ gi r ++ rest)).
    simpl in Hx. rewrite Hx.
    change (bal stk ([t_newline] ++ gi r ++ rest)) with (bal stk (gi r ++ rest)). apply IH.
  Qed.

  Lemma gen_value_nests v : nests v.
  Proof.
    induction v using val_ind2; intros stk rest; try reflexivity.
    - apply bal_string.
    - rewrite gen_value_seq. simpl app.
      change (bal stk (t_obrack :: (ge true vs ++ [t_cbrack]) ++ rest))
        with (bal (TokenCBrack :: stk) ((ge true vs ++ [t_cbrack]) ++ rest)).
      rewrite <- app_assoc. rewrite bal_elems by assumption. simpl. reflexivity.
    - rewrite gen_value_map. simpl app.
      change (bal stk (t_obrace :: ((match kvs with [] => [] | _ :: _ => [t_newline] end) ++ gi kvs ++ [t_cbrace]) ++ rest))
        with (bal (TokenCBrace :: stk) (((match kvs with [] => [] | _ :: _ => [t_newline] end) ++ gi kvs ++ [t_cbrace]) ++ rest)).
      rewrite <- !app_assoc.
      assert (E : forall X, bal (TokenCBrace :: stk) ((match kvs with [] => [] | _ :: _ => [t_newline] end) ++ X)
                            = bal (TokenCBrace :: stk) X) by (intros X; destruct kvs; reflexivity).
      rewrite E. rewrite bal_items by assumption. simpl. reflexivity.
  Qed.

  (* every generated value is well nested: brackets, braces and quotes match *)
  Theorem gen_value_balanced v : balanced (gv v).
  Proof. unfold balanced. rewrite <- (app_nil_r (gv v)). rewrite gen_value_nests. reflexivity. Qed.

  (* ---- the `for` look-ahead never fires ---------------------------------------- *)
  (* (DESIGN §9 #5, fixed in /repo by "TokensForValue must quote the object key
     for".) A generated mapping, followed by anything, is never taken for a
     for-expression by the parser's look-ahead: its first key is either a bare
     identifier other than `for`, or a quoted string, or there is no key. *)
  Theorem mapping_never_reads_as_for kvs rest :
    reads_as_for_expr (gv (VMap kvs) ++ rest) = false.
  Proof.
    rewrite gen_value_map. destruct kvs as [|[k x] r]; [reflexivity|].
    cbn [gen_items]. simpl app.
    unfold reads_as_for_expr. simpl fst. change (TokenOBrace =? TokenOBrace) with true.
    cbn [skip_newlines]. simpl fst. change (TokenNewline =? TokenNewline) with true. cbv iota.
    destruct (gen_key_shape k) as [(_ & Hne & E)|[_ E]]; rewrite E.
    - simpl. destruct (zlist_eqb (utf8 k) b_for) eqn:Ez; [|reflexivity].
      apply zlist_eqb_eq in Ez. contradiction.
    - destruct (gen_string_shape k) as [[E2 _]|[E2 _]]; rewrite E2; reflexivity.
  Qed.

  (* the key `for` itself is written quoted *)
  Theorem key_for_is_quoted : gk [102; 111; 114] = gs [102; 111; 114].
  Proof. unfold gen_key. rewrite andb_false_r. reflexivity. Qed.

  (* ---- traversals ------------------------------------------------------------- *)
  Definition step_tokens (st : step) : list tok :=
    match st with
    | TRoot name => [(TokenIdent, utf8 name)]
    | TAttr name => [t_dot; (TokenIdent, utf8 name)]
    | TIndex key => t_obrack :: gv key ++ [t_cbrack]
    | TSplat => []
    end.

  Theorem traversal_shape t :
    (Forall (fun st => st <> TSplat) t ->
       gen_traversal is_print valid_ident t = Some (flat_map step_tokens t)) /\
    (In TSplat t -> gen_traversal is_print valid_ident t = None).
  Proof.
    induction t as [|st t [IH1 IH2]]; split; intros H.
    - reflexivity.
    - contradiction.
    - inversion H as [|? ? Hst Ht]; subst. cbn [gen_traversal flat_map]. rewrite (IH1 Ht).
      destruct st; try reflexivity. congruence.
    - cbn [gen_traversal]. destruct H as [->|H]; [reflexivity|].
      rewrite (IH2 H). destruct (gen_step is_print valid_ident st); reflexivity.
  Qed.

  (* an index step with a string key is  [ " lit " ]  (or [ " " ]) and with a
     number key  [ number ] *)
  Theorem traversal_index_shape :
    (forall s, step_tokens (TIndex (VStr s)) = t_obrack :: gs s ++ [t_cbrack]) /\
    (forall n, step_tokens (TIndex (VNum n)) = [t_obrack; (TokenNumberLit, n); t_cbrack]).
  Proof. split; reflexivity. Qed.

  Theorem traversal_balanced t ts :
    gen_traversal is_print valid_ident t = Some ts -> balanced ts.
  Proof.
    unfold balanced. generalize (@nil Z) as stk. revert ts.
    induction t as [|st t IH]; intros ts stk H.
    - inversion H. reflexivity.
    - cbn [gen_traversal] in H. destruct (gen_step is_print valid_ident st) as [a|] eqn:Ea; [|discriminate].
      destruct (gen_traversal is_print valid_ident t) as [b|] eqn:Eb; [|discriminate].
      inversion H; subst. destruct st; inversion Ea; subst; simpl app.
      + apply (IH _ stk eq_refl).
      + apply (IH _ stk eq_refl).
      + change (bal stk (t_obrack :: (gv key ++ [t_cbrack]) ++ b))
          with (bal (TokenCBrack :: stk) ((gv key ++ [t_cbrack]) ++ b)).
        rewrite <- app_assoc. rewrite gen_value_nests. simpl. apply (IH _ stk eq_refl).
  Qed.

  (* ---- block labels ---------------------------------------------------------- *)
  Hypothesis brace_printable : is_print 123 = true.

  (* strings in any position are codec-correct: what follows the opening quote
     reads back as the original string and stops at the closing quote *)
  Theorem gen_string_reads_back s rest :
    Forall valid_scalar s ->
    exists body, tok_bytes (gs s) ++ rest = 34 :: body /\ read_quoted body = ROk (utf8 s) rest.
  Proof.
    intros Hv. exists (esc s ++ 34 :: rest). split.
    - rewrite gen_string_bytes. simpl. rewrite <- app_assoc. reflexivity.
    - apply string_codec; assumption.
  Qed.

  (* (1) hclsyntax reading of a written label (parseQuotedStringLiteral joins
         all literal tokens): always the label *)
  Theorem label_roundtrip_syntax l :
    Forall valid_scalar l ->
    tok_bytes (gs l) = 34 :: esc l ++ [34] /\ read_quoted (esc l ++ [34]) = ROk (utf8 l) [].
  Proof.
    intros Hv. split; [apply gen_string_bytes|]. apply string_codec; assumption.
  Qed.

  (* number of TokenQuotedLit tokens the scanner makes of the written label *)
  Definition lit_count (l : list Z) : nat := length (fst (lex_quoted (esc l ++ [34]))).

  Lemma join_lits_pieces ps : join_lits (map piece_tok ps) = read_pieces ps.
  Proof.
    induction ps as [|p ps IH]; [reflexivity|].
    destruct p; try reflexivity. cbn [map piece_tok join_lits read_pieces]. simpl fst. simpl snd.
    change (TokenQuotedLit =? TokenQuotedLit) with true. cbv iota. rewrite IH. reflexivity.
  Qed.

  Lemma last_snoc {A} (l : list A) a d : last (l ++ [a]) d = a.
  Proof. induction l as [|x l IH]; [reflexivity|]. simpl. destruct (l ++ [a]) eqn:E; [destruct l; discriminate|exact IH]. Qed.

  Lemma tok_bytes_pieces ps : tok_bytes (map piece_tok ps) = flat_map piece_bytes ps.
  Proof. induction ps as [|p ps IH]; [reflexivity|]. unfold tok_bytes in *. simpl. rewrite IH. destruct p; reflexivity. Qed.

  (* blockLabels.Replace then Current (Block.Labels() of a block built through
     the writer API, and SetLabels): for EVERY label of Unicode scalar values the
     re-scan succeeds, the stored tokens spell exactly the generated text
     "escape(label)" in quotes, and Current returns the label *)
  Theorem label_replace_roundtrip l :
    Forall valid_scalar l ->
    exists ts, replace_label is_print l = Some ts /\
               tok_bytes ts = 34 :: esc l ++ [34] /\
               current_label (LQuoted ts) = [utf8 l].
  Proof.
    intros Hv. destruct (string_codec is_print brace_printable l [] Hv) as (_ & (ps & Hlex & Hall & Hread) & _).
    unfold replace_label, relex_quoted. rewrite gen_string_bytes. rewrite Hlex.
    eexists. split; [reflexivity|]. split.
    - apply lexq_tiles in Hlex. simpl pend in Hlex. simpl app in Hlex.
      unfold tok_bytes. cbn [flat_map]. rewrite flat_map_app. simpl.
      fold (tok_bytes (map piece_tok ps)). rewrite tok_bytes_pieces. rewrite Hlex.
      reflexivity.
    - destruct ps as [|p ps].
      + simpl in Hread. inversion Hread. reflexivity.
      + set (r := map piece_tok (p :: ps) ++ [t_cquote]).
        assert (Er : exists x y z, r = x :: y :: z).
        { unfold r. simpl. destruct ps; simpl; do 3 eexists; reflexivity. }
        destruct Er as (x & y & z & Er).
        change (current_label (LQuoted (t_oquote :: r)) = [utf8 l]).
        assert (E1 : last r t_oquote = t_cquote) by apply last_snoc.
        assert (E2 : join_lits (removelast r) = Some (utf8 l)).
        { unfold r. rewrite removelast_last, join_lits_pieces. exact Hread. }
        unfold current_label. rewrite Er in *. rewrite E1, E2. reflexivity.
  Qed.

  (* writing the block out and loading it again (Bytes() + hclwrite.ParseConfig)
     gives the same label tokens: re-scanning is idempotent *)
  Theorem label_rescan_idempotent l ts :
    Forall valid_scalar l -> replace_label is_print l = Some ts -> relex_quoted ts = Some ts.
  Proof.
    intros Hv H. destruct (label_replace_roundtrip l Hv) as (ts' & E & Hb & _).
    rewrite H in E. inversion E; subst ts'. unfold replace_label in H.
    unfold relex_quoted in *. rewrite Hb. rewrite gen_string_bytes in H. exact H.
  Qed.

  (* all labels of a block at once: Labels() as built, and after reloading *)
  Theorem labels_roundtrip ls :
    Forall (Forall valid_scalar) ls ->
    exists nodes, replace_labels is_print ls = map Some nodes /\
                  current_labels (map LQuoted nodes) = map utf8 ls /\
                  map relex_quoted nodes = map Some nodes.
  Proof.
    induction 1 as [|l ls Hv _ (nodes & E1 & E2 & E3)]; [exists []; repeat split|].
    destruct (label_replace_roundtrip l Hv) as (ts & Et & _ & Ec).
    exists (ts :: nodes). unfold replace_labels, current_labels in *. cbn [map flat_map].
    rewrite Et, E1, Ec, E2, E3. rewrite (label_rescan_idempotent l ts Hv Et). repeat split.
  Qed.

  (* a label without '$' and '%' is one literal token *)
  Theorem label_relex_plain l :
    Forall valid_scalar l -> Forall plain l -> (lit_count l <= 1)%nat.
  Proof.
    intros Hv Hp. unfold lit_count, lex_quoted.
    assert (E : lexq MG (esc l ++ [34]) = (flush_lit (esc l), LClosed [])).
    { change MG with (mlit []).
      assert (G : forall l cur, Forall valid_scalar l -> Forall plain l ->
                  lexq (mlit cur) (esc l ++ [34]) = (flush_lit (cur ++ esc l), LClosed [])).
      { clear. intros l. induction l as [|r l IH]; intros cur Hv Hp.
        - cbn [escape app]. rewrite app_nil_r. apply lexq_close.
        - inversion Hv; inversion Hp; subst. cbn [escape]. rewrite <- app_assoc.
          rewrite lexq_rune_plain by assumption. rewrite IH by assumption.
          rewrite <- app_assoc. reflexivity. }
      apply (G l []); assumption. }
    rewrite E. simpl. destruct (esc l); simpl; lia.
  Qed.

  (* HISTORICAL (both fixed in /repo; kept because they explain WHY Replace
     re-scans and Current joins): (a) a reader accepting exactly one literal
     token drops the label a$b, which the scanner cuts into three tokens;
     (b) ParseStringLiteralToken applied to the whole escaped text of the label
     "$${" as ONE token (what Replace stored before it re-scanned) gives "$$${",
     because scan_string_lit.rl takes "$$" first where the scanner takes "$",
     "$${". The current Replace/Current read both back. *)
  Definition current_label_single_token (ts : list tok) : list (list Z) :=
    match ts with
    | [o; l; c] =>
        if (fst o =? TokenOQuote) && (fst l =? TokenQuotedLit) && (fst c =? TokenCQuote) then
          match unescape (snd l) with UOk s [] => [s] | _ => [] end
        else []
    | [o; c] => if (fst o =? TokenOQuote) && (fst c =? TokenCQuote) then [[]] else []
    | _ => []
    end.

  Theorem label_single_token_reader_refuted :
    is_print 97 = true -> is_print 98 = true ->
    exists l ts, Forall valid_scalar l /\ replace_label is_print l = Some ts /\
                 current_label_single_token ts = [] /\ lit_count l = 3%nat /\
                 current_label (LQuoted ts) = [utf8 l].
  Proof.
    intros Ha Hb. exists [97; 36; 98].
    assert (E : esc [97; 36; 98] = [97; 36; 98]).
    { cbn [escape]. unfold escape_rune. simpl. rewrite Ha, Hb. reflexivity. }
    unfold replace_label, relex_quoted, lit_count. rewrite gen_string_bytes, E.
    eexists. split; [repeat constructor; unfold valid_scalar; lia|].
    split; [reflexivity|]. repeat split; reflexivity.
  Qed.

  Theorem label_whole_token_unescape_refuted :
    exists l, Forall valid_scalar l /\ utf8 l = [36; 36; 123] /\
              unescape (esc l) = UOk [36; 36; 36; 123] [] /\
              exists ts, replace_label is_print l = Some ts /\ current_label (LQuoted ts) = [utf8 l].
  Proof.
    exists [36; 36; 123].
    assert (E : esc [36; 36; 123] = [36; 36; 36; 123]).
    { cbn [escape]. unfold escape_rune. simpl. rewrite brace_printable. reflexivity. }
    split; [repeat constructor; unfold valid_scalar; lia|].
    split; [reflexivity|]. rewrite E. split; [reflexivity|].
    unfold replace_label, relex_quoted. rewrite gen_string_bytes, E. eexists. split; reflexivity.
  Qed.
End GenFacts.

(* the three labels containing a template character that still lex to one
   literal token: "$", "${", "${~" (same for '%') *)
Theorem label_relex_special is_print c :
  is_print 123 = true -> is_print 126 = true -> c = 36 \/ c = 37 ->
  lit_count is_print [c] = 1%nat /\ lit_count is_print [c; 123] = 1%nat /\
  lit_count is_print [c; 123; 126] = 1%nat.
Proof.
  intros H1 H2 [-> | ->]; unfold lit_count; cbn [escape]; unfold escape_rune; simpl;
    rewrite ?H1, ?H2; repeat split; reflexivity.
Qed.
