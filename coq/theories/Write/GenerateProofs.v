(* Write/GenerateProofs.v — token-shape theorems for hclwrite's generator
   (TokensForValue, TokensForTraversal), the `for`-keyword defect of generated
   object constructors, and block-label round trips.
   Model: Write/Generate.v, Write/StringLit.v; codec: Write/StringLitProofs.v. *)
From HclV Require Import Base.Prelude Base.Utf8 Gen.TokenTypes Write.Generate Write.StringLit
  Write.StringLitProofs.

(* ---- induction principle for nested values -------------------------------- *)
Section ValInd.
  Variable P : val -> Prop.
  Hypothesis Hnull : P VNull.
  Hypothesis Hbool : forall b, P (VBool b).
  Hypothesis Hnum : forall t, P (VNum t).
  Hypothesis Hstr : forall s, P (VStr s).
  Hypothesis Hseq : forall vs, Forall P vs -> P (VSeq vs).
  Hypothesis Hmap : forall kvs, Forall (fun kv => P (snd kv)) kvs -> P (VMap kvs).

  Fixpoint val_ind2 (v : val) : P v :=
    match v with
    | VNull => Hnull
    | VBool b => Hbool b
    | VNum t => Hnum t
    | VStr s => Hstr s
    | VSeq vs => Hseq vs ((fix go (l : list val) : Forall P l :=
                             match l with
                             | [] => Forall_nil P
                             | x :: r => Forall_cons x (val_ind2 x) (go r)
                             end) vs)
    | VMap kvs => Hmap kvs ((fix go (l : list (list Z * val)) : Forall (fun kv => P (snd kv)) l :=
                               match l with
                               | [] => Forall_nil _
                               | kv :: r => Forall_cons kv (val_ind2 (snd kv)) (go r)
                               end) kvs)
    end.
End ValInd.

(* ---- bracket / quote nesting of a token sequence --------------------------- *)
Definition closer (ty : Z) : option Z :=
  if ty =? TokenOBrack then Some TokenCBrack
  else if ty =? TokenOBrace then Some TokenCBrace
  else if ty =? TokenOQuote then Some TokenCQuote
  else None.
Definition is_closer (ty : Z) : bool :=
  (ty =? TokenCBrack) || (ty =? TokenCBrace) || (ty =? TokenCQuote).

(* stack of expected closing token types; None = mismatch *)
Fixpoint bal (stk : list Z) (ts : list tok) : option (list Z) :=
  match ts with
  | [] => Some stk
  | t :: r =>
      match closer (fst t) with
      | Some c => bal (c :: stk) r
      | None =>
          if is_closer (fst t) then
            match stk with
            | c :: stk' => if c =? fst t then bal stk' r else None
            | [] => None
            end
          else bal stk r
      end
  end.
Definition balanced (ts : list tok) : Prop := bal [] ts = Some [].

Lemma utf8_eq_ascii : forall k l,
  Forall valid_scalar k -> Forall (fun b => b < 128) l -> utf8 k = l -> k = l.
Proof.
  induction k as [|r k IH]; intros l Hv Hl E.
  - simpl in E. congruence.
  - apply Forall_cons_iff in Hv. destruct Hv as [Hr Hk]. cbn [utf8 flat_map] in E. fold (utf8 k) in E.
    destruct (Z.lt_ge_cases r 128) as [Hlt|Hge].
    + rewrite utf8_enc_ascii in E by assumption. simpl in E. subst l.
      inversion Hl; subst. f_equal. apply IH; [assumption|assumption|reflexivity].
    + exfalso. assert (Hr' : 128 <= r <= 1114111) by (unfold valid_scalar in Hr; lia).
      pose proof (utf8_enc_shape r ltac:(lia)) as S. pose proof (utf8_enc_high r) as Hh.
      destruct (utf8_enc r) as [|b tl] eqn:Eu; [inversion S|].
      specialize (Hh b Hr' (or_introl eq_refl)). subst l. simpl in Hl. inversion Hl; subst. lia.
Qed.

Section GenFacts.
  Variable is_print : Z -> bool.
  Variable valid_ident : list Z -> bool.
  Notation esc := (escape is_print).
  Notation gs := (gen_string is_print).
  Notation gk := (gen_key is_print valid_ident).
  Notation gv := (gen_value is_print valid_ident).
  Notation ge := (gen_elems is_print valid_ident).
  Notation gi := (gen_items is_print valid_ident).

  Lemma gen_value_seq vs : gv (VSeq vs) = t_obrack :: ge true vs ++ [t_cbrack].
  Proof. reflexivity. Qed.

  Lemma gen_value_map kvs :
    gv (VMap kvs) = t_obrace :: (match kvs with [] => [] | _ => [t_newline] end) ++ gi kvs ++ [t_cbrace].
  Proof. reflexivity. Qed.

  (* ---- leaves -------------------------------------------------------------- *)
  Theorem gen_value_leaf :
    gv VNull = [(TokenIdent, b_null)] /\
    (forall b, gv (VBool b) = [(TokenIdent, if b then b_true else b_false)]) /\
    (forall t, gv (VNum t) = [(TokenNumberLit, t)]).
  Proof. repeat split. Qed.

  (* ---- strings --------------------------------------------------------------- *)
  Lemma gen_string_bytes s : tok_bytes (gs s) = 34 :: esc s ++ [34].
  Proof.
    unfold gen_string. destruct (esc s) as [|b tl]; [reflexivity|].
    unfold tok_bytes. simpl. rewrite ?app_nil_r. reflexivity.
  Qed.

  Theorem gen_string_shape s :
    (gs s = [t_oquote; t_cquote] /\ esc s = []) \/
    (gs s = [t_oquote; (TokenQuotedLit, esc s); t_cquote] /\ esc s <> []).
  Proof.
    unfold gen_string. destruct (esc s) as [|b tl]; [left; split; reflexivity|].
    right. split; [reflexivity|discriminate].
  Qed.

  (* ---- keys ------------------------------------------------------------------ *)
  Theorem gen_key_shape k :
    (valid_ident k = true /\ gk k = [(TokenIdent, utf8 k)]) \/
    (valid_ident k = false /\ gk k = gs k).
  Proof. unfold gen_key. destruct (valid_ident k); [left|right]; split; reflexivity. Qed.

  (* ---- nesting --------------------------------------------------------------- *)
  Lemma bal_string s stk rest : bal stk (gs s ++ rest) = bal stk rest.
  Proof.
    destruct (gen_string_shape s) as [[E _]|[E _]]; rewrite E; simpl; rewrite ?Z.eqb_refl; reflexivity.
  Qed.

  Lemma bal_key k stk rest : bal stk (gk k ++ rest) = bal stk rest.
  Proof.
    destruct (gen_key_shape k) as [[_ E]|[_ E]]; rewrite E; [reflexivity|apply bal_string].
  Qed.

  Definition nests (v : val) : Prop := forall stk rest, bal stk (gv v ++ rest) = bal stk rest.

  Lemma bal_elems vs : Forall nests vs ->
    forall first stk rest, bal stk (ge first vs ++ rest) = bal stk rest.
  Proof.
    induction 1 as [|x r Hx Hr IH]; intros first stk rest; [reflexivity|].
    cbn [gen_elems]. rewrite <- !app_assoc.
    destruct first; simpl app; [|change (bal stk (t_comma :: gv x ++ ge false r ++ rest))
      with (bal stk (gv x ++ ge false r ++ rest))]; rewrite Hx; apply IH.
  Qed.

  Lemma bal_items kvs : Forall (fun kv => nests (snd kv)) kvs ->
    forall stk rest, bal stk (gi kvs ++ rest) = bal stk rest.
  Proof.
    induction 1 as [|[k x] r Hx Hr IH]; intros stk rest; [reflexivity|].
    cbn [gen_items]. rewrite <- !app_assoc. rewrite bal_key.
    change (bal stk ([t_equal] ++ gv x ++ [t_newline] ++ gi r ++ rest))
      with (bal stk (gv x ++ [t_newline] ++ gi r ++ rest)).
    simpl in Hx. rewrite Hx.
    change (bal stk ([t_newline] ++ gi r ++ rest)) with (bal stk (gi r ++ rest)). apply IH.
  Qed.

  Lemma gen_value_nests v : nests v.
  Proof.
    induction v using val_ind2; intros stk rest; try reflexivity.
    - apply bal_string.
    - rewrite gen_value_seq. simpl app.
      change (bal stk (t_obrack :: (ge true vs ++ [t_cbrack]) ++ rest))
        with (bal (TokenCBrack :: stk) ((ge true vs ++ [t_cbrack]) ++ rest)).
      rewrite <- app_assoc. rewrite bal_elems by assumption. simpl. reflexivity.
    - rewrite gen_value_map. simpl app.
      change (bal stk (t_obrace :: ((match kvs with [] => [] | _ :: _ => [t_newline] end) ++ gi kvs ++ [t_cbrace]) ++ rest))
        with (bal (TokenCBrace :: stk) (((match kvs with [] => [] | _ :: _ => [t_newline] end) ++ gi kvs ++ [t_cbrace]) ++ rest)).
      rewrite <- !app_assoc.
      assert (E : forall X, bal (TokenCBrace :: stk) ((match kvs with [] => [] | _ :: _ => [t_newline] end) ++ X)
                            = bal (TokenCBrace :: stk) X) by (intros X; destruct kvs; reflexivity).
      rewrite E. rewrite bal_items by assumption. simpl. reflexivity.
  Qed.

  (* every generated value is well nested: brackets, braces and quotes match *)
  Theorem gen_value_balanced v : balanced (gv v).
  Proof. unfold balanced. rewrite <- (app_nil_r (gv v)). rewrite gen_value_nests. reflexivity. Qed.

  (* ---- the `for` defect ---------------------------------------------------- *)
  Definition k_for : list Z := [102; 111; 114].

  (* refutation witness: a mapping whose first key is the identifier `for` is
     generated as  { NEWLINE for = ...  and the parser's look-ahead takes it for a
     for-expression *)
  Theorem value_roundtrip_refuted :
    valid_ident k_for = true ->
    forall x r,
      (exists rest, gv (VMap ((k_for, x) :: r)) = t_obrace :: t_newline :: (TokenIdent, b_for) :: t_equal :: rest) /\
      reads_as_for_expr (gv (VMap ((k_for, x) :: r))) = true.
  Proof.
    intros H x r. rewrite gen_value_map. cbn [gen_items]. unfold gen_key. rewrite H.
    split; [eexists; reflexivity|reflexivity].
  Qed.

  (* positive part: when the first key is anything else (or there is no key),
     the look-ahead does not fire at the top level *)
  Theorem keys_roundtrip_partial kvs :
    match kvs with
    | (k, _) :: _ => Forall valid_scalar k /\ k <> k_for
    | [] => True
    end ->
    reads_as_for_expr (gv (VMap kvs)) = false.
  Proof.
    intros H. rewrite gen_value_map. destruct kvs as [|[k x] r]; [reflexivity|].
    destruct H as [Hv Hne]. cbn [gen_items]. simpl app.
    unfold reads_as_for_expr. simpl fst. change (TokenOBrace =? TokenOBrace) with true.
    cbn [skip_newlines]. simpl fst. change (TokenNewline =? TokenNewline) with true. cbv iota.
    destruct (gen_key_shape k) as [[_ E]|[_ E]]; rewrite E.
    - simpl. destruct (zlist_eqb (utf8 k) b_for) eqn:Ez; [|reflexivity].
      exfalso. apply Hne. apply zlist_eqb_eq in Ez.
      apply utf8_eq_ascii; [assumption| |exact Ez]. unfold b_for. repeat constructor; lia.
    - destruct (gen_string_shape k) as [[E2 _]|[E2 _]]; rewrite E2; reflexivity.
  Qed.

  (* ---- traversals ------------------------------------------------------------- *)
  Definition step_tokens (st : step) : list tok :=
    match st with
    | TRoot name => [(TokenIdent, utf8 name)]
    | TAttr name => [t_dot; (TokenIdent, utf8 name)]
    | TIndex key => t_obrack :: gv key ++ [t_cbrack]
    | TSplat => []
    end.

  Theorem traversal_shape t :
    (Forall (fun st => st <> TSplat) t ->
       gen_traversal is_print valid_ident t = Some (flat_map step_tokens t)) /\
    (In TSplat t -> gen_traversal is_print valid_ident t = None).
  Proof.
    induction t as [|st t [IH1 IH2]]; split; intros H.
    - reflexivity.
    - contradiction.
    - inversion H as [|? ? Hst Ht]; subst. cbn [gen_traversal flat_map]. rewrite (IH1 Ht).
      destruct st; try reflexivity. congruence.
    - cbn [gen_traversal]. destruct H as [->|H]; [reflexivity|].
      rewrite (IH2 H). destruct (gen_step is_print valid_ident st); reflexivity.
  Qed.

  (* an index step with a string key is  [ " lit " ]  (or [ " " ]) and with a
     number key  [ number ] *)
  Theorem traversal_index_shape :
    (forall s, step_tokens (TIndex (VStr s)) = t_obrack :: gs s ++ [t_cbrack]) /\
    (forall n, step_tokens (TIndex (VNum n)) = [t_obrack; (TokenNumberLit, n); t_cbrack]).
  Proof. split; reflexivity. Qed.

  Theorem traversal_balanced t ts :
    gen_traversal is_print valid_ident t = Some ts -> balanced ts.
  Proof.
    unfold balanced. generalize (@nil Z) as stk. revert ts.
    induction t as [|st t IH]; intros ts stk H.
    - inversion H. reflexivity.
    - cbn [gen_traversal] in H. destruct (gen_step is_print valid_ident st) as [a|] eqn:Ea; [|discriminate].
      destruct (gen_traversal is_print valid_ident t) as [b|] eqn:Eb; [|discriminate].
      inversion H; subst. destruct st; inversion Ea; subst; simpl app.
      + apply (IH _ stk eq_refl).
      + apply (IH _ stk eq_refl).
      + change (bal stk (t_obrack :: (gv key ++ [t_cbrack]) ++ b))
          with (bal (TokenCBrack :: stk) ((gv key ++ [t_cbrack]) ++ b)).
        rewrite <- app_assoc. rewrite gen_value_nests. simpl. apply (IH _ stk eq_refl).
  Qed.

  (* ---- block labels ---------------------------------------------------------- *)
  Hypothesis brace_printable : is_print 123 = true.

  (* strings in any position are codec-correct: what follows the opening quote
     reads back as the original string and stops at the closing quote *)
  Theorem gen_string_reads_back s rest :
    Forall valid_scalar s ->
    exists body, tok_bytes (gs s) ++ rest = 34 :: body /\ read_quoted body = ROk (utf8 s) rest.
  Proof.
    intros Hv. exists (esc s ++ 34 :: rest). split.
    - rewrite gen_string_bytes. simpl. rewrite <- app_assoc. reflexivity.
    - apply string_codec; assumption.
  Qed.

  (* (1) hclsyntax reading of a written label (parseQuotedStringLiteral joins
         all literal tokens): always the label *)
  Theorem label_roundtrip_syntax l :
    Forall valid_scalar l ->
    tok_bytes (gs l) = 34 :: esc l ++ [34] /\ read_quoted (esc l ++ [34]) = ROk (utf8 l) [].
  Proof.
    intros Hv. split; [apply gen_string_bytes|]. apply string_codec; assumption.
  Qed.

  (* number of TokenQuotedLit tokens the scanner makes of the written label *)
  Definition lit_count (l : list Z) : nat := length (fst (lex_quoted (esc l ++ [34]))).

  Lemma join_lits_pieces ps : join_lits (map piece_tok ps) = read_pieces ps.
  Proof.
    induction ps as [|p ps IH]; [reflexivity|].
    destruct p; try reflexivity. cbn [map piece_tok join_lits read_pieces]. simpl fst. simpl snd.
    change (TokenQuotedLit =? TokenQuotedLit) with true. cbv iota. rewrite IH. reflexivity.
  Qed.

  Lemma last_snoc {A} (l : list A) a d : last (l ++ [a]) d = a.
  Proof. induction l as [|x l IH]; [reflexivity|]. simpl. destruct (l ++ [a]) eqn:E; [destruct l; discriminate|exact IH]. Qed.

  Lemma removelast_snoc {A} (l : list A) a : removelast (l ++ [a]) = l.
  Proof. apply removelast_last. Qed.

  (* (2) hclwrite reading after Bytes() + ParseConfig (blockLabels.Current on
         the re-lexed tokens, joining all literal tokens): always the label *)
  Theorem label_relex_roundtrip l :
    Forall valid_scalar l ->
    exists ts, relex_quoted (gs l) = Some ts /\ current_label (LQuoted ts) = [utf8 l].
  Proof.
    intros Hv. destruct (string_codec is_print brace_printable l [] Hv) as (_ & (ps & Hlex & Hall & Hread) & _).
    unfold relex_quoted. rewrite gen_string_bytes. rewrite Hlex.
    eexists. split; [reflexivity|].
    destruct ps as [|p ps].
    - simpl in Hread. inversion Hread. reflexivity.
    - set (r := map piece_tok (p :: ps) ++ [t_cquote]).
      assert (Er : exists x y z, r = x :: y :: z).
      { unfold r. simpl. destruct ps; simpl; do 3 eexists; reflexivity. }
      destruct Er as (x & y & z & Er).
      change (current_label (LQuoted (t_oquote :: r)) = [utf8 l]).
      assert (E1 : last r t_oquote = t_cquote) by apply last_snoc.
      assert (E2 : join_lits (removelast r) = Some (utf8 l)).
      { unfold r. rewrite removelast_snoc, join_lits_pieces. exact Hread. }
      unfold current_label. rewrite Er in *. rewrite E1, E2. reflexivity.
  Qed.

  (* sufficient condition for a label to be lexed as ONE literal token: no '$'
     and no '%' *)
  Theorem label_relex_plain l :
    Forall valid_scalar l -> Forall plain l -> (lit_count l <= 1)%nat.
  Proof.
    intros Hv Hp. unfold lit_count, lex_quoted.
    assert (E : lexq MG (esc l ++ [34]) = (flush_lit (esc l), LClosed [])).
    { change MG with (mlit []).
      assert (G : forall l cur, Forall valid_scalar l -> Forall plain l ->
                  lexq (mlit cur) (esc l ++ [34]) = (flush_lit (cur ++ esc l), LClosed [])).
      { clear. intros l. induction l as [|r l IH]; intros cur Hv Hp.
        - cbn [escape app]. rewrite app_nil_r. apply lexq_close.
        - inversion Hv; inversion Hp; subst. cbn [escape]. rewrite <- app_assoc.
          rewrite lexq_rune_plain by assumption. rewrite IH by assumption.
          rewrite <- app_assoc. reflexivity. }
      apply (G l []); assumption. }
    rewrite E. simpl. destruct (esc l); simpl; lia.
  Qed.

  (* HISTORICAL (DESIGN §9 #3, fixed in /repo by "Block.Labels must read quoted
     labels that contain $ or %"): the reader that accepted exactly one literal
     token dropped the label  a$b , which is lexed as three literal tokens.
     Kept to document why the literal tokens must be joined; the correspondence
     run distinguishes the two readers. *)
  Definition current_label_single_token (ts : list tok) : list (list Z) :=
    match ts with
    | [o; l; c] =>
        if (fst o =? TokenOQuote) && (fst l =? TokenQuotedLit) && (fst c =? TokenCQuote) then
          match unescape (snd l) with UOk s [] => [s] | _ => [] end
        else []
    | [o; c] => if (fst o =? TokenOQuote) && (fst c =? TokenCQuote) then [[]] else []
    | _ => []
    end.

  Theorem label_single_token_reader_refuted :
    is_print 97 = true -> is_print 98 = true ->
    exists l ts, Forall valid_scalar l /\ relex_quoted (gs l) = Some ts /\
                 current_label_single_token ts = [] /\ lit_count l = 3%nat /\
                 current_label (LQuoted ts) = [utf8 l].
  Proof.
    intros Ha Hb. exists [97; 36; 98].
    assert (E : esc [97; 36; 98] = [97; 36; 98]).
    { cbn [escape]. unfold escape_rune. simpl. rewrite Ha, Hb. reflexivity. }
    unfold relex_quoted, lit_count. rewrite gen_string_bytes, E.
    eexists. split; [repeat constructor; unfold valid_scalar; lia|].
    split; [reflexivity|]. repeat split; reflexivity.
  Qed.

  (* (3) Labels() of the block as built (blockLabels.Current on the tokens
         Replace made: ONE TokenQuotedLit holding the whole escaped text, which
         ParseStringLiteralToken cuts differently from the scanner) *)
  Theorem label_fresh_roundtrip l :
    Forall valid_scalar l -> no_double l ->
    current_label (LQuoted (gs l)) = [utf8 l].
  Proof.
    intros Hv Hnd. pose proof (unescape_escape_no_double is_print brace_printable l Hv Hnd) as H.
    destruct (gen_string_shape l) as [[E En]|[E _]]; rewrite E.
    - rewrite En in H. change (unescape []) with (UOk [] []) in H. inversion H. reflexivity.
    - cbn [current_label last removelast join_lits]. simpl fst. simpl snd.
      change (TokenOQuote =? TokenOQuote) with true. change (TokenCQuote =? TokenCQuote) with true.
      change (TokenQuotedLit =? TokenQuotedLit) with true. simpl andb. cbv iota.
      rewrite H. rewrite app_nil_r. reflexivity.
  Qed.

  Theorem label_fresh_refuted :
    exists l, Forall valid_scalar l /\ current_label (LQuoted (gs l)) = [[36; 36; 36; 123]]
              /\ utf8 l = [36; 36; 123].
  Proof.
    exists [36; 36; 123].
    assert (E : esc [36; 36; 123] = [36; 36; 36; 123]).
    { cbn [escape]. unfold escape_rune. simpl. rewrite brace_printable. reflexivity. }
    split; [repeat constructor; unfold valid_scalar; lia|].
    unfold gen_string. rewrite E. split; reflexivity.
  Qed.

  (* all labels of a block at once *)
  Theorem labels_fresh_roundtrip ls :
    Forall (fun l => Forall valid_scalar l /\ no_double l) ls ->
    current_labels (map LQuoted (replace_labels is_print ls)) = map utf8 ls.
  Proof.
    induction 1 as [|l ls [Hv Hnd] _ IH]; [reflexivity|].
    unfold current_labels, replace_labels in *. cbn [map flat_map].
    rewrite label_fresh_roundtrip by assumption. rewrite IH. reflexivity.
  Qed.

  Theorem labels_relex_roundtrip ls :
    Forall (Forall valid_scalar) ls ->
    exists nodes, map (fun l => relex_quoted (gs l)) ls = map Some nodes /\
                  current_labels (map LQuoted nodes) = map utf8 ls.
  Proof.
    induction 1 as [|l ls Hv _ (nodes & E1 & E2)]; [exists []; split; reflexivity|].
    destruct (label_relex_roundtrip l Hv) as (ts & Et & Ec).
    exists (ts :: nodes). split.
    - cbn [map]. rewrite Et, E1. reflexivity.
    - unfold current_labels in *. cbn [map flat_map]. rewrite Ec, E2. reflexivity.
  Qed.
End GenFacts.

(* the three labels containing a template character that still lex to one
   literal token: "$", "${", "${~" (same for '%') *)
Theorem label_relex_special is_print c :
  is_print 123 = true -> is_print 126 = true -> c = 36 \/ c = 37 ->
  lit_count is_print [c] = 1%nat /\ lit_count is_print [c; 123] = 1%nat /\
  lit_count is_print [c; 123; 126] = 1%nat.
Proof.
  intros H1 H2 [-> | ->]; unfold lit_count; cbn [escape]; unfold escape_rune; simpl;
    rewrite ?H1, ?H2; repeat split; reflexivity.
Qed.
