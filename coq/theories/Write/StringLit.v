(* Write/StringLit.v — executable model of the READ side of quoted strings.
   Definitions only.

   1. [lexq]   — hclsyntax/scan_tokens.rl, machine `stringTemplate`: how the
                 bytes after an opening quote are cut into TokenQuotedLit /
                 TokenQuotedNewline / TokenInvalid pieces up to the closing
                 quote or a template introducer. (The grammar of the .rl file is
                 modelled, written as the byte-at-a-time automaton it denotes;
                 the Ragel-generated tables are not translated.)
   2. [sscan]  — hclsyntax/scan_string_lit.rl, entry `quoted`: how ONE
                 TokenQuotedLit is cut into escape-sequence slices.
   3. [unescape] — hclsyntax/parser.go ParseStringLiteralToken (1908-2067).
   4. [read_quoted] — parseQuotedStringLiteral / the template parser restricted
                 to literal-only strings: concatenation of the un-escaped
                 QuotedLit tokens; anything else is an explicit outcome.
   5. [current_labels] — hclwrite blockLabels.Current (ast_block.go:138-200; the
                 version that joins all literal tokens of a label).

   Domain: the byte strings are (lax) UTF-8 as the scanners' AnyUTF8 pattern
   understands it; a malformed sequence is the explicit outcome LBadUtf8 /
   UStuck (the writer never produces one). *)
From HclV Require Import Base.Prelude Base.Utf8 Gen.TokenTypes Write.Generate.

Definition is_tmpl_char (b : Z) : bool := (b =? 36) || (b =? 37).   (* '$' '%' *)
Definition is_nl_char (b : Z) : bool := (b =? 13) || (b =? 10).

(* number of continuation bytes announced by a lead byte of AnyUTF8; None for a
   byte that cannot start a character (0x80..0xBF, 0xF8..0xFF) *)
Definition lead_len (b : Z) : option nat :=
  if b <? 128 then Some 0%nat
  else if (192 <=? b) && (b <=? 223) then Some 1%nat
  else if (224 <=? b) && (b <=? 239) then Some 2%nat
  else if (240 <=? b) && (b <=? 247) then Some 3%nat
  else None.

(* ======================================================================== *)
(* 1. scan_tokens.rl, stringTemplate                                         *)
(* ======================================================================== *)
Inductive piece :=
| PLit (bs : list Z)        (* TokenQuotedLit *)
| PNewline (bs : list Z)    (* TokenQuotedNewline *)
| PInvalid (bs : list Z).   (* TokenInvalid *)

Inductive lstatus :=
| LClosed (rest : list Z)            (* EndStringTmpl; rest = bytes after the quote *)
| LIntro (c : Z) (rest : list Z)     (* "${" / "%{" : TemplateInterp / TemplateControl; rest after '{' *)
| LBadUtf8                           (* malformed UTF-8: outside the modelled domain *)
| LUnterminated.                     (* input ended inside the string *)

Inductive mstate :=
| MG                                  (* between tokens *)
| MLit (cur : list Z)                 (* in (QuotedStringLiteralWithEsc)+, at a character boundary *)
| MBs (pre : list Z)                  (* as MLit pre, then one '\' awaiting its character *)
| MUtf (k : nat) (cur : list Z)       (* inside a multi-byte character, k+1 continuation bytes missing *)
| MD (c : Z)                          (* "$" or "%" seen *)
| MDD (c : Z)                         (* "$$" / "%%" seen *)
| MEsc (c : Z)                        (* "$${" / "%%{" seen, optional "~" may follow *)
| MNl (cur : list Z).                 (* NewlineCharsSeq *)

Inductive stopkind := KClosed | KIntro (c : Z) | KBad.
Inductive mres :=
| MCont (out : list piece) (st : mstate)
| MStop (out : list piece) (k : stopkind).

Definition flush_lit (cur : list Z) : list piece :=
  match cur with [] => [] | _ => [PLit cur] end.

Definition madd (out : list piece) (r : mres) : mres :=
  match r with
  | MCont o st => MCont (out ++ o) st
  | MStop o k => MStop (out ++ o) k
  end.

(* a token starts at byte b *)
Definition mground (b : Z) : mres :=
  if b =? 34 then MStop [] KClosed
  else if is_tmpl_char b then MCont [] (MD b)
  else if b =? 92 then MCont [] (MBs [])
  else if is_nl_char b then MCont [] (MNl [b])
  else match lead_len b with
       | Some O => MCont [] (MLit [b])
       | Some (S k) => MCont [] (MUtf k [b])
       | None => MStop [] KBad
       end.

Definition mstep (st : mstate) (b : Z) : mres :=
  match st with
  | MG => mground b
  | MLit cur =>
      if (b =? 34) || is_tmpl_char b || is_nl_char b then madd [PLit cur] (mground b)
      else if b =? 92 then MCont [] (MBs cur)
      else match lead_len b with
           | Some O => MCont [] (MLit (cur ++ [b]))
           | Some (S k) => MCont [] (MUtf k (cur ++ [b]))
           | None => MStop [PLit cur] KBad
           end
  | MBs pre =>
      (* '\\' StringLiteralChars, StringLiteralChars = AnyUTF8 - ("\r"|"\n") *)
      if is_nl_char b then madd (flush_lit pre ++ [PInvalid [92]]) (mground b)
      else match lead_len b with
           | Some O => MCont [] (MLit (pre ++ [92; b]))
           | Some (S k) => MCont [] (MUtf k (pre ++ [92; b]))
           | None => MStop (flush_lit pre) KBad
           end
  | MUtf k cur =>
      if is_cont b then
        match k with
        | O => MCont [] (MLit (cur ++ [b]))
        | S k' => MCont [] (MUtf k' (cur ++ [b]))
        end
      else MStop [] KBad
  | MD c =>
      (* TemplateInterp / TemplateControl, or TemplateNot* = c (c "{" | ^"{" with fhold) *)
      if b =? 123 then MStop [] (KIntro c)
      else if b =? c then MCont [] (MDD c)
      else madd [PLit [c]] (mground b)
  | MDD c =>
      if b =? 123 then MCont [] (MEsc c)
      else if b =? c then MCont [PLit [c]] (MDD c)
      else madd [PLit [c]; PLit [c]] (mground b)
  | MEsc c =>
      if b =? 126 then MCont [PLit [c; c; 123; 126]] MG
      else madd [PLit [c; c; 123]] (mground b)
  | MNl cur =>
      if is_nl_char b then MCont [] (MNl (cur ++ [b]))
      else madd [PNewline cur] (mground b)
  end.

Definition padd (out : list piece) (res : list piece * lstatus) : list piece * lstatus :=
  (out ++ fst res, snd res).

Fixpoint lexq (st : mstate) (bs : list Z) : list piece * lstatus :=
  match bs with
  | [] => ([], LUnterminated)
  | b :: r =>
      match mstep st b with
      | MCont out st' => padd out (lexq st' r)
      | MStop out KClosed => (out, LClosed r)
      | MStop out (KIntro c) => (out, LIntro c r)
      | MStop out KBad => (out, LBadUtf8)
      end
  end.

(* bytes following an opening quote *)
Definition lex_quoted (bs : list Z) : list piece * lstatus := lexq MG bs.

(* ======================================================================== *)
(* 2. scan_string_lit.rl, entry `quoted`                                     *)
(* ======================================================================== *)
Inductive sstate :=
| SG (acc : list Z)                  (* between tokens; acc = literal bytes not yet returned (data[te:p]) *)
| SBs                                (* "\" *)
| SUtf (k : nat) (cur : list Z)      (* "\" + incomplete multi-byte character *)
| SU4 (n : nat) (cur : list Z)       (* "\u" + n hex digits, n < 4 *)
| SU8 (n : nat) (cur : list Z)       (* "\U" + n hex digits, n < 8 *)
| SD1 (c : Z)                        (* "$" | "%" *)
| SD2 (c : Z)                        (* "$$" | "%%" *)
| SCR.                               (* "\r" *)

Definition flush (acc : list Z) : list (list Z) :=
  match acc with [] => [] | _ => [acc] end.

(* None = the automaton has no transition (malformed UTF-8 after a backslash) *)
Definition sres : Type := option (list (list Z) * sstate).

Definition sadd (out : list (list Z)) (r : sres) : sres :=
  match r with Some (o, st) => Some (out ++ o, st) | None => None end.

Definition sground (acc : list Z) (b : Z) : sres :=
  if b =? 92 then Some (flush acc, SBs)
  else if is_tmpl_char b then Some (flush acc, SD1 b)
  else if b =? 13 then Some (flush acc, SCR)
  else if b =? 10 then Some (flush acc ++ [[10]], SG [])
  else Some ([], SG (acc ++ [b])).

(* Tokens that cannot be extended are returned as soon as they are complete
   (the Ragel machine returns them on the following byte or at EOF; the slices
   are the same). *)
Definition sstep (st : sstate) (b : Z) : sres :=
  match st with
  | SG acc => sground acc b
  | SBs =>
      if b =? 117 then Some ([], SU4 0 [92; 117])
      else if b =? 85 then Some ([], SU8 0 [92; 85])
      else match lead_len b with
           | Some O => Some ([[92; b]], SG [])
           | Some (S k) => Some ([], SUtf k [92; b])
           | None => sadd [[92]] (sground [] b)
           end
  | SUtf k cur =>
      if is_cont b then
        match k with
        | O => Some ([cur ++ [b]], SG [])
        | S k' => Some ([], SUtf k' (cur ++ [b]))
        end
      else None
  | SU4 n cur =>
      if is_hex b then
        (if Nat.eqb n 3 then Some ([cur ++ [b]], SG []) else Some ([], SU4 (S n) (cur ++ [b])))
      else sadd [cur] (sground [] b)
  | SU8 n cur =>
      if is_hex b then
        (if Nat.eqb n 7 then Some ([cur ++ [b]], SG []) else Some ([], SU8 (S n) (cur ++ [b])))
      else sadd [cur] (sground [] b)
  | SD1 c =>
      if b =? c then Some ([], SD2 c) else sadd [[c]] (sground [] b)
  | SD2 c =>
      if b =? 123 then Some ([[c; c; 123]], SG []) else sadd [[c; c]] (sground [] b)
  | SCR =>
      if b =? 10 then Some ([[13; 10]], SG []) else sadd [[13]] (sground [] b)
  end.

Definition sfinish (st : sstate) : option (list (list Z)) :=
  match st with
  | SG acc => Some (flush acc)
  | SBs => Some [[92]]
  | SUtf _ _ => None
  | SU4 _ cur | SU8 _ cur => Some [cur]
  | SD1 c => Some [[c]]
  | SD2 c => Some [[c; c]]
  | SCR => Some [[13]]
  end.

Definition oapp (out : list (list Z)) (o : option (list (list Z))) : option (list (list Z)) :=
  match o with Some sl => Some (out ++ sl) | None => None end.

Fixpoint sscan (st : sstate) (bs : list Z) : option (list (list Z)) :=
  match bs with
  | [] => sfinish st
  | b :: r =>
      match sstep st b with
      | Some (out, st') => oapp out (sscan st' r)
      | None => None
      end
  end.

(* scanStringLit(data, true) *)
Definition scan_string_lit (bs : list Z) : option (list (list Z)) := sscan (SG []) bs.

(* ======================================================================== *)
(* 3. ParseStringLiteralToken (quoted = true)                                *)
(* ======================================================================== *)
Inductive uerr :=
| EBackslashEnd      (* "Backslash must be followed by an escape sequence selector character." *)
| EShortU4           (* "The \u escape sequence must be followed by four hexadecimal digits." *)
| EShortU8           (* "The \U escape sequence must be followed by eight hexadecimal digits." *)
| ECannotEncode      (* "Cannot encode character U+.. in UTF-8." *)
| EBadSelector.      (* "The symbol .. is not a valid escape sequence selector." *)

Definition uerr_code (e : uerr) : Z :=
  match e with EBackslashEnd => 1 | EShortU4 => 2 | EShortU8 => 3 | ECannotEncode => 4 | EBadSelector => 5 end.

Inductive ures :=
| UOk (bs : list Z) (errs : list uerr)   (* returned string, diagnostics in order *)
| UPanic                                 (* panic(err) after strconv.ParseUint *)
| UStuck.                                (* scanner left the modelled domain *)

Definition zlen (l : list Z) : Z := Z.of_nat (length l).

(* one iteration of `for _, slice := range slices`; None = panic *)
Definition uslice (sl : list Z) : option (list Z * list uerr) :=
  match sl with
  | [] => Some ([], [])
  | c :: tl =>
      if c =? 92 then
        match tl with
        | [] => Some (sl, [EBackslashEnd])
        | sel :: digits =>
            if sel =? 110 then Some ([10], [])
            else if sel =? 114 then Some ([13], [])
            else if sel =? 116 then Some ([9], [])
            else if sel =? 34 then Some ([34], [])
            else if sel =? 92 then Some ([92], [])
            else if (sel =? 117) || (sel =? 85) then
              if (sel =? 117) && negb (zlen sl =? 6) then Some (sl, [EShortU4])
              else if (sel =? 85) && negb (zlen sl =? 10) then Some (sl, [EShortU8])
              else match parse_hex digits with
                   | None => None
                   | Some num =>
                       (* rune(num): int32 conversion *)
                       let r := if 2147483648 <=? num then num - 4294967296 else num in
                       if valid_scalar_b r then Some (utf8_enc r, [])
                       else Some (sl, [ECannotEncode])
                   end
            else Some (tl, [EBadSelector])
        end
      else if is_tmpl_char c then
        match tl with
        | [c1; c2] => if (c1 =? c) && (c2 =? 123) then Some ([c; 123], []) else Some (sl, [])
        | _ => Some (sl, [])
        end
      else Some (sl, [])
  end.

Fixpoint uslices (sls : list (list Z)) : option (list Z * list uerr) :=
  match sls with
  | [] => Some ([], [])
  | sl :: r =>
      match uslice sl, uslices r with
      | Some (a, e1), Some (b, e2) => Some (a ++ b, e1 ++ e2)
      | _, _ => None
      end
  end.

Definition unescape (tokbytes : list Z) : ures :=
  match scan_string_lit tokbytes with
  | None => UStuck
  | Some sls => match uslices sls with
                | Some (bs, es) => UOk bs es
                | None => UPanic
                end
  end.

(* ======================================================================== *)
(* 4. reading a whole quoted string back                                     *)
(* ======================================================================== *)
Inductive rres :=
| ROk (content : list Z) (rest : list Z)   (* literal-only string, no diagnostics *)
| RErr.                                    (* template sequence, newline, invalid token, escape error, ... *)

Fixpoint read_pieces (ps : list piece) : option (list Z) :=
  match ps with
  | [] => Some []
  | PLit bs :: r =>
      match unescape bs, read_pieces r with
      | UOk s [], Some t => Some (s ++ t)
      | _, _ => None
      end
  | _ :: _ => None
  end.

(* bytes after the opening quote -> string content (parseQuotedStringLiteral;
   the template parser gives the same content for literal-only templates) *)
Definition read_quoted (bs : list Z) : rres :=
  match lex_quoted bs with
  | (ps, LClosed rest) => match read_pieces ps with Some s => ROk s rest | None => RErr end
  | _ => RErr
  end.

(* ======================================================================== *)
(* 5. blockLabels.Current and re-lexing of a label                           *)
(* ======================================================================== *)
Inductive label_node :=
| LQuoted (ts : list tok)
| LIdent (t : tok).

(* the loop over tokens[1 : len(tokens)-1]: every token must be a TokenQuotedLit
   that un-escapes without error diagnostics; the parts are joined *)
Fixpoint join_lits (ts : list tok) : option (list Z) :=
  match ts with
  | [] => Some []
  | t :: r =>
      if fst t =? TokenQuotedLit then
        match unescape (snd t) with
        | UOk s [] => match join_lits r with Some x => Some (s ++ x) | None => None end
        | _ => None
        end
      else None
  end.

Definition current_label (n : label_node) : list (list Z) :=
  match n with
  | LIdent t => if fst t =? TokenIdent then [snd t] else []
  | LQuoted ts =>
      match ts with
      | o :: ((_ :: _ :: _) as r) =>          (* len(tokens) >= 3 *)
          if (fst o =? TokenOQuote) && (fst (last r o) =? TokenCQuote) then
            match join_lits (removelast r) with
            | Some s => [s]
            | None => []
            end
          else []
      | [o; c] => if (fst o =? TokenOQuote) && (fst c =? TokenCQuote) then [[]] else []
      | _ => []
      end
  end.

Definition current_labels (ns : list label_node) : list (list Z) := flat_map current_label ns.

Definition piece_tok (p : piece) : tok :=
  match p with
  | PLit bs => (TokenQuotedLit, bs)
  | PNewline bs => (TokenQuotedNewline, bs)
  | PInvalid bs => (TokenInvalid, bs)
  end.

(* what the lexer makes of the written-out bytes of one quoted label
   (File.Bytes() followed by hclwrite.ParseConfig): None when the bytes are not
   one closed literal-only quoted string *)
Definition relex_quoted (ts : list tok) : option (list tok) :=
  match tok_bytes ts with
  | 34 :: body =>
      match lex_quoted body with
      | (ps, LClosed []) => Some (t_oquote :: map piece_tok ps ++ [t_cquote])
      | _ => None
      end
  | _ => None
  end.

(* blockLabels.Replace (ast_block.go): per label, TokensForValue(StringVal(label))
   is written out and re-scanned with lexConfig, the EOF token dropped (the
   guard `len(relexed) > 1` always holds: there is at least the opening quote).
   None = the bytes leave the modelled fragment of the scanner (template
   introducer, malformed UTF-8, unterminated) — proved impossible for every
   label of Unicode scalar values (GenerateProofs.label_replace_roundtrip). *)
Definition replace_label (is_print : Z -> bool) (l : list Z) : option (list tok) :=
  relex_quoted (gen_string is_print l).
Definition replace_labels (is_print : Z -> bool) (ls : list (list Z)) : list (option (list tok)) :=
  map (replace_label is_print) ls.

(* ======================================================================== *)
(* 6. parseObjectCons: the `for` look-ahead (parser.go:1404-1421)            *)
(* ======================================================================== *)
(* After the opening brace the parser peeks with newlines ignored; if the next
   token is the identifier `for` the whole brace expression is parsed as a
   for-expression (finishParsingForExpr), not as an object constructor. *)
Fixpoint skip_newlines (ts : list tok) : list tok :=
  match ts with
  | t :: r => if fst t =? TokenNewline then skip_newlines r else ts
  | [] => []
  end.

Definition reads_as_for_expr (ts : list tok) : bool :=
  match ts with
  | o :: r =>
      (fst o =? TokenOBrace) &&
      match skip_newlines r with
      | t :: _ => (fst t =? TokenIdent) && zlist_eqb (snd t) b_for
      | [] => false
      end
  | [] => false
  end.
