(* Write/Tree.v — model of the hclwrite syntax tree and its editing API:
   hclwrite/node.go, ast.go, ast_body.go, ast_attribute.go, ast_block.go,
   ast_expression.go (constructors only).  Definitions only.

   Two layers, as in DESIGN.md §5 C12.

   L1 (Module L1)  the pointer level of node.go: a heap of cells
       {content; list; before; after} and of list headers `nodes {first; last}`,
       with Detach / ReplaceWith / Append / AppendNode / Insert / InsertNode /
       Clear / nodeSet.List transcribed statement by statement — including the
       fragile parts: ReplaceWith and InsertNode never update first/last, Clear
       resets only the header, nodeSet.List finds the list through the `list`
       pointer of an arbitrary member.  nil dereferences and the explicit panic
       of ReplaceWith are `Panic`.

   L2 (rest of the file)  every child list is a functional list of
       (id, content) pairs; ids are node identities, unique within their list
       (handles and item sets only ever refer to nodes of their owner's list).
       TreeProofs.v proves that each L1 list operation implements the L2 list
       operation under its precondition (interior position for ReplaceWith,
       non-first position for InsertNode, a fresh unlinked node for AppendNode).
       Where an L1 operation is applied OUTSIDE its precondition Go silently
       corrupts the list; L2 then answers `Corrupt` (it cannot represent the
       result).  L2 is the executable model compared with the Go code.

   What L2 keeps from the Go data structures, because C12 is about them:
     * Body.items / blockLabels.items: the nodeSet, as a list of ids, kept next
       to the ordered child list;
     * the cached handles Attribute.{leadComments,name,expr,lineComments} and
       Block.{leadComments,typeName,labels,open,body,close} as ids;
     * n.list == nil  <->  the id is not in the owner's child list.
   (Earlier revisions of the Go code left Body.items untouched in Clear and
   dropped the node returned by ReplaceWith in SetType; the model then carried
   `limbo` fields for the orphaned nodes.  Both are repaired — commits "Body.Clear
   must also forget the removed items", "Block.SetType must remember the node it
   inserted" — and the fields are gone.)
   Expression contents are flattened to their token list (RenameVariablePrefix
   is not modelled).  A Block has exactly one Body child (never replaced or
   detached by any code path), so its child list is pre ++ [body] ++ post. *)
From HclV Require Import Base.Prelude Gen.TokenTypes Write.Format.

(* ---- outcomes ------------------------------------------------------------ *)
Inductive outcome (A : Type) : Type :=
| Ok (a : A)
| Panic          (* a Go panic: explicit panic(...), nil dereference, failed type assertion *)
| Corrupt.       (* L1 operation used outside its precondition: list header stale *)
Arguments Ok {A} a. Arguments Panic {A}. Arguments Corrupt {A}.

Definition bind {A B} (x : outcome A) (f : A -> outcome B) : outcome B :=
  match x with Ok a => f a | Panic => Panic | Corrupt => Corrupt end.
Notation "'do' x <- e ; k" := (bind e (fun x => k))
  (at level 200, x pattern, e at level 100, k at level 200, right associativity).

(* ---- id-indexed lists (L2 list operations) --------------------------------- *)
Definition ids {A} (l : list (Z * A)) : list Z := map fst l.
Definition mem (i : Z) (l : list Z) : bool := existsb (Z.eqb i) l.

Fixpoint find_id {A} (i : Z) (l : list (Z * A)) : option A :=
  match l with
  | [] => None
  | (j, x) :: r => if j =? i then Some x else find_id i r
  end.

(* ReplaceWith at L2: the node with id i gives its place to n *)
Fixpoint repl_id {A} (i : Z) (n : Z * A) (l : list (Z * A)) : list (Z * A) :=
  match l with
  | [] => []
  | (j, y) :: r => if j =? i then n :: r else (j, y) :: repl_id i n r
  end.
(* in-place mutation of the content of node i (the node itself stays) *)
Definition upd_id {A} (i : Z) (x : A) (l : list (Z * A)) : list (Z * A) := repl_id i (i, x) l.
(* Detach at L2 *)
Definition remove_id {A} (i : Z) (l : list (Z * A)) : list (Z * A) :=
  filter (fun p => negb (fst p =? i)) l.
(* InsertNode at L2: n goes immediately before the node with id pos *)
Fixpoint insert_before {A} (pos : Z) (n : Z * A) (l : list (Z * A)) : list (Z * A) :=
  match l with
  | [] => []
  | (j, y) :: r => if j =? pos then n :: (j, y) :: r else (j, y) :: insert_before pos n r
  end.
(* a node identity not used in l (Go: a newly allocated node) *)
Definition fresh_of (used : list Z) : Z := 1 + maxZ0 used.
Definition fresh {A} (l : list (Z * A)) : Z := fresh_of (ids l).

Definition is_first {A} (i : Z) (l : list (Z * A)) : bool :=
  match l with (j, _) :: _ => j =? i | [] => false end.
Definition is_last {A} (i : Z) (l : list (Z * A)) : bool := is_first i (rev l).

(* node.ReplaceWith on a list whose both ends are ends of the Go list *)
Definition replace_with {A} (i : Z) (x : A) (l : list (Z * A)) (used : list Z)
  : outcome (Z * list (Z * A)) :=
  if negb (mem i (ids l)) then Panic          (* "can't replace node that is not in a list" *)
  else if is_first i l || is_last i l then Corrupt   (* first/last not maintained *)
  else let j := fresh_of used in Ok (j, repl_id i (j, x) l).

Definition nthZ {A} (l : list A) (i : Z) : option A :=
  if i <? 0 then None else nth_error l (Z.to_nat i).

(* ---- contents --------------------------------------------------------------- *)
(* leaf contents: Tokens, *comments, *identifier, *quoted, *Expression (flattened) *)
Inductive leaf :=
| LTokens (ts : list tok)
| LComments (ts : list tok)
| LIdent (t : tok)
| LQuoted (ts : list tok)
| LExpr (ts : list tok).

(* ast_attribute.go: Attribute{inTree; leadComments, name, expr, lineComments *node} *)
Record attr := mkAttr { a_ch : list (Z * leaf); a_lead : Z; a_name : Z; a_expr : Z; a_line : Z }.

(* ast_block.go: blockLabels{inTree; items nodeSet} *)
Record labels := mkLabels { l_ch : list (Z * leaf); l_items : list Z }.

Inductive kleaf := KLeaf (l : leaf) | KLabels (l : labels).

(* ast_body.go: Body{inTree; items nodeSet}; ast_block.go: Block{inTree; six handles}.
   Handle value 0 = nil. *)
Inductive body :=
| mkBody (ch : list (Z * bitem)) (items : list Z)
with bitem :=
| ITokens (ts : list tok)
| IAttr (a : attr)
| IBlock (k : block)
with block :=
| mkBlock (pre : list (Z * kleaf)) (bid : Z) (bd : body) (post : list (Z * kleaf))
          (h_lead h_type h_labels h_open h_body h_close : Z).

Definition b_ch (b : body) := match b with mkBody ch _ => ch end.
Definition b_items (b : body) := match b with mkBody _ it => it end.
Definition k_pre (k : block) := match k with mkBlock pre _ _ _ _ _ _ _ _ _ => pre end.
Definition k_bid (k : block) := match k with mkBlock _ bid _ _ _ _ _ _ _ _ => bid end.
Definition k_bd (k : block) := match k with mkBlock _ _ bd _ _ _ _ _ _ _ => bd end.
Definition k_post (k : block) := match k with mkBlock _ _ _ post _ _ _ _ _ _ => post end.
Definition k_htype (k : block) := match k with mkBlock _ _ _ _ _ h _ _ _ _ => h end.
Definition k_hlabels (k : block) := match k with mkBlock _ _ _ _ _ _ h _ _ _ => h end.
Definition k_hbody (k : block) := match k with mkBlock _ _ _ _ _ _ _ _ h _ => h end.

(* File{inTree; body}: children = [Tokens before; body; Tokens after] (parser.go parse)
   or [body] (NewEmptyFile).  shelf: blocks removed with RemoveBlock whose *Block
   the caller still holds (they can be given to AppendBlock again). *)
Record state := mkState { f_pre : list tok; root : body; f_post : list tok; shelf : list block }.

(* ---- BuildTokens ----------------------------------------------------------------- *)
Definition leaf_tokens (l : leaf) : list tok :=
  match l with LTokens ts | LComments ts | LQuoted ts | LExpr ts => ts | LIdent t => [t] end.
Definition leaves_tokens (l : list (Z * leaf)) : list tok := flat_map (fun n => leaf_tokens (snd n)) l.
Definition attr_tokens (a : attr) : list tok := leaves_tokens (a_ch a).
Definition labels_tokens (l : labels) : list tok := leaves_tokens (l_ch l).
Definition kleaf_tokens (k : kleaf) : list tok :=
  match k with KLeaf l => leaf_tokens l | KLabels l => labels_tokens l end.
Definition kleaves_tokens (l : list (Z * kleaf)) : list tok := flat_map (fun n => kleaf_tokens (snd n)) l.

(* inTree.BuildTokens: walk the children from first *)
Fixpoint body_tokens (b : body) : list tok :=
  match b with
  | mkBody ch _ =>
      (fix go (l : list (Z * bitem)) : list tok :=
         match l with [] => [] | n :: r => item_tokens (snd n) ++ go r end) ch
  end
with item_tokens (it : bitem) : list tok :=
  match it with
  | ITokens ts => ts
  | IAttr a => attr_tokens a
  | IBlock k => block_tokens k
  end
with block_tokens (k : block) : list tok :=
  match k with
  | mkBlock pre _ bd post _ _ _ _ _ _ => kleaves_tokens pre ++ body_tokens bd ++ kleaves_tokens post
  end.

(* hook VerifFileTokens = File.inTree.children.BuildTokens(nil) *)
Definition file_tokens (s : state) : list tok := f_pre s ++ body_tokens (root s) ++ f_post s.

(* ---- tokens made by the API ------------------------------------------------------- *)
Definition tok_eq : tok := mkTok TokenEqual [61] 1 0.
Definition tok_nl : tok := mkTok TokenNewline [10] 1 0.
Definition tok_ob : tok := mkTok TokenOBrace [123] 1 0.
Definition tok_cb : tok := mkTok TokenCBrace [125] 1 0.
(* generate.go newIdentToken; gcols = byte count (exact for ASCII; not used by C12) *)
Definition ident_tok (name : list Z) : tok := mkTok TokenIdent name (Z.of_nat (length name)) 0.

(* ---- Attribute ------------------------------------------------------------------------ *)
(* attr.name.content.(ptr identifier) *)
Definition attr_name (a : attr) : outcome tok :=
  match find_id (a_name a) (a_ch a) with Some (LIdent t) => Ok t | _ => Panic end.
(* attr.Expr().BuildTokens(nil) *)
Definition attr_expr (a : attr) : outcome (list tok) :=
  match find_id (a_expr a) (a_ch a) with Some (LExpr e) => Ok e | _ => Panic end.

(* Attribute.init *)
Definition new_attr (name : list Z) (e : list tok) : attr :=
  mkAttr [ (1, LComments []); (2, LIdent (ident_tok name)); (3, LTokens [tok_eq]);
           (4, LExpr e); (5, LComments []); (6, LTokens [tok_nl]) ] 1 2 4 5.

(* attr.expr = attr.expr.ReplaceWith(expr) *)
Definition attr_set_expr (e : list tok) (a : attr) : outcome attr :=
  do r <- replace_with (a_expr a) (LExpr e) (a_ch a) (ids (a_ch a));
  let '(j, ch') := r in Ok (mkAttr ch' (a_lead a) (a_name a) j (a_line a)).

(* Attribute.setName: a.name = a.name.ReplaceWith(nameObj) *)
Definition attr_set_name (name : list Z) (a : attr) : outcome attr :=
  do r <- replace_with (a_name a) (LIdent (ident_tok name)) (a_ch a) (ids (a_ch a));
  let '(j, ch') := r in Ok (mkAttr ch' (a_lead a) j (a_expr a) (a_line a)).

(* ---- blockLabels ---------------------------------------------------------------------------- *)
Fixpoint number_from {A} (i : Z) (l : list A) : list (Z * A) :=
  match l with [] => [] | x :: r => (i, x) :: number_from (i + 1) r end.

(* blockLabels.Replace: children.Clear(); items.Clear(); one quoted node per label.
   The label tokens (TokensForValue(cty.StringVal(label)) re-scanned by lexConfig, so
   that they are split like the scanner splits them in a file) are an input: the
   harness takes them from the labels node of a real NewBlock. *)
Definition labels_replace (ls : list (list tok)) : labels :=
  let ch := number_from 1 (map LQuoted ls) in mkLabels ch (ids ch).

(* nodeSet.List(): nil when the set is empty; otherwise the nodes of the owning
   list (found through an arbitrary member: here every member's list is the
   owner's child list) that are in the set, in list order *)
Definition set_list {A} (items : list Z) (ch : list (Z * A)) : list (Z * A) :=
  match items with
  | [] => []
  | _ => filter (fun n => mem (fst n) items) ch
  end.

(* one label of blockLabels.Current; unesc = hclsyntax.ParseStringLiteralToken on
   one literal token's bytes (None = error diagnostics), an input of the model.
   A quoted label is OQuote, one or more QuotedLit tokens (the scanner splits a
   string around '$' and '%'), CQuote: the decoded literals are joined; any other
   token in between, or a literal that does not decode, drops the label. *)
Fixpoint join_lits (unesc : list Z -> option (list Z)) (ts : list tok) : option (list Z) :=
  match ts with
  | [] => Some []
  | t :: r =>
      if is (ty t) TokenQuotedLit then
        match unesc (bytes t) with
        | Some p => match join_lits unesc r with Some q => Some (p ++ q) | None => None end
        | None => None
        end
      else None
  end.

Definition label_of (unesc : list Z -> option (list Z)) (l : leaf) : option (list Z) :=
  match l with
  | LIdent t => if is (ty t) TokenIdent then Some (bytes t) else None
  | LQuoted (o :: rest) =>
      match rev rest with
      | c :: rmid =>
          if (3 <=? Z.of_nat (length (o :: rest))) && is (ty o) TokenOQuote && is (ty c) TokenCQuote
          then join_lits unesc (rev rmid)
          else if (Z.of_nat (length (o :: rest)) =? 2) && is (ty o) TokenOQuote && is (ty c) TokenCQuote
          then Some [] else None
      | [] => None
      end
  | _ => None
  end.

Definition opt_to_list {A} (o : option A) : list A := match o with Some x => [x] | None => [] end.

(* blockLabels.Current *)
Definition labels_current (unesc : list Z -> option (list Z)) (l : labels) : list (list Z) :=
  flat_map (fun n => opt_to_list (label_of unesc (snd n))) (set_list (l_items l) (l_ch l)).

(* ---- Block ------------------------------------------------------------------------------------ *)
Definition k_used (k : block) : list Z :=
  ids (k_pre k) ++ k_bid k :: ids (k_post k).

(* Block.init *)
Definition new_block (ty : list Z) (ls : list (list tok)) : block :=
  mkBlock [ (1, KLeaf (LComments [])); (2, KLeaf (LIdent (ident_tok ty)));
            (3, KLabels (labels_replace ls)); (4, KLeaf (LTokens [tok_ob; tok_nl])) ]
          5 (mkBody [] [])
          [ (6, KLeaf (LTokens [tok_cb; tok_nl])) ]
          1 2 3 4 5 6.

(* Block.Body: b.body.content.(ptr Body) *)
Definition block_body (k : block) : outcome body :=
  if k_hbody k =? k_bid k then Ok (k_bd k) else Panic.

Definition block_with_body (k : block) (bd' : body) : block :=
  match k with
  | mkBlock pre bid _ post h1 h2 h3 h4 h5 h6 => mkBlock pre bid bd' post h1 h2 h3 h4 h5 h6
  end.

(* Block.Type: b.typeName.content.(ptr identifier) *)
Definition block_type (k : block) : outcome tok :=
  match find_id (k_htype k) (k_pre k ++ k_post k) with
  | Some (KLeaf (LIdent t)) => Ok t
  | _ => Panic
  end.

(* Block.SetType: b.typeName = b.typeName.ReplaceWith(nameObj) *)
Definition block_set_type (ty : list Z) (k : block) : outcome block :=
  match k with
  | mkBlock pre bid bd post h1 h2 h3 h4 h5 h6 =>
      match find_id h2 pre with
      | None => Panic                       (* n.list == nil (detached) *)
      | Some _ =>
          if is_first h2 pre then Corrupt   (* would need first to be updated *)
          else
            let j := fresh_of (k_used k) in
            Ok (mkBlock (repl_id h2 (j, KLeaf (LIdent (ident_tok ty))) pre) bid bd post
                        h1 j h3 h4 h5 h6)
      end
  end.

(* Block.labelsObj: b.labels.content.(ptr blockLabels) *)
Definition block_labels_obj (k : block) : outcome labels :=
  match find_id (k_hlabels k) (k_pre k ++ k_post k) with
  | Some (KLabels l) => Ok l
  | _ => Panic
  end.

(* Block.Labels *)
Definition block_labels (unesc : list Z -> option (list Z)) (k : block) : outcome (list (list Z)) :=
  do l <- block_labels_obj k; Ok (labels_current unesc l).

(* Block.SetLabels: labelsObj().Replace(labels), mutating the labels content in place *)
Definition block_set_labels (ls : list (list tok)) (k : block) : outcome block :=
  do _l <- block_labels_obj k;
  match k with
  | mkBlock pre bid bd post h1 h2 h3 h4 h5 h6 =>
      let n := KLabels (labels_replace ls) in
      Ok (mkBlock (upd_id h3 n pre) bid bd (upd_id h3 n post) h1 h2 h3 h4 h5 h6)
  end.

(* ---- Body --------------------------------------------------------------------------------------- *)
(* Body.getAttributeNode / GetAttribute: for n := range b.items *)
Fixpoint get_attr_node (nm : list Z) (all : list (Z * bitem)) (items : list Z)
  : outcome (option (Z * attr)) :=
  match items with
  | [] => Ok None
  | i :: r =>
      match find_id i all with
      | Some (IAttr a) =>
          do t <- attr_name a;
          if zlist_eqb (bytes t) nm then Ok (Some (i, a)) else get_attr_node nm all r
      | _ => get_attr_node nm all r
      end
  end.

Definition body_get_attr_node (nm : list Z) (b : body) : outcome (option (Z * attr)) :=
  get_attr_node nm (b_ch b) (b_items b).

(* mutate the content of node i *)
Definition body_upd_node (i : Z) (it : bitem) (b : body) : body :=
  match b with mkBody ch items => mkBody (upd_id i it ch) items end.

(* Body.appendItem: nn := children.Append(c); items.Add(nn) *)
Definition body_append_item (it : bitem) (b : body) : body :=
  match b with
  | mkBody ch items =>
      let j := fresh ch in mkBody (ch ++ [(j, it)]) (items ++ [j])
  end.

(* Body.SetAttributeRaw / SetAttributeValue / SetAttributeTraversal: e = tokens of
   the new Expression (NewExpressionRaw / NewExpressionLiteral / NewExpressionAbsTraversal) *)
Definition body_set_attr (nm : list Z) (e : list tok) (b : body) : outcome body :=
  do r <- body_get_attr_node nm b;
  match r with
  | Some (i, a) => do a' <- attr_set_expr e a; Ok (body_upd_node i (IAttr a') b)
  | None => Ok (body_append_item (IAttr (new_attr nm e)) b)
  end.

(* Body.RenameAttribute *)
Definition body_rename_attr (from to_ : list Z) (b : body) : outcome body :=
  do r <- body_get_attr_node from b;
  do c <- body_get_attr_node to_ b;
  match r, c with
  | Some (i, a), None => do a' <- attr_set_name to_ a; Ok (body_upd_node i (IAttr a') b)
  | _, _ => Ok b
  end.

(* node.Detach + items.Remove *)
Definition body_remove_node (i : Z) (b : body) : body :=
  match b with
  | mkBody ch items =>
      mkBody (remove_id i ch) (filter (fun j => negb (j =? i)) items)
  end.

(* Body.RemoveAttribute *)
Definition body_remove_attr (nm : list Z) (b : body) : outcome body :=
  do r <- body_get_attr_node nm b;
  match r with
  | Some (i, _) => Ok (body_remove_node i b)
  | None => Ok b
  end.

(* Body.Blocks: items.List() filtered by content type *)
Definition body_blocks (b : body) : list (Z * block) :=
  flat_map (fun n => match snd n with IBlock k => [(fst n, k)] | _ => [] end)
           (set_list (b_items b) (b_ch b)).

(* Body.Attributes (name, expression tokens), in items order (Go: a map) *)
Fixpoint attrs_of (all : list (Z * bitem)) (items : list Z) : outcome (list (list Z * list tok)) :=
  match items with
  | [] => Ok []
  | i :: r =>
      match find_id i all with
      | Some (IAttr a) =>
          do t <- attr_name a; do e <- attr_expr a; do rest <- attrs_of all r;
          Ok ((bytes t, e) :: rest)
      | _ => attrs_of all r
      end
  end.
Definition body_attributes (b : body) : outcome (list (list Z * list tok)) :=
  attrs_of (b_ch b) (b_items b).

(* Body.GetAttribute(name) then Expr().BuildTokens *)
Definition body_get_attribute (nm : list Z) (b : body) : outcome (option (list tok)) :=
  do r <- body_get_attr_node nm b;
  match r with
  | Some (_, a) => do e <- attr_expr a; Ok (Some e)
  | None => Ok None
  end.

(* Body.AppendNewBlock *)
Definition body_append_new_block (ty : list Z) (ls : list (list tok)) (b : body) : outcome body :=
  Ok (body_append_item (IBlock (new_block ty ls)) b).

(* Body.RemoveBlock(b.Blocks()[i]): the loop over items finds the node whose
   content is that block (pointer equality), Detach, items.Remove *)
Definition body_remove_block (i : Z) (b : body) : outcome body :=
  match nthZ (body_blocks b) i with
  | Some (id, _) => Ok (body_remove_node id b)
  | None => Ok b
  end.

(* b.Blocks()[i].<f>, the block content being mutated in place *)
Definition body_upd_block (i : Z) (f : block -> outcome block) (b : body) : outcome body :=
  match nthZ (body_blocks b) i with
  | Some (id, k) => do k' <- f k; Ok (body_upd_node id (IBlock k') b)
  | None => Ok b
  end.

(* Body.AppendUnstructuredTokens: b.children.Append(ts) (also when ts is empty);
   AppendNewline is the case ts = [newline] *)
Definition body_append_raw (ts : list tok) (b : body) : outcome body :=
  match b with
  | mkBody ch items => Ok (mkBody (ch ++ [(fresh ch, ITokens ts)]) items)
  end.

(* Body.Clear: b.children.Clear(); b.items.Clear() *)
Definition body_clear (b : body) : outcome body := Ok (mkBody [] []).

(* ---- nested bodies: b.Blocks()[i].Body() along a path ----------------------------- *)
Fixpoint with_body (p : list Z) (f : body -> outcome body) (b : body) {struct p} : outcome body :=
  match p with
  | [] => f b
  | i :: p' =>
      match nthZ (body_blocks b) i with
      | None => Ok b
      | Some (id, k) =>
          do bd <- block_body k;
          do bd' <- with_body p' f bd;
          Ok (body_upd_node id (IBlock (block_with_body k bd')) b)
      end
  end.

Fixpoint body_at (p : list Z) (b : body) {struct p} : outcome (option body) :=
  match p with
  | [] => Ok (Some b)
  | i :: p' =>
      match nthZ (body_blocks b) i with
      | None => Ok None
      | Some (_, k) => do bd <- block_body k; body_at p' bd
      end
  end.

(* ---- operations and histories ------------------------------------------------------ *)
Inductive op :=
| OSetAttr (p : list Z) (name : list Z) (e : list tok)
| ORenameAttr (p : list Z) (from to_ : list Z)
| ORemoveAttr (p : list Z) (name : list Z)
| OAppendNewBlock (p : list Z) (ty : list Z) (ls : list (list tok))
| ORemoveBlock (p : list Z) (i : Z)            (* removed block goes to the shelf *)
| OAppendBlock (p : list Z) (k : Z)            (* AppendBlock(shelf[k]) *)
| OSetType (p : list Z) (i : Z) (ty : list Z)
| OSetLabels (p : list Z) (i : Z) (ls : list (list tok))
| OAppendRaw (p : list Z) (ts : list tok)
| OClear (p : list Z).

Definition set_root (s : state) (b : body) : state := mkState (f_pre s) b (f_post s) (shelf s).

Fixpoint remove_nth {A} (n : nat) (l : list A) : list A :=
  match l, n with
  | [], _ => []
  | _ :: r, O => r
  | x :: r, S n' => x :: remove_nth n' r
  end.

Definition on_root (s : state) (p : list Z) (f : body -> outcome body) : outcome state :=
  do r <- with_body p f (root s); Ok (set_root s r).

Definition step (o : op) (s : state) : outcome state :=
  match o with
  | OSetAttr p nm e => on_root s p (body_set_attr nm e)
  | ORenameAttr p a b => on_root s p (body_rename_attr a b)
  | ORemoveAttr p nm => on_root s p (body_remove_attr nm)
  | OAppendNewBlock p ty ls => on_root s p (body_append_new_block ty ls)
  | ORemoveBlock p i =>
      do ob <- body_at p (root s);
      match ob with
      | None => Ok s
      | Some b =>
          match nthZ (body_blocks b) i with
          | None => Ok s
          | Some (_, k) =>
              do r <- with_body p (body_remove_block i) (root s);
              Ok (mkState (f_pre s) r (f_post s) (shelf s ++ [k]))
          end
      end
  | OAppendBlock p n =>
      do ob <- body_at p (root s);
      match ob, nthZ (shelf s) n with
      | Some _, Some k =>
          do r <- with_body p (fun b => Ok (body_append_item (IBlock k) b)) (root s);
          Ok (mkState (f_pre s) r (f_post s) (remove_nth (Z.to_nat n) (shelf s)))
      | _, _ => Ok s
      end
  | OSetType p i ty => on_root s p (body_upd_block i (block_set_type ty))
  | OSetLabels p i ls => on_root s p (body_upd_block i (block_set_labels ls))
  | OAppendRaw p ts => on_root s p (body_append_raw ts)
  | OClear p => on_root s p body_clear
  end.

Definition run (ops : list op) (s : state) : outcome state :=
  fold_left (fun acc o => bind acc (step o)) ops (Ok s).

(* ---- the readers, recursively: what the harness observes after every step ------- *)
(* per body: Attributes() as (name, Expr tokens), Blocks() as (Type(), Labels(), Body()) *)
Inductive bobs := BObs (attrs : list (list Z * list tok)) (blocks : list (list Z * list (list Z) * bobs)).

Fixpoint observe (unesc : list Z -> option (list Z)) (b : body) : outcome bobs :=
  match b with
  | mkBody ch items =>
      do ats <- attrs_of ch items;
      do bls <-
        (fix go (l : list (Z * bitem)) : outcome (list (list Z * list (list Z) * bobs)) :=
           match l with
           | [] => Ok []
           | n :: r =>
               if mem (fst n) items then
                 match snd n with
                 | IBlock k => do o <- observe_block unesc k; do rest <- go r; Ok (o :: rest)
                 | _ => go r
                 end
               else go r
           end) ch;
      Ok (BObs ats bls)
  end
with observe_block (unesc : list Z -> option (list Z)) (k : block)
  : outcome (list Z * list (list Z) * bobs) :=
  match k with
  | mkBlock pre bid bd post h1 h2 h3 h4 h5 h6 =>
      do t <- block_type k;
      do ls <- block_labels unesc k;
      if h5 =? bid then (do o <- observe unesc bd; Ok (bytes t, ls, o)) else Panic
  end.

(* ==================================================================================== *)
(* L1: node.go at the pointer level.  Addresses are Z, 0 = nil.                         *)
(* ==================================================================================== *)
Module L1.
Section WithContent.
Variable C : Type.      (* nodeContent *)

Record cell := mkCell { c_content : C; c_list : Z; c_before : Z; c_after : Z }.
Record nodes := mkNodes { n_first : Z; n_last : Z }.
(* cells and list headers live in two association lists (newest binding first) *)
Record heap := mkHeap { h_cells : list (Z * cell); h_lists : list (Z * nodes); h_next : Z }.

Definition get_cell (h : heap) (a : Z) : outcome cell :=
  match find_id a (h_cells h) with Some c => Ok c | None => Panic end.   (* nil dereference *)
Definition get_nodes (h : heap) (a : Z) : outcome nodes :=
  match find_id a (h_lists h) with Some c => Ok c | None => Panic end.
Definition set_cell (h : heap) (a : Z) (c : cell) : heap :=
  mkHeap ((a, c) :: h_cells h) (h_lists h) (h_next h).
Definition set_nodes (h : heap) (a : Z) (n : nodes) : heap :=
  mkHeap (h_cells h) ((a, n) :: h_lists h) (h_next h).

Definition with_before (c : cell) (x : Z) := mkCell (c_content c) (c_list c) x (c_after c).
Definition with_after (c : cell) (x : Z) := mkCell (c_content c) (c_list c) (c_before c) x.
Definition with_list (c : cell) (x : Z) := mkCell (c_content c) x (c_before c) (c_after c).

(* newNode / &node{content: c} *)
Definition new_node (h : heap) (c : C) : Z * heap :=
  let a := h_next h in
  (a, mkHeap ((a, mkCell c 0 0 0) :: h_cells h) (h_lists h) (a + 1)).

(* func (n *node) Detach() *)
Definition detach (h : heap) (n : Z) : outcome heap :=
  do c <- get_cell h n;
  if c_list c =? 0 then Ok h else
  do h1 <- (if c_before c =? 0 then Ok h
            else do cb <- get_cell h (c_before c); Ok (set_cell h (c_before c) (with_after cb (c_after c))));
  do h2 <- (if c_after c =? 0 then Ok h1
            else do ca <- get_cell h1 (c_after c); Ok (set_cell h1 (c_after c) (with_before ca (c_before c))));
  do ns <- get_nodes h2 (c_list c);
  let ns1 := if n_first ns =? n then mkNodes (c_after c) (n_last ns) else ns in
  let ns2 := if n_last ns1 =? n then mkNodes (n_first ns1) (c_before c) else ns1 in
  let h3 := set_nodes h2 (c_list c) ns2 in
  Ok (set_cell h3 n (mkCell (c_content c) 0 0 0)).

(* func (n *node) ReplaceWith(c nodeContent) *node — first/last are NOT touched *)
Definition replace_with1 (h : heap) (n : Z) (x : C) : outcome (Z * heap) :=
  do c <- get_cell h n;
  if c_list c =? 0 then Panic else        (* "can't replace node that is not in a list" *)
  let h0 := set_cell h n (mkCell (c_content c) 0 0 0) in
  let '(nn, h1) := new_node h0 x in
  let h2 := set_cell h1 nn (mkCell x (c_list c) (c_before c) (c_after c)) in
  do h3 <- (if c_before c =? 0 then Ok h2
            else do cb <- get_cell h2 (c_before c); Ok (set_cell h2 (c_before c) (with_after cb nn)));
  do h4 <- (if c_after c =? 0 then Ok h3
            else do ca <- get_cell h3 (c_after c); Ok (set_cell h3 (c_after c) (with_before ca nn)));
  Ok (nn, h4).

(* func (ns *nodes) AppendNode(n *node) *)
Definition append_node (h : heap) (ns : Z) (n : Z) : outcome heap :=
  do l <- get_nodes h ns;
  do h1 <- (if n_last l =? 0 then Ok h
            else do c <- get_cell h n;
                 let h' := set_cell h n (with_before c (n_last l)) in
                 do cl <- get_cell h' (n_last l);
                 Ok (set_cell h' (n_last l) (with_after cl n)));
  do c1 <- get_cell h1 n;
  let h2 := set_cell h1 n (with_list c1 ns) in
  let l1 := mkNodes (n_first l) n in
  let l2 := if n_first l1 =? 0 then mkNodes n (n_last l1) else l1 in
  Ok (set_nodes h2 ns l2).

(* func (ns *nodes) Append(c nodeContent) *node *)
Definition append (h : heap) (ns : Z) (x : C) : outcome (Z * heap) :=
  let '(n, h1) := new_node h x in
  do h2 <- append_node h1 ns n; Ok (n, h2).

(* func (ns *nodes) InsertNode(pos *node, n *node) — first is NOT touched when pos
   is the first node, and pos.before is dereferenced without a nil check *)
Definition insert_node (h : heap) (ns : Z) (pos : Z) (n : Z) : outcome heap :=
  do c <- get_cell h n;
  if pos =? 0 then
    do l <- get_nodes h ns;
    Ok (set_cell (set_nodes h ns (mkNodes n n)) n (with_list c ns))
  else
    do cp <- get_cell h pos;
    do cb <- get_cell h (c_before cp);          (* pos.before.after = n: nil dereference if pos is first *)
    let h1 := set_cell h (c_before cp) (with_after cb n) in
    let h2 := set_cell h1 n (mkCell (c_content c) ns (c_before cp) pos) in
    do cp' <- get_cell h2 pos;
    Ok (set_cell h2 pos (with_before cp' n)).

(* func (ns *nodes) Insert(pos *node, c nodeContent) *node *)
Definition insert (h : heap) (ns : Z) (pos : Z) (x : C) : outcome (Z * heap) :=
  let '(n, h1) := new_node h x in
  do h2 <- insert_node h1 ns pos n; Ok (n, h2).

(* func (ns *nodes) Clear() *)
Definition clear (h : heap) (ns : Z) : heap := set_nodes h ns (mkNodes 0 0).

(* for n := ns.first; n != nil; n = n.after (fuel bounds the walk: a corrupted
   heap may be cyclic; None = fuel exhausted) *)
Fixpoint walk (fuel : nat) (h : heap) (a : Z) : option (list Z) :=
  match fuel with
  | O => None
  | S f =>
      if a =? 0 then Some []
      else match find_id a (h_cells h) with
           | None => None
           | Some c => match walk f h (c_after c) with Some r => Some (a :: r) | None => None end
           end
  end.

(* func (ns nodeSet) List() []*node : the owning list is found through the
   `list` pointer of an ARBITRARY member (here: the first of the representation) *)
Definition nodeset_list (fuel : nat) (h : heap) (set : list Z) : outcome (list Z) :=
  match set with
  | [] => Ok []
  | m :: _ =>
      do c <- get_cell h m;
      do l <- get_nodes h (c_list c);            (* list.first: nil dereference if m is detached *)
      match walk fuel h (n_first l) with
      | Some w => Ok (filter (fun a => mem a set) w)
      | None => Corrupt
      end
  end.
End WithContent.

(* contents at L1: children = address of a `nodes` header, handles = node addresses *)
Inductive content1 :=
| C1Tokens (ts : list tok) | C1Comments (ts : list tok) | C1Ident (t : tok)
| C1Quoted (ts : list tok) | C1Expr (ts : list tok)
| C1Body (children : Z) (items : list Z)
| C1Attr (children : Z) (leadComments name expr lineComments : Z)
| C1Block (children : Z) (leadComments typeName labels open body close : Z)
| C1Labels (children : Z) (items : list Z).

(* Block.SetType at L1: the handle is set to the node returned by ReplaceWith *)
Definition set_type1 (h : heap content1) (blk : Z) (ty : list Z) : outcome (heap content1) :=
  do c <- get_cell _ h blk;
  match c_content _ c with
  | C1Block ch ld tn lb op bd cl =>
      do r <- replace_with1 _ h tn (C1Ident (ident_tok ty));
      let '(nn, h') := r in
      do c' <- get_cell _ h' blk;
      Ok (set_cell _ h' blk (mkCell _ (C1Block ch ld nn lb op bd cl) (c_list _ c') (c_before _ c') (c_after _ c')))
  | _ => Panic
  end.

(* Body.Clear at L1: the header of the child list and the item set *)
Definition body_clear1 (h : heap content1) (bdy : Z) : outcome (heap content1) :=
  do c <- get_cell _ h bdy;
  match c_content _ c with
  | C1Body ch _ =>
      Ok (set_cell _ (clear _ h ch) bdy (mkCell _ (C1Body ch []) (c_list _ c) (c_before _ c) (c_after _ c)))
  | _ => Panic
  end.
End L1.
