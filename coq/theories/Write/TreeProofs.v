(* Write/TreeProofs.v — proofs about the tree model (C12).
   Part 1: id-indexed lists.  Part 2: well-formedness WF and what abs gives on
   well-formed trees.  Part 3: every body operation preserves WF and refines
   its specification; lifting along body paths; histories.  Part 4: readers.
   Part 5: the frame and shape theorems of the specification (TreeSpecProofs.v)
   transferred to the tree.  Part 6: the former counterexamples (SetType,
   Clear, multi-literal labels), now instances of the theorems since the code
   was repaired.  The pointer level (L1) is in TreeL1Proofs.v. *)
From HclV Require Import Base.Prelude Gen.TokenTypes Write.Format Write.Tree Write.TreeSpec Write.TreeSpecProofs.

(* ======================================================================== *)
(* Part 1: id-indexed lists                                                 *)
(* ======================================================================== *)

Lemma bind_ok {A B} (x : outcome A) (f : A -> outcome B) a : x = Ok a -> bind x f = f a.
Proof. intros ->. reflexivity. Qed.

Lemma ids_app {A} (l1 l2 : list (Z * A)) : ids (l1 ++ l2) = ids l1 ++ ids l2.
Proof. unfold ids. apply map_app. Qed.

Lemma mem_In i l : mem i l = true <-> In i l.
Proof.
  unfold mem. rewrite existsb_exists. split.
  - intros [x [H E]]. apply Z.eqb_eq in E. subst. exact H.
  - intros H. exists i. split; [exact H|apply Z.eqb_refl].
Qed.

Lemma mem_false i l : mem i l = false <-> ~ In i l.
Proof.
  split.
  - intros E H. apply mem_In in H. congruence.
  - intros H. destruct (mem i l) eqn:E; [|reflexivity]. apply mem_In in E. contradiction.
Qed.

Lemma find_id_app_notin {A} i (l1 l2 : list (Z * A)) :
  ~ In i (ids l1) -> find_id i (l1 ++ l2) = find_id i l2.
Proof.
  induction l1 as [|[j y] r IH]; simpl; intros H; [reflexivity|].
  destruct (j =? i) eqn:E.
  - apply Z.eqb_eq in E. subst. exfalso. apply H. left. reflexivity.
  - apply IH. intros H'. apply H. right. exact H'.
Qed.

Lemma find_id_here {A} i (x : A) l : find_id i ((i, x) :: l) = Some x.
Proof. simpl. rewrite Z.eqb_refl. reflexivity. Qed.

Lemma find_id_mid {A} i (x : A) l1 l2 :
  ~ In i (ids l1) -> find_id i (l1 ++ (i, x) :: l2) = Some x.
Proof. intros H. rewrite find_id_app_notin by exact H. apply find_id_here. Qed.

Lemma find_id_notin {A} i (l : list (Z * A)) : ~ In i (ids l) -> find_id i l = None.
Proof.
  induction l as [|[j y] r IH]; simpl; intros H; [reflexivity|].
  destruct (j =? i) eqn:E.
  - apply Z.eqb_eq in E. subst. exfalso. apply H. left. reflexivity.
  - apply IH. intros H'. apply H. right. exact H'.
Qed.

Lemma find_id_In {A} i (x : A) l : find_id i l = Some x -> In (i, x) l.
Proof.
  induction l as [|[j y] r IH]; simpl; intros H; [discriminate|].
  destruct (j =? i) eqn:E.
  - apply Z.eqb_eq in E. inversion H. subst. left. reflexivity.
  - right. apply IH. exact H.
Qed.

Lemma In_ids {A} i (x : A) l : In (i, x) l -> In i (ids l).
Proof. intros H. unfold ids. change i with (fst (i, x)). apply in_map. exact H. Qed.

Lemma NoDup_app_l {A} (l1 l2 : list A) : NoDup (l1 ++ l2) -> NoDup l1.
Proof.
  induction l1 as [|a r IH]; simpl; intros H; [constructor|].
  inversion H; subst. constructor.
  - intros H'. apply H2. apply in_or_app. left. exact H'.
  - apply IH. exact H3.
Qed.

Lemma NoDup_app_r {A} (l1 l2 : list A) : NoDup (l1 ++ l2) -> NoDup l2.
Proof.
  induction l1 as [|a r IH]; simpl; intros H; [exact H|].
  inversion H; subst. apply IH. exact H3.
Qed.

Lemma NoDup_mid_notin {A} (l1 l2 : list A) a :
  NoDup (l1 ++ a :: l2) -> ~ In a l1 /\ ~ In a l2.
Proof.
  intros H. split.
  - intros H'. apply NoDup_remove_2 in H. apply H. apply in_or_app. left. exact H'.
  - intros H'. apply NoDup_remove_2 in H. apply H. apply in_or_app. right. exact H'.
Qed.

Lemma NoDup_mid_replace {A} (l1 l2 : list A) a b :
  NoDup (l1 ++ a :: l2) -> ~ In b (l1 ++ a :: l2) -> NoDup (l1 ++ b :: l2).
Proof.
  intros H Hb. pose proof (NoDup_remove_1 _ _ _ H) as H1.
  apply NoDup_Add with (a := b) (l := l1 ++ l2).
  - apply Add_app.
  - split; [exact H1|]. intros H'. apply Hb. apply in_app_or in H'. apply in_or_app.
    destruct H' as [H'|H']; [left; exact H'|right; right; exact H'].
Qed.

(* a NoDup-id list determines the element at an id *)
Lemma In_unique {A} i (x y : A) l : NoDup (ids l) -> In (i, x) l -> In (i, y) l -> x = y.
Proof.
  induction l as [|[j z] r IH]; simpl; intros N H1 H2; [contradiction|].
  inversion N; subst.
  destruct H1 as [H1|H1]; destruct H2 as [H2|H2].
  - inversion H1; inversion H2; subst. reflexivity.
  - inversion H1; subst. exfalso. apply H3. eapply In_ids. exact H2.
  - inversion H2; subst. exfalso. apply H3. eapply In_ids. exact H1.
  - apply IH; assumption.
Qed.

Lemma repl_id_mid {A} i (n : Z * A) x l1 l2 :
  ~ In i (ids l1) -> repl_id i n (l1 ++ (i, x) :: l2) = l1 ++ n :: l2.
Proof.
  induction l1 as [|[j y] r IH]; simpl; intros H.
  - rewrite Z.eqb_refl. reflexivity.
  - destruct (j =? i) eqn:E.
    + apply Z.eqb_eq in E. subst. exfalso. apply H. left. reflexivity.
    + f_equal. apply IH. intros H'. apply H. right. exact H'.
Qed.

Lemma repl_id_notin {A} i (n : Z * A) l : ~ In i (ids l) -> repl_id i n l = l.
Proof.
  induction l as [|[j y] r IH]; simpl; intros H; [reflexivity|].
  destruct (j =? i) eqn:E.
  - apply Z.eqb_eq in E. subst. exfalso. apply H. left. reflexivity.
  - f_equal. apply IH. intros H'. apply H. right. exact H'.
Qed.

Lemma upd_id_mid {A} i (x y : A) l1 l2 :
  ~ In i (ids l1) -> upd_id i y (l1 ++ (i, x) :: l2) = l1 ++ (i, y) :: l2.
Proof. apply repl_id_mid. Qed.

Lemma upd_id_notin {A} i (y : A) l : ~ In i (ids l) -> upd_id i y l = l.
Proof. apply repl_id_notin. Qed.

Lemma remove_id_notin {A} i (l : list (Z * A)) : ~ In i (ids l) -> remove_id i l = l.
Proof.
  induction l as [|[j y] r IH]; simpl; intros H; [reflexivity|].
  destruct (j =? i) eqn:E; simpl.
  - apply Z.eqb_eq in E. subst. exfalso. apply H. left. reflexivity.
  - f_equal. apply IH. intros H'. apply H. right. exact H'.
Qed.

Lemma remove_id_mid {A} i (x : A) l1 l2 :
  ~ In i (ids l1) -> ~ In i (ids l2) -> remove_id i (l1 ++ (i, x) :: l2) = l1 ++ l2.
Proof.
  intros H1 H2. unfold remove_id. rewrite filter_app. simpl. rewrite Z.eqb_refl. simpl.
  fold (remove_id i l1). fold (remove_id i l2).
  rewrite !remove_id_notin by assumption. reflexivity.
Qed.

Lemma filter_neq_notin i (l : list Z) : ~ In i l -> filter (fun j => negb (j =? i)) l = l.
Proof.
  induction l as [|j r IH]; simpl; intros H; [reflexivity|].
  destruct (j =? i) eqn:E; simpl.
  - apply Z.eqb_eq in E. subst. exfalso. apply H. left. reflexivity.
  - f_equal. apply IH. intros H'. apply H. right. exact H'.
Qed.

Lemma filter_neq_mid i (l1 l2 : list Z) :
  ~ In i l1 -> ~ In i l2 -> filter (fun j => negb (j =? i)) (l1 ++ i :: l2) = l1 ++ l2.
Proof.
  intros H1 H2. rewrite filter_app. simpl. rewrite Z.eqb_refl. simpl.
  rewrite !filter_neq_notin by assumption. reflexivity.
Qed.

Lemma maxZ0_ge l i : In i l -> i <= maxZ0 l.
Proof.
  induction l as [|j r IH]; simpl; intros H; [contradiction|].
  destruct H as [->|H]; [lia|]. specialize (IH H). lia.
Qed.

Lemma fresh_of_notin l : ~ In (fresh_of l) l.
Proof. intros H. apply maxZ0_ge in H. unfold fresh_of in H. lia. Qed.

Lemma fresh_notin {A} (l : list (Z * A)) : ~ In (fresh l) (ids l).
Proof. apply fresh_of_notin. Qed.

Lemma is_first_false {A} i (l1 : list (Z * A)) l2 :
  l1 <> [] -> ~ In i (ids l1) -> is_first i (l1 ++ l2) = false.
Proof.
  destruct l1 as [|[j y] r]; [congruence|]. simpl. intros _ H.
  apply Z.eqb_neq. intros ->. apply H. left. reflexivity.
Qed.

Lemma is_last_false {A} i (l1 : list (Z * A)) l2 :
  l2 <> [] -> ~ In i (ids l2) -> is_last i (l1 ++ l2) = false.
Proof.
  intros N H. unfold is_last. rewrite rev_app_distr. apply is_first_false.
  - intros E. apply N. apply (f_equal (@rev _)) in E. rewrite rev_involutive in E. exact E.
  - intros H'. apply H. unfold ids in *. rewrite map_rev in H'. apply in_rev in H'. exact H'.
Qed.

(* the set-membership filter over a NoDup-id list with items = the ids of a subset *)
Lemma set_list_filter {A} (P : Z * A -> bool) (l : list (Z * A)) :
  NoDup (ids l) -> set_list (ids (filter P l)) l = filter P l.
Proof.
  intros N. unfold set_list.
  assert (E : filter (fun n => mem (fst n) (ids (filter P l))) l = filter P l).
  { apply filter_ext_in. intros [i x] Hin. simpl.
    destruct (P (i, x)) eqn:EP.
    - apply mem_In. eapply In_ids. apply filter_In. split; [exact Hin|exact EP].
    - apply mem_false. intros H. unfold ids in H. apply in_map_iff in H.
      destruct H as [[i' x'] [E H]]. simpl in E. subst i'.
      apply filter_In in H. destruct H as [H HP].
      assert (x' = x) by (eapply In_unique; eassumption). subst. congruence. }
  destruct (ids (filter P l)) eqn:EI; [|exact E].
  destruct (filter P l); [reflexivity|discriminate].
Qed.

Lemma number_from_ids {A} (l : list A) i : ids (number_from i l) = map (fun k => i + Z.of_nat k) (seq 0 (length l)).
Proof.
  revert i. induction l as [|x r IH]; simpl; intros i; [reflexivity|].
  f_equal; [lia|]. rewrite IH. rewrite <- seq_shift. rewrite map_map.
  apply map_ext. intros k. lia.
Qed.

Lemma number_from_NoDup {A} (l : list A) i : NoDup (ids (number_from i l)).
Proof.
  revert i. induction l as [|x r IH]; simpl; intros i; [constructor|].
  constructor; [|apply IH].
  rewrite number_from_ids. intros H. apply in_map_iff in H. destruct H as [k [E _]]. lia.
Qed.

Lemma number_from_snd {A} (l : list A) i : map snd (number_from i l) = l.
Proof. revert i. induction l as [|x r IH]; simpl; intros i; [reflexivity|]. f_equal. apply IH. Qed.

(* ======================================================================== *)
(* Part 2: well-formedness, and abs on well-formed trees                    *)
(* ======================================================================== *)

Definition is_item (n : Z * bitem) : bool := match snd n with ITokens _ => false | _ => true end.
Definition is_label_node (n : Z * leaf) : bool :=
  match snd n with LIdent _ | LQuoted _ => true | _ => false end.
Definition attr_key (a : attr) : list Z := match attr_name a with Ok t => bytes t | _ => [] end.
Definition keys (ch : list (Z * bitem)) : list (list Z) :=
  flat_map (fun n => match snd n with IAttr a => [attr_key a] | _ => [] end) ch.

(* Attribute: children = pre ++ [name] ++ mid ++ [expr] ++ post; the name and
   expression nodes are interior (the precondition of ReplaceWith) and are what
   the handles point at; the two comment handles are attached too. *)
Definition WF_attr (a : attr) : Prop :=
  exists pre iN t mid iE e post,
    a_ch a = pre ++ (iN, LIdent t) :: mid ++ (iE, LExpr e) :: post /\
    pre <> [] /\ post <> [] /\
    Forall (fun n => is_lident (snd n) = false) pre /\
    Forall (fun n => is_lexpr (snd n) = false) mid /\
    NoDup (ids (a_ch a)) /\ a_name a = iN /\ a_expr a = iE /\
    In (a_lead a) (ids pre) /\ In (a_line a) (ids post).

(* blockLabels: the item set is exactly the identifier/quoted children, in order *)
Definition WF_labels (l : labels) : Prop :=
  NoDup (ids (l_ch l)) /\ l_items l = ids (filter is_label_node (l_ch l)).

Definition nil_or_in (h : Z) (l : list Z) : Prop := h = 0 \/ In h l.

(* Body and Block, mutually: consistent lists (distinct node identities),
   items = the Attribute/Block children (in particular items ⊆ children, no
   orphans), attribute names unique, every handle attached to its owner's list. *)
Inductive WFb : body -> Prop :=
| WFb_intro ch items :
    NoDup (ids ch) ->
    items = ids (filter is_item ch) ->
    NoDup (keys ch) ->
    (forall i a, In (i, IAttr a) ch -> WF_attr a) ->
    (forall i k, In (i, IBlock k) ch -> WFk k) ->
    WFb (mkBody ch items)
with WFk : block -> Prop :=
| WFk_intro lead iT t iL l mid bid bd post h1 h4 h6 :
    lead <> [] ->
    Forall (fun n => is_kident (snd n) = false) lead ->
    NoDup (ids (lead ++ (iT, KLeaf (LIdent t)) :: (iL, KLabels l) :: mid) ++ bid :: ids post) ->
    WF_labels l ->
    In h1 (ids lead) -> nil_or_in h4 (ids mid) -> nil_or_in h6 (ids post) ->
    WFb bd ->
    WFk (mkBlock (lead ++ (iT, KLeaf (LIdent t)) :: (iL, KLabels l) :: mid) bid bd post
                 h1 iT iL h4 bid h6).

Definition WF (s : state) : Prop := WFb (root s) /\ Forall WFk (shelf s).

(* ---- split_first ----------------------------------------------------------- *)
Lemma split_first_mid {A} (p : A -> bool) pre (x : Z * A) post :
  Forall (fun n => p (snd n) = false) pre -> p (snd x) = true ->
  split_first p (pre ++ x :: post) = Some (pre, x, post).
Proof.
  induction pre as [|y r IH]; simpl; intros F Hx.
  - rewrite Hx. reflexivity.
  - inversion F; subst. rewrite H1. rewrite IH by assumption. reflexivity.
Qed.

Lemma leaves_tokens_app l1 l2 : leaves_tokens (l1 ++ l2) = leaves_tokens l1 ++ leaves_tokens l2.
Proof. unfold leaves_tokens. apply flat_map_app. Qed.
Lemma kleaves_tokens_app l1 l2 : kleaves_tokens (l1 ++ l2) = kleaves_tokens l1 ++ kleaves_tokens l2.
Proof. unfold kleaves_tokens. apply flat_map_app. Qed.

(* ---- attributes ------------------------------------------------------------------ *)
Lemma two_mid_ids {A} (pre mid post : list (Z * A)) iN x iE y :
  ids (pre ++ (iN, x) :: mid ++ (iE, y) :: post) = ids pre ++ iN :: ids mid ++ iE :: ids post.
Proof. rewrite ids_app. simpl. rewrite ids_app. reflexivity. Qed.

Lemma two_mid_assoc {A} (pre mid post : list A) x y :
  pre ++ x :: mid ++ y :: post = (pre ++ x :: mid) ++ y :: post.
Proof. rewrite <- app_assoc. reflexivity. Qed.

Lemma two_mid_notin {A} (pre mid post : list (Z * A)) iN x iE y :
  NoDup (ids (pre ++ (iN, x) :: mid ++ (iE, y) :: post)) ->
  ~ In iN (ids pre) /\ ~ In iE (ids (pre ++ (iN, x) :: mid)) /\ ~ In iE (ids post) /\ iN <> iE
  /\ ~ In iN (ids post) /\ ~ In iN (ids mid).
Proof.
  intros N.
  assert (N1 := N). rewrite ids_app in N1. simpl in N1. apply NoDup_mid_notin in N1.
  destruct N1 as [A1 A2]. rewrite ids_app in A2. simpl in A2.
  assert (N2 := N). rewrite two_mid_assoc in N2. rewrite ids_app in N2. simpl in N2.
  apply NoDup_mid_notin in N2. destruct N2 as [B1 B2].
  repeat split; try assumption.
  - intros ->. apply A2. apply in_or_app. right. left. reflexivity.
  - intros H. apply A2. apply in_or_app. right. right. exact H.
  - intros H. apply A2. apply in_or_app. left. exact H.
Qed.

Lemma wf_attr_view a :
  WF_attr a ->
  exists lead t mid e trail,
    abs_attr a = AAttr lead t mid e trail /\ attr_name a = Ok t /\ attr_expr a = Ok e /\
    attr_tokens a = lead ++ t :: mid ++ e ++ trail.
Proof.
  intros (pre & iN & t & mid & iE & e & post & Hch & Hpre & Hpost & Fp & Fm & N & HN & HE & _ & _).
  exists (leaves_tokens pre), t, (leaves_tokens mid), e, (leaves_tokens post).
  rewrite Hch in N. destruct (two_mid_notin _ _ _ _ _ _ _ N) as (N1 & N2 & _).
  repeat split.
  - unfold abs_attr. rewrite Hch. rewrite split_first_mid by (assumption || reflexivity).
    rewrite split_first_mid by (assumption || reflexivity). reflexivity.
  - unfold attr_name. rewrite HN, Hch. rewrite find_id_mid by exact N1. reflexivity.
  - unfold attr_expr. rewrite HE, Hch. rewrite two_mid_assoc.
    rewrite find_id_mid by exact N2. reflexivity.
  - unfold attr_tokens, leaves_tokens. rewrite Hch. rewrite flat_map_app. simpl.
    rewrite flat_map_app. simpl. reflexivity.
Qed.

Lemma wf_attr_key a lead t mid e trail :
  WF_attr a -> abs_attr a = AAttr lead t mid e trail -> attr_key a = bytes t.
Proof.
  intros W E. destruct (wf_attr_view a W) as (l' & t' & m' & e' & tr' & E' & HN & _).
  rewrite E in E'. inversion E'; subst. unfold attr_key. rewrite HN. reflexivity.
Qed.

(* ReplaceWith on an interior node of a consistent list is the functional replace *)
Lemma replace_with_ok {A} i (x y : A) l1 l2 used :
  l1 <> [] -> l2 <> [] -> NoDup (ids (l1 ++ (i, x) :: l2)) ->
  replace_with i y (l1 ++ (i, x) :: l2) used = Ok (fresh_of used, l1 ++ (fresh_of used, y) :: l2).
Proof.
  intros H1 H2 N. unfold replace_with.
  rewrite ids_app in N. simpl in N. pose proof (NoDup_mid_notin _ _ _ N) as [N1 N2].
  assert (M : mem i (ids (l1 ++ (i, x) :: l2)) = true).
  { apply mem_In. rewrite ids_app. apply in_or_app. right. left. reflexivity. }
  rewrite M. simpl.
  rewrite is_first_false by assumption.
  change (l1 ++ (i, x) :: l2) with (l1 ++ [(i, x)] ++ l2) at 1. rewrite app_assoc.
  rewrite is_last_false by assumption. simpl.
  rewrite repl_id_mid by assumption. reflexivity.
Qed.

Lemma attr_set_expr_wf e' a :
  WF_attr a ->
  exists a', attr_set_expr e' a = Ok a' /\ WF_attr a' /\
             abs_attr a' = set_expr e' (abs_attr a) /\ attr_key a' = attr_key a.
Proof.
  intros W. pose proof W as (pre & iN & t & mid & iE & e & post & Hch & Hpre & Hpost & Fp & Fm & N & HN & HE & HL1 & HL2).
  set (j := fresh_of (ids (a_ch a))).
  exists (mkAttr (pre ++ (iN, LIdent t) :: mid ++ (j, LExpr e') :: post) (a_lead a) (a_name a) j (a_line a)).
  assert (Hj : ~ In j (ids (a_ch a))) by apply fresh_of_notin.
  assert (W' : WF_attr (mkAttr (pre ++ (iN, LIdent t) :: mid ++ (j, LExpr e') :: post) (a_lead a) (a_name a) j (a_line a))).
  { exists pre, iN, t, mid, j, e', post. simpl. repeat split; try assumption.
    rewrite two_mid_assoc. rewrite Hch, two_mid_assoc in N, Hj.
    rewrite ids_app in *. simpl in *. apply NoDup_mid_replace with (a := iE); assumption. }
  split; [|split; [exact W'|split]].
  - unfold attr_set_expr. rewrite HE. rewrite Hch at 1. rewrite two_mid_assoc.
    rewrite replace_with_ok.
    + simpl. rewrite <- two_mid_assoc. reflexivity.
    + destruct pre; discriminate.
    + exact Hpost.
    + rewrite <- two_mid_assoc, <- Hch. exact N.
  - destruct (wf_attr_view _ W) as (l1 & t1 & m1 & e1 & tr1 & E1 & _).
    destruct (wf_attr_view _ W') as (l2 & t2 & m2 & e2 & tr2 & E2 & _).
    rewrite E1, E2. simpl.
    unfold abs_attr in E1, E2. simpl in E2. rewrite Hch in E1.
    rewrite split_first_mid in E1, E2 by (assumption || reflexivity).
    rewrite split_first_mid in E1, E2 by (assumption || reflexivity).
    inversion E1; inversion E2; subst. reflexivity.
  - unfold attr_key, attr_name. simpl. rewrite Hch, HN.
    rewrite Hch in N. destruct (two_mid_notin _ _ _ _ _ _ _ N) as (N1 & _).
    rewrite !find_id_mid by exact N1. reflexivity.
Qed.

Lemma attr_set_name_wf nm a :
  WF_attr a ->
  exists a', attr_set_name nm a = Ok a' /\ WF_attr a' /\
             abs_attr a' = set_name nm (abs_attr a) /\ attr_key a' = nm.
Proof.
  intros W. pose proof W as (pre & iN & t & mid & iE & e & post & Hch & Hpre & Hpost & Fp & Fm & N & HN & HE & HL1 & HL2).
  set (j := fresh_of (ids (a_ch a))).
  set (a' := mkAttr (pre ++ (j, LIdent (ident_tok nm)) :: mid ++ (iE, LExpr e) :: post) (a_lead a) j (a_expr a) (a_line a)).
  exists a'.
  assert (Hj : ~ In j (ids (a_ch a))) by apply fresh_of_notin.
  assert (W' : WF_attr a').
  { exists pre, j, (ident_tok nm), mid, iE, e, post. unfold a'. simpl. repeat split; try assumption.
    rewrite Hch in N, Hj. rewrite ids_app in *. simpl in *.
    apply NoDup_mid_replace with (a := iN); assumption. }
  split; [|split; [exact W'|split]].
  - unfold attr_set_name. rewrite HN. rewrite Hch at 1.
    rewrite replace_with_ok.
    + reflexivity.
    + exact Hpre.
    + destruct mid; discriminate.
    + rewrite <- Hch. exact N.
  - destruct (wf_attr_view _ W) as (l1 & t1 & m1 & e1 & tr1 & E1 & _).
    destruct (wf_attr_view _ W') as (l2 & t2 & m2 & e2 & tr2 & E2 & _).
    rewrite E1, E2. simpl.
    unfold abs_attr in E1, E2. unfold a' in E2. simpl in E2. rewrite Hch in E1.
    rewrite split_first_mid in E1, E2 by (assumption || reflexivity).
    rewrite split_first_mid in E1, E2 by (assumption || reflexivity).
    inversion E1; inversion E2; subst. reflexivity.
  - unfold attr_key, attr_name, a'. simpl.
    assert (Nj : ~ In j (ids pre)).
    { intros H. apply Hj. rewrite Hch, ids_app. apply in_or_app. left. exact H. }
    rewrite find_id_mid by exact Nj. reflexivity.
Qed.

Lemma new_attr_wf nm e :
  WF_attr (new_attr nm e) /\ abs_attr (new_attr nm e) = new_aattr nm e /\ attr_key (new_attr nm e) = nm.
Proof.
  split; [|split; reflexivity].
  exists [(1, LComments [])], 2, (ident_tok nm), [(3, LTokens [tok_eq])], 4, e,
         [(5, LComments []); (6, LTokens [tok_nl])].
  simpl. repeat split; try discriminate; try (repeat constructor; fail);
    try (left; reflexivity).
  repeat constructor; simpl; intuition lia.
Qed.

(* ---- labels ------------------------------------------------------------------------- *)
Lemma wf_labels_current unesc l :
  WF_labels l -> labels_current unesc l = spec_labels unesc (abs_labels l).
Proof.
  intros [N E]. unfold labels_current, spec_labels, abs_labels. rewrite E.
  rewrite set_list_filter by exact N.
  clear. induction (l_ch l) as [|[i x] r IH]; simpl; [reflexivity|].
  unfold is_label_node at 1. unfold abs_label at 1. simpl.
  destruct x; simpl; try exact IH; rewrite IH; reflexivity.
Qed.

Lemma labels_replace_wf ls :
  WF_labels (labels_replace ls) /\ abs_labels (labels_replace ls) = map ALQuoted ls.
Proof.
  unfold labels_replace, WF_labels, abs_labels. simpl. split; [split|].
  - apply number_from_NoDup.
  - f_equal. generalize 1. induction ls as [|x r IH]; simpl; intros i; [reflexivity|].
    unfold is_label_node at 1. simpl. f_equal. apply IH.
  - generalize 1. induction ls as [|x r IH]; simpl; intros i; [reflexivity|].
    f_equal. apply IH.
Qed.

(* ---- blocks --------------------------------------------------------------------------- *)
Lemma abs_block_shape lead iT t iL l mid bid bd post h1 h2 h3 h4 h5 h6 :
  Forall (fun n => is_kident (snd n) = false) lead ->
  abs_block (mkBlock (lead ++ (iT, KLeaf (LIdent t)) :: (iL, KLabels l) :: mid) bid bd post h1 h2 h3 h4 h5 h6)
  = ABlock (kleaves_tokens lead) t (abs_labels l) (kleaves_tokens mid) (abs_body bd) (kleaves_tokens post).
Proof.
  intros F. cbn [abs_block]. rewrite split_first_mid by (assumption || reflexivity). reflexivity.
Qed.

Lemma wfk_view k :
  WFk k ->
  exists lead t l mid trail,
    abs_block k = ABlock lead t (abs_labels l) mid (abs_body (k_bd k)) trail /\
    block_type k = Ok t /\ block_labels_obj k = Ok l /\ WF_labels l /\
    block_body k = Ok (k_bd k) /\ WFb (k_bd k).
Proof.
  intros W. inversion W as [lead iT t iL l mid bid bd post h1 h4 h6 Hl Fl N WL H1 H4 H6 Wb]. subst.
  exists (kleaves_tokens lead), t, l, (kleaves_tokens mid), (kleaves_tokens post).
  assert (N1 := NoDup_app_l _ _ N).
  assert (NT : ~ In iT (ids lead)).
  { rewrite ids_app in N1. simpl in N1. apply NoDup_mid_notin in N1. tauto. }
  assert (NL : ~ In iL (ids (lead ++ [(iT, KLeaf (LIdent t))]))).
  { change (lead ++ (iT, KLeaf (LIdent t)) :: (iL, KLabels l) :: mid)
      with (lead ++ [(iT, KLeaf (LIdent t))] ++ (iL, KLabels l) :: mid) in N1.
    rewrite app_assoc in N1. rewrite ids_app in N1. simpl in N1. apply NoDup_mid_notin in N1. tauto. }
  split; [apply abs_block_shape; exact Fl|].
  split.
  { unfold block_type. simpl. rewrite <- app_assoc. simpl.
    rewrite find_id_mid by exact NT. reflexivity. }
  split.
  { unfold block_labels_obj. simpl. rewrite <- app_assoc. simpl.
    change (lead ++ (iT, KLeaf (LIdent t)) :: (iL, KLabels l) :: mid ++ post)
      with (lead ++ [(iT, KLeaf (LIdent t))] ++ (iL, KLabels l) :: mid ++ post).
    rewrite app_assoc. rewrite find_id_mid by exact NL. reflexivity. }
  split; [exact WL|].
  split; [|exact Wb].
  unfold block_body. simpl. rewrite Z.eqb_refl. reflexivity.
Qed.

Lemma block_with_body_wf k bd' :
  WFk k -> WFb bd' ->
  WFk (block_with_body k bd') /\ abs_block (block_with_body k bd') = map_body (fun _ => abs_body bd') (abs_block k).
Proof.
  intros W Wb. inversion W as [lead iT t iL l mid bid bd post h1 h4 h6 Hl Fl N WL H1 H4 H6 Wb0]. subst.
  cbn [block_with_body]. split.
  - constructor; assumption.
  - rewrite !abs_block_shape by exact Fl. reflexivity.
Qed.

Lemma block_set_labels_wf ls k :
  WFk k ->
  exists k', block_set_labels ls k = Ok k' /\ WFk k' /\ abs_block k' = set_labels ls (abs_block k).
Proof.
  intros W. destruct (wfk_view k W) as (ld & t0 & l0 & md & tr & _ & _ & HL & _).
  inversion W as [lead iT t iL l mid bid bd post h1 h4 h6 Hl Fl N WL H1 H4 H6 Wb]. subst.
  rewrite (abs_block_shape lead iT t iL l mid bid bd post h1 iT iL h4 bid h6 Fl).
  unfold block_set_labels. rewrite HL. cbn [bind].
  assert (N1 := NoDup_app_l _ _ N).
  assert (NL : ~ In iL (ids (lead ++ [(iT, KLeaf (LIdent t))]))).
  { change (lead ++ (iT, KLeaf (LIdent t)) :: (iL, KLabels l) :: mid)
      with (lead ++ [(iT, KLeaf (LIdent t))] ++ (iL, KLabels l) :: mid) in N1.
    rewrite app_assoc in N1. rewrite ids_app in N1. simpl in N1. apply NoDup_mid_notin in N1. tauto. }
  assert (NP : ~ In iL (ids post)).
  { intros H. rewrite ids_app in N. simpl in N.
    change (ids lead ++ iT :: iL :: ids mid) with (ids lead ++ [iT] ++ iL :: ids mid) in N.
    rewrite app_assoc in N. rewrite <- app_assoc in N. simpl in N.
    apply NoDup_mid_notin in N. destruct N as [_ N]. apply N.
    apply in_or_app. right. right. exact H. }
  change (lead ++ (iT, KLeaf (LIdent t)) :: (iL, KLabels l) :: mid)
    with (lead ++ [(iT, KLeaf (LIdent t))] ++ (iL, KLabels l) :: mid).
  rewrite app_assoc. rewrite upd_id_mid by exact NL. rewrite upd_id_notin by exact NP.
  rewrite <- app_assoc. simpl.
  destruct (labels_replace_wf ls) as [WL' EL'].
  eexists. split; [reflexivity|]. split.
  - constructor; try assumption.
    assert (E : forall x, ids (lead ++ (iT, KLeaf (LIdent t)) :: (iL, KLabels x) :: mid)
                          = ids lead ++ iT :: iL :: ids mid)
      by (intros x; rewrite ids_app; reflexivity).
    rewrite E in *. exact N.
  - rewrite abs_block_shape by exact Fl. simpl. rewrite EL'. reflexivity.
Qed.

Lemma new_block_wf ty ls :
  WFk (new_block ty ls) /\ abs_block (new_block ty ls) = new_ablock ty ls.
Proof.
  destruct (labels_replace_wf ls) as [WL EL]. unfold new_block.
  change [(1, KLeaf (LComments [])); (2, KLeaf (LIdent (ident_tok ty))); (3, KLabels (labels_replace ls)); (4, KLeaf (LTokens [tok_ob; tok_nl]))]
    with ([(1, KLeaf (LComments []))] ++ (2, KLeaf (LIdent (ident_tok ty))) :: (3, KLabels (labels_replace ls)) :: [(4, KLeaf (LTokens [tok_ob; tok_nl]))]).
  split.
  - constructor; try assumption; try discriminate.
    + repeat constructor.
    + simpl. repeat constructor; simpl; intuition lia.
    + left. reflexivity.
    + right. left. reflexivity.
    + right. left. reflexivity.
    + constructor; simpl; try constructor; try reflexivity; intros ? ? [].
  - rewrite abs_block_shape by (repeat constructor). rewrite EL. reflexivity.
Qed.

(* ======================================================================== *)
(* Part 3: body operations                                                  *)
(* ======================================================================== *)

Definition abs_items (ch : list (Z * bitem)) : afile := map (fun n => abs_item (snd n)) ch.

Lemma abs_body_unfold ch items : abs_body (mkBody ch items) = abs_items ch.
Proof. cbn [abs_body]. induction ch as [|n r IH]; [reflexivity|]. simpl. rewrite IH. reflexivity. Qed.

Lemma abs_items_app l1 l2 : abs_items (l1 ++ l2) = abs_items l1 ++ abs_items l2.
Proof. apply map_app. Qed.

Definition item_ok (it : bitem) : Prop :=
  match it with ITokens _ => True | IAttr a => WF_attr a | IBlock k => WFk k end.
Definition children_ok (ch : list (Z * bitem)) : Prop := forall i it, In (i, it) ch -> item_ok it.

Lemma children_ok_app l1 l2 : children_ok (l1 ++ l2) <-> children_ok l1 /\ children_ok l2.
Proof.
  unfold children_ok. split.
  - intros H. split; intros i it Hin; apply (H i it); apply in_or_app; [left|right]; exact Hin.
  - intros [H1 H2] i it Hin. apply in_app_or in Hin. destruct Hin; [eapply H1|eapply H2]; eassumption.
Qed.

Lemma children_ok_cons i it l : children_ok ((i, it) :: l) <-> item_ok it /\ children_ok l.
Proof.
  unfold children_ok. split.
  - intros H. split; [apply (H i it); left; reflexivity|]. intros j x Hin. apply (H j x). right. exact Hin.
  - intros [H1 H2] j x [E|Hin]; [inversion E; subst; exact H1|eapply H2; exact Hin].
Qed.

Lemma wfb_children ch items : WFb (mkBody ch items) -> children_ok ch.
Proof.
  intros W. inversion W; subst. intros i it Hin. destruct it; simpl; [exact I| |]; eauto.
Qed.

Lemma wfb_inv ch items :
  WFb (mkBody ch items) ->
  NoDup (ids ch) /\ items = ids (filter is_item ch) /\ NoDup (keys ch) /\ children_ok ch.
Proof.
  intros W. pose proof (wfb_children _ _ W) as C.
  inversion W as [ch0 it0 Nd Ei Nk Ca Ck]. subst. auto.
Qed.

Lemma wfb_build ch :
  NoDup (ids ch) -> NoDup (keys ch) -> children_ok ch ->
  WFb (mkBody ch (ids (filter is_item ch))).
Proof.
  intros N K C. constructor; try assumption; try reflexivity.
  - intros i a Hin. apply (C i (IAttr a) Hin).
  - intros i k Hin. apply (C i (IBlock k) Hin).
Qed.

(* what abs says about one well-formed item *)
Lemma abs_is_attr nm it :
  item_ok it ->
  a_is_attr nm (abs_item it) = match it with IAttr a => zlist_eqb (attr_key a) nm | _ => false end.
Proof.
  destruct it as [ts|a|k]; simpl; intros W; [reflexivity| |].
  - destruct (wf_attr_view a W) as (l & t & m & e & tr & E & _).
    rewrite E. simpl. erewrite wf_attr_key by eassumption. reflexivity.
  - destruct (wfk_view k W) as (l & t & ls & m & tr & E & _). rewrite E. reflexivity.
Qed.

Lemma abs_is_block it :
  item_ok it ->
  a_is_block (abs_item it) = match it with IBlock _ => true | _ => false end.
Proof.
  destruct it as [ts|a|k]; simpl; intros W; [reflexivity| |].
  - destruct (wf_attr_view a W) as (l & t & m & e & tr & E & _). rewrite E. reflexivity.
  - destruct (wfk_view k W) as (l & t & ls & m & tr & E & _). rewrite E. reflexivity.
Qed.

(* ---- finding an attribute ------------------------------------------------------------ *)
Fixpoint find_attr (nm : list Z) (l : list (Z * bitem)) : option (Z * attr) :=
  match l with
  | [] => None
  | (i, IAttr a) :: r => if zlist_eqb (attr_key a) nm then Some (i, a) else find_attr nm r
  | _ :: r => find_attr nm r
  end.

Lemma find_attr_Some nm l i a :
  find_attr nm l = Some (i, a) ->
  exists l1 l2, l = l1 ++ (i, IAttr a) :: l2 /\ attr_key a = nm /\ find_attr nm l1 = None.
Proof.
  induction l as [|[j it] r IH]; simpl; intros H; [discriminate|].
  destruct it as [ts|b|k].
  - destruct (IH H) as (l1 & l2 & E & K & F). exists ((j, ITokens ts) :: l1), l2. subst. auto.
  - destruct (zlist_eqb (attr_key b) nm) eqn:EK.
    + inversion H; subst. exists [], r. apply zlist_eqb_eq in EK. auto.
    + destruct (IH H) as (l1 & l2 & E & K & F). exists ((j, IAttr b) :: l1), l2. subst.
      simpl. rewrite EK. auto.
  - destruct (IH H) as (l1 & l2 & E & K & F). exists ((j, IBlock k) :: l1), l2. subst. auto.
Qed.

Lemma find_attr_None_keys nm l : find_attr nm l = None -> ~ In nm (keys l).
Proof.
  induction l as [|[j it] r IH]; simpl; intros H; [tauto|].
  destruct it as [ts|b|k]; simpl; try (apply IH; exact H).
  destruct (zlist_eqb (attr_key b) nm) eqn:EK; [discriminate|].
  intros [E|Hin]; [|apply (IH H); exact Hin].
  subst. assert (zlist_eqb (attr_key b) (attr_key b) = true) by (apply zlist_eqb_eq; reflexivity). congruence.
Qed.

Lemma keys_app l1 l2 : keys (l1 ++ l2) = keys l1 ++ keys l2.
Proof. unfold keys. apply flat_map_app. Qed.

Lemma get_attr_node_wf nm done rest :
  NoDup (ids (done ++ rest)) -> children_ok rest ->
  get_attr_node nm (done ++ rest) (ids (filter is_item rest)) = Ok (find_attr nm rest).
Proof.
  revert done. induction rest as [|[i it] r IH]; intros done N C; [reflexivity|].
  apply children_ok_cons in C. destruct C as [Ci Cr].
  assert (Ni : ~ In i (ids done)).
  { rewrite ids_app in N. simpl in N. apply NoDup_mid_notin in N. tauto. }
  assert (E : done ++ (i, it) :: r = (done ++ [(i, it)]) ++ r) by (rewrite <- app_assoc; reflexivity).
  destruct it as [ts|a|k]; cbn [filter is_item snd ids map fst find_attr get_attr_node].
  - rewrite E. apply IH; [rewrite <- E; exact N|exact Cr].
  - rewrite find_id_mid by exact Ni.
    destruct (wf_attr_view a Ci) as (l & t & m & e & tr & _ & HN & _).
    unfold attr_key. rewrite HN. cbn [bind].
    destruct (zlist_eqb (bytes t) nm); [reflexivity|].
    rewrite E. apply IH; [rewrite <- E; exact N|exact Cr].
  - rewrite find_id_mid by exact Ni.
    rewrite E. apply IH; [rewrite <- E; exact N|exact Cr].
Qed.

Lemma body_get_attr_node_wf nm b :
  WFb b -> body_get_attr_node nm b = Ok (find_attr nm (b_ch b)).
Proof.
  intros W. destruct b as [ch items]. destruct (wfb_inv _ _ W) as (Nd & -> & _ & C).
  unfold body_get_attr_node. cbn [b_ch b_items].
  apply (get_attr_node_wf nm [] ch); assumption.
Qed.

Lemma upd_first_abs nm g l1 i a l2 :
  children_ok (l1 ++ (i, IAttr a) :: l2) -> find_attr nm l1 = None -> attr_key a = nm ->
  upd_first (a_is_attr nm) g (abs_items (l1 ++ (i, IAttr a) :: l2))
  = abs_items l1 ++ g (abs_attr a) :: abs_items l2
  /\ spec_has_attr nm (abs_items (l1 ++ (i, IAttr a) :: l2)) = true
  /\ remove_first (a_is_attr nm) (abs_items (l1 ++ (i, IAttr a) :: l2)) = abs_items l1 ++ abs_items l2.
Proof.
  induction l1 as [|[j it] r IH]; intros C F K.
  - simpl in C. apply children_ok_cons in C. destruct C as [Ca _].
    pose proof (abs_is_attr nm (IAttr a) Ca) as E. simpl in E.
    assert (EK : zlist_eqb (attr_key a) nm = true) by (apply zlist_eqb_eq; exact K).
    rewrite EK in E. unfold spec_has_attr. simpl. rewrite E. auto.
  - simpl in C. apply children_ok_cons in C. destruct C as [Ci Cr].
    assert (F' : find_attr nm r = None /\ a_is_attr nm (abs_item it) = false).
    { rewrite (abs_is_attr nm it Ci). destruct it as [ts|b|k]; simpl in F; auto.
      destruct (zlist_eqb (attr_key b) nm); [discriminate|auto]. }
    destruct F' as [F1 F2]. destruct (IH Cr F1 K) as (I1 & I2 & I3).
    unfold spec_has_attr in *. simpl. rewrite F2. simpl. rewrite I1, I2, I3. auto.
Qed.

Lemma has_attr_none nm l :
  children_ok l -> find_attr nm l = None -> spec_has_attr nm (abs_items l) = false
  /\ remove_first (a_is_attr nm) (abs_items l) = abs_items l.
Proof.
  induction l as [|[j it] r IH]; intros C F; [auto|].
  apply children_ok_cons in C. destruct C as [Ci Cr].
  assert (F' : find_attr nm r = None /\ a_is_attr nm (abs_item it) = false).
  { rewrite (abs_is_attr nm it Ci). destruct it as [ts|b|k]; simpl in F; auto.
    destruct (zlist_eqb (attr_key b) nm); [discriminate|auto]. }
  destruct F' as [F1 F2]. destruct (IH Cr F1) as [I1 I2].
  unfold spec_has_attr in *. simpl. rewrite F2. simpl. rewrite I1, I2. auto.
Qed.

Lemma filter_item_mid l1 i x y l2 :
  is_item (i, x) = is_item (i, y) ->
  ids (filter is_item (l1 ++ (i, x) :: l2)) = ids (filter is_item (l1 ++ (i, y) :: l2)).
Proof.
  intros E. rewrite !filter_app. simpl. rewrite E. destruct (is_item (i, y)); rewrite !ids_app; reflexivity.
Qed.

Lemma NoDup_app_comm_one {A} (l : list A) a : NoDup l -> ~ In a l -> NoDup (l ++ [a]).
Proof.
  intros N H. apply NoDup_Add with (a := a) (l := l).
  - rewrite <- (app_nil_r l) at 1. apply Add_app.
  - split; assumption.
Qed.

Definition body_refines (f : body -> outcome body) (g : afile -> afile) : Prop :=
  forall b, WFb b -> exists b', f b = Ok b' /\ WFb b' /\ abs_body b' = g (abs_body b).

Lemma ids_mid_same {A} (l1 l2 : list (Z * A)) i x y :
  ids (l1 ++ (i, x) :: l2) = ids (l1 ++ (i, y) :: l2).
Proof. rewrite !ids_app. reflexivity. Qed.

Lemma wfb_replace_child l1 i x y l2 items :
  WFb (mkBody (l1 ++ (i, x) :: l2) items) ->
  is_item (i, x) = is_item (i, y) -> item_ok y -> NoDup (keys (l1 ++ (i, y) :: l2)) ->
  WFb (mkBody (l1 ++ (i, y) :: l2) items).
Proof.
  intros W EI Oy K. destruct (wfb_inv _ _ W) as (Nd & -> & _ & C).
  rewrite (filter_item_mid l1 i x y l2 EI).
  apply wfb_build.
  - rewrite (ids_mid_same l1 l2 i y x). assumption.
  - exact K.
  - apply children_ok_app in C. destruct C as [C1 C2]. apply children_ok_cons in C2.
    apply children_ok_app. split; [exact C1|]. apply children_ok_cons. tauto.
Qed.

Lemma wfb_mid_notin l1 i x l2 items :
  WFb (mkBody (l1 ++ (i, x) :: l2) items) -> ~ In i (ids l1) /\ ~ In i (ids l2).
Proof.
  intros W. destruct (wfb_inv _ _ W) as (Nd & _).
  rewrite ids_app in Nd. simpl in Nd. apply NoDup_mid_notin in Nd. exact Nd.
Qed.

Lemma set_attr_refines nm e : body_refines (body_set_attr nm e) (spec_set_attr nm e).
Proof.
  intros b W. unfold body_set_attr. rewrite body_get_attr_node_wf by exact W. cbn [bind].
  destruct b as [ch items]. cbn [b_ch] in *.
  destruct (wfb_inv _ _ W) as (Nd & Ei & Nk & C).
  rewrite abs_body_unfold.
  destruct (find_attr nm ch) as [[i a]|] eqn:F.
  - destruct (find_attr_Some _ _ _ _ F) as (l1 & l2 & -> & K & F1).
    assert (Wa : WF_attr a) by (apply (C i (IAttr a)); apply in_or_app; right; left; reflexivity).
    destruct (attr_set_expr_wf e a Wa) as (a' & Ha & Wa' & Ea & Ka).
    rewrite Ha. cbn [bind body_upd_node].
    destruct (wfb_mid_notin _ _ _ _ _ W) as [N1 N2].
    rewrite upd_id_mid by exact N1.
    eexists. split; [reflexivity|]. split.
    + apply (wfb_replace_child l1 i (IAttr a) (IAttr a') l2); [exact W|reflexivity|exact Wa'|].
      rewrite keys_app in *. simpl in *. rewrite Ka. assumption.
    + rewrite abs_body_unfold. unfold spec_set_attr.
      destruct (upd_first_abs nm (set_expr e) l1 i a l2 C F1 K) as (U1 & U2 & _).
      rewrite U2, U1. rewrite abs_items_app. simpl. rewrite Ea. reflexivity.
  - cbn [body_append_item].
    destruct (new_attr_wf nm e) as (Wn & En & Kn).
    eexists. split; [reflexivity|]. split.
    + subst items.
      replace (ids (filter is_item ch) ++ [fresh ch])
        with (ids (filter is_item (ch ++ [(fresh ch, IAttr (new_attr nm e))])))
        by (rewrite filter_app, ids_app; reflexivity).
      apply wfb_build.
      * rewrite ids_app. simpl. apply NoDup_app_comm_one; [assumption|apply fresh_notin].
      * rewrite keys_app. simpl. rewrite Kn. apply NoDup_app_comm_one; [assumption|].
        apply find_attr_None_keys. exact F.
      * apply children_ok_app. split; [exact C|]. apply children_ok_cons. split; [exact Wn|]. intros ? ? [].
    + rewrite abs_body_unfold, abs_items_app. simpl. rewrite En.
      unfold spec_set_attr. destruct (has_attr_none nm ch C F) as [Hn _]. rewrite Hn. reflexivity.
Qed.

Lemma find_attr_mid_other nm l1 i a l2 :
  attr_key a <> nm -> find_attr nm (l1 ++ (i, IAttr a) :: l2) = None ->
  find_attr nm l1 = None /\ find_attr nm l2 = None.
Proof.
  induction l1 as [|[j it] r IH]; simpl; intros K F.
  - destruct (zlist_eqb (attr_key a) nm) eqn:E; [discriminate|auto].
  - destruct it as [ts|b|k]; auto.
    destruct (zlist_eqb (attr_key b) nm); [discriminate|auto].
Qed.

Lemma rename_refines from to_ : body_refines (body_rename_attr from to_) (spec_rename_attr from to_).
Proof.
  intros b W. unfold body_rename_attr. rewrite !body_get_attr_node_wf by exact W. cbn [bind].
  destruct b as [ch items]. cbn [b_ch] in *.
  destruct (wfb_inv _ _ W) as (Nd & Ei & Nk & C).
  rewrite abs_body_unfold. unfold spec_rename_attr.
  destruct (find_attr from ch) as [[i a]|] eqn:F.
  - destruct (find_attr to_ ch) as [[i2 a2]|] eqn:F2.
    + (* conflict *)
      exists (mkBody ch items). split; [reflexivity|]. split; [exact W|].
      rewrite abs_body_unfold.
      destruct (find_attr_Some _ _ _ _ F2) as (m1 & m2 & E2 & K2 & G2).
      assert (Hh : spec_has_attr to_ (abs_items ch) = true).
      { rewrite E2 in C |- *. apply (upd_first_abs to_ (fun x => x) m1 i2 a2 m2 C G2 K2). }
      rewrite Hh. rewrite andb_false_r. reflexivity.
    + destruct (find_attr_Some _ _ _ _ F) as (l1 & l2 & -> & K & F1).
      assert (Wa : WF_attr a) by (apply (C i (IAttr a)); apply in_or_app; right; left; reflexivity).
      destruct (attr_set_name_wf to_ a Wa) as (a' & Ha & Wa' & Ea & Ka).
      rewrite Ha. cbn [bind body_upd_node].
      destruct (wfb_mid_notin _ _ _ _ _ W) as [N1 N2].
      rewrite upd_id_mid by exact N1.
      eexists. split; [reflexivity|]. split.
      * apply (wfb_replace_child l1 i (IAttr a) (IAttr a') l2); [exact W|reflexivity|exact Wa'|].
        rewrite keys_app in *. simpl in *. rewrite Ka.
        apply NoDup_mid_replace with (a := attr_key a); [exact Nk|].
        apply find_attr_None_keys in F2. rewrite keys_app in F2. exact F2.
      * rewrite abs_body_unfold.
        destruct (upd_first_abs from (set_name to_) l1 i a l2 C F1 K) as (U1 & U2 & _).
        destruct (has_attr_none to_ _ C F2) as [Hn _].
        rewrite U2, Hn, U1. simpl. rewrite abs_items_app. simpl. rewrite Ea. reflexivity.
  - exists (mkBody ch items). split.
    + destruct (find_attr to_ ch) as [[? ?]|]; reflexivity.
    + split; [exact W|]. rewrite abs_body_unfold.
      destruct (has_attr_none from _ C F) as [Hn _]. rewrite Hn. reflexivity.
Qed.

Lemma filter_item_remove l1 i x l2 :
  ~ In i (ids l1) -> ~ In i (ids l2) ->
  filter (fun j => negb (j =? i)) (ids (filter is_item (l1 ++ (i, x) :: l2)))
  = ids (filter is_item (l1 ++ l2)).
Proof.
  intros N1 N2. rewrite !filter_app, !ids_app. simpl.
  assert (M1 : ~ In i (ids (filter is_item l1))).
  { intros H. apply N1. unfold ids in *. apply in_map_iff in H. destruct H as [n [E H]].
    apply filter_In in H. apply in_map_iff. exists n. tauto. }
  assert (M2 : ~ In i (ids (filter is_item l2))).
  { intros H. apply N2. unfold ids in *. apply in_map_iff in H. destruct H as [n [E H]].
    apply filter_In in H. apply in_map_iff. exists n. tauto. }
  destruct (is_item (i, x)); simpl.
  - apply filter_neq_mid; assumption.
  - rewrite <- ids_app. rewrite filter_neq_notin; [rewrite ids_app; reflexivity|].
    rewrite ids_app. intros H. apply in_app_or in H. tauto.
Qed.

Lemma NoDup_app_remove_mid {A} (l1 m l2 : list A) : NoDup (l1 ++ m ++ l2) -> NoDup (l1 ++ l2).
Proof.
  induction m as [|a r IH]; simpl; intros H; [exact H|].
  apply IH. eapply NoDup_remove_1. exact H.
Qed.

(* detaching the node of one child *)
Lemma wfb_remove_child l1 i x l2 items :
  WFb (mkBody (l1 ++ (i, x) :: l2) items) ->
  WFb (body_remove_node i (mkBody (l1 ++ (i, x) :: l2) items))
  /\ body_remove_node i (mkBody (l1 ++ (i, x) :: l2) items) = mkBody (l1 ++ l2) (ids (filter is_item (l1 ++ l2))).
Proof.
  intros W. destruct (wfb_inv _ _ W) as (Nd & -> & Nk & C).
  destruct (wfb_mid_notin _ _ _ _ _ W) as [N1 N2].
  assert (E : body_remove_node i (mkBody (l1 ++ (i, x) :: l2) (ids (filter is_item (l1 ++ (i, x) :: l2))))
              = mkBody (l1 ++ l2) (ids (filter is_item (l1 ++ l2)))).
  { cbn [body_remove_node]. rewrite remove_id_mid by assumption.
    rewrite filter_item_remove by assumption. reflexivity. }
  split; [|exact E]. rewrite E. apply wfb_build.
  - rewrite ids_app in *. simpl in Nd. eapply NoDup_remove_1. exact Nd.
  - rewrite keys_app in *. simpl in Nk.
    apply (NoDup_app_remove_mid (keys l1) (match x with IAttr a => [attr_key a] | _ => [] end) (keys l2)). exact Nk.
  - apply children_ok_app in C. destruct C as [C1 C2]. apply children_ok_cons in C2.
    apply children_ok_app. tauto.
Qed.

Lemma remove_attr_refines nm : body_refines (body_remove_attr nm) (spec_remove_attr nm).
Proof.
  intros b W. unfold body_remove_attr. rewrite body_get_attr_node_wf by exact W. cbn [bind].
  destruct b as [ch items]. cbn [b_ch] in *.
  destruct (wfb_inv _ _ W) as (Nd & Ei & Nk & C).
  rewrite abs_body_unfold. unfold spec_remove_attr.
  destruct (find_attr nm ch) as [[i a]|] eqn:F.
  - destruct (find_attr_Some _ _ _ _ F) as (l1 & l2 & -> & K & F1).
    destruct (wfb_remove_child _ _ _ _ _ W) as [W' E'].
    eexists. split; [reflexivity|]. split; [exact W'|].
    rewrite E', abs_body_unfold.
    destruct (upd_first_abs nm (fun x => x) l1 i a l2 C F1 K) as (_ & _ & U3).
    rewrite U3, abs_items_app. reflexivity.
  - eexists. split; [reflexivity|]. split; [exact W|].
    rewrite abs_body_unfold. destruct (has_attr_none nm _ C F) as [_ Hn]. rewrite Hn. reflexivity.
Qed.

(* appending an item node whose content is a block / raw tokens *)
Lemma append_block_refines k :
  WFk k -> body_refines (fun b => Ok (body_append_item (IBlock k) b)) (fun a => a ++ [abs_block k]).
Proof.
  intros Wk b W. destruct b as [ch items].
  destruct (wfb_inv _ _ W) as (Nd & -> & Nk & C).
  eexists. split; [reflexivity|]. cbn [body_append_item]. split.
  - replace (ids (filter is_item ch) ++ [fresh ch])
      with (ids (filter is_item (ch ++ [(fresh ch, IBlock k)])))
      by (rewrite filter_app, ids_app; reflexivity).
    apply wfb_build.
    + rewrite ids_app. simpl. apply NoDup_app_comm_one; [assumption|apply fresh_notin].
    + rewrite keys_app. simpl. rewrite app_nil_r. exact Nk.
    + apply children_ok_app. split; [exact C|]. apply children_ok_cons. split; [exact Wk|]. intros ? ? [].
  - rewrite !abs_body_unfold, abs_items_app. reflexivity.
Qed.

Lemma append_new_block_refines ty ls :
  body_refines (body_append_new_block ty ls) (fun a => a ++ [new_ablock ty ls]).
Proof.
  destruct (new_block_wf ty ls) as [Wk Ek]. rewrite <- Ek.
  apply (append_block_refines _ Wk).
Qed.

Lemma append_raw_refines ts : body_refines (body_append_raw ts) (fun a => a ++ [ARaw ts]).
Proof.
  intros b W. destruct b as [ch items].
  destruct (wfb_inv _ _ W) as (Nd & -> & Nk & C).
  eexists. split; [reflexivity|]. split.
  - replace (ids (filter is_item ch))
      with (ids (filter is_item (ch ++ [(fresh ch, ITokens ts)])))
      by (rewrite filter_app; simpl; rewrite app_nil_r; reflexivity).
    apply wfb_build.
    + rewrite ids_app. simpl. apply NoDup_app_comm_one; [assumption|apply fresh_notin].
    + rewrite keys_app. simpl. rewrite app_nil_r. exact Nk.
    + apply children_ok_app. split; [exact C|]. apply children_ok_cons. split; [exact I|]. intros ? ? [].
  - rewrite !abs_body_unfold, abs_items_app. reflexivity.
Qed.

(* ---- blocks by index -------------------------------------------------------------------- *)
Definition blocks_of (ch : list (Z * bitem)) : list (Z * block) :=
  flat_map (fun n => match snd n with IBlock k => [(fst n, k)] | _ => [] end) ch.

Lemma blocks_of_app l1 l2 : blocks_of (l1 ++ l2) = blocks_of l1 ++ blocks_of l2.
Proof. apply flat_map_app. Qed.

Lemma body_blocks_wf ch items :
  WFb (mkBody ch items) -> body_blocks (mkBody ch items) = blocks_of ch.
Proof.
  intros W. destruct (wfb_inv _ _ W) as (Nd & -> & _ & _).
  unfold body_blocks. cbn [b_items b_ch]. rewrite set_list_filter by exact Nd.
  unfold blocks_of. clear. induction ch as [|[i it] r IH]; [reflexivity|].
  simpl. destruct it; simpl; rewrite IH; reflexivity.
Qed.

Lemma abs_items_cons j it r : abs_items ((j, it) :: r) = abs_item it :: abs_items r.
Proof. reflexivity. Qed.
Lemma blocks_of_cons j it r :
  blocks_of ((j, it) :: r) = match it with IBlock k => [(j, k)] | _ => [] end ++ blocks_of r.
Proof. reflexivity. Qed.

Lemma nth_blocks_split ch n id k :
  nth_error (blocks_of ch) n = Some (id, k) ->
  exists l1 l2, ch = l1 ++ (id, IBlock k) :: l2 /\ length (blocks_of l1) = n.
Proof.
  revert n. induction ch as [|[j it] r IH]; intros n H; [destruct n; discriminate|].
  destruct it as [ts|a|k0]; simpl in H.
  - destruct (IH n H) as (l1 & l2 & -> & L). exists ((j, ITokens ts) :: l1), l2. auto.
  - destruct (IH n H) as (l1 & l2 & -> & L). exists ((j, IAttr a) :: l1), l2. auto.
  - destruct n as [|n']; simpl in H.
    + inversion H; subst. exists [], r. auto.
    + destruct (IH n' H) as (l1 & l2 & -> & L). exists ((j, IBlock k0) :: l1), l2. simpl. auto.
Qed.

Lemma abs_nth_block g l1 id k l2 :
  children_ok (l1 ++ (id, IBlock k) :: l2) ->
  upd_nth a_is_block (length (blocks_of l1)) g (abs_items (l1 ++ (id, IBlock k) :: l2))
  = abs_items l1 ++ g (abs_block k) :: abs_items l2
  /\ remove_nth_p a_is_block (length (blocks_of l1)) (abs_items (l1 ++ (id, IBlock k) :: l2))
  = abs_items l1 ++ abs_items l2
  /\ nth_error (a_blocks (abs_items (l1 ++ (id, IBlock k) :: l2))) (length (blocks_of l1)) = Some (abs_block k).
Proof.
  induction l1 as [|[j it] r IH]; intros C.
  - simpl in C. apply children_ok_cons in C. destruct C as [Ck _].
    pose proof (abs_is_block (IBlock k) Ck) as E. simpl in E.
    simpl. unfold a_blocks. simpl. rewrite E. auto.
  - simpl in C. apply children_ok_cons in C. destruct C as [Ci Cr].
    destruct (IH Cr) as (I1 & I2 & I3).
    pose proof (abs_is_block it Ci) as E.
    unfold a_blocks in *. rewrite <- app_comm_cons, !abs_items_cons, blocks_of_cons.
    cbn [upd_nth remove_nth_p filter]. rewrite E.
    destruct it as [ts|a|k0]; cbn [app length nth_error]; rewrite ?I1, ?I2, ?I3; auto.
Qed.

Lemma abs_nth_none g ch n :
  children_ok ch -> nth_error (blocks_of ch) n = None ->
  upd_nth a_is_block n g (abs_items ch) = abs_items ch
  /\ remove_nth_p a_is_block n (abs_items ch) = abs_items ch
  /\ nth_error (a_blocks (abs_items ch)) n = None.
Proof.
  revert n. induction ch as [|[j it] r IH]; intros n C H.
  - simpl. destruct n; auto.
  - apply children_ok_cons in C. destruct C as [Ci Cr].
    pose proof (abs_is_block it Ci) as E.
    unfold a_blocks in *. rewrite abs_items_cons. rewrite blocks_of_cons in H.
    cbn [upd_nth remove_nth_p filter]. rewrite E.
    destruct it as [ts|a|k0]; cbn [app] in H.
    + destruct (IH n Cr H) as (I1 & I2 & I3). rewrite I1, I2, I3. auto.
    + destruct (IH n Cr H) as (I1 & I2 & I3). rewrite I1, I2, I3. auto.
    + destruct n as [|n']; [discriminate|]. cbn [nth_error] in H |- *.
      destruct (IH n' Cr H) as (I1 & I2 & I3). rewrite I1, I2, I3. auto.
Qed.

(* b.Blocks()[i] mutated by f *)
Lemma upd_block_refines i f g :
  (forall k, WFk k -> exists k', f k = Ok k' /\ WFk k' /\ abs_block k' = g (abs_block k)) ->
  body_refines (body_upd_block i f) (guardZ i (upd_nth a_is_block (Z.to_nat i) g)).
Proof.
  intros Hf b W. destruct b as [ch items].
  unfold body_upd_block, guardZ, nthZ. rewrite body_blocks_wf by exact W.
  destruct (wfb_inv _ _ W) as (Nd & Ei & Nk & C).
  destruct (i <? 0) eqn:Neg.
  { exists (mkBody ch items). auto. }
  destruct (nth_error (blocks_of ch) (Z.to_nat i)) as [[id k]|] eqn:Hn.
  - destruct (nth_blocks_split _ _ _ _ Hn) as (l1 & l2 & -> & L).
    assert (Wk : WFk k) by (apply (C id (IBlock k)); apply in_or_app; right; left; reflexivity).
    destruct (Hf k Wk) as (k' & Hk & Wk' & Ek). rewrite Hk. cbn [bind body_upd_node].
    destruct (wfb_mid_notin _ _ _ _ _ W) as [N1 N2].
    rewrite upd_id_mid by exact N1.
    eexists. split; [reflexivity|]. split.
    + apply (wfb_replace_child l1 id (IBlock k) (IBlock k') l2); [exact W|reflexivity|exact Wk'|].
      rewrite keys_app in *. exact Nk.
    + rewrite !abs_body_unfold. rewrite <- L.
      destruct (abs_nth_block g l1 id k l2 C) as (U1 & _). rewrite U1.
      rewrite abs_items_app. simpl. rewrite Ek. reflexivity.
  - exists (mkBody ch items). split; [reflexivity|]. split; [exact W|].
    rewrite abs_body_unfold. destruct (abs_nth_none g ch _ C Hn) as (U1 & _). rewrite U1. reflexivity.
Qed.

Lemma remove_block_refines i :
  body_refines (body_remove_block i) (guardZ i (remove_nth_p a_is_block (Z.to_nat i))).
Proof.
  intros b W. destruct b as [ch items].
  unfold body_remove_block, guardZ, nthZ. rewrite body_blocks_wf by exact W.
  destruct (wfb_inv _ _ W) as (Nd & Ei & Nk & C).
  destruct (i <? 0) eqn:Neg.
  { exists (mkBody ch items). auto. }
  destruct (nth_error (blocks_of ch) (Z.to_nat i)) as [[id k]|] eqn:Hn.
  - destruct (nth_blocks_split _ _ _ _ Hn) as (l1 & l2 & -> & L).
    destruct (wfb_remove_child _ _ _ _ _ W) as [W' E'].
    eexists. split; [reflexivity|]. split; [exact W'|].
    rewrite E', !abs_body_unfold. rewrite <- L.
    destruct (abs_nth_block (fun x => x) l1 id k l2 C) as (_ & U2 & _). rewrite U2.
    rewrite abs_items_app. reflexivity.
  - exists (mkBody ch items). split; [reflexivity|]. split; [exact W|].
    rewrite abs_body_unfold. destruct (abs_nth_none (fun x => x) ch _ C Hn) as (_ & U2 & _). rewrite U2. reflexivity.
Qed.

(* Block.SetType: the type-name node is interior (a comments node precedes it,
   the labels node follows), so ReplaceWith is the functional replace, and the
   handle is set to the new node *)
Lemma block_set_type_wf ty k :
  WFk k ->
  exists k', block_set_type ty k = Ok k' /\ WFk k' /\ abs_block k' = set_ty ty (abs_block k).
Proof.
  intros W. inversion W as [lead iT t iL l mid bid bd post h1 h4 h6 Hl Fl N WL H1 H4 H6 Wb]. subst.
  rewrite (abs_block_shape lead iT t iL l mid bid bd post h1 iT iL h4 bid h6 Fl).
  assert (E : forall x, ids (lead ++ (x, KLeaf (LIdent t)) :: (iL, KLabels l) :: mid)
                        = ids lead ++ x :: iL :: ids mid)
    by (intros x; rewrite ids_app; reflexivity).
  assert (NT : ~ In iT (ids lead)).
  { apply NoDup_app_l in N. rewrite E in N. apply NoDup_mid_notin in N. tauto. }
  cbn [block_set_type]. rewrite find_id_mid by exact NT.
  rewrite is_first_false by assumption.
  rewrite repl_id_mid by exact NT.
  set (j := fresh_of _).
  assert (Hj : ~ In j (ids (lead ++ (iT, KLeaf (LIdent t)) :: (iL, KLabels l) :: mid) ++ bid :: ids post))
    by (apply fresh_of_notin).
  eexists. split; [reflexivity|]. split.
  - constructor; try assumption.
    assert (E2 : forall x, ids (lead ++ (x, KLeaf (LIdent (ident_tok ty))) :: (iL, KLabels l) :: mid)
                           = ids lead ++ x :: iL :: ids mid)
      by (intros x; rewrite ids_app; reflexivity).
    rewrite E2. rewrite E in N, Hj. rewrite <- app_assoc in *. cbn [app] in *.
    apply NoDup_mid_replace with (a := iT); assumption.
  - rewrite abs_block_shape by exact Fl. reflexivity.
Qed.

(* Body.Clear: children and items are both emptied *)
Lemma clear_refines : body_refines body_clear (fun _ => []).
Proof.
  intros b W. exists (mkBody [] []). split; [reflexivity|]. split.
  - apply (wfb_build []); try constructor. intros ? ? [].
  - rewrite abs_body_unfold. reflexivity.
Qed.

(* ---- nested bodies ------------------------------------------------------------------------ *)
Definition in_block (p' : list Z) (f : body -> outcome body) (k : block) : outcome block :=
  do bd <- block_body k; do bd' <- with_body p' f bd; Ok (block_with_body k bd').

Lemma with_body_cons i p' f b : with_body (i :: p') f b = body_upd_block i (in_block p' f) b.
Proof.
  cbn [with_body]. unfold body_upd_block, in_block.
  destruct (nthZ (body_blocks b) i) as [[id k]|]; [|reflexivity].
  destruct (block_body k) as [bd| |]; cbn [bind]; try reflexivity.
  destruct (with_body p' f bd); reflexivity.
Qed.

Lemma map_body_abs_block k g :
  WFk k -> map_body (fun _ => g (abs_body (k_bd k))) (abs_block k) = map_body g (abs_block k).
Proof.
  intros W. destruct (wfk_view k W) as (l & t & ls & m & tr & E & _). rewrite E. reflexivity.
Qed.

Lemma with_body_refines f g :
  body_refines f g -> forall p, body_refines (with_body p f) (spec_with_body p g).
Proof.
  intros Hf p. induction p as [|i p' IH]; [exact Hf|].
  intros b W. rewrite with_body_cons. cbn [spec_with_body].
  apply (upd_block_refines i (in_block p' f) (map_body (spec_with_body p' g))); [|exact W].
  intros k Wk. destruct (wfk_view k Wk) as (l & t & ls & m & tr & _ & _ & _ & _ & HB & Wbd).
  destruct (IH _ Wbd) as (bd' & Hbd & Wbd' & Ebd).
  exists (block_with_body k bd'). unfold in_block. rewrite HB. cbn [bind]. rewrite Hbd. cbn [bind].
  destruct (block_with_body_wf k bd' Wk Wbd') as [W' E'].
  split; [reflexivity|]. split; [exact W'|].
  rewrite E', Ebd. apply (map_body_abs_block k (spec_with_body p' g) Wk).
Qed.

Lemma nthZ_map {A B} (f : A -> B) l i : nthZ (map f l) i = option_map f (nthZ l i).
Proof.
  unfold nthZ. destruct (i <? 0); [reflexivity|].
  generalize (Z.to_nat i). induction l as [|x r IH]; intros [|n]; simpl; auto.
Qed.

(* Blocks()[i] on a well-formed body and on its abstraction *)
Lemma nthZ_blocks_wf b i :
  WFb b ->
  match nthZ (body_blocks b) i with
  | Some (id, k) => nthZ (a_blocks (abs_body b)) i = Some (abs_block k) /\ WFk k
  | None => nthZ (a_blocks (abs_body b)) i = None
  end.
Proof.
  intros W. destruct b as [ch items]. rewrite body_blocks_wf by exact W.
  destruct (wfb_inv _ _ W) as (Nd & Ei & Nk & C).
  rewrite abs_body_unfold. unfold nthZ. destruct (i <? 0); [reflexivity|].
  destruct (nth_error (blocks_of ch) (Z.to_nat i)) as [[id k]|] eqn:Hn.
  - destruct (nth_blocks_split _ _ _ _ Hn) as (l1 & l2 & -> & L).
    destruct (abs_nth_block (fun x => x) l1 id k l2 C) as (_ & _ & U3). rewrite <- L. split; [exact U3|].
    apply (C id (IBlock k)). apply in_or_app. right. left. reflexivity.
  - destruct (abs_nth_none (fun x => x) ch _ C Hn) as (_ & _ & U3). exact U3.
Qed.

Lemma item_body_abs_block k : WFk k -> item_body (abs_block k) = abs_body (k_bd k).
Proof. intros W. destruct (wfk_view k W) as (l & t & ls & m & tr & E & _). rewrite E. reflexivity. Qed.

Lemma body_at_wf p : forall b,
  WFb b ->
  match body_at p b with
  | Ok (Some b') => WFb b' /\ spec_body_at p (abs_body b) = Some (abs_body b')
  | Ok None => spec_body_at p (abs_body b) = None
  | _ => False
  end.
Proof.
  induction p as [|i p' IH]; intros b W; [simpl; auto|].
  cbn [body_at spec_body_at]. pose proof (nthZ_blocks_wf b i W) as H.
  destruct (nthZ (body_blocks b) i) as [[id k]|].
  - destruct H as [H Wk]. rewrite H.
    destruct (wfk_view k Wk) as (l & t & ls & m & tr & _ & _ & _ & _ & HB & Wbd).
    rewrite HB. cbn [bind]. rewrite (item_body_abs_block k Wk). apply IH. exact Wbd.
  - rewrite H. reflexivity.
Qed.

(* ---- steps and histories ----------------------------------------------------------------------- *)
Lemma on_root_refines s p f g :
  WF s -> body_refines f g ->
  exists s', on_root s p f = Ok s' /\ WF s' /\
             abs s' = on_aroot (abs s) p g.
Proof.
  intros [Wr Ws] Hf. destruct (with_body_refines f g Hf p _ Wr) as (r' & Hr & Wr' & Er).
  exists (set_root s r'). unfold on_root. rewrite Hr. cbn [bind]. split; [reflexivity|]. split.
  - split; assumption.
  - unfold abs, on_aroot. simpl. rewrite Er. reflexivity.
Qed.

Lemma Forall_remove_nth {A} (P : A -> Prop) n l : Forall P l -> Forall P (remove_nth n l).
Proof.
  revert n. induction l as [|x r IH]; intros n H; [destruct n; constructor|].
  inversion H; subst. destruct n; simpl; [assumption|]. constructor; auto.
Qed.

Lemma map_remove_nth {A B} (f : A -> B) n l : map f (remove_nth n l) = remove_nth n (map f l).
Proof.
  revert n. induction l as [|x r IH]; intros n; [destruct n; reflexivity|].
  destruct n; simpl; [reflexivity|]. f_equal. apply IH.
Qed.

Lemma nthZ_In {A} (l : list A) i x : nthZ l i = Some x -> In x l.
Proof. unfold nthZ. destruct (i <? 0); [discriminate|]. apply nth_error_In. Qed.

Theorem step_refines o s :
  WF s ->
  exists s', step o s = Ok s' /\ WF s' /\ abs s' = spec_step o (abs s).
Proof.
  intros W. destruct o as [p nm e|p a b|p nm|p ty ls|p i|p n|p i ty|p i ls|p ts|p];
    cbn [step spec_step].
  - apply on_root_refines; [exact W|apply set_attr_refines].
  - apply on_root_refines; [exact W|apply rename_refines].
  - apply on_root_refines; [exact W|apply remove_attr_refines].
  - apply on_root_refines; [exact W|apply append_new_block_refines].
  - (* RemoveBlock *)
    destruct W as [Wr Ws]. pose proof (body_at_wf p _ Wr) as HB.
    change (a_root (abs s)) with (abs_body (root s)).
    destruct (body_at p (root s)) as [[b'|]| |]; try contradiction; cbn [bind].
    + destruct HB as [Wb' HB]. rewrite HB.
      pose proof (nthZ_blocks_wf b' i Wb') as HN.
      destruct (nthZ (body_blocks b') i) as [[id k]|].
      * destruct HN as [HN Wk]. rewrite HN.
        destruct (with_body_refines _ _ (remove_block_refines i) p _ Wr) as (r' & Hr & Wr' & Er).
        rewrite Hr. cbn [bind]. eexists. split; [reflexivity|]. split.
        -- split; [exact Wr'|]. cbn [shelf]. apply Forall_app. split; [exact Ws|]. constructor; [exact Wk|constructor].
        -- unfold abs. cbn [f_pre root f_post shelf a_pre a_post a_shelf]. rewrite Er, map_app. reflexivity.
      * rewrite HN. exists s. split; [reflexivity|]. split; [split; assumption|reflexivity].
    + rewrite HB. exists s. split; [reflexivity|]. split; [split; assumption|reflexivity].
  - (* AppendBlock *)
    destruct W as [Wr Ws]. pose proof (body_at_wf p _ Wr) as HB.
    change (a_root (abs s)) with (abs_body (root s)).
    change (a_shelf (abs s)) with (map abs_block (shelf s)).
    rewrite nthZ_map.
    destruct (body_at p (root s)) as [[b'|]| |]; try contradiction; cbn [bind].
    + destruct HB as [Wb' HB]. rewrite HB.
      destruct (nthZ (shelf s) n) as [k|] eqn:HS; cbn [option_map].
      * assert (Wk : WFk k).
        { apply nthZ_In in HS. rewrite Forall_forall in Ws. apply Ws. exact HS. }
        destruct (with_body_refines _ _ (append_block_refines k Wk) p _ Wr) as (r' & Hr & Wr' & Er).
        rewrite Hr. cbn [bind]. eexists. split; [reflexivity|]. split.
        -- split; [exact Wr'|]. cbn [shelf]. apply Forall_remove_nth. exact Ws.
        -- unfold abs. cbn [f_pre root f_post shelf a_pre a_post a_shelf]. rewrite Er, map_remove_nth. reflexivity.
      * exists s. split; [reflexivity|]. split; [split; assumption|reflexivity].
    + rewrite HB. exists s. split; [reflexivity|]. split; [split; assumption|reflexivity].
  - apply on_root_refines; [exact W|]. apply upd_block_refines. intros k Wk. apply block_set_type_wf. exact Wk.
  - apply on_root_refines; [exact W|]. apply upd_block_refines. intros k Wk. apply block_set_labels_wf. exact Wk.
  - apply on_root_refines; [exact W|apply append_raw_refines].
  - apply on_root_refines; [exact W|apply clear_refines].
Qed.

Lemma run_cons o ops s : run (o :: ops) s = bind (step o s) (run ops).
Proof.
  unfold run. simpl. destruct (step o s) as [s'| |]; cbn [bind]; try reflexivity.
  - induction ops as [|o' r IH]; simpl; [reflexivity|exact IH].
  - induction ops as [|o' r IH]; simpl; [reflexivity|exact IH].
Qed.

(* wf_preserved + refines_spec, for EVERY history: the run never panics or
   corrupts a list, WF is an invariant, and the abstraction of the final tree is
   the specification's run on the abstraction of the initial one *)
Theorem run_refines ops : forall s,
  WF s ->
  exists s', run ops s = Ok s' /\ WF s' /\ abs s' = spec_run ops (abs s).
Proof.
  induction ops as [|o r IH]; intros s W.
  - exists s. auto.
  - destruct (step_refines o s W) as (s1 & H & W1 & E1).
    destruct (IH s1 W1) as (s' & H' & W' & E').
    exists s'. rewrite run_cons, H. cbn [bind]. split; [exact H'|]. split; [exact W'|].
    rewrite E'. unfold spec_run. simpl. rewrite E1. reflexivity.
Qed.

Theorem wf_preserved ops s :
  WF s -> exists s', run ops s = Ok s' /\ WF s'.
Proof. intros W. destruct (run_refines ops s W) as (s' & H & W' & _). eauto. Qed.

(* ======================================================================== *)
(* Part 4: the readers agree with the specification                          *)
(* ======================================================================== *)

Lemma mem_items {A} (P : Z * A -> bool) (l : list (Z * A)) i x :
  NoDup (ids l) -> In (i, x) l -> mem i (ids (filter P l)) = P (i, x).
Proof.
  intros N Hin. destruct (P (i, x)) eqn:EP.
  - apply mem_In. eapply In_ids. apply filter_In. split; [exact Hin|exact EP].
  - apply mem_false. intros H. unfold ids in H. apply in_map_iff in H.
    destruct H as [[i' x'] [E H]]. simpl in E. subst i'.
    apply filter_In in H. destruct H as [H HP].
    assert (x' = x) by (eapply In_unique; eassumption). subst. congruence.
Qed.

Lemma attrs_of_wf done rest :
  NoDup (ids (done ++ rest)) -> children_ok rest ->
  attrs_of (done ++ rest) (ids (filter is_item rest)) = Ok (spec_attributes (abs_items rest)).
Proof.
  revert done. induction rest as [|[i it] r IH]; intros done N C; [reflexivity|].
  apply children_ok_cons in C. destruct C as [Ci Cr].
  assert (Ni : ~ In i (ids done)).
  { rewrite ids_app in N. simpl in N. apply NoDup_mid_notin in N. tauto. }
  assert (E : done ++ (i, it) :: r = (done ++ [(i, it)]) ++ r) by (rewrite <- app_assoc; reflexivity).
  assert (IH' : attrs_of (done ++ (i, it) :: r) (ids (filter is_item r)) = Ok (spec_attributes (abs_items r))).
  { rewrite E. apply IH; [rewrite <- E; exact N|exact Cr]. }
  unfold spec_attributes. rewrite abs_items_cons. cbn [flat_map]. fold (spec_attributes (abs_items r)).
  destruct it as [ts|a|k]; cbn [filter is_item snd ids map fst attrs_of abs_item].
  - exact IH'.
  - rewrite find_id_mid by exact Ni.
    destruct (wf_attr_view a Ci) as (l & t & m & e & tr & EA & HN & HE & _).
    fold (ids (filter is_item r)). rewrite HN, HE, IH', EA. reflexivity.
  - rewrite find_id_mid by exact Ni. fold (ids (filter is_item r)). rewrite IH'.
    destruct (wfk_view k Ci) as (l & t & ls & m & tr & EK & _). rewrite EK. reflexivity.
Qed.

Theorem attributes_agree b :
  WFb b -> body_attributes b = Ok (spec_attributes (abs_body b)).
Proof.
  intros W. destruct b as [ch items].
  destruct (wfb_inv _ _ W) as (Nd & -> & Nk & C).
  unfold body_attributes. cbn [b_ch b_items]. rewrite abs_body_unfold.
  apply (attrs_of_wf [] ch); assumption.
Qed.

Lemma find_abs nm l1 i a l2 :
  children_ok (l1 ++ (i, IAttr a) :: l2) -> find_attr nm l1 = None -> attr_key a = nm ->
  find (a_is_attr nm) (abs_items (l1 ++ (i, IAttr a) :: l2)) = Some (abs_attr a).
Proof.
  induction l1 as [|[j it] r IH]; intros C F K.
  - simpl in C. apply children_ok_cons in C. destruct C as [Ca _].
    pose proof (abs_is_attr nm (IAttr a) Ca) as E. simpl in E.
    assert (EK : zlist_eqb (attr_key a) nm = true) by (apply zlist_eqb_eq; exact K).
    rewrite EK in E. simpl. rewrite E. reflexivity.
  - simpl in C. apply children_ok_cons in C. destruct C as [Ci Cr].
    assert (F' : find_attr nm r = None /\ a_is_attr nm (abs_item it) = false).
    { rewrite (abs_is_attr nm it Ci). destruct it as [ts|b|k]; simpl in F; auto.
      destruct (zlist_eqb (attr_key b) nm); [discriminate|auto]. }
    destruct F' as [F1 F2]. simpl. rewrite F2. apply IH; assumption.
Qed.

Lemma find_abs_none nm l :
  children_ok l -> find_attr nm l = None -> find (a_is_attr nm) (abs_items l) = None.
Proof.
  induction l as [|[j it] r IH]; intros C F; [reflexivity|].
  apply children_ok_cons in C. destruct C as [Ci Cr].
  assert (F' : find_attr nm r = None /\ a_is_attr nm (abs_item it) = false).
  { rewrite (abs_is_attr nm it Ci). destruct it as [ts|b|k]; simpl in F; auto.
    destruct (zlist_eqb (attr_key b) nm); [discriminate|auto]. }
  destruct F' as [F1 F2]. simpl. rewrite F2. apply IH; assumption.
Qed.

Theorem get_attribute_agrees nm b :
  WFb b -> body_get_attribute nm b = Ok (spec_get_attribute nm (abs_body b)).
Proof.
  intros W. unfold body_get_attribute. rewrite body_get_attr_node_wf by exact W. cbn [bind].
  destruct b as [ch items]. cbn [b_ch].
  destruct (wfb_inv _ _ W) as (Nd & -> & Nk & C).
  rewrite abs_body_unfold. unfold spec_get_attribute.
  destruct (find_attr nm ch) as [[i a]|] eqn:F.
  - destruct (find_attr_Some _ _ _ _ F) as (l1 & l2 & -> & K & F1).
    rewrite (find_abs nm l1 i a l2 C F1 K).
    assert (Wa : WF_attr a) by (apply (C i (IAttr a)); apply in_or_app; right; left; reflexivity).
    destruct (wf_attr_view a Wa) as (l & t & m & e & tr & EA & _ & HE & _).
    rewrite HE, EA. reflexivity.
  - rewrite (find_abs_none nm ch C F). reflexivity.
Qed.

Theorem block_readers_agree unesc k :
  WFk k ->
  exists lead t ls mid bd trail,
    abs_block k = ABlock lead t ls mid bd trail /\
    block_type k = Ok t /\ block_labels unesc k = Ok (spec_labels unesc ls) /\
    exists b, block_body k = Ok b /\ abs_body b = bd /\ WFb b.
Proof.
  intros W. destruct (wfk_view k W) as (l & t & ls & m & tr & E & HT & HL & WL & HB & Wb).
  exists l, t, (abs_labels ls), m, (abs_body (k_bd k)), tr.
  split; [exact E|]. split; [exact HT|]. split.
  - unfold block_labels. rewrite HL. cbn [bind]. rewrite (wf_labels_current unesc ls WL). reflexivity.
  - exists (k_bd k). auto.
Qed.

(* the recursive observation *)
Fixpoint obs_blocks (F : block -> outcome (list Z * list (list Z) * bobs)) (items : list Z)
         (l : list (Z * bitem)) : outcome (list (list Z * list (list Z) * bobs)) :=
  match l with
  | [] => Ok []
  | n :: r =>
      if mem (fst n) items then
        match snd n with
        | IBlock k => do o <- F k; do rest <- obs_blocks F items r; Ok (o :: rest)
        | _ => obs_blocks F items r
        end
      else obs_blocks F items r
  end.

Lemma observe_unfold unesc ch items :
  observe unesc (mkBody ch items)
  = do ats <- attrs_of ch items;
    do bls <- obs_blocks (observe_block unesc) items ch; Ok (BObs ats bls).
Proof.
  cbn [observe]. destruct (attrs_of ch items); cbn [bind]; try reflexivity.
  f_equal. induction ch as [|n r IH]; [reflexivity|].
  cbn [obs_blocks]. destruct (mem (fst n) items); [|exact IH].
  destruct (snd n); try exact IH. rewrite IH. reflexivity.
Qed.

Lemma spec_observe_item_block unesc l t ls m bd tr :
  spec_observe_item unesc (ABlock l t ls m bd tr) = [(bytes t, spec_labels unesc ls, spec_observe unesc bd)].
Proof.
  reflexivity.
Qed.

Fixpoint depth_b (b : body) : nat :=
  match b with
  | mkBody ch _ =>
      S ((fix go (l : list (Z * bitem)) : nat :=
            match l with [] => O | n :: r => Nat.max (depth_i (snd n)) (go r) end) ch)
  end
with depth_i (it : bitem) : nat :=
  match it with IBlock k => depth_k k | _ => O end
with depth_k (k : block) : nat :=
  match k with mkBlock _ _ bd _ _ _ _ _ _ _ => S (depth_b bd) end.

Lemma depth_child ch items i k :
  In (i, IBlock k) ch -> (depth_b (k_bd k) < depth_b (mkBody ch items))%nat.
Proof.
  intros Hin. cbn [depth_b].
  induction ch as [|n r IH]; [contradiction|].
  destruct Hin as [->|Hin].
  - cbn [snd depth_i]. destruct k. cbn [depth_k k_bd]. lia.
  - specialize (IH Hin). lia.
Qed.

Theorem observe_agrees unesc : forall n b,
  (depth_b b < n)%nat -> WFb b -> observe unesc b = Ok (spec_observe unesc (abs_body b)).
Proof.
  induction n as [|n IHn]; intros b D W; [lia|].
  destruct b as [ch items]. rewrite observe_unfold.
  destruct (wfb_inv _ _ W) as (Nd & -> & Nk & C).
  pose proof (attrs_of_wf [] ch Nd C) as HA. cbn [app] in HA. rewrite HA. cbn [bind].
  rewrite abs_body_unfold. unfold spec_observe.
  assert (HB : forall done rest, ch = done ++ rest ->
             obs_blocks (observe_block unesc) (ids (filter is_item ch)) rest
             = Ok (flat_map (spec_observe_item unesc) (abs_items rest))).
  { intros done rest. revert done. induction rest as [|[i it] r IH]; intros done E; [reflexivity|].
    assert (Hin : In (i, it) ch) by (rewrite E; apply in_or_app; right; left; reflexivity).
    assert (E' : ch = (done ++ [(i, it)]) ++ r) by (rewrite <- app_assoc; exact E).
    specialize (IH _ E').
    cbn [obs_blocks fst snd]. rewrite (mem_items is_item ch i it Nd Hin).
    rewrite abs_items_cons. cbn [flat_map].
    destruct it as [ts|a|k]; cbn [is_item snd abs_item].
    - rewrite IH. reflexivity.
    - rewrite IH. destruct (wf_attr_view a (C _ _ Hin)) as (l & t & m & e & tr & EA & _).
      rewrite EA. reflexivity.
    - assert (Wk : WFk k) by exact (C _ _ Hin).
      destruct (block_readers_agree unesc k Wk) as (l & t & ls & m & bd & tr & EK & HT & HL & b' & HB & Eb & Wb').
      rewrite EK, spec_observe_item_block.
      assert (D' : (depth_b (k_bd k) < n)%nat).
      { pose proof (depth_child ch (ids (filter is_item ch)) i k Hin). lia. }
      inversion Wk as [lead iT t0 iL l0 mid bid bd0 post h1 h4 h6 Hl Fl N WL H1 H4 H6 Wb0]. subst k.
      cbn [observe_block]. rewrite HT, HL. cbn [bind]. rewrite Z.eqb_refl.
      unfold block_body in HB. cbn [k_hbody k_bid k_bd] in *. rewrite Z.eqb_refl in HB.
      inversion HB; subst b'.
      rewrite (IHn bd0 D' Wb0). cbn [bind]. rewrite IH. cbn [bind app]. rewrite Eb. reflexivity. }
  rewrite (HB [] ch eq_refl). reflexivity.
Qed.

(* every reader, recursively through Blocks()/Body(), answers what the
   specification's reader answers on the abstract file *)
Theorem readers_agree unesc s :
  WF s -> observe unesc (root s) = Ok (spec_observe unesc (a_root (abs s))).
Proof. intros [W _]. apply (observe_agrees unesc (S (depth_b (root s)))); [lia|exact W]. Qed.

(* ---- the abstract file serialises to exactly the tree's tokens (any tree) ------------------- *)
Lemma split_first_Some {A} (p : A -> bool) l a (x : Z * A) b :
  split_first p l = Some (a, x, b) -> l = a ++ x :: b.
Proof.
  revert a. induction l as [|y r IH]; simpl; intros a H; [discriminate|].
  destruct (p (snd y)).
  - inversion H; subst. reflexivity.
  - destruct (split_first p r) as [[[a' y'] b']|]; [|discriminate].
    inversion H; subst. simpl. f_equal. apply IH. reflexivity.
Qed.

Lemma ser_abs_attr a : ser_item (abs_attr a) = attr_tokens a.
Proof.
  unfold abs_attr.
  destruct (split_first is_lident (a_ch a)) as [[[pre [i x]] rest]|] eqn:E1; [|reflexivity].
  destruct x; try reflexivity.
  destruct (split_first is_lexpr rest) as [[[mid [j y]] post]|] eqn:E2; [|reflexivity].
  destruct y; try reflexivity.
  apply split_first_Some in E1. apply split_first_Some in E2. subst rest.
  unfold attr_tokens, leaves_tokens. rewrite E1. cbn [ser_item].
  rewrite flat_map_app. simpl. rewrite flat_map_app. simpl. reflexivity.
Qed.

Lemma body_tokens_unfold ch items :
  body_tokens (mkBody ch items) = flat_map (fun n => item_tokens (snd n)) ch.
Proof. reflexivity. Qed.

Lemma ser_item_block l t ls m bd tr :
  ser_item (ABlock l t ls m bd tr) = l ++ t :: flat_map alabel_tokens ls ++ m ++ ser bd ++ tr.
Proof. reflexivity. Qed.

Lemma abs_labels_tokens l : flat_map alabel_tokens (abs_labels l) = labels_tokens l.
Proof.
  unfold abs_labels, labels_tokens, leaves_tokens.
  induction (l_ch l) as [|[i x] r IH]; [reflexivity|].
  simpl. rewrite IH. destruct x; reflexivity.
Qed.

Theorem ser_abs_body : forall n b, (depth_b b < n)%nat -> ser (abs_body b) = body_tokens b.
Proof.
  induction n as [|n IHn]; intros b D; [lia|].
  destruct b as [ch items]. rewrite abs_body_unfold, body_tokens_unfold.
  assert (H : forall i it, In (i, it) ch -> ser_item (abs_item it) = item_tokens it).
  { intros i it Hin. destruct it as [ts|a|k]; cbn [abs_item item_tokens].
    - reflexivity.
    - apply ser_abs_attr.
    - pose proof (depth_child ch items i k Hin) as D'.
      destruct k as [pre bid bd post h1 h2 h3 h4 h5 h6]. cbn [k_bd] in D'.
      assert (IH : ser (abs_body bd) = body_tokens bd) by (apply IHn; lia).
      cbn [abs_block block_tokens].
      destruct (split_first is_kident pre) as [[[lead [j x]] rest]|] eqn:E1; [|reflexivity].
      destruct x as [x|x]; try reflexivity. destruct x; try reflexivity.
      destruct rest as [|[j2 y] mid]; try reflexivity. destruct y as [y|y]; try reflexivity.
      apply split_first_Some in E1. rewrite E1. rewrite ser_item_block, IH, abs_labels_tokens.
      unfold kleaves_tokens. rewrite flat_map_app. simpl.
      repeat (rewrite <- app_assoc || rewrite <- app_comm_cons). reflexivity. }
  clear D. unfold ser, abs_items. induction ch as [|[i it] r IH]; [reflexivity|].
  simpl. rewrite (H i it) by (left; reflexivity). rewrite IH; [reflexivity|].
  intros j x Hin. apply (H j x). right. exact Hin.
Qed.

(* BuildTokens of the file = serialisation of its abstraction, for EVERY tree *)
Theorem tokens_are_ser s : file_tokens s = aser (abs s).
Proof.
  unfold file_tokens, aser, abs. simpl.
  rewrite (ser_abs_body (S (depth_b (root s)))) by lia. reflexivity.
Qed.

(* ======================================================================== *)
(* Part 5: frame and shape, on the tree                                      *)
(* ======================================================================== *)

(* untouched_preserved: one step from a well-formed tree changes nothing
   outside the addressed body and at most one item inside it (see
   TreeSpecProofs.spec_frame for the exact relation); stated on the abstraction,
   which by tokens_are_ser is the token stream of the file *)
Theorem untouched_preserved o s :
  WF s ->
  exists s', step o s = Ok s' /\
    f_pre s' = f_pre s /\ f_post s' = f_post s /\
    (abs_body (root s') = abs_body (root s) \/
     edits_at (local_rel o) (op_path o) (abs_body (root s)) (abs_body (root s'))).
Proof.
  intros W. destruct (step_refines o s W) as (s' & H & _ & E).
  exists s'. split; [exact H|].
  destruct (spec_frame o (abs s)) as (F1 & F2 & F3). rewrite <- E in F1, F2, F3.
  split; [exact F1|]. split; [exact F2|]. exact F3.
Qed.

(* the same at token level: the tokens before and after the addressed body are
   the same tokens, and inside it the relation of the operation holds *)
Corollary untouched_tokens o s :
  WF s ->
  exists s', step o s = Ok s' /\
    (body_tokens (root s') = body_tokens (root s) \/
     exists pre post b b', local_rel o b b' /\
       body_tokens (root s) = pre ++ ser b ++ post /\
       body_tokens (root s') = pre ++ ser b' ++ post).
Proof.
  intros W. destruct (untouched_preserved o s W) as (s' & H & _ & _ & [E|E]).
  - exists s'. split; [exact H|]. left.
    rewrite <- (ser_abs_body (S (depth_b (root s')))) by lia.
    rewrite <- (ser_abs_body (S (depth_b (root s)))) by lia. rewrite E. reflexivity.
  - exists s'. split; [exact H|]. right.
    destruct (edits_at_tokens _ _ _ _ E) as (pre & post & b & b' & HR & E1 & E2).
    exists pre, post, b, b'. split; [exact HR|].
    rewrite (ser_abs_body (S (depth_b (root s)))) in E1 by lia.
    rewrite (ser_abs_body (S (depth_b (root s')))) in E2 by lia. auto.
Qed.

(* output_shape: for every history of operations whose arguments are
   acceptable (expression tokens satisfy ExprOK, labels are quoted, raw tokens
   are blank lines/comments), starting from a well-formed tree whose items have
   the body-grammar shape (e.g. the empty file), the tokens of the body are in
   the body grammar GBody *)
Theorem output_shape (ExprOK : list tok -> Prop) ops s :
  WF s -> ashaped ExprOK (abs s) ->
  Forall (op_ok ExprOK) ops ->
  exists s', run ops s = Ok s' /\ GBody ExprOK (body_tokens (root s')).
Proof.
  intros W Sh Ok. destruct (run_refines ops s W) as (s' & H & _ & E).
  exists s'. split; [exact H|].
  pose proof (spec_run_shaped ExprOK ops (abs s) Ok Sh) as [Fr _]. rewrite <- E in Fr.
  apply shaped_in_grammar in Fr. unfold abs in Fr. cbn [a_root] in Fr.
  rewrite (ser_abs_body (S (depth_b (root s')))) in Fr by lia. exact Fr.
Qed.

Definition empty_state : state := mkState [] (mkBody [] []) [] [].

Lemma empty_wf : WF empty_state.
Proof.
  split; [|constructor]. apply (wfb_build []); try constructor. intros ? ? [].
Qed.

Lemma empty_shaped ExprOK : ashaped ExprOK (abs empty_state).
Proof. split; constructor. Qed.

(* ======================================================================== *)
(* Part 6: the former counterexamples, now instances of the theorems          *)
(* ======================================================================== *)
(* Earlier revisions of ast_block.go / ast_body.go made wf_preserved and
   refines_spec FALSE for SetType (the node returned by ReplaceWith was dropped:
   Type() stale, second SetType panicked) and for Clear (items not emptied:
   Attributes() stale, a following SetAttribute lost).  The witness histories of
   the former settype_refuted / clear_refuted are kept as regression examples:
   on the repaired code they run without panic and agree with the
   specification, as run_refines says they must. *)
Definition nm_a : list Z := [97].
Definition nm_b : list Z := [98].
Definition nm_c : list Z := [99].
Definition one_tok : list tok := [mkTok TokenNumberLit [49] 1 0].
Definition two_tok : list tok := [mkTok TokenNumberLit [50] 1 0].

Definition settype_history : list op :=
  [OAppendNewBlock [] nm_a []; OSetType [] 0 nm_b; OSetType [] 0 nm_c].

Example settype_history_ok :
  exists s3,
    run settype_history empty_state = Ok s3 /\
    abs s3 = spec_run settype_history (abs empty_state) /\
    wf_state_b s3 = true /\
    (forall unesc, observe unesc (root s3) = Ok (BObs [] [(nm_c, [], BObs [] [])])).
Proof.
  eexists. split; [vm_compute; reflexivity|]. split; [vm_compute; reflexivity|].
  split; [vm_compute; reflexivity|]. intros unesc. vm_compute. reflexivity.
Qed.

Definition clear_history : list op := [OSetAttr [] nm_a one_tok; OClear []; OSetAttr [] nm_a two_tok].

Example clear_history_ok :
  exists s2 s3,
    run (firstn 2 clear_history) empty_state = Ok s2 /\
    body_attributes (root s2) = Ok [] /\ file_tokens s2 = [] /\
    run clear_history empty_state = Ok s3 /\
    abs s3 = spec_run clear_history (abs empty_state) /\
    body_attributes (root s3) = Ok [(nm_a, two_tok)] /\
    map (fun t => (ty t, bytes t)) (file_tokens s3) = [(TokenIdent, nm_a); (TokenEqual, [61]); (TokenNumberLit, [50]); (TokenNewline, [10])].
Proof.
  eexists. eexists. repeat split; vm_compute; reflexivity.
Qed.

(* Labels().  A quoted label is OQuote, literal tokens, CQuote; the scanner
   splits a string around '$' and '%' ("a$b" lexes as  a , $ , b ).
   blockLabels.Current joins the decoded literals (an earlier revision of
   ast_block.go understood exactly one literal and dropped such labels: DESIGN
   section 9 #3, fixed in the tree by "fix: Block.Labels must read quoted labels
   that contain $ or %"; the former labels_reader_refuted is therefore gone). *)
Definition split_label : list tok :=
  [ mkTok TokenOQuote [34] 1 1; mkTok TokenQuotedLit [97] 1 0; mkTok TokenQuotedLit [36] 1 0;
    mkTok TokenQuotedLit [98] 1 0; mkTok TokenCQuote [34] 1 0 ].

Theorem label_of_quoted unesc o mid c :
  ty o = TokenOQuote -> ty c = TokenCQuote -> mid <> [] ->
  label_of unesc (LQuoted (o :: mid ++ [c])) = join_lits unesc mid.
Proof.
  intros Ho Hc Hm. cbn [label_of]. rewrite rev_app_distr. cbn [rev app].
  rewrite rev_involutive. unfold is. rewrite Ho, Hc. rewrite !Z.eqb_refl.
  assert (L : 3 <=? Z.of_nat (length (o :: mid ++ [c])) = true).
  { apply Z.leb_le. cbn [length]. rewrite app_length. cbn [length].
    destruct mid; [congruence|]. cbn [length]. lia. }
  rewrite L. reflexivity.
Qed.

Theorem labels_split_read unesc :
  unesc [97] = Some [97] -> unesc [36] = Some [36] -> unesc [98] = Some [98] ->
  labels_current unesc (mkLabels [(1, LQuoted split_label)] [1]) = [[97; 36; 98]].
Proof.
  intros H1 H2 H3. unfold labels_current. cbn [l_items l_ch set_list filter mem existsb fst Z.eqb Pos.eqb orb flat_map snd].
  change split_label with (mkTok TokenOQuote [34] 1 1 :: [mkTok TokenQuotedLit [97] 1 0; mkTok TokenQuotedLit [36] 1 0; mkTok TokenQuotedLit [98] 1 0] ++ [mkTok TokenCQuote [34] 1 0]).
  rewrite label_of_quoted by (reflexivity || discriminate).
  cbn [join_lits ty bytes is]. rewrite !Z.eqb_refl, H1, H2, H3. reflexivity.
Qed.

(* the labels written by the API (one literal token each) are read back as the
   literal decoder decodes them *)
Theorem labels_api_read unesc o q c :
  ty o = TokenOQuote -> ty q = TokenQuotedLit -> ty c = TokenCQuote ->
  labels_current unesc (labels_replace [[o; q; c]]) = opt_to_list (unesc (bytes q)).
Proof.
  intros Ho Hq Hc. unfold labels_current, labels_replace.
  cbn [map number_from ids fst l_items l_ch set_list filter mem existsb Z.eqb Pos.eqb orb flat_map snd].
  change [o; q; c] with (o :: [q] ++ [c]).
  rewrite label_of_quoted by (assumption || discriminate).
  cbn [join_lits]. unfold is. rewrite Hq, Z.eqb_refl.
  destruct (unesc (bytes q)) as [p|]; [|reflexivity]. cbn [opt_to_list app]. rewrite !app_nil_r. reflexivity.
Qed.

(* ======================================================================== *)
(* The history theorem: everything at once                                   *)
(* ======================================================================== *)
Theorem history_correct unesc ops s :
  WF s ->
  exists s',
    run ops s = Ok s' /\ WF s' /\
    abs s' = spec_run ops (abs s) /\
    file_tokens s' = aser (spec_run ops (abs s)) /\
    observe unesc (root s') = Ok (spec_observe unesc (a_root (spec_run ops (abs s)))).
Proof.
  intros W. destruct (run_refines ops s W) as (s' & H & W' & E).
  exists s'. split; [exact H|]. split; [exact W'|]. split; [exact E|]. split.
  - rewrite tokens_are_ser, E. reflexivity.
  - rewrite (readers_agree unesc s' W'), E. reflexivity.
Qed.

(* ======================================================================== *)
(* The executable check TreeSpec.wf_state_b is sound for WF                  *)
(* ======================================================================== *)
Lemma nodupb_sound l : nodupb l = true -> NoDup l.
Proof.
  induction l as [|x r IH]; simpl; intros H; [constructor|].
  apply andb_true_iff in H. destruct H as [H1 H2]. constructor; [|apply IH; exact H2].
  apply mem_false. destruct (mem x r); [discriminate|reflexivity].
Qed.

Lemma nodup_keysb_sound l : nodup_keysb l = true -> NoDup l.
Proof.
  induction l as [|x r IH]; simpl; intros H; [constructor|].
  apply andb_true_iff in H. destruct H as [H1 H2]. constructor; [|apply IH; exact H2].
  intros Hin. assert (E : existsb (zlist_eqb x) r = true).
  { apply existsb_exists. exists x. split; [exact Hin|apply zlist_eqb_eq; reflexivity]. }
  rewrite E in H1. discriminate.
Qed.

Lemma split_first_full {A} (p : A -> bool) l a (x : Z * A) b :
  split_first p l = Some (a, x, b) ->
  l = a ++ x :: b /\ Forall (fun n => p (snd n) = false) a /\ p (snd x) = true.
Proof.
  revert a. induction l as [|y r IH]; simpl; intros a H; [discriminate|].
  destruct (p (snd y)) eqn:E.
  - inversion H; subst. auto.
  - destruct (split_first p r) as [[[a' y'] b']|]; [|discriminate].
    inversion H; subst. destruct (IH a' eq_refl) as (E1 & F & P).
    subst r. repeat split; auto.
Qed.

Lemma attr_wfb_sound a : attr_wfb a = true -> WF_attr a.
Proof.
  unfold attr_wfb. intros H.
  destruct (split_first is_lident (a_ch a)) as [[[pre [iN x]] rest]|] eqn:E1; [|discriminate].
  destruct x; try discriminate.
  destruct (split_first is_lexpr rest) as [[[mid [iE y]] post]|] eqn:E2; [|discriminate].
  destruct y; try discriminate.
  repeat (apply andb_true_iff in H; destruct H as [H ?]).
  apply split_first_full in E1. destruct E1 as (E1 & F1 & _).
  apply split_first_full in E2. destruct E2 as (E2 & F2 & _). subst rest.
  exists pre, iN, t, mid, iE, ts, post.
  split; [exact E1|].
  split; [destruct pre; [discriminate|discriminate]|].
  split; [destruct post; [discriminate|discriminate]|].
  split; [exact F1|]. split; [exact F2|].
  split; [apply nodupb_sound; assumption|].
  split; [apply Z.eqb_eq; assumption|]. split; [apply Z.eqb_eq; assumption|].
  split; apply mem_In; assumption.
Qed.

Lemma labels_wfb_sound l : labels_wfb l = true -> WF_labels l.
Proof.
  unfold labels_wfb. intros H. apply andb_true_iff in H. destruct H as [H1 H2].
  split; [apply nodupb_sound; exact H1|]. apply zlist_eqb_eq in H2. exact H2.
Qed.

Lemma nil_or_mem_sound h l : nil_or_mem h l = true -> nil_or_in h l.
Proof.
  unfold nil_or_mem, nil_or_in. intros H. apply orb_true_iff in H.
  destruct H as [H|H]; [left; apply Z.eqb_eq; exact H|right; apply mem_In; exact H].
Qed.

Lemma body_wfb_unfold ch items :
  body_wfb (mkBody ch items)
  = nodupb (ids ch) && zlist_eqb items (ids (filter is_item ch))
    && nodup_keysb (keys ch) && forallb (fun n => item_wfb (snd n)) ch.
Proof. reflexivity. Qed.

Theorem body_wfb_sound : forall n b, (depth_b b < n)%nat -> body_wfb b = true -> WFb b.
Proof.
  induction n as [|n IHn]; intros b D H; [lia|].
  destruct b as [ch items]. rewrite body_wfb_unfold in H.
  repeat (apply andb_true_iff in H; destruct H as [H ?]).
  apply zlist_eqb_eq in H2. subst items.
  rewrite forallb_forall in H0.
  apply wfb_build.
  - apply nodupb_sound. assumption.
  - apply nodup_keysb_sound. assumption.
  - intros i it Hin. specialize (H0 _ Hin). cbn [snd] in H0.
    destruct it as [ts|a|k]; cbn [item_ok item_wfb] in *; [exact I|apply attr_wfb_sound; exact H0|].
    pose proof (depth_child ch (ids (filter is_item ch)) i k Hin) as D'.
    destruct k as [pre bid bd post h1 h2 h3 h4 h5 h6]. cbn [k_bd] in D'.
    cbn [block_wfb] in H0.
    destruct (split_first is_kident pre) as [[[lead [iT x]] rest]|] eqn:E1; [|discriminate].
    destruct x as [x|x]; try discriminate. destruct x; try discriminate.
    destruct rest as [|[iL y] mid]; try discriminate. destruct y as [y|l]; try discriminate.
    apply andb_true_iff in H0. destruct H0 as [H0 Kbd].
    apply andb_true_iff in H0. destruct H0 as [H0 K6].
    apply andb_true_iff in H0. destruct H0 as [H0 K4].
    apply andb_true_iff in H0. destruct H0 as [H0 K1].
    apply andb_true_iff in H0. destruct H0 as [H0 K5].
    apply andb_true_iff in H0. destruct H0 as [H0 K3].
    apply andb_true_iff in H0. destruct H0 as [H0 K2].
    apply andb_true_iff in H0. destruct H0 as [H0 Kl].
    apply andb_true_iff in H0. destruct H0 as [Klead Knd].
    apply split_first_full in E1. destruct E1 as (E1 & F1 & _). subst pre.
    apply Z.eqb_eq in K2, K3, K5. subst h2 h3 h5.
    constructor.
    + destruct lead; [discriminate|discriminate].
    + exact F1.
    + apply nodupb_sound. assumption.
    + apply labels_wfb_sound. assumption.
    + apply mem_In. assumption.
    + apply nil_or_mem_sound. assumption.
    + apply nil_or_mem_sound. assumption.
    + apply IHn; [lia|assumption].
Qed.

Theorem wf_state_b_sound s : wf_state_b s = true -> WF s.
Proof.
  unfold wf_state_b. intros H. apply andb_true_iff in H. destruct H as [H1 H2]. split.
  - apply (body_wfb_sound (S (depth_b (root s)))); [lia|exact H1].
  - rewrite forallb_forall in H2. apply Forall_forall. intros k Hk. specialize (H2 k Hk).
    assert (W : WFb (mkBody [(1, IBlock k)] [1])).
    { apply (body_wfb_sound (S (depth_b (mkBody [(1, IBlock k)] [1])))); [lia|].
      rewrite body_wfb_unfold. cbn. rewrite H2. reflexivity. }
    apply wfb_inv in W. destruct W as (_ & _ & _ & C).
    exact (C 1 (IBlock k) (or_introl eq_refl)).
Qed.
