(* Write/TreeCheck.v — correspondence checker for the tree model (C12).
   A case = the initial tree as dumped from the Go heap (hook VerifDumpFile), the
   table of hclsyntax.ParseStringLiteralToken results for the quoted-label
   literals that occur (an input of the model, see Tree.label_of), and the
   history: each operation with what the harness observed on the real code
   AFTER it — panic or not, the file's tokens before formatting (hook
   VerifFileTokens) and, recursively through Blocks()/Body(), the answers of
   the readers Attributes()/GetAttribute/Expr, Type(), Labels().  The initial
   tree must also pass the executable well-formedness check.
   Executed with vm_compute from generated case files. *)
From Coq Require Import String Ascii.
From HclV Require Import Base.Prelude Gen.TokenTypes Write.Format Write.Tree Write.TreeSpec.
Open Scope Z_scope.
Open Scope list_scope.

Definition H (hex : string) : list Z := unhex hex.
Definition T (ty : Z) (hex : string) (sp : Z) : tok := mkTok ty (unhex hex) 0 sp.

(* token stream as bytes: type (3 bytes BE), SpacesBefore (2), length (3), bytes *)
Definition be (n : nat) (x : Z) : list Z :=
  (fix go (n : nat) (x : Z) (acc : list Z) : list Z :=
     match n with O => acc | S k => go k (x / 256) ((x mod 256) :: acc) end) n x [].
Definition enc_tok (t : tok) : list Z :=
  be 3 (ty t) ++ be 2 (sp t) ++ be 3 (Z.of_nat (length (bytes t))) ++ bytes t.
Definition enc_toks (ts : list tok) : list Z := flat_map enc_tok ts.

(* observed reader answers: attributes (name, encoded Expr tokens) sorted by name;
   blocks (type, labels, nested) in Blocks() order *)
Inductive oobs := OB (attrs : list (string * string)) (blocks : list (string * list string * oobs)).

(* lexicographic order on byte strings (Go string comparison) *)
Fixpoint lex_leb (a b : list Z) : bool :=
  match a, b with
  | [], _ => true
  | _ :: _, [] => false
  | x :: a', y :: b' => if x <? y then true else if y <? x then false else lex_leb a' b'
  end.
Fixpoint insert_sorted (x : list Z * list Z) (l : list (list Z * list Z)) :=
  match l with
  | [] => [x]
  | y :: r => if lex_leb (fst x) (fst y) then x :: l else y :: insert_sorted x r
  end.
Definition sort_attrs (l : list (list Z * list Z)) := fold_right insert_sorted [] l.

Definition pair_eqb (a b : list Z * list Z) : bool :=
  zlist_eqb (fst a) (fst b) && zlist_eqb (snd a) (snd b).

Fixpoint obs_eqb (m : bobs) (o : oobs) {struct m} : bool :=
  match m, o with
  | BObs mats mbls, OB oats obls =>
      list_eqb pair_eqb
        (sort_attrs (map (fun p => (fst p, enc_toks (snd p))) mats))
        (map (fun p => (unhex (fst p), unhex (snd p))) oats)
      && (fix go (l : list (list Z * list (list Z) * bobs)) (ol : list (string * list string * oobs)) : bool :=
            match l, ol with
            | [], [] => true
            | (t, ls, b) :: r, (ot, ols, ob) :: or_ =>
                zlist_eqb t (unhex ot) && list_eqb zlist_eqb ls (map unhex ols)
                && obs_eqb b ob && go r or_
            | _, _ => false
            end) mbls obls
  end.

(* canonical byte serialisation of the readers' answers (attributes sorted by name) *)
Definition ser_bytes (b : list Z) : list Z := be 3 (Z.of_nat (length b)) ++ b.
Fixpoint ser_bobs (m : bobs) : list Z :=
  match m with
  | BObs ats bls =>
      let sats := sort_attrs (map (fun p => (fst p, enc_toks (snd p))) ats) in
      65 :: be 3 (Z.of_nat (length sats))
      ++ flat_map (fun p => ser_bytes (fst p) ++ ser_bytes (snd p)) sats
      ++ 66 :: be 3 (Z.of_nat (length bls))
      ++ (fix go (l : list (list Z * list (list Z) * bobs)) : list Z :=
            match l with
            | [] => []
            | (t, ls, b) :: r =>
                ser_bytes t ++ be 3 (Z.of_nat (length ls)) ++ flat_map ser_bytes ls ++ ser_bobs b ++ go r
            end) bls
  end.

(* checksum of a byte string.  Coq reads literals at ~10 KB/s and Z division is
   slow in the VM, so generated cases do not carry every observation in full
   nor a modular hash: all observations of a history (initial state and after
   every step) are concatenated into ONE byte stream, which is packed 24 bytes
   at a time into integers e_1..e_n (with a leading 1); the checksum is
   [n; S0; S1; S2] with S0 = sum e_i, S1 = sum of the prefix sums of e,
   S2 = sum of the prefix sums of S1 — exact integer sums, no wrap-around.
   Two different streams with equal checksums must differ in at least four
   chunks in a coordinated way.  The harness computes the same function on what
   the Go code answered.  The hand corpus, replays and C12_FULL=1 runs use the
   exact per-step form (ObsOk). *)
Fixpoint chunk_go (bs : list Z) (acc cnt : Z) : list Z :=
  match bs with
  | [] => if cnt =? 0 then [] else [acc]
  | b :: r =>
      let acc' := Z.shiftl acc 8 + b in
      if cnt + 1 =? 24 then acc' :: chunk_go r 1 0 else chunk_go r acc' (cnt + 1)
  end.
Definition fp (bs : list Z) : list Z :=
  let '(n, s0, s1, s2) :=
    fold_left (fun st e => let '(n, s0, s1, s2) := st in
                 let s0' := s0 + e in let s1' := s1 + s0' in (n + 1, s0', s1', s2 + s1'))
              (chunk_go bs 1 0) (0, 0, 0, 0) in
  [n; s0; s1; s2].

Inductive ostep :=
| ObsOk (toks : string) (o : oobs)    (* exact: token stream and reader answers *)
| ObsSum                              (* no panic; the observation is part of the case's checksum *)
| ObsPanic.

Definition obs_matches (unesc : list Z -> option (list Z)) (s : state) (ob : ostep) : bool :=
  match ob with
  | ObsOk toks oo =>
      zlist_eqb (enc_toks (file_tokens s)) (unhex toks)
      && match observe unesc (root s) with Ok m => obs_eqb m oo | _ => false end
  | _ => false
  end.

Definition mk_unesc (tbl : list (string * option string)) (raw : list Z) : option (list Z) :=
  match find (fun p => zlist_eqb (unhex (fst p)) raw) tbl with
  | Some (_, Some d) => Some (unhex d)
  | Some (_, None) => None
  | None => None
  end.

(* exact mode: replay the history on the model, comparing after every step *)
Fixpoint check_steps (unesc : list Z -> option (list Z)) (s : state) (h : list (op * ostep)) : bool :=
  match h with
  | [] => true
  | (o, ob) :: r =>
      match step o s, ob with
      | Panic, ObsPanic => match r with [] => true | _ => false end
      | Ok s', _ => obs_matches unesc s' ob && check_steps unesc s' r
      | _, _ => false
      end
  end.

(* checksum mode: the bytes of all observations, in order *)
Definition obs_bytes (unesc : list Z -> option (list Z)) (s : state) : option (list Z) :=
  match observe unesc (root s) with
  | Ok m => Some (enc_toks (file_tokens s) ++ 255 :: ser_bobs m ++ [254])
  | _ => None
  end.
Fixpoint sum_steps (unesc : list Z -> option (list Z)) (s : state) (h : list (op * ostep)) : option (list Z) :=
  match h with
  | [] => Some []
  | (o, ob) :: r =>
      match step o s, ob with
      | Panic, ObsPanic => match r with [] => Some [253] | _ => None end
      | Ok s', ObsSum =>
          match obs_bytes unesc s', sum_steps unesc s' r with
          | Some a, Some b => Some (a ++ b)
          | _, _ => None
          end
      | _, _ => None
      end
  end.

Record tcase := mkCase {
  c_init : state;
  c_unesc : list (string * option string);
  c_obs0 : ostep;                 (* observation of the initial state *)
  c_hist : list (op * ostep);
  c_sum : list Z }.               (* checksum mode: fp of all observations; [] in exact mode *)

(* a case passes when (a) the initial tree dumped from the Go heap satisfies the
   hypothesis WF of the history theorems (TreeSpec.wf_state_b, sound by
   TreeProofs.wf_state_b_sound) and (b) the model reproduces every observation *)
Definition check_tree_case (c : tcase) : bool :=
  let u := mk_unesc (c_unesc c) in
  wf_state_b (c_init c) &&
  match c_sum c with
  | [] => obs_matches u (c_init c) (c_obs0 c) && check_steps u (c_init c) (c_hist c)
  | ck =>
      match c_obs0 c, obs_bytes u (c_init c), sum_steps u (c_init c) (c_hist c) with
      | ObsSum, Some a, Some b => zlist_eqb (fp (a ++ b)) ck
      | _, _, _ => false
      end
  end.

Definition check_tree_cases (cs : list tcase) : list Z := failing check_tree_case cs.

(* diagnosis helper (exact mode): index of the first disagreeing step of a case
   (0 = initial observation, k = k-th operation), -1 if none *)
Fixpoint first_bad_step (unesc : list Z -> option (list Z)) (s : state) (h : list (op * ostep)) (k : Z) : Z :=
  match h with
  | [] => -1
  | (o, ob) :: r =>
      match step o s, ob with
      | Panic, ObsPanic => match r with [] => -1 | _ => k end
      | Ok s', _ => if obs_matches unesc s' ob then first_bad_step unesc s' r (k + 1) else k
      | _, _ => k
      end
  end.
Definition first_bad (c : tcase) : Z :=
  if obs_matches (mk_unesc (c_unesc c)) (c_init c) (c_obs0 c) then
    first_bad_step (mk_unesc (c_unesc c)) (c_init c) (c_hist c) 1
  else 0.
