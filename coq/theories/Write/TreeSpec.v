(* Write/TreeSpec.v — the abstract specification of the hclwrite editing API:
   a file is a plain list of items, an edit is a list function.  No node
   identities, no handles, no item sets.  Definitions only.

   aitem carries, besides (name, expression) resp. (type, labels, body), the
   tokens that surround them inside the item (lead comments, '=', line comment,
   newline; braces), so that `ser` is the exact token stream and the frame
   property "untouched items keep their tokens and comments" can be stated on
   the specification.  `abs` (bottom of the file) reads the abstract file off a
   tree BY CONTENT KIND ONLY — the first identifier child of an attribute is its
   name, the Attribute/Block children of a body are its items — i.e. it is what
   the file serialises to; the cached handles and item sets of the tree are not
   consulted.  That the caches agree with it is what TreeProofs.v proves. *)
From HclV Require Import Base.Prelude Gen.TokenTypes Write.Format Write.Tree.

Inductive alabel :=
| ALIdent (t : tok)           (* bare identifier label (parsed files only) *)
| ALQuoted (ts : list tok)    (* quoted label: OQuote .. CQuote *)
| ALRaw (ts : list tok).      (* other tokens between labels (none in practice) *)

Inductive aitem :=
| AAttr (lead : list tok) (name : tok) (mid : list tok) (expr : list tok) (trail : list tok)
| ABlock (lead : list tok) (ty : tok) (labels : list alabel) (mid : list tok)
         (body : list aitem) (trail : list tok)
| ARaw (ts : list tok).
Notation afile := (list aitem).

(* the abstract state: file prefix/suffix tokens, top-level body, shelved blocks *)
Record astate := mkAState { a_pre : list tok; a_root : afile; a_post : list tok; a_shelf : list aitem }.

(* ---- serialisation --------------------------------------------------------- *)
Definition alabel_tokens (l : alabel) : list tok :=
  match l with ALIdent t => [t] | ALQuoted ts => ts | ALRaw ts => ts end.

Fixpoint ser_item (it : aitem) : list tok :=
  match it with
  | AAttr lead n mid e trail => lead ++ n :: mid ++ e ++ trail
  | ABlock lead t ls mid bd trail =>
      lead ++ t :: flat_map alabel_tokens ls ++ mid
      ++ (fix go (l : list aitem) : list tok :=
            match l with [] => [] | x :: r => ser_item x ++ go r end) bd
      ++ trail
  | ARaw ts => ts
  end.
Definition ser (a : afile) : list tok := flat_map ser_item a.
Definition aser (s : astate) : list tok := a_pre s ++ ser (a_root s) ++ a_post s.

(* ---- the readers, on the abstract file -------------------------------------- *)
Definition a_is_attr (nm : list Z) (it : aitem) : bool :=
  match it with AAttr _ n _ _ _ => zlist_eqb (bytes n) nm | _ => false end.
Definition a_is_block (it : aitem) : bool := match it with ABlock _ _ _ _ _ _ => true | _ => false end.

(* Attributes(): (name, expression tokens), file order *)
Definition spec_attributes (a : afile) : list (list Z * list tok) :=
  flat_map (fun it => match it with AAttr _ n _ e _ => [(bytes n, e)] | _ => [] end) a.
(* GetAttribute(name) *)
Definition spec_get_attribute (nm : list Z) (a : afile) : option (list tok) :=
  match find (a_is_attr nm) a with Some (AAttr _ _ _ e _) => Some e | _ => None end.
Definition spec_has_attr (nm : list Z) (a : afile) : bool := existsb (a_is_attr nm) a.

Definition alabel_string (unesc : list Z -> option (list Z)) (l : alabel) : option (list Z) :=
  match l with
  | ALIdent t => label_of unesc (LIdent t)
  | ALQuoted ts => label_of unesc (LQuoted ts)
  | ALRaw _ => None
  end.
(* Labels() *)
Definition spec_labels (unesc : list Z -> option (list Z)) (ls : list alabel) : list (list Z) :=
  flat_map (fun l => opt_to_list (alabel_string unesc l)) ls.

(* Attributes()/Blocks()/Type()/Labels()/Body(), recursively *)
Fixpoint spec_observe_item (unesc : list Z -> option (list Z)) (it : aitem)
  : list (list Z * list (list Z) * bobs) :=
  match it with
  | ABlock _ t ls _ bd _ =>
      [(bytes t, spec_labels unesc ls,
        BObs (spec_attributes bd)
             ((fix go (l : afile) : list (list Z * list (list Z) * bobs) :=
                 match l with [] => [] | x :: r => spec_observe_item unesc x ++ go r end) bd))]
  | _ => []
  end.
Definition spec_observe (unesc : list Z -> option (list Z)) (a : afile) : bobs :=
  BObs (spec_attributes a) (flat_map (spec_observe_item unesc) a).

(* ---- the edits ---------------------------------------------------------------------- *)
Definition new_aattr (nm : list Z) (e : list tok) : aitem := AAttr [] (ident_tok nm) [tok_eq] e [tok_nl].
Definition new_ablock (ty : list Z) (ls : list (list tok)) : aitem :=
  ABlock [] (ident_tok ty) (map ALQuoted ls) [tok_ob; tok_nl] [] [tok_cb; tok_nl].

(* apply g to the first item satisfying p *)
Fixpoint upd_first (p : aitem -> bool) (g : aitem -> aitem) (a : afile) : afile :=
  match a with
  | [] => []
  | x :: r => if p x then g x :: r else x :: upd_first p g r
  end.
Fixpoint remove_first (p : aitem -> bool) (a : afile) : afile :=
  match a with
  | [] => []
  | x :: r => if p x then r else x :: remove_first p r
  end.
(* apply g to the n-th item satisfying p *)
Fixpoint upd_nth (p : aitem -> bool) (n : nat) (g : aitem -> aitem) (a : afile) : afile :=
  match a with
  | [] => []
  | x :: r =>
      if p x then match n with O => g x :: r | S n' => x :: upd_nth p n' g r end
      else x :: upd_nth p n g r
  end.
Fixpoint remove_nth_p (p : aitem -> bool) (n : nat) (a : afile) : afile :=
  match a with
  | [] => []
  | x :: r =>
      if p x then match n with O => r | S n' => x :: remove_nth_p p n' r end
      else x :: remove_nth_p p n r
  end.
Definition a_blocks (a : afile) : afile := filter a_is_block a.

Definition set_expr (e : list tok) (it : aitem) : aitem :=
  match it with AAttr l n m _ t => AAttr l n m e t | _ => it end.
Definition set_name (nm : list Z) (it : aitem) : aitem :=
  match it with AAttr l _ m e t => AAttr l (ident_tok nm) m e t | _ => it end.
Definition set_ty (ty : list Z) (it : aitem) : aitem :=
  match it with ABlock l _ ls m b t => ABlock l (ident_tok ty) ls m b t | _ => it end.
Definition set_labels (ls : list (list tok)) (it : aitem) : aitem :=
  match it with ABlock l ty _ m b t => ABlock l ty (map ALQuoted ls) m b t | _ => it end.
Definition map_body (g : afile -> afile) (it : aitem) : aitem :=
  match it with ABlock l ty ls m b t => ABlock l ty ls m (g b) t | _ => it end.
Definition item_body (it : aitem) : afile := match it with ABlock _ _ _ _ b _ => b | _ => [] end.

(* SetAttributeRaw/Value/Traversal *)
Definition spec_set_attr (nm : list Z) (e : list tok) (a : afile) : afile :=
  if spec_has_attr nm a then upd_first (a_is_attr nm) (set_expr e) a else a ++ [new_aattr nm e].
(* RenameAttribute *)
Definition spec_rename_attr (from to_ : list Z) (a : afile) : afile :=
  if spec_has_attr from a && negb (spec_has_attr to_ a)
  then upd_first (a_is_attr from) (set_name to_) a else a.
(* RemoveAttribute *)
Definition spec_remove_attr (nm : list Z) (a : afile) : afile := remove_first (a_is_attr nm) a.

(* a negative index addresses nothing *)
Definition guardZ (i : Z) (g : afile -> afile) (a : afile) : afile := if i <? 0 then a else g a.

(* the body at path p = blocks[i1].body.blocks[i2].body... *)
Fixpoint spec_with_body (p : list Z) (f : afile -> afile) (a : afile) {struct p} : afile :=
  match p with
  | [] => f a
  | i :: p' => guardZ i (upd_nth a_is_block (Z.to_nat i) (map_body (spec_with_body p' f))) a
  end.
Fixpoint spec_body_at (p : list Z) (a : afile) {struct p} : option afile :=
  match p with
  | [] => Some a
  | i :: p' =>
      match nthZ (a_blocks a) i with
      | Some it => spec_body_at p' (item_body it)
      | None => None
      end
  end.

Definition on_aroot (s : astate) (p : list Z) (f : afile -> afile) : astate :=
  mkAState (a_pre s) (spec_with_body p f (a_root s)) (a_post s) (a_shelf s).

Definition spec_step (o : op) (s : astate) : astate :=
  match o with
  | OSetAttr p nm e => on_aroot s p (spec_set_attr nm e)
  | ORenameAttr p a b => on_aroot s p (spec_rename_attr a b)
  | ORemoveAttr p nm => on_aroot s p (spec_remove_attr nm)
  | OAppendNewBlock p ty ls => on_aroot s p (fun a => a ++ [new_ablock ty ls])
  | ORemoveBlock p i =>
      match spec_body_at p (a_root s) with
      | None => s
      | Some b =>
          match nthZ (a_blocks b) i with
          | None => s
          | Some k =>
              mkAState (a_pre s)
                       (spec_with_body p (guardZ i (remove_nth_p a_is_block (Z.to_nat i))) (a_root s))
                       (a_post s) (a_shelf s ++ [k])
          end
      end
  | OAppendBlock p n =>
      match spec_body_at p (a_root s), nthZ (a_shelf s) n with
      | Some _, Some k =>
          mkAState (a_pre s) (spec_with_body p (fun a => a ++ [k]) (a_root s)) (a_post s)
                   (remove_nth (Z.to_nat n) (a_shelf s))
      | _, _ => s
      end
  | OSetType p i ty => on_aroot s p (guardZ i (upd_nth a_is_block (Z.to_nat i) (set_ty ty)))
  | OSetLabels p i ls => on_aroot s p (guardZ i (upd_nth a_is_block (Z.to_nat i) (set_labels ls)))
  | OAppendRaw p ts => on_aroot s p (fun a => a ++ [ARaw ts])
  | OClear p => on_aroot s p (fun _ => [])
  end.

Definition spec_run (ops : list op) (s : astate) : astate := fold_left (fun acc o => spec_step o acc) ops s.

(* ---- abs: the abstract file a tree serialises to (by content kind) ------------------ *)
Definition is_lident (l : leaf) : bool := match l with LIdent _ => true | _ => false end.
Definition is_lexpr (l : leaf) : bool := match l with LExpr _ => true | _ => false end.
Definition is_kident (k : kleaf) : bool := match k with KLeaf (LIdent _) => true | _ => false end.

(* split at the first element whose content satisfies p *)
Fixpoint split_first {A} (p : A -> bool) (l : list (Z * A)) : option (list (Z * A) * (Z * A) * list (Z * A)) :=
  match l with
  | [] => None
  | x :: r =>
      if p (snd x) then Some ([], x, r)
      else match split_first p r with
           | Some (a, y, b) => Some (x :: a, y, b)
           | None => None
           end
  end.

Definition abs_attr (a : attr) : aitem :=
  match split_first is_lident (a_ch a) with
  | Some (pre, (_, LIdent t), rest) =>
      match split_first is_lexpr rest with
      | Some (mid, (_, LExpr e), post) =>
          AAttr (leaves_tokens pre) t (leaves_tokens mid) e (leaves_tokens post)
      | _ => ARaw (attr_tokens a)
      end
  | _ => ARaw (attr_tokens a)
  end.

Definition abs_label (n : Z * leaf) : alabel :=
  match snd n with
  | LIdent t => ALIdent t
  | LQuoted ts => ALQuoted ts
  | l => ALRaw (leaf_tokens l)
  end.
Definition abs_labels (l : labels) : list alabel := map abs_label (l_ch l).

Fixpoint abs_body (b : body) : afile :=
  match b with
  | mkBody ch _ =>
      (fix go (l : list (Z * bitem)) : afile :=
         match l with [] => [] | n :: r => abs_item (snd n) :: go r end) ch
  end
with abs_item (it : bitem) : aitem :=
  match it with
  | ITokens ts => ARaw ts
  | IAttr a => abs_attr a
  | IBlock k => abs_block k
  end
with abs_block (k : block) : aitem :=
  match k with
  | mkBlock pre _ bd post _ _ _ _ _ _ =>
      match split_first is_kident pre with
      | Some (lead, (_, KLeaf (LIdent t)), (_, KLabels l) :: mid) =>
          ABlock (kleaves_tokens lead) t (abs_labels l) (kleaves_tokens mid)
                 (abs_body bd) (kleaves_tokens post)
      | _ => ARaw (kleaves_tokens pre ++ body_tokens bd ++ kleaves_tokens post)
      end
  end.

Definition abs (s : state) : astate :=
  mkAState (f_pre s) (abs_body (root s)) (f_post s) (map abs_block (shelf s)).

(* ---- executable well-formedness check ------------------------------------------------------
   The boolean counterpart of TreeProofs.WF (proved sound there: wf_state_b s =
   true -> WF s).  The correspondence checker evaluates it on every initial tree
   dumped from the Go heap, so the hypothesis of the history theorems is checked
   on what the real parser / API actually build. *)
Definition is_nil {A} (l : list A) : bool := match l with [] => true | _ => false end.
Fixpoint nodupb (l : list Z) : bool :=
  match l with [] => true | x :: r => negb (mem x r) && nodupb r end.
Fixpoint nodup_keysb (l : list (list Z)) : bool :=
  match l with [] => true | x :: r => negb (existsb (zlist_eqb x) r) && nodup_keysb r end.
Definition nil_or_mem (h : Z) (l : list Z) : bool := (h =? 0) || mem h l.

Definition is_item_b (n : Z * bitem) : bool := match snd n with ITokens _ => false | _ => true end.
Definition is_label_node_b (n : Z * leaf) : bool :=
  match snd n with LIdent _ | LQuoted _ => true | _ => false end.
Definition attr_key_b (a : attr) : list Z := match attr_name a with Ok t => bytes t | _ => [] end.
Definition keys_b (ch : list (Z * bitem)) : list (list Z) :=
  flat_map (fun n => match snd n with IAttr a => [attr_key_b a] | _ => [] end) ch.

Definition attr_wfb (a : attr) : bool :=
  match split_first is_lident (a_ch a) with
  | Some (pre, (iN, LIdent _), rest) =>
      match split_first is_lexpr rest with
      | Some (mid, (iE, LExpr _), post) =>
          negb (is_nil pre) && negb (is_nil post) && nodupb (ids (a_ch a))
          && (a_name a =? iN) && (a_expr a =? iE)
          && mem (a_lead a) (ids pre) && mem (a_line a) (ids post)
      | _ => false
      end
  | _ => false
  end.

Definition labels_wfb (l : labels) : bool :=
  nodupb (ids (l_ch l)) && zlist_eqb (l_items l) (ids (filter is_label_node_b (l_ch l))).

Fixpoint body_wfb (b : body) : bool :=
  match b with
  | mkBody ch items =>
      nodupb (ids ch) && zlist_eqb items (ids (filter is_item_b ch))
      && nodup_keysb (keys_b ch)
      && (fix go (l : list (Z * bitem)) : bool :=
            match l with [] => true | n :: r => item_wfb (snd n) && go r end) ch
  end
with item_wfb (it : bitem) : bool :=
  match it with ITokens _ => true | IAttr a => attr_wfb a | IBlock k => block_wfb k end
with block_wfb (k : block) : bool :=
  match k with
  | mkBlock pre bid bd post h1 h2 h3 h4 h5 h6 =>
      match split_first is_kident pre with
      | Some (lead, (iT, KLeaf (LIdent _)), (iL, KLabels l) :: mid) =>
          negb (is_nil lead) && nodupb (ids pre ++ bid :: ids post) && labels_wfb l
          && (h2 =? iT) && (h3 =? iL) && (h5 =? bid)
          && mem h1 (ids lead) && nil_or_mem h4 (ids mid) && nil_or_mem h6 (ids post)
          && body_wfb bd
      | _ => false
      end
  end.

Definition wf_state_b (s : state) : bool := body_wfb (root s) && forallb block_wfb (shelf s).
