(* Write/TreeL1Proofs.v — the pointer level of node.go (Tree.L1) implements the
   functional list operations of L2, each UNDER ITS PRECONDITION:
     Detach      (member of the list)                      = remove
     ReplaceWith (interior member: not first, not last)    = replace in place
     AppendNode  (fresh node: not a member, unlinked)      = append at the end
     InsertNode  (position is a member but not the first)  = insert before
     Clear                                                 = the empty list
     walk from first                                       = the list
   and what happens outside the preconditions (witnesses at the end):
   ReplaceWith on the first node leaves `first` pointing at the detached node
   (the walk then yields only that node); InsertNode before the first node
   dereferences nil. *)
From HclV Require Import Base.Prelude Write.Format Write.Tree Write.TreeProofs.
Import L1.

Section L1Proofs.
Variable C : Type.
Notation heap := (heap C).
Notation cell := (cell C).

Definition cell_at (h : heap) (a : Z) : option cell := find_id a (h_cells C h).
Definition nodes_at (h : heap) (a : Z) : option nodes := find_id a (h_lists C h).

(* l is laid out in h as the doubly linked list owned by header ns *)
Fixpoint chain (h : heap) (ns prev : Z) (l : list Z) : Prop :=
  match l with
  | [] => True
  | a :: r =>
      a <> 0 /\
      exists c, cell_at h a = Some c /\ c_list C c = ns /\ c_before C c = prev /\
                c_after C c = hd 0 r /\ chain h ns a r
  end.

Definition repr (h : heap) (ns : Z) (l : list Z) : Prop :=
  ns <> 0 /\ NoDup l /\ nodes_at h ns = Some (mkNodes (hd 0 l) (last l 0)) /\ chain h ns 0 l.

(* ---- heap bookkeeping ---------------------------------------------------------- *)
Lemma cell_at_set h a c b : cell_at (set_cell C h a c) b = if a =? b then Some c else cell_at h b.
Proof. reflexivity. Qed.
Lemma nodes_at_set_cell h a c b : nodes_at (set_cell C h a c) b = nodes_at h b.
Proof. reflexivity. Qed.
Lemma cell_at_set_nodes h a n b : cell_at (set_nodes C h a n) b = cell_at h b.
Proof. reflexivity. Qed.
Lemma nodes_at_set h a n b : nodes_at (set_nodes C h a n) b = if a =? b then Some n else nodes_at h b.
Proof. reflexivity. Qed.

Lemma get_cell_ok h a c : cell_at h a = Some c -> get_cell C h a = Ok c.
Proof. unfold get_cell, cell_at. intros ->. reflexivity. Qed.
Lemma get_nodes_ok h a n : nodes_at h a = Some n -> get_nodes C h a = Ok n.
Proof. unfold get_nodes, nodes_at. intros ->. reflexivity. Qed.

Lemma chain_same h h' ns prev l :
  (forall a, In a l -> cell_at h' a = cell_at h a) -> chain h ns prev l -> chain h' ns prev l.
Proof.
  revert prev. induction l as [|a r IH]; intros prev E H; [exact I|].
  destruct H as (Na & c & Hc & H1 & H2 & H3 & H4).
  split; [exact Na|]. exists c. rewrite E by (left; reflexivity).
  repeat split; try assumption. apply IH; [|exact H4].
  intros b Hb. apply E. right. exact Hb.
Qed.

Lemma chain_nonzero h ns prev l : chain h ns prev l -> ~ In 0 l.
Proof.
  revert prev. induction l as [|a r IH]; intros prev H; [intros []|].
  destruct H as (Na & c & _ & _ & _ & _ & H4). intros [E|E]; [congruence|].
  exact (IH _ H4 E).
Qed.

Lemma chain_cell h ns prev l a :
  chain h ns prev l -> In a l -> exists c, cell_at h a = Some c /\ c_list C c = ns.
Proof.
  revert prev. induction l as [|x r IH]; intros prev H Hin; [contradiction|].
  destruct H as (Na & c & Hc & H1 & _ & _ & H4).
  destruct Hin as [->|Hin]; [eauto|eapply IH; eassumption].
Qed.

Lemma last_cons_default {A} (x : A) r d : last (x :: r) d = last r x.
Proof.
  revert x d. induction r as [|y r IH]; intros x d; [reflexivity|].
  change (last (x :: y :: r) d) with (last (y :: r) d). rewrite !IH. reflexivity.
Qed.

Lemma chain_mid h ns prev l1 n l2 :
  chain h ns prev (l1 ++ n :: l2) ->
  exists c, cell_at h n = Some c /\ c_list C c = ns /\ c_before C c = last l1 prev /\
            c_after C c = hd 0 l2 /\ n <> 0.
Proof.
  revert prev. induction l1 as [|x r IH]; intros prev H.
  - destruct H as (Na & c & Hc & H1 & H2 & H3 & _). exists c. auto.
  - destruct H as (_ & c & _ & _ & _ & _ & H4). destruct (IH _ H4) as (c' & A1 & A2 & A3 & A4 & A5).
    exists c'. repeat split; try assumption. rewrite A3. symmetry. apply last_cons_default.
Qed.

Lemma last_in {A} (l : list A) d : l <> [] -> In (last l d) l.
Proof.
  induction l as [|x r IH]; [congruence|]. intros _. destruct r as [|y r'].
  - left. reflexivity.
  - right. apply IH. discriminate.
Qed.

(* ---- the walk ------------------------------------------------------------------------ *)
Lemma walk_S f h a :
  walk C (S f) h a =
  if a =? 0 then Some []
  else match cell_at h a with
       | None => None
       | Some c => match walk C f h (c_after C c) with Some r => Some (a :: r) | None => None end
       end.
Proof. reflexivity. Qed.

Theorem walk_refines h ns prev l :
  chain h ns prev l -> walk C (S (length l)) h (hd 0 l) = Some l.
Proof.
  revert prev. induction l as [|a r IH]; intros prev H; [reflexivity|].
  destruct H as (Na & c & Hc & _ & _ & H3 & H4).
  cbn [length hd]. rewrite walk_S. apply Z.eqb_neq in Na. rewrite Na.
  rewrite Hc. rewrite H3. rewrite (IH _ H4). reflexivity.
Qed.

(* nodes.BuildTokens / inTree.walkChildNodes visit exactly the represented list *)
Corollary walk_repr h ns l :
  repr h ns l -> exists hd_, nodes_at h ns = Some hd_ /\ walk C (S (length l)) h (n_first hd_) = Some l.
Proof.
  intros (_ & _ & Hn & Hc). eexists. split; [exact Hn|]. apply (walk_refines h ns 0 l Hc).
Qed.

(* ---- Clear ------------------------------------------------------------------------------ *)
Theorem clear_refines h ns l : repr h ns l -> repr (clear C h ns) ns [].
Proof.
  intros (N0 & _ & _ & _). unfold clear. repeat split; try assumption; try constructor.
  rewrite nodes_at_set, Z.eqb_refl. reflexivity.
Qed.

(* ---- Detach -------------------------------------------------------------------------------- *)
Definition upd_detach (bef aft : Z) (a : Z) (c : cell) : cell :=
  let c1 := if a =? bef then with_after C c aft else c in
  if a =? aft then with_before C c1 bef else c1.

Lemma detach_chain h h' ns n l2 : forall l1 prev,
  chain h ns prev (l1 ++ n :: l2) -> NoDup (l1 ++ n :: l2) -> ~ In prev (l1 ++ n :: l2) ->
  (forall a c, In a (l1 ++ l2) -> cell_at h a = Some c ->
               cell_at h' a = Some (upd_detach (last l1 prev) (hd 0 l2) a c)) ->
  chain h' ns prev (l1 ++ l2).
Proof.
  induction l1 as [|x l1' IH]; intros prev H N Np S.
  - cbn [app] in *. destruct H as (Nn & cn & Hcn & _ & _ & _ & H4).
    destruct l2 as [|y l2']; [exact I|].
    destruct H4 as (Ny & cy & Hcy & Y1 & Y2 & Y3 & Y4).
    cbn [last hd] in S.
    assert (Eyp : y =? prev = false).
    { apply Z.eqb_neq. intros ->. apply Np. right. left. reflexivity. }
    split; [exact Ny|]. exists (with_before C cy prev).
    split.
    { rewrite (S y cy (or_introl eq_refl) Hcy). unfold upd_detach. rewrite Eyp, Z.eqb_refl. reflexivity. }
    repeat split; try assumption.
    apply (chain_same h); [|exact Y4].
    intros a Ha. apply NoDup_cons_iff in N. destruct N as [Nn' N']. apply NoDup_cons_iff in N'. destruct N' as [Ny' N''].
    destruct (chain_cell _ _ _ _ _ Y4 Ha) as (ca & Hca & _).
    rewrite (S a ca (or_intror Ha) Hca). unfold upd_detach.
    assert (E1 : a =? prev = false).
    { apply Z.eqb_neq. intros ->. apply Np. right. right. exact Ha. }
    assert (E2 : a =? y = false).
    { apply Z.eqb_neq. intros ->. apply Ny'. exact Ha. }
    rewrite E1, E2. symmetry. exact Hca.
  - cbn [app] in *. destruct H as (Nx & cx & Hcx & X1 & X2 & X3 & X4).
    apply NoDup_cons_iff in N. destruct N as [Nx' N'].
    assert (Elast : last (x :: l1') prev = last l1' x) by apply last_cons_default.
    rewrite Elast in S.
    assert (IH' : chain h' ns x (l1' ++ l2)).
    { apply IH; try assumption. intros a c Ha Hc. apply S; [right; exact Ha|exact Hc]. }
    split; [exact Nx|].
    assert (Exaft : x =? hd 0 l2 = false).
    { apply Z.eqb_neq. intros E. destruct l2 as [|y l2']; simpl in E; [congruence|].
      subst y. apply Nx'. apply in_or_app. right. right. left. reflexivity. }
    destruct l1' as [|z l1''].
    + cbn [last app] in *. exists (with_after C cx (hd 0 l2)). split.
      { rewrite (S x cx (or_introl eq_refl) Hcx). unfold upd_detach. rewrite Z.eqb_refl, Exaft. reflexivity. }
      split; [exact X1|]. split; [exact X2|]. split; [reflexivity|exact IH'].
    + exists cx. split.
      { rewrite (S x cx (or_introl eq_refl) Hcx). unfold upd_detach. rewrite Exaft.
        assert (E : x =? last (z :: l1'') x = false).
        { apply Z.eqb_neq. intros E. apply Nx'. apply in_or_app. left. rewrite E at 1.
          apply last_in. discriminate. }
        rewrite E. reflexivity. }
      split; [exact X1|]. split; [exact X2|]. split; [|exact IH']. exact X3.
Qed.

Lemma hd_app_nonnil {A} (l1 l2 : list A) d : l1 <> [] -> hd d (l1 ++ l2) = hd d l1.
Proof. destruct l1; [congruence|reflexivity]. Qed.

Lemma last_app_cons {A} (l1 : list A) x l2 d : last (l1 ++ x :: l2) d = last (x :: l2) d.
Proof.
  induction l1 as [|y r IH]; [reflexivity|]. cbn [app]. rewrite <- IH.
  destruct (r ++ x :: l2) eqn:E; [destruct r; discriminate|reflexivity].
Qed.

Lemma last_app_nonnil {A} (l1 l2 : list A) d : l2 <> [] -> last (l1 ++ l2) d = last l2 d.
Proof. destruct l2 as [|x r]; [congruence|]. intros _. apply last_app_cons. Qed.

(* the two conditional neighbour updates shared by Detach and ReplaceWith *)
Lemma step_before h x y :
  (x = 0 \/ exists c, cell_at h x = Some c) ->
  exists h1,
    (if x =? 0 then Ok h
     else do cb <- get_cell C h x; Ok (set_cell C h x (with_after C cb y))) = Ok h1 /\
    (forall a, cell_at h1 a =
       if negb (x =? 0) && (x =? a) then option_map (fun c => with_after C c y) (cell_at h a)
       else cell_at h a) /\
    (forall m, nodes_at h1 m = nodes_at h m).
Proof.
  intros [->|[c Hc]].
  - exists h. simpl. auto.
  - destruct (x =? 0) eqn:E.
    + exists h. simpl. auto.
    + rewrite (get_cell_ok _ _ _ Hc). cbn [bind]. eexists. split; [reflexivity|]. split.
      * intros a. rewrite cell_at_set. simpl. destruct (x =? a) eqn:E2; [|reflexivity].
        apply Z.eqb_eq in E2. subst a. rewrite Hc. reflexivity.
      * intros m. reflexivity.
Qed.

Lemma step_after h x y :
  (x = 0 \/ exists c, cell_at h x = Some c) ->
  exists h1,
    (if x =? 0 then Ok h
     else do ca <- get_cell C h x; Ok (set_cell C h x (with_before C ca y))) = Ok h1 /\
    (forall a, cell_at h1 a =
       if negb (x =? 0) && (x =? a) then option_map (fun c => with_before C c y) (cell_at h a)
       else cell_at h a) /\
    (forall m, nodes_at h1 m = nodes_at h m).
Proof.
  intros [->|[c Hc]].
  - exists h. simpl. auto.
  - destruct (x =? 0) eqn:E.
    + exists h. simpl. auto.
    + rewrite (get_cell_ok _ _ _ Hc). cbn [bind]. eexists. split; [reflexivity|]. split.
      * intros a. rewrite cell_at_set. simpl. destruct (x =? a) eqn:E2; [|reflexivity].
        apply Z.eqb_eq in E2. subst a. rewrite Hc. reflexivity.
      * intros m. reflexivity.
Qed.

Lemma neighbour_cells h ns l1 n l2 :
  chain h ns 0 (l1 ++ n :: l2) ->
  (last l1 0 = 0 \/ exists c, cell_at h (last l1 0) = Some c) /\
  (hd 0 l2 = 0 \/ exists c, cell_at h (hd 0 l2) = Some c) /\
  (last l1 0 <> 0 -> In (last l1 0) l1) /\ (hd 0 l2 <> 0 -> In (hd 0 l2) l2).
Proof.
  intros Hc.
  assert (A : last l1 0 <> 0 -> In (last l1 0) l1).
  { intros H. destruct l1 as [|x r]; [simpl in H; congruence|]. apply last_in. discriminate. }
  assert (B : hd 0 l2 <> 0 -> In (hd 0 l2) l2).
  { intros H. destruct l2 as [|y r]; [simpl in H; congruence|]. left. reflexivity. }
  split; [|split; [|split; assumption]].
  - destruct (Z.eq_dec (last l1 0) 0) as [E|E]; [left; exact E|right].
    destruct (chain_cell _ _ _ _ (last l1 0) Hc) as (c & H & _); [apply in_or_app; left; apply A; exact E|eauto].
  - destruct (Z.eq_dec (hd 0 l2) 0) as [E|E]; [left; exact E|right].
    destruct (chain_cell _ _ _ _ (hd 0 l2) Hc) as (c & H & _); [apply in_or_app; right; right; apply B; exact E|eauto].
Qed.

Theorem detach_refines h ns l1 n l2 :
  repr h ns (l1 ++ n :: l2) ->
  exists h', detach C h n = Ok h' /\ repr h' ns (l1 ++ l2) /\
             (exists c, cell_at h' n = Some c /\ c_list C c = 0 /\ c_before C c = 0 /\ c_after C c = 0) /\
             (forall a, ~ In a (l1 ++ n :: l2) -> cell_at h' a = cell_at h a) /\
             (forall m, m <> ns -> nodes_at h' m = nodes_at h m).
Proof.
  intros (N0 & Nd & Hn & Hc).
  destruct (chain_mid _ _ _ _ _ _ Hc) as (c & Hcn & L & B & A & Nn).
  pose proof (chain_nonzero _ _ _ _ Hc) as NZ.
  destruct (NoDup_mid_notin _ _ _ Nd) as [Nn1 Nn2].
  destruct (neighbour_cells _ _ _ _ _ Hc) as (Cb & Ca & Ib & Ia).
  set (bef := last l1 0) in *. set (aft := hd 0 l2) in *.
  destruct (step_before h bef aft Cb) as (h1 & E1 & C1 & M1).
  assert (Ca1 : aft = 0 \/ exists c, cell_at h1 aft = Some c).
  { destruct Ca as [Z0|[ca Hca]]; [left; exact Z0|right]. rewrite C1, Hca.
    destruct (negb (bef =? 0) && (bef =? aft)); simpl; eauto. }
  destruct (step_after h1 aft bef Ca1) as (h2 & E2 & C2 & M2).
  unfold detach. rewrite (get_cell_ok _ _ _ Hcn). cbn [bind]. rewrite L.
  assert (Ens : ns =? 0 = false) by (apply Z.eqb_neq; exact N0). rewrite Ens.
  rewrite B, A. fold bef aft. rewrite E1. cbn [bind]. rewrite E2. cbn [bind].
  assert (Hn2 : nodes_at h2 ns = Some (mkNodes (hd 0 (l1 ++ n :: l2)) (last (l1 ++ n :: l2) 0))).
  { rewrite M2, M1. exact Hn. }
  rewrite (get_nodes_ok _ _ _ Hn2). cbn [bind n_first n_last].
  eexists. split; [reflexivity|].
  (* cells of the result *)
  assert (CELL : forall a c0, In a (l1 ++ l2) -> cell_at h a = Some c0 ->
                 cell_at h2 a = Some (upd_detach bef aft a c0)).
  { intros a c0 Ha Hc0. assert (Na : a <> 0).
    { intros ->. apply NZ. apply in_app_or in Ha. apply in_or_app. destruct Ha; [left|right; right]; assumption. }
    rewrite C2, C1, Hc0. unfold upd_detach.
    assert (Eb : negb (bef =? 0) && (bef =? a) = (a =? bef)).
    { destruct (Z.eqb_spec bef a) as [->|Hne].
      - rewrite Z.eqb_refl. apply Z.eqb_neq in Na. rewrite Na. reflexivity.
      - rewrite andb_false_r. symmetry. apply Z.eqb_neq. congruence. }
    assert (Ea : negb (aft =? 0) && (aft =? a) = (a =? aft)).
    { destruct (Z.eqb_spec aft a) as [->|Hne].
      - rewrite Z.eqb_refl. apply Z.eqb_neq in Na. rewrite Na. reflexivity.
      - rewrite andb_false_r. symmetry. apply Z.eqb_neq. congruence. }
    rewrite Eb, Ea. destruct (a =? bef); destruct (a =? aft); reflexivity. }
  split; [|split; [|split]].
  - (* repr *)
    split; [exact N0|]. split; [eapply NoDup_remove_1; exact Nd|]. split.
    + rewrite nodes_at_set_cell, nodes_at_set, Z.eqb_refl. f_equal.
      assert (F : (if hd 0 (l1 ++ n :: l2) =? n then mkNodes aft (last (l1 ++ n :: l2) 0)
                   else mkNodes (hd 0 (l1 ++ n :: l2)) (last (l1 ++ n :: l2) 0))
                  = mkNodes (hd 0 (l1 ++ l2)) (last (l1 ++ n :: l2) 0)).
      { destruct l1 as [|x r].
        - cbn [app hd]. rewrite Z.eqb_refl. reflexivity.
        - cbn [app hd]. assert (x =? n = false) by (apply Z.eqb_neq; intros ->; apply Nn1; left; reflexivity).
          rewrite H. reflexivity. }
      rewrite F. cbn [n_first n_last]. rewrite last_app_cons.
      destruct l2 as [|y r].
      * cbn [last]. rewrite Z.eqb_refl. rewrite app_nil_r. reflexivity.
      * assert (E : last (n :: y :: r) 0 =? n = false).
        { apply Z.eqb_neq. intros E. apply Nn2. rewrite <- E.
          change (last (n :: y :: r) 0) with (last (y :: r) 0). apply last_in. discriminate. }
        rewrite E. rewrite last_app_nonnil by discriminate. reflexivity.
    + apply (detach_chain h _ ns n l2 l1 0 Hc Nd NZ).
      intros a c0 Ha Hc0. rewrite cell_at_set.
      assert (n =? a = false).
      { apply Z.eqb_neq. intros ->. apply in_app_or in Ha. tauto. }
      rewrite H, cell_at_set_nodes. apply CELL; assumption.
  - eexists. rewrite cell_at_set, Z.eqb_refl. split; [reflexivity|]. auto.
  - intros a Ha. rewrite cell_at_set, cell_at_set_nodes.
    assert (n =? a = false).
    { apply Z.eqb_neq. intros ->. apply Ha. apply in_or_app. right. left. reflexivity. }
    rewrite H, C2, C1.
    assert (Eb : negb (bef =? 0) && (bef =? a) = false).
    { destruct (Z.eqb_spec bef 0) as [E|E]; [reflexivity|]. simpl.
      apply Z.eqb_neq. intros <-. apply Ha. apply in_or_app. left. apply Ib. exact E. }
    assert (Ea : negb (aft =? 0) && (aft =? a) = false).
    { destruct (Z.eqb_spec aft 0) as [E|E]; [reflexivity|]. simpl.
      apply Z.eqb_neq. intros <-. apply Ha. apply in_or_app. right. right. apply Ia. exact E. }
    rewrite Ea, Eb. reflexivity.
  - intros m Hm. rewrite nodes_at_set_cell, nodes_at_set.
    assert (ns =? m = false) by (apply Z.eqb_neq; congruence).
    rewrite H, M2, M1. reflexivity.
Qed.

(* ---- ReplaceWith ---------------------------------------------------------------------------- *)
Definition upd_repl (bef aft nn : Z) (a : Z) (c : cell) : cell :=
  let c1 := if a =? bef then with_after C c nn else c in
  if a =? aft then with_before C c1 nn else c1.

Lemma replace_chain h h' ns n nn x l2 : forall l1 prev,
  chain h ns prev (l1 ++ n :: l2) -> NoDup (l1 ++ n :: l2) -> ~ In prev (l1 ++ n :: l2) ->
  nn <> 0 ->
  (forall a c, In a (l1 ++ l2) -> cell_at h a = Some c ->
               cell_at h' a = Some (upd_repl (last l1 prev) (hd 0 l2) nn a c)) ->
  cell_at h' nn = Some (mkCell C x ns (last l1 prev) (hd 0 l2)) ->
  chain h' ns prev (l1 ++ nn :: l2).
Proof.
  induction l1 as [|y l1' IH]; intros prev H N Np Nnn S Snn.
  - cbn [app last] in *. destruct H as (Nn & cn & Hcn & _ & _ & _ & H4).
    split; [exact Nnn|]. exists (mkCell C x ns prev (hd 0 l2)).
    split; [exact Snn|]. split; [reflexivity|]. split; [reflexivity|]. split; [reflexivity|].
    destruct l2 as [|z l2']; [exact I|].
    destruct H4 as (Nz & cz & Hcz & Z1 & Z2 & Z3 & Z4). cbn [hd] in S.
    apply NoDup_cons_iff in N. destruct N as [Nn' N']. apply NoDup_cons_iff in N'. destruct N' as [Nz' N''].
    assert (Ezp : z =? prev = false).
    { apply Z.eqb_neq. intros ->. apply Np. right. left. reflexivity. }
    split; [exact Nz|]. exists (with_before C cz nn). split.
    { rewrite (S z cz (or_introl eq_refl) Hcz). unfold upd_repl. rewrite Ezp, Z.eqb_refl. reflexivity. }
    split; [exact Z1|]. split; [reflexivity|]. split; [exact Z3|].
    apply (chain_same h); [|exact Z4].
    intros a Ha. destruct (chain_cell _ _ _ _ _ Z4 Ha) as (ca & Hca & _).
    rewrite (S a ca (or_intror Ha) Hca). unfold upd_repl.
    assert (E1 : a =? prev = false).
    { apply Z.eqb_neq. intros ->. apply Np. right. right. exact Ha. }
    assert (E2 : a =? z = false).
    { apply Z.eqb_neq. intros ->. apply Nz'. exact Ha. }
    rewrite E1, E2. symmetry. exact Hca.
  - cbn [app] in *. destruct H as (Ny & cy & Hcy & Y1 & Y2 & Y3 & Y4).
    apply NoDup_cons_iff in N. destruct N as [Ny' N'].
    assert (Elast : last (y :: l1') prev = last l1' y) by apply last_cons_default.
    rewrite Elast in S, Snn.
    assert (IH' : chain h' ns y (l1' ++ nn :: l2)).
    { apply IH; try assumption. intros a c Ha Hc. apply S; [right; exact Ha|exact Hc]. }
    split; [exact Ny|].
    assert (Eyaft : y =? hd 0 l2 = false).
    { apply Z.eqb_neq. intros E. destruct l2 as [|z l2']; simpl in E; [congruence|].
      subst z. apply Ny'. apply in_or_app. right. right. left. reflexivity. }
    destruct l1' as [|z l1''].
    + cbn [last app] in *. exists (with_after C cy nn). split.
      { rewrite (S y cy (or_introl eq_refl) Hcy). unfold upd_repl. rewrite Z.eqb_refl, Eyaft. reflexivity. }
      split; [exact Y1|]. split; [exact Y2|]. split; [reflexivity|exact IH'].
    + exists cy. split.
      { rewrite (S y cy (or_introl eq_refl) Hcy). unfold upd_repl. rewrite Eyaft.
        assert (E : y =? last (z :: l1'') y = false).
        { apply Z.eqb_neq. intros E. apply Ny'. apply in_or_app. left. rewrite E at 1.
          apply last_in. discriminate. }
        rewrite E. reflexivity. }
      split; [exact Y1|]. split; [exact Y2|]. split; [exact Y3|exact IH'].
Qed.

(* ReplaceWith on an INTERIOR node is the functional replace.  The hypotheses
   l1 <> [] and l2 <> [] are used exactly once: to show that the header, which
   ReplaceWith never touches, is still right. *)
Theorem replace_with_refines h ns l1 n l2 x :
  repr h ns (l1 ++ n :: l2) -> l1 <> [] -> l2 <> [] ->
  h_next C h <> 0 -> ~ In (h_next C h) (l1 ++ n :: l2) ->
  exists h', replace_with1 C h n x = Ok (h_next C h, h') /\
             repr h' ns (l1 ++ h_next C h :: l2) /\
             (exists c, cell_at h' (h_next C h) = Some c /\ c_content C c = x) /\
             (exists c, cell_at h' n = Some c /\ c_list C c = 0) /\
             (forall m, nodes_at h' m = nodes_at h m).
Proof.
  intros (N0 & Nd & Hn & Hc) Hl1 Hl2 Nnn0 Nnn.
  destruct (chain_mid _ _ _ _ _ _ Hc) as (c & Hcn & L & B & A & Nn).
  pose proof (chain_nonzero _ _ _ _ Hc) as NZ.
  destruct (NoDup_mid_notin _ _ _ Nd) as [Nn1 Nn2].
  destruct (neighbour_cells _ _ _ _ _ Hc) as (Cb & Ca & Ib & Ia).
  set (nn := h_next C h) in *. set (bef := last l1 0) in *. set (aft := hd 0 l2) in *.
  unfold replace_with1. rewrite (get_cell_ok _ _ _ Hcn). cbn [bind]. rewrite L.
  assert (Ens : ns =? 0 = false) by (apply Z.eqb_neq; exact N0). rewrite Ens.
  unfold new_node. cbn [h_next set_cell]. fold nn. rewrite B, A. fold bef aft.
  set (h2 := set_cell C _ nn (mkCell C x ns bef aft)).
  assert (C2 : forall a, cell_at h2 a =
                if nn =? a then Some (mkCell C x ns bef aft)
                else if n =? a then Some (mkCell C (c_content C c) 0 0 0) else cell_at h a).
  { intros a. unfold h2. rewrite cell_at_set. destruct (nn =? a) eqn:E; [reflexivity|].
    unfold cell_at. cbn [h_cells find_id]. rewrite E. reflexivity. }
  assert (M2 : forall m, nodes_at h2 m = nodes_at h m) by (intros m; reflexivity).
  assert (Old : forall a, In a (l1 ++ l2) -> cell_at h2 a = cell_at h a).
  { intros a Ha. rewrite C2.
    assert (nn =? a = false).
    { apply Z.eqb_neq. intros <-. apply Nnn. apply in_app_or in Ha. apply in_or_app. destruct Ha; [left|right; right]; assumption. }
    assert (n =? a = false).
    { apply Z.eqb_neq. intros <-. apply in_app_or in Ha. tauto. }
    rewrite H, H0. reflexivity. }
  assert (Cb2 : bef = 0 \/ exists c, cell_at h2 bef = Some c).
  { destruct (Z.eq_dec bef 0) as [E|E]; [left; exact E|right].
    rewrite Old by (apply in_or_app; left; apply Ib; exact E).
    destruct Cb as [?|?]; [congruence|assumption]. }
  destruct (step_before h2 bef nn Cb2) as (h3 & E3 & C3 & M3).
  assert (Ca3 : aft = 0 \/ exists c, cell_at h3 aft = Some c).
  { destruct (Z.eq_dec aft 0) as [E|E]; [left; exact E|right].
    rewrite C3, Old by (apply in_or_app; right; apply Ia; exact E).
    destruct Ca as [?|[ca Hca]]; [congruence|]. rewrite Hca.
    destruct (negb (bef =? 0) && (bef =? aft)); simpl; eauto. }
  destruct (step_after h3 aft nn Ca3) as (h4 & E4 & C4 & M4).
  rewrite E3. cbn [bind]. rewrite E4. cbn [bind].
  eexists. split; [reflexivity|].
  assert (Enb : negb (bef =? 0) && (bef =? nn) = false).
  { destruct (Z.eqb_spec bef 0) as [E|E]; [reflexivity|]. simpl.
    apply Z.eqb_neq. intros E'. apply Nnn. rewrite <- E'. apply in_or_app. left. apply Ib. exact E. }
  assert (Ena : negb (aft =? 0) && (aft =? nn) = false).
  { destruct (Z.eqb_spec aft 0) as [E|E]; [reflexivity|]. simpl.
    apply Z.eqb_neq. intros E'. apply Nnn. rewrite <- E'. apply in_or_app. right. right. apply Ia. exact E. }
  assert (Cnn : cell_at h4 nn = Some (mkCell C x ns bef aft)).
  { rewrite C4, Ena, C3, Enb, C2, Z.eqb_refl. reflexivity. }
  split; [|split; [|split]].
  - split; [exact N0|]. split.
    { apply NoDup_mid_replace with (a := n); assumption. }
    split.
    + rewrite M4, M3, M2, Hn. f_equal.
      rewrite !hd_app_nonnil by assumption. rewrite !last_app_cons.
      destruct l2 as [|y r]; [congruence|]. reflexivity.
    + apply (replace_chain h h4 ns n nn x l2 l1 0 Hc Nd NZ Nnn0); [|exact Cnn].
      intros a c0 Ha Hc0.
      assert (Na : a <> 0).
      { intros ->. apply NZ. apply in_app_or in Ha. apply in_or_app. destruct Ha; [left|right; right]; assumption. }
      rewrite C4, C3, (Old a Ha), Hc0. unfold upd_repl. fold bef aft.
      assert (Eb : negb (bef =? 0) && (bef =? a) = (a =? bef)).
      { destruct (Z.eqb_spec bef a) as [->|Hne].
        - rewrite Z.eqb_refl. apply Z.eqb_neq in Na. rewrite Na. reflexivity.
        - rewrite andb_false_r. symmetry. apply Z.eqb_neq. congruence. }
      assert (Ea : negb (aft =? 0) && (aft =? a) = (a =? aft)).
      { destruct (Z.eqb_spec aft a) as [->|Hne].
        - rewrite Z.eqb_refl. apply Z.eqb_neq in Na. rewrite Na. reflexivity.
        - rewrite andb_false_r. symmetry. apply Z.eqb_neq. congruence. }
      rewrite Eb, Ea. destruct (a =? bef); destruct (a =? aft); reflexivity.
  - eexists. split; [exact Cnn|reflexivity].
  - assert (Enn : nn =? n = false).
    { apply Z.eqb_neq. intros E. apply Nnn. rewrite E. apply in_or_app. right. left. reflexivity. }
    assert (E1 : negb (bef =? 0) && (bef =? n) = false).
    { destruct (Z.eqb_spec bef 0) as [E|E]; [reflexivity|]. simpl.
      apply Z.eqb_neq. intros E'. apply Nn1. rewrite <- E'. apply Ib. exact E. }
    assert (E2 : negb (aft =? 0) && (aft =? n) = false).
    { destruct (Z.eqb_spec aft 0) as [E|E]; [reflexivity|]. simpl.
      apply Z.eqb_neq. intros E'. apply Nn2. rewrite <- E'. apply Ia. exact E. }
    eexists. rewrite C4, E2, C3, E1, C2, Enn, Z.eqb_refl. split; reflexivity.
  - intros m. rewrite M4, M3, M2. reflexivity.
Qed.

(* ---- AppendNode ------------------------------------------------------------------------------- *)
Lemma append_chain h h' ns n : forall l prev,
  chain h ns prev l -> NoDup l -> n <> 0 ->
  (forall a c, In a l -> cell_at h a = Some c ->
               cell_at h' a = Some (if a =? last l prev then with_after C c n else c)) ->
  (exists cn, cell_at h' n = Some cn /\ c_list C cn = ns /\ c_before C cn = last l prev /\ c_after C cn = 0) ->
  chain h' ns prev (l ++ [n]).
Proof.
  induction l as [|x l' IH]; intros prev H N Nn S (cn & Hcn & A1 & A2 & A3).
  - cbn [app last] in *. split; [exact Nn|]. exists cn. auto.
  - cbn [app] in *. destruct H as (Nx & cx & Hcx & X1 & X2 & X3 & X4).
    apply NoDup_cons_iff in N. destruct N as [Nx' N'].
    assert (Elast : last (x :: l') prev = last l' x) by apply last_cons_default.
    rewrite Elast in S, A2.
    assert (IH' : chain h' ns x (l' ++ [n])).
    { apply IH; try assumption.
      - intros a c Ha Hc. apply S; [right; exact Ha|exact Hc].
      - exists cn. auto. }
    split; [exact Nx|].
    destruct l' as [|z l''].
    + cbn [last app] in *. exists (with_after C cx n). split.
      { rewrite (S x cx (or_introl eq_refl) Hcx). rewrite Z.eqb_refl. reflexivity. }
      split; [exact X1|]. split; [exact X2|]. split; [reflexivity|exact IH'].
    + exists cx. split.
      { rewrite (S x cx (or_introl eq_refl) Hcx).
        assert (E : x =? last (z :: l'') x = false).
        { apply Z.eqb_neq. intros E. apply Nx'. rewrite E at 1. apply last_in. discriminate. }
        rewrite E. reflexivity. }
      split; [exact X1|]. split; [exact X2|]. split; [exact X3|exact IH'].
Qed.

(* AppendNode of a node that is not in the list and whose before/after are nil
   (a freshly allocated node, or one that was detached) is the functional append *)
Theorem append_node_refines h ns l n c :
  repr h ns l -> n <> 0 -> ~ In n l ->
  cell_at h n = Some c -> c_before C c = 0 -> c_after C c = 0 ->
  exists h', append_node C h ns n = Ok h' /\ repr h' ns (l ++ [n]) /\
             (forall a, ~ In a l -> a <> n -> cell_at h' a = cell_at h a) /\
             (forall m, m <> ns -> nodes_at h' m = nodes_at h m).
Proof.
  intros (N0 & Nd & Hn & Hc) Nn Nin Hcn B A.
  pose proof (chain_nonzero _ _ _ _ Hc) as NZ.
  unfold append_node. rewrite (get_nodes_ok _ _ _ Hn). cbn [bind n_last n_first].
  destruct l as [|x r].
  - cbn [last hd]. rewrite Z.eqb_refl. cbn [bind].
    rewrite (get_cell_ok _ _ _ Hcn). cbn [bind n_first].
    eexists. split; [reflexivity|]. split; [|split].
    + split; [exact N0|]. split; [repeat constructor; intros []|]. split.
      * rewrite nodes_at_set, Z.eqb_refl. reflexivity.
      * cbn [app chain]. split; [exact Nn|]. eexists. rewrite cell_at_set_nodes, cell_at_set, Z.eqb_refl.
        split; [reflexivity|]. cbn. auto.
    + intros a _ Ha. rewrite cell_at_set_nodes, cell_at_set.
      assert (n =? a = false) by (apply Z.eqb_neq; congruence). rewrite H. reflexivity.
    + intros m Hm. rewrite nodes_at_set. assert (ns =? m = false) by (apply Z.eqb_neq; congruence).
      rewrite H. reflexivity.
  - set (l := x :: r) in *. set (lst := last l 0).
    assert (Hlst : In lst l) by (apply last_in; discriminate).
    assert (Nlst : lst <> 0) by (intros E; apply NZ; rewrite <- E; exact Hlst).
    assert (Elst : lst =? 0 = false) by (apply Z.eqb_neq; exact Nlst). rewrite Elst.
    rewrite (get_cell_ok _ _ _ Hcn). cbn [bind].
    destruct (chain_cell _ _ _ _ _ Hc Hlst) as (cl & Hcl & _).
    assert (Nln : n =? lst = false) by (apply Z.eqb_neq; intros E; apply Nin; rewrite E; exact Hlst).
    assert (Hcl' : cell_at (set_cell C h n (with_before C c lst)) lst = Some cl).
    { rewrite cell_at_set, Nln. exact Hcl. }
    rewrite (get_cell_ok _ _ _ Hcl'). cbn [bind].
    set (h1 := set_cell C (set_cell C h n (with_before C c lst)) lst (with_after C cl n)).
    assert (Hc1 : cell_at h1 n = Some (with_before C c lst)).
    { unfold h1. rewrite !cell_at_set. assert (lst =? n = false) by (rewrite Z.eqb_sym; exact Nln).
      rewrite H, Z.eqb_refl. reflexivity. }
    rewrite (get_cell_ok _ _ _ Hc1). cbn [bind n_first].
    assert (Efirst : hd 0 l =? 0 = false).
    { apply Z.eqb_neq. intros E. apply NZ. rewrite <- E. left. reflexivity. }
    rewrite Efirst. eexists. split; [reflexivity|]. split; [|split].
    + split; [exact N0|]. split; [apply NoDup_app_comm_one; assumption|]. split.
      * rewrite nodes_at_set, Z.eqb_refl. f_equal. rewrite last_app_cons. reflexivity.
      * apply (append_chain h _ ns n l 0 Hc Nd Nn).
        -- intros a c0 Ha Hc0. rewrite cell_at_set_nodes, cell_at_set.
           assert (n =? a = false) by (apply Z.eqb_neq; intros <-; contradiction).
           rewrite H. unfold h1. rewrite !cell_at_set, H. fold lst.
           destruct (Z.eqb_spec lst a) as [<-|Hne].
           ++ rewrite Z.eqb_refl. rewrite Hcl in Hc0. inversion Hc0. reflexivity.
           ++ assert (a =? lst = false) by (apply Z.eqb_neq; congruence). rewrite H0. exact Hc0.
        -- eexists. rewrite cell_at_set_nodes, cell_at_set, Z.eqb_refl. split; [reflexivity|].
           cbn. fold lst. auto.
    + intros a Ha Han. rewrite cell_at_set_nodes, cell_at_set.
      assert (n =? a = false) by (apply Z.eqb_neq; congruence). rewrite H.
      unfold h1. rewrite !cell_at_set, H.
      assert (lst =? a = false) by (apply Z.eqb_neq; intros <-; contradiction). rewrite H0. reflexivity.
    + intros m Hm. rewrite nodes_at_set. assert (ns =? m = false) by (apply Z.eqb_neq; congruence).
      rewrite H. reflexivity.
Qed.

(* ---- InsertNode --------------------------------------------------------------------------------- *)
Lemma insert_chain h h' ns pos n l2 : forall l1 prev,
  l1 <> [] ->
  chain h ns prev (l1 ++ pos :: l2) -> NoDup (l1 ++ pos :: l2) -> n <> 0 ->
  (forall a c, In a (l1 ++ pos :: l2) -> cell_at h a = Some c ->
               cell_at h' a = Some (if a =? last l1 prev then with_after C c n
                                    else if a =? pos then with_before C c n else c)) ->
  (exists cn, cell_at h' n = Some cn /\ c_list C cn = ns /\ c_before C cn = last l1 prev /\ c_after C cn = pos) ->
  chain h' ns prev (l1 ++ n :: pos :: l2).
Proof.
  induction l1 as [|x l1' IH]; intros prev Hne H N Nn S (cn & Hcn & A1 & A2 & A3); [congruence|].
  cbn [app] in *. destruct H as (Nx & cx & Hcx & X1 & X2 & X3 & X4).
  apply NoDup_cons_iff in N. destruct N as [Nx' N'].
  assert (Elast : last (x :: l1') prev = last l1' x) by apply last_cons_default.
  rewrite Elast in S, A2.
  split; [exact Nx|].
  destruct l1' as [|z l1''].
  - cbn [last app] in *.
    destruct X4 as (Np & cp & Hcp & P1 & P2 & P3 & P4).
    apply NoDup_cons_iff in N'. destruct N' as [Np' N''].
    assert (Epx : pos =? x = false).
    { apply Z.eqb_neq. intros E. apply Nx'. left. exact E. }
    exists (with_after C cx n). split.
    { rewrite (S x cx (or_introl eq_refl) Hcx), Z.eqb_refl. reflexivity. }
    split; [exact X1|]. split; [exact X2|]. split; [reflexivity|].
    split; [exact Nn|]. exists cn. split; [exact Hcn|]. split; [exact A1|]. split; [exact A2|]. split; [exact A3|].
    split; [exact Np|]. exists (with_before C cp n). split.
    { rewrite (S pos cp (or_intror (or_introl eq_refl)) Hcp), Epx, Z.eqb_refl. reflexivity. }
    split; [exact P1|]. split; [reflexivity|]. split; [exact P3|].
    apply (chain_same h); [|exact P4].
    intros a Ha. destruct (chain_cell _ _ _ _ _ P4 Ha) as (ca & Hca & _).
    rewrite (S a ca (or_intror (or_intror Ha)) Hca).
    assert (E1 : a =? x = false).
    { apply Z.eqb_neq. intros ->. apply Nx'. right. exact Ha. }
    assert (E2 : a =? pos = false).
    { apply Z.eqb_neq. intros ->. apply Np'. exact Ha. }
    rewrite E1, E2. symmetry. exact Hca.
  - assert (IH' : chain h' ns x ((z :: l1'') ++ n :: pos :: l2)).
    { apply IH; try assumption; [discriminate| |exists cn; auto].
      intros a c Ha Hc. apply S; [right; exact Ha|exact Hc]. }
    exists cx. split.
    { rewrite (S x cx (or_introl eq_refl) Hcx).
      assert (E : x =? last (z :: l1'') x = false).
      { apply Z.eqb_neq. intros E. apply Nx'. apply in_or_app. left. rewrite E at 1. apply last_in. discriminate. }
      assert (E2 : x =? pos = false).
      { apply Z.eqb_neq. intros E2. apply Nx'. apply in_or_app. right. left. symmetry. exact E2. }
      rewrite E, E2. reflexivity. }
    split; [exact X1|]. split; [exact X2|]. split; [exact X3|exact IH'].
Qed.

(* InsertNode before a member that is NOT the first node is the functional insert *)
Theorem insert_node_refines h ns l1 pos l2 n c :
  repr h ns (l1 ++ pos :: l2) -> l1 <> [] ->
  n <> 0 -> ~ In n (l1 ++ pos :: l2) -> cell_at h n = Some c ->
  exists h', insert_node C h ns pos n = Ok h' /\ repr h' ns (l1 ++ n :: pos :: l2) /\
             (forall m, nodes_at h' m = nodes_at h m).
Proof.
  intros (N0 & Nd & Hn & Hc) Hl1 Nn Nin Hcn.
  destruct (chain_mid _ _ _ _ _ _ Hc) as (cp & Hcp & L & B & A & Np).
  pose proof (chain_nonzero _ _ _ _ Hc) as NZ.
  destruct (NoDup_mid_notin _ _ _ Nd) as [Np1 Np2].
  set (bef := last l1 0) in *.
  assert (Hbef : In bef l1) by (apply last_in; exact Hl1).
  assert (Nbef : bef <> 0).
  { intros E. apply NZ. rewrite <- E. apply in_or_app. left. exact Hbef. }
  destruct (chain_cell _ _ _ _ bef Hc) as (cb & Hcb & _); [apply in_or_app; left; exact Hbef|].
  unfold insert_node. rewrite (get_cell_ok _ _ _ Hcn). cbn [bind].
  assert (Ep : pos =? 0 = false) by (apply Z.eqb_neq; exact Np). rewrite Ep.
  rewrite (get_cell_ok _ _ _ Hcp). cbn [bind]. rewrite B.
  rewrite (get_cell_ok _ _ _ Hcb). cbn [bind].
  assert (Enb : n =? bef = false).
  { apply Z.eqb_neq. intros E. apply Nin. rewrite E. apply in_or_app. left. exact Hbef. }
  assert (Enp : n =? pos = false).
  { apply Z.eqb_neq. intros E. apply Nin. rewrite E. apply in_or_app. right. left. reflexivity. }
  assert (Ebp : bef =? pos = false).
  { apply Z.eqb_neq. intros E. apply Np1. rewrite <- E. exact Hbef. }
  set (h2 := set_cell C (set_cell C h bef (with_after C cb n)) n (mkCell C (c_content C c) ns bef pos)).
  assert (Hcp2 : cell_at h2 pos = Some cp).
  { unfold h2. rewrite !cell_at_set, Enp, Ebp. exact Hcp. }
  rewrite (get_cell_ok _ _ _ Hcp2). cbn [bind].
  eexists. split; [reflexivity|]. split; [|intros m; reflexivity].
  split; [exact N0|]. split.
  { change (l1 ++ n :: pos :: l2) with (l1 ++ [n] ++ pos :: l2). rewrite app_assoc.
    assert (N1 : NoDup ((l1 ++ [n]) ++ pos :: l2)).
    { rewrite <- app_assoc. cbn [app]. apply NoDup_Add with (a := n) (l := l1 ++ pos :: l2).
      - apply Add_app.
      - split; assumption. }
    exact N1. }
  split.
  - unfold h2. rewrite !nodes_at_set_cell. rewrite Hn. f_equal.
    rewrite !hd_app_nonnil by assumption. rewrite !last_app_cons. reflexivity.
  - apply (insert_chain h _ ns pos n l2 l1 0 Hl1 Hc Nd Nn).
    + intros a c0 Ha Hc0. fold bef. rewrite cell_at_set. unfold h2. rewrite !cell_at_set.
      assert (Ena : n =? a = false) by (apply Z.eqb_neq; intros <-; contradiction). rewrite Ena.
      destruct (Z.eqb_spec pos a) as [<-|Hpa].
      * assert (pos =? bef = false) by (rewrite Z.eqb_sym; exact Ebp). rewrite H, Z.eqb_refl.
        rewrite Hcp in Hc0. inversion Hc0. reflexivity.
      * destruct (Z.eqb_spec bef a) as [<-|Hba].
        -- rewrite Z.eqb_refl. rewrite Hcb in Hc0. inversion Hc0. reflexivity.
        -- assert (a =? bef = false) by (apply Z.eqb_neq; congruence).
           assert (a =? pos = false) by (apply Z.eqb_neq; congruence).
           rewrite H, H0. exact Hc0.
    + eexists. rewrite cell_at_set. unfold h2. rewrite !cell_at_set.
      assert (pos =? n = false) by (rewrite Z.eqb_sym; exact Enp). rewrite H, Z.eqb_refl.
      split; [reflexivity|]. cbn. fold bef. auto.
Qed.
(* ---- nodeSet.List ------------------------------------------------------------------------------ *)
(* whichever member the map iteration yields first, its `list` pointer leads to
   the owning header, and the walk filtered by membership is Tree.set_list *)
Theorem nodeset_list_refines h ns l set m :
  repr h ns l -> In m set -> (forall a, In a set -> In a l) ->
  nodeset_list C (S (length l)) h (m :: set) = Ok (filter (fun a => mem a (m :: set)) l).
Proof.
  intros (N0 & Nd & Hn & Hc) Hm Hsub.
  destruct (chain_cell _ _ _ _ m Hc (Hsub m Hm)) as (c & Hcm & L).
  unfold nodeset_list. rewrite (get_cell_ok _ _ _ Hcm). cbn [bind]. rewrite L.
  rewrite (get_nodes_ok _ _ _ Hn). cbn [bind n_first].
  rewrite (walk_refines h ns 0 l Hc). reflexivity.
Qed.
End L1Proofs.

(* ======================================================================== *)
(* outside the preconditions: witnesses on a concrete heap                  *)
(* ======================================================================== *)
(* list header 100 owning the nodes 1 -> 2 -> 3 with contents 10, 20, 30 *)
Definition heap123 : heap Z :=
  mkHeap Z [ (1, mkCell Z 10 100 0 2); (2, mkCell Z 20 100 1 3); (3, mkCell Z 30 100 2 0) ]
           [ (100, mkNodes 1 3) ] 4.

Lemma heap123_repr : repr Z heap123 100 [1; 2; 3].
Proof.
  split; [discriminate|]. split; [repeat constructor; simpl; intuition lia|]. split; [reflexivity|].
  simpl. repeat (split; [lia|eexists; split; [reflexivity|]; repeat (split; [reflexivity|])]). exact I.
Qed.

(* ReplaceWith on the FIRST node: no panic, but `first` still points at the old,
   now detached node, so walking the list (BuildTokens) yields that node only:
   the new node and the rest of the list are unreachable. *)
Theorem replace_first_corrupts :
  exists nn h', replace_with1 Z heap123 1 11 = Ok (nn, h') /\
    walk Z 10 h' (match nodes_at Z h' 100 with Some hd_ => n_first hd_ | None => 0 end) = Some [1] /\
    ~ repr Z h' 100 [nn; 2; 3].
Proof.
  eexists. eexists. split; [vm_compute; reflexivity|]. split; [vm_compute; reflexivity|].
  intros (_ & _ & H & _). vm_compute in H. discriminate H.
Qed.

(* ReplaceWith on the LAST node: the walk is right but `last` is stale, so a
   following AppendNode links the new node behind the detached one: it is lost. *)
Theorem replace_last_corrupts :
  exists nn h' h'', replace_with1 Z heap123 3 33 = Ok (nn, h') /\
    walk Z 10 h' 1 = Some [1; 2; nn] /\
    append Z h' 100 44 = Ok (5, h'') /\
    walk Z 10 h'' 1 = Some [1; 2; nn].
Proof.
  eexists. eexists. eexists. split; [vm_compute; reflexivity|]. split; [vm_compute; reflexivity|].
  split; vm_compute; reflexivity.
Qed.

(* InsertNode before the first node dereferences pos.before == nil *)
Theorem insert_before_first_panics :
  insert Z heap123 100 1 5 = Panic.
Proof. vm_compute. reflexivity. Qed.

(* in the middle all is well (instances of the refinement theorems) *)
Example replace_middle_ok :
  exists h', replace_with1 Z heap123 2 22 = Ok (4, h') /\ walk Z 10 h' 1 = Some [1; 4; 3].
Proof. eexists. split; vm_compute; reflexivity. Qed.
