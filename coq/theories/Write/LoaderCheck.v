(* Write/LoaderCheck.v — correspondence checker for the loader model: compares
   what Write/Loader.v computes from (Go's tokens, Go's native AST ranges) with
   what the harness observed on hclwrite.ParseConfig. Run by vm_compute from
   generated case files. *)
From Coq Require Import String Ascii.
From HclV Require Import Base.Prelude Gen.TokenTypes Write.Format Write.Loader.
Open Scope Z_scope.
Open Scope list_scope.

(* token as lexed by Go: type, bytes (hex), grapheme count, SpacesBefore, byte range *)
Definition L (ty_ : Z) (hex : string) (g sp_ s e : Z) : ltok :=
  mkL {| ty := ty_; bytes := unhex hex; gcols := g; sp := sp_ |} s e.
Definition R := mkR.
Definition St := mkStep.
Definition E := mkExpr.

(* shape of the tree: node kind code (Loader.kind_code / leaf_code), token count *)
Inductive shape := Sh (k n : Z) (cs : list shape).

Fixpoint shape_of (n : node) : shape :=
  match n with
  | Leaf k ts => Sh (leaf_code k) (Z.of_nat (length ts)) []
  | Inner k cs => Sh (kind_code k) (Z.of_nat (length (build_tokens n))) (map shape_of cs)
  end.

Fixpoint shape_eqb (a b : shape) : bool :=
  match a, b with
  | Sh k1 n1 c1, Sh k2 n2 c2 =>
      (k1 =? k2) && (n1 =? n2) &&
      (fix go (l1 l2 : list shape) : bool :=
         match l1, l2 with
         | [], [] => true
         | x :: r1, y :: r2 => shape_eqb x y && go r1 r2
         | _, _ => false
         end) c1 c2
  end.

(* what the public API exposes. Attributes come in native source order (the
   harness looks each native attribute up in Body.Attributes()), then the
   blocks in Blocks() order. A variable is Traversal.BuildTokens as (type, bytes). *)
Inductive oitem :=
| OAttr (name : list Z) (vars : list (list (Z * list Z)))
| OBlock (type_ : list Z) (labels : list (list Z)) (items : list oitem).

Definition OA (name : string) (vars : list (list (Z * string))) : oitem :=
  OAttr (unhex name) (map (map (fun p => (fst p, unhex (snd p)))) vars).
Definition OB (type_ : string) (labels : list string) (items : list oitem) : oitem :=
  OBlock (unhex type_) (map unhex labels) items.

Definition tok_sig (t : tok) : Z * list Z := (ty t, bytes t).
Definition expr_vars (cs : list node) : list (list (Z * list Z)) :=
  match find (is_inner KExpression) cs with
  | Some e => map (fun t => map tok_sig (build_tokens t)) (filter (is_inner KTraversal) (children e))
  | None => []
  end.
Definition is_oattr (o : oitem) : bool := match o with OAttr _ _ => true | _ => false end.
Definition attrs_first (l : list oitem) : list oitem :=
  filter is_oattr l ++ filter (fun o => negb (is_oattr o)) l.

Fixpoint tree_obs (n : node) : list oitem :=
  match n with
  | Leaf _ _ => []
  | Inner k cs =>
      match k with
      | KFile => concat (map tree_obs cs)
      | KBody => attrs_first (concat (map tree_obs cs))
      | KAttribute => [OAttr (ident_bytes cs) (expr_vars cs)]
      | KBlock => [OBlock (ident_bytes cs) (labels_api (labels_of cs)) (concat (map tree_obs cs))]
      | _ => []
      end
  end.

Definition sig_eqb (a b : Z * list Z) : bool := (fst a =? fst b) && zlist_eqb (snd a) (snd b).
(* labels: the model returns the raw literal; Go unescapes (backslash escapes,
   $${ and %%{). Compare exactly unless a backslash, "$$" or "%%" occurs (then
   only the presence of the label). *)
Fixpoint has_escape (m : list Z) : bool :=
  match m with
  | [] => false
  | a :: r =>
      (a =? 92)
      || match r with b :: _ => ((a =? 36) && (b =? 36)) || ((a =? 37) && (b =? 37)) | [] => false end
      || has_escape r
  end.
Definition label_eqb (m o : list Z) : bool :=
  if has_escape m then true else zlist_eqb m o.

Fixpoint oitem_eqb (a b : oitem) : bool :=
  match a, b with
  | OAttr n1 v1, OAttr n2 v2 => zlist_eqb n1 n2 && list_eqb (list_eqb sig_eqb) v1 v2
  | OBlock t1 l1 i1, OBlock t2 l2 i2 =>
      zlist_eqb t1 t2 && list_eqb label_eqb l1 l2 &&
      (fix go (x y : list oitem) : bool :=
         match x, y with
         | [], [] => true
         | p :: r1, q :: r2 => oitem_eqb p q && go r1 r2
         | _, _ => false
         end) i1 i2
  | _, _ => false
  end.

(* observed behaviour of hclwrite.ParseConfig on the source *)
Inductive obs :=
| ObsNil                                   (* diagnostics with errors, nil file *)
| ObsPanic
| ObsOk (flat : list (Z * string * Z))     (* VerifFileTokens: type, bytes, SpacesBefore *)
        (sh : shape) (acc : list oitem) (file_bytes_hex : string).

Record case := mkCase { c_toks : list ltok; c_ast : option nfile; c_obs : obs }.

Definition tok3 (t : tok) : Z * list Z * Z := (ty t, bytes t, sp t).
Definition tok3_eqb (a b : Z * list Z * Z) : bool :=
  (fst (fst a) =? fst (fst b)) && zlist_eqb (snd (fst a)) (snd (fst b)) && (snd a =? snd b).
Definition toks3_eqb := list_eqb tok3_eqb.

Definition check_load_case (c : case) : bool :=
  match c_ast c, c_obs c with
  | None, ObsNil => true
  | Some f, ObsPanic =>
      match load (c_toks c) f with
      | Panic _ => negb (ranges_wf (c_toks c) f)
      | Ok _ => false
      end
  | Some f, ObsOk flat sh acc fb =>
      match load (c_toks c) f with
      | Panic _ => false
      | Ok tree =>
          let oflat := map (fun p => (fst (fst p), unhex (snd (fst p)), snd p)) flat in
          let mflat := map tok3 (build_tokens tree) in
          toks3_eqb mflat oflat
          && shape_eqb (shape_of tree) sh
          && list_eqb oitem_eqb (tree_obs tree) acc
          && zlist_eqb (file_bytes tree) (unhex fb)
          (* ranges_wf holds exactly when the real loader lost nothing *)
          && Bool.eqb (ranges_wf (c_toks c) f) (toks3_eqb oflat (map tok3 (tokens (c_toks c))))
          (* the label shape assumed by accessors_complete holds for every error-free parse *)
          && file_labels_ok (c_toks c) f
      end
  | _, _ => false
  end.

Definition check_load_cases (cs : list case) : list Z := failing check_load_case cs.

(* diagnostic helper for a failing case: which component disagrees
   (1 flat, 2 shape, 3 accessors, 4 bytes, 5 wf-vs-loss, 6 outcome class, 7 label shape) *)
Definition explain_load_case (c : case) : list Z :=
  match c_ast c, c_obs c with
  | None, ObsNil => []
  | Some f, ObsOk flat sh acc fb =>
      match load (c_toks c) f with
      | Panic _ => [6]
      | Ok tree =>
          let oflat := map (fun p => (fst (fst p), unhex (snd (fst p)), snd p)) flat in
          (if toks3_eqb (map tok3 (build_tokens tree)) oflat then [] else [1])
          ++ (if shape_eqb (shape_of tree) sh then [] else [2])
          ++ (if list_eqb oitem_eqb (tree_obs tree) acc then [] else [3])
          ++ (if zlist_eqb (file_bytes tree) (unhex fb) then [] else [4])
          ++ (if Bool.eqb (ranges_wf (c_toks c) f) (toks3_eqb oflat (map tok3 (tokens (c_toks c)))) then [] else [5])
          ++ (if file_labels_ok (c_toks c) f then [] else [7])
      end
  | Some f, ObsPanic =>
      match load (c_toks c) f with Panic _ => if ranges_wf (c_toks c) f then [5] else [] | Ok _ => [6] end
  | _, _ => [6]
  end.
