(* Write/TreeSpecProofs.v — theorems about the abstract specification TreeSpec.v
   (no trees here): the frame property of every edit ("items not named by the
   operation keep their tokens and comments") and the shape property ("the
   serialised file stays in the body grammar").  TreeProofs.v transfers them to
   the tree model through refines_spec and tokens_are_ser. *)
From HclV Require Import Base.Prelude Gen.TokenTypes Write.Format Write.Tree Write.TreeSpec.

(* ======================================================================== *)
(* Frame                                                                    *)
(* ======================================================================== *)

(* the named item itself keeps its comments and surrounding tokens *)
Definition decor_eq (x x' : aitem) : Prop :=
  match x, x' with
  | AAttr l n m e t, AAttr l' n' m' e' t' => l = l' /\ m = m' /\ t = t' /\ (n = n' \/ e = e')
  | ABlock l ty ls m b t, ABlock l' ty' ls' m' b' t' => l = l' /\ m = m' /\ b = b' /\ t = t'
  | _, _ => False
  end.

Definition same_decor (xs xs' : afile) : Prop :=
  match xs, xs' with [x], [x'] => decor_eq x x' | _, _ => True end.

(* at most one item of the body is replaced, removed or added; all other items
   are the same, in the same order *)
Definition small_edit (a a' : afile) : Prop :=
  exists l1 xs xs' l2,
    a = l1 ++ xs ++ l2 /\ a' = l1 ++ xs' ++ l2 /\
    (length xs <= 1)%nat /\ (length xs' <= 1)%nat /\ same_decor xs xs'.

Definition count_blocks (a : afile) : nat := length (a_blocks a).

(* a' is a with the body at path p changed according to R, and NOTHING else:
   siblings along the path and the enclosing blocks' own tokens are identical *)
Inductive edits_at (R : afile -> afile -> Prop) : list Z -> afile -> afile -> Prop :=
| ea_here a a' : R a a' -> edits_at R [] a a'
| ea_in i p l1 l2 lead ty ls mid bd bd' trail :
    0 <= i -> count_blocks l1 = Z.to_nat i ->
    edits_at R p bd bd' ->
    edits_at R (i :: p) (l1 ++ ABlock lead ty ls mid bd trail :: l2)
                        (l1 ++ ABlock lead ty ls mid bd' trail :: l2).

Lemma small_edit_refl a : small_edit a a.
Proof. exists a, [], [], []. simpl. rewrite !app_nil_r. repeat split; auto. Qed.

Lemma small_edit_append a x : small_edit a (a ++ [x]).
Proof. exists a, [], [x], []. simpl. rewrite !app_nil_r. repeat split; auto. Qed.

Lemma upd_first_split p g a :
  upd_first p g a = a \/
  exists l1 x l2, a = l1 ++ x :: l2 /\ p x = true /\ upd_first p g a = l1 ++ g x :: l2.
Proof.
  induction a as [|y r IH]; simpl; [left; reflexivity|].
  destruct (p y) eqn:E.
  - right. exists [], y, r. auto.
  - destruct IH as [IH|(l1 & x & l2 & E1 & Px & E2)].
    + left. rewrite IH. reflexivity.
    + right. exists (y :: l1), x, l2. subst. simpl. rewrite E2. auto.
Qed.

Lemma remove_first_split p a :
  remove_first p a = a \/
  exists l1 x l2, a = l1 ++ x :: l2 /\ p x = true /\ remove_first p a = l1 ++ l2.
Proof.
  induction a as [|y r IH]; simpl; [left; reflexivity|].
  destruct (p y) eqn:E.
  - right. exists [], y, r. auto.
  - destruct IH as [IH|(l1 & x & l2 & E1 & Px & E2)].
    + left. rewrite IH. reflexivity.
    + right. exists (y :: l1), x, l2. subst. simpl. rewrite E2. auto.
Qed.

Lemma upd_nth_split p g n a :
  upd_nth p n g a = a \/
  exists l1 x l2, a = l1 ++ x :: l2 /\ p x = true /\ length (filter p l1) = n /\
                  upd_nth p n g a = l1 ++ g x :: l2.
Proof.
  revert n. induction a as [|y r IH]; intros n; simpl; [left; reflexivity|].
  destruct (p y) eqn:E.
  - destruct n as [|n'].
    + right. exists [], y, r. auto.
    + destruct (IH n') as [IH'|(l1 & x & l2 & E1 & Px & L & E2)].
      * left. rewrite IH'. reflexivity.
      * right. exists (y :: l1), x, l2. subst. simpl. rewrite E, E2. simpl. auto.
  - destruct (IH n) as [IH'|(l1 & x & l2 & E1 & Px & L & E2)].
    + left. rewrite IH'. reflexivity.
    + right. exists (y :: l1), x, l2. subst. simpl. rewrite E, E2. auto.
Qed.

Lemma remove_nth_p_split p n a :
  remove_nth_p p n a = a \/
  exists l1 x l2, a = l1 ++ x :: l2 /\ p x = true /\ remove_nth_p p n a = l1 ++ l2.
Proof.
  revert n. induction a as [|y r IH]; intros n; simpl; [left; reflexivity|].
  destruct (p y) eqn:E.
  - destruct n as [|n'].
    + right. exists [], y, r. auto.
    + destruct (IH n') as [IH'|(l1 & x & l2 & E1 & Px & E2)].
      * left. rewrite IH'. reflexivity.
      * right. exists (y :: l1), x, l2. subst. simpl. rewrite E2. auto.
  - destruct (IH n) as [IH'|(l1 & x & l2 & E1 & Px & E2)].
    + left. rewrite IH'. reflexivity.
    + right. exists (y :: l1), x, l2. subst. simpl. rewrite E2. auto.
Qed.

Lemma small_edit_replace l1 x x' l2 : decor_eq x x' -> small_edit (l1 ++ x :: l2) (l1 ++ x' :: l2).
Proof. intros D. exists l1, [x], [x'], l2. simpl. repeat split; auto. Qed.

Lemma small_edit_remove l1 x l2 : small_edit (l1 ++ x :: l2) (l1 ++ l2).
Proof. exists l1, [x], [], l2. simpl. repeat split; auto. Qed.

Lemma set_attr_small nm e a : small_edit a (spec_set_attr nm e a).
Proof.
  unfold spec_set_attr. destruct (spec_has_attr nm a); [|apply small_edit_append].
  destruct (upd_first_split (a_is_attr nm) (set_expr e) a) as [E|(l1 & x & l2 & E1 & Px & E2)].
  - rewrite E. apply small_edit_refl.
  - rewrite E2, E1. apply small_edit_replace.
    destruct x; simpl in Px; try discriminate. simpl. auto.
Qed.

Lemma rename_attr_small f t a : small_edit a (spec_rename_attr f t a).
Proof.
  unfold spec_rename_attr. destruct (spec_has_attr f a && negb (spec_has_attr t a)); [|apply small_edit_refl].
  destruct (upd_first_split (a_is_attr f) (set_name t) a) as [E|(l1 & x & l2 & E1 & Px & E2)].
  - rewrite E. apply small_edit_refl.
  - rewrite E2, E1. apply small_edit_replace.
    destruct x; simpl in Px; try discriminate. simpl. auto.
Qed.

Lemma remove_attr_small nm a : small_edit a (spec_remove_attr nm a).
Proof.
  unfold spec_remove_attr.
  destruct (remove_first_split (a_is_attr nm) a) as [E|(l1 & x & l2 & E1 & Px & E2)].
  - rewrite E. apply small_edit_refl.
  - rewrite E2, E1. apply small_edit_remove.
Qed.

Lemma guard_small i g a : (forall a, small_edit a (g a)) -> small_edit a (guardZ i g a).
Proof. intros H. unfold guardZ. destruct (i <? 0); [apply small_edit_refl|apply H]. Qed.

Lemma remove_block_small n a : small_edit a (remove_nth_p a_is_block n a).
Proof.
  destruct (remove_nth_p_split a_is_block n a) as [E|(l1 & x & l2 & E1 & Px & E2)].
  - rewrite E. apply small_edit_refl.
  - rewrite E2, E1. apply small_edit_remove.
Qed.

Lemma upd_block_small n g a :
  (forall x, a_is_block x = true -> decor_eq x (g x)) -> small_edit a (upd_nth a_is_block n g a).
Proof.
  intros Hg.
  destruct (upd_nth_split a_is_block g n a) as [E|(l1 & x & l2 & E1 & Px & _ & E2)].
  - rewrite E. apply small_edit_refl.
  - rewrite E2, E1. apply small_edit_replace. apply Hg. exact Px.
Qed.

(* lifting along a path: either nothing changed or exactly the addressed body did *)
Lemma spec_with_body_frame (R : afile -> afile -> Prop) f :
  (forall a, R a (f a)) ->
  forall p a, spec_with_body p f a = a \/ edits_at R p a (spec_with_body p f a).
Proof.
  intros Hf p. induction p as [|i p' IH]; intros a.
  - right. constructor. apply Hf.
  - cbn [spec_with_body]. unfold guardZ. destruct (i <? 0) eqn:Neg; [left; reflexivity|].
    destruct (upd_nth_split a_is_block (map_body (spec_with_body p' f)) (Z.to_nat i) a)
      as [E|(l1 & x & l2 & E1 & Px & L & E2)].
    + left. exact E.
    + destruct x as [| lead ty ls mid bd trail |]; simpl in Px; try discriminate.
      rewrite E2, E1. cbn [map_body].
      destruct (IH bd) as [E|E].
      * left. rewrite E. reflexivity.
      * right. constructor; [apply Z.ltb_ge in Neg; exact Neg|exact L|exact E].
Qed.

(* what each operation may do to the body it addresses *)
Definition op_path (o : op) : list Z :=
  match o with
  | OSetAttr p _ _ | ORenameAttr p _ _ | ORemoveAttr p _ | OAppendNewBlock p _ _
  | ORemoveBlock p _ | OAppendBlock p _ | OSetType p _ _ | OSetLabels p _ _
  | OAppendRaw p _ | OClear p => p
  end.
Definition local_rel (o : op) (a a' : afile) : Prop :=
  match o with OClear _ => a' = [] | _ => small_edit a a' end.

(* untouched_preserved, on the specification, for EVERY operation: outside the
   addressed body nothing changes at all (file prefix/suffix, siblings, enclosing
   blocks' own tokens); inside it at most one item is replaced/removed/added
   (Clear: all are removed), the others are identical and in the same order;
   a replaced item keeps its comments and its other tokens *)
Theorem spec_frame o s :
  a_pre (spec_step o s) = a_pre s /\ a_post (spec_step o s) = a_post s /\
  (a_root (spec_step o s) = a_root s \/
   edits_at (local_rel o) (op_path o) (a_root s) (a_root (spec_step o s))).
Proof.
  destruct o as [p nm e|p n1 n2|p nm|p ty ls|p i|p n|p i ty|p i ls|p ts|p];
    cbn [spec_step op_path local_rel].
  - split; [reflexivity|]. split; [reflexivity|]. apply spec_with_body_frame. apply set_attr_small.
  - split; [reflexivity|]. split; [reflexivity|]. apply spec_with_body_frame. apply rename_attr_small.
  - split; [reflexivity|]. split; [reflexivity|]. apply spec_with_body_frame. apply remove_attr_small.
  - split; [reflexivity|]. split; [reflexivity|]. apply spec_with_body_frame. intros a0. apply small_edit_append.
  - destruct (spec_body_at p (a_root s)) as [bb|]; [|auto].
    destruct (nthZ (a_blocks bb) i); [|auto].
    split; [reflexivity|]. split; [reflexivity|]. apply spec_with_body_frame.
    intros a0. apply guard_small. intros a1. apply remove_block_small.
  - destruct (spec_body_at p (a_root s)); [|auto].
    destruct (nthZ (a_shelf s) n); [|auto].
    split; [reflexivity|]. split; [reflexivity|]. apply spec_with_body_frame. intros a0. apply small_edit_append.
  - split; [reflexivity|]. split; [reflexivity|]. apply spec_with_body_frame.
    intros a0. apply guard_small. intros a1. apply upd_block_small.
    intros x Px. destruct x; simpl in Px; try discriminate. simpl. auto.
  - split; [reflexivity|]. split; [reflexivity|]. apply spec_with_body_frame.
    intros a0. apply guard_small. intros a1. apply upd_block_small.
    intros x Px. destruct x; simpl in Px; try discriminate. simpl. auto.
  - split; [reflexivity|]. split; [reflexivity|]. apply spec_with_body_frame. intros a0. apply small_edit_append.
  - split; [reflexivity|]. split; [reflexivity|]. apply spec_with_body_frame. reflexivity.
Qed.

(* token level: the serialisation outside the addressed body is unchanged *)
Lemma ser_app a b : ser (a ++ b) = ser a ++ ser b.
Proof. unfold ser. apply flat_map_app. Qed.

Lemma ser_block_item l t ls m bd tr :
  ser_item (ABlock l t ls m bd tr) = l ++ t :: flat_map alabel_tokens ls ++ m ++ ser bd ++ tr.
Proof. reflexivity. Qed.

Lemma ser_mid l1 x l2 : ser (l1 ++ x :: l2) = ser l1 ++ ser_item x ++ ser l2.
Proof. rewrite ser_app. reflexivity. Qed.

Theorem edits_at_tokens R p a a' :
  edits_at R p a a' ->
  exists pre post b b', R b b' /\ ser a = pre ++ ser b ++ post /\ ser a' = pre ++ ser b' ++ post.
Proof.
  induction 1 as [a a' HR|i p l1 l2 lead ty ls mid bd bd' trail Hi Hc He IH].
  - exists [], [], a, a'. rewrite !app_nil_r. auto.
  - destruct IH as (pre & post & b & b' & HR & E1 & E2).
    exists (ser l1 ++ lead ++ ty :: flat_map alabel_tokens ls ++ mid ++ pre),
           (post ++ trail ++ ser l2), b, b'.
    split; [exact HR|].
    rewrite !ser_mid, !ser_block_item, E1, E2.
    split; repeat (rewrite <- app_assoc || rewrite <- app_comm_cons); reflexivity.
Qed.

(* ======================================================================== *)
(* Shape                                                                    *)
(* ======================================================================== *)
Section Shape.
Variable ExprOK : list tok -> Prop.    (* what the caller promises about expression tokens *)

Definition is_comment (t : tok) : Prop := ty t = TokenComment.
(* optional inline comments, then the token that ends the line *)
Definition line_end (ts : list tok) : Prop :=
  exists cs t, ts = cs ++ [t] /\ Forall is_comment cs /\ tok_is_newline t = true.
Definition mid_ok (ts : list tok) : Prop :=
  exists c1 q c2, ts = c1 ++ q :: c2 /\ ty q = TokenEqual /\ Forall is_comment c1 /\ Forall is_comment c2.
Definition open_ok (ts : list tok) : Prop :=
  exists o rest, ts = o :: rest /\ ty o = TokenOBrace /\ line_end rest.
Definition close_ok (ts : list tok) : Prop :=
  exists c rest, ts = c :: rest /\ ty c = TokenCBrace /\ line_end rest.
(* blank lines and whole-line comments *)
Definition blank (ts : list tok) : Prop :=
  ts = [] \/ (Forall (fun t => ty t = TokenNewline \/ ty t = TokenComment) ts /\
              exists r t, ts = r ++ [t] /\ tok_is_newline t = true).
Definition quoted_ok (ts : list tok) : Prop :=
  exists o m c, ts = o :: m ++ [c] /\ ty o = TokenOQuote /\ ty c = TokenCQuote.
Definition label_ok (l : alabel) : Prop :=
  match l with
  | ALIdent t => ty t = TokenIdent
  | ALQuoted ts => quoted_ok ts
  | ALRaw _ => False
  end.

Inductive shaped : aitem -> Prop :=
| sh_attr lead n mid e trail :
    Forall is_comment lead -> ty n = TokenIdent -> mid_ok mid -> ExprOK e -> line_end trail ->
    shaped (AAttr lead n mid e trail)
| sh_block lead t ls mid bd trail :
    Forall is_comment lead -> ty t = TokenIdent -> Forall label_ok ls -> open_ok mid ->
    Forall shaped bd -> close_ok trail ->
    shaped (ABlock lead t ls mid bd trail)
| sh_raw ts : blank ts -> shaped (ARaw ts).

(* the token grammar of a body, stated on token lists alone:
     body  = item*
     item  = blank-lines | comment* IDENT comment* '=' comment* EXPR comment* EOL
           | comment* IDENT label* '{' comment* EOL body '}' comment* EOL *)
Inductive GBody : list tok -> Prop :=
| GB_nil : GBody []
| GB_cons ts rest : GItem ts -> GBody rest -> GBody (ts ++ rest)
with GItem : list tok -> Prop :=
| GI_blank ts : blank ts -> GItem ts
| GI_attr lead n mid e trail :
    Forall is_comment lead -> ty n = TokenIdent -> mid_ok mid -> ExprOK e -> line_end trail ->
    GItem (lead ++ n :: mid ++ e ++ trail)
| GI_block lead t lss mid inner trail :
    Forall is_comment lead -> ty t = TokenIdent ->
    Forall (fun l => (exists x, l = [x] /\ ty x = TokenIdent) \/ quoted_ok l) lss ->
    open_ok mid -> GBody inner -> close_ok trail ->
    GItem (lead ++ t :: concat lss ++ mid ++ inner ++ trail).

Lemma labels_concat ls :
  Forall label_ok ls ->
  exists lss, flat_map alabel_tokens ls = concat lss /\
              Forall (fun l => (exists x, l = [x] /\ ty x = TokenIdent) \/ quoted_ok l) lss.
Proof.
  induction 1 as [|l r Hl _ IH].
  - exists []. split; [reflexivity|constructor].
  - destruct IH as (lss & E & F). exists (alabel_tokens l :: lss). split.
    + simpl. rewrite E. reflexivity.
    + constructor; [|exact F]. destruct l; simpl in *; [left; eauto|right; exact Hl|contradiction].
Qed.

(* well-founded induction over nested items *)
Fixpoint size_item (x : aitem) : nat :=
  match x with
  | ABlock _ _ _ _ bd _ => S ((fix go (l : afile) : nat := match l with [] => O | y :: r => (size_item y + go r)%nat end) bd)
  | _ => 1
  end.
Definition size_file (a : afile) : nat := fold_right (fun y n => size_item y + n)%nat O a.

Lemma size_item_block l t ls m bd tr : size_item (ABlock l t ls m bd tr) = S (size_file bd).
Proof. reflexivity. Qed.

Lemma shaped_grammar : forall n a, (size_file a < n)%nat -> Forall shaped a -> GBody (ser a).
Proof.
  induction n as [|n IHn]; intros a Sz F; [lia|].
  induction F as [|x r Hx Hr IH]; [constructor|].
  change (ser (x :: r)) with (ser_item x ++ ser r).
  cbn [size_file fold_right] in Sz. fold (size_file r) in Sz.
  constructor; [|apply IH; lia].
  destruct Hx as [lead nm mid e trail H1 H2 H3 H4 H5|lead t ls mid bd trail H1 H2 H3 H4 H5 H6|ts H].
  - apply GI_attr; assumption.
  - rewrite ser_block_item. destruct (labels_concat ls H3) as (lss & E & Fl). rewrite E.
    apply GI_block; try assumption. apply IHn; [|exact H5].
    rewrite size_item_block in Sz. lia.
  - apply GI_blank. exact H.
Qed.

Theorem shaped_in_grammar a : Forall shaped a -> GBody (ser a).
Proof. apply (shaped_grammar (S (size_file a))). lia. Qed.

(* ---- every edit keeps the file shaped ----------------------------------------- *)
Definition op_ok (o : op) : Prop :=
  match o with
  | OSetAttr _ _ e => ExprOK e
  | OAppendNewBlock _ _ ls | OSetLabels _ _ ls => Forall quoted_ok ls
  | OAppendRaw _ ts => blank ts
  | _ => True
  end.

Lemma line_end_nl : line_end [tok_nl].
Proof. exists [], tok_nl. repeat split; constructor. Qed.

Lemma shaped_new_attr nm e : ExprOK e -> shaped (new_aattr nm e).
Proof.
  intros H. constructor; try assumption; try reflexivity; try constructor.
  - exists [], tok_eq, []. repeat split; constructor.
  - apply line_end_nl.
Qed.

Lemma shaped_new_block ty ls : Forall quoted_ok ls -> shaped (new_ablock ty ls).
Proof.
  intros H. constructor; try reflexivity; try constructor.
  - induction H; constructor; assumption.
  - exists tok_ob, [tok_nl]. repeat split. apply line_end_nl.
  - exists tok_cb, [tok_nl]. repeat split. apply line_end_nl.
Qed.

Lemma Forall_upd_first (P : aitem -> Prop) p g a :
  (forall x, P x -> p x = true -> P (g x)) -> Forall P a -> Forall P (upd_first p g a).
Proof.
  intros Hg F. induction F as [|x r Hx Hr IH]; simpl; [constructor|].
  destruct (p x) eqn:E; constructor; auto.
Qed.
Lemma Forall_remove_first (P : aitem -> Prop) p a : Forall P a -> Forall P (remove_first p a).
Proof.
  intros F. induction F as [|x r Hx Hr IH]; simpl; [constructor|].
  destruct (p x); [assumption|constructor; assumption].
Qed.
Lemma Forall_upd_nth (P : aitem -> Prop) p g n a :
  (forall x, P x -> p x = true -> P (g x)) -> Forall P a -> Forall P (upd_nth p n g a).
Proof.
  intros Hg F. revert n. induction F as [|x r Hx Hr IH]; intros n; simpl; [constructor|].
  destruct (p x) eqn:E; [destruct n|]; constructor; auto.
Qed.
Lemma Forall_remove_nth_p (P : aitem -> Prop) p n a : Forall P a -> Forall P (remove_nth_p p n a).
Proof.
  intros F. revert n. induction F as [|x r Hx Hr IH]; intros n; simpl; [constructor|].
  destruct (p x); [destruct n|]; try assumption; constructor; auto.
Qed.

Lemma shaped_with_body f :
  (forall a, Forall shaped a -> Forall shaped (f a)) ->
  forall p a, Forall shaped a -> Forall shaped (spec_with_body p f a).
Proof.
  intros Hf p. induction p as [|i p' IH]; intros a F; [apply Hf; exact F|].
  cbn [spec_with_body]. unfold guardZ. destruct (i <? 0); [exact F|].
  apply Forall_upd_nth; [|exact F].
  intros x Hx Px. destruct Hx as [| lead t ls mid bd trail H1 H2 H3 H4 H5 H6 |]; simpl in Px; try discriminate.
  cbn [map_body]. constructor; try assumption. apply IH. exact H5.
Qed.

Lemma Forall_app_one (P : aitem -> Prop) a x : Forall P a -> P x -> Forall P (a ++ [x]).
Proof. intros F H. apply Forall_app. split; [exact F|constructor; [exact H|constructor]]. Qed.

Lemma spec_body_at_shaped p : forall a b,
  Forall shaped a -> spec_body_at p a = Some b -> Forall shaped b.
Proof.
  induction p as [|i p' IH]; intros a b F H; simpl in H; [inversion H; subst; exact F|].
  destruct (nthZ (a_blocks a) i) as [it|] eqn:E; [|discriminate].
  apply (IH (item_body it)); [|exact H].
  unfold nthZ in E. destruct (i <? 0); [discriminate|]. apply nth_error_In in E.
  unfold a_blocks in E. apply filter_In in E. destruct E as [Hin _].
  rewrite Forall_forall in F. specialize (F _ Hin).
  destruct F; simpl; try constructor. assumption.
Qed.

Definition ashaped (s : astate) : Prop := Forall shaped (a_root s) /\ Forall shaped (a_shelf s).

Theorem spec_step_shaped o s : op_ok o -> ashaped s -> ashaped (spec_step o s).
Proof.
  intros Ok [Fr Fs].
  destruct o as [p nm e|p a b|p nm|p ty ls|p i|p n|p i ty|p i ls|p ts|p];
    cbn [spec_step op_ok] in *.
  - split; [|exact Fs]. apply shaped_with_body; [|exact Fr]. intros a F. unfold spec_set_attr.
    destruct (spec_has_attr nm a).
    + apply Forall_upd_first; [|exact F]. intros x Hx Px.
      destruct Hx; simpl in Px; try discriminate. simpl. constructor; assumption.
    + apply Forall_app_one; [exact F|apply shaped_new_attr; exact Ok].
  - split; [|exact Fs]. apply shaped_with_body; [|exact Fr]. intros x F. unfold spec_rename_attr.
    destruct (spec_has_attr a x && negb (spec_has_attr b x)); [|exact F].
    apply Forall_upd_first; [|exact F]. intros y Hy Py.
    destruct Hy; simpl in Py; try discriminate. simpl. constructor; try assumption. reflexivity.
  - split; [|exact Fs]. apply shaped_with_body; [|exact Fr]. intros x F. apply Forall_remove_first. exact F.
  - split; [|exact Fs]. apply shaped_with_body; [|exact Fr]. intros x F.
    apply Forall_app_one; [exact F|apply shaped_new_block; exact Ok].
  - destruct (spec_body_at p (a_root s)) as [b|] eqn:EB; [|split; assumption].
    destruct (nthZ (a_blocks b) i) as [k|] eqn:EN; [|split; assumption].
    split; cbn [a_root a_shelf].
    + apply shaped_with_body; [|exact Fr]. intros x F. unfold guardZ. destruct (i <? 0); [exact F|].
      apply Forall_remove_nth_p. exact F.
    + apply Forall_app_one; [exact Fs|].
      pose proof (spec_body_at_shaped p _ _ Fr EB) as Fb.
      unfold nthZ in EN. destruct (i <? 0); [discriminate|]. apply nth_error_In in EN.
      unfold a_blocks in EN. apply filter_In in EN. destruct EN as [Hin _].
      rewrite Forall_forall in Fb. apply Fb. exact Hin.
  - destruct (spec_body_at p (a_root s)) as [b|]; [|split; assumption].
    destruct (nthZ (a_shelf s) n) as [k|] eqn:EN; [|split; assumption].
    assert (Hk : shaped k).
    { unfold nthZ in EN. destruct (n <? 0); [discriminate|]. apply nth_error_In in EN.
      rewrite Forall_forall in Fs. apply Fs. exact EN. }
    split; cbn [a_root a_shelf].
    + apply shaped_with_body; [|exact Fr]. intros x F. apply Forall_app_one; assumption.
    + clear -Fs. generalize (Z.to_nat n). induction Fs as [|x r Hx Hr IH]; intros [|m]; simpl; try constructor; auto.
  - split; [|exact Fs]. apply shaped_with_body; [|exact Fr]. intros x F. unfold guardZ. destruct (i <? 0); [exact F|].
    apply Forall_upd_nth; [|exact F]. intros y Hy Py.
    destruct Hy; simpl in Py; try discriminate. simpl. constructor; try assumption. reflexivity.
  - split; [|exact Fs]. apply shaped_with_body; [|exact Fr]. intros x F. unfold guardZ. destruct (i <? 0); [exact F|].
    apply Forall_upd_nth; [|exact F]. intros y Hy Py.
    destruct Hy; simpl in Py; try discriminate. simpl. constructor; try assumption.
    clear -Ok. induction Ok; constructor; assumption.
  - split; [|exact Fs]. apply shaped_with_body; [|exact Fr]. intros x F.
    apply Forall_app_one; [exact F|constructor; exact Ok].
  - split; [|exact Fs]. apply shaped_with_body; [|exact Fr]. intros x F. constructor.
Qed.

Theorem spec_run_shaped ops : forall s, Forall op_ok ops -> ashaped s -> ashaped (spec_run ops s).
Proof.
  induction ops as [|o r IH]; intros s Ok H; [exact H|].
  inversion Ok; subst. unfold spec_run. simpl. apply IH; [assumption|].
  apply spec_step_shaped; assumption.
Qed.
End Shape.
