(* Write/Loader.v — executable model of the hclwrite loader (hclwrite/parser.go,
   native_node_sorter.go) and of the read accessors of the loaded tree
   (ast_body.go Attributes/Blocks, ast_block.go Labels, ast_expression.go
   Variables, ast.go File.WriteTo). Definitions only.

   Inputs of the model:
   (a) the token list as lexed by Go, each token with its byte range
       (inputTokens = nativeTokens + writerTokens, correlated by index);
   (b) the native AST reduced to the RANGES parser.go reads.
   One Gallina function per Go function, same order of checks. Go panics are
   explicit [Panic] outcomes. Token indices are [nat] (positions in the
   structural list, used only with firstn/skipn); byte offsets are [Z].

   Name clash: Write/Format.v already has [flatten] (lines -> tokens); the
   tree flattening (Go: BuildTokens) is called [build_tokens] here. *)
From HclV Require Import Base.Prelude Gen.TokenTypes Write.Format.

(* ---- tokens with ranges, ranges ---------------------------------------- *)
Record ltok := mkL { lt : tok; t_start : Z; t_end : Z }.
Record rng := mkR { r_s : Z; r_e : Z }.
Definition lty (t : ltok) : Z := ty (lt t).
(* inputTokens.Tokens(): the writer tokens of a slice *)
Definition tokens (it : list ltok) : list tok := map lt it.

Inductive panic :=
| PDidntFindToken (ty_ : Z)      (* PartitionType: "didn't find any token of type" *)
| PAttrNameNotOneToken           (* parseAttribute *)
| PBlockTypeNotOneToken          (* parseBlock *)
| PMalformedLineTrailers         (* partitionLineEndTokens *)
| PUnsupportedStep.              (* parseTraversalStep default case *)

Inductive res (A : Type) := Ok (a : A) | Panic (p : panic).
Arguments Ok {A} a.
Arguments Panic {A} p.

(* ---- the native AST reduced to its ranges ------------------------------ *)
(* cty type of a TraverseIndex key, as far as parseTraversalStep looks at it *)
Inductive key_kind := KString | KNumber | KBool | KNull | KOtherKey.
Inductive step_kind :=
| SRoot | SAttr | SIndex (k : key_kind)
| SSplat.   (* hcl.TraverseSplat: never produced by the native parser *)
Record nstep := mkStep { s_kind : step_kind; s_range : rng }.
(* one hcl.Traversal of nativeExpr.Variables(), in that order *)
Definition ntrav := list nstep.
Record nexpr := mkExpr { e_range : rng; e_travs : list ntrav }.

Inductive nitem :=
| NAttr (src name_r eq_r : rng) (e : nexpr)
| NBlock (type_r : rng) (label_rs : list rng) (open_r close_r : rng)
         (body_r : rng) (items : list nitem).
(* body: SrcRange + items in Go's pre-sort order (Attributes, then Blocks) *)
Record nfile := mkFile { f_range : rng; f_items : list nitem }.

(* hclsyntax Attribute.Range() = SrcRange; Block.Range() = RangeBetween(TypeRange, CloseBraceRange) *)
Definition item_range (it : nitem) : rng :=
  match it with
  | NAttr src _ _ _ => src
  | NBlock type_r _ _ close_r _ _ => mkR (r_s type_r) (r_e close_r)
  end.

(* hcl.Traversal.SourceRange *)
Definition trav_range (t : ntrav) : rng :=
  match t with
  | [] => mkR 0 0
  | s :: _ => mkR (r_s (s_range s)) (r_e (s_range (last t s)))
  end.

(* native_node_sorter.go: sort.Sort by Range().Start.Byte. Modelled by an
   insertion sort; hoisted out of the descent (all bodies are sorted first,
   then [load_sorted] walks them in list order) so that the loader is a
   structural recursion. *)
Fixpoint insert_item (x : nitem) (l : list nitem) : list nitem :=
  match l with
  | [] => [x]
  | y :: r => if r_s (item_range x) <? r_s (item_range y) then x :: l else y :: insert_item x r
  end.
Definition sort_items (l : list nitem) : list nitem := fold_right insert_item [] l.
Fixpoint sort_native (it : nitem) : nitem :=
  match it with
  | NBlock t ls o c b items => NBlock t ls o c b (sort_items (map sort_native items))
  | a => a
  end.
Definition sort_file (f : nfile) : nfile :=
  {| f_range := f_range f; f_items := sort_items (map sort_native (f_items f)) |}.

(* ---- the loaded tree ---------------------------------------------------- *)
Inductive kind := KFile | KBody | KAttribute | KBlock | KLabels | KExpression
                | KTraversal | KTraverseName | KTraverseIndex.
Inductive leaf := LTokens | LComments | LIdentifier | LNumber | LQuoted.
Inductive node := Leaf (k : leaf) (ts : list tok) | Inner (k : kind) (cs : list node).

(* BuildTokens *)
Fixpoint build_tokens (n : node) : list tok :=
  match n with
  | Leaf _ ts => ts
  | Inner _ cs => concat (map build_tokens cs)
  end.
Definition flat (cs : list node) : list tok := concat (map build_tokens cs).

(* nodes.AppendUnstructuredTokens: no node for an empty slice *)
Definition raw (it : list ltok) : list node :=
  match it with [] => [] | _ => [Leaf LTokens (tokens it)] end.

(* ---- partitionTokens and the inputTokens methods ------------------------ *)
(* one loop of partitionTokens: number of leading tokens with start < b *)
Fixpoint count_before (b : Z) (toks : list ltok) : nat :=
  match toks with
  | [] => O
  | t :: r => if b <=? t_start t then O else S (count_before b r)
  end.
Definition partition_tokens (toks : list ltok) (r : rng) : nat * nat :=
  let start := count_before (r_s r) toks in
  (start, (start + count_before (r_e r) (skipn start toks))%nat).

(* inputTokens.Slice (the indices computed below are always in range) *)
Definition slice {A} (l : list A) (s e : nat) : list A := firstn (e - s) (skipn s l).

Definition partition (it : list ltok) (r : rng) : list ltok * list ltok * list ltok :=
  let '(s, e) := partition_tokens it r in
  (slice it 0 s, slice it s e, slice it e (length it)).

(* PartitionType / PartitionTypeOk / PartitionTypeSingle: first token of the
   type; None = "didn't find any token" (the Len() != 1 panic of
   PartitionTypeSingle is unreachable: within = Slice(i, i+1)). *)
Fixpoint partition_type (ty_ : Z) (it : list ltok) : option (list ltok * ltok * list ltok) :=
  match it with
  | [] => None
  | t :: r =>
      if is (lty t) ty_ then Some ([], t, r)
      else match partition_type ty_ r with
           | Some (b, w, a) => Some (t :: b, w, a)
           | None => None
           end
  end.

(* partitionLeadCommentTokens: walk backwards while tokens are comments *)
Fixpoint count_comments (l : list ltok) : nat :=
  match l with
  | t :: r => if is (lty t) TokenComment then S (count_comments r) else O
  | [] => O
  end.
Definition partition_lead_comment_tokens (toks : list ltok) : nat :=
  (length toks - count_comments (rev toks))%nat.

(* partitionLineEndTokens: (afterComment, afterNewline) *)
Fixpoint partition_line_end_tokens (toks : list ltok) : res (nat * nat) :=
  match toks with
  | [] => Ok (O, O)
  | t :: r =>
      if negb (is (lty t) TokenComment) then
        if is (lty t) TokenNewline then Ok (O, 1%nat)
        else if is (lty t) TokenEOF then Ok (O, O)
        else Panic PMalformedLineTrailers
      else if ends_nl (bytes (lt t)) then Ok (1%nat, 1%nat)
      else match partition_line_end_tokens r with
           | Ok (a, b) => Ok (S a, S b)
           | Panic p => Panic p
           end
  end.

Definition partition_lead_comments (it : list ltok) : list ltok * list ltok :=
  let s := partition_lead_comment_tokens it in (slice it 0 s, slice it s (length it)).

Definition partition_line_end (it : list ltok) : res (list ltok * list ltok * list ltok) :=
  match partition_line_end_tokens it with
  | Panic p => Panic p
  | Ok (ac, an) => Ok (slice it 0 ac, slice it ac an, slice it an (length it))
  end.

Definition partition_including_comments (it : list ltok) (r : rng)
  : res (list ltok * list ltok * list ltok) :=
  let '(s, e) := partition_tokens it r in
  let s' := partition_lead_comment_tokens (firstn s it) in
  match partition_line_end_tokens (skipn e it) with
  | Panic p => Panic p
  | Ok (_, an) =>
      let e' := (e + an)%nat in
      Ok (slice it 0 s', slice it s' e', slice it e' (length it))
  end.

(* before, leadComments, within, lineComments, newline, after *)
Definition partition_block_item (it : list ltok) (r : rng)
  : res (list ltok * list ltok * list ltok * list ltok * list ltok * list ltok) :=
  let '(before, within, after) := partition it r in
  let '(before', lead) := partition_lead_comments before in
  match partition_line_end after with
  | Panic p => Panic p
  | Ok (linec, nl, after') => Ok (before', lead, within, linec, nl, after')
  end.

(* ---- parseTraversalStep / parseTraversal / parseExpression -------------- *)
Definition parse_traversal_step (s : nstep) (from : list ltok)
  : res (list ltok * node * list ltok) :=
  match s_kind s with
  | SRoot | SAttr =>
      let '(before, within, after) := partition from (s_range s) in
      match partition_type TokenIdent within with
      | None => Panic (PDidntFindToken TokenIdent)
      | Some (in_before, t, in_after) =>
          Ok (before,
              Inner KTraverseName (raw in_before ++ [Leaf LIdentifier [lt t]] ++ raw in_after),
              after)
      end
  | SIndex k =>
      let '(before, within, after) := partition from (s_range s) in
      match partition_type TokenDot within with
      | Some (in_before, dot, rest) =>
          (* legacy index  .0 *)
          match partition_type TokenNumberLit rest with
          | None => Panic (PDidntFindToken TokenNumberLit)
          | Some (vb, v, va) =>
              Ok (before,
                  Inner KTraverseIndex (raw in_before ++ raw [dot] ++ raw vb
                                        ++ [Leaf LNumber [lt v]] ++ raw va),
                  after)
          end
      | None =>
          match partition_type TokenOBrack within with
          | None => Panic (PDidntFindToken TokenOBrack)
          | Some (in_before, ob, rest) =>
              match partition_type TokenCBrack rest with
              | None => Panic (PDidntFindToken TokenCBrack)
              | Some (key_toks, cb, rest2) =>
                  let key_nodes : res (list node) :=
                    match k with
                    | KString => Ok [Leaf LQuoted (tokens key_toks)]
                    | KNumber =>
                        match partition_type TokenNumberLit key_toks with
                        | None => Panic (PDidntFindToken TokenNumberLit)
                        | Some (vb, v, va) => Ok (raw vb ++ [Leaf LNumber [lt v]] ++ raw va)
                        end
                    | _ => Ok (raw key_toks)   (* default: other literal keys (true/false/null) *)
                    end in
                  match key_nodes with
                  | Panic p => Panic p
                  | Ok kn =>
                      Ok (before,
                          Inner KTraverseIndex (raw in_before ++ raw [ob] ++ kn
                                                ++ raw [cb] ++ raw rest2),
                          after)
                  end
              end
          end
      end
  | SSplat => Panic PUnsupportedStep
  end.

(* the loop of parseTraversal; returns the children and the final stepAfter *)
Fixpoint parse_steps (steps : list nstep) (step_after : list ltok)
  : res (list node * list ltok) :=
  match steps with
  | [] => Ok ([], step_after)
  | s :: r =>
      match parse_traversal_step s step_after with
      | Panic p => Panic p
      | Ok (before, n, after) =>
          match parse_steps r after with
          | Panic p => Panic p
          | Ok (cs, rest) => Ok (raw before ++ [n] ++ cs, rest)
          end
      end
  end.

Definition parse_traversal (t : ntrav) (from : list ltok)
  : res (list ltok * node * list ltok) :=
  let '(before, within, after) := partition from (trav_range t) in
  match parse_steps t within with
  | Panic p => Panic p
  | Ok (cs, _step_after_is_dropped) => Ok (before, Inner KTraversal cs, after)
  end.

Fixpoint parse_travs (ts : list ntrav) (from : list ltok) : res (list node) :=
  match ts with
  | [] => Ok (raw from)
  | t :: r =>
      match parse_traversal t from with
      | Panic p => Panic p
      | Ok (before, n, after) =>
          match parse_travs r after with
          | Panic p => Panic p
          | Ok cs => Ok (raw before ++ [n] ++ cs)
          end
      end
  end.

Definition parse_expression (e : nexpr) (from : list ltok) : res node :=
  match parse_travs (e_travs e) from with
  | Panic p => Panic p
  | Ok cs => Ok (Inner KExpression cs)
  end.

(* ---- parseAttribute ------------------------------------------------------ *)
Definition parse_attribute (name_r eq_r : rng) (e : nexpr)
           (from lead linec nl : list ltok) : res node :=
  let '(before, name_toks, from1) := partition from name_r in
  match name_toks with
  | [t] =>
      let '(before2, eq_toks, from2) := partition from1 eq_r in
      let '(before3, expr_toks, from3) := partition from2 (e_range e) in
      match parse_expression e expr_toks with
      | Panic p => Panic p
      | Ok en =>
          Ok (Inner KAttribute
                ([Leaf LComments (tokens lead)] ++ raw before ++ [Leaf LIdentifier [lt t]]
                 ++ raw before2 ++ raw eq_toks ++ raw before3 ++ [en]
                 ++ [Leaf LComments (tokens linec)] ++ raw nl ++ raw from3))
      end
  | _ => Panic PAttrNameNotOneToken
  end.

(* ---- parseBlockLabels ----------------------------------------------------- *)
Definition label_node (ltoks : list ltok) : node :=
  match ltoks with
  | [t] => if is (lty t) TokenIdent then Leaf LIdentifier [lt t] else Leaf LQuoted (tokens ltoks)
  | _ => Leaf LQuoted (tokens ltoks)
  end.

Fixpoint parse_labels_rest (rs : list rng) (from : list ltok) : list node * list ltok :=
  match rs with
  | [] => ([], from)
  | r :: rest =>
      let '(before, ltoks, from') := partition from r in
      let '(cs, after) := parse_labels_rest rest from' in
      (raw before ++ [label_node ltoks] ++ cs, after)
  end.

(* returns (beforeAll, labels node, after); for i = 0 [before] is NOT appended
   to the labels' children but returned as beforeAll (parseBlock appends it to
   the block's children, before the labels node) *)
Definition parse_block_labels (rs : list rng) (from : list ltok)
  : list ltok * node * list ltok :=
  match rs with
  | [] => ([], Inner KLabels [], from)
  | r :: rest =>
      let '(before, ltoks, from') := partition from r in
      let '(cs, after) := parse_labels_rest rest from' in
      (before, Inner KLabels (label_node ltoks :: cs), after)
  end.

(* ---- parseBody / parseBodyItem / parseBlock ------------------------------- *)
Section WithItem.
  Variable parse_item : nitem -> list ltok -> res (list ltok * node * list ltok).

  (* the loop of parseBody over the (already sorted) items *)
  Fixpoint parse_items (items : list nitem) (remain : list ltok) : res (list node) :=
    match items with
    | [] => Ok (raw remain)
    | i :: r =>
        match parse_item i remain with
        | Panic p => Panic p
        | Ok (before_item, n, after_item) =>
            match parse_items r after_item with
            | Panic p => Panic p
            | Ok cs => Ok (raw before_item ++ [n] ++ cs)
            end
        end
    end.

  Definition parse_body_with (body_r : rng) (items : list nitem) (from : list ltok)
    : res (list ltok * node * list ltok) :=
    match partition_including_comments from body_r with
    | Panic p => Panic p
    | Ok (before, within, after) =>
        match parse_items items within with
        | Panic p => Panic p
        | Ok cs => Ok (before, Inner KBody cs, after)
        end
    end.
End WithItem.

Fixpoint parse_body_item (it : nitem) (from : list ltok) {struct it}
  : res (list ltok * node * list ltok) :=
  match partition_block_item from (item_range it) with
  | Panic p => Panic p
  | Ok (before, lead, within, linec, nl, after) =>
      match it with
      | NAttr _ name_r eq_r e =>
          match parse_attribute name_r eq_r e within lead linec nl with
          | Panic p => Panic p
          | Ok n => Ok (before, n, after)
          end
      | NBlock type_r label_rs open_r close_r body_r items =>
          (* parseBlock *)
          let '(before1, type_toks, from1) := partition within type_r in
          match type_toks with
          | [t] =>
              let '(before_labels, labels_node, from2) := parse_block_labels label_rs from1 in
              let '(before2, obrace, from3) := partition from2 open_r in
              let '(body_toks, cbrace, from4) := partition from3 close_r in
              match parse_body_with parse_body_item body_r items body_toks with
              | Panic p => Panic p
              | Ok (bbefore, body, bafter) =>
                  Ok (before,
                      Inner KBlock
                        ([Leaf LComments (tokens lead)] ++ raw before1 ++ [Leaf LIdentifier [lt t]]
                         ++ raw before_labels ++ [labels_node] ++ raw before2 ++ raw obrace
                         ++ raw bbefore ++ [body] ++ raw bafter
                         ++ raw cbrace ++ raw from4 ++ raw linec ++ raw nl),
                      after)
              end
          | _ => Panic PBlockTypeNotOneToken
          end
      end
  end.

Definition parse_body := parse_body_with parse_body_item.

(* parse(): File.children = Tokens(before), body, Tokens(after) — nodes.Append
   creates the two token nodes even when they are empty *)
Definition load_sorted (toks : list ltok) (f : nfile) : res node :=
  match parse_body (f_range f) (f_items f) toks with
  | Panic p => Panic p
  | Ok (before, root, after) =>
      Ok (Inner KFile [Leaf LTokens (tokens before); root; Leaf LTokens (tokens after)])
  end.

Definition load (toks : list ltok) (f : nfile) : res node := load_sorted toks (sort_file f).

(* File.Bytes / File.WriteTo: BuildTokens, format, WriteTo *)
Definition file_bytes (tree : node) : list Z := write (format (build_tokens tree)).

(* ---- read accessors of the tree ------------------------------------------- *)
(* The Go structs keep role pointers (attr.name, block.typeName, body.items,
   labels.items, expr.absTraversals, traversal.steps). In a tree built by the
   loader each role has a node kind of its own among its siblings, so the roles
   are recovered by kind. *)
Definition children (n : node) : list node := match n with Inner _ cs => cs | Leaf _ _ => [] end.
Definition kind_code (k : kind) : Z :=
  match k with KFile => 0 | KBody => 1 | KAttribute => 2 | KBlock => 3 | KLabels => 4
             | KExpression => 5 | KTraversal => 6 | KTraverseName => 7 | KTraverseIndex => 8 end.
Definition leaf_code (k : leaf) : Z :=
  match k with LTokens => 10 | LComments => 11 | LIdentifier => 12 | LNumber => 13 | LQuoted => 14 end.
Definition is_inner (k : kind) (n : node) : bool :=
  match n with Inner k' _ => kind_code k =? kind_code k' | Leaf _ _ => false end.
Definition is_leaf (k : leaf) (n : node) : bool :=
  match n with Leaf k' _ => leaf_code k =? leaf_code k' | Inner _ _ => false end.

(* identifier.token.Bytes of the first identifier child (attr.name, block.typeName) *)
Definition ident_bytes (cs : list node) : list Z :=
  match find (is_leaf LIdentifier) cs with
  | Some (Leaf _ [t]) => bytes t
  | _ => []
  end.
Definition is_step (n : node) : bool := is_inner KTraverseName n || is_inner KTraverseIndex n.
(* Expression.Variables(): the traversal children; for each, its steps' tokens *)
Definition vars_of (cs : list node) : list (list (list tok)) :=
  match find (is_inner KExpression) cs with
  | Some e => map (fun t => map build_tokens (filter is_step (children t)))
                  (filter (is_inner KTraversal) (children e))
  | None => []
  end.
Definition is_label (n : node) : bool := is_leaf LIdentifier n || is_leaf LQuoted n.
Definition labels_of (cs : list node) : list node :=
  match find (is_inner KLabels) cs with
  | Some l => filter is_label (children l)
  | None => []
  end.

(* what Attributes()/Blocks()/Type()/labels/Variables() expose, in tree order *)
Inductive summ :=
| SumAttr (name : list Z) (vars : list (list (list tok)))
| SumBlock (type_ : list Z) (labels : list node) (body : list summ).

Fixpoint summ_of (n : node) : list summ :=
  match n with
  | Leaf _ _ => []
  | Inner k cs =>
      match k with
      | KFile | KBody => concat (map summ_of cs)
      | KAttribute => [SumAttr (ident_bytes cs) (vars_of cs)]
      | KBlock => [SumBlock (ident_bytes cs) (labels_of cs) (concat (map summ_of cs))]
      | _ => []
      end
  end.

(* the tokens between the open quote (already removed) and the final CQuote *)
Fixpoint quoted_body (ts : list tok) : option (list tok) :=
  match ts with
  | [] => None
  | c :: r =>
      match r with
      | [] => if is (ty c) TokenCQuote then Some [] else None
      | _ => match quoted_body r with Some m => Some (c :: m) | None => None end
      end
  end.
Definition all_quoted_lit (ts : list tok) : bool := forallb (fun t => is (ty t) TokenQuotedLit) ts.

(* blockLabels.Current() on one label node: an identifier; or OQuote, any
   number of QuotedLit tokens (the scanner splits a literal at "$" and "%"),
   CQuote — the literals are joined. Anything else is dropped.
   The unescaping done by hclsyntax.ParseStringLiteralToken on each literal is
   NOT modelled (nor its possible error): the raw literal bytes are returned,
   equal to the label whenever it contains no backslash escape and no $${ / %%{
   escape. *)
Definition label_current (n : node) : option (list Z) :=
  match n with
  | Leaf LIdentifier [t] => if is (ty t) TokenIdent then Some (bytes t) else None
  | Leaf LQuoted (o :: rest) =>
      if is (ty o) TokenOQuote then
        match quoted_body rest with
        | Some mid => if all_quoted_lit mid then Some (concat (map bytes mid)) else None
        | None => None
        end
      else None
  | _ => None
  end.
(* Block.Labels() *)
Definition labels_api (ls : list node) : list (list Z) :=
  flat_map (fun n => opt_list (label_current n)) ls.

(* ---- the same information read off the ranges-AST and the tokens ---------- *)
Definition sel (toks : list ltok) (lo hi : Z) : list ltok :=
  filter (fun t => (lo <=? t_start t) && (t_start t <? hi)) toks.
Definition sel_r (toks : list ltok) (r : rng) : list ltok := sel toks (r_s r) (r_e r).
Definition range_bytes (toks : list ltok) (r : rng) : list Z :=
  concat (map (fun t => bytes (lt t)) (sel_r toks r)).

Fixpoint ast_summ (toks : list ltok) (it : nitem) : summ :=
  match it with
  | NAttr _ name_r _ e =>
      SumAttr (range_bytes toks name_r)
              (map (fun t => map (fun s => tokens (sel_r toks (s_range s))) t) (e_travs e))
  | NBlock type_r label_rs _ _ _ items =>
      SumBlock (range_bytes toks type_r)
               (map (fun r => label_node (sel_r toks r)) label_rs)
               (map (ast_summ toks) items)
  end.

(* hclsyntax's label text for the tokens under one LabelRange (raw, see above) *)
Definition quoted_text (ts : list tok) : list Z :=
  concat (map bytes (filter (fun t => is (ty t) TokenQuotedLit) ts)).
Definition label_source (ts : list tok) : list Z :=
  match ts with
  | [t] => if is (ty t) TokenIdent then bytes t else quoted_text ts
  | _ => quoted_text ts
  end.
(* the tokens of a label in an error-free parse: an identifier, or OQuote,
   literal tokens, CQuote (template sequences in labels are parse errors) *)
Definition label_ok (ts : list tok) : bool :=
  match ts with
  | [t] => is (ty t) TokenIdent
  | o :: rest =>
      is (ty o) TokenOQuote &&
      match quoted_body rest with Some mid => all_quoted_lit mid | None => false end
  | [] => false
  end.
Fixpoint labels_ok (toks : list ltok) (it : nitem) : bool :=
  match it with
  | NAttr _ _ _ _ => true
  | NBlock _ label_rs _ _ _ items =>
      forallb (fun r => label_ok (tokens (sel_r toks r))) label_rs
      && forallb (labels_ok toks) items
  end.

(* what the public accessors return: Labels() instead of the label nodes *)
Inductive asumm :=
| AAttr (name : list Z) (vars : list (list (list tok)))
| ABlock (type_ : list Z) (labels : list (list Z)) (body : list asumm).
Fixpoint summ_api (s : summ) : asumm :=
  match s with
  | SumAttr n v => AAttr n v
  | SumBlock t ls b => ABlock t (labels_api ls) (map summ_api b)
  end.
Fixpoint ast_api (toks : list ltok) (it : nitem) : asumm :=
  match it with
  | NAttr _ name_r _ e =>
      AAttr (range_bytes toks name_r)
            (map (fun t => map (fun s => tokens (sel_r toks (s_range s))) t) (e_travs e))
  | NBlock type_r label_rs _ _ _ items =>
      ABlock (range_bytes toks type_r)
             (map (fun r => label_source (tokens (sel_r toks r))) label_rs)
             (map (ast_api toks) items)
  end.

(* ---- ranges_wf: what an error-free native parse guarantees ---------------- *)
(* Geometric conditions on the ranges relative to the GLOBAL token list: token
   starts strictly increasing; ranges nested and ordered; name/type ranges cover
   exactly one token; the tokens after an item up to the end of the enclosing
   body are comments then newline/EOF; the expression of an attribute ends the
   attribute; each traversal step covers the tokens its syntax needs. *)
Fixpoint sorted_toks (l : list ltok) : bool :=
  match l with
  | a :: r => match r with b :: _ => (t_start a <? t_start b) | [] => true end && sorted_toks r
  | [] => true
  end.
Definition lob (l : list ltok) (d : Z) : Z := match l with [] => d | t :: _ => t_start t end.
Definition clamp (lo hi x : Z) : Z := Z.max lo (Z.min x hi).
Definition has_ty (ty_ : Z) (it : list ltok) : bool := existsb (fun t => is (lty t) ty_) it.
Definition is_one {A} (l : list A) : bool := match l with [_] => true | _ => false end.
Definition is_nil {A} (l : list A) : bool := match l with [] => true | _ => false end.
Definition step_tokens_ok (k : step_kind) (w : list ltok) : bool :=
  match k with
  | SRoot | SAttr => has_ty TokenIdent w
  | SIndex kk =>
      match partition_type TokenDot w with
      | Some (_, _, rest) => has_ty TokenNumberLit rest
      | None =>
          match partition_type TokenOBrack w with
          | None => false
          | Some (_, _, rest) =>
              match partition_type TokenCBrack rest with
              | None => false
              | Some (key_toks, _, _) =>
                  match kk with
                  | KString => true
                  | KNumber => has_ty TokenNumberLit key_toks
                  | _ => true
                  end
              end
          end
      end
  | SSplat => false
  end.

Definition in_order (lo hi : Z) (r : rng) : bool :=
  (lo <=? r_s r) && (r_s r <=? r_e r) && (r_e r <=? hi).

Section Wf.
  Variable toks : list ltok.

  Fixpoint wf_steps (lo hi : Z) (steps : list nstep) : bool :=
    match steps with
    | [] => true
    | s :: r =>
        in_order lo hi (s_range s)
        && step_tokens_ok (s_kind s) (sel_r toks (s_range s))
        && wf_steps (r_e (s_range s)) hi r
    end.
  Definition wf_trav (lo hi : Z) (t : ntrav) : bool :=
    negb (is_nil t) && in_order lo hi (trav_range t)
    && wf_steps (r_s (trav_range t)) (r_e (trav_range t)) t.
  Fixpoint wf_travs (lo hi : Z) (ts : list ntrav) : bool :=
    match ts with
    | [] => true
    | t :: r => wf_trav lo hi t && wf_travs (r_e (trav_range t)) hi r
    end.

  Fixpoint wf_labels_rest (lo hi : Z) (rs : list rng) : bool :=
    match rs with
    | [] => true
    | r :: rest => in_order lo hi r && wf_labels_rest (r_e r) hi rest
    end.
  Definition wf_labels (lo hi : Z) (rs : list rng) : bool := wf_labels_rest lo hi rs.
  Definition labels_end (lo : Z) (rs : list rng) : Z := r_e (last rs (mkR lo lo)).

  Section WfItems.
    Variable wf_item : nitem -> bool.
    Fixpoint wf_items (lo hi : Z) (items : list nitem) : bool :=
      match items with
      | [] => true
      | it :: rest =>
          let r := item_range it in
          in_order lo hi r && wf_item it &&
          match partition_line_end_tokens (sel toks (r_e r) hi) with
          | Panic _ => false
          | Ok (_, an) => wf_items (lob (skipn an (sel toks (r_e r) hi)) hi) hi rest
          end
      end.
    Definition wf_body (lo hi : Z) (body_r : rng) (items : list nitem) : bool :=
      (r_s body_r <=? r_e body_r) && (lo <=? hi) &&
      let bs := clamp lo hi (r_s body_r) in
      let be := clamp lo hi (r_e body_r) in
      let A := sel toks lo bs in
      let C := sel toks be hi in
      match partition_line_end_tokens C with
      | Panic _ => false
      | Ok (_, an) =>
          wf_items (lob (skipn (partition_lead_comment_tokens A) A) bs)
                   (lob (skipn an C) hi) items
      end.
  End WfItems.

  Fixpoint wf_item (it : nitem) : bool :=
    match it with
    | NAttr src name_r eq_r e =>
        in_order (r_s src) (r_e src) name_r && in_order (r_e name_r) (r_e src) eq_r
        && in_order (r_e eq_r) (r_e src) (e_range e)
        && is_one (sel_r toks name_r)
        (* no stragglers: parseAttribute appends tokens of the item that follow
           the expression AFTER the line comments and the newline *)
        && is_nil (sel toks (r_e (e_range e)) (r_e src))
        && wf_travs (r_s (e_range e)) (r_e (e_range e)) (e_travs e)
    | NBlock type_r label_rs open_r close_r body_r items =>
        (r_s type_r <=? r_e type_r) && is_one (sel_r toks type_r)
        && wf_labels (r_e type_r) (r_s open_r) label_rs
        && in_order (labels_end (r_e type_r) label_rs) (r_s close_r) open_r
        && (r_s close_r <=? r_e close_r)
        && wf_body wf_item (r_e open_r) (r_s close_r) body_r items
    end.

  Definition hi_all : Z := match rev toks with [] => 0 | t :: _ => t_start t + 1 end.
  Definition wf_file (f : nfile) : bool :=
    sorted_toks toks && wf_body wf_item (lob toks 0) hi_all (f_range f) (f_items f).
End Wf.

(* stated on the file as the loader sees it (bodies sorted by start offset) *)
Definition ranges_wf (toks : list ltok) (f : nfile) : bool := wf_file toks (sort_file f).
Definition file_labels_ok (toks : list ltok) (f : nfile) : bool :=
  forallb (labels_ok toks) (f_items (sort_file f)).

(* ---- statements proved in LoaderProofs.v ----------------------------------- *)
Definition load_flatten_stmt := forall toks f,
  ranges_wf toks f = true ->
  exists tree, load toks f = Ok tree /\ build_tokens tree = tokens toks.
Definition accessors_complete_stmt := forall toks f tree,
  ranges_wf toks f = true -> file_labels_ok toks f = true -> load toks f = Ok tree ->
  map summ_api (summ_of tree) = map (ast_api toks) (f_items (sort_file f)).
