(* Write/FormatBytes.v — byte level of hclwrite.Format: the composition
     hclsyntax.LexConfig  ->  writerTokens  ->  format  ->  Tokens.WriteTo
   of the scanner model (Lex/Scanner.v, Lex/HclLex.v) with the formatter model
   (Write/Format.v). Definitions only.

   hclwrite/public.go Format, hclwrite/parser.go lexConfig + writerTokens,
   hclwrite/tokens.go WriteTo. *)
From HclV Require Import Base.Prelude Gen.TokenTypes Lex.Scanner Lex.HclLex Write.Format.

(* what the property compares: token type and bytes *)
Definition tyb (t : tok) : Z * list Z := (ty t, bytes t).
Definition rtyb (t : rtok) : Z * list Z := (k_ty t, k_bytes t).

(* hclsyntax.LexConfig as far as token types, bytes and byte offsets go
   (scanTokens in scanNormal mode; `data` is the source after stripUTF8BOM).
   None = the model's Panicked/OutOfFuel statuses (HclLexProofs.hcl_scan_done:
   never for this entry point). *)
Definition lex_main (data : list Z) : option (list rtok) :=
  match hcl_scan MMain data with
  | (its, Done) => Some (tokens_of its)
  | _ => None
  end.

(* writerTokens (hclwrite/parser.go:491): SpacesBefore = Range.Start.Byte -
   lastByteOffset. `g` = the grapheme-cluster count of a byte string (textseg;
   an oracle everywhere in this development — the theorems hold for every g). *)
Fixpoint writer_tokens (g : list Z -> Z) (last : Z) (ks : list rtok) : list tok :=
  match ks with
  | [] => []
  | k :: r => mkTok (k_ty k) (k_bytes k) (g (k_bytes k)) (k_s k - last) :: writer_tokens g (k_e k) r
  end.

(* hclwrite.Format on BOM-free input *)
Definition format_bytes (g : list Z -> Z) (data : list Z) : option (list Z) :=
  match lex_main data with
  | Some ks => Some (write (format (writer_tokens g 0 ks)))
  | None => None
  end.

(* re-lexing what the formatter wrote *)
Definition relex (ts : list tok) : option (list rtok) := lex_main (write ts).

Definition same_tokens (ks : list rtok) (ts : list tok) : Prop := map rtyb ks = map tyb ts.
Definition same_tokens_b (ks : list rtok) (ts : list tok) : bool :=
  list_eqb (fun a b => (fst a =? fst b) && zlist_eqb (snd a) (snd b)) (map rtyb ks) (map tyb ts).

(* "lexes without errors": the token types checkInvalidTokens / the parser
   reject outright never occur (hclsyntax/token.go checkInvalidTokens). A
   configuration that parses without errors satisfies this. *)
Definition bad_types : list Z :=
  [TokenInvalid; TokenBadUTF8; TokenQuotedNewline; TokenTabs; TokenNil;
   TokenBitwiseAnd; TokenBitwiseOr; TokenBitwiseNot; TokenBitwiseXor;
   TokenStarStar; TokenApostrophe; TokenBacktick; TokenSemicolon].
Definition clean_ty (t : Z) : bool := negb (existsb (Z.eqb t) bad_types).
Definition lexes_clean (ks : list rtok) : bool := forallb (fun k => clean_ty (k_ty k)) ks.

(* ---- the byte-level statements ------------------------------------------------ *)

(* (A) the bytes written for the formatted tokens lex back to the same tokens *)
Definition relex_stable_at (g : list Z -> Z) (data : list Z) : Prop :=
  forall ks, lex_main data = Some ks -> lexes_clean ks = true ->
  exists ks', relex (format (writer_tokens g 0 ks)) = Some ks' /\ map rtyb ks' = map rtyb ks.

(* (A+) ... and even to the same writer tokens (same SpacesBefore): the strong
   form, from which byte-level idempotence follows with format_idempotent *)
Definition relex_exact_at (g : list Z -> Z) (data : list Z) : Prop :=
  forall ks, lex_main data = Some ks -> lexes_clean ks = true ->
  exists ks', relex (format (writer_tokens g 0 ks)) = Some ks' /\
              writer_tokens g 0 ks' = format (writer_tokens g 0 ks).

(* (B) Format(Format(src)) = Format(src) on bytes *)
Definition bytes_idempotent_at (g : list Z -> Z) (data : list Z) : Prop :=
  forall out, format_bytes g data = Some out ->
    (forall ks, lex_main data = Some ks -> lexes_clean ks = true) ->
    format_bytes g out = Some out.

Definition relex_stable_stmt : Prop := forall g data, relex_stable_at g data.
Definition relex_exact_stmt : Prop := forall g data, relex_exact_at g data.
Definition bytes_idempotent_stmt : Prop := forall g data, bytes_idempotent_at g data.

(* decidable versions for experiments and for the harness checker *)
Definition glen (b : list Z) : Z := Z.of_nat (length b).   (* ASCII stand-in for g *)

Definition relex_ok_b (ts : list tok) : bool :=
  match relex (format ts) with
  | Some ks' => same_tokens_b ks' ts
  | None => false
  end.

Definition stable_b (g : list Z -> Z) (data : list Z) : bool :=
  match lex_main data with
  | Some ks => relex_ok_b (writer_tokens g 0 ks)
  | None => false
  end.

(* ---- token sequences on which the formatter is known to glue -------------------------
   (B) `!` directly followed by a token that starts with `=`  ("! =" -> "!=")
   (D) two adjacent dot tokens (`.` or `...`)                  (". . ." -> "...")
   (T) `${` / `%{` directly followed by the closing token      ("${ ~}" -> "${~" "}")
   None of these occurs in a configuration that parses without errors.
   (N) is not a glue pattern but a limit of the proof: `<number> . <name>` where the
   name is e, E, e- or E-; whether it reads as an exponent depends on the token after
   it (it never does after formatting, but the proof does not look that far). *)
Definition is_dots (t : Z) : bool := (t =? TokenDot) || (t =? TokenEllipsis).
Definition is_tmpl_open (t : Z) : bool := (t =? TokenTemplateInterp) || (t =? TokenTemplateControl).
Definition hd0 (b : list Z) : Z := match b with c :: _ => c | [] => 0 end.
Definition is_e (c : Z) : bool := (c =? 101) || (c =? 69).
Definition short_exp (b : list Z) : bool :=
  match b with
  | c :: r => is_e c && match r with [] => true | [d] => (d =? 45) || (d =? 43) | d :: _ => d =? 43 end
  | [] => false
  end.
Fixpoint hz (l : list (Z * list Z)) : bool :=
  match l with
  | x :: ((y :: r') as r) =>
      negb ((fst x =? TokenBang) && (hd0 (snd y) =? 61)) &&
      negb (is_dots (fst x) && is_dots (fst y)) &&
      negb (is_tmpl_open (fst x) && (fst y =? TokenTemplateSeqEnd)) &&
      negb ((fst x =? TokenNumberLit) && (fst y =? TokenDot) &&
            match r' with z :: _ => (fst z =? TokenIdent) && short_exp (snd z) | [] => false end) &&
      hz r
  | _ => true
  end.
Definition hazard_free (ks : list rtok) : bool := hz (map rtyb ks).


(* ---- a local, decidable layout condition ------------------------------------------
   After every token of the main scanner, the bytes that follow it in the written
   output must not continue it: checked on the first few bytes only, without running
   the scanner; tokens of the string scanner carry no space before them.
     num_stopb t   a number scan that has just finished an element stops in front of t
                   (dots_stop: after at least one '.'; exp_fail: after 'e'/'E')
     id_stopb t    an identifier scan stops in front of t (ASCII punctuation, blank, newline)
     forbidden_next c / hd_okb   after the one-byte token c the next byte must not complete a
                   longer operator, a comment opener or a heredoc opener
     tail_okb b t  all three, for a token with bytes b followed by t
     tl_ty         types only the string / heredoc scanners emit (QuotedLit, CQuote, StringLit,
                   CHeredoc, "${", "%{")
     opener_okb    "${" / "%{" without "~" is not followed by "~"
     layout_okb    the whole condition on a writer-token list, SpacesBefore >= 0
   FormatBytesProofs.relex_exact_clean: for every source that lexes cleanly this condition
   on format's output implies that the output lexes back to exactly the formatted writer
   tokens; FormatBytesProofs.layout_of_format_clean: format establishes it when the source
   has none of the hazard patterns above. *)

Definition num_byte (c : Z) : bool := is_digit c || (c =? 46) || (c =? 101) || (c =? 69).

Definition bucket_len (l : list alt) : nat := match l with a :: _ => length a | [] => O end.

Definition start_n (c : Z) : nat := bucket_len (bucket id_start_tree c).

Definition id_first (c : Z) : bool := (c =? 95) || negb (Nat.eqb (start_n c) 0).

Definition forbidden_next (c : Z) : list Z :=
  if c =? 61 then [61; 62] else if c =? 33 then [61] else if c =? 62 then [61]
  else if c =? 60 then [61; 60] else if c =? 58 then [58] else if c =? 46 then [46]
  else if c =? 47 then [47; 42] else if c =? 38 then [38] else if c =? 124 then [124]
  else if c =? 126 then [125] else [].

Definition exp_fail (z : list Z) : bool :=
  match z with
  | [] => true
  | f :: w => if is_digit f then false
              else if (f =? 43) || (f =? 45) then match w with [] => true | h :: _ => negb (is_digit h) end
              else true
  end.

Fixpoint dots_stop (y : list Z) : bool :=
  match y with
  | [] => true
  | d :: z => if d =? 46 then dots_stop z
              else if is_digit d then false
              else if (d =? 101) || (d =? 69) then exp_fail z
              else true
  end.

Definition num_stopb (t : list Z) : bool :=
  match t with
  | [] => true
  | c :: y => if c =? 46 then dots_stop y else negb (num_byte c)
  end.

Definition id_stoppers : list Z :=
  [32; 9; 35; 47; 10; 13; 61; 33; 62; 60; 38; 124; 58; 46; 123; 125; 126; 34; 91; 93; 40; 41;
   44; 42; 37; 43; 63; 94; 59; 96; 39].

Definition id_stopb (t : list Z) : bool :=
  match t with [] => true | c :: _ => existsb (Z.eqb c) id_stoppers end.

Definition hd_okb (l t : list Z) : bool :=
  match t with [] => true | d :: _ => negb (existsb (Z.eqb d) l) end.

Definition tail_okb (b t : list Z) : bool :=
  match b with
  | [] => true
  | c :: b' =>
      (negb (is_digit c) || num_stopb t) && (negb (id_first c) || id_stopb t) &&
      (match b' with [] => hd_okb (forbidden_next c) t | _ => true end)
  end.

Definition simple_ty (t : Z) : bool :=
  clean_ty t && negb (t =? TokenOHeredoc) && negb (t =? TokenOQuote).

Definition simple (ks : list rtok) : bool := forallb (fun k => simple_ty (k_ty k)) ks.

Definition spaces (n : Z) : list Z := repeatZ 32 (Z.to_nat n).

Definition tl_ty (t : Z) : bool :=
  (t =? TokenQuotedLit) || (t =? TokenCQuote) || (t =? TokenTemplateInterp) || (t =? TokenTemplateControl)
  || (t =? TokenStringLit) || (t =? TokenCHeredoc).

Definition nohd_ty (t : Z) : bool := clean_ty t && negb (t =? TokenOHeredoc).

Definition noheredoc (ks : list rtok) : bool := forallb (fun k => nohd_ty (k_ty k)) ks.

Definition opener_okb (b w : list Z) : bool :=
  match b with
  | [_; c1] => negb ((c1 =? 123) && starts_with 126 w)
  | _ => true
  end.

Fixpoint layout_okb (out : list tok) : bool :=
  match out with
  | [] => true
  | x :: f =>
      (0 <=? sp x) &&
      (if tl_ty (ty x) then (sp x =? 0) && (negb (is_tmpl_open (ty x)) || opener_okb (bytes x) (write f))
       else tail_okb (bytes x) (write f)) &&
      (negb (ty x =? TokenCHeredoc) || match f with y :: _ => sp y =? 0 | [] => true end) &&
      layout_okb f
  end.

Definition w_bang_eq : list Z := [120; 32; 61; 32; 33; 32; 61; 32; 49; 10].

Definition w_dots : list Z := [120; 32; 61; 32; 97; 46; 32; 46; 32; 46; 98; 10].

Definition w_tilde : list Z := [120; 32; 61; 32; 34; 36; 123; 32; 126; 125; 34; 10].


(* the full byte-level statement (proved: FormatBytesProofs.relex_exact_hazard_free):
   every source that lexes cleanly and has none of the hazard patterns is re-lexed from
   the formatter's output to exactly the formatted writer tokens *)
Definition relex_exact_hazard_free_stmt : Prop :=
  forall g data ks, lex_main data = Some ks -> lexes_clean ks = true -> hazard_free ks = true ->
  exists ks', relex (format (writer_tokens g 0 ks)) = Some ks' /\
              writer_tokens g 0 ks' = format (writer_tokens g 0 ks).
