(* Write/Generate.v — executable model of hclwrite/generate.go (token generation
   for constant values and traversals); blockLabels.Replace, which re-scans the
   generated tokens, is in Write/StringLit.v next to blockLabels.Current. Definitions only; one Gallina function per Go
   function, same order of checks.

   Strings are lists of Unicode scalar values (what Go's `for i, r := range s`
   yields on a valid UTF-8 string); bytes are Z. A generated token is
   (type code, bytes); SpacesBefore is assigned by `format` (C09's model) and is
   not part of this model.

   Trusted / supplied from outside the model:
   * unicode.IsPrint           — Section variable [is_print] (NOT an axiom: every
                                 definition and theorem is parametrised by it);
   * hclsyntax.ValidIdentifier — Section variable [valid_ident]; the checker
                                 instantiates it with Go's answer per key and
                                 cross-checks the ASCII approximation below;
   * big.Float.Text('f', -1)   — a number is the exact decimal text supplied by
                                 the harness (math/big formatting is trusted);
   * iteration order of cty collections (sets: go-cty's set order; maps and
     objects: keys sorted) — values carry their elements in Go's order. *)
From HclV Require Import Base.Prelude Base.Utf8 Gen.TokenTypes.

Definition tok : Type := Z * list Z.
Definition tok_eqb (a b : tok) : bool := Z.eqb (fst a) (fst b) && zlist_eqb (snd a) (snd b).

(* ---- escapeQuotedStringLit (generate.go:350-389) ---------------------------- *)
Section Escape.
  Variable is_print : Z -> bool.

  (* one iteration of `for i, r := range s`; next_brace = (len(remain) > 0 &&
     remain[0] == '{') computed on the SOURCE string *)
  Definition escape_rune (r : Z) (next_brace : bool) : list Z :=
    if r =? 10 then [92; 110]
    else if r =? 13 then [92; 114]
    else if r =? 9 then [92; 116]
    else if r =? 34 then [92; 34]
    else if r =? 92 then [92; 92]
    else if (r =? 36) || (r =? 37) then (if next_brace then [r; r] else [r])
    else if negb (is_print r) then
      (if r <? 65536 then 92 :: 117 :: hex4 r else 92 :: 85 :: hex8 r)
    else utf8_enc r.

  Definition starts_brace (s : list Z) : bool :=
    match s with b :: _ => b =? 123 | [] => false end.

  Fixpoint escape (s : list Z) : list Z :=
    match s with
    | [] => []
    | r :: rest => escape_rune r (starts_brace rest) ++ escape rest
    end.
End Escape.

(* ---- values ------------------------------------------------------------------ *)
Inductive val :=
| VNull                                  (* val.IsNull(), any type *)
| VBool (b : bool)
| VNum (text : list Z)                   (* bytes of bf.Text('f', -1) *)
| VStr (s : list Z)                      (* code points *)
| VSeq (vs : list val)                   (* list / set / tuple, in ElementIterator order *)
| VMap (kvs : list (list Z * val)).      (* map / object: (key code points, value), in ElementIterator order *)

Inductive step :=
| TRoot (name : list Z) | TAttr (name : list Z) | TIndex (key : val)
| TSplat.                                (* any other hcl.Traverser: Go panics *)

Definition b_null : list Z := [110; 117; 108; 108].
Definition b_true : list Z := [116; 114; 117; 101].
Definition b_false : list Z := [102; 97; 108; 115; 101].
Definition b_for : list Z := [102; 111; 114].

Definition t_oquote : tok := (TokenOQuote, [34]).
Definition t_cquote : tok := (TokenCQuote, [34]).
Definition t_obrack : tok := (TokenOBrack, [91]).
Definition t_cbrack : tok := (TokenCBrack, [93]).
Definition t_obrace : tok := (TokenOBrace, [123]).
Definition t_cbrace : tok := (TokenCBrace, [125]).
Definition t_comma : tok := (TokenComma, [44]).
Definition t_equal : tok := (TokenEqual, [61]).
Definition t_newline : tok := (TokenNewline, [10]).
Definition t_dot : tok := (TokenDot, [46]).

(* ASCII approximation of hclsyntax.ValidIdentifier:
   Ident = (ID_Start | '_') (ID_Continue | '-')* restricted to code points < 128;
   None when the name contains a non-ASCII code point (not decided here). *)
Definition ascii_id_start (c : Z) : bool :=
  ((65 <=? c) && (c <=? 90)) || ((97 <=? c) && (c <=? 122)) || (c =? 95).
Definition ascii_id_cont (c : Z) : bool :=
  ascii_id_start c || ((48 <=? c) && (c <=? 57)) || (c =? 45).
Definition valid_ident_ascii (k : list Z) : option bool :=
  if existsb (fun c => 128 <=? c) k then None
  else match k with
       | [] => Some false
       | c :: r => Some (ascii_id_start c && forallb ascii_id_cont r)
       end.

Section Gen.
  Variable is_print : Z -> bool.
  Variable valid_ident : list Z -> bool.

  (* case val.Type() == cty.String *)
  Definition gen_string (s : list Z) : list tok :=
    let src := escape is_print s in
    t_oquote :: (match src with [] => [] | _ => [(TokenQuotedLit, src)] end) ++ [t_cquote].

  (* key of a map/object element: a bare identifier when ValidIdentifier says so
     and the key is not the keyword "for" (Go compares the strings, i.e. their
     UTF-8 bytes: `k != "for"`); otherwise the quoted string *)
  Definition gen_key (k : list Z) : list tok :=
    if valid_ident k && negb (zlist_eqb (utf8 k) b_for) then [(TokenIdent, utf8 k)] else gen_string k.

  (* appendTokensForValue (generate.go:185-305). Unknown, marked and capsule
     values make Go panic; they are outside [val] (the property quantifies over
     wholly-known values of HCL's own types). *)
  Fixpoint gen_value (v : val) : list tok :=
    match v with
    | VNull => [(TokenIdent, b_null)]
    | VBool b => [(TokenIdent, if b then b_true else b_false)]
    | VNum text => [(TokenNumberLit, text)]
    | VStr s => gen_string s
    | VSeq vs =>
        t_obrack ::
        (fix elems (first : bool) (l : list val) : list tok :=
           match l with
           | [] => []
           | x :: r => (if first then [] else [t_comma]) ++ gen_value x ++ elems false r
           end) true vs
        ++ [t_cbrack]
    | VMap kvs =>
        t_obrace ::
        (match kvs with [] => [] | _ => [t_newline] end) ++
        (fix items (l : list (list Z * val)) : list tok :=
           match l with
           | [] => []
           | (k, x) :: r => gen_key k ++ [t_equal] ++ gen_value x ++ [t_newline] ++ items r
           end) kvs
        ++ [t_cbrace]
    end.

  (* the two inner loops, named *)
  Fixpoint gen_elems (first : bool) (l : list val) : list tok :=
    match l with
    | [] => []
    | x :: r => (if first then [] else [t_comma]) ++ gen_value x ++ gen_elems false r
    end.
  Fixpoint gen_items (l : list (list Z * val)) : list tok :=
    match l with
    | [] => []
    | (k, x) :: r => gen_key k ++ [t_equal] ++ gen_value x ++ [t_newline] ++ gen_items r
    end.

  (* appendTokensForTraversalStep (generate.go:314-348); None = panic
     "unsupported traversal step type" *)
  Definition gen_step (st : step) : option (list tok) :=
    match st with
    | TRoot name => Some [(TokenIdent, utf8 name)]
    | TAttr name => Some [t_dot; (TokenIdent, utf8 name)]
    | TIndex key => Some (t_obrack :: gen_value key ++ [t_cbrack])
    | TSplat => None
    end.

  (* appendTokensForTraversal *)
  Fixpoint gen_traversal (t : list step) : option (list tok) :=
    match t with
    | [] => Some []
    | st :: r =>
        match gen_step st, gen_traversal r with
        | Some a, Some b => Some (a ++ b)
        | _, _ => None
        end
    end.

  (* TokensForIdentifier, TokensForTuple, TokensForObject, TokensForFunctionCall *)
  Definition tokens_for_identifier (name : list Z) : list tok := [(TokenIdent, utf8 name)].
  Fixpoint join_comma (first : bool) (l : list (list tok)) : list tok :=
    match l with
    | [] => []
    | x :: r => (if first then [] else [t_comma]) ++ x ++ join_comma false r
    end.
  Definition tokens_for_tuple (elems : list (list tok)) : list tok :=
    t_obrack :: join_comma true elems ++ [t_cbrack].
  Definition tokens_for_object (attrs : list (list tok * list tok)) : list tok :=
    t_obrace :: (match attrs with [] => [] | _ => [t_newline] end) ++
    flat_map (fun a => fst a ++ [t_equal] ++ snd a ++ [t_newline]) attrs ++ [t_cbrace].
  Definition tokens_for_function_call (name : list Z) (args : list (list tok)) : list tok :=
    tokens_for_identifier name ++ (TokenOParen, [40]) :: join_comma true args ++ [(TokenCParen, [41])].

End Gen.

Definition tok_bytes (ts : list tok) : list Z := flat_map snd ts.
