(* Write/GenerateCheck.v — correspondence checkers for Write/Generate.v and
   Write/StringLit.v: model output == what the harness observed on the Go code.
   Executed with vm_compute from generated case files. *)
From Coq Require Import String Ascii.
From HclV Require Import Base.Prelude Base.Utf8 Gen.TokenTypes Write.Generate Write.StringLit.
Open Scope Z_scope.
Open Scope list_scope.

(* unicode.IsPrint as observed by the harness: the case lists the runes of the
   case for which Go answered false *)
Definition print_of (nonprint : list Z) (r : Z) : bool := negb (existsb (Z.eqb r) nonprint).

Fixpoint lookup_key (k : list Z) (tbl : list (list Z * bool)) : option bool :=
  match tbl with
  | [] => None
  | (k', b) :: r => if zlist_eqb k k' then Some b else lookup_key k r
  end.

(* hclsyntax.ValidIdentifier: Go's answer per key, else the ASCII approximation *)
Definition ident_of (tbl : list (list Z * bool)) (k : list Z) : bool :=
  match lookup_key k tbl with
  | Some b => b
  | None => match valid_ident_ascii k with Some b => b | None => false end
  end.

(* the ASCII approximation must agree with Go wherever it decides *)
Definition ident_tbl_consistent (tbl : list (list Z * bool)) : bool :=
  forallb (fun kb => match valid_ident_ascii (fst kb) with
                     | Some b => Bool.eqb b (snd kb)
                     | None => true
                     end) tbl.

Definition GT (ty : Z) (hex : string) : tok := (ty, unhex hex).
Definition toks_eqb (a b : list tok) : bool := list_eqb tok_eqb a b.

(* (a) escapeQuotedStringLit: code points, non-printable runes among them, Go's bytes *)
Definition esc_case : Type := list Z * list Z * string.
Definition check_escape_case (c : esc_case) : bool :=
  let '(s, np, hex) := c in zlist_eqb (escape (print_of np) s) (unhex hex).
Definition check_escape_cases (cs : list esc_case) : list Z := failing check_escape_case cs.

(* exhaustive-by-class rune table: rune, IsPrint(rune), Go's escape of the rune
   followed by "{", followed by "a", and at the end of the string *)
Definition rune_case : Type := Z * bool * (string * string * string).
Definition check_rune_case (c : rune_case) : bool :=
  let '(r, p, (h1, h2, h3)) := c in
  let ip := fun x => if x =? r then p else true in
  (* the one fact about IsPrint the codec theorem needs: IsPrint('{') *)
  (if r =? 123 then p else true) &&
  zlist_eqb (escape ip [r; 123]) (unhex h1) &&
  zlist_eqb (escape ip [r; 97]) (unhex h2) &&
  zlist_eqb (escape ip [r]) (unhex h3).
Definition check_rune_cases (cs : list rune_case) : list Z := failing check_rune_case cs.

(* (b) TokensForValue: value, ValidIdentifier answers, non-printables, Go tokens *)
(* + whether Go's parser took some brace expression of the generated source for
   a for-expression (every TokenOBrace of a generated value opens an object) *)
Fixpoint any_reads_as_for (ts : list tok) : bool :=
  match ts with
  | [] => false
  | _ :: r => reads_as_for_expr ts || any_reads_as_for r
  end.
Definition val_case : Type := val * list (list Z * bool) * list Z * list tok * bool.
Definition check_value_case (c : val_case) : bool :=
  let '(v, idt, np, ts, isfor) := c in
  let mine := gen_value (print_of np) (ident_of idt) v in
  ident_tbl_consistent idt && toks_eqb mine ts && Bool.eqb (any_reads_as_for mine) isfor.
Definition check_value_cases (cs : list val_case) : list Z := failing check_value_case cs.

(* TokensForTraversal: steps, non-printables, Go tokens; None = Go panicked *)
Definition trav_case : Type := list step * list (list Z * bool) * list Z * option (list tok).
Definition check_trav_case (c : trav_case) : bool :=
  let '(t, idt, np, ts) := c in
  match gen_traversal (print_of np) (ident_of idt) t, ts with
  | Some a, Some b => toks_eqb a b
  | None, None => true
  | _, _ => false
  end.
Definition check_trav_cases (cs : list trav_case) : list Z := failing check_trav_case cs.

(* TokensForTuple (kind 0), TokensForObject (1; parts alternate name, value),
   TokensForFunctionCall (2) *)
Fixpoint pair_up (l : list (list tok)) : list (list tok * list tok) :=
  match l with
  | a :: b :: r => (a, b) :: pair_up r
  | _ => []
  end.
Definition comp_case : Type := Z * list Z * list (list tok) * list tok.
Definition check_comp_case (c : comp_case) : bool :=
  let '(kind, name, parts, ts) := c in
  if kind =? 0 then toks_eqb (tokens_for_tuple parts) ts
  else if kind =? 1 then toks_eqb (tokens_for_object (pair_up parts)) ts
  else toks_eqb (tokens_for_function_call name parts) ts.
Definition check_comp_cases (cs : list comp_case) : list Z := failing check_comp_case cs.

(* (c) ParseStringLiteralToken: token bytes, returned string, diagnostic codes
   (uerr_code) in order; [-1] = Go panicked *)
Definition unesc_case : Type := string * string * list Z.
Definition check_unescape_case (c : unesc_case) : bool :=
  let '(hex, out, errs) := c in
  match unescape (unhex hex) with
  | UOk bs es => zlist_eqb bs (unhex out) && zlist_eqb (map uerr_code es) errs
  | UPanic => zlist_eqb errs [-1]
  | UStuck => false
  end.
Definition check_unescape_cases (cs : list unesc_case) : list Z := failing check_unescape_case cs.

(* stringTemplate scanner: bytes after the opening quote; Go's tokens after
   TokenOQuote up to and including the first CQuote / TemplateInterp /
   TemplateControl (or all of them when there is none) *)
Fixpoint is_prefix (a b : list tok) : bool :=
  match a, b with
  | [], _ => true
  | x :: r, y :: s => tok_eqb x y && is_prefix r s
  | _, _ => false
  end.
Definition lex_case : Type := string * list tok.
Definition check_lex_case (c : lex_case) : bool :=
  let '(hex, ts) := c in
  let (ps, st) := lex_quoted (unhex hex) in
  let mine := map piece_tok ps in
  match st with
  | LClosed _ => toks_eqb (mine ++ [t_cquote]) ts
  | LIntro ch rest =>
      let tilde := match rest with 126 :: _ => [126] | _ => [] end in
      toks_eqb (mine ++ [(if ch =? 36 then TokenTemplateInterp else TokenTemplateControl, [ch; 123] ++ tilde)]) ts
  | LBadUtf8 => is_prefix mine ts && existsb (fun t => fst t =? TokenBadUTF8) ts
  | LUnterminated =>
      negb (existsb (fun t => (fst t =? TokenCQuote) || (fst t =? TokenTemplateInterp) || (fst t =? TokenTemplateControl)) ts)
  end.
Definition check_lex_cases (cs : list lex_case) : list Z := failing check_lex_case cs.

(* block labels: labels (code points), non-printables, Go's Labels() of the
   freshly built block, Labels() after Bytes() + hclwrite.ParseConfig, labels as
   parsed by hclsyntax (all as UTF-8 hex) *)
Definition label_case : Type := list (list Z) * list Z * (list string * list string * list string).
Definition zll_eqb (a b : list (list Z)) : bool := list_eqb zlist_eqb a b.
Definition relexed_node (ts : list tok) : label_node :=
  match relex_quoted ts with Some t => LQuoted t | None => LQuoted [] end.
Definition syntax_label (ts : list tok) : list (list Z) :=
  match tok_bytes ts with
  | 34 :: body => match read_quoted body with ROk s [] => [s] | _ => [] end
  | _ => []
  end.
Fixpoint all_some {A} (l : list (option A)) : option (list A) :=
  match l with
  | [] => Some []
  | Some x :: r => match all_some r with Some y => Some (x :: y) | None => None end
  | None :: _ => None
  end.
Definition check_label_case (c : label_case) : bool :=
  let '(ls, np, (fresh, relexed, syn)) := c in
  match all_some (replace_labels (print_of np) ls) with
  | None => false
  | Some nodes =>
      zll_eqb (current_labels (map LQuoted nodes)) (map unhex fresh) &&
      zll_eqb (current_labels (map relexed_node nodes)) (map unhex relexed) &&
      zll_eqb (flat_map syntax_label nodes) (map unhex syn)
  end.
Definition check_label_cases (cs : list label_case) : list Z := failing check_label_case cs.
