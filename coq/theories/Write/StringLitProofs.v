(* Write/StringLitProofs.v — the string codec: what escapeQuotedStringLit
   writes, the stringTemplate scanner cuts into literal tokens only and
   ParseStringLiteralToken turns back into the original string.
   Model: Write/Generate.v (escape), Write/StringLit.v (lexq, sscan, unescape). *)
From HclV Require Import Base.Prelude Base.Utf8 Gen.TokenTypes Write.Generate Write.StringLit.

(* ------------------------------------------------------------------------ *)
(* small helpers                                                            *)
(* ------------------------------------------------------------------------ *)
Definition oprep (a : list Z) (o : option (list Z * list uerr)) : option (list Z * list uerr) :=
  match o with Some (b, e) => Some (a ++ b, e) | None => None end.

(* scanning followed by un-escaping, from an arbitrary scanner state *)
Definition D (st : sstate) (bs : list Z) : option (list Z * list uerr) :=
  match sscan st bs with Some sls => uslices sls | None => None end.

Definition raw_byte (b : Z) : Prop := b <> 92 /\ b <> 36 /\ b <> 37 /\ b <> 13 /\ b <> 10.

Lemma oprep_nil o : oprep [] o = o.
Proof. destruct o as [[b e]|]; reflexivity. Qed.

Lemma oprep_app a b o : oprep a (oprep b o) = oprep (a ++ b) o.
Proof. destruct o as [[x e]|]; simpl; [rewrite app_assoc|]; reflexivity. Qed.

Lemma oapp_nil o : oapp [] o = o.
Proof. destruct o; reflexivity. Qed.

Lemma oapp_app a b o : oapp a (oapp b o) = oapp (a ++ b) o.
Proof. destruct o; simpl; [rewrite app_assoc|]; reflexivity. Qed.

Lemma uslices_cons sl r :
  uslices (sl :: r) =
  match uslice sl, uslices r with
  | Some (a, e1), Some (b, e2) => Some (a ++ b, e1 ++ e2)
  | _, _ => None
  end.
Proof. reflexivity. Qed.

Lemma uslices_cons_ok sl a r : uslice sl = Some (a, []) -> uslices (sl :: r) = oprep a (uslices r).
Proof. intros H. rewrite uslices_cons, H. destruct (uslices r) as [[b e]|]; reflexivity. Qed.

Definition Dk (o : option (list (list Z))) : option (list Z * list uerr) :=
  match o with Some sls => uslices sls | None => None end.

Lemma Dk_oapp_ok sl a o : uslice sl = Some (a, []) -> Dk (oapp [sl] o) = oprep a (Dk o).
Proof. intros H. destruct o as [sls|]; simpl; [|reflexivity]. apply uslices_cons_ok, H. Qed.

Lemma uslice_raw acc : acc <> [] -> Forall raw_byte acc -> uslice acc = Some (acc, []).
Proof.
  intros Hne Hraw. destruct acc as [|c tl]; [congruence|].
  inversion Hraw as [|? ? [H1 [H2 [H3 _]]] _]; subst.
  unfold uslice, is_tmpl_char.
  destruct (Z.eqb_spec c 92); [lia|].
  destruct (Z.eqb_spec c 36); [lia|]. destruct (Z.eqb_spec c 37); [lia|]. reflexivity.
Qed.

Lemma Dk_flush acc o : Forall raw_byte acc -> Dk (oapp (flush acc) o) = oprep acc (Dk o).
Proof.
  intros Hraw. destruct acc as [|c tl].
  - simpl. rewrite oapp_nil, oprep_nil. reflexivity.
  - change (flush (c :: tl)) with [c :: tl]. apply Dk_oapp_ok, uslice_raw; [congruence|assumption].
Qed.

(* ------------------------------------------------------------------------ *)
(* scanStringLit: pending literal bytes commute with the rest               *)
(* ------------------------------------------------------------------------ *)
Lemma D_acc : forall bs acc, Forall raw_byte acc -> D (SG acc) bs = oprep acc (D (SG []) bs).
Proof.
  induction bs as [|b r IH]; intros acc Hraw.
  - unfold D. simpl sscan. replace (Some (flush acc)) with (oapp (flush acc) (Some [])) by (simpl; rewrite app_nil_r; reflexivity).
    fold (Dk (oapp (flush acc) (Some []))).
    rewrite Dk_flush by assumption. reflexivity.
  - unfold D. cbn [sscan sstep]. unfold sground.
    destruct (Z.eqb_spec b 92).
    { rewrite <- (app_nil_r (flush acc)) at 1. fold (Dk (oapp (flush acc ++ []) (sscan SBs r))).
      rewrite <- oapp_app, Dk_flush by assumption. simpl flush. rewrite ?oapp_nil. reflexivity. }
    destruct (is_tmpl_char b) eqn:Et.
    { fold (Dk (oapp (flush acc) (sscan (SD1 b) r))). rewrite Dk_flush by assumption. simpl flush. rewrite ?oapp_nil. reflexivity. }
    destruct (Z.eqb_spec b 13).
    { fold (Dk (oapp (flush acc) (sscan SCR r))). rewrite Dk_flush by assumption. simpl flush. rewrite ?oapp_nil. reflexivity. }
    destruct (Z.eqb_spec b 10).
    { fold (Dk (oapp (flush acc ++ [[10]]) (sscan (SG []) r))).
      rewrite <- oapp_app, Dk_flush by assumption. simpl flush. simpl app. reflexivity. }
    rewrite !oapp_nil.
    assert (Hb : raw_byte b).
    { unfold is_tmpl_char in Et. unfold raw_byte. lia. }
    fold (D (SG (acc ++ [b])) r). fold (D (SG ([] ++ [b])) r).
    rewrite (IH (acc ++ [b])) by (apply Forall_app; split; [assumption|constructor; [assumption|constructor]]).
    rewrite (IH ([] ++ [b])) by (constructor; [assumption|constructor]).
    rewrite oprep_app. reflexivity.
Qed.

Lemma sscan_raw : forall l acc rest, Forall raw_byte l -> sscan (SG acc) (l ++ rest) = sscan (SG (acc ++ l)) rest.
Proof.
  induction l as [|b l IH]; intros acc rest Hraw.
  - rewrite app_nil_r. reflexivity.
  - inversion Hraw as [|? ? Hb Hl]; subst. destruct Hb as [H1 [H2 [H3 [H4 H5]]]].
    simpl app. cbn [sscan sstep]. unfold sground, is_tmpl_char.
    destruct (Z.eqb_spec b 92); [lia|]. destruct (Z.eqb_spec b 36); [lia|].
    destruct (Z.eqb_spec b 37); [lia|]. destruct (Z.eqb_spec b 13); [lia|].
    destruct (Z.eqb_spec b 10); [lia|]. simpl orb. cbv iota. rewrite oapp_nil.
    rewrite IH by assumption. rewrite <- app_assoc. reflexivity.
Qed.

Lemma D_raw l rest : Forall raw_byte l -> D (SG []) (l ++ rest) = oprep l (D (SG []) rest).
Proof.
  intros H. unfold D at 1. rewrite sscan_raw by assumption. simpl app.
  fold (D (SG l) rest). apply D_acc, H.
Qed.

(* ------------------------------------------------------------------------ *)
(* one escape sequence, scanned and un-escaped                              *)
(* ------------------------------------------------------------------------ *)

(* ------------------------------------------------------------------------ *)
(* one escape sequence, scanned and un-escaped                              *)
(* ------------------------------------------------------------------------ *)
Lemma sscan_bs rest : sscan (SG []) (92 :: rest) = sscan SBs rest.
Proof. cbn [sscan sstep]. unfold sground. change (92 =? 92) with true. cbv iota. simpl flush. apply oapp_nil. Qed.

Lemma sscan_simple x rest :
  x <> 117 -> x <> 85 -> 0 <= x < 128 ->
  sscan (SG []) (92 :: x :: rest) = oapp [[92; x]] (sscan (SG []) rest).
Proof.
  intros H1 H2 H3. rewrite sscan_bs. cbn [sscan sstep].
  destruct (Z.eqb_spec x 117); [lia|]. destruct (Z.eqb_spec x 85); [lia|].
  unfold lead_len. destruct (Z.ltb_spec x 128); [|lia]. reflexivity.
Qed.

Lemma D_simple x y rest :
  x <> 117 -> x <> 85 -> 0 <= x < 128 -> uslice [92; x] = Some ([y], []) ->
  D (SG []) (92 :: x :: rest) = oprep [y] (D (SG []) rest).
Proof.
  intros. unfold D at 1. rewrite sscan_simple by assumption.
  fold (Dk (oapp [[92; x]] (sscan (SG []) rest))). rewrite (Dk_oapp_ok _ [y]) by assumption. reflexivity.
Qed.

Ltac hexstep H := unfold sstep at 1; rewrite H; cbn [Nat.eqb]; cbv iota.

Lemma sscan_u4 a b c d rest :
  is_hex a = true -> is_hex b = true -> is_hex c = true -> is_hex d = true ->
  sscan (SG []) (92 :: 117 :: a :: b :: c :: d :: rest) = oapp [[92; 117; a; b; c; d]] (sscan (SG []) rest).
Proof.
  intros Ha Hb Hc Hd. rewrite sscan_bs. cbn [sscan].
  unfold sstep at 1. change (117 =? 117) with true. cbv iota.
  hexstep Ha. hexstep Hb. hexstep Hc. hexstep Hd.
  rewrite !oapp_nil. reflexivity.
Qed.

Lemma sscan_u8 a b c d e f g h rest :
  is_hex a = true -> is_hex b = true -> is_hex c = true -> is_hex d = true ->
  is_hex e = true -> is_hex f = true -> is_hex g = true -> is_hex h = true ->
  sscan (SG []) (92 :: 85 :: a :: b :: c :: d :: e :: f :: g :: h :: rest)
  = oapp [[92; 85; a; b; c; d; e; f; g; h]] (sscan (SG []) rest).
Proof.
  intros Ha Hb Hc Hd He Hf Hg Hh. rewrite sscan_bs. cbn [sscan].
  unfold sstep at 1. change (85 =? 117) with false. change (85 =? 85) with true. cbv iota.
  hexstep Ha. hexstep Hb. hexstep Hc. hexstep Hd. hexstep He. hexstep Hf. hexstep Hg. hexstep Hh.
  rewrite !oapp_nil. reflexivity.
Qed.

Lemma uslice_u4 digits r :
  length digits = 4%nat -> parse_hex digits = Some r -> valid_scalar r ->
  uslice (92 :: 117 :: digits) = Some (utf8_enc r, []).
Proof.
  intros Hl Hp Hv. unfold uslice. change (92 =? 92) with true. cbv iota.
  change (117 =? 110) with false. change (117 =? 114) with false. change (117 =? 116) with false.
  change (117 =? 34) with false. change (117 =? 92) with false. change (117 =? 117) with true.
  cbv iota. simpl orb. cbv iota.
  unfold zlen. simpl length. rewrite Hl. change (Z.of_nat 6 =? 6) with true. simpl andb. cbv iota.
  change (117 =? 85) with false. simpl andb. cbv iota. rewrite Hp.
  assert (r <= 1114111) by (unfold valid_scalar in Hv; lia).
  destruct (Z.leb_spec 2147483648 r); [lia|].
  apply valid_scalar_b_spec in Hv. rewrite Hv. reflexivity.
Qed.

Lemma uslice_u8 digits r :
  length digits = 8%nat -> parse_hex digits = Some r -> valid_scalar r ->
  uslice (92 :: 85 :: digits) = Some (utf8_enc r, []).
Proof.
  intros Hl Hp Hv. unfold uslice. change (92 =? 92) with true. cbv iota.
  change (85 =? 110) with false. change (85 =? 114) with false. change (85 =? 116) with false.
  change (85 =? 34) with false. change (85 =? 92) with false. change (85 =? 117) with false.
  change (85 =? 85) with true. simpl orb. cbv iota. simpl andb. cbv iota.
  unfold zlen. simpl length. rewrite Hl. change (Z.of_nat 10 =? 10) with true. simpl andb. cbv iota.
  rewrite Hp.
  assert (r <= 1114111) by (unfold valid_scalar in Hv; lia).
  destruct (Z.leb_spec 2147483648 r); [lia|].
  apply valid_scalar_b_spec in Hv. rewrite Hv. reflexivity.
Qed.

Lemma hex4_digits r : exists a b c d, hex4 r = [a; b; c; d] /\
  is_hex a = true /\ is_hex b = true /\ is_hex c = true /\ is_hex d = true.
Proof.
  unfold hex4. do 4 eexists. split; [reflexivity|].
  repeat split; apply hex_digit_is_hex, Z.mod_pos_bound; lia.
Qed.

Lemma hex8_digits r : exists a b c d e f g h, hex8 r = [a; b; c; d; e; f; g; h] /\
  is_hex a = true /\ is_hex b = true /\ is_hex c = true /\ is_hex d = true /\
  is_hex e = true /\ is_hex f = true /\ is_hex g = true /\ is_hex h = true.
Proof.
  unfold hex8, hex4. simpl app. do 8 eexists. split; [reflexivity|].
  repeat split; apply hex_digit_is_hex, Z.mod_pos_bound; lia.
Qed.

Lemma D_u4 r rest :
  valid_scalar r -> r < 65536 ->
  D (SG []) (92 :: 117 :: hex4 r ++ rest) = oprep (utf8_enc r) (D (SG []) rest).
Proof.
  intros Hv Hlt. destruct (hex4_digits r) as (a & b & c & d & E & Ha & Hb & Hc & Hd).
  assert (Hu : uslice (92 :: 117 :: hex4 r) = Some (utf8_enc r, [])).
  { apply uslice_u4; [rewrite E; reflexivity| |assumption].
    apply hex4_value. unfold valid_scalar in Hv. lia. }
  rewrite E in *. simpl app. unfold D at 1. rewrite sscan_u4 by assumption.
  fold (Dk (oapp [[92; 117; a; b; c; d]] (sscan (SG []) rest))).
  rewrite (Dk_oapp_ok _ _ _ Hu). reflexivity.
Qed.

Lemma D_u8 r rest :
  valid_scalar r ->
  D (SG []) (92 :: 85 :: hex8 r ++ rest) = oprep (utf8_enc r) (D (SG []) rest).
Proof.
  intros Hv. destruct (hex8_digits r) as (a & b & c & d & e & f & g & h & E & Ha & Hb & Hc & Hd & He & Hf & Hg & Hh).
  assert (Hu : uslice (92 :: 85 :: hex8 r) = Some (utf8_enc r, [])).
  { apply uslice_u8; [rewrite E; reflexivity| |assumption].
    apply hex8_value. unfold valid_scalar in Hv. lia. }
  rewrite E in *. simpl app. unfold D at 1. rewrite sscan_u8 by assumption.
  fold (Dk (oapp [[92; 85; a; b; c; d; e; f; g; h]] (sscan (SG []) rest))).
  rewrite (Dk_oapp_ok _ _ _ Hu). reflexivity.
Qed.

(* ------------------------------------------------------------------------ *)
(* escapeQuotedStringLit, rune by rune                                      *)
(* ------------------------------------------------------------------------ *)
Definition plain (r : Z) : Prop := r <> 36 /\ r <> 37.
Definition tmpl (c : Z) : Prop := c = 36 \/ c = 37.

Lemma plain_or_tmpl r : plain r \/ tmpl r.
Proof. unfold plain, tmpl. lia. Qed.

Lemma utf8_raw r :
  valid_scalar r -> r <> 92 -> r <> 36 -> r <> 37 -> r <> 13 -> r <> 10 -> Forall raw_byte (utf8_enc r).
Proof.
  intros Hv. intros. destruct (Z.lt_ge_cases r 128).
  - rewrite utf8_enc_ascii by assumption. constructor; [unfold raw_byte; lia|constructor].
  - apply Forall_forall. intros b Hin. apply utf8_enc_high in Hin; [|unfold valid_scalar in Hv; lia].
    unfold raw_byte. lia.
Qed.

Lemma oprep_inv a o x e : oprep a o = Some (a ++ x, e) -> o = Some (x, e).
Proof.
  destruct o as [[y e']|]; simpl; [|discriminate]. intros H. inversion H as [[H1 H2]].
  apply app_inv_head in H1. subst. reflexivity.
Qed.

Section Codec.
  Variable is_print : Z -> bool.
  Notation erune := (escape_rune is_print).
  Notation esc := (escape is_print).

  Lemma erune_first r f : valid_scalar r ->
    exists b tl, erune r f = b :: tl /\ (b = r \/ b = 92 \/ 128 <= b).
  Proof.
    intros Hv. unfold escape_rune.
    destruct (r =? 10); [do 2 eexists; split; [reflexivity|lia]|].
    destruct (r =? 13); [do 2 eexists; split; [reflexivity|lia]|].
    destruct (r =? 9); [do 2 eexists; split; [reflexivity|lia]|].
    destruct (r =? 34); [do 2 eexists; split; [reflexivity|lia]|].
    destruct (r =? 92); [do 2 eexists; split; [reflexivity|lia]|].
    destruct ((r =? 36) || (r =? 37)).
    { destruct f; do 2 eexists; (split; [reflexivity|lia]). }
    destruct (negb (is_print r)).
    { destruct (r <? 65536); do 2 eexists; (split; [reflexivity|lia]). }
    destruct (Z.lt_ge_cases r 128).
    - rewrite utf8_enc_ascii by assumption. do 2 eexists; split; [reflexivity|lia].
    - assert (Hr : 128 <= r <= 1114111) by (unfold valid_scalar in Hv; lia).
      pose proof (utf8_enc_high r) as Hh.
      destruct (utf8_enc r) as [|b tl] eqn:E.
      + unfold utf8_enc in E. destruct (r <? 128); [discriminate|].
        destruct (r <? 2048); [discriminate|]. destruct (r <? 65536); discriminate.
      + do 2 eexists; split; [reflexivity|]. right; right. apply Hh; [assumption|left; reflexivity].
  Qed.

  Lemma D_rune_plain r f rest :
    valid_scalar r -> plain r ->
    D (SG []) (erune r f ++ rest) = oprep (utf8_enc r) (D (SG []) rest).
  Proof.
    intros Hv [Hp1 Hp2]. unfold escape_rune.
    destruct (Z.eqb_spec r 10); [subst; apply (D_simple 110 10); try lia; reflexivity|].
    destruct (Z.eqb_spec r 13); [subst; apply (D_simple 114 13); try lia; reflexivity|].
    destruct (Z.eqb_spec r 9); [subst; apply (D_simple 116 9); try lia; reflexivity|].
    destruct (Z.eqb_spec r 34); [subst; apply (D_simple 34 34); try lia; reflexivity|].
    destruct (Z.eqb_spec r 92); [subst; apply (D_simple 92 92); try lia; reflexivity|].
    destruct (Z.eqb_spec r 36); [lia|]. destruct (Z.eqb_spec r 37); [lia|]. simpl orb. cbv iota.
    destruct (negb (is_print r)).
    - destruct (Z.ltb_spec r 65536).
      + simpl app. apply D_u4; assumption.
      + simpl app. apply D_u8; assumption.
    - apply D_raw, utf8_raw; assumption.
  Qed.

  (* a lone '$' / '%' *)
  Lemma sscan_tmpl c rest : tmpl c -> sscan (SG []) (c :: rest) = sscan (SD1 c) rest.
  Proof. intros [-> | ->]; cbn [sscan sstep]; unfold sground; simpl; apply oapp_nil. Qed.

  Lemma uslice_tmpl1 c : tmpl c -> uslice [c] = Some ([c], []).
  Proof. intros [-> | ->]; reflexivity. Qed.

  Lemma D_tmpl_other c b rest :
    tmpl c -> b <> c -> D (SG []) (c :: b :: rest) = oprep [c] (D (SG []) (b :: rest)).
  Proof.
    intros Hc Hb. unfold D at 1. rewrite sscan_tmpl by assumption.
    cbn [sscan]. unfold sstep at 1. destruct (Z.eqb_spec b c); [lia|].
    unfold sadd. unfold D. cbn [sscan]. change (sstep (SG []) b) with (sground [] b).
    destruct (sground [] b) as [[o st]|]; [|reflexivity].
    rewrite <- oapp_app. fold (Dk (oapp [[c]] (oapp o (sscan st rest)))).
    rewrite (Dk_oapp_ok _ [c]) by (apply uslice_tmpl1; assumption). reflexivity.
  Qed.

  Lemma D_tmpl_end c : tmpl c -> D (SG []) [c] = Some ([c], []).
  Proof. intros [-> | ->]; reflexivity. Qed.

  Lemma D_tmpl_brace c rest :
    tmpl c -> D (SG []) (c :: c :: 123 :: rest) = oprep [c; 123] (D (SG []) rest).
  Proof.
    intros Hc. unfold D at 1. rewrite sscan_tmpl by assumption.
    assert (E : sscan (SD1 c) (c :: 123 :: rest) = oapp [[c; c; 123]] (sscan (SG []) rest)).
    { cbn [sscan]. unfold sstep at 1. rewrite Z.eqb_refl. unfold sstep at 1.
      change (123 =? 123) with true. cbv iota. rewrite oapp_nil. reflexivity. }
    rewrite E. fold (Dk (oapp [[c; c; 123]] (sscan (SG []) rest))).
    rewrite (Dk_oapp_ok _ [c; 123]); [reflexivity|]. destruct Hc as [-> | ->]; reflexivity.
  Qed.

  Hypothesis brace_printable : is_print 123 = true.

  Lemma erune_brace f : erune 123 f = [123].
  Proof. unfold escape_rune. simpl. rewrite brace_printable. reflexivity. Qed.

  Lemma esc_brace s : esc (123 :: s) = 123 :: esc s.
  Proof. cbn [escape]. rewrite erune_brace. reflexivity. Qed.

  (* no two equal template characters next to each other *)
  Fixpoint no_double (s : list Z) : Prop :=
    match s with
    | a :: (b :: _) as t => ~ (tmpl a /\ a = b) /\ no_double t
    | _ => True
    end.

  (* ParseStringLiteralToken applied to the WHOLE escaped string (the token
     TokensForValue builds), for strings without "$$" / "%%" *)
  Lemma D_escape_no_double s :
    Forall valid_scalar s -> no_double s -> D (SG []) (esc s) = Some (utf8 s, []).
  Proof.
    induction s as [|r s' IH]; intros Hv Hnd; [reflexivity|].
    inversion Hv as [|? ? Hr Hs']; subst.
    assert (Hnd' : no_double s') by (destruct s'; [exact I|apply Hnd]).
    specialize (IH Hs' Hnd').
    cbn [escape]. destruct (plain_or_tmpl r) as [Hp|Hc].
    { rewrite D_rune_plain by assumption. rewrite IH. reflexivity. }
    assert (Er : forall f, erune r f = if f then [r; r] else [r]).
    { intros f. destruct Hc as [-> | ->]; reflexivity. }
    assert (Eu : utf8_enc r = [r]) by (destruct Hc as [-> | ->]; reflexivity).
    rewrite Er. cbn [utf8 flat_map]. rewrite Eu. fold (utf8 s'). destruct s' as [|r' s''].
    - simpl. apply D_tmpl_end, Hc.
    - inversion Hs' as [|? ? Hr' _]; subst. cbn [starts_brace].
      destruct (Z.eqb_spec r' 123) as [->|Hnb].
      + rewrite esc_brace in *. simpl app.
        rewrite D_tmpl_brace by assumption.
        change (123 :: esc s'') with ([123] ++ esc s'') in IH.
        rewrite D_raw in IH by (constructor; [unfold raw_byte; lia|constructor]).
        change (utf8 (123 :: s'')) with ([123] ++ utf8 s'') in IH.
        apply oprep_inv in IH. rewrite IH. reflexivity.
      + simpl app. cbn [escape] in *.
        destruct (erune_first r' (starts_brace s'') Hr') as (b & tl & Eb & Hb).
        rewrite Eb in *. simpl app in *.
        assert (b <> r).
        { destruct Hnd as [Hnd _]. unfold tmpl in Hc. intros ->.
          destruct Hb as [Hb|[Hb|Hb]]; [apply Hnd; split; [exact Hc|congruence]|lia|lia]. }
        rewrite D_tmpl_other by assumption. rewrite IH. reflexivity.
  Qed.

  Theorem unescape_escape_no_double s :
    Forall valid_scalar s -> no_double s -> unescape (esc s) = UOk (utf8 s) [].
  Proof.
    intros Hv Hnd. pose proof (D_escape_no_double s Hv Hnd) as H.
    unfold D in H. unfold unescape, scan_string_lit.
    destruct (sscan (SG []) (esc s)); [|discriminate]. rewrite H. reflexivity.
  Qed.
  (* ---------------------------------------------------------------------- *)
  (* the stringTemplate scanner on escaped text                             *)
  (* ---------------------------------------------------------------------- *)
  Definition mlit (cur : list Z) : mstate := match cur with [] => MG | _ => MLit cur end.

  (* result of lexing + un-escaping: content and the bytes after the quote *)
  Definition Rd (res : list piece * lstatus) : option (list Z * list Z) :=
    match res with
    | (ps, LClosed rest) => match read_pieces ps with Some s => Some (s, rest) | None => None end
    | _ => None
    end.

  Definition rprep (a : list Z) (o : option (list Z * list Z)) : option (list Z * list Z) :=
    match o with Some (s, rest) => Some (a ++ s, rest) | None => None end.

  Lemma padd_nil res : padd [] res = res.
  Proof. destruct res; reflexivity. Qed.

  Lemma read_pieces_app a b :
    read_pieces (a ++ b) =
    match read_pieces a, read_pieces b with Some x, Some y => Some (x ++ y) | _, _ => None end.
  Proof.
    induction a as [|p a IH]; simpl.
    - destruct (read_pieces b); reflexivity.
    - destruct p; try reflexivity. destruct (unescape bs) as [s es| |]; try reflexivity.
      destruct es; [|reflexivity]. rewrite IH.
      destruct (read_pieces a), (read_pieces b); try reflexivity. rewrite app_assoc. reflexivity.
  Qed.

  Lemma Rd_padd out a res : read_pieces out = Some a -> Rd (padd out res) = rprep a (Rd res).
  Proof.
    intros H. destruct res as [ps st]. unfold padd, Rd. simpl fst. simpl snd.
    destruct st; try reflexivity. rewrite read_pieces_app, H.
    destruct (read_pieces ps); reflexivity.
  Qed.

  Lemma rprep_nil o : rprep [] o = o.
  Proof. destruct o as [[? ?]|]; reflexivity. Qed.

  Lemma rprep_app a b o : rprep a (rprep b o) = rprep (a ++ b) o.
  Proof. destruct o as [[? ?]|]; simpl; [rewrite app_assoc|]; reflexivity. Qed.

  Definition not_special (b : Z) : Prop :=
    b <> 34 /\ b <> 36 /\ b <> 37 /\ b <> 92 /\ b <> 13 /\ b <> 10.

  Lemma mstep_mlit_char cur b :
    not_special b ->
    mstep (mlit cur) b =
    match lead_len b with
    | Some O => MCont [] (MLit (cur ++ [b]))
    | Some (S k) => MCont [] (MUtf k (cur ++ [b]))
    | None => MStop (flush_lit cur) KBad
    end.
  Proof.
    intros (H1 & H2 & H3 & H4 & H5 & H6). destruct cur as [|c0 tl]; simpl mlit; cbn [mstep].
    - unfold mground, is_tmpl_char, is_nl_char.
      destruct (Z.eqb_spec b 34); [lia|]. destruct (Z.eqb_spec b 36); [lia|].
      destruct (Z.eqb_spec b 37); [lia|]. destruct (Z.eqb_spec b 92); [lia|].
      destruct (Z.eqb_spec b 13); [lia|]. destruct (Z.eqb_spec b 10); [lia|]. reflexivity.
    - unfold is_tmpl_char, is_nl_char.
      destruct (Z.eqb_spec b 34); [lia|]. destruct (Z.eqb_spec b 36); [lia|].
      destruct (Z.eqb_spec b 37); [lia|]. destruct (Z.eqb_spec b 92); [lia|].
      destruct (Z.eqb_spec b 13); [lia|]. destruct (Z.eqb_spec b 10); [lia|]. reflexivity.
  Qed.

  Lemma mlit_snoc cur l : l <> [] -> mlit (cur ++ l) = MLit (cur ++ l).
  Proof. intros H. destruct (cur ++ l) eqn:E; [|reflexivity]. apply app_eq_nil in E. tauto. Qed.

  Lemma lexq_plain_byte cur b X :
    0 <= b < 128 -> not_special b -> lexq (mlit cur) (b :: X) = lexq (mlit (cur ++ [b])) X.
  Proof.
    intros Hb Hs. cbn [lexq]. rewrite mstep_mlit_char by assumption.
    unfold lead_len. destruct (Z.ltb_spec b 128); [|lia]. rewrite padd_nil.
    rewrite mlit_snoc by discriminate. reflexivity.
  Qed.

  Lemma lexq_plain_bytes l : forall cur X,
    Forall (fun b => 0 <= b < 128 /\ not_special b) l ->
    lexq (mlit cur) (l ++ X) = lexq (mlit (cur ++ l)) X.
  Proof.
    induction l as [|b l IH]; intros cur X H.
    - rewrite app_nil_r. reflexivity.
    - inversion H as [|? ? [Hb Hs] Hl]; subst. simpl app.
      rewrite lexq_plain_byte by assumption. rewrite IH by assumption.
      rewrite <- app_assoc. reflexivity.
  Qed.

  Lemma lexq_bs_pair cur x X :
    0 <= x < 128 -> x <> 13 -> x <> 10 ->
    lexq (mlit cur) (92 :: x :: X) = lexq (mlit (cur ++ [92; x])) X.
  Proof.
    intros Hx H13 H10.
    assert (E : mstep (mlit cur) 92 = MCont [] (MBs cur)) by (destruct cur; reflexivity).
    cbn [lexq]. rewrite E. rewrite padd_nil. cbn [mstep]. unfold is_nl_char.
    destruct (Z.eqb_spec x 13); [lia|]. destruct (Z.eqb_spec x 10); [lia|]. simpl orb. cbv iota.
    unfold lead_len. destruct (Z.ltb_spec x 128); [|lia]. rewrite padd_nil.
    rewrite mlit_snoc by discriminate. reflexivity.
  Qed.

  Lemma lexq_utf8 cur l X :
    utf8_shape l -> (forall b, l = [b] -> not_special b) ->
    lexq (mlit cur) (l ++ X) = lexq (mlit (cur ++ l)) X.
  Proof.
    intros Hs H1. unfold is_cont in *.
    inversion Hs; subst; simpl app.
    - apply lexq_plain_byte; [assumption|apply H1; reflexivity].
    - cbn [lexq]. rewrite mstep_mlit_char by (unfold not_special; lia).
      unfold lead_len. destruct (Z.ltb_spec l0 128); [lia|].
      replace ((192 <=? l0) && (l0 <=? 223)) with true by lia. rewrite padd_nil.
      cbn [mstep]. unfold is_cont. replace ((128 <=? c1) && (c1 <=? 191)) with true by lia.
      rewrite padd_nil. rewrite <- app_assoc. rewrite mlit_snoc by discriminate. reflexivity.
    - cbn [lexq]. rewrite mstep_mlit_char by (unfold not_special; lia).
      unfold lead_len. destruct (Z.ltb_spec l0 128); [lia|].
      replace ((192 <=? l0) && (l0 <=? 223)) with false by lia.
      replace ((224 <=? l0) && (l0 <=? 239)) with true by lia. rewrite padd_nil.
      cbn [mstep]. unfold is_cont. replace ((128 <=? c1) && (c1 <=? 191)) with true by lia.
      rewrite padd_nil. cbn [mstep]. unfold is_cont.
      replace ((128 <=? c2) && (c2 <=? 191)) with true by lia.
      rewrite padd_nil. rewrite <- !app_assoc. rewrite mlit_snoc by discriminate. reflexivity.
    - cbn [lexq]. rewrite mstep_mlit_char by (unfold not_special; lia).
      unfold lead_len. destruct (Z.ltb_spec l0 128); [lia|].
      replace ((192 <=? l0) && (l0 <=? 223)) with false by lia.
      replace ((224 <=? l0) && (l0 <=? 239)) with false by lia.
      replace ((240 <=? l0) && (l0 <=? 247)) with true by lia. rewrite padd_nil.
      cbn [mstep]. unfold is_cont. replace ((128 <=? c1) && (c1 <=? 191)) with true by lia.
      rewrite padd_nil. cbn [mstep]. unfold is_cont.
      replace ((128 <=? c2) && (c2 <=? 191)) with true by lia.
      rewrite padd_nil. cbn [mstep]. unfold is_cont.
      replace ((128 <=? c3) && (c3 <=? 191)) with true by lia.
      rewrite padd_nil. rewrite <- !app_assoc. rewrite mlit_snoc by discriminate. reflexivity.
  Qed.

  Lemma hex_digit_plain d : 0 <= d < 16 ->
    0 <= hex_digit d < 128 /\ not_special (hex_digit d).
  Proof. intros. unfold hex_digit, not_special. destruct (Z.ltb_spec d 10); lia. Qed.

  Lemma erune_nonempty r f : erune r f <> [].
  Proof.
    unfold escape_rune.
    repeat match goal with |- (if ?c then _ else _) <> [] => destruct c; try discriminate end.
    unfold utf8_enc.
    repeat match goal with |- (if ?c then _ else _) <> [] => destruct c; try discriminate end.
  Qed.

  (* a rune other than '$' '%' extends the literal token in progress *)
  Lemma lexq_rune_plain cur r f X :
    valid_scalar r -> plain r ->
    lexq (mlit cur) (erune r f ++ X) = lexq (mlit (cur ++ erune r f)) X.
  Proof.
    intros Hv [Hp1 Hp2]. unfold escape_rune.
    destruct (Z.eqb_spec r 10); [apply lexq_bs_pair; lia|].
    destruct (Z.eqb_spec r 13); [apply lexq_bs_pair; lia|].
    destruct (Z.eqb_spec r 9); [apply lexq_bs_pair; lia|].
    destruct (Z.eqb_spec r 34); [apply lexq_bs_pair; lia|].
    destruct (Z.eqb_spec r 92); [apply lexq_bs_pair; lia|].
    destruct (Z.eqb_spec r 36); [lia|]. destruct (Z.eqb_spec r 37); [lia|]. simpl orb. cbv iota.
    destruct (negb (is_print r)).
    - destruct (Z.ltb_spec r 65536).
      + assert (Hh : Forall (fun b => 0 <= b < 128 /\ not_special b) (hex4 r)).
        { unfold hex4. repeat constructor; try apply hex_digit_plain; apply Z.mod_pos_bound; lia. }
        remember (hex4 r) as h. change ((92 :: 117 :: h) ++ X) with (92 :: 117 :: (h ++ X)).
        rewrite lexq_bs_pair by lia. rewrite lexq_plain_bytes by assumption.
        rewrite <- app_assoc. reflexivity.
      + assert (Hh : Forall (fun b => 0 <= b < 128 /\ not_special b) (hex8 r)).
        { unfold hex8, hex4. simpl app.
          repeat constructor; try apply hex_digit_plain; apply Z.mod_pos_bound; lia. }
        remember (hex8 r) as h. change ((92 :: 85 :: h) ++ X) with (92 :: 85 :: (h ++ X)).
        rewrite lexq_bs_pair by lia. rewrite lexq_plain_bytes by assumption.
        rewrite <- app_assoc. reflexivity.
    - apply lexq_utf8.
      + apply utf8_enc_shape. unfold valid_scalar in Hv. lia.
      + intros b Eb. destruct (Z.lt_ge_cases r 128).
        * rewrite utf8_enc_ascii in Eb by assumption. inversion Eb; subst. unfold not_special. lia.
        * assert (128 <= b); [|unfold not_special; lia].
          apply (utf8_enc_high r); [unfold valid_scalar in Hv; lia|rewrite Eb; left; reflexivity].
  Qed.

  (* ---- escape: context (in)dependence ---------------------------------- *)
  Lemma erune_plain_flag r f : plain r -> erune r f = erune r false.
  Proof.
    intros [H1 H2]. unfold escape_rune.
    destruct (Z.eqb_spec r 36); [lia|]. destruct (Z.eqb_spec r 37); [lia|]. reflexivity.
  Qed.

  Lemma erune_tmpl c f : tmpl c -> erune c f = if f then [c; c] else [c].
  Proof. intros [-> | ->]; reflexivity. Qed.

  Lemma esc_app_plain t u : Forall plain t -> esc (t ++ u) = esc t ++ esc u.
  Proof.
    induction t as [|a t IH]; intros H; [reflexivity|].
    inversion H as [|? ? Ha Ht]; subst. simpl app. cbn [escape].
    rewrite IH by assumption. rewrite (erune_plain_flag a (starts_brace (t ++ u))) by assumption.
    rewrite (erune_plain_flag a (starts_brace t)) by assumption. rewrite app_assoc. reflexivity.
  Qed.

  Lemma plain_no_double t : Forall plain t -> no_double t.
  Proof.
    induction t as [|a t IH]; intros H; [exact I|].
    inversion H as [|? ? [Ha1 Ha2] Ht]; subst. destruct t as [|b t']; [exact I|].
    split; [|apply IH, Ht]. unfold tmpl. lia.
  Qed.

  (* ---- single steps of the template scanner ----------------------------- *)
  Lemma lexq_close cur rest : lexq (mlit cur) (34 :: rest) = (flush_lit cur, LClosed rest).
  Proof. destruct cur; reflexivity. Qed.

  Lemma lexq_tmpl cur c Y : tmpl c -> lexq (mlit cur) (c :: Y) = padd (flush_lit cur) (lexq (MD c) Y).
  Proof. intros [-> | ->]; destruct cur; reflexivity. Qed.

  Lemma padd_app a b res : padd a (padd b res) = padd (a ++ b) res.
  Proof. destruct res. unfold padd. simpl. rewrite app_assoc. reflexivity. Qed.

  Lemma lexq_madd st b X out :
    mstep st b = madd out (mground b) -> lexq st (b :: X) = padd out (lexq MG (b :: X)).
  Proof.
    intros H. cbn [lexq]. rewrite H. change (mstep MG b) with (mground b).
    destruct (mground b) as [o st'|o k]; simpl madd; cbv iota.
    - rewrite padd_app. reflexivity.
    - destruct k; reflexivity.
  Qed.

  Lemma lexq_MD_other c b X :
    b <> 123 -> b <> c -> lexq (MD c) (b :: X) = padd [PLit [c]] (lexq MG (b :: X)).
  Proof.
    intros H1 H2. apply lexq_madd. cbn [mstep].
    destruct (Z.eqb_spec b 123); [lia|]. destruct (Z.eqb_spec b c); [lia|]. reflexivity.
  Qed.

  Lemma lexq_MD_c c X : tmpl c -> lexq (MD c) (c :: X) = lexq (MDD c) X.
  Proof. intros [-> | ->]; cbn [lexq mstep]; simpl; apply padd_nil. Qed.

  Lemma lexq_MDD_brace c X : lexq (MDD c) (123 :: X) = lexq (MEsc c) X.
  Proof. cbn [lexq mstep]. simpl. apply padd_nil. Qed.

  Lemma lexq_MDD_c c X : tmpl c -> lexq (MDD c) (c :: X) = padd [PLit [c]] (lexq (MDD c) X).
  Proof. intros [-> | ->]; reflexivity. Qed.

  Lemma lexq_MDD_other c b X :
    b <> 123 -> b <> c -> lexq (MDD c) (b :: X) = padd [PLit [c]; PLit [c]] (lexq MG (b :: X)).
  Proof.
    intros H1 H2. apply lexq_madd. cbn [mstep].
    destruct (Z.eqb_spec b 123); [lia|]. destruct (Z.eqb_spec b c); [lia|]. reflexivity.
  Qed.

  Lemma lexq_MEsc_tilde c X : lexq (MEsc c) (126 :: X) = padd [PLit [c; c; 123; 126]] (lexq MG X).
  Proof. reflexivity. Qed.

  Lemma lexq_MEsc_other c b X :
    b <> 126 -> lexq (MEsc c) (b :: X) = padd [PLit [c; c; 123]] (lexq MG (b :: X)).
  Proof.
    intros H. apply lexq_madd. cbn [mstep]. destruct (Z.eqb_spec b 126); [lia|]. reflexivity.
  Qed.

  (* ---- un-escaping the tokens ------------------------------------------- *)
  Lemma read_lit1 c : tmpl c -> read_pieces [PLit [c]] = Some [c].
  Proof. intros [-> | ->]; reflexivity. Qed.
  Lemma read_lit2 c : tmpl c -> read_pieces [PLit [c]; PLit [c]] = Some [c; c].
  Proof. intros [-> | ->]; reflexivity. Qed.
  Lemma read_esc c : tmpl c -> read_pieces [PLit [c; c; 123]] = Some [c; 123].
  Proof. intros [-> | ->]; reflexivity. Qed.
  Lemma read_esc_tilde c : tmpl c -> read_pieces [PLit [c; c; 123; 126]] = Some [c; 123; 126].
  Proof. intros [-> | ->]; reflexivity. Qed.

  Lemma read_flush t :
    Forall valid_scalar t -> Forall plain t -> read_pieces (flush_lit (esc t)) = Some (utf8 t).
  Proof.
    intros Hv Hp. pose proof (unescape_escape_no_double t Hv (plain_no_double t Hp)) as H.
    destruct (esc t) as [|b tl] eqn:E.
    - simpl. change (unescape []) with (UOk [] []) in H. inversion H. reflexivity.
    - cbn [flush_lit read_pieces]. rewrite H. rewrite app_nil_r. reflexivity.
  Qed.

  (* ---- the four entry states --------------------------------------------- *)
  Definition Q0 (s : list Z) : Prop := forall t rest,
    Forall valid_scalar t -> Forall plain t ->
    Rd (lexq (mlit (esc t)) (esc s ++ 34 :: rest)) = Some (utf8 t ++ utf8 s, rest).
  Definition Q1 (s : list Z) : Prop := forall c rest,
    tmpl c -> starts_brace s = false ->
    Rd (lexq (MD c) (esc s ++ 34 :: rest)) = Some (c :: utf8 s, rest).
  Definition Q2 (s : list Z) : Prop := forall c rest,
    tmpl c ->
    Rd (lexq (MDD c) ((if starts_brace s then [c] else []) ++ esc s ++ 34 :: rest))
    = Some (c :: c :: utf8 s, rest).
  Definition QE (s : list Z) : Prop := forall c rest,
    tmpl c -> Rd (lexq (MEsc c) (esc s ++ 34 :: rest)) = Some (c :: 123 :: utf8 s, rest).

  Lemma all_nil : Q0 [] /\ Q1 [] /\ Q2 [] /\ QE [].
  Proof.
    repeat split.
    - intros t rest Hv Hp. simpl app. rewrite lexq_close. unfold Rd.
      rewrite read_flush by assumption. rewrite app_nil_r. reflexivity.
    - intros c rest [-> | ->] _; reflexivity.
    - intros c rest [-> | ->]; reflexivity.
    - intros c rest [-> | ->]; reflexivity.
  Qed.

  Lemma Q0_MG s rest : Q0 s -> Rd (lexq MG (esc s ++ 34 :: rest)) = Some (utf8 s, rest).
  Proof. intros H. apply (H [] rest); constructor. Qed.

  Lemma first_byte r s' rest : valid_scalar r ->
    exists b X, esc (r :: s') ++ 34 :: rest = b :: X /\ (b = r \/ b = 92 \/ 128 <= b).
  Proof.
    intros Hv. destruct (erune_first r (starts_brace s') Hv) as (b & tl & E & Hb).
    exists b, (tl ++ esc s' ++ 34 :: rest). split; [|exact Hb].
    cbn [escape]. rewrite E. rewrite <- app_assoc. reflexivity.
  Qed.

  Lemma all_n : forall n s, (length s <= n)%nat -> Forall valid_scalar s ->
    Q0 s /\ Q1 s /\ Q2 s /\ QE s.
  Proof.
    induction n as [|n IH]; intros s Hlen Hv.
    { destruct s; [apply all_nil|simpl in Hlen; lia]. }
    destruct s as [|r s']; [apply all_nil|].
    inversion Hv as [|? ? Hr Hs']; subst. simpl in Hlen.
    assert (IHs' : Q0 s' /\ Q1 s' /\ Q2 s' /\ QE s') by (apply IH; [lia|assumption]).
    destruct IHs' as (I0 & I1 & I2 & IE).
    assert (H0 : Q0 (r :: s')).
    { intros t rest Ht Hpt. cbn [escape]. rewrite <- app_assoc.
      destruct (plain_or_tmpl r) as [Hp|Hc].
      - rewrite lexq_rune_plain by assumption.
        replace (esc t ++ erune r (starts_brace s')) with (esc (t ++ [r])).
        2:{ rewrite esc_app_plain by assumption. cbn [escape]. rewrite app_nil_r.
            rewrite (erune_plain_flag r (starts_brace s')) by assumption. reflexivity. }
        rewrite (I0 (t ++ [r]) rest).
        + unfold utf8. rewrite flat_map_app. simpl flat_map. rewrite app_nil_r, <- app_assoc. reflexivity.
        + apply Forall_app; split; [assumption|constructor; [assumption|constructor]].
        + apply Forall_app; split; [assumption|constructor; [assumption|constructor]].
      - assert (Eu : utf8_enc r = [r]) by (destruct Hc as [-> | ->]; reflexivity).
        rewrite erune_tmpl by assumption.
        destruct (starts_brace s') eqn:Esb.
        + destruct s' as [|r' s'']; [discriminate|]. simpl in Esb. apply Z.eqb_eq in Esb. subst r'.
          rewrite esc_brace. simpl app.
          rewrite lexq_tmpl, lexq_MD_c, lexq_MDD_brace by assumption.
          rewrite (Rd_padd _ (utf8 t)) by (apply read_flush; assumption).
          assert (IE'' : QE s'').
          { inversion Hs'; subst. apply IH; [simpl in Hlen; lia|assumption]. }
          rewrite (IE'' r rest Hc). cbn [utf8 flat_map]. rewrite Eu. reflexivity.
        + simpl app. rewrite lexq_tmpl by assumption.
          rewrite (Rd_padd _ (utf8 t)) by (apply read_flush; assumption).
          rewrite (I1 r rest Hc Esb). cbn [utf8 flat_map]. rewrite Eu. reflexivity. }
    split; [exact H0|]. split; [|split].
    - (* Q1 *)
      intros c rest Hc Hsb. simpl in Hsb. apply Z.eqb_neq in Hsb.
      assert (Euc : utf8_enc c = [c]) by (destruct Hc as [-> | ->]; reflexivity).
      destruct (Z.eq_dec r c) as [->|Hne].
      + cbn [escape]. rewrite erune_tmpl by assumption. rewrite <- app_assoc.
        replace ((if starts_brace s' then [c; c] else [c]) ++ esc s' ++ 34 :: rest)
          with (c :: (if starts_brace s' then [c] else []) ++ esc s' ++ 34 :: rest)
          by (destruct (starts_brace s'); reflexivity).
        rewrite lexq_MD_c by assumption. rewrite (I2 c rest Hc).
        cbn [utf8 flat_map]. rewrite Euc. reflexivity.
      + destruct (first_byte r s' rest Hr) as (b & X & E & Hb). rewrite E.
        assert (b <> 123 /\ b <> c) as [Hb1 Hb2] by (unfold tmpl in Hc; lia).
        rewrite lexq_MD_other by assumption. rewrite <- E.
        rewrite (Rd_padd _ [c]) by (apply read_lit1; assumption).
        rewrite (Q0_MG _ rest H0). reflexivity.
    - (* Q2 *)
      intros c rest Hc.
      assert (Euc : utf8_enc c = [c]) by (destruct Hc as [-> | ->]; reflexivity).
      cbn [starts_brace]. destruct (Z.eqb_spec r 123) as [->|Hnb].
      + rewrite esc_brace. simpl app. rewrite lexq_MDD_c, lexq_MDD_brace by assumption.
        rewrite (Rd_padd _ [c]) by (apply read_lit1; assumption).
        rewrite (IE c rest Hc). reflexivity.
      + cbv iota. rewrite app_nil_l. destruct (Z.eq_dec r c) as [->|Hne].
        * cbn [escape]. rewrite erune_tmpl by assumption. rewrite <- app_assoc.
          replace ((if starts_brace s' then [c; c] else [c]) ++ esc s' ++ 34 :: rest)
            with (c :: (if starts_brace s' then [c] else []) ++ esc s' ++ 34 :: rest)
            by (destruct (starts_brace s'); reflexivity).
          rewrite lexq_MDD_c by assumption.
          rewrite (Rd_padd _ [c]) by (apply read_lit1; assumption).
          rewrite (I2 c rest Hc). cbn [utf8 flat_map]. rewrite Euc. reflexivity.
        * destruct (first_byte r s' rest Hr) as (b & X & E & Hb). rewrite E.
          assert (b <> 123 /\ b <> c) as [Hb1 Hb2] by (unfold tmpl in Hc; lia).
          rewrite lexq_MDD_other by assumption. rewrite <- E.
          rewrite (Rd_padd _ [c; c]) by (apply read_lit2; assumption).
          rewrite (Q0_MG _ rest H0). reflexivity.
    - (* QE *)
      intros c rest Hc.
      assert (Hother : forall b X, esc (r :: s') ++ 34 :: rest = b :: X -> b <> 126 ->
                Rd (lexq (MEsc c) (esc (r :: s') ++ 34 :: rest)) = Some (c :: 123 :: utf8 (r :: s'), rest)).
      { intros b X E Hb. rewrite E. rewrite lexq_MEsc_other by assumption. rewrite <- E.
        rewrite (Rd_padd _ [c; 123]) by (apply read_esc; assumption).
        rewrite (Q0_MG _ rest H0). reflexivity. }
      destruct (Z.eq_dec r 126) as [->|Hne].
      + destruct (is_print 126) eqn:Ep.
        * assert (E126 : erune 126 (starts_brace s') = [126]).
          { unfold escape_rune. simpl. rewrite Ep. reflexivity. }
          cbn [escape]. rewrite E126. simpl app. rewrite lexq_MEsc_tilde.
          rewrite (Rd_padd _ [c; 123; 126]) by (apply read_esc_tilde; assumption).
          rewrite (Q0_MG _ rest I0). reflexivity.
        * assert (E126 : erune 126 (starts_brace s') = 92 :: 117 :: hex4 126).
          { unfold escape_rune. simpl. rewrite Ep. reflexivity. }
          eapply (Hother 92); [|lia]. cbn [escape]. rewrite E126. reflexivity.
      + destruct (first_byte r s' rest Hr) as (b & X & E & Hb).
        apply (Hother b X E). lia.
  Qed.

  (* ---------------------------------------------------------------------- *)
  (* string_codec                                                           *)
  (* ---------------------------------------------------------------------- *)
  Lemma read_pieces_all_lit ps s :
    read_pieces ps = Some s -> Forall (fun p => exists bs, p = PLit bs) ps.
  Proof.
    revert s. induction ps as [|p ps IH]; intros s H; [constructor|].
    destruct p; simpl in H; try discriminate.
    destruct (unescape bs) as [u es| |]; try discriminate. destruct es; [|discriminate].
    destruct (read_pieces ps) eqn:E; [|discriminate].
    constructor; [eexists; reflexivity|eapply IH; reflexivity].
  Qed.

  Lemma escape_no_raw_newline s b : Forall valid_scalar s -> In b (esc s) -> b <> 10 /\ b <> 13.
  Proof.
    induction s as [|r s IH]; intros Hv Hin; [contradiction|].
    inversion Hv as [|? ? Hr Hs]; subst. cbn [escape] in Hin. apply in_app_or in Hin.
    destruct Hin as [Hin|Hin]; [|apply IH; assumption].
    clear IH. unfold escape_rune in Hin.
    destruct (Z.eqb_spec r 10); [simpl in Hin; lia|].
    destruct (Z.eqb_spec r 13); [simpl in Hin; lia|].
    destruct (r =? 9); [simpl in Hin; lia|].
    destruct (r =? 34); [simpl in Hin; lia|].
    destruct (r =? 92); [simpl in Hin; lia|].
    destruct (Z.eqb_spec r 36); [subst; destruct (starts_brace s); simpl in Hin; lia|].
    destruct (Z.eqb_spec r 37); [subst; destruct (starts_brace s); simpl in Hin; lia|].
    simpl orb in Hin. cbv iota in Hin.
    destruct (negb (is_print r)).
    - assert (Hh : forall d, 0 <= d < 16 -> hex_digit d <> 10 /\ hex_digit d <> 13).
      { intros d Hd. unfold hex_digit. destruct (d <? 10); lia. }
      destruct (r <? 65536); unfold hex8, hex4 in Hin; simpl in Hin;
        repeat (destruct Hin as [<-|Hin]; [try lia; apply Hh, Z.mod_pos_bound; lia|]); contradiction.
    - destruct (Z.lt_ge_cases r 128).
      + rewrite utf8_enc_ascii in Hin by assumption. simpl in Hin. lia.
      + apply utf8_enc_high in Hin; [lia|unfold valid_scalar in Hr; lia].
  Qed.

  Theorem string_codec s rest :
    Forall valid_scalar s ->
    (* no raw newline in the escaped text *)
    (forall b, In b (esc s) -> b <> 10 /\ b <> 13) /\
    (* the scanner closes the string exactly at the quote that follows the
       escaped text, having produced literal tokens only ... *)
    (exists ps, lex_quoted (esc s ++ 34 :: rest) = (ps, LClosed rest) /\
                Forall (fun p => exists bs, p = PLit bs) ps /\
                (* ... whose un-escaped contents concatenate to the original string *)
                read_pieces ps = Some (utf8 s)) /\
    read_quoted (esc s ++ 34 :: rest) = ROk (utf8 s) rest.
  Proof.
    intros Hv. split; [intros b; apply escape_no_raw_newline, Hv|].
    destruct (all_n (length s) s (le_n _) Hv) as (H0 & _).
    pose proof (Q0_MG s rest H0) as H. unfold Rd in H.
    unfold read_quoted, lex_quoted.
    destruct (lexq MG (esc s ++ 34 :: rest)) as [ps st].
    destruct st; try discriminate.
    destruct (read_pieces ps) as [u|] eqn:E; [|discriminate].
    inversion H; subst. split; [|reflexivity].
    exists ps. split; [reflexivity|]. split; [eapply read_pieces_all_lit; eassumption|assumption].
  Qed.
End Codec.

(* Without IsPrint('{') the codec breaks: "${" is written as $${ and read
   back as "$${". (Go's unicode.IsPrint('{') is true; the exhaustive rune table
   checks it on every run.) *)
Theorem string_codec_needs_printable_brace is_print :
  is_print 123 = false ->
  read_quoted (escape is_print [36; 123] ++ [34]) = ROk [36; 36; 123] [].
Proof.
  intros H. cbn [escape]. unfold escape_rune. simpl. rewrite H. reflexivity.
Qed.

(* ------------------------------------------------------------------------ *)
(* tiling: the stringTemplate scanner neither loses nor invents bytes        *)
(* ------------------------------------------------------------------------ *)
Definition piece_bytes (p : piece) : list Z :=
  match p with PLit b | PNewline b | PInvalid b => b end.
Definition pend (st : mstate) : list Z :=
  match st with
  | MG => [] | MLit cur => cur | MBs pre => pre ++ [92] | MUtf _ cur => cur
  | MD c => [c] | MDD c => [c; c] | MEsc c => [c; c; 123] | MNl cur => cur
  end.

Ltac brk H :=
  repeat match type of H with
  | context[if ?c then _ else _] => destruct c eqn:?
  | context[match lead_len ?b with _ => _ end] => destruct (lead_len b) as [[|?]|] eqn:?
  | context[match ?k with O => _ | S _ => _ end] => destruct k
  end.

Ltac eqs := repeat match goal with H : (_ =? _) = true |- _ => apply Z.eqb_eq in H end; subst.

Lemma mground_cont b out st' : mground b = MCont out st' -> [b] = flat_map piece_bytes out ++ pend st'.
Proof. unfold mground. intros H. brk H; inversion H; subst; eqs; reflexivity. Qed.

Lemma mground_closed b out : mground b = MStop out KClosed -> b = 34 /\ out = [].
Proof. unfold mground. intros H. brk H; inversion H; subst; eqs. split; reflexivity. Qed.

Lemma fm_app (a b : list piece) : flat_map piece_bytes (a ++ b) = flat_map piece_bytes a ++ flat_map piece_bytes b.
Proof. apply flat_map_app. Qed.

Lemma madd_cont o r out st' : madd o r = MCont out st' -> exists o', r = MCont o' st' /\ out = o ++ o'.
Proof. destruct r; simpl; intros H; inversion H; subst. eexists; split; reflexivity. Qed.
Lemma madd_closed o r out : madd o r = MStop out KClosed -> exists o', r = MStop o' KClosed /\ out = o ++ o'.
Proof. destruct r; simpl; intros H; inversion H; subst. eexists; split; reflexivity. Qed.

Lemma flush_lit_bytes cur : flat_map piece_bytes (flush_lit cur) = cur.
Proof. destruct cur; [reflexivity|]. simpl. rewrite app_nil_r. reflexivity. Qed.

Lemma mstep_cont st b out st' : mstep st b = MCont out st' -> pend st ++ [b] = flat_map piece_bytes out ++ pend st'.
Proof.
  destruct st; cbn [mstep pend]; intros H.
  - apply mground_cont in H. exact H.
  - brk H; try (inversion H; subst; eqs; simpl; rewrite ?app_nil_r, <- ?app_assoc; reflexivity).
    apply madd_cont in H. destruct H as (o' & Hg & ->). apply mground_cont in Hg.
    rewrite fm_app. simpl. rewrite app_nil_r, <- app_assoc, <- Hg. reflexivity.
  - brk H; try (inversion H; subst; eqs; simpl; rewrite ?app_nil_r, <- ?app_assoc; reflexivity).
    apply madd_cont in H. destruct H as (o' & Hg & ->). apply mground_cont in Hg.
    rewrite !fm_app, flush_lit_bytes. simpl. rewrite <- !app_assoc. simpl. rewrite <- Hg. reflexivity.
  - brk H; inversion H; subst; reflexivity.
  - brk H; try (inversion H; subst; eqs; reflexivity).
    apply madd_cont in H. destruct H as (o' & Hg & ->). apply mground_cont in Hg.
    rewrite fm_app. simpl. rewrite <- Hg. reflexivity.
  - brk H; try (inversion H; subst; eqs; reflexivity).
    apply madd_cont in H. destruct H as (o' & Hg & ->). apply mground_cont in Hg.
    rewrite fm_app. simpl. rewrite <- Hg. reflexivity.
  - brk H; try (inversion H; subst; eqs; reflexivity).
    apply madd_cont in H. destruct H as (o' & Hg & ->). apply mground_cont in Hg.
    rewrite fm_app. simpl. rewrite <- Hg. reflexivity.
  - brk H; try (inversion H; subst; eqs; simpl; rewrite ?app_nil_r; reflexivity).
    apply madd_cont in H. destruct H as (o' & Hg & ->). apply mground_cont in Hg.
    rewrite fm_app. simpl. rewrite app_nil_r, <- app_assoc, <- Hg. reflexivity.
Qed.

Lemma mstep_closed st b out : mstep st b = MStop out KClosed -> pend st ++ [b] = flat_map piece_bytes out ++ [34].
Proof.
  destruct st; cbn [mstep pend]; intros H.
  - apply mground_closed in H. destruct H as [-> ->]. reflexivity.
  - brk H; try (inversion H; fail).
    apply madd_closed in H. destruct H as (o' & Hg & ->). apply mground_closed in Hg. destruct Hg as [-> ->].
    simpl. rewrite app_nil_r. reflexivity.
  - brk H; try (inversion H; fail).
    apply madd_closed in H. destruct H as (o' & Hg & ->). apply mground_closed in Hg. destruct Hg as [-> ->].
    rewrite app_nil_r, fm_app, flush_lit_bytes. simpl. rewrite <- app_assoc. reflexivity.
  - brk H; inversion H.
  - brk H; try (inversion H; fail).
    apply madd_closed in H. destruct H as (o' & Hg & ->). apply mground_closed in Hg. destruct Hg as [-> ->]. reflexivity.
  - brk H; try (inversion H; fail).
    apply madd_closed in H. destruct H as (o' & Hg & ->). apply mground_closed in Hg. destruct Hg as [-> ->]. reflexivity.
  - brk H; try (inversion H; fail).
    apply madd_closed in H. destruct H as (o' & Hg & ->). apply mground_closed in Hg. destruct Hg as [-> ->]. reflexivity.
  - brk H; try (inversion H; fail).
    apply madd_closed in H. destruct H as (o' & Hg & ->). apply mground_closed in Hg. destruct Hg as [-> ->].
    simpl. rewrite app_nil_r. reflexivity.
Qed.

(* the tokens of a closed quoted string tile its bytes: nothing is lost or
   invented between the opening and the closing quote *)
Theorem lexq_tiles : forall bs st ps rest,
  lexq st bs = (ps, LClosed rest) -> pend st ++ bs = flat_map piece_bytes ps ++ 34 :: rest.
Proof.
  induction bs as [|b r IH]; intros st ps rest H; [discriminate|].
  cbn [lexq] in H. destruct (mstep st b) as [out st'|out k] eqn:E.
  - destruct (lexq st' r) as [ps' s'] eqn:E'. unfold padd in H. simpl in H. inversion H; subst.
    apply mstep_cont in E. apply IH in E'.
    change (b :: r) with ([b] ++ r). rewrite app_assoc, E, <- app_assoc, E', fm_app, <- app_assoc. reflexivity.
  - destruct k; inversion H; subst. apply mstep_closed in E.
    change (b :: rest) with ([b] ++ rest). rewrite app_assoc, E, <- app_assoc. reflexivity.
Qed.
