(* Write/FormatProofs.v — proofs about the model in Write/Format.v:
     format_only_spaces     : format changes nothing but SpacesBefore
     format_length          : ... in particular the token count
     format_skel_determined : the output is a function of the token skeletons
                              (and of the cut-off EOF token)
     format_idempotent      : format (format ts) = format ts
   No hypothesis on the token list. No axioms. *)
From HclV Require Import Base.Prelude Gen.TokenTypes Write.Format.
From Coq Require Import List ZArith Bool Lia.
Import ListNotations.
Open Scope Z_scope.

(* ------------------------------------------------------------------------ *)
(* Generic helpers                                                           *)
(* ------------------------------------------------------------------------ *)

Lemma Forall2_rev_ {A B} (R : A -> B -> Prop) l1 l2 :
  Forall2 R l1 l2 -> Forall2 R (rev l1) (rev l2).
Proof.
  induction 1 as [|x y l l' Hxy Hl IH]; simpl.
  - constructor.
  - apply Forall2_app; [exact IH|]. constructor; [exact Hxy|constructor].
Qed.

Lemma Forall2_map_ {A B C D} (R : A -> B -> Prop) (Q : C -> D -> Prop) (f : A -> C) (g : B -> D) :
  (forall a b, R a b -> Q (f a) (g b)) ->
  forall l1 l2, Forall2 R l1 l2 -> Forall2 Q (map f l1) (map g l2).
Proof.
  intros Hfg l1 l2 H. induction H as [|x y l l' Hxy Hl IH]; simpl; constructor; auto.
Qed.

Lemma Forall2_length_ {A B} (R : A -> B -> Prop) l1 l2 :
  Forall2 R l1 l2 -> length l1 = length l2.
Proof. induction 1 as [|x y l l' Hxy Hl IH]; simpl; [reflexivity|]. rewrite IH. reflexivity. Qed.

(* ------------------------------------------------------------------------ *)
(* Unfolding lemmas for the two definitions with inline matches              *)
(* ------------------------------------------------------------------------ *)

Definition pipeline (raw : list (list tok)) : list line :=
  format_cells (map format_spaces (format_indent [] (map mk_line raw))).

Lemma format_unfold ts :
  format ts = let '(raw, e) := split_lines ts [] in flatten (pipeline raw) ++ opt_list e.
Proof. destruct ts as [|t ts]; reflexivity. Qed.

Definition split_comment (l : list tok) : list tok * list tok :=
  match rev l with
  | t :: ((_ :: _) as r) => if is (ty t) TokenComment then (rev r, [t]) else (l, [])
  | _ => (l, [])
  end.

Lemma mk_line_eq l :
  mk_line l =
  let '(l1, c) := split_comment l in
  match find_assign [] l1 with
  | Some (ld, asg) => {| lead := ld; assign := asg; comment := c |}
  | None => {| lead := l1; assign := []; comment := c |}
  end.
Proof. reflexivity. Qed.

Lemma flatten_cons a ls : flatten (a :: ls) = line_toks a ++ flatten ls.
Proof. reflexivity. Qed.

Lemma flatten_app a b : flatten (a ++ b) = flatten a ++ flatten b.
Proof. unfold flatten. rewrite map_app, concat_app. reflexivity. Qed.

(* ------------------------------------------------------------------------ *)
(* Part 1: tiling (the line/cell structure is a partition of the input)      *)
(* ------------------------------------------------------------------------ *)

Lemma strip_trailing_eof_tile l a e :
  strip_trailing_eof l = (a, e) -> a ++ opt_list e = l.
Proof.
  unfold strip_trailing_eof. destruct (rev l) as [|t r] eqn:E.
  - intro H. inversion H; subst. apply app_nil_r.
  - destruct (is (ty t) TokenEOF); intro H; inversion H; subst.
    + rewrite <- (rev_involutive l), E. reflexivity.
    + apply app_nil_r.
Qed.

Lemma split_lines_tile : forall ts cur raw e,
  split_lines ts cur = (raw, e) -> concat raw ++ opt_list e = rev cur ++ ts.
Proof.
  induction ts as [|t ts IH]; intros cur raw e H; cbn [split_lines] in H.
  - inversion H; subst. simpl. rewrite !app_nil_r. reflexivity.
  - destruct (is (ty t) TokenEOF).
    + destruct (strip_trailing_eof (rev cur ++ t :: ts)) as [l e0] eqn:Es.
      inversion H; subst. simpl. rewrite app_nil_r.
      apply strip_trailing_eof_tile. exact Es.
    + destruct (tok_is_newline t).
      * destruct (split_lines ts []) as [ls e0] eqn:Er. inversion H; subst.
        apply IH in Er. simpl in Er. simpl. rewrite <- !app_assoc. rewrite Er. reflexivity.
      * apply IH in H. rewrite H. simpl. rewrite <- app_assoc. reflexivity.
Qed.

Lemma split_comment_tile l l1 c : split_comment l = (l1, c) -> l1 ++ c = l.
Proof.
  unfold split_comment. destruct (rev l) as [|t [|t' r]] eqn:E.
  - intro H. inversion H; subst. apply app_nil_r.
  - intro H. inversion H; subst. apply app_nil_r.
  - destruct (is (ty t) TokenComment); intro H; inversion H; subst.
    + rewrite <- (rev_involutive l), E. reflexivity.
    + apply app_nil_r.
Qed.

Lemma find_assign_tile : forall l pre ld asg,
  find_assign pre l = Some (ld, asg) -> ld ++ asg = rev pre ++ l.
Proof.
  induction l as [|t l IH]; intros pre ld asg H; cbn [find_assign] in H.
  - discriminate.
  - destruct pre as [|p pre'].
    + apply IH in H. rewrite H. reflexivity.
    + destruct (is (ty t) TokenEqual).
      * destruct (net_brackets (t :: l) =? 0); [|discriminate].
        inversion H; subst. reflexivity.
      * apply IH in H. rewrite H. simpl. rewrite <- !app_assoc. reflexivity.
Qed.

Lemma mk_line_tile l : line_toks (mk_line l) = l.
Proof.
  rewrite mk_line_eq. destruct (split_comment l) as [l1 c] eqn:E.
  apply split_comment_tile in E.
  destruct (find_assign [] l1) as [[ld asg]|] eqn:F; unfold line_toks; cbn [lead assign comment].
  - apply find_assign_tile in F. simpl in F. rewrite app_assoc, F. exact E.
  - exact E.
Qed.

Lemma flatten_mk_line raw : flatten (map mk_line raw) = concat raw.
Proof.
  induction raw as [|l raw IH]; [reflexivity|].
  cbn [map]. rewrite flatten_cons, mk_line_tile, IH. reflexivity.
Qed.

Lemma take_chain_app has : forall ls c rest,
  take_chain has ls = (c, rest) -> c ++ rest = ls.
Proof.
  induction ls as [|l r IH]; intros c rest H; cbn [take_chain] in H.
  - inversion H; subst. reflexivity.
  - destruct (has l).
    + destruct (take_chain has r) as [c' rest'] eqn:E. inversion H; subst.
      simpl. f_equal. apply IH. reflexivity.
    + inversion H; subst. reflexivity.
Qed.

(* ------------------------------------------------------------------------ *)
(* Part 1b: every pass preserves the skeletons                               *)
(* ------------------------------------------------------------------------ *)

Lemma msk_set_first_sp l n : map skel (set_first_sp l n) = map skel l.
Proof. destruct l; reflexivity. Qed.

Lemma msk_spaces_go : forall r b s, map skel (spaces_go b s r) = map skel r.
Proof.
  induction r as [|a r IH]; intros b s; cbn [spaces_go map]; [reflexivity|].
  rewrite IH. reflexivity.
Qed.

Lemma msk_spaces_cell l : map skel (spaces_cell l) = map skel l.
Proof. destruct l as [|t r]; [reflexivity|]. cbn [spaces_cell map]. rewrite msk_spaces_go. reflexivity. Qed.

Lemma msk_with_lead l n :
  map skel (line_toks (with_lead l (set_first_sp (lead l) n))) = map skel (line_toks l).
Proof.
  unfold line_toks, with_lead. cbn [lead assign comment].
  rewrite !map_app, msk_set_first_sp. reflexivity.
Qed.

Lemma msk_indent_line ind l :
  map skel (line_toks (snd (indent_line ind l))) = map skel (line_toks l).
Proof.
  unfold indent_line. destruct (lead l) as [|t0 r0] eqn:E; [reflexivity|].
  rewrite <- E.
  destruct (is (ty t0) TokenNewline); [apply msk_with_lead|].
  match goal with |- context [0 <? ?x] => destruct (0 <? x); [apply msk_with_lead|] end.
  match goal with |- context [?x <? 0] => destruct (x <? 0); apply msk_with_lead end.
Qed.

Lemma msk_format_indent : forall ls ind,
  map skel (flatten (format_indent ind ls)) = map skel (flatten ls).
Proof.
  induction ls as [|a ls IH]; intros ind; cbn [format_indent]; [reflexivity|].
  destruct (indent_line ind a) as [ind' l'] eqn:E.
  rewrite !flatten_cons, !map_app, IH. f_equal.
  replace l' with (snd (indent_line ind a)) by (rewrite E; reflexivity).
  apply msk_indent_line.
Qed.

Lemma msk_format_spaces l : map skel (line_toks (format_spaces l)) = map skel (line_toks l).
Proof.
  unfold line_toks, format_spaces. cbn [lead assign comment].
  rewrite !map_app, !msk_spaces_cell, msk_set_first_sp. reflexivity.
Qed.

Lemma msk_map_format_spaces ls :
  map skel (flatten (map format_spaces ls)) = map skel (flatten ls).
Proof.
  induction ls as [|a ls IH]; [reflexivity|].
  cbn [map]. rewrite !flatten_cons, !map_app, IH, msk_format_spaces. reflexivity.
Qed.

Section MskCells.
  Variables (has : line -> bool) (width : line -> Z) (setc : line -> Z -> line).
  Hypothesis Hsetc : forall x n, map skel (line_toks (setc x n)) = map skel (line_toks x).

  Lemma msk_map_setc (g : line -> Z) c :
    map skel (flatten (map (fun x => setc x (g x)) c)) = map skel (flatten c).
  Proof.
    induction c as [|a c IH]; [reflexivity|].
    cbn [map]. rewrite !flatten_cons, !map_app, IH, Hsetc. reflexivity.
  Qed.

  Lemma msk_cells : forall f ls,
    map skel (flatten (cells f has width setc ls)) = map skel (flatten ls).
  Proof.
    induction f as [|f IH]; intros ls; cbn [cells]; [reflexivity|].
    destruct ls as [|l r]; [reflexivity|].
    destruct (has l).
    - destruct (take_chain has (l :: r)) as [c rest] eqn:Et.
      rewrite flatten_app, map_app, msk_map_setc, IH, <- map_app, <- flatten_app.
      rewrite (take_chain_app _ _ _ _ Et). reflexivity.
    - rewrite !flatten_cons, !map_app, IH. reflexivity.
  Qed.

  Lemma cells_length : forall f ls, length (cells f has width setc ls) = length ls.
  Proof.
    induction f as [|f IH]; intros ls; cbn [cells]; [reflexivity|].
    destruct ls as [|l r]; [reflexivity|].
    destruct (has l).
    - destruct (take_chain has (l :: r)) as [c rest] eqn:Et.
      rewrite app_length, map_length, IH.
      rewrite <- (take_chain_app _ _ _ _ Et), app_length. reflexivity.
    - cbn [length]. rewrite IH. reflexivity.
  Qed.
End MskCells.

Lemma msk_set_assign_sp x n : map skel (line_toks (set_assign_sp x n)) = map skel (line_toks x).
Proof.
  unfold line_toks, set_assign_sp. cbn [lead assign comment].
  rewrite !map_app, msk_set_first_sp. reflexivity.
Qed.

Lemma msk_set_comment_sp x n : map skel (line_toks (set_comment_sp x n)) = map skel (line_toks x).
Proof.
  unfold line_toks, set_comment_sp. cbn [lead assign comment].
  rewrite !map_app, msk_set_first_sp. reflexivity.
Qed.

Lemma msk_format_cells ls : map skel (flatten (format_cells ls)) = map skel (flatten ls).
Proof.
  unfold format_cells.
  rewrite (msk_cells _ _ _ msk_set_comment_sp), (msk_cells _ _ _ msk_set_assign_sp).
  reflexivity.
Qed.

Theorem format_only_spaces : only_spaces_stmt.
Proof.
  intro ts. rewrite format_unfold.
  destruct (split_lines ts []) as [raw e] eqn:E.
  unfold pipeline.
  rewrite map_app, msk_format_cells, msk_map_format_spaces, msk_format_indent, flatten_mk_line.
  rewrite <- map_app. apply split_lines_tile in E. simpl in E. rewrite E. reflexivity.
Qed.

Lemma format_length : forall ts, length (format ts) = length ts.
Proof.
  intro ts. rewrite <- (map_length skel (format ts)), format_only_spaces. apply map_length.
Qed.

(* ------------------------------------------------------------------------ *)
(* Part 2: the output is determined by the skeletons                         *)
(* ------------------------------------------------------------------------ *)

Definition sk_eq (a b : tok) : Prop := skel a = skel b.
Definition SL : list tok -> list tok -> Prop := Forall2 sk_eq.

Lemma sk_eq_refl a : sk_eq a a.
Proof. reflexivity. Qed.

Lemma sk_eq_inv a b : sk_eq a b -> ty a = ty b /\ bytes a = bytes b /\ gcols a = gcols b.
Proof. unfold sk_eq, skel. intro H. inversion H. auto. Qed.

Lemma SL_map l1 l2 : SL l1 l2 <-> map skel l1 = map skel l2.
Proof.
  split.
  - induction 1 as [|x y l l' Hxy Hl IH]; simpl; [reflexivity|].
    unfold sk_eq in Hxy. rewrite Hxy, IH. reflexivity.
  - revert l2. induction l1 as [|a l1 IH]; intros [|b l2] H; simpl in H; try discriminate.
    + constructor.
    + assert (Hab : skel a = skel b) by congruence.
      assert (Hr : map skel l1 = map skel l2) by congruence.
      constructor; [exact Hab|apply IH; exact Hr].
Qed.

Lemma SL_rev l1 l2 : SL l1 l2 -> SL (rev l1) (rev l2).
Proof. apply Forall2_rev_. Qed.

Lemma set_sp_sk a b n : sk_eq a b -> set_sp a n = set_sp b n.
Proof.
  intro H. destruct (sk_eq_inv _ _ H) as (Ht & Hb & Hg).
  unfold set_sp. rewrite Ht, Hb, Hg. reflexivity.
Qed.

Lemma tok_is_newline_sk a b : sk_eq a b -> tok_is_newline a = tok_is_newline b.
Proof.
  intro H. destruct (sk_eq_inv _ _ H) as (Ht & Hb & _).
  unfold tok_is_newline. rewrite Ht, Hb. reflexivity.
Qed.

Lemma bracket_change_sk a b : sk_eq a b -> bracket_change a = bracket_change b.
Proof.
  intro H. destruct (sk_eq_inv _ _ H) as (Ht & _).
  unfold bracket_change. rewrite Ht. reflexivity.
Qed.

Lemma net_brackets_SL l1 l2 : SL l1 l2 -> net_brackets l1 = net_brackets l2.
Proof.
  unfold net_brackets.
  induction 1 as [|x y l l' Hxy Hl IH]; [reflexivity|].
  cbn [map sumZ fold_right]. unfold sumZ in IH. rewrite IH, (bracket_change_sk _ _ Hxy). reflexivity.
Qed.

Lemma space_after_sk s1 s2 b1 b2 a1 a2 :
  sk_eq s1 s2 -> sk_eq b1 b2 -> sk_eq a1 a2 -> space_after s1 b1 a1 = space_after s2 b2 a2.
Proof.
  intros Hs Hb Ha.
  destruct (sk_eq_inv _ _ Hs) as (Hs1 & Hs2 & _).
  destruct (sk_eq_inv _ _ Hb) as (Hb1 & _).
  destruct (sk_eq_inv _ _ Ha) as (Ha1 & Ha2 & _).
  unfold space_after, is_in_kw, bracket_change, ident_continues_number.
  rewrite Hs1, Hs2, Hb1, Ha1, Ha2. reflexivity.
Qed.

(* --- split_lines ---------------------------------------------------------- *)

Definition orel (o1 o2 : option tok) : Prop :=
  match o1, o2 with
  | Some a, Some b => sk_eq a b
  | None, None => True
  | _, _ => False
  end.

Lemma strip_rel l1 l2 :
  SL l1 l2 ->
  SL (fst (strip_trailing_eof l1)) (fst (strip_trailing_eof l2)) /\
  orel (snd (strip_trailing_eof l1)) (snd (strip_trailing_eof l2)).
Proof.
  intro H. pose proof (SL_rev _ _ H) as Hr. unfold strip_trailing_eof.
  remember (rev l1) as x1 eqn:E1. remember (rev l2) as x2 eqn:E2.
  destruct Hr as [|t1 t2 r1 r2 Ht Hr'].
  - simpl. split; [exact H|exact I].
  - destruct (sk_eq_inv _ _ Ht) as (Hty & _). rewrite Hty.
    destruct (is (ty t2) TokenEOF); simpl.
    + split; [apply SL_rev; exact Hr'|exact Ht].
    + split; [exact H|exact I].
Qed.

Lemma split_lines_rel : forall ts1 ts2, SL ts1 ts2 ->
  forall cur1 cur2, SL cur1 cur2 ->
  Forall2 SL (fst (split_lines ts1 cur1)) (fst (split_lines ts2 cur2)) /\
  orel (snd (split_lines ts1 cur1)) (snd (split_lines ts2 cur2)).
Proof.
  induction 1 as [|t1 t2 r1 r2 Ht Hr IH]; intros cur1 cur2 Hc; cbn [split_lines].
  - simpl. split; [|exact I]. constructor; [apply SL_rev; exact Hc|constructor].
  - destruct (sk_eq_inv _ _ Ht) as (Hty & _).
    rewrite Hty, (tok_is_newline_sk _ _ Ht).
    destruct (is (ty t2) TokenEOF).
    + assert (Hs : SL (rev cur1 ++ t1 :: r1) (rev cur2 ++ t2 :: r2)).
      { apply Forall2_app; [apply SL_rev; exact Hc|constructor; assumption]. }
      apply strip_rel in Hs.
      destruct (strip_trailing_eof (rev cur1 ++ t1 :: r1)) as [a1 e1].
      destruct (strip_trailing_eof (rev cur2 ++ t2 :: r2)) as [a2 e2].
      simpl in *. destruct Hs as [Ha He].
      split; [constructor; [exact Ha|constructor]|exact He].
    + destruct (tok_is_newline t2).
      * specialize (IH [] [] (Forall2_nil _)).
        destruct (split_lines r1 []) as [ls1 e1]. destruct (split_lines r2 []) as [ls2 e2].
        simpl in IH. destruct IH as [IHa IHe]. cbn [fst snd].
        split; [|exact IHe]. constructor; [|exact IHa].
        apply (SL_rev (t1 :: cur1) (t2 :: cur2)). constructor; assumption.
      * apply IH. constructor; assumption.
Qed.

(* --- mk_line -------------------------------------------------------------- *)

(* comment cells: same shape, first token equal up to sp, tails equal *)
Definition CR (c1 c2 : list tok) : Prop :=
  match c1, c2 with
  | [], [] => True
  | x :: r1, y :: r2 => sk_eq x y /\ r1 = r2
  | _, _ => False
  end.

Definition farel (o1 o2 : option (list tok * list tok)) : Prop :=
  match o1, o2 with
  | Some (a1, b1), Some (a2, b2) => SL a1 a2 /\ SL b1 b2
  | None, None => True
  | _, _ => False
  end.

Lemma find_assign_rel : forall l1 l2, SL l1 l2 ->
  forall pre1 pre2, SL pre1 pre2 -> farel (find_assign pre1 l1) (find_assign pre2 l2).
Proof.
  induction 1 as [|t1 t2 r1 r2 Ht Hr IH]; intros pre1 pre2 Hp; cbn [find_assign].
  - exact I.
  - destruct (sk_eq_inv _ _ Ht) as (Hty & _).
    destruct Hp as [|p1 p2 q1 q2 Hp Hq].
    + apply IH. constructor; [exact Ht|constructor].
    + rewrite Hty. destruct (is (ty t2) TokenEqual).
      * rewrite (net_brackets_SL (t1 :: r1) (t2 :: r2)) by (constructor; assumption).
        destruct (net_brackets (t2 :: r2) =? 0); simpl; [|exact I].
        split.
        -- apply (SL_rev (p1 :: q1) (p2 :: q2)). constructor; assumption.
        -- constructor; assumption.
      * apply IH. constructor; [exact Ht|]. constructor; assumption.
Qed.

Lemma split_comment_rel l1 l2 :
  SL l1 l2 ->
  SL (fst (split_comment l1)) (fst (split_comment l2)) /\
  CR (snd (split_comment l1)) (snd (split_comment l2)).
Proof.
  intro H. pose proof (SL_rev _ _ H) as Hr. unfold split_comment.
  remember (rev l1) as x1 eqn:E1. remember (rev l2) as x2 eqn:E2.
  destruct Hr as [|t1 t2 r1 r2 Ht Hr'].
  - simpl. split; [exact H|exact I].
  - destruct Hr' as [|u1 u2 s1 s2 Hu Hs].
    + simpl. split; [exact H|exact I].
    + destruct (sk_eq_inv _ _ Ht) as (Hty & _). rewrite Hty.
      destruct (is (ty t2) TokenComment); cbn [fst snd].
      * split.
        -- apply (SL_rev (u1 :: s1) (u2 :: s2)). constructor; assumption.
        -- simpl. split; [exact Ht|reflexivity].
      * split; [exact H|exact I].
Qed.

(* lines as produced by mk_line on related inputs *)
Definition LRel0 (a b : line) : Prop :=
  SL (lead a) (lead b) /\ SL (assign a) (assign b) /\ CR (comment a) (comment b).

(* lines after indent+spaces (and after the first cells pass) *)
Definition LRel1 (a b : line) : Prop :=
  lead a = lead b /\ assign a = assign b /\ CR (comment a) (comment b).

Lemma mk_line_rel l1 l2 : SL l1 l2 -> LRel0 (mk_line l1) (mk_line l2).
Proof.
  intro H. rewrite !mk_line_eq.
  destruct (split_comment_rel _ _ H) as [Ha Hc].
  destruct (split_comment l1) as [a1 c1]. destruct (split_comment l2) as [a2 c2].
  cbn [fst snd] in Ha, Hc.
  pose proof (find_assign_rel _ _ Ha [] [] (Forall2_nil _)) as Hf.
  destruct (find_assign [] a1) as [[ld1 as1]|]; destruct (find_assign [] a2) as [[ld2 as2]|];
    simpl in Hf; try contradiction.
  - destruct Hf as [Hf1 Hf2]. unfold LRel0; cbn [lead assign comment]. auto.
  - unfold LRel0; cbn [lead assign comment]. split; [exact Ha|]. split; [constructor|exact Hc].
Qed.

(* --- indent + spaces ------------------------------------------------------ *)

Lemma until_heredoc_SL l1 l2 : SL l1 l2 -> SL (until_heredoc l1) (until_heredoc l2).
Proof.
  induction 1 as [|x y l l' Hxy Hl IH]; cbn [until_heredoc]; [constructor|].
  destruct (sk_eq_inv _ _ Hxy) as (Hty & _). rewrite Hty.
  destruct (is (ty y) TokenOHeredoc); constructor; auto.
Qed.

Lemma spaces_go_rel : forall r1 r2, SL r1 r2 ->
  forall b1 b2 s1 s2, sk_eq b1 b2 -> sk_eq s1 s2 -> spaces_go b1 s1 r1 = spaces_go b2 s2 r2.
Proof.
  induction 1 as [|a1 a2 r1 r2 Ha Hr IH]; intros b1 b2 s1 s2 Hb Hs; cbn [spaces_go]; [reflexivity|].
  rewrite (space_after_sk _ _ _ _ _ _ Hs Hb Ha).
  rewrite (set_sp_sk a1 a2 _ Ha).
  f_equal. apply IH; [exact Hs|apply sk_eq_refl].
Qed.

Lemma spaces_cell_rel l1 l2 n :
  SL l1 l2 -> spaces_cell (set_first_sp l1 n) = spaces_cell (set_first_sp l2 n).
Proof.
  intro H. destruct H as [|x y l l' Hxy Hl]; [reflexivity|].
  cbn [set_first_sp spaces_cell]. rewrite (set_sp_sk x y n Hxy).
  f_equal. apply spaces_go_rel; [exact Hl|apply sk_eq_refl|apply sk_eq_refl].
Qed.

Lemma LRel1_with_lead a b n :
  LRel0 a b ->
  LRel1 (format_spaces (with_lead a (set_first_sp (lead a) n)))
        (format_spaces (with_lead b (set_first_sp (lead b) n))).
Proof.
  intros (Hl & Ha & Hc). unfold LRel1, format_spaces, with_lead. cbn [lead assign comment].
  split; [apply spaces_cell_rel; exact Hl|].
  split; [apply spaces_cell_rel; exact Ha|exact Hc].
Qed.

Lemma indent_spaces_step ind a b :
  LRel0 a b ->
  fst (indent_line ind a) = fst (indent_line ind b) /\
  LRel1 (format_spaces (snd (indent_line ind a))) (format_spaces (snd (indent_line ind b))).
Proof.
  intros Hab. pose proof Hab as (Hl & Ha & Hc). unfold indent_line.
  destruct (lead a) as [|t1 r1] eqn:Ea; destruct (lead b) as [|t2 r2] eqn:Eb;
    try (inversion Hl; fail).
  - cbn [fst snd]. split; [reflexivity|].
    unfold LRel1, format_spaces. cbn [lead assign comment]. rewrite Ea, Eb.
    split; [reflexivity|]. split; [apply spaces_cell_rel; exact Ha|exact Hc].
  - assert (Ht : sk_eq t1 t2) by (inversion Hl; assumption).
    rewrite <- Ea, <- Eb. rewrite <- Ea, <- Eb in Hl.
    destruct (sk_eq_inv _ _ Ht) as (Hty & _). rewrite Hty.
    rewrite (net_brackets_SL _ _ (until_heredoc_SL _ _ Hl)), (net_brackets_SL _ _ Ha).
    destruct (is (ty t2) TokenNewline).
    { cbn [fst snd]. split; [reflexivity|apply LRel1_with_lead; exact Hab]. }
    match goal with |- context [0 <? ?x] => destruct (0 <? x) end.
    { cbn [fst snd]. split; [reflexivity|apply LRel1_with_lead; exact Hab]. }
    match goal with |- context [?x <? 0] => destruct (x <? 0) end.
    { cbn [fst snd]. split; [reflexivity|apply LRel1_with_lead; exact Hab]. }
    cbn [fst snd]. split; [reflexivity|apply LRel1_with_lead; exact Hab].
Qed.

Lemma indent_spaces_rel : forall ls1 ls2, Forall2 LRel0 ls1 ls2 ->
  forall ind, Forall2 LRel1 (map format_spaces (format_indent ind ls1))
                            (map format_spaces (format_indent ind ls2)).
Proof.
  induction 1 as [|x y l l' Hxy Hl IH]; intros ind; cbn [format_indent]; [constructor|].
  destruct (indent_spaces_step ind x y Hxy) as [Hi Hr].
  destruct (indent_line ind x) as [i1 x']. destruct (indent_line ind y) as [i2 y'].
  cbn [fst snd] in Hi, Hr. subst i2. cbn [map]. constructor; [exact Hr|apply IH].
Qed.

(* --- cells ---------------------------------------------------------------- *)

Section CellsRel.
  Variables (R : line -> line -> Prop)
            (has : line -> bool) (width : line -> Z) (setc : line -> Z -> line).
  Hypothesis Hhas : forall a b, R a b -> has a = has b.
  Hypothesis Hwidth : forall a b, R a b -> width a = width b.

  Lemma take_chain_rel : forall ls1 ls2, Forall2 R ls1 ls2 ->
    Forall2 R (fst (take_chain has ls1)) (fst (take_chain has ls2)) /\
    Forall2 R (snd (take_chain has ls1)) (snd (take_chain has ls2)).
  Proof.
    induction 1 as [|x y l l' Hxy Hl IH]; cbn [take_chain].
    - simpl. split; constructor.
    - rewrite (Hhas _ _ Hxy). destruct (has y).
      + destruct (take_chain has l) as [c1 k1]. destruct (take_chain has l') as [c2 k2].
        cbn [fst snd] in *. destruct IH as [IHc IHk].
        split; [constructor; assumption|exact IHk].
      + cbn [fst snd]. split; [constructor|constructor; assumption].
  Qed.

  Lemma map_width_rel : forall c1 c2, Forall2 R c1 c2 -> map width c1 = map width c2.
  Proof.
    induction 1 as [|x y l l' Hxy Hl IH]; simpl; [reflexivity|].
    rewrite (Hwidth _ _ Hxy), IH. reflexivity.
  Qed.

  Lemma take_chain_all : forall ls c k,
    take_chain has ls = (c, k) -> Forall (fun x => has x = true) c.
  Proof.
    induction ls as [|l r IH]; intros c k H; cbn [take_chain] in H.
    - inversion H; subst. constructor.
    - destruct (has l) eqn:Hl.
      + destruct (take_chain has r) as [c' k'] eqn:E. inversion H; subst.
        constructor; [exact Hl|]. apply (IH c' k). reflexivity.
      + inversion H; subst. constructor.
  Qed.

  Lemma take_chain_cons_len x l c k :
    has x = true -> take_chain has (x :: l) = (c, k) -> (length k <= length l)%nat.
  Proof.
    intros Hx H. cbn [take_chain] in H. rewrite Hx in H.
    destruct (take_chain has l) as [c' k'] eqn:E. inversion H; subst.
    apply take_chain_app in E. rewrite <- E, app_length. lia.
  Qed.

  (* (a) setc respects R: the relation is kept *)
  Section Keep.
    Hypothesis Hsetc : forall a b n, R a b -> R (setc a n) (setc b n).

    Lemma map_setc_rel : forall c1 c2, Forall2 R c1 c2 -> forall m,
      Forall2 R (map (fun x => setc x (m - width x + 1)) c1)
                (map (fun x => setc x (m - width x + 1)) c2).
    Proof.
      induction 1 as [|x y l l' Hxy Hl IH]; intros m; simpl; constructor.
      - rewrite (Hwidth _ _ Hxy). apply Hsetc. exact Hxy.
      - apply IH.
    Qed.

    Lemma cells_rel : forall f ls1 ls2, Forall2 R ls1 ls2 ->
      Forall2 R (cells f has width setc ls1) (cells f has width setc ls2).
    Proof.
      induction f as [|f IH]; intros ls1 ls2 H; cbn [cells]; [exact H|].
      destruct H as [|x y l l' Hxy Hl]; [constructor|].
      rewrite (Hhas _ _ Hxy). destruct (has y).
      - destruct (take_chain_rel (x :: l) (y :: l') (Forall2_cons _ _ Hxy Hl)) as [Hc Hk].
        destruct (take_chain has (x :: l)) as [c1 k1].
        destruct (take_chain has (y :: l')) as [c2 k2].
        cbn [fst snd] in Hc, Hk. rewrite (map_width_rel _ _ Hc).
        apply Forall2_app; [apply map_setc_rel; exact Hc|apply IH; exact Hk].
      - constructor; [exact Hxy|apply IH; exact Hl].
    Qed.
  End Keep.

  (* (b) setc erases the difference: the results are equal, given enough fuel *)
  Section Erase.
    Hypothesis Hset_t : forall a b n, R a b -> has a = true -> setc a n = setc b n.
    Hypothesis Hset_f : forall a b, R a b -> has a = false -> a = b.

    Lemma map_setc_eq : forall c1 c2, Forall2 R c1 c2 ->
      Forall (fun x => has x = true) c1 -> forall m,
      map (fun x => setc x (m - width x + 1)) c1 = map (fun x => setc x (m - width x + 1)) c2.
    Proof.
      induction 1 as [|x y l l' Hxy Hl IH]; intros Hall m; simpl; [reflexivity|].
      inversion Hall as [|x0 l0 Hx Hall']; subst.
      rewrite (Hwidth _ _ Hxy), (Hset_t _ _ _ Hxy Hx), (IH Hall' m). reflexivity.
    Qed.

    Lemma cells_eq : forall f ls1 ls2, Forall2 R ls1 ls2 -> (length ls1 <= f)%nat ->
      cells f has width setc ls1 = cells f has width setc ls2.
    Proof.
      induction f as [|f IH]; intros ls1 ls2 H Hlen; cbn [cells].
      - destruct H as [|x y l l' Hxy Hl]; [reflexivity|]. simpl in Hlen. lia.
      - destruct H as [|x y l l' Hxy Hl]; [reflexivity|].
        pose proof (Hhas _ _ Hxy) as Hh. destruct (has x) eqn:Hx; rewrite <- Hh.
        + destruct (take_chain_rel (x :: l) (y :: l') (Forall2_cons _ _ Hxy Hl)) as [Hc Hk].
          destruct (take_chain has (x :: l)) as [c1 k1] eqn:E1.
          destruct (take_chain has (y :: l')) as [c2 k2].
          cbn [fst snd] in Hc, Hk.
          pose proof (take_chain_all _ _ _ E1) as Hall.
          pose proof (take_chain_cons_len _ _ _ _ Hx E1) as Hk1.
          rewrite (map_width_rel _ _ Hc), (map_setc_eq _ _ Hc Hall).
          rewrite (IH k1 k2 Hk) by (simpl in Hlen; lia). reflexivity.
        + rewrite (Hset_f _ _ Hxy Hx). f_equal. apply IH; [exact Hl|simpl in Hlen; lia].
    Qed.
  End Erase.
End CellsRel.

Lemma line_ext a b : lead a = lead b -> assign a = assign b -> comment a = comment b -> a = b.
Proof. destruct a, b; simpl; intros; subst; reflexivity. Qed.

Lemma format_cells_rel ls1 ls2 : Forall2 LRel1 ls1 ls2 -> format_cells ls1 = format_cells ls2.
Proof.
  intro H. unfold format_cells. rewrite <- (Forall2_length_ _ _ _ H).
  apply cells_eq with (R := LRel1).
  - intros a b (Hl & Ha & Hc). unfold has_comment.
    destruct (comment a), (comment b); simpl in Hc; try contradiction; reflexivity.
  - intros a b (Hl & Ha & Hc). rewrite Hl, Ha. reflexivity.
  - intros a b n (Hl & Ha & Hc) Hh. unfold has_comment in Hh. unfold set_comment_sp.
    rewrite Hl, Ha. f_equal.
    destruct (comment a) as [|x r1]; [discriminate|].
    destruct (comment b) as [|y r2]; simpl in Hc; [contradiction|].
    destruct Hc as [Hxy Hr]. subst r2. cbn [set_first_sp]. rewrite (set_sp_sk _ _ n Hxy). reflexivity.
  - intros a b (Hl & Ha & Hc) Hh. unfold has_comment in Hh.
    apply line_ext; [exact Hl|exact Ha|].
    destruct (comment a) as [|x r1]; [|discriminate].
    destruct (comment b) as [|y r2]; simpl in Hc; [reflexivity|contradiction].
  - apply cells_rel with (R := LRel1).
    + intros a b (Hl & Ha & Hc). unfold has_assign. rewrite Ha. reflexivity.
    + intros a b (Hl & Ha & Hc). rewrite Hl. reflexivity.
    + intros a b n (Hl & Ha & Hc). unfold LRel1, set_assign_sp. cbn [lead assign comment].
      rewrite Ha. auto.
    + exact H.
  - rewrite cells_length. lia.
Qed.

Lemma pipeline_rel raw1 raw2 : Forall2 SL raw1 raw2 -> pipeline raw1 = pipeline raw2.
Proof.
  intro H. unfold pipeline. apply format_cells_rel. apply indent_spaces_rel.
  apply (Forall2_map_ SL LRel0 mk_line mk_line mk_line_rel). exact H.
Qed.

(* The second hypothesis is exactly as requested: the EOF token that
   split_lines cuts off (format appends it untouched) is the same. *)
Lemma format_skel_determined : forall ts1 ts2,
  map skel ts1 = map skel ts2 ->
  snd (split_lines ts1 []) = snd (split_lines ts2 []) ->
  format ts1 = format ts2.
Proof.
  intros ts1 ts2 Hsk He. rewrite !format_unfold.
  apply SL_map in Hsk.
  destruct (split_lines_rel _ _ Hsk [] [] (Forall2_nil _)) as [Hraw _].
  destruct (split_lines ts1 []) as [raw1 e1]. destruct (split_lines ts2 []) as [raw2 e2].
  cbn [fst snd] in *. subst e2. rewrite (pipeline_rel _ _ Hraw). reflexivity.
Qed.

(* ------------------------------------------------------------------------ *)
(* Part 3: idempotence                                                       *)
(* ------------------------------------------------------------------------ *)

Lemma split_lines_format_eof ts : snd (split_lines (format ts) []) = snd (split_lines ts []).
Proof.
  pose proof (format_only_spaces ts) as Hsk. apply SL_map in Hsk.
  destruct (split_lines_rel _ _ Hsk [] [] (Forall2_nil _)) as [_ He].
  pose proof (format_unfold ts) as Hf.
  destruct (split_lines ts []) as [raw e] eqn:E.
  destruct (split_lines (format ts) []) as [raw' e'] eqn:E'.
  cbn [fst snd] in *.
  destruct e' as [t'|]; destruct e as [t|]; simpl in He; try contradiction; [|reflexivity].
  apply split_lines_tile in E'. simpl in E'. rewrite Hf in E'. simpl in E'.
  apply app_inj_tail in E'. destruct E' as [_ Et]. rewrite Et. reflexivity.
Qed.

Theorem format_idempotent : idempotent_stmt.
Proof.
  intro ts. apply format_skel_determined.
  - apply format_only_spaces.
  - apply split_lines_format_eof.
Qed.

Print Assumptions format_only_spaces.
Print Assumptions format_idempotent.
Print Assumptions format_length.
Print Assumptions format_skel_determined.
