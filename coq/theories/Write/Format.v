(* Write/Format.v — executable model of hclwrite/format.go, hclwrite/tokens.go
   (Columns, WriteTo) and writerTokens' spacing rule (hclwrite/parser.go).
   Definitions only. One Gallina function per Go function, same order of checks.

   A token is {ty; bytes; gcols; sp}: gcols is the grapheme-cluster count of
   bytes (textseg, an oracle input recorded by the harness), sp = SpacesBefore. *)
From HclV Require Import Base.Prelude Gen.TokenTypes.

Record tok := mkTok { ty : Z; bytes : list Z; gcols : Z; sp : Z }.

Definition set_sp (t : tok) (n : Z) : tok :=
  {| ty := ty t; bytes := bytes t; gcols := gcols t; sp := n |}.
Definition skel (t : tok) : Z * list Z * Z := (ty t, bytes t, gcols t).

Definition is (a b : Z) : bool := Z.eqb a b.

(* tokenIsNewline *)
Definition ends_nl (bs : list Z) : bool :=
  match rev bs with 10 :: _ => true | _ => false end.
Definition tok_is_newline (t : tok) : bool :=
  if is (ty t) TokenNewline then true
  else if is (ty t) TokenComment then ends_nl (bytes t)
  else false.

(* tokenBracketChange *)
Definition bracket_change_ty (t : Z) : Z :=
  if is t TokenOBrace || is t TokenOBrack || is t TokenOParen
     || is t TokenTemplateControl || is t TokenTemplateInterp then 1
  else if is t TokenCBrace || is t TokenCBrack || is t TokenCParen
     || is t TokenTemplateSeqEnd then -1
  else 0.
Definition bracket_change (t : tok) : Z := bracket_change_ty (ty t).

(* hclsyntax.Keyword("in").TokenMatches *)
Definition is_in_kw (t : tok) : bool :=
  is (ty t) TokenIdent && zlist_eqb (bytes t) [105; 110].

(* spaceAfterToken: reads only types (and the subject's bytes for "in") *)
(* identContinuesNumber (fix 7415f41): an identifier the scanner would take as the exponent of a
   number literal if it directly followed "<number>." : e or E, an optional '-', then a digit *)
Definition ident_continues_number (t : tok) : bool :=
  is (ty t) TokenIdent &&
  match bytes t with
  | c :: r =>
      ((c =? 101) || (c =? 69)) &&
      match r with
      | 45 :: d :: _ => (48 <=? d) && (d <=? 57)        (* '-' is valid inside an identifier (fix f59fd2e) *)
      | d :: _ => (48 <=? d) && (d <=? 57)
      | [] => false
      end
  | [] => false
  end.

Definition space_after (subject before after : tok) : bool :=
  let s := ty subject in let a := ty after in let b := ty before in
  if is a TokenNewline || is a TokenNil then false
  else if is s TokenIdent && is a TokenOParen then false
  else if (is s TokenIdent && is a TokenDoubleColon) || (is s TokenDoubleColon && is a TokenIdent) then false
  else if is s TokenDot && is b TokenNumberLit && (is a TokenNumberLit || ident_continues_number after) then true
  else if is s TokenDot || is a TokenDot then false
  else if is a TokenComma || is a TokenEllipsis then false
  else if is s TokenComma then true
  else if is s TokenQuotedLit || is s TokenStringLit || is s TokenOQuote || is s TokenOHeredoc
          || is a TokenQuotedLit || is a TokenStringLit || is a TokenCQuote || is a TokenCHeredoc then false
  else if is_in_kw subject && is b TokenIdent then true
  else if is a TokenOBrack && (is s TokenIdent || is s TokenNumberLit || (bracket_change subject <? 0)) then false
  else if is s TokenBang then false
  else if is s TokenMinus then
    (if is b TokenNil then false
     else if is b TokenOParen || is b TokenOBrace || is b TokenOBrack || is b TokenEqual
             || is b TokenColon || is b TokenComma || is b TokenQuestion then false
     else if is b TokenPlus || is b TokenStar || is b TokenSlash || is b TokenPercent || is b TokenMinus then false
     else if is b TokenEqualOp || is b TokenNotEqual || is b TokenGreaterThan || is b TokenGreaterThanEq
             || is b TokenLessThan || is b TokenLessThanEq then false
     else if is b TokenAnd || is b TokenOr || is b TokenBang then false
     else true)
  else if is s TokenOBrace || is a TokenCBrace then negb (is s TokenOBrace && is a TokenCBrace)
  else if (is s TokenTemplateInterp || is s TokenTemplateControl) && is a TokenOBrace then true
  else if is s TokenCBrace && is a TokenTemplateSeqEnd then true
  else if is s TokenTemplateSeqEnd && (is a TokenTemplateInterp || is a TokenTemplateControl) then false
  else if 0 <? bracket_change subject then false
  else if bracket_change after <? 0 then false
  else true.

(* formatLine *)
Record line := mkLine { lead : list tok; assign : list tok; comment : list tok }.

(* linesForFormat, first loop + the "line still pending" fix-up.
   Result: the lines (each a raw token list) and the trailing EOF token that was
   cut off the last line, if any (format never touches it). Empty lines that Go
   allocates beyond the last one carry no tokens and are omitted. *)
Definition strip_trailing_eof (l : list tok) : list tok * option tok :=
  match rev l with
  | t :: r => if is (ty t) TokenEOF then (rev r, Some t) else (l, None)
  | [] => (l, None)
  end.

Fixpoint split_lines (ts : list tok) (cur : list tok) : list (list tok) * option tok :=
  match ts with
  | [] => ([rev cur], None)
  | t :: ts' =>
      if is (ty t) TokenEOF then
        (* break; then lines[li].lead = tokens[lineStart:], minus a final EOF *)
        let '(l, e) := strip_trailing_eof (rev cur ++ ts) in ([l], e)
      else if tok_is_newline t then
        let '(ls, e) := split_lines ts' [] in (rev (t :: cur) :: ls, e)
      else split_lines ts' (t :: cur)
  end.

Definition net_brackets (l : list tok) : Z := sumZ (map bracket_change l).

(* second loop of linesForFormat: pick off the comment and assign cells *)
Fixpoint find_assign (pre : list tok) (l : list tok) : option (list tok * list tok) :=
  match l with
  | [] => None
  | t :: l' =>
      match pre with
      | [] => find_assign [t] l'                    (* i = 0 is never the '=' *)
      | _ => if is (ty t) TokenEqual
             then (if net_brackets l =? 0 then Some (rev pre, l) else None)   (* break *)
             else find_assign (t :: pre) l'
      end
  end.

Definition mk_line (l : list tok) : line :=
  let '(l1, c) :=
    match rev l with
    | t :: ((_ :: _) as r) => if is (ty t) TokenComment then (rev r, [t]) else (l, [])
    | _ => (l, [])
    end in
  match find_assign [] l1 with
  | Some (ld, asg) => {| lead := ld; assign := asg; comment := c |}
  | None => {| lead := l1; assign := []; comment := c |}
  end.

Definition set_first_sp (l : list tok) (n : Z) : list tok :=
  match l with [] => [] | t :: r => set_sp t n :: r end.

(* formatIndent. The indent stack is kept newest-FIRST (Go: newest last). *)
Fixpoint until_heredoc (l : list tok) : list tok :=
  match l with
  | [] => []
  | t :: r => if is (ty t) TokenOHeredoc then [t] else t :: until_heredoc r
  end.

Fixpoint close_indents (closed : Z) (ind : list Z) : list Z :=
  match ind with
  | [] => []
  | top :: rest =>
      if closed <=? 0 then ind
      else if top <? closed then close_indents (closed - top) rest
      else if closed <? top then (top - closed) :: rest
      else rest
  end.

Definition with_lead (ln : line) (l : list tok) : line :=
  {| lead := l; assign := assign ln; comment := comment ln |}.

Definition indent_line (ind : list Z) (ln : line) : list Z * line :=
  match lead ln with
  | [] => (ind, ln)
  | t0 :: _ =>
      if is (ty t0) TokenNewline then (ind, with_lead ln (set_first_sp (lead ln) 0))
      else
        let nb := net_brackets (until_heredoc (lead ln)) + net_brackets (assign ln) in
        if 0 <? nb then
          (nb :: ind, with_lead ln (set_first_sp (lead ln) (2 * Z.of_nat (length ind))))
        else if nb <? 0 then
          let ind' := close_indents (- nb) ind in
          (ind', with_lead ln (set_first_sp (lead ln) (2 * Z.of_nat (length ind'))))
        else (ind, with_lead ln (set_first_sp (lead ln) (2 * Z.of_nat (length ind))))
  end.

Fixpoint format_indent (ind : list Z) (ls : list line) : list line :=
  match ls with
  | [] => []
  | l :: r => let '(ind', l') := indent_line ind l in l' :: format_indent ind' r
  end.

Definition nil_tok : tok := {| ty := TokenNil; bytes := []; gcols := 0; sp := 0 |}.

(* formatSpaces on one cell: sets sp of every token but the first.
   spaces_go before subject rest: subject is the token just emitted. *)
Fixpoint spaces_go (before subject : tok) (rest : list tok) : list tok :=
  match rest with
  | [] => []
  | a :: r =>
      let a' := set_sp a (if space_after subject before a then 1 else 0) in
      a' :: spaces_go subject a' r
  end.
Definition spaces_cell (l : list tok) : list tok :=
  match l with [] => [] | t :: r => t :: spaces_go nil_tok t r end.

Definition format_spaces (l : line) : line :=
  {| lead := spaces_cell (lead l);
     assign := spaces_cell (set_first_sp (assign l) 1);
     comment := comment l |}.

(* Tokens.Columns *)
Definition columns (l : list tok) : Z := sumZ (map (fun t => sp t + gcols t) l).

(* formatCells: chains of consecutive lines that have an assign (resp. comment) cell *)
Fixpoint take_chain (has : line -> bool) (ls : list line) : list line * list line :=
  match ls with
  | l :: r => if has l then let '(c, rest) := take_chain has r in (l :: c, rest) else ([], ls)
  | [] => ([], [])
  end.

Fixpoint cells (fuel : nat) (has : line -> bool) (width : line -> Z)
         (setc : line -> Z -> line) (ls : list line) : list line :=
  match fuel with
  | O => ls
  | S f =>
      match ls with
      | [] => []
      | l :: r =>
          if has l then
            let '(c, rest) := take_chain has ls in
            let m := maxZ0 (map width c) in
            map (fun x => setc x (m - width x + 1)) c ++ cells f has width setc rest
          else l :: cells f has width setc r
      end
  end.

Definition has_assign (l : line) : bool := match assign l with [] => false | _ => true end.
Definition has_comment (l : line) : bool := match comment l with [] => false | _ => true end.
Definition set_assign_sp (l : line) (n : Z) : line :=
  {| lead := lead l; assign := set_first_sp (assign l) n; comment := comment l |}.
Definition set_comment_sp (l : line) (n : Z) : line :=
  {| lead := lead l; assign := assign l; comment := set_first_sp (comment l) n |}.

Definition format_cells (ls : list line) : list line :=
  let n := S (length ls) in
  let ls1 := cells n has_assign (fun l => columns (lead l)) set_assign_sp ls in
  cells n has_comment (fun l => columns (lead l) + columns (assign l)) set_comment_sp ls1.

Definition line_toks (l : line) : list tok := lead l ++ assign l ++ comment l.
Definition flatten (ls : list line) : list tok := concat (map line_toks ls).

Definition opt_list {A} (o : option A) : list A := match o with Some x => [x] | None => [] end.

(* format: Go mutates the tokens in place; the model returns the new list *)
Definition format (ts : list tok) : list tok :=
  match ts with
  | [] => []
  | _ =>
      let '(raw, e) := split_lines ts [] in
      flatten (format_cells (map format_spaces (format_indent [] (map mk_line raw)))) ++ opt_list e
  end.

(* Tokens.WriteTo *)
Definition write (ts : list tok) : list Z :=
  concat (map (fun t => repeatZ 32 (Z.to_nat (sp t)) ++ bytes t) ts).

(* The statements proved in FormatProofs.v *)
Definition only_spaces_stmt := forall ts, map skel (format ts) = map skel ts.
Definition idempotent_stmt := forall ts, format (format ts) = format ts.
