(* Write/LoaderProofs.v — proofs about the loader model Write/Loader.v
   (hclwrite/parser.go): every partition conserves the tokens; on ranges that
   satisfy [ranges_wf] the loader does not panic, the loaded tree flattens back
   to the input tokens and exposes the attributes, blocks, labels and
   traversals of the ranges-AST; File.Bytes is the formatter's output.
   (Model of the code after the fixes d13351c, 1b2807b, 984f1c6: bool/null index
   keys, tokens before the first label and multi-literal labels are kept.)
   No axioms. *)
From HclV Require Import Base.Prelude Gen.TokenTypes Write.Format Write.Loader.
From Coq Require Import Sorted Permutation.
Open Scope Z_scope.

(* ---- slices ---- *)
Lemma slice_from_0 {A} (l : list A) s : slice l 0 s = firstn s l.
Proof. unfold slice. rewrite Nat.sub_0_r. reflexivity. Qed.

Lemma slice_to_end {A} (l : list A) s : slice l s (length l) = skipn s l.
Proof.
  unfold slice. apply firstn_all2. rewrite skipn_length. lia.
Qed.

Lemma skipn_add {A} (l : list A) a b : skipn a (skipn b l) = skipn (b + a) l.
Proof.
  revert l. induction b as [|b IH]; intros l; simpl; [reflexivity|].
  destruct l; [destruct a; reflexivity|]. apply IH.
Qed.

Lemma slice3 {A} (l : list A) a b : (a <= b)%nat ->
  firstn a l ++ slice l a b ++ skipn b l = l.
Proof.
  intros H. unfold slice.
  replace (skipn b l) with (skipn (b - a) (skipn a l)).
  - rewrite firstn_skipn. apply firstn_skipn.
  - rewrite skipn_add. f_equal. lia.
Qed.

(* ---- conservation ---- *)
Lemma partition_tokens_le toks r : let '(s, e) := partition_tokens toks r in (s <= e)%nat.
Proof. unfold partition_tokens. lia. Qed.

Lemma partition_conserve it r b w a :
  partition it r = (b, w, a) -> b ++ w ++ a = it.
Proof.
  unfold partition. destruct (partition_tokens it r) as [s e] eqn:E.
  intros H. inversion H; subst. rewrite slice_from_0, slice_to_end.
  apply slice3. pose proof (partition_tokens_le it r) as L. rewrite E in L. exact L.
Qed.

Lemma partition_lead_comments_conserve it b w :
  partition_lead_comments it = (b, w) -> b ++ w = it.
Proof.
  unfold partition_lead_comments. intros H. inversion H; subst.
  rewrite slice_from_0, slice_to_end. apply firstn_skipn.
Qed.

Lemma line_end_le toks a b : partition_line_end_tokens toks = Ok (a, b) -> (a <= b)%nat.
Proof.
  revert a b. induction toks as [|t r IH]; simpl; intros a b H.
  - inversion H; lia.
  - destruct (negb (is (lty t) TokenComment)).
    + destruct (is (lty t) TokenNewline); [inversion H; lia|].
      destruct (is (lty t) TokenEOF); [inversion H; lia|discriminate].
    + destruct (ends_nl (bytes (lt t))); [inversion H; lia|].
      destruct (partition_line_end_tokens r) as [[a' b']|]; [|discriminate].
      inversion H; subst. specialize (IH _ _ eq_refl). lia.
Qed.

Lemma partition_line_end_conserve it c n a :
  partition_line_end it = Ok (c, n, a) -> c ++ n ++ a = it.
Proof.
  unfold partition_line_end. destruct (partition_line_end_tokens it) as [[ac an]|] eqn:E; [|discriminate].
  intros H. inversion H; subst. rewrite slice_from_0, slice_to_end.
  apply slice3. eapply line_end_le; eauto.
Qed.

Lemma partition_including_comments_conserve it r b w a :
  partition_including_comments it r = Ok (b, w, a) -> b ++ w ++ a = it.
Proof.
  unfold partition_including_comments. destruct (partition_tokens it r) as [s e] eqn:E.
  destruct (partition_line_end_tokens (skipn e it)) as [[ac an]|]; [|discriminate].
  intros H. inversion H; subst. rewrite slice_from_0, slice_to_end.
  apply slice3.
  pose proof (partition_tokens_le it r) as L. rewrite E in L.
  unfold partition_lead_comment_tokens. rewrite firstn_length. lia.
Qed.

Lemma partition_block_item_conserve it r b l w c n a :
  partition_block_item it r = Ok (b, l, w, c, n, a) ->
  b ++ l ++ w ++ c ++ n ++ a = it.
Proof.
  unfold partition_block_item.
  destruct (partition it r) as [[b0 w0] a0] eqn:EP.
  destruct (partition_lead_comments b0) as [b1 l1] eqn:EL.
  destruct (partition_line_end a0) as [[[c1 n1] a1]|] eqn:EE; [|discriminate].
  intros H. inversion H; subst.
  apply partition_conserve in EP. apply partition_lead_comments_conserve in EL.
  apply partition_line_end_conserve in EE. subst. rewrite <- !app_assoc. reflexivity.
Qed.

Theorem partition_conserves :
  (forall it r b w a, partition it r = (b, w, a) -> b ++ w ++ a = it) /\
  (forall it r b w a, partition_including_comments it r = Ok (b, w, a) -> b ++ w ++ a = it) /\
  (forall it r b l w c n a, partition_block_item it r = Ok (b, l, w, c, n, a) ->
      b ++ l ++ w ++ c ++ n ++ a = it) /\
  (forall it b w, partition_lead_comments it = (b, w) -> b ++ w = it) /\
  (forall it c n a, partition_line_end it = Ok (c, n, a) -> c ++ n ++ a = it).
Proof.
  repeat split.
  - exact partition_conserve.
  - exact partition_including_comments_conserve.
  - exact partition_block_item_conserve.
  - exact partition_lead_comments_conserve.
  - exact partition_line_end_conserve.
Qed.

Ltac zb := repeat match goal with
  | |- context [?a <=? ?b] => destruct (Z.leb_spec a b)
  | |- context [?a <? ?b] => destruct (Z.ltb_spec a b)
  end; simpl; try reflexivity; try lia.

Definition lt_start (a b : ltok) : Prop := t_start a < t_start b.
Definition ssorted (l : list ltok) : Prop := StronglySorted lt_start l.

Lemma sorted_toks_ssorted l : sorted_toks l = true -> ssorted l.
Proof.
  induction l as [|a r IH]; intros H; [constructor|].
  simpl in H. apply andb_true_iff in H as [H1 H2]. specialize (IH H2).
  constructor; [exact IH|].
  destruct r as [|b r']; [constructor|].
  apply Z.ltb_lt in H1. inversion IH; subst.
  constructor; [exact H1|].
  eapply Forall_impl; [|eassumption]. intros c Hc. unfold lt_start in *. lia.
Qed.

Lemma ssorted_filter f l : ssorted l -> ssorted (filter f l).
Proof.
  induction 1 as [|a l Hs IH Hf]; simpl; [constructor|].
  destruct (f a); [|exact IH]. constructor; [exact IH|].
  apply Forall_forall. intros x Hx. apply filter_In in Hx as [Hx _].
  rewrite Forall_forall in Hf. auto.
Qed.

Lemma ssorted_app X1 X2 : ssorted (X1 ++ X2) ->
  ssorted X1 /\ ssorted X2 /\ Forall (fun a => Forall (lt_start a) X2) X1.
Proof.
  induction X1 as [|a X1 IH]; simpl; intros H.
  - repeat split; [constructor|exact H|constructor].
  - inversion H; subst. destruct (IH H2) as (S1 & S2 & F).
    apply Forall_app in H3 as [F1 F2].
    repeat split; [constructor; assumption|assumption|constructor; assumption].
Qed.

Lemma filter_filter {A} (f g : A -> bool) l :
  filter f (filter g l) = filter (fun x => g x && f x) l.
Proof.
  induction l as [|a l IH]; simpl; [reflexivity|].
  destruct (g a); simpl; [destruct (f a)|]; rewrite IH; reflexivity.
Qed.

Lemma filter_true {A} (f : A -> bool) l : Forall (fun x => f x = true) l -> filter f l = l.
Proof. induction 1; simpl; [reflexivity|]. rewrite H. f_equal. assumption. Qed.

Lemma filter_false {A} (f : A -> bool) l : Forall (fun x => f x = false) l -> filter f l = [].
Proof. induction 1; simpl; [reflexivity|]. rewrite H. assumption. Qed.

(* the scanning loop of partitionTokens on a sorted list is a filter *)
Lemma count_before_filter b l : ssorted l ->
  firstn (count_before b l) l = filter (fun t => t_start t <? b) l /\
  skipn (count_before b l) l = filter (fun t => b <=? t_start t) l.
Proof.
  induction 1 as [|a l Hs IH Hf]; simpl; [split; reflexivity|].
  destruct (Z.leb_spec b (t_start a)) as [L|L].
  - assert (E : t_start a <? b = false) by (apply Z.ltb_ge; lia). rewrite E. simpl.
    split.
    + symmetry. apply filter_false. eapply Forall_impl; [|exact Hf].
      intros c Hc. unfold lt_start in Hc. apply Z.ltb_ge. lia.
    + f_equal. symmetry. apply filter_true. eapply Forall_impl; [|exact Hf].
      intros c Hc. unfold lt_start in Hc. apply Z.leb_le. lia.
  - assert (E : t_start a <? b = true) by (apply Z.ltb_lt; lia). rewrite E. simpl.
    destruct IH as [I1 I2]. split; [f_equal; exact I1|exact I2].
Qed.

Lemma partition_sorted l r : ssorted l -> r_s r <= r_e r ->
  partition l r =
  (filter (fun t => t_start t <? r_s r) l,
   filter (fun t => (r_s r <=? t_start t) && (t_start t <? r_e r)) l,
   filter (fun t => r_e r <=? t_start t) l).
Proof.
  intros Hs Hr. unfold partition, partition_tokens.
  set (s := count_before (r_s r) l). set (c := count_before (r_e r) (skipn s l)).
  destruct (count_before_filter (r_s r) l Hs) as [F1 F2]. fold s in F1, F2.
  assert (Hs2 : ssorted (skipn s l)) by (rewrite F2; apply ssorted_filter; exact Hs).
  destruct (count_before_filter (r_e r) (skipn s l) Hs2) as [G1 G2]. fold c in G1, G2.
  rewrite slice_from_0, slice_to_end. unfold slice.
  replace (s + c - s)%nat with c by lia.
  rewrite <- skipn_add, F1, G1, G2, F2, !filter_filter.
  f_equal. apply filter_ext. intros t. zb.
Qed.

(* ---- sel algebra ---- *)
Lemma sel_ssorted toks lo hi : ssorted toks -> ssorted (sel toks lo hi).
Proof. apply ssorted_filter. Qed.

Lemma sel_empty toks lo hi : hi <= lo -> sel toks lo hi = [].
Proof.
  intros H. unfold sel. apply filter_false. apply Forall_forall. intros t _. zb.
Qed.

Lemma partition_sel toks lo hi r : ssorted toks -> lo <= hi -> r_s r <= r_e r ->
  partition (sel toks lo hi) r =
  (sel toks lo (clamp lo hi (r_s r)),
   sel toks (clamp lo hi (r_s r)) (clamp lo hi (r_e r)),
   sel toks (clamp lo hi (r_e r)) hi).
Proof.
  intros Hs Hl Hr. rewrite partition_sorted by (auto using sel_ssorted).
  unfold sel, clamp. rewrite !filter_filter.
  f_equal; [f_equal|]; apply filter_ext; intros t; zb.
Qed.

Lemma clamp_id lo hi x : lo <= x <= hi -> clamp lo hi x = x.
Proof. unfold clamp. lia. Qed.

Lemma partition_sel_in toks lo hi r : ssorted toks ->
  lo <= r_s r -> r_s r <= r_e r -> r_e r <= hi ->
  partition (sel toks lo hi) r =
  (sel toks lo (r_s r), sel toks (r_s r) (r_e r), sel toks (r_e r) hi).
Proof.
  intros Hs H1 H2 H3. rewrite partition_sel by (auto; lia).
  rewrite !clamp_id by lia. reflexivity.
Qed.

Lemma sel_in toks lo hi t : In t (sel toks lo hi) -> lo <= t_start t < hi.
Proof.
  unfold sel. intros H. apply filter_In in H as [_ H].
  apply andb_true_iff in H as [H1 H2]. apply Z.leb_le in H1. apply Z.ltb_lt in H2. lia.
Qed.

(* a split of a selected slice is again two selected slices *)
Lemma sel_split toks lo hi X1 X2 : ssorted toks -> lo <= hi ->
  sel toks lo hi = X1 ++ X2 ->
  X1 = sel toks lo (lob X2 hi) /\ X2 = sel toks (lob X2 hi) hi /\ lo <= lob X2 hi <= hi.
Proof.
  intros Hs Hl E.
  assert (Hin : forall t, In t (X1 ++ X2) -> lo <= t_start t < hi)
    by (intros t Ht; rewrite <- E in Ht; eapply sel_in; eauto).
  assert (Hss : ssorted (X1 ++ X2)) by (rewrite <- E; apply sel_ssorted; exact Hs).
  destruct (ssorted_app _ _ Hss) as (S1 & S2 & F).
  set (m := lob X2 hi).
  assert (Hm : lo <= m <= hi).
  { unfold m. destruct X2 as [|t2 r2]; simpl; [lia|].
    specialize (Hin t2 ltac:(apply in_or_app; right; left; reflexivity)). lia. }
  assert (F1 : Forall (fun t => t_start t <? m = true) X1).
  { apply Forall_forall. intros t Ht. apply Z.ltb_lt. unfold m.
    destruct X2 as [|t2 r2]; simpl.
    - specialize (Hin t ltac:(apply in_or_app; left; exact Ht)). lia.
    - rewrite Forall_forall in F. specialize (F t Ht). inversion F; subst. exact H1. }
  assert (F2 : Forall (fun t => m <=? t_start t = true) X2).
  { apply Forall_forall. intros t Ht. apply Z.leb_le. unfold m.
    destruct X2 as [|t2 r2]; simpl; [destruct Ht|].
    destruct Ht as [->|Ht]; [lia|].
    inversion S2; subst. rewrite Forall_forall in H2. specialize (H2 t Ht). unfold lt_start in H2. lia. }
  assert (A1 : sel toks lo m = filter (fun t => t_start t <? m) (sel toks lo hi)).
  { unfold sel. rewrite filter_filter. apply filter_ext. intros t. zb. }
  assert (A2 : sel toks m hi = filter (fun t => m <=? t_start t) (sel toks lo hi)).
  { unfold sel. rewrite filter_filter. apply filter_ext. intros t. zb. }
  rewrite E, filter_app in A1, A2.
  split; [|split; [|exact Hm]].
  - rewrite A1, (filter_true _ X1 F1), filter_false, app_nil_r; [reflexivity|].
    eapply Forall_impl; [|exact F2]. intros t Ht. apply Z.leb_le in Ht. apply Z.ltb_ge. lia.
  - rewrite A2, (filter_true _ X2 F2), filter_false; [reflexivity|].
    eapply Forall_impl; [|exact F1]. intros t Ht. apply Z.ltb_lt in Ht. apply Z.leb_gt. lia.
Qed.

Lemma sel_app toks a b c : ssorted toks -> a <= b -> b <= c ->
  sel toks a b ++ sel toks b c = sel toks a c.
Proof.
  intros Hs H1 H2.
  pose proof (count_before_filter b (sel toks a c) (sel_ssorted _ _ _ Hs)) as [F1 F2].
  rewrite <- (firstn_skipn (count_before b (sel toks a c)) (sel toks a c)) at 1.
  rewrite F1, F2. unfold sel. rewrite !filter_filter.
  f_equal; apply filter_ext; intros t; zb.
Qed.

Lemma sel_all toks : ssorted toks -> sel toks (lob toks 0) (hi_all toks) = toks.
Proof.
  intros Hs. unfold sel. apply filter_true. apply Forall_forall. intros t Ht.
  unfold hi_all.
  assert (lob toks 0 <= t_start t).
  { destruct toks as [|t0 r]; [destruct Ht|]. simpl. destruct Ht as [->|Ht]; [lia|].
    inversion Hs; subst. rewrite Forall_forall in H2. specialize (H2 t Ht). unfold lt_start in H2. lia. }
  assert (t_start t < match rev toks with [] => 0 | x :: _ => t_start x + 1 end).
  { destruct (rev toks) as [|x r] eqn:E.
    - apply (f_equal (@rev _)) in E. rewrite rev_involutive in E. subst. destruct Ht.
    - assert (E' : toks = rev r ++ [x]) by (rewrite <- (rev_involutive toks), E; reflexivity).
      rewrite E' in Ht, Hs. apply in_app_or in Ht as [Ht|[->|[]]]; [|lia].
      destruct (ssorted_app _ _ Hs) as (_ & _ & F). rewrite Forall_forall in F.
      specialize (F t Ht). rewrite Forall_forall in F. specialize (F x (or_introl eq_refl)). unfold lt_start in F. lia. }
  apply andb_true_iff. split; [apply Z.leb_le|apply Z.ltb_lt]; lia.
Qed.

(* ---- flattening ---- *)
Lemma flat_nil : flat [] = [].
Proof. reflexivity. Qed.
Lemma flat_cons n l : flat (n :: l) = build_tokens n ++ flat l.
Proof. reflexivity. Qed.
Lemma flat_app a b : flat (a ++ b) = flat a ++ flat b.
Proof. unfold flat. rewrite map_app, concat_app. reflexivity. Qed.
Lemma flat_raw x : flat (raw x) = tokens x.
Proof. destruct x; [reflexivity|]. unfold raw, flat. simpl. rewrite app_nil_r. reflexivity. Qed.
Lemma tokens_app a b : tokens (a ++ b) = tokens a ++ tokens b.
Proof. apply map_app. Qed.
Lemma build_inner k cs : build_tokens (Inner k cs) = flat cs.
Proof. reflexivity. Qed.
Lemma build_leaf k ts : build_tokens (Leaf k ts) = ts.
Proof. reflexivity. Qed.
#[export] Hint Rewrite flat_nil flat_cons flat_app flat_raw build_inner build_leaf : fl.
Lemma tokens_cons t r : tokens (t :: r) = lt t :: tokens r.
Proof. reflexivity. Qed.
Lemma tokens_nil : tokens [] = [].
Proof. reflexivity. Qed.
Arguments tokens : simpl never.
Ltac fl := autorewrite with fl; repeat (rewrite ?tokens_app, ?tokens_cons, ?tokens_nil); simpl;
           rewrite <- ?app_assoc; simpl.
Ltac fin := repeat (progress (rewrite <- ?app_assoc, ?app_nil_r; simpl)); try reflexivity.

Lemma filter_raw f x : (forall ts, f (Leaf LTokens ts) = false) -> filter f (raw x) = [].
Proof. intros H. destruct x; simpl; [reflexivity|]. rewrite H. reflexivity. Qed.

(* ---- PartitionType ---- *)
Lemma partition_type_conserve ty_ it b t a :
  partition_type ty_ it = Some (b, t, a) -> it = b ++ t :: a.
Proof.
  revert b t a. induction it as [|x r IH]; simpl; intros b t a H; [discriminate|].
  destruct (is (lty x) ty_).
  - inversion H; subst. reflexivity.
  - destruct (partition_type ty_ r) as [[[b' t'] a']|]; [|discriminate].
    inversion H; subst. simpl. f_equal. apply IH. reflexivity.
Qed.

Lemma has_ty_partition_type ty_ it : has_ty ty_ it = true ->
  exists b t a, partition_type ty_ it = Some (b, t, a).
Proof.
  induction it as [|x r IH]; simpl; intros H; [discriminate|].
  destruct (is (lty x) ty_); [eauto|].
  simpl in H. destruct (IH H) as (b & t & a & E). rewrite E. eauto.
Qed.

Lemma in_order_spec lo hi r : in_order lo hi r = true -> lo <= r_s r /\ r_s r <= r_e r /\ r_e r <= hi.
Proof.
  unfold in_order. intros H. apply andb_true_iff in H as [H H3]. apply andb_true_iff in H as [H1 H2].
  apply Z.leb_le in H1, H2, H3. lia.
Qed.

(* ---- one traversal step ---- *)
Lemma parse_step_ok toks lo hi s : ssorted toks ->
  in_order lo hi (s_range s) = true ->
  step_tokens_ok (s_kind s) (sel_r toks (s_range s)) = true ->
  exists n, parse_traversal_step s (sel toks lo hi)
            = Ok (sel toks lo (r_s (s_range s)), n, sel toks (r_e (s_range s)) hi)
    /\ build_tokens n = tokens (sel_r toks (s_range s)) /\ is_step n = true.
Proof.
  intros Hs Ho Hk. apply in_order_spec in Ho as (O1 & O2 & O3).
  unfold parse_traversal_step. unfold sel_r in *.
  set (w := sel toks (r_s (s_range s)) (r_e (s_range s))) in *.
  destruct (s_kind s) as [| |kk|] eqn:EK; simpl in Hk.
  - rewrite partition_sel_in by assumption. fold w.
    destruct (has_ty_partition_type _ _ Hk) as (b & t & a & E). rewrite E.
    eexists. split; [reflexivity|]. split; [|reflexivity].
    apply partition_type_conserve in E. rewrite E. fl. reflexivity.
  - rewrite partition_sel_in by assumption. fold w.
    destruct (has_ty_partition_type _ _ Hk) as (b & t & a & E). rewrite E.
    eexists. split; [reflexivity|]. split; [|reflexivity].
    apply partition_type_conserve in E. rewrite E. fl. reflexivity.
  - rewrite partition_sel_in by assumption. fold w.
    destruct (partition_type TokenDot w) as [[[b d] rest]|] eqn:ED.
    + destruct (has_ty_partition_type _ _ Hk) as (vb & v & va & E). rewrite E.
      eexists. split; [reflexivity|]. split; [|reflexivity].
      apply partition_type_conserve in ED. apply partition_type_conserve in E.
      rewrite ED, E. fl. reflexivity.
    + destruct (partition_type TokenOBrack w) as [[[b ob] rest]|] eqn:EO; [|discriminate].
      destruct (partition_type TokenCBrack rest) as [[[key cb] rest2]|] eqn:EC; [|discriminate].
      apply partition_type_conserve in EO. apply partition_type_conserve in EC.
      destruct kk; simpl in Hk;
        try (eexists; split; [reflexivity|]; split; [|reflexivity];
             rewrite EO, EC; fl; reflexivity).
      destruct (has_ty_partition_type _ _ Hk) as (vb & v & va & E). rewrite E.
      eexists. split; [reflexivity|]. split; [|reflexivity].
      apply partition_type_conserve in E. rewrite EO, EC, E. fl. reflexivity.
  - discriminate.
Qed.

Fixpoint steps_end (lo : Z) (steps : list nstep) : Z :=
  match steps with [] => lo | s :: r => steps_end (r_e (s_range s)) r end.

Lemma steps_end_last_gen r : forall lo s d, steps_end lo (s :: r) = r_e (s_range (last (s :: r) d)).
Proof.
  induction r as [|s' r IH]; intros lo s d; [reflexivity|].
  change (steps_end lo (s :: s' :: r)) with (steps_end (r_e (s_range s)) (s' :: r)).
  rewrite (IH _ _ d). reflexivity.
Qed.
Lemma steps_end_last lo s r : steps_end lo (s :: r) = r_e (s_range (last (s :: r) s)).
Proof. apply steps_end_last_gen. Qed.

Definition step_toks (toks : list ltok) (s : nstep) : list tok := tokens (sel_r toks (s_range s)).

Lemma parse_steps_ok toks : ssorted toks -> forall steps lo hi,
  wf_steps toks lo hi steps = true -> lo <= hi ->
  exists cs, parse_steps steps (sel toks lo hi) = Ok (cs, sel toks (steps_end lo steps) hi)
    /\ flat cs = tokens (sel toks lo (steps_end lo steps))
    /\ map build_tokens (filter is_step cs) = map (step_toks toks) steps
    /\ lo <= steps_end lo steps <= hi.
Proof.
  intros Hs. induction steps as [|s r IH]; intros lo hi Hw Hl.
  - simpl. eexists. split; [reflexivity|]. rewrite sel_empty by lia. repeat split; lia.
  - simpl in Hw. apply andb_true_iff in Hw as [Hw H3]. apply andb_true_iff in Hw as [H1 H2].
    pose proof (in_order_spec _ _ _ H1) as (O1 & O2 & O3).
    destruct (parse_step_ok toks lo hi s Hs H1 H2) as (n & En & Fn & Sn).
    destruct (IH _ _ H3 O3) as (cs & Ec & Fc & Mc & Bc).
    simpl. rewrite En, Ec. eexists. split; [reflexivity|].
    split; [|split].
    + fl. rewrite Fn, Fc. unfold sel_r. rewrite <- !tokens_app.
      rewrite sel_app by (auto; lia). rewrite sel_app by (auto; lia). reflexivity.
    + rewrite filter_app, filter_raw by reflexivity. simpl. rewrite Sn. simpl.
      rewrite Fn, Mc. reflexivity.
    + lia.
Qed.

Definition trav_toks (toks : list ltok) (t : ntrav) : list (list tok) := map (step_toks toks) t.

Lemma parse_trav_ok toks lo hi t : ssorted toks ->
  wf_trav toks lo hi t = true ->
  exists n, parse_traversal t (sel toks lo hi)
            = Ok (sel toks lo (r_s (trav_range t)), n, sel toks (r_e (trav_range t)) hi)
    /\ build_tokens n = tokens (sel_r toks (trav_range t))
    /\ is_inner KTraversal n = true
    /\ map build_tokens (filter is_step (children n)) = trav_toks toks t
    /\ lo <= r_s (trav_range t) /\ r_s (trav_range t) <= r_e (trav_range t) /\ r_e (trav_range t) <= hi.
Proof.
  intros Hs Hw. unfold wf_trav in Hw.
  apply andb_true_iff in Hw as [Hw H3]. apply andb_true_iff in Hw as [H1 H2].
  pose proof (in_order_spec _ _ _ H2) as (O1 & O2 & O3).
  destruct t as [|s r]; [discriminate|].
  unfold parse_traversal. rewrite partition_sel_in by assumption.
  destruct (parse_steps_ok toks Hs _ _ _ H3 O2) as (cs & Ec & Fc & Mc & Bc).
  assert (EE : steps_end (r_s (trav_range (s :: r))) (s :: r) = r_e (trav_range (s :: r)))
    by (rewrite steps_end_last; reflexivity).
  rewrite Ec. eexists. split; [reflexivity|].
  split; [|split; [reflexivity|split; [exact Mc|lia]]].
  fl. rewrite Fc, EE. reflexivity.
Qed.

Definition expr_toks (toks : list ltok) (ts : list ntrav) : list (list (list tok)) :=
  map (trav_toks toks) ts.
Definition node_travs (cs : list node) : list (list (list tok)) :=
  map (fun t => map build_tokens (filter is_step (children t))) (filter (is_inner KTraversal) cs).

Lemma parse_travs_ok toks : ssorted toks -> forall ts lo hi,
  wf_travs toks lo hi ts = true ->
  exists cs, parse_travs ts (sel toks lo hi) = Ok cs
    /\ flat cs = tokens (sel toks lo hi)
    /\ node_travs cs = expr_toks toks ts.
Proof.
  intros Hs. induction ts as [|t r IH]; intros lo hi Hw.
  - simpl. eexists. split; [reflexivity|]. split; [apply flat_raw|].
    unfold node_travs. rewrite filter_raw by reflexivity. reflexivity.
  - simpl in Hw. apply andb_true_iff in Hw as [H1 H2].
    destruct (parse_trav_ok toks lo hi t Hs H1) as (n & En & Fn & Kn & Mn & O1 & O2 & O3).
    destruct (IH _ _ H2) as (cs & Ec & Fc & Mc).
    simpl. rewrite En, Ec. eexists. split; [reflexivity|]. split.
    + fl. rewrite Fn, Fc. unfold sel_r. rewrite <- !tokens_app.
      rewrite sel_app by (auto; lia). rewrite sel_app by (auto; lia). reflexivity.
    + unfold node_travs in *. rewrite filter_app, filter_raw by reflexivity. simpl.
      rewrite Kn. simpl. rewrite Mn, Mc. reflexivity.
Qed.

Definition summs (cs : list node) : list summ := concat (map summ_of cs).
Lemma summs_nil : summs [] = [].
Proof. reflexivity. Qed.
Lemma summs_cons n l : summs (n :: l) = summ_of n ++ summs l.
Proof. reflexivity. Qed.
Lemma summs_app a b : summs (a ++ b) = summs a ++ summs b.
Proof. unfold summs. rewrite map_app, concat_app. reflexivity. Qed.
Lemma summs_raw x : summs (raw x) = [].
Proof. destruct x; reflexivity. Qed.
Lemma summ_leaf k ts : summ_of (Leaf k ts) = [].
Proof. reflexivity. Qed.
#[export] Hint Rewrite summs_nil summs_cons summs_app summs_raw summ_leaf : sm.

Lemma find_raw f x l : (forall ts, f (Leaf LTokens ts) = false) -> find f (raw x ++ l) = find f l.
Proof. intros H. destruct x; simpl; [reflexivity|]. rewrite H. reflexivity. Qed.

Lemma is_one_inv {A} (l : list A) : is_one l = true -> exists t, l = [t].
Proof. destruct l as [|t [|? ?]]; try discriminate. eauto. Qed.
Lemma is_nil_inv {A} (l : list A) : is_nil l = true -> l = [].
Proof. destruct l; [reflexivity|discriminate]. Qed.

Lemma firstn_slice {A} (l : list A) a b : (a <= b)%nat -> firstn a l ++ slice l a b = firstn b l.
Proof.
  intros H. apply (app_inv_tail (skipn b l)). rewrite <- app_assoc, slice3 by exact H.
  symmetry. apply firstn_skipn.
Qed.

Lemma label_node_tokens l : build_tokens (label_node l) = tokens l.
Proof.
  unfold label_node. destruct l as [|t [|? ?]]; try reflexivity.
  destruct (is (lty t) TokenIdent); reflexivity.
Qed.
Lemma label_node_is_label l : is_label (label_node l) = true.
Proof.
  unfold label_node. destruct l as [|t [|? ?]]; try reflexivity.
  destruct (is (lty t) TokenIdent); reflexivity.
Qed.
Lemma label_node_summ l : summ_of (label_node l) = [].
Proof.
  unfold label_node. destruct l as [|t [|? ?]]; try reflexivity.
  destruct (is (lty t) TokenIdent); reflexivity.
Qed.

Fixpoint nitem_ind' (P : nitem -> Prop)
  (Ha : forall s n q e, P (NAttr s n q e))
  (Hb : forall t ls o c b items, Forall P items -> P (NBlock t ls o c b items))
  (it : nitem) : P it :=
  match it with
  | NAttr s n q e => Ha s n q e
  | NBlock t ls o c b items =>
      Hb t ls o c b items
         ((fix go (l : list nitem) : Forall P l :=
             match l with
             | [] => Forall_nil _
             | x :: r => Forall_cons _ (nitem_ind' P Ha Hb x) (go r)
             end) items)
  end.

Lemma parse_body_item_attr src name_r eq_r e from :
  parse_body_item (NAttr src name_r eq_r e) from =
  match partition_block_item from src with
  | Panic p => Panic p
  | Ok (before, lead, within, linec, nl, after) =>
      match parse_attribute name_r eq_r e within lead linec nl with
      | Panic p => Panic p
      | Ok n => Ok (before, n, after)
      end
  end.
Proof. reflexivity. Qed.

Lemma parse_body_item_block type_r label_rs open_r close_r body_r items from :
  parse_body_item (NBlock type_r label_rs open_r close_r body_r items) from =
  match partition_block_item from (mkR (r_s type_r) (r_e close_r)) with
  | Panic p => Panic p
  | Ok (before, lead, within, linec, nl, after) =>
      let '(before1, type_toks, from1) := partition within type_r in
      match type_toks with
      | [t] =>
          let '(before_labels, labels_node, from2) := parse_block_labels label_rs from1 in
          let '(before2, obrace, from3) := partition from2 open_r in
          let '(body_toks, cbrace, from4) := partition from3 close_r in
          match parse_body_with parse_body_item body_r items body_toks with
          | Panic p => Panic p
          | Ok (bbefore, body, bafter) =>
              Ok (before,
                  Inner KBlock
                    ([Leaf LComments (tokens lead)] ++ raw before1 ++ [Leaf LIdentifier [lt t]]
                     ++ raw before_labels ++ [labels_node] ++ raw before2 ++ raw obrace
                     ++ raw bbefore ++ [body] ++ raw bafter
                     ++ raw cbrace ++ raw from4 ++ raw linec ++ raw nl),
                  after)
          end
      | _ => Panic PBlockTypeNotOneToken
      end
  end.
Proof. reflexivity. Qed.

Section Items.
Variable toks : list ltok.
Hypothesis Hs : ssorted toks.

(* ---- attribute ---- *)
Lemma parse_attribute_ok src name_r eq_r e lead linec nl :
  wf_item toks (NAttr src name_r eq_r e) = true ->
  exists n, parse_attribute name_r eq_r e (sel_r toks src) lead linec nl = Ok n
    /\ build_tokens n = tokens lead ++ tokens (sel_r toks src) ++ tokens linec ++ tokens nl
    /\ summ_of n = [ast_summ toks (NAttr src name_r eq_r e)].
Proof.
  simpl. intros H.
  apply andb_true_iff in H as [H H6]. apply andb_true_iff in H as [H H5].
  apply andb_true_iff in H as [H H4]. apply andb_true_iff in H as [H H3].
  apply andb_true_iff in H as [H1 H2].
  apply in_order_spec in H1 as (A1 & A2 & A3). apply in_order_spec in H2 as (B1 & B2 & B3).
  apply in_order_spec in H3 as (C1 & C2 & C3).
  apply is_one_inv in H4 as [t Ht]. apply is_nil_inv in H5.
  destruct (parse_travs_ok toks Hs _ _ _ H6) as (cs & Ec & Fc & Mc).
  unfold parse_attribute, sel_r in *.
  rewrite partition_sel_in by (auto; lia). rewrite Ht.
  rewrite partition_sel_in by (auto; lia).
  rewrite partition_sel_in by (auto; lia).
  unfold parse_expression. rewrite Ec, H5.
  eexists. split; [reflexivity|]. split.
  - fl. rewrite Fc. f_equal.
    rewrite <- (sel_app toks (r_s src) (r_s name_r) (r_e src)) by (auto; lia).
    rewrite <- (sel_app toks (r_s name_r) (r_e name_r) (r_e src)) by (auto; lia).
    rewrite <- (sel_app toks (r_e name_r) (r_s eq_r) (r_e src)) by (auto; lia).
    rewrite <- (sel_app toks (r_s eq_r) (r_e eq_r) (r_e src)) by (auto; lia).
    rewrite <- (sel_app toks (r_e eq_r) (r_s (e_range e)) (r_e src)) by (auto; lia).
    rewrite <- (sel_app toks (r_s (e_range e)) (r_e (e_range e)) (r_e src)) by (auto; lia).
    rewrite Ht, H5. fl. fin.
  - simpl. f_equal. f_equal.
    + unfold ident_bytes. simpl. rewrite find_raw by reflexivity. simpl.
      unfold range_bytes, sel_r. rewrite Ht. simpl. rewrite app_nil_r. reflexivity.
    + unfold vars_of. simpl. rewrite find_raw by reflexivity. simpl.
      rewrite find_raw by reflexivity. rewrite find_raw by reflexivity.
      rewrite find_raw by reflexivity. simpl. exact Mc.
Qed.

(* ---- block labels ---- *)
Fixpoint lend (lo : Z) (rs : list rng) : Z :=
  match rs with [] => lo | r :: rest => lend (r_e r) rest end.
Lemma lend_labels_end rs : forall lo, lend lo rs = labels_end lo rs.
Proof.
  unfold labels_end. induction rs as [|r rest IH]; intros lo; [reflexivity|].
  simpl. rewrite IH. destruct rest; [reflexivity|].
  clear IH. generalize (mkR (r_e r) (r_e r)) (mkR lo lo). revert r0.
  induction rest as [|x rest IH]; intros r0 d1 d2; [reflexivity|]. simpl. apply IH.
Qed.

Lemma parse_labels_rest_ok : forall rs lo hi0 hi,
  wf_labels_rest lo hi0 rs = true -> lo <= hi0 -> hi0 <= hi ->
  exists cs, parse_labels_rest rs (sel toks lo hi) = (cs, sel toks (lend lo rs) hi)
    /\ flat cs = tokens (sel toks lo (lend lo rs))
    /\ filter is_label cs = map (fun r => label_node (sel_r toks r)) rs
    /\ summs cs = []
    /\ lo <= lend lo rs <= hi0.
Proof.
  induction rs as [|r rest IH]; intros lo hi0 hi Hw L1 L2.
  - simpl. eexists. split; [reflexivity|]. rewrite sel_empty by lia. repeat split; lia.
  - simpl in Hw. apply andb_true_iff in Hw as [H1 H2].
    apply in_order_spec in H1 as (O1 & O2 & O3).
    destruct (IH (r_e r) hi0 hi H2 O3 L2) as (cs & Ec & Fc & Lc & Sc & Bc).
    cbn [parse_labels_rest]. rewrite partition_sel_in by (auto; lia). rewrite Ec.
    eexists. split; [reflexivity|]. split; [|split; [|split]].
    + fl. rewrite label_node_tokens, Fc. rewrite <- !tokens_app.
      rewrite sel_app by (auto; lia). rewrite sel_app by (auto; lia). reflexivity.
    + rewrite filter_app, filter_raw by reflexivity. simpl.
      rewrite label_node_is_label, Lc. reflexivity.
    + autorewrite with sm. rewrite label_node_summ, Sc. reflexivity.
    + simpl. lia.
Qed.

Lemma parse_block_labels_ok rs lo hi0 hi :
  wf_labels lo hi0 rs = true -> lo <= hi0 -> hi0 <= hi ->
  exists ba n, parse_block_labels rs (sel toks lo hi) = (ba, n, sel toks (lend lo rs) hi)
    /\ tokens ba ++ build_tokens n = tokens (sel toks lo (lend lo rs))
    /\ is_inner KLabels n = true
    /\ filter is_label (children n) = map (fun r => label_node (sel_r toks r)) rs
    /\ lo <= lend lo rs <= hi0.
Proof.
  unfold wf_labels. intros Hw L1 L2. destruct rs as [|r rest].
  - simpl. do 2 eexists. split; [reflexivity|]. rewrite sel_empty by lia. repeat split; lia.
  - simpl in Hw. apply andb_true_iff in Hw as [H1 H2].
    apply in_order_spec in H1 as (O1 & O2 & O3).
    destruct (parse_labels_rest_ok rest (r_e r) hi0 hi H2 O3 L2) as (cs & Ec & Fc & Lc & Sc & Bc).
    cbn [parse_block_labels]. rewrite partition_sel_in by (auto; lia). rewrite Ec.
    do 2 eexists. split; [reflexivity|]. split; [|split; [reflexivity|split]].
    + fl. rewrite label_node_tokens, Fc. rewrite <- !tokens_app.
      rewrite sel_app by (auto; lia). rewrite sel_app by (auto; lia). reflexivity.
    + simpl. rewrite label_node_is_label, Lc. reflexivity.
    + simpl. lia.
Qed.

(* ---- items and bodies ---- *)
Definition item_spec (it : nitem) : Prop :=
  wf_item toks it = true -> forall lo hi ac an,
  in_order lo hi (item_range it) = true ->
  partition_line_end_tokens (sel toks (r_e (item_range it)) hi) = Ok (ac, an) ->
  exists before n,
    parse_body_item it (sel toks lo hi)
      = Ok (before, n, skipn an (sel toks (r_e (item_range it)) hi))
    /\ tokens before ++ build_tokens n
       = tokens (sel toks lo (r_e (item_range it))) ++ tokens (firstn an (sel toks (r_e (item_range it)) hi))
    /\ summ_of n = [ast_summ toks it].

Lemma parse_items_ok items : Forall item_spec items -> forall lo hi,
  wf_items toks (wf_item toks) lo hi items = true ->
  exists cs, parse_items parse_body_item items (sel toks lo hi) = Ok cs
    /\ flat cs = tokens (sel toks lo hi)
    /\ summs cs = map (ast_summ toks) items.
Proof.
  induction 1 as [|it rest Hit Hrest IH]; intros lo hi Hw.
  - simpl. eexists. split; [reflexivity|]. split; [apply flat_raw|apply summs_raw].
  - simpl in Hw. apply andb_true_iff in Hw as [Hw H3]. apply andb_true_iff in Hw as [H1 H2].
    destruct (partition_line_end_tokens (sel toks (r_e (item_range it)) hi)) as [[ac an]|] eqn:EL;
      [|discriminate].
    pose proof (in_order_spec _ _ _ H1) as (O1 & O2 & O3).
    destruct (Hit H2 lo hi ac an H1 EL) as (before & n & En & Fn & Sn).
    set (C := sel toks (r_e (item_range it)) hi) in *.
    destruct (sel_split toks (r_e (item_range it)) hi (firstn an C) (skipn an C) Hs O3
                (eq_sym (firstn_skipn an C))) as (S1 & S2 & S3).
    destruct (IH _ _ H3) as (cs & Ec & Fc & Sc).
    rewrite <- S2 in Ec, Fc.
    simpl. rewrite En. rewrite Ec.
    eexists. split; [reflexivity|]. split.
    + fl. rewrite app_assoc, Fn, Fc. rewrite <- !tokens_app. rewrite <- app_assoc.
      rewrite firstn_skipn. unfold C. rewrite sel_app by (auto; lia). reflexivity.
    + autorewrite with sm. rewrite Sn, Sc. reflexivity.
Qed.

Lemma clamp_order lo hi a b : lo <= hi -> a <= b ->
  lo <= clamp lo hi a /\ clamp lo hi a <= clamp lo hi b /\ clamp lo hi b <= hi.
Proof. unfold clamp. lia. Qed.

Lemma lead_idx_le l : (partition_lead_comment_tokens l <= length l)%nat.
Proof. unfold partition_lead_comment_tokens. lia. Qed.

Lemma parse_body_ok body_r items : Forall item_spec items -> forall lo hi,
  wf_body toks (wf_item toks) lo hi body_r items = true ->
  exists b n a, parse_body_with parse_body_item body_r items (sel toks lo hi) = Ok (b, n, a)
    /\ tokens b ++ build_tokens n ++ tokens a = tokens (sel toks lo hi)
    /\ summ_of n = map (ast_summ toks) items
    /\ is_inner KBody n = true.
Proof.
  intros HF lo hi Hw. unfold wf_body in Hw.
  apply andb_true_iff in Hw as [Hw H3]. apply andb_true_iff in Hw as [H1 H2].
  apply Z.leb_le in H1, H2.
  destruct (clamp_order lo hi _ _ H2 H1) as (K1 & K2 & K3).
  set (bs := clamp lo hi (r_s body_r)) in *. set (be := clamp lo hi (r_e body_r)) in *.
  set (A := sel toks lo bs) in *. set (C := sel toks be hi) in *.
  destruct (partition_line_end_tokens C) as [[ac an]|] eqn:EL; [|discriminate].
  set (L := sel toks lo hi).
  pose proof (partition_sel toks lo hi body_r Hs H2 H1) as EP.
  fold bs be A C L in EP.
  unfold partition in EP. destruct (partition_tokens L body_r) as [s e] eqn:EPT.
  rewrite slice_from_0, slice_to_end in EP. inversion EP as [[EA EW EC]]. clear EP.
  pose proof (partition_tokens_le L body_r) as Lse. rewrite EPT in Lse.
  set (s' := partition_lead_comment_tokens A).
  assert (Ls' : (s' <= s)%nat).
  { pose proof (lead_idx_le A) as Q. fold s' in Q. rewrite <- EA, firstn_length in Q. lia. }
  (* the three results *)
  assert (EPI : partition_including_comments L body_r
                = Ok (firstn s' A, slice L s' (e + an), skipn an C)).
  { unfold partition_including_comments. rewrite EPT, EA, EC, EL. fold s'.
    rewrite slice_from_0, slice_to_end. f_equal. f_equal; [f_equal|].
    - rewrite <- EA, firstn_firstn. f_equal. lia.
    - rewrite <- EC, skipn_add. reflexivity. }
  pose proof (partition_including_comments_conserve _ _ _ _ _ EPI) as CONS.
  assert (LL : L = A ++ sel toks bs be ++ C).
  { unfold A, C, L. rewrite sel_app by (auto; lia). rewrite sel_app by (auto; lia). reflexivity. }
  assert (EWI : slice L s' (e + an) = skipn s' A ++ sel toks bs be ++ firstn an C).
  { rewrite LL in CONS at 2.
    rewrite <- (firstn_skipn s' A) in CONS at 2. rewrite <- (firstn_skipn an C) in CONS at 2.
    rewrite <- !app_assoc in CONS. apply app_inv_head in CONS.
    rewrite !app_assoc in CONS. apply app_inv_tail in CONS. rewrite <- !app_assoc in CONS. exact CONS. }
  destruct (sel_split toks lo bs (firstn s' A) (skipn s' A) Hs K1 (eq_sym (firstn_skipn s' A)))
    as (SA1 & SA2 & SA3).
  destruct (sel_split toks be hi (firstn an C) (skipn an C) Hs K3 (eq_sym (firstn_skipn an C)))
    as (SC1 & SC2 & SC3).
  set (lo' := lob (skipn s' A) bs) in *. set (hi' := lob (skipn an C) hi) in *.
  assert (EWS : slice L s' (e + an) = sel toks lo' hi').
  { rewrite EWI, SA2, SC1. rewrite sel_app by (auto; lia). rewrite sel_app by (auto; lia). reflexivity. }
  destruct (parse_items_ok items HF lo' hi' H3) as (cs & Ec & Fc & Sc).
  unfold parse_body_with. fold L. rewrite EPI, EWS, Ec.
  do 3 eexists. split; [reflexivity|]. split; [|split; [exact Sc|reflexivity]].
  fl. rewrite Fc, <- EWS, <- !tokens_app. f_equal. exact CONS.
Qed.

Lemma item_spec_all it : item_spec it.
Proof.
  induction it as [src name_r eq_r e|type_r label_rs open_r close_r body_r items IH] using nitem_ind';
    intros Hw lo hi ac an Ho EL.
  - (* attribute *)
    pose proof (in_order_spec _ _ _ Ho) as (O1 & O2 & O3). simpl item_range in *.
    rewrite parse_body_item_attr. unfold partition_block_item.
    rewrite partition_sel_in by assumption.
    destruct (partition_lead_comments (sel toks lo (r_s src))) as [b1 lead] eqn:ELD.
    unfold partition_line_end. rewrite EL. rewrite slice_from_0, slice_to_end.
    destruct (parse_attribute_ok src name_r eq_r e lead
                (firstn ac (sel toks (r_e src) hi)) (slice (sel toks (r_e src) hi) ac an) Hw)
      as (n & En & Fn & Sn).
    unfold sel_r in En. rewrite En.
    do 2 eexists. split; [reflexivity|]. split; [|exact Sn].
    rewrite Fn. apply partition_lead_comments_conserve in ELD.
    rewrite <- (sel_app toks lo (r_s src) (r_e src)) by (auto; lia). rewrite <- ELD.
    rewrite <- (firstn_slice _ ac an) by (eapply line_end_le; eauto).
    unfold sel_r. fl. reflexivity.
  - (* block *)
    pose proof (in_order_spec _ _ _ Ho) as (O1 & O2 & O3). cbn [item_range r_s r_e] in *.
    simpl in Hw.
    apply andb_true_iff in Hw as [Hw H6]. apply andb_true_iff in Hw as [Hw H5].
    apply andb_true_iff in Hw as [Hw H4]. apply andb_true_iff in Hw as [Hw H3].
    apply andb_true_iff in Hw as [H1 H2].
    apply Z.leb_le in H1, H5. apply is_one_inv in H2 as [t Ht].
    apply in_order_spec in H4 as (Q1 & Q2 & Q3). rewrite <- lend_labels_end in Q1.
    assert (LB : r_e type_r <= r_s open_r).
    { destruct label_rs as [|r0 rest]; [simpl in Q1; lia|].
      unfold wf_labels in H3. simpl in H3.
      apply andb_true_iff in H3 as [H3 _]. apply in_order_spec in H3. lia. }
    destruct (parse_block_labels_ok label_rs (r_e type_r) (r_s open_r) (r_e close_r) H3 LB ltac:(lia))
      as (ba & ln & Eln & Fln & Kln & Lln & Bln).
    destruct ln as [?|k lcs]; [discriminate|].
    destruct k; try (simpl in Kln; discriminate). simpl in Lln. rewrite build_inner in Fln.
    destruct (parse_body_ok body_r items IH (r_e open_r) (r_s close_r) H6)
      as (bb & bn & bafter & Eb & Fb & Sb & Kb).
    rewrite parse_body_item_block. unfold partition_block_item.
    rewrite partition_sel_in by (simpl; auto; lia). cbn [r_s r_e].
    destruct (partition_lead_comments (sel toks lo (r_s type_r))) as [b1 lead] eqn:ELD.
    unfold partition_line_end. rewrite EL. rewrite slice_from_0, slice_to_end.
    rewrite partition_sel_in by (auto; lia). unfold sel_r in Ht. rewrite Ht.
    rewrite Eln.
    rewrite partition_sel_in by (auto; lia).
    rewrite partition_sel_in by (auto; lia).
    rewrite Eb.
    do 2 eexists. split; [reflexivity|]. split.
    + apply partition_lead_comments_conserve in ELD.
      rewrite <- (sel_app toks lo (r_s type_r) (r_e close_r)) by (auto; lia). rewrite <- ELD.
      rewrite <- (firstn_slice _ ac an) by (eapply line_end_le; eauto).
      rewrite (sel_empty toks (r_s type_r) (r_s type_r)) by lia.
      rewrite (sel_empty toks (r_e close_r) (r_e close_r)) by lia.
      fl. f_equal. f_equal.
      rewrite (app_assoc (tokens ba)), Fln.
      rewrite <- (sel_app toks (r_s type_r) (r_e type_r) (r_e close_r)) by (auto; lia).
      rewrite <- (sel_app toks (r_e type_r) (lend (r_e type_r) label_rs) (r_e close_r)) by (auto; lia).
      rewrite <- (sel_app toks (lend (r_e type_r) label_rs) (r_s open_r) (r_e close_r)) by (auto; lia).
      rewrite <- (sel_app toks (r_s open_r) (r_e open_r) (r_e close_r)) by (auto; lia).
      rewrite <- (sel_app toks (r_e open_r) (r_s close_r) (r_e close_r)) by (auto; lia).
      rewrite Ht. fl. f_equal. f_equal. f_equal. f_equal.
      rewrite <- Fb. fl. reflexivity.
    + rewrite (sel_empty toks (r_s type_r) (r_s type_r)) by lia.
      simpl. f_equal. f_equal.
      * unfold range_bytes, sel_r. rewrite Ht. simpl. rewrite app_nil_r. reflexivity.
      * unfold labels_of. simpl. rewrite find_raw by reflexivity. simpl. exact Lln.
      * match goal with |- concat (map summ_of ?x) = ?y => change (summs x = y) end.
        autorewrite with sm. simpl. rewrite Sb, app_nil_r. reflexivity.
Qed.
End Items.

(* ---- the sorter is a sort ---- *)
Lemma insert_item_perm x l : Permutation (insert_item x l) (x :: l).
Proof.
  induction l as [|y r IH]; simpl; [reflexivity|].
  destruct (r_s (item_range x) <? r_s (item_range y)); [reflexivity|].
  rewrite IH. apply perm_swap.
Qed.
Lemma sort_items_perm l : Permutation (sort_items l) l.
Proof.
  induction l as [|x r IH]; simpl; [reflexivity|].
  rewrite insert_item_perm. constructor. exact IH.
Qed.
Definition le_start (a b : nitem) : Prop := r_s (item_range a) <= r_s (item_range b).
Lemma insert_item_sorted x l : StronglySorted le_start l -> StronglySorted le_start (insert_item x l).
Proof.
  induction 1 as [|y r Hs IH Hf]; simpl; [repeat constructor|].
  destruct (Z.ltb_spec (r_s (item_range x)) (r_s (item_range y))) as [L|L].
  - constructor; [constructor; assumption|]. constructor; [unfold le_start; lia|].
    eapply Forall_impl; [|exact Hf]. unfold le_start. intros; lia.
  - constructor; [exact IH|].
    eapply Permutation_Forall; [symmetry; apply insert_item_perm|].
    constructor; [unfold le_start; lia|exact Hf].
Qed.
Lemma sort_items_sorted l : StronglySorted le_start (sort_items l).
Proof. induction l; simpl; [constructor|]. apply insert_item_sorted. assumption. Qed.
Lemma sort_items_sorts l :
  Permutation (sort_items l) l
  /\ StronglySorted (fun a b => r_s (item_range a) <= r_s (item_range b)) (sort_items l).
Proof. split; [apply sort_items_perm|apply sort_items_sorted]. Qed.

(* ---- the loader on a well-formed file ---- *)
Lemma load_sorted_ok toks f : wf_file toks f = true ->
  exists tree, load_sorted toks f = Ok tree
    /\ build_tokens tree = tokens toks
    /\ summ_of tree = map (ast_summ toks) (f_items f).
Proof.
  unfold wf_file. intros H. apply andb_true_iff in H as [H1 H2].
  apply sorted_toks_ssorted in H1.
  assert (IH : Forall (item_spec toks) (f_items f)).
  { apply Forall_forall. intros it _. apply item_spec_all. exact H1. }
  destruct (parse_body_ok toks H1 (f_range f) (f_items f) IH _ _ H2)
    as (b & n & a & E & F & S & K).
  rewrite sel_all in E, F by exact H1.
  unfold load_sorted, parse_body. rewrite E.
  eexists. split; [reflexivity|]. split.
  - fl. rewrite app_nil_r. exact F.
  - simpl. rewrite S, app_nil_r. reflexivity.
Qed.

Theorem load_flatten : load_flatten_stmt.
Proof.
  intros toks f H. destruct (load_sorted_ok toks (sort_file f) H) as (tree & E & F & _).
  exists tree. split; assumption.
Qed.

Theorem accessors_summ toks f tree :
  ranges_wf toks f = true -> load toks f = Ok tree ->
  summ_of tree = map (ast_summ toks) (f_items (sort_file f)).
Proof.
  intros H E. destruct (load_sorted_ok toks (sort_file f) H) as (tree' & E' & _ & S).
  unfold load in E. rewrite E' in E. inversion E; subst. exact S.
Qed.

(* ---- labels ---- *)
Lemma quoted_body_spec rest : forall mid, quoted_body rest = Some mid ->
  exists c, rest = mid ++ [c] /\ is (ty c) TokenCQuote = true.
Proof.
  induction rest as [|c r IH]; intros mid H; [discriminate|].
  cbn [quoted_body] in H. destruct r as [|c' r'].
  - destruct (is (ty c) TokenCQuote) eqn:E; [|discriminate].
    inversion H; subst. exists c. split; [reflexivity|exact E].
  - destruct (quoted_body (c' :: r')) as [m|] eqn:E; [|discriminate].
    inversion H; subst. destruct (IH m eq_refl) as (c0 & E0 & K). exists c0.
    rewrite E0. split; [reflexivity|exact K].
Qed.

Lemma is_neq a b c : is a b = true -> b <> c -> is a c = false.
Proof. unfold is. intros H N. apply Z.eqb_eq in H. subst. apply Z.eqb_neq. exact N. Qed.

Lemma filter_all_quoted mid : all_quoted_lit mid = true ->
  filter (fun t => is (ty t) TokenQuotedLit) mid = mid.
Proof.
  intros H. apply filter_true. apply Forall_forall. intros t Ht.
  unfold all_quoted_lit in H. rewrite forallb_forall in H. auto.
Qed.

(* Current() on the node built for a label returns the source's label text *)
Lemma label_current_ok l : label_ok (tokens l) = true ->
  label_current (label_node l) = Some (label_source (tokens l)).
Proof.
  destruct l as [|a [|b r]].
  - discriminate.
  - change (tokens [a]) with [lt a]. cbn [label_ok label_source]. intros H.
    unfold label_node, lty. rewrite H. cbn [label_current]. rewrite H. reflexivity.
  - intros H. change (label_node (a :: b :: r)) with (Leaf LQuoted (tokens (a :: b :: r))).
    change (tokens (a :: b :: r)) with (lt a :: lt b :: tokens r) in *.
    cbn [label_ok label_current label_source] in *.
    apply andb_true_iff in H as [HO H]. rewrite HO.
    destruct (quoted_body (lt b :: tokens r)) as [mid|] eqn:EQ; [|discriminate].
    rewrite H. f_equal. unfold quoted_text.
    destruct (quoted_body_spec _ _ EQ) as (c & E & HC). rewrite E.
    cbn [filter]. rewrite (is_neq _ _ TokenQuotedLit HO) by discriminate.
    rewrite filter_app, (filter_all_quoted _ H). cbn [filter].
    rewrite (is_neq _ _ TokenQuotedLit HC) by discriminate. rewrite app_nil_r. reflexivity.
Qed.

Lemma labels_api_ok toks rs :
  forallb (fun r => label_ok (tokens (sel_r toks r))) rs = true ->
  labels_api (map (fun r => label_node (sel_r toks r)) rs)
  = map (fun r => label_source (tokens (sel_r toks r))) rs.
Proof.
  induction rs as [|r rest IH]; simpl; intros H; [reflexivity|].
  apply andb_true_iff in H as [H1 H2].
  unfold labels_api in *. simpl. rewrite (label_current_ok _ H1). simpl.
  f_equal. apply IH. exact H2.
Qed.

Lemma summ_api_ast toks it : labels_ok toks it = true ->
  summ_api (ast_summ toks it) = ast_api toks it.
Proof.
  induction it as [src name_r eq_r e|type_r label_rs open_r close_r body_r items IH] using nitem_ind';
    intros H; [reflexivity|].
  cbn [labels_ok] in H. apply andb_true_iff in H as [H1 H2].
  cbn [ast_summ summ_api ast_api]. f_equal.
  - apply labels_api_ok. exact H1.
  - rewrite map_map. rewrite forallb_forall in H2. rewrite Forall_forall in IH.
    apply map_ext_in. intros x Hx. apply IH; auto.
Qed.

(* what Attributes()/Blocks()/Type()/Labels()/Variables() return is what the
   native AST says, for every item at every depth *)
Theorem accessors_complete : accessors_complete_stmt.
Proof.
  intros toks f tree H L E. rewrite (accessors_summ toks f tree H E), map_map.
  unfold file_labels_ok in L. rewrite forallb_forall in L.
  apply map_ext_in. intros it Hit. apply summ_api_ast. auto.
Qed.

(* ---- File.Bytes ---- *)
Theorem bytes_equal_format toks f tree :
  ranges_wf toks f = true -> load toks f = Ok tree ->
  file_bytes tree = write (format (tokens toks)).
Proof.
  intros H E. destruct (load_flatten toks f H) as (tree' & E' & F).
  rewrite E' in E. inversion E; subst. unfold file_bytes. rewrite F. reflexivity.
Qed.

Definition mk (ty_ : Z) (bs : list Z) (g sp_ s e : Z) : ltok := mkL (mkTok ty_ bs g sp_) s e.

(* the hypotheses of load_flatten are satisfiable on a non-trivial instance *)
Definition ex_toks : list ltok :=
  [mk 73 [98] 1 0 0 1; mk 67 [47;42;99;42;47] 5 1 2 7; mk 171 [34] 1 1 8 9; mk 81 [97] 1 0 9 10;
   mk 81 [36] 1 0 10 11; mk 81 [98] 1 0 11 12; mk 187 [34] 1 0 12 13; mk 123 [123] 1 1 14 15;
   mk 10 [10] 1 0 15 16;
   mk 73 [97] 1 2 18 19; mk 61 [61] 1 1 20 21; mk 73 [102] 1 1 22 23; mk 46 [46] 1 0 23 24;
   mk 73 [103] 1 0 24 25; mk 91 [91] 1 0 25 26; mk 73 [116;114;117;101] 4 0 26 30; mk 93 [93] 1 0 30 31;
   mk 67 [35;99;10] 3 1 32 35; mk 125 [125] 1 0 35 36; mk 10 [10] 1 0 36 37; mk 9220 [] 0 0 37 37].
(* b /*c*/ "a$b" {\n  a = f.g[true] #c\n}\n   as lexed and parsed by Go *)
Definition ex_file : nfile :=
  mkFile (mkR 0 37)
    [NBlock (mkR 0 1) [mkR 8 13] (mkR 14 15) (mkR 35 36) (mkR 14 36)
       [NAttr (mkR 18 31) (mkR 18 19) (mkR 20 21)
          (mkExpr (mkR 22 31) [[mkStep SRoot (mkR 22 23); mkStep SAttr (mkR 23 25);
                                mkStep (SIndex KBool) (mkR 25 31)]])]].
Lemma ex_wf : ranges_wf ex_toks ex_file = true /\ file_labels_ok ex_toks ex_file = true.
Proof. split; vm_compute; reflexivity. Qed.

(* on it the loader keeps all 21 tokens and Labels() reads the joined label a$b *)
Lemma ex_load : exists tree, load ex_toks ex_file = Ok tree
  /\ build_tokens tree = tokens ex_toks
  /\ map summ_api (summ_of tree)
     = [ABlock [98] [[97; 36; 98]]
          [AAttr [97] [[ [mkTok 73 [102] 1 1]; [mkTok 46 [46] 1 0; mkTok 73 [103] 1 0];
                         [mkTok 91 [91] 1 0; mkTok 73 [116;114;117;101] 4 0; mkTok 93 [93] 1 0] ]]]].
Proof.
  destruct (load ex_toks ex_file) as [tree|p] eqn:E; [|vm_compute in E; discriminate].
  exists tree. vm_compute in E. inversion E; subst. repeat split; vm_compute; reflexivity.
Qed.
