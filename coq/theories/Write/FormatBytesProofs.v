(* Write/FormatBytesProofs.v — byte level of hclwrite.Format: what is proved about
   re-lexing the formatter's output (definitions: Write/FormatBytes.v).

   Main results
     main_pick_stable, string_pick_stable, heredoc_pick_stable
                          in each scanner a match that produced a clean token is won by the
                          same rule with the same token end when the bytes after the token
                          change in a way that does not continue it
     run_trace/trace_run  the scanner loop as a list of steps, both directions
     relex_exact_clean    every source that lexes cleanly: layout_okb (format ts) implies that
                          the written output lexes back to format ts exactly
     layout_of_format_clean  ... and format's output satisfies layout_okb when the source has no
                          hazard pattern (pipeline_LI4, fine_flat: what format does pair by
                          pair; pair_table, tl_table: finite exploration of space_after over
                          all pairs of types; main_shape: first bytes by type)
     relex_exact_hazard_free : relex_exact_hazard_free_stmt
     relex_stable_hazard_free, bytes_idempotent_hazard_free
                          the byte-level statements for every clean, hazard-free source
                          (quoted templates, template sequences and heredocs included)
     relex_exact_quoted/..., relex_exact_simple/..., relex_exact_main, relex_exact_nohd
                          corollaries for sources without heredocs / of main-scanner tokens
     relex_stable_refuted*  the statement is false without the hazard conditions
                          (witnesses by vm_compute) *)
From Coq Require Import String Ascii.
From HclV Require Import Base.Prelude Gen.TokenTypes Lex.Scanner Lex.ScannerProofs Lex.HclLex
  Lex.HclLexProofs Write.Format Write.FormatProofs Write.FormatBytes.
Open Scope list_scope. Open Scope Z_scope.

(* ==== 1. pick; matchers of the main scanner ====================================== *)

(* ---- pick ----------------------------------------------------------------------- *)

Lemma pick_ext (rs : list hrule) s s' : forall best,
  (forall r, In r rs -> r_match r s = r_match r s') -> pick rs s best = pick rs s' best.
Proof.
  induction rs as [|r rs IH]; intros best H; [reflexivity|].
  simpl. rewrite <- (H r (or_introl eq_refl)). apply IH. intros r' Hr'. apply H. right. exact Hr'.
Qed.

Definition lookof (r : hrule) (s : list Z) : nat :=
  match r_match r s with Some (lk, _) => lk | None => O end.

(* the winner has the greatest look *)
Lemma pick_max (rs : list hrule) s : forall best r lk n,
  pick rs s best = Some (r, lk, n) ->
  (forall rb lb nb, best = Some (rb, lb, nb) -> (lb <= lk)%nat) /\
  (forall r', In r' rs -> (lookof r' s <= lk)%nat).
Proof.
  induction rs as [|r0 rs IH]; intros best r lk n H; simpl in H.
  - split; [|intros ? []]. intros rb lb nb ->. inversion H. lia.
  - apply IH in H. destruct H as [Hb Hr]. split.
    + intros rb lb nb ->. destruct (r_match r0 s) as [[[|lk0] n0]|]; try (eapply Hb; reflexivity).
      destruct (Nat.ltb lb (S lk0)) eqn:E; [|eapply Hb; reflexivity].
      apply Nat.ltb_lt in E. specialize (Hb _ _ _ eq_refl). lia.
    + intros r' [E|Hin]; [subst r'|auto]. unfold lookof.
      destruct (r_match r0 s) as [[[|lk0] n0]|]; try lia.
      destruct best as [[[rb lb] nb]|].
      * destruct (Nat.ltb lb (S lk0)) eqn:E; [eapply Hb; reflexivity|].
        apply Nat.ltb_ge in E. specialize (Hb _ _ _ eq_refl). lia.
      * eapply Hb; reflexivity.
Qed.

(* a candidate that nobody later beats stays *)
Lemma pick_keep (rs : list hrule) s r lk n :
  (forall r', In r' rs -> (lookof r' s <= lk)%nat) ->
  pick rs s (Some (r, lk, n)) = Some (r, lk, n).
Proof.
  induction rs as [|r0 rs IH]; intro H; [reflexivity|]. simpl.
  pose proof (H r0 (or_introl eq_refl)) as H0. unfold lookof in H0.
  destruct (r_match r0 s) as [[[|lk0] n0]|]; try (apply IH; intros; apply H; right; assumption).
  destruct (Nat.ltb lk (S lk0)) eqn:E; [apply Nat.ltb_lt in E; lia|].
  apply IH. intros; apply H; right; assumption.
Qed.

(* construction: earlier rules do not match at all, later ones do not beat it *)
Lemma pick_intro (pre post : list hrule) r s lk n :
  (forall r', In r' pre -> lookof r' s = O) ->
  r_match r s = Some (S lk, n) ->
  (forall r', In r' post -> (lookof r' s <= S lk)%nat) ->
  pick (pre ++ r :: post) s None = Some (r, S lk, n).
Proof.
  induction pre as [|r0 pre IH]; intros Hpre Hm Hpost.
  - simpl. rewrite Hm. apply pick_keep. exact Hpost.
  - simpl. pose proof (Hpre r0 (or_introl eq_refl)) as H0. unfold lookof in H0.
    destruct (r_match r0 s) as [[[|lk0] n0]|]; try discriminate;
      apply IH; auto; intros; apply Hpre; right; assumption.
Qed.

(* ---- byte-level helper facts ----------------------------------------------------- *)

Lemma starts_with_cons c d y : starts_with c (d :: y) = (d =? c).
Proof. reflexivity. Qed.

Lemma is_prefix_app p : forall b t, is_prefix p (b ++ t) = true -> length b = length p -> b = p.
Proof.
  induction p as [|a p IH]; intros b t H Hl; destruct b as [|c b]; simpl in *; try lia; [reflexivity|].
  apply andb_true_iff in H. destruct H as [H1 H2]. apply Z.eqb_eq in H1. subst c.
  f_equal. eapply IH; [exact H2|lia].
Qed.

Lemma is_prefix_hd p0 p c y : is_prefix (p0 :: p) (c :: y) = true -> c = p0.
Proof. simpl. intro H. apply andb_true_iff in H. destruct H as [H _]. apply Z.eqb_eq in H. auto. Qed.

Lemma is_prefix_self p t : is_prefix p (p ++ t) = true.
Proof. induction p as [|a p IH]; simpl; [reflexivity|]. rewrite Z.eqb_refl, IH. reflexivity. Qed.

Lemma firstn_len_le {A} n (s : list A) : (length (firstn n s) <= n)%nat.
Proof. rewrite firstn_length. lia. Qed.

(* m_lit *)
Lemma m_lit_inv p s lk n : m_lit p s = Some (lk, n) -> is_prefix p s = true /\ lk = length p /\ n = length p.
Proof. unfold m_lit, same. destruct (is_prefix p s); intro H; inversion H; auto. Qed.

Lemma is_prefix_len p : forall s, is_prefix p s = true -> (length p <= length s)%nat.
Proof.
  induction p as [|a p IH]; intros s H; simpl in *; [lia|]. destruct s as [|c s]; [discriminate|].
  apply andb_true_iff in H. destruct H as [_ H]. apply IH in H. simpl. lia.
Qed.

(* ---- numbers --------------------------------------------------------------------- *)

(* the scan either stops at the last good position or goes strictly further *)
Definition nc_inv (skip acc good : nat) : Prop :=
  (good <= acc)%nat /\ (skip <> O -> good < acc)%nat.

Lemma num_cont_range : forall s skip acc good, nc_inv skip acc good ->
  num_cont s skip acc good = good \/ (acc + Nat.max skip 1 <= num_cont s skip acc good)%nat.
Proof.
  induction s as [|b r IH]; intros skip acc good [H1 H2]; [left; reflexivity|].
  destruct skip as [|[|k]].
  - (* skip = 0 *)
    cbn [num_cont].
    destruct (is_digit b).
    { destruct (IH O (S acc) (S acc) ltac:(split; lia)) as [E|E]; right; [rewrite E|]; lia. }
    destruct (b =? 46).
    { destruct (IH O (S acc) good ltac:(split; lia)) as [E|E]; [left; exact E|right; lia]. }
    destruct ((b =? 101) || (b =? 69)); [|left; reflexivity].
    destruct r as [|d r']; [left; reflexivity|].
    destruct (is_digit d).
    { destruct (IH 1%nat (S acc) good ltac:(split; lia)) as [E|E]; [left; exact E|right; lia]. }
    destruct ((d =? 43) || (d =? 45)); [|left; reflexivity].
    destruct r' as [|d2 r'']; [left; reflexivity|].
    destruct (is_digit d2); [|left; reflexivity].
    destruct (IH 2%nat (S acc) good ltac:(split; lia)) as [E|E]; [left; exact E|right; lia].
  - cbn [num_cont].
    destruct (IH O (S acc) (S acc) ltac:(split; lia)) as [E|E]; right; [rewrite E|]; lia.
  - cbn [num_cont].
    destruct (IH (S k) (S acc) good ltac:(split; lia)) as [E|E]; [left; exact E|right; lia].
Qed.

(* a tail in front of which a number scan that is between two elements stops *)
Definition num_stop (t : list Z) : Prop := forall acc good, num_cont t 0 acc good = good.

Lemma num_stop_nil : num_stop [].
Proof. intros acc good. reflexivity. Qed.


Lemma num_stop_other c y : num_byte c = false -> num_stop (c :: y).
Proof.
  unfold num_byte. intro H. apply orb_false_iff in H. destruct H as [H H3].
  apply orb_false_iff in H. destruct H as [H H2]. apply orb_false_iff in H. destruct H as [H0 H1].
  intros acc good. cbn [num_cont]. rewrite H0, H1, H2, H3. reflexivity.
Qed.

Lemma num_stop_dot y : num_stop y -> num_stop (46 :: y).
Proof. intros H acc good. cbn [num_cont]. simpl. apply H. Qed.

(* the part of the scan that lies inside the token does not depend on what follows *)
Lemma num_cont_app : forall b t skip acc good, nc_inv skip acc good ->
  num_cont (b ++ t) skip acc good = (acc + length b)%nat ->
  forall t', num_stop t' -> num_cont (b ++ t') skip acc good = (acc + length b)%nat.
Proof.
  induction b as [|c b IH]; intros t skip acc good Hi H t' Hs.
  - simpl in *. rewrite Nat.add_0_r in *.
    destruct (num_cont_range t skip acc good Hi) as [E|E]; [|lia].
    destruct Hi as [H1 H2]. destruct skip as [|k].
    + rewrite Hs. lia.
    + specialize (H2 ltac:(discriminate)). lia.
  - simpl app in *. simpl length in *. destruct Hi as [H1 H2].
    destruct skip as [|[|k]].
    + cbn [num_cont] in *.
      destruct (is_digit c).
      { rewrite (IH t O (S acc) (S acc) ltac:(split; lia) ltac:(lia) t' Hs). lia. }
      destruct (c =? 46).
      { rewrite (IH t O (S acc) good ltac:(split; lia) ltac:(lia) t' Hs). lia. }
      destruct ((c =? 101) || (c =? 69)); [|lia].
      destruct b as [|d b'].
      { (* the exponent letter is the last byte of the token: impossible *)
        exfalso. simpl app in H. simpl length in H. destruct t as [|d t0]; [lia|].
        destruct (is_digit d).
        { destruct (num_cont_range (d :: t0) 1 (S acc) good ltac:(split; lia)) as [E|E]; lia. }
        destruct ((d =? 43) || (d =? 45)); [|lia].
        destruct t0 as [|d2 t1]; [lia|]. destruct (is_digit d2); [|lia].
        destruct (num_cont_range (d :: d2 :: t1) 2 (S acc) good ltac:(split; lia)) as [E|E]; lia. }
      cbn [app] in *.
      destruct (is_digit d).
      { rewrite (IH t 1%nat (S acc) good ltac:(split; lia) ltac:(cbn [app length] in *; lia) t' Hs). simpl. lia. }
      destruct ((d =? 43) || (d =? 45)); [|simpl in H; lia].
      destruct b' as [|d2 b''].
      { exfalso. simpl app in H. simpl length in H. destruct t as [|d2 t1]; [lia|].
        destruct (is_digit d2); [|lia].
        destruct (num_cont_range (d :: d2 :: t1) 2 (S acc) good ltac:(split; lia)) as [E|E]; lia. }
      cbn [app] in *.
      destruct (is_digit d2); [|simpl in H; lia].
      rewrite (IH t 2%nat (S acc) good ltac:(split; lia) ltac:(cbn [app length] in *; lia) t' Hs). simpl. lia.
    + cbn [num_cont] in *.
      rewrite (IH t O (S acc) (S acc) ltac:(split; lia) ltac:(lia) t' Hs). lia.
    + cbn [num_cont] in *.
      rewrite (IH t (S k) (S acc) good ltac:(split; lia) ltac:(lia) t' Hs). lia.
Qed.

Lemma m_number_inv s lk n : m_number s = Some (lk, n) ->
  exists d r, s = d :: r /\ is_digit d = true /\ lk = n /\ n = num_cont r 0 1 1.
Proof.
  unfold m_number, same. destruct s as [|d r]; [discriminate|].
  destruct (is_digit d) eqn:E; [|discriminate]. intro H. inversion H. exists d, r. auto.
Qed.

(* ---- identifiers ------------------------------------------------------------------ *)

Lemma alt_matches_len a : forall s, alt_matches a s = true -> (length a <= length s)%nat.
Proof.
  induction a as [|[lo hi] a IH]; intros s H; simpl in *; [lia|].
  destruct s as [|c s]; [discriminate|]. apply andb_true_iff in H. destruct H as [_ H].
  apply IH in H. simpl. lia.
Qed.

Lemma alt_matches_app a : forall b t t', (length a <= length b)%nat ->
  alt_matches a (b ++ t) = alt_matches a (b ++ t').
Proof.
  induction a as [|[lo hi] a IH]; intros b t t' H; [reflexivity|].
  destruct b as [|c b]; simpl in H; [lia|]. simpl. rewrite (IH b t t') by lia. reflexivity.
Qed.

(* all alternatives of a bucket have the same length *)
Fixpoint alts_len_eq (n : nat) (l : list alt) : bool :=
  match l with [] => true | a :: r => Nat.eqb (length a) n && alts_len_eq n r end.


Fixpoint leaves_all (P : list alt -> bool) (t : btree) : bool :=
  match t with
  | BLeaf a => P a
  | BNode _ l r => leaves_all P l && leaves_all P r
  end.

Lemma leaves_all_bucket P t : leaves_all P t = true -> forall c, P (bucket t c) = true.
Proof.
  induction t as [a|p l IHl r IHr]; simpl; intros H c; [exact H|].
  apply andb_true_iff in H. destruct H as [Hl Hr]. destruct (c <? p); auto.
Qed.

Definition uniform_bucket (l : list alt) : bool := alts_len_eq (bucket_len l) l.

Lemma id_start_tree_uniform : leaves_all uniform_bucket id_start_tree = true.
Proof. vm_compute. reflexivity. Qed.
Lemma id_continue_tree_uniform : leaves_all uniform_bucket id_continue_tree = true.
Proof. vm_compute. reflexivity. Qed.

Lemma match_alts_uniform n : forall l s k, alts_len_eq n l = true -> match_alts l s = Some k -> k = n.
Proof.
  induction l as [|a l IH]; intros s k Hu H; simpl in *; [discriminate|].
  apply andb_true_iff in Hu. destruct Hu as [Ha Hl]. apply Nat.eqb_eq in Ha.
  destruct (alt_matches a s); [inversion H; lia|eauto].
Qed.

Lemma match_alts_app n : forall l b t t', alts_len_eq n l = true -> (n <= length b)%nat ->
  match_alts l (b ++ t) = match_alts l (b ++ t').
Proof.
  induction l as [|a l IH]; intros b t t' Hu Hn; [reflexivity|]. simpl in *.
  apply andb_true_iff in Hu. destruct Hu as [Ha Hl]. apply Nat.eqb_eq in Ha.
  rewrite (alt_matches_app a b t t') by lia. rewrite (IH b t t' Hl Hn). reflexivity.
Qed.

Lemma match_alts_len : forall l s k, match_alts l s = Some k -> (k <= length s)%nat.
Proof.
  induction l as [|a l IH]; intros s k H; simpl in *; [discriminate|].
  destruct (alt_matches a s) eqn:E; [|eauto]. inversion H; subst. apply alt_matches_len. exact E.
Qed.

(* id_continue_len / id_start_len on c :: x: the alternative length is fixed by c *)
Definition cont_n (c : Z) : nat := bucket_len (bucket id_continue_tree c).

Lemma id_continue_len_some c x k : id_continue_len (c :: x) = Some k ->
  k = cont_n c /\ (k <= length (c :: x))%nat.
Proof.
  unfold id_continue_len. intro H. split; [|eapply match_alts_len; exact H].
  eapply match_alts_uniform; [|exact H].
  apply (leaves_all_bucket _ _ id_continue_tree_uniform c).
Qed.

Lemma id_start_len_some c x k : id_start_len (c :: x) = Some k ->
  k = start_n c /\ (k <= length (c :: x))%nat.
Proof.
  unfold id_start_len. intro H. split; [|eapply match_alts_len; exact H].
  eapply match_alts_uniform; [|exact H].
  apply (leaves_all_bucket _ _ id_start_tree_uniform c).
Qed.

Lemma id_continue_len_app c b t t' : (cont_n c <= length (c :: b))%nat ->
  id_continue_len ((c :: b) ++ t) = id_continue_len ((c :: b) ++ t').
Proof.
  intro H. unfold id_continue_len. simpl app.
  apply (match_alts_app (cont_n c) _ (c :: b) t t'); [|exact H].
  apply (leaves_all_bucket _ _ id_continue_tree_uniform c).
Qed.

Lemma id_start_len_app c b t t' : (start_n c <= length (c :: b))%nat ->
  id_start_len ((c :: b) ++ t) = id_start_len ((c :: b) ++ t').
Proof.
  intro H. unfold id_start_len. simpl app.
  apply (match_alts_app (start_n c) _ (c :: b) t t'); [|exact H].
  apply (leaves_all_bucket _ _ id_start_tree_uniform c).
Qed.

Lemma ident_cont_ge : forall s skip acc, (skip <= length s)%nat -> (acc + skip <= ident_cont s skip acc)%nat.
Proof.
  induction s as [|c r IH]; intros skip acc H; cbn [ident_cont length] in *; [lia|].
  destruct skip as [|k].
  - destruct (c =? 45); [specialize (IH O (S acc) ltac:(lia)); lia|].
    destruct (id_continue_len (c :: r)) as [[|a]|] eqn:E; try lia.
    apply id_continue_len_some in E. destruct E as [_ E]. simpl in E.
    specialize (IH a (S acc) ltac:(lia)). lia.
  - specialize (IH k (S acc) ltac:(lia)). lia.
Qed.

(* a tail in front of which an identifier scan stops *)
Definition id_stop (t : list Z) : Prop := forall acc, ident_cont t 0 acc = acc.

Lemma id_stop_nil : id_stop [].
Proof. intro. reflexivity. Qed.

Lemma ident_cont_app : forall b t skip acc, (skip <= length (b ++ t))%nat ->
  ident_cont (b ++ t) skip acc = (acc + length b)%nat ->
  forall t', id_stop t' -> ident_cont (b ++ t') skip acc = (acc + length b)%nat.
Proof.
  induction b as [|c b IH]; intros t skip acc Hk H t' Hs.
  - simpl in *. destruct skip as [|k]; [rewrite Hs; lia|].
    pose proof (ident_cont_ge t (S k) acc Hk). lia.
  - cbn [app length] in *. destruct skip as [|k].
    + cbn [ident_cont] in *. destruct (c =? 45).
      { rewrite (IH t O (S acc) ltac:(lia) ltac:(lia) t' Hs). lia. }
      destruct (id_continue_len (c :: b ++ t)) as [[|a]|] eqn:E; try lia.
      pose proof (id_continue_len_some _ _ _ E) as [En El]. simpl in El.
      assert (Ha : (a <= length b)%nat).
      { destruct (Nat.le_gt_cases a (length b)); [assumption|].
        pose proof (ident_cont_ge (b ++ t) a (S acc) ltac:(lia)). lia. }
      assert (E' : id_continue_len (c :: b ++ t') = Some (S a)).
      { rewrite <- E. symmetry. apply (id_continue_len_app c b t t'). rewrite <- En. simpl. lia. }
      rewrite E'. rewrite (IH t a (S acc) ltac:(lia) ltac:(lia) t' Hs). lia.
    + cbn [ident_cont] in *.
      rewrite (IH t k (S acc) ltac:(lia) ltac:(lia) t' Hs). lia.
Qed.

Lemma ident_len_app c b t t' :
  ident_len ((c :: b) ++ t) = length (c :: b) -> id_stop t' ->
  ident_len ((c :: b) ++ t') = length (c :: b).
Proof.
  cbn [app length]. unfold ident_len. intros H Hs. destruct (c =? 95).
  - apply (ident_cont_app b t O 1%nat ltac:(lia) H t' Hs).
  - destruct (id_start_len (c :: b ++ t)) as [[|a]|] eqn:E; try discriminate.
    pose proof (id_start_len_some _ _ _ E) as [En El]. simpl in El.
    assert (Ha : (a <= length b)%nat).
    { destruct (Nat.le_gt_cases a (length b)); [assumption|].
      pose proof (ident_cont_ge (b ++ t) a 1%nat ltac:(lia)). lia. }
    assert (E' : id_start_len (c :: b ++ t') = Some (S a)).
    { rewrite <- E. symmetry. apply (id_start_len_app c b t t'). rewrite <- En. simpl. lia. }
    rewrite E'. apply (ident_cont_app b t a 1%nat ltac:(lia) H t' Hs).
Qed.

(* the first alternative of an identifier lies inside it *)
Lemma ident_len_first c x k : ident_len (c :: x) = S k ->
  c = 95 \/ (start_n c <= S k)%nat /\ (0 < start_n c)%nat.
Proof.
  unfold ident_len. destruct (c =? 95) eqn:E; [left; apply Z.eqb_eq; exact E|].
  destruct (id_start_len (c :: x)) as [[|a]|] eqn:El; try discriminate.
  pose proof (id_start_len_some _ _ _ El) as [En Hl]. simpl in Hl.
  intro H. right. pose proof (ident_cont_ge x a 1%nat ltac:(lia)). rewrite <- En. lia.
Qed.

(* ---- comments --------------------------------------------------------------------- *)

Definition m_comment' (s : list Z) : option (nat * nat) :=
  match s with
  | [] => None
  | c :: y =>
    if c =? 35 then same (to_eol y 1)
    else if c =? 47 then
      match y with
      | d :: r => if d =? 47 then same (to_eol r 2)
                  else if d =? 42 then match to_star_slash r 2 with Some n => same n | None => None end
                  else None
      | [] => None
      end
    else None
  end.

Ltac zcase c := destruct c as [|c|c]; try reflexivity; do 7 (try (destruct c as [c|c|]; try reflexivity)).

Lemma m_comment_eq s : m_comment s = m_comment' s.
Proof.
  destruct s as [|c y]; [reflexivity|]. unfold m_comment, m_comment'.
  zcase c. all: destruct y as [|d r]; try reflexivity. all: zcase d.
Qed.

Lemma to_eol_ge : forall s acc, (acc <= to_eol s acc)%nat.
Proof. induction s as [|c r IH]; intro acc; simpl; [lia|]. destruct (c =? 10); [lia|]. specialize (IH (S acc)). lia. Qed.

Lemma to_eol_app : forall b t acc, to_eol (b ++ t) acc = (acc + length b)%nat ->
  forall t', (t = [] -> t' = []) -> to_eol (b ++ t') acc = (acc + length b)%nat.
Proof.
  induction b as [|c b IH]; intros t acc H t' Ht.
  - simpl in *. destruct t as [|c t0]; [rewrite (Ht eq_refl); simpl; lia|].
    simpl in H. destruct (c =? 10); [lia|]. pose proof (to_eol_ge t0 (S acc)). lia.
  - cbn [app length to_eol] in *. destruct (c =? 10).
    + destruct b; simpl in *; lia.
    + rewrite (IH t (S acc) ltac:(lia) t' Ht). lia.
Qed.

Lemma tss_ge : forall s acc n, to_star_slash s acc = Some n -> (acc + 2 <= n)%nat.
Proof.
  induction s as [|c r IH]; intros acc n H; simpl in H; [discriminate|].
  destruct ((c =? 42) && starts_with 47 r); [inversion H; lia|]. apply IH in H. lia.
Qed.

Lemma tss_app : forall b t acc, to_star_slash (b ++ t) acc = Some (acc + length b)%nat ->
  forall t', to_star_slash (b ++ t') acc = Some (acc + length b)%nat.
Proof.
  induction b as [|c b IH]; intros t acc H t'.
  - simpl in H. apply tss_ge in H. lia.
  - cbn [app length to_star_slash] in *. destruct b as [|d b'].
    + exfalso. simpl in H. destruct ((c =? 42) && starts_with 47 t); [inversion H; lia|].
      apply tss_ge in H. lia.
    + cbn [app starts_with] in *. destruct ((c =? 42) && (d =? 47)).
      * inversion H. destruct b'; simpl in *; [f_equal; lia|lia].
      * replace (acc + S (length (d :: b')))%nat with (S acc + length (d :: b'))%nat in * by lia.
        apply (IH t (S acc) H t').
Qed.

(* a complete comment token is matched the same whatever follows it; a line
   comment that ran to the end of the input has nothing after it *)
Lemma m_comment_app b t t' : b <> [] -> (t = [] -> t' = []) ->
  m_comment (b ++ t) = same (length b) -> m_comment (b ++ t') = same (length b).
Proof.
  intros Hne Ht. rewrite !m_comment_eq. destruct b as [|c b]; [contradiction|].
  cbn [app length m_comment']. unfold same.
  destruct (c =? 35).
  { intro H. assert (E : to_eol (b ++ t) 1 = (1 + length b)%nat) by (injection H as Hx _; exact Hx).
    rewrite (to_eol_app b t 1%nat E t' Ht). reflexivity. }
  destruct (c =? 47); [|discriminate].
  destruct b as [|d b].
  { simpl. destruct t as [|d r]; [discriminate|].
    destruct (d =? 47). { intro H. inversion H. pose proof (to_eol_ge r 2). lia. }
    destruct (d =? 42); [|discriminate].
    destruct (to_star_slash r 2) eqn:E; [|discriminate]. apply tss_ge in E. intro H. inversion H. lia. }
  cbn [app length].
  destruct (d =? 47).
  { intro H. assert (E : to_eol (b ++ t) 2 = (2 + length b)%nat) by (injection H as Hx _; exact Hx).
    rewrite (to_eol_app b t 2%nat E t' Ht). reflexivity. }
  destruct (d =? 42); [|discriminate].
  destruct (to_star_slash (b ++ t) 2) eqn:E; [|discriminate].
  intro H. assert (En : n = (2 + length b)%nat) by (injection H as Hx _; exact Hx). subst n.
  rewrite (tss_app b t 2%nat E t'). reflexivity.
Qed.

(* ---- UTF-8 ------------------------------------------------------------------------- *)

Definition utf8_need (c : Z) : nat :=
  if c <? 128 then 1
  else if (192 <=? c) && (c <=? 223) then 2
  else if (224 <=? c) && (c <=? 239) then 3
  else if (240 <=? c) && (c <=? 247) then 4
  else 1.

Lemma utf8_len_app c b t t' : (utf8_need c <= length (c :: b))%nat ->
  utf8_len ((c :: b) ++ t) = utf8_len ((c :: b) ++ t').
Proof.
  unfold utf8_need, utf8_len. cbn [app length].
  destruct (c <? 128); [reflexivity|].
  destruct ((192 <=? c) && (c <=? 223)). { destruct b as [|c1 b]; simpl; [lia|reflexivity]. }
  destruct ((224 <=? c) && (c <=? 239)). { destruct b as [|c1 [|c2 b]]; simpl; try lia; reflexivity. }
  destruct ((240 <=? c) && (c <=? 247)). { destruct b as [|c1 [|c2 [|c3 b]]]; simpl; try lia; reflexivity. }
  reflexivity.
Qed.

(* every ID_Start alternative is at least as long as the UTF-8 sequence its
   first byte announces (checked on every leaf of the bucket tree: a leaf only
   holds alternatives whose first range contains the leaf's byte) *)
Definition start_covers_utf8 : bool :=
  forallb (fun c => let n := start_n c in Nat.eqb n 0 || Nat.leb (utf8_need c) n)
          (map Z.of_nat (seq 0 256)).
Lemma start_covers_utf8_ok : start_covers_utf8 = true.
Proof. vm_compute. reflexivity. Qed.

(* ==== 2. a clean main-scanner match survives a change of what follows it ======== *)

(* ---- guards: a matcher that cannot start with byte c ------------------------------ *)

Lemma g_spaces c y : is_blank c = false -> m_spaces (c :: y) = None.
Proof. intro H. unfold m_spaces. simpl. rewrite H. reflexivity. Qed.
Lemma g_number c y : is_digit c = false -> m_number (c :: y) = None.
Proof. intro H. unfold m_number. rewrite H. reflexivity. Qed.
Lemma g_ident c y : ident_len (c :: y) = O -> m_ident (c :: y) = None.
Proof. intro H. unfold m_ident. rewrite H. reflexivity. Qed.
Lemma g_comment c y : (c =? 35) = false -> (c =? 47) = false -> m_comment (c :: y) = None.
Proof. intros H1 H2. rewrite m_comment_eq. simpl. rewrite H1, H2. reflexivity. Qed.
Lemma g_newline c y : (c =? 10) = false -> (c =? 13) = false -> m_newline (c :: y) = None.
Proof. intros H1 H2. unfold m_newline. simpl. rewrite H1, H2. reflexivity. Qed.
Lemma g_lit p0 p c y : (p0 =? c) = false -> m_lit (p0 :: p) (c :: y) = None.
Proof. intro H. unfold m_lit. simpl. rewrite H. reflexivity. Qed.
Lemma g_self c y : existsb (Z.eqb c) self_chars = false -> m_self (c :: y) = None.
Proof. intro H. unfold m_self. rewrite H. reflexivity. Qed.
Lemma g_heredoc c y : (c =? 60) = false -> m_heredoc_begin (c :: y) = None.
Proof. intro H. unfold m_heredoc_begin. destruct y as [|c1 r]; [reflexivity|]. rewrite H. reflexivity. Qed.
Lemma g_broken c y : (128 <=? c) = false -> m_broken (c :: y) = None.
Proof. intro H. unfold m_broken. rewrite H. reflexivity. Qed.
Lemma g_utf8_ascii c y : (c <? 128) = true -> m_any_utf8 (c :: y) = same 1.
Proof. intro H. unfold m_any_utf8, utf8_len. rewrite H. reflexivity. Qed.
Lemma g_self_in c y : existsb (Z.eqb c) self_chars = true -> m_self (c :: y) = same 1.
Proof. intro H. unfold m_self. rewrite H. reflexivity. Qed.

(* ASCII bytes that start no identifier *)
Definition nonident : list Z :=
  [32; 9; 48; 49; 50; 51; 52; 53; 54; 55; 56; 57; 35; 47; 10; 13; 61; 33; 62; 60; 38; 124; 58;
   46; 123; 125; 126; 34; 91; 93; 40; 41; 44; 42; 37; 43; 45; 63; 94; 59; 96; 39; 36].

Lemma nonident_ok : Forall (fun k => forall y, ident_len (k :: y) = O) nonident.
Proof. unfold nonident. repeat constructor; intro y; vm_compute; reflexivity. Qed.

Lemma ident_first_ne c y : ident_len (c :: y) <> O -> existsb (Z.eqb c) nonident = false.
Proof.
  intro H. destruct (existsb (Z.eqb c) nonident) eqn:E; [|reflexivity]. exfalso.
  apply existsb_exists in E. destruct E as (k & Hin & Hk). apply Z.eqb_eq in Hk. subst k.
  pose proof nonident_ok as F. rewrite Forall_forall in F. apply H. apply (F _ Hin).
Qed.

Lemma existsb_false_ne c l k : existsb (Z.eqb c) l = false -> In k l -> (c =? k) = false.
Proof.
  intros H Hin. destruct (c =? k) eqn:E; [|reflexivity]. exfalso.
  assert (X : existsb (Z.eqb c) l = true) by (apply existsb_exists; exists k; auto). congruence.
Qed.

Lemma existsb_false_sub c (l s : list Z) : existsb (Z.eqb c) l = false -> incl s l ->
  existsb (Z.eqb c) s = false.
Proof.
  intros H Hs. destruct (existsb (Z.eqb c) s) eqn:E; [|reflexivity]. exfalso.
  apply existsb_exists in E. destruct E as (k & Hin & Hk).
  assert (X : existsb (Z.eqb c) l = true) by (apply existsb_exists; exists k; auto). congruence.
Qed.

(* ---- what the new tail must not do -------------------------------------------------- *)


(* after a one-byte operator: the first byte of what follows must not complete a
   longer operator, a comment opener or a heredoc opener *)

Definition hd_not_in (l : list Z) (t : list Z) : Prop :=
  match t with d :: _ => existsb (Z.eqb d) l = false | [] => True end.

Definition tail_ok (b t' : list Z) : Prop :=
  match b with
  | [] => True
  | c :: b' => (is_digit c = true -> num_stop t') /\ (id_first c = true -> id_stop t') /\
               (b' = [] -> hd_not_in (forbidden_next c) t')
  end.

Definition emits_ok (e : emit) : Prop :=
  forall ty, In ty (emit_types e) -> clean_ty ty = true.

(* ---- shapes ------------------------------------------------------------------------- *)

Lemma firstn_app_len (b t : list Z) k : b = firstn k (b ++ t) -> t <> [] -> length b = k.
Proof.
  intros H Ht. destruct (Nat.le_gt_cases k (length b)) as [Hk|Hk].
  - apply (f_equal (@length Z)) in H. rewrite firstn_length, app_length in H. lia.
  - exfalso. rewrite firstn_app in H. rewrite firstn_all2 in H by lia.
    rewrite <- (app_nil_r b) in H at 1. apply app_inv_head in H.
    destruct t as [|c t0]; [contradiction|]. destruct (k - length b)%nat eqn:E; [lia|]. discriminate.
Qed.

Lemma m_comment_same s lk n : m_comment s = Some (lk, n) -> lk = n /\ m_comment s = same n.
Proof.
  rewrite m_comment_eq. unfold m_comment', same. destruct s as [|c y]; [discriminate|].
  destruct (c =? 35). { intro H; inversion H; subst; auto. }
  destruct (c =? 47); [|discriminate]. destruct y as [|d r]; [discriminate|].
  destruct (d =? 47). { intro H; inversion H; subst; auto. }
  destruct (d =? 42); [|discriminate]. destruct (to_star_slash r 2); [|discriminate].
  intro H; inversion H; subst; auto.
Qed.

Lemma m_comment_first c y lk n : m_comment (c :: y) = Some (lk, n) -> c = 35 \/ c = 47.
Proof.
  rewrite m_comment_eq. unfold m_comment'. destruct (c =? 35) eqn:E1; [left; apply Z.eqb_eq; exact E1|].
  destruct (c =? 47) eqn:E2; [right; apply Z.eqb_eq; exact E2|discriminate].
Qed.

Lemma m_ident_inv s lk n : m_ident s = Some (lk, n) -> lk = n /\ ident_len s = n /\ n <> O.
Proof. unfold m_ident, same. destruct (ident_len s); intro H; inversion H; subst; auto. Qed.

Lemma m_newline_inv s lk n : m_newline s = Some (lk, n) ->
  lk = n /\ ((exists y, s = 10 :: y) /\ n = 1%nat \/ (exists y, s = 13 :: 10 :: y) /\ n = 2%nat).
Proof.
  unfold m_newline, newline_len, same. destruct s as [|a r]; [discriminate|].
  destruct (a =? 10) eqn:E1.
  { apply Z.eqb_eq in E1. subst. intro H; inversion H; subst. split; [reflexivity|]. left. eauto. }
  destruct (a =? 13) eqn:E2; [|discriminate]. apply Z.eqb_eq in E2. subst a.
  destruct r as [|c r']; [discriminate|]. simpl. destruct (c =? 10) eqn:E3; [|discriminate].
  apply Z.eqb_eq in E3. subst c. intro H; inversion H; subst. split; [reflexivity|]. right. eauto.
Qed.

Lemma m_self_inv s lk n : m_self s = Some (lk, n) ->
  lk = 1%nat /\ n = 1%nat /\ exists c y, s = c :: y /\ existsb (Z.eqb c) self_chars = true.
Proof.
  unfold m_self, same. destruct s as [|c y]; [discriminate|].
  destruct (existsb (Z.eqb c) self_chars) eqn:E; [|discriminate].
  intro H; inversion H; subst. repeat split. exists c, y. auto.
Qed.

(* the 25 self characters *)
Lemma self_chars_cases c : existsb (Z.eqb c) self_chars = true -> In c self_chars.
Proof.
  intro H. apply existsb_exists in H. destruct H as (k & Hin & Hk). apply Z.eqb_eq in Hk. subst. exact Hin.
Qed.

(* looks of rules that need at least two bytes *)
Lemma lit_look p s : (lookof (R (m_lit p) (a_tok 0)) s <= 1)%nat -> (2 <= length p)%nat -> m_lit p s = None.
Proof.
  unfold lookof, R. cbn [r_match]. unfold m_lit, same. destruct (is_prefix p s); [lia|reflexivity].
Qed.

Lemma lit_none_hd c d p y : hd_not_in [d] y -> m_lit (c :: d :: p) (c :: y) = None.
Proof.
  unfold hd_not_in, m_lit. simpl. rewrite Z.eqb_refl. destruct y as [|e y']; [reflexivity|].
  simpl. intro H. apply orb_false_iff in H. destruct H as [H _]. rewrite Z.eqb_sym, H. reflexivity.
Qed.

(* ---- tactics ------------------------------------------------------------------------- *)

Ltac side_c := solve [reflexivity | vm_compute; reflexivity].

Ltac dead_with side :=
  first
  [ rewrite !g_spaces by side
  | rewrite !g_number by side
  | rewrite !g_ident by side
  | rewrite !g_comment by side
  | rewrite !g_newline by side
  | rewrite !g_lit by side
  | rewrite !g_self by side
  | rewrite !g_heredoc by side
  | rewrite !g_broken by side ].

(* the rules of the main scanner, one goal each *)
Ltac each_main_rule Hin tac :=
  unfold rules_main, rule_spaces in Hin; cbn [In] in Hin;
  repeat (destruct Hin as [<-|Hin]; [unfold R; cbn [r_match]; tac|]); try (destruct Hin).

Lemma pick_main_blank c y : is_blank c = true ->
  pick rules_main (c :: y) None = Some (rule_spaces, span_blank (c :: y), span_blank (c :: y)).
Proof.
  intro H. assert (Hs : span_blank (c :: y) = S (span_blank y)) by (simpl; rewrite H; reflexivity).
  rewrite Hs. change rules_main with ([] ++ rule_spaces :: tl rules_main).
  apply pick_intro.
  - intros ? [].
  - simpl. unfold m_spaces. rewrite Hs. reflexivity.
  - unfold is_blank in H. apply orb_true_iff in H.
    destruct H as [H|H]; apply Z.eqb_eq in H; subst c; intros r' Hin; unfold lookof;
      unfold rules_main in Hin; cbn [tl] in Hin;
      each_main_rule Hin ltac:(first [dead_with side_c; lia
                                     | rewrite g_utf8_ascii by reflexivity; unfold same; lia]).
Qed.

(* ---- the main lemma ------------------------------------------------------------------- *)

Lemma emits_ok_one ty : emits_ok (EOne ty) -> clean_ty ty = true.
Proof. intro H. apply H. left. reflexivity. Qed.

Ltac unclean Ha Hok :=
  exfalso; cbn [r_act] in Ha; unfold a_tok in Ha; inversion Ha; subst;
  pose proof (emits_ok_one _ Hok) as Hcl; vm_compute in Hcl; discriminate.

(* all matchers of the main scanner agree on c :: x and c :: x' for a concrete
   first byte c, unless the goal is left for a matcher that looks further *)
Ltac agree_c :=
  first [ dead_with side_c; reflexivity
        | rewrite !g_utf8_ascii by reflexivity; reflexivity
        | rewrite !g_self_in by reflexivity; reflexivity
        | reflexivity ].

Lemma hd_not_in_sub l l' y : hd_not_in l y -> incl l' l -> hd_not_in l' y.
Proof. unfold hd_not_in. destruct y as [|d y]; [auto|]. intros H Hs. eapply existsb_false_sub; eassumption. Qed.

Lemma look_le1_lit p a s : (lookof (R (m_lit p) a) s <= 1)%nat -> (2 <= length p)%nat -> m_lit p s = None.
Proof.
  unfold lookof, R. cbn [r_match]. unfold m_lit, same. destruct (is_prefix p s); [lia|reflexivity].
Qed.

Lemma look_le1_heredoc a s : (lookof (R m_heredoc_begin a) s <= 1)%nat -> m_heredoc_begin s = None.
Proof.
  unfold lookof, R. cbn [r_match]. unfold m_heredoc_begin, same.
  destruct s as [|c0 [|c1 r]]; try reflexivity. destruct ((c0 =? 60) && (c1 =? 60)); [|reflexivity].
  cbv zeta. destruct (ident_len _); [reflexivity|]. destruct (newline_len _); [reflexivity|]. lia.
Qed.

Lemma look_le1_comment a (y : list Z) : (lookof (R m_comment a) (47%Z :: y) <= 1)%nat -> m_comment (47 :: y) = None.
Proof.
  unfold lookof, R. cbn [r_match]. rewrite m_comment_eq. unfold m_comment', same. simpl.
  destruct y as [|d r]; [reflexivity|]. destruct (d =? 47). { pose proof (to_eol_ge r 2). lia. }
  destruct (d =? 42); [|reflexivity]. destruct (to_star_slash r 2) eqn:E; [|reflexivity].
  apply tss_ge in E. lia.
Qed.

Lemma heredoc_none_hd y : hd_not_in [60] y -> m_heredoc_begin (60 :: y) = None.
Proof.
  unfold hd_not_in, m_heredoc_begin. destruct y as [|d r]; [reflexivity|]. simpl.
  intro H. apply orb_false_iff in H. destruct H as [H _]. rewrite H. reflexivity.
Qed.

Lemma comment_none_hd y : hd_not_in [47; 42] y -> m_comment (47 :: y) = None.
Proof.
  unfold hd_not_in. rewrite m_comment_eq. unfold m_comment'. simpl. destruct y as [|d r]; [reflexivity|].
  simpl. intro H. apply orb_false_iff in H. destruct H as [H1 H]. apply orb_false_iff in H. destruct H as [H2 _].
  rewrite H1, H2. reflexivity.
Qed.

Ltac in_main := unfold rules_main, rule_spaces; cbn [In]; repeat (first [left; reflexivity | right]).
Ltac incl_c := intros ? HH; vm_compute; vm_compute in HH; tauto.

Lemma nonident_facts c : existsb (Z.eqb c) nonident = false ->
  is_blank c = false /\ is_digit c = false /\ existsb (Z.eqb c) self_chars = false /\
  (forall k, In k [35; 47; 10; 13; 61; 33; 62; 60; 38; 124; 58; 46; 123; 125; 126; 34] -> (c =? k) = false).
Proof.
  intro H. assert (F : forall k, In k nonident -> (c =? k) = false) by (intros; eapply existsb_false_ne; eassumption).
  split. { unfold is_blank. rewrite (F 32), (F 9); [reflexivity|..]; unfold nonident; cbn [In]; tauto. }
  split. { unfold is_digit. destruct ((48 <=? c) && (c <=? 57)) eqn:E; [|reflexivity]. exfalso.
           assert (c = 48 \/ c = 49 \/ c = 50 \/ c = 51 \/ c = 52 \/ c = 53 \/ c = 54 \/ c = 55 \/ c = 56 \/ c = 57) as Hc by lia.
           repeat (destruct Hc as [->|Hc]); [..|subst c]; discriminate H. }
  split. { eapply existsb_false_sub; [exact H|]. unfold self_chars, nonident. incl_c. }
  intros k Hk. apply F. revert k Hk. unfold nonident. incl_c.
Qed.

Lemma utf8_need_start c : (0 < start_n c)%nat -> (utf8_need c <= start_n c)%nat.
Proof.
  intro H. destruct (Z_lt_ge_dec c 0) as [Hn|Hn].
  { unfold utf8_need. replace (c <? 128) with true by (symmetry; apply Z.ltb_lt; lia). lia. }
  destruct (Z_lt_ge_dec c 256) as [Hu|Hu].
  - pose proof start_covers_utf8_ok as F. unfold start_covers_utf8 in F. rewrite forallb_forall in F.
    specialize (F c (in_bytes256 c ltac:(lia))). cbv zeta in F. apply orb_true_iff in F.
    destruct F as [F|F]; [apply Nat.eqb_eq in F; lia|apply Nat.leb_le in F; exact F].
  - unfold utf8_need. replace (c <? 128) with false by (symmetry; apply Z.ltb_ge; lia).
    replace (c <=? 223) with false by (symmetry; apply Z.leb_gt; lia).
    replace (c <=? 239) with false by (symmetry; apply Z.leb_gt; lia).
    replace (c <=? 247) with false by (symmetry; apply Z.leb_gt; lia).
    rewrite !andb_false_r. lia.
Qed.

(* ---- the heredoc opener "<<" "-"? Ident Newline is complete in itself ----------------------- *)

Lemma id_stop_nl y : id_stop (10 :: y) /\ id_stop (13 :: y).
Proof. split; intro acc; vm_compute; reflexivity. Qed.

Lemma newline_len_inv s : newline_len s <> O ->
  (exists y, s = 10 :: y) /\ newline_len s = 1%nat \/ (exists y, s = 13 :: 10 :: y) /\ newline_len s = 2%nat.
Proof.
  unfold newline_len. destruct s as [|a r]; [intro H; contradiction|].
  destruct (a =? 10) eqn:E1. { apply Z.eqb_eq in E1. subst. left. eauto. }
  destruct (a =? 13) eqn:E2; [|intro H; contradiction]. apply Z.eqb_eq in E2. subst a.
  destruct r as [|c r']; [intro H; contradiction|]. simpl. destruct (c =? 10) eqn:E3; [|intro H; contradiction].
  apply Z.eqb_eq in E3. subst c. right. eauto.
Qed.

Lemma heredoc_begin_hd b t : forall n, m_heredoc_begin (b ++ t) = same n -> length b = n ->
  exists b2, b = 60 :: 60 :: b2.
Proof.
  intros n H Hl. unfold m_heredoc_begin in H.
  destruct b as [|c0 [|c1 b2]].
  - exfalso. cbn [app] in H. destruct t as [|c0 [|c1 r]]; try discriminate.
    destruct ((c0 =? 60) && (c1 =? 60)); [|discriminate]. cbv zeta in H.
    destruct (ident_len _); [discriminate|]. destruct (newline_len _); [discriminate|].
    unfold same in H. inversion H. simpl in Hl. lia.
  - exfalso. cbn [app] in H. destruct t as [|c1 r]; try discriminate.
    destruct ((c0 =? 60) && (c1 =? 60)); [|discriminate]. cbv zeta in H.
    destruct (ident_len _); [discriminate|]. destruct (newline_len _); [discriminate|].
    unfold same in H. inversion H. simpl in Hl. lia.
  - cbn [app] in H. destruct ((c0 =? 60) && (c1 =? 60)) eqn:E; [|discriminate].
    apply andb_true_iff in E. destruct E as [E0 E1]. apply Z.eqb_eq in E0, E1. subst. eauto.
Qed.

Lemma heredoc_begin_app b t t' :
  m_heredoc_begin (b ++ t) = same (length b) -> m_heredoc_begin (b ++ t') = same (length b).
Proof.
  intro H. destruct (heredoc_begin_hd b t _ H eq_refl) as (b2 & ->).
  cbn [app length] in *. unfold m_heredoc_begin in *. cbn [Z.eqb andb] in *. cbv zeta in *.
  destruct b2 as [|x b3].
  { exfalso. cbn [app] in H. destruct (ident_len _); [discriminate|]. destruct (newline_len _); [discriminate|].
    unfold same in H. inversion H. lia. }
  cbn [app starts_with] in *.
  set (d := if x =? 45 then 1%nat else O) in *.
  assert (Hd : (d <= 1)%nat) by (unfold d; destruct (x =? 45); lia).
  assert (Hsk : forall u, skipn d (x :: b3 ++ u) = skipn d (x :: b3) ++ u).
  { intro u. unfold d. destruct (x =? 45); reflexivity. }
  rewrite Hsk in *. set (b4 := skipn d (x :: b3)) in *.
  assert (Hb4 : length b4 = (S (length b3) - d)%nat) by (unfold b4; rewrite skipn_length; reflexivity).
  destruct (ident_len (b4 ++ t)) as [|k'] eqn:Ek; [discriminate|].
  destruct (newline_len (skipn (S k') (b4 ++ t))) as [|nl'] eqn:En; [discriminate|].
  unfold same in H. assert (Hn : (2 + d + S k' + S nl' = S (S (S (length b3))))%nat) by (inversion H; reflexivity).
  assert (Hk : (S k' <= length b4)%nat) by lia.
  rewrite skipn_app in En. replace (S k' - length b4)%nat with O in En by lia. rewrite skipn_O in En.
  set (ib := firstn (S k') b4). set (nb := skipn (S k') b4) in *.
  assert (Hsplit : b4 = ib ++ nb) by (symmetry; apply firstn_skipn).
  assert (Hib : length ib = S k') by (unfold ib; rewrite firstn_length; lia).
  assert (Hnb : length nb = S nl') by (unfold nb; rewrite skipn_length; lia).
  (* the newline lies inside the token *)
  assert (Hnl : newline_len (nb ++ t') = S nl' /\ (id_stop (nb ++ t'))).
  { destruct (newline_len_inv (nb ++ t) ltac:(rewrite En; discriminate)) as [[(y & Ey) E1]|[(y & Ey) E2]].
    - rewrite En in E1. inversion E1; subst nl'. destruct nb as [|c1 [|c2 nb']]; simpl in Hnb; try lia.
      cbn [app] in Ey. inversion Ey; subst c1. cbn [app]. split; [reflexivity|apply id_stop_nl].
    - rewrite En in E2. inversion E2; subst nl'. destruct nb as [|c1 [|c2 [|c3 nb']]]; simpl in Hnb; try lia.
      cbn [app] in Ey. inversion Ey; subst c1 c2. cbn [app]. split; [reflexivity|apply id_stop_nl]. }
  destruct Hnl as [Hnl Hstop].
  assert (Ek' : ident_len (b4 ++ t') = S k').
  { rewrite Hsplit, <- !app_assoc in *. destruct ib as [|ic ib']; [simpl in Hib; lia|].
    rewrite <- Hib. apply (ident_len_app ic ib' (nb ++ t) (nb ++ t')); [rewrite Hib; exact Ek|exact Hstop]. }
  rewrite Ek'. rewrite skipn_app. replace (S k' - length b4)%nat with O by lia. rewrite skipn_O. fold nb.
  rewrite Hnl. unfold same.
  replace (S (S (length (x :: b3)))) with (2 + d + S k' + S nl')%nat by (cbn [length]; lia). reflexivity.
Qed.

Lemma a_begin_heredoc_emit (st : hstate) b e st' :
  a_begin_heredoc st b = Some (e, st') -> e = EOne TokenOHeredoc.
Proof. unfold a_begin_heredoc. destruct (heredoc_marker b); [|discriminate]. intro H. inversion H. reflexivity. Qed.

Lemma main_pick_stable (st : hstate) r lk n b t e st' t' :
  b <> [] ->
  pick rules_main (b ++ t) None = Some (r, lk, n) ->
  b = firstn (Nat.max 1 n) (b ++ t) ->
  r_act r st b = Some (e, st') -> e <> ENone -> emits_ok e ->
  (t = [] -> t' = []) ->
  tail_ok b t' ->
  pick rules_main (b ++ t') None = Some (r, lk, n).
Proof.
  intros Hne Hp Hb Ha He Hok Ht Htail.
  destruct t as [|t0 t1].
  { rewrite (Ht eq_refl). exact Hp. }
  assert (Hlen : length b = Nat.max 1 n) by (eapply firstn_app_len; [exact Hb|discriminate]).
  clear Ht Hb.
  rewrite <- Hp. symmetry. apply pick_ext.
  pose proof (pick_max _ _ _ _ _ _ Hp) as [_ Hmax].
  pose proof Hp as Hp2. apply pick_spec in Hp2. destruct Hp2 as [Hx|(Hin & Hm & Hlk)]; [discriminate|].
  destruct b as [|c b']; [contradiction|]. cbn [app] in *. clear Hne.
  destruct Htail as (Tnum & Tid & Tone).
  (* a literal rule: the token is the literal *)
  assert (Hlit : forall p a, r = R (m_lit p) a -> c :: b' = p /\ lk = n).
  { intros p a ->. unfold R in Hm. cbn [r_match] in Hm. apply m_lit_inv in Hm.
    destruct Hm as (Hpre & -> & ->). split; [|reflexivity].
    apply (is_prefix_app p (c :: b') (t0 :: t1) Hpre). lia. }
  unfold rules_main, rule_spaces in Hin; cbn [In] in Hin.
  destruct Hin as [<-|Hin].
  { (* spaces *) cbn [r_act] in Ha. unfold a_skip in Ha. inversion Ha. subst. contradiction. }
  destruct Hin as [<-|Hin].
  { (* number *)
    unfold R in Hm. cbn [r_match] in Hm. apply m_number_inv in Hm.
    destruct Hm as (d & r0 & Es & Hd & -> & Hn). inversion Es; subst d r0. clear Es.
    assert (Hn1 : (1 <= n)%nat).
    { rewrite Hn. destruct (num_cont_range (b' ++ t0 :: t1) 0 1 1 ltac:(split; lia)); lia. }
    replace (Nat.max 1 n) with n in Hlen by lia. cbn [length] in Hlen.
    assert (Hnew : num_cont (b' ++ t') 0 1 1 = num_cont (b' ++ t0 :: t1) 0 1 1).
    { rewrite <- Hn. rewrite (num_cont_app b' (t0 :: t1) 0 1 1 ltac:(split; lia) ltac:(lia) t' (Tnum Hd)). lia. }
    assert (Hc : c = 48 \/ c = 49 \/ c = 50 \/ c = 51 \/ c = 52 \/ c = 53 \/ c = 54 \/ c = 55 \/ c = 56 \/ c = 57).
    { unfold is_digit in Hd. lia. }
    intros r' Hin'.
    repeat (destruct Hc as [->|Hc]); [..|subst c];
      each_main_rule Hin' ltac:(first [ unfold m_number; cbn [is_digit]; rewrite Hnew; reflexivity | agree_c ]). }
  destruct Hin as [<-|Hin].
  { (* identifier *)
    unfold R in Hm. cbn [r_match] in Hm. apply m_ident_inv in Hm. destruct Hm as (-> & Hil & Hn0).
    replace (Nat.max 1 n) with n in Hlen by lia.
    assert (Hk : existsb (Z.eqb c) nonident = false).
    { apply (ident_first_ne c (b' ++ t0 :: t1)). rewrite Hil. exact Hn0. }
    destruct n as [|k]; [contradiction|].
    pose proof (ident_len_first _ _ _ Hil) as Hfirst.
    assert (Hidf : id_first c = true).
    { unfold id_first. destruct Hfirst as [->|[_ H0]]; [reflexivity|].
      destruct (start_n c); [lia|]. apply orb_true_r. }
    assert (Hnew : ident_len (c :: b' ++ t') = ident_len (c :: b' ++ t0 :: t1)).
    { rewrite Hil, <- Hlen. apply (ident_len_app c b' (t0 :: t1) t'); [rewrite Hlen; exact Hil|exact (Tid Hidf)]. }
    assert (Hu : utf8_len (c :: b' ++ t') = utf8_len (c :: b' ++ t0 :: t1)).
    { apply (utf8_len_app c b' t' (t0 :: t1)). rewrite Hlen.
      destruct Hfirst as [->|[H1 H0]]; [vm_compute; lia|].
      pose proof (utf8_need_start c H0). lia. }
    destruct (nonident_facts c Hk) as (Fb & Fd & Fs & Fk).
    assert (F35 := Fk 35 ltac:(cbn [In]; tauto)). assert (F47 := Fk 47 ltac:(cbn [In]; tauto)).
    assert (F10 := Fk 10 ltac:(cbn [In]; tauto)). assert (F13 := Fk 13 ltac:(cbn [In]; tauto)).
    assert (F60 := Fk 60 ltac:(cbn [In]; tauto)).
    intros r' Hin'.
    each_main_rule Hin' ltac:(first
      [ rewrite !g_spaces by exact Fb; reflexivity
      | rewrite !g_number by exact Fd; reflexivity
      | unfold m_ident; rewrite Hnew; reflexivity
      | rewrite !g_comment by assumption; reflexivity
      | rewrite !g_newline by assumption; reflexivity
      | rewrite !g_lit by (rewrite Z.eqb_sym; apply Fk; cbn [In]; tauto); reflexivity
      | rewrite !g_self by exact Fs; reflexivity
      | rewrite !g_heredoc by assumption; reflexivity
      | unfold m_any_utf8; rewrite Hu; reflexivity
      | reflexivity ]). }
  destruct Hin as [<-|Hin].
  { (* comment *)
    unfold R in Hm. cbn [r_match] in Hm. destruct (m_comment_same _ _ _ Hm) as [-> Hs].
    replace (Nat.max 1 n) with n in Hlen by lia.
    assert (Hnew : m_comment (c :: b' ++ t') = m_comment (c :: b' ++ t0 :: t1)).
    { rewrite Hs, <- Hlen. apply (m_comment_app (c :: b') (t0 :: t1) t'); [discriminate|discriminate|].
      rewrite Hlen. exact Hs. }
    intros r' Hin'.
    destruct (m_comment_first _ _ _ _ Hm) as [->| ->];
      each_main_rule Hin' ltac:(first [ rewrite Hnew; reflexivity | agree_c ]). }
  destruct Hin as [<-|Hin].
  { (* newline *)
    unfold R in Hm. cbn [r_match] in Hm. apply m_newline_inv in Hm.
    destruct Hm as (-> & [[(y & Ey) ->]|[(y & Ey) ->]]); inversion Ey; subst c; cbn [Nat.max length] in Hlen.
    - destruct b' as [|x b'']; [|simpl in Hlen; lia]. cbn [app].
      intros r' Hin'. each_main_rule Hin' agree_c.
    - destruct b' as [|x [|x2 b'']]; simpl in Hlen; try lia. cbn [app] in *. inversion H1; subst x.
      intros r' Hin'. each_main_rule Hin' agree_c. }
  (* the nine operators of two or three bytes *)
  do 9 (destruct Hin as [<-|Hin];
    [ destruct (Hlit _ _ eq_refl) as [Eb _]; inversion Eb; subst c b'; cbn [app];
      intros r' Hin'; each_main_rule Hin' agree_c |]).
  destruct Hin as [<-|Hin].
  { (* one self character *)
    unfold R in Hm. cbn [r_match] in Hm. apply m_self_inv in Hm.
    destruct Hm as (-> & -> & c0 & y & Ey & Hself). inversion Ey; subst c0 y. clear Ey.
    cbn [Nat.max length] in Hlen. destruct b' as [|x b'']; [|simpl in Hlen; lia]. cbn [app] in *.
    specialize (Tone eq_refl).
    cbn [r_act] in Ha. unfold a_self in Ha. inversion Ha; subst e st'.
    pose proof (emits_ok_one _ Hok) as Hcl.
    assert (HoldL : forall p, (exists a, In (R (m_lit p) a) rules_main) -> (2 <= length p)%nat ->
                              m_lit p (c :: t0 :: t1) = None).
    { intros p [a Hi] Hl. eapply look_le1_lit; [apply Hmax; exact Hi|exact Hl]. }
    assert (HoldH : m_heredoc_begin (c :: t0 :: t1) = None).
    { eapply look_le1_heredoc. apply Hmax. in_main. }
    assert (HoldC : c = 47 -> m_comment (c :: t0 :: t1) = None).
    { intros ->. eapply look_le1_comment. apply Hmax. in_main. }
    apply self_chars_cases in Hself. unfold self_chars in Hself. cbn [In] in Hself.
    intros r' Hin'.
    repeat (destruct Hself as [<-|Hself]); try contradiction;
      try (vm_compute in Hcl; discriminate Hcl);
      each_main_rule Hin' ltac:(first
        [ dead_with side_c; reflexivity
        | rewrite !g_utf8_ascii by reflexivity; reflexivity
        | rewrite !g_self_in by reflexivity; reflexivity
        | rewrite HoldL by (first [eexists; in_main | simpl; lia]);
          rewrite lit_none_hd by (eapply hd_not_in_sub; [exact Tone|incl_c]); reflexivity
        | rewrite HoldH; rewrite heredoc_none_hd by (eapply hd_not_in_sub; [exact Tone|incl_c]); reflexivity
        | rewrite (HoldC eq_refl);
          rewrite comment_none_hd by (eapply hd_not_in_sub; [exact Tone|incl_c]); reflexivity
        | reflexivity ]). }
  destruct Hin as [<-|Hin];
    [ destruct (Hlit _ _ eq_refl) as [Eb _]; inversion Eb; subst c b'; cbn [app];
      intros r' Hin'; each_main_rule Hin' agree_c |].
  destruct Hin as [<-|Hin];
    [ destruct (Hlit _ _ eq_refl) as [Eb _]; inversion Eb; subst c b'; cbn [app];
      intros r' Hin'; each_main_rule Hin' agree_c |].
  destruct Hin as [<-|Hin];
    [ destruct (Hlit _ _ eq_refl) as [Eb _]; inversion Eb; subst c b'; cbn [app];
      intros r' Hin'; each_main_rule Hin' agree_c |].
  destruct Hin as [<-|Hin];
    [ destruct (Hlit _ _ eq_refl) as [Eb _]; inversion Eb; subst c b'; cbn [app];
      intros r' Hin'; each_main_rule Hin' agree_c |].

  destruct Hin as [<-|Hin].
  { (* heredoc opener: complete in itself *)
    unfold R in Hm. cbn [r_match] in Hm. pose proof (m_heredoc_begin_same _ _ _ Hm) as ->.
    replace (Nat.max 1 n) with n in Hlen by lia.
    assert (Hs : m_heredoc_begin ((c :: b') ++ t0 :: t1) = same (length (c :: b'))) by (rewrite Hlen; exact Hm).
    pose proof (heredoc_begin_app (c :: b') (t0 :: t1) t' Hs) as Hnew.
    destruct (heredoc_begin_hd (c :: b') (t0 :: t1) _ Hs eq_refl) as (b2 & Eb). inversion Eb; subst c b'. cbn [app] in *.
    intros r' Hin'. each_main_rule Hin' ltac:(first [ rewrite Hnew, Hs; reflexivity | agree_c ]). }
  destruct Hin as [<-|Hin]; [unclean Ha Hok|].
  destruct Hin as [<-|Hin]; [unclean Ha Hok|].
  destruct Hin.
Qed.

(* ==== 3. traces of the scanner loop; re-spacing a trace ========================= *)

Definition M0 : machine hmode := hcl_machine MMain.

Lemma M0_rules st : m_rules M0 (l_cur st) = hcl_rules (l_cur st).
Proof. reflexivity. Qed.

Definition blanks (g : list Z) : Prop := forallb is_blank g = true.

Lemma blanks_app a b : blanks a -> blanks b -> blanks (a ++ b).
Proof. unfold blanks. intros Ha Hb. rewrite forallb_app, Ha, Hb. reflexivity. Qed.

Lemma blanks_nil : blanks [].
Proof. reflexivity. Qed.

Lemma tokens_of_app a b : tokens_of (a ++ b) = tokens_of a ++ tokens_of b.
Proof.
  induction a as [|i a IH]; [reflexivity|]. destruct i; simpl; rewrite IH; reflexivity.
Qed.

(* ---- blanks in main mode ------------------------------------------------------ *)

Lemma span_blank_app g x : blanks g ->
  span_blank (g ++ x) = (length g + span_blank x)%nat.
Proof.
  unfold blanks. induction g as [|c g IH]; intro H; [reflexivity|].
  simpl in H. apply andb_true_iff in H. destruct H as [Hc Hg].
  simpl. rewrite Hc, IH by exact Hg. reflexivity.
Qed.

Definition nonblank_first (x : list Z) : Prop :=
  match x with c :: _ => is_blank c = false | [] => True end.

Lemma span_blank_nonblank x : nonblank_first x -> span_blank x = O.
Proof. destruct x as [|c x]; simpl; [reflexivity|]. intros ->. reflexivity. Qed.

(* ---- traces -------------------------------------------------------------------- *)

Record step := mkStep {
  g_gap : list Z;      (* blanks skipped before the match (main mode only) *)
  g_rule : hrule;      (* the winning rule *)
  g_n : nat;           (* its token end *)
  g_b : list Z;        (* the matched bytes *)
  g_emit : emit;       (* what the action emitted: one or two tokens *)
  g_nst : hstate       (* the state after the action *)
}.

Fixpoint tbytes (ps : list step) (tg : list Z) : list Z :=
  match ps with [] => tg | p :: r => g_gap p ++ g_b p ++ tbytes r tg end.

Fixpoint trace_ok (st : hstate) (ps : list step) (tg : list Z) : Prop :=
  match ps with
  | [] => blanks tg /\ (tg <> [] -> l_cur st = MMain)
  | p :: r =>
      let s := g_b p ++ tbytes r tg in
      blanks (g_gap p) /\ (g_gap p <> [] -> l_cur st = MMain) /\
      g_b p <> [] /\ (l_cur st = MMain -> nonblank_first (g_b p)) /\
      (exists lk, pick (hcl_rules (l_cur st)) s None = Some (g_rule p, lk, g_n p)) /\
      g_b p = firstn (Nat.max 1 (g_n p)) s /\
      r_act (g_rule p) st (g_b p) = Some (g_emit p, g_nst p) /\ g_emit p <> ENone /\
      trace_ok (g_nst p) r tg
  end.

Definition eof_tok (o : Z) : rtok := Scanner.mkTok TokenEOF o o [].

Fixpoint ttoks (off : Z) (ps : list step) (tg : list Z) : list rtok :=
  match ps with
  | [] => [eof_tok (off + zlen tg)]
  | p :: r =>
      let o := off + zlen (g_gap p) in
      tokens_of (emit_items (g_emit p) o (g_b p)) ++ ttoks (o + zlen (g_b p)) r tg
  end.

(* the only rule that emits nothing is Spaces, and only the main scanner has it *)
Lemma skip_is_main_spaces : forall m r (st st' : hstate) b,
  In r (hcl_rules m) -> r_act r st b = Some (ENone, st') -> m = MMain /\ r = rule_spaces /\ st' = st.
Proof.
  intros m r st st' b Hin Ha.
  destruct m; simpl in Hin;
    repeat (destruct Hin as [<-|Hin];
            [try (simpl in Ha; unfold a_skip in Ha; inversion Ha; auto; fail);
             exfalso; simpl in Ha; unfold_actions Ha; split_matches Ha; discriminate|]);
    destruct Hin.
Qed.

Lemma spaces_match_blank s lk n : r_match rule_spaces s = Some (lk, n) ->
  blanks (firstn (Nat.max 1 n) s) /\ (0 < n)%nat.
Proof.
  simpl. unfold m_spaces. destruct (span_blank s) as [|k] eqn:E; [discriminate|].
  unfold same. intro H. inversion H; subst lk n. split; [|lia].
  replace (Nat.max 1 (S k)) with (S k) by lia. rewrite <- E. apply span_blank_firstn.
Qed.

Lemma run_trace : forall fuel off s st its,
  run M0 fuel off s st = (its, Done) ->
  forallb (fun k => clean_ty (k_ty k)) (tokens_of its) = true ->
  exists ps tg, s = tbytes ps tg /\ trace_ok st ps tg /\ tokens_of its = ttoks off ps tg.
Proof.
  induction fuel as [|f IH]; intros off s st its H Hc; [simpl in H; discriminate|].
  rewrite run_S in H. destruct s as [|c s'].
  - inversion H; subst. exists [], []. split; [reflexivity|]. split.
    + split; [reflexivity|]. intro Hx. contradiction.
    + simpl. unfold eof_item, eof_tok. rewrite zlen_nil, Z.add_0_r. reflexivity.
  - rewrite M0_rules in H.
    destruct (pick (hcl_rules (l_cur st)) (c :: s') None) as [[[r lk] n]|] eqn:Ep.
    2:{ exfalso. inversion H; subst. simpl in Hc. destruct (l_stack st); discriminate. }
    cbv zeta in H.
    remember (firstn (Nat.max 1 n) (c :: s')) as b eqn:Hb.
    remember (skipn (Nat.max 1 n) (c :: s')) as rest eqn:Hrest.
    assert (Hsplit : c :: s' = b ++ rest) by (subst b rest; symmetry; apply firstn_skipn).
    destruct (r_act r st b) as [[e st']|] eqn:Ea; [|discriminate].
    destruct (run M0 f (off + zlen b) rest st') as [its' fin'] eqn:Er.
    injection H as Hits Hfin. subst its fin'.
    rewrite tokens_of_app, forallb_app in Hc. apply andb_true_iff in Hc. destruct Hc as [Hc1 Hc2].
    destruct (IH _ _ _ _ Er Hc2) as (ps' & tg' & Hrest' & Htr & Htk).
    pose proof Ep as Ep'. apply pick_spec in Ep'. destruct Ep' as [Ep'|(Hin & Hm & Hlk)]; [discriminate|].
    assert (Hbne : b <> []).
    { subst b. destruct (Nat.max 1 n) eqn:En; [lia|]. simpl. discriminate. }
    destruct e as [|ty|ty1 k ty2].
    + (* a skipped run of blanks *)
      destruct (skip_is_main_spaces _ _ _ _ _ Hin Ea) as (Hmode & Hr & Hst). subst r st'.
      destruct (spaces_match_blank _ _ _ Hm) as [Hbl _]. rewrite <- Hb in Hbl.
      destruct ps' as [|p r'].
      * exists [], (b ++ tg'). cbn [tbytes] in Hrest' |- *. cbn [trace_ok] in Htr |- *.
        split; [rewrite Hsplit, Hrest'; reflexivity|]. split.
        -- split; [apply blanks_app; tauto|]. intros _. exact Hmode.
        -- rewrite tokens_of_app. cbn [emit_items tokens_of app]. rewrite Htk. cbn [ttoks].
           unfold eof_tok. rewrite zlen_app.
           replace (off + zlen b + zlen tg') with (off + (zlen b + zlen tg')) by lia. reflexivity.
      * exists (mkStep (b ++ g_gap p) (g_rule p) (g_n p) (g_b p) (g_emit p) (g_nst p) :: r'), tg'.
        cbn [tbytes] in Hrest' |- *. cbn [trace_ok] in Htr |- *.
        cbn [g_gap g_rule g_n g_b g_emit g_nst]. split.
        { rewrite Hsplit, Hrest', <- app_assoc. reflexivity. }
        destruct Htr as (H1 & H2 & H3 & H4 & H5 & H6 & H7 & H8 & H9).
        split.
        { split; [apply blanks_app; assumption|]. split; [intros _; exact Hmode|].
          repeat split; assumption. }
        rewrite tokens_of_app. cbn [emit_items tokens_of app]. rewrite Htk. cbn [ttoks].
        cbn [g_gap g_rule g_n g_b g_emit g_nst]. rewrite zlen_app.
        replace (off + (zlen b + zlen (g_gap p))) with (off + zlen b + zlen (g_gap p)) by lia.
        reflexivity.
    + exists (mkStep [] r n b (EOne ty) st' :: ps'), tg'.
      cbn [tbytes trace_ok ttoks g_gap g_rule g_n g_b g_emit g_nst app]. rewrite <- Hrest', <- Hsplit.
      split; [reflexivity|]. split.
      * split; [reflexivity|]. split; [intro Hx; contradiction|]. split; [exact Hbne|]. split.
        { intro Hmode. destruct b as [|c0 b0]; [contradiction|].
          assert (c0 = c) by (simpl in Hsplit; inversion Hsplit; reflexivity). subst c0.
          simpl. destruct (is_blank c) eqn:Ebl; [|reflexivity]. exfalso.
          rewrite Hmode in Ep. change (hcl_rules MMain) with rules_main in Ep. rewrite (pick_main_blank _ _ Ebl) in Ep.
          inversion Ep; subst r. simpl in Ea. unfold a_skip in Ea. discriminate. }
        split; [exists lk; exact Ep|]. split; [exact Hb|]. split; [exact Ea|]. split; [discriminate|exact Htr].
      * rewrite tokens_of_app, Htk, zlen_nil, Z.add_0_r. reflexivity.
    + exists (mkStep [] r n b (ETwo ty1 k ty2) st' :: ps'), tg'.
      cbn [tbytes trace_ok ttoks g_gap g_rule g_n g_b g_emit g_nst app]. rewrite <- Hrest', <- Hsplit.
      split; [reflexivity|]. split.
      * split; [reflexivity|]. split; [intro Hx; contradiction|]. split; [exact Hbne|]. split.
        { intro Hmode. destruct b as [|c0 b0]; [contradiction|].
          assert (c0 = c) by (simpl in Hsplit; inversion Hsplit; reflexivity). subst c0.
          simpl. destruct (is_blank c) eqn:Ebl; [|reflexivity]. exfalso.
          rewrite Hmode in Ep. change (hcl_rules MMain) with rules_main in Ep. rewrite (pick_main_blank _ _ Ebl) in Ep.
          inversion Ep; subst r. simpl in Ea. unfold a_skip in Ea. discriminate. }
        split; [exists lk; exact Ep|]. split; [exact Hb|]. split; [exact Ea|]. split; [discriminate|exact Htr].
      * rewrite tokens_of_app, Htk, zlen_nil, Z.add_0_r. reflexivity.
Qed.

(* ---- trace -> run --------------------------------------------------------------- *)

Lemma skipn_of_firstn_app (b t : list Z) k : b = firstn k (b ++ t) -> skipn k (b ++ t) = t.
Proof.
  intro H. pose proof (firstn_skipn k (b ++ t)) as E. rewrite <- H in E.
  apply app_inv_head in E. exact E.
Qed.

Lemma run_token_step f off (st : hstate) b t r lk n e st' :
  b <> [] ->
  pick (hcl_rules (l_cur st)) (b ++ t) None = Some (r, lk, n) ->
  b = firstn (Nat.max 1 n) (b ++ t) ->
  r_act r st b = Some (e, st') ->
  run M0 (S f) off (b ++ t) st =
    (let '(its, fin) := run M0 f (off + zlen b) t st' in (emit_items e off b ++ its, fin)).
Proof.
  intros Hne Hp Hb Ha. pose proof (skipn_of_firstn_app _ _ _ Hb) as Hsk.
  rewrite run_S. destruct (b ++ t) as [|c s'] eqn:Es.
  { destruct b; [contradiction|discriminate]. }
  rewrite M0_rules, Hp. cbv zeta. rewrite <- Hb, Ha, Hsk. reflexivity.
Qed.

Lemma run_skip_step f off (st : hstate) g x :
  l_cur st = MMain -> g <> [] -> blanks g -> nonblank_first x ->
  run M0 (S f) off (g ++ x) st =
    (let '(its, fin) := run M0 f (off + zlen g) x st in (ISkip off (off + zlen g) g :: its, fin)).
Proof.
  intros Hm Hne Hbl Hx. destruct g as [|c g']; [contradiction|].
  assert (Hc : is_blank c = true).
  { unfold blanks in Hbl. simpl in Hbl. apply andb_true_iff in Hbl. tauto. }
  assert (Hsp : span_blank ((c :: g') ++ x) = length (c :: g')).
  { rewrite span_blank_app by exact Hbl. rewrite span_blank_nonblank by exact Hx. lia. }
  assert (Hp : pick (hcl_rules (l_cur st)) ((c :: g') ++ x) None
               = Some (rule_spaces, length (c :: g'), length (c :: g'))).
  { rewrite Hm. simpl hcl_rules. rewrite <- Hsp. simpl app. apply pick_main_blank. exact Hc. }
  assert (Hb : c :: g' = firstn (Nat.max 1 (length (c :: g'))) ((c :: g') ++ x)).
  { replace (Nat.max 1 (length (c :: g'))) with (length (c :: g') + 0)%nat by (simpl; lia).
    rewrite firstn_app_2. simpl. rewrite app_nil_r. reflexivity. }
  rewrite (run_token_step f off st (c :: g') x rule_spaces _ _ ENone st Hne Hp Hb eq_refl).
  destruct (run M0 f (off + zlen (c :: g')) x st). reflexivity.
Qed.

Lemma trace_run : forall ps st tg off, trace_ok st ps tg ->
  exists fuel its, run M0 fuel off (tbytes ps tg) st = (its, Done) /\ tokens_of its = ttoks off ps tg.
Proof.
  induction ps as [|p r IH]; intros st tg off H; simpl in H.
  - destruct H as [Hbl Hm]. simpl. destruct tg as [|c g].
    + exists 1%nat, [eof_item M0 off]. split; [reflexivity|]. simpl. unfold eof_tok.
      rewrite zlen_nil, Z.add_0_r. reflexivity.
    + exists 2%nat. specialize (Hm ltac:(discriminate)).
      pose proof (run_skip_step 1 off st (c :: g) [] Hm ltac:(discriminate) Hbl I) as E.
      rewrite app_nil_r in E. rewrite E. simpl.
      eexists. split; [reflexivity|]. simpl. reflexivity.
  - destruct H as (Hbl & Hgm & Hne & Hnb & (lk & Hp) & Hb & Ha & He & Htr).
    destruct (IH _ _ (off + zlen (g_gap p) + zlen (g_b p)) Htr) as (f & its & Hrun & Htk).
    assert (Htok : run M0 (S f) (off + zlen (g_gap p)) (g_b p ++ tbytes r tg) st
                   = (emit_items (g_emit p) (off + zlen (g_gap p)) (g_b p) ++ its, Done)).
    { rewrite (run_token_step f _ st (g_b p) (tbytes r tg) _ _ _ _ _ Hne Hp Hb Ha), Hrun. reflexivity. }
    cbn [tbytes ttoks]. destruct (g_gap p) as [|c g] eqn:Eg.
    + exists (S f). eexists. rewrite zlen_nil, Z.add_0_r in *. cbn [app]. split; [exact Htok|].
      rewrite tokens_of_app, Htk. reflexivity.
    + specialize (Hgm ltac:(discriminate)).
      exists (S (S f)). eexists. split.
      * rewrite (run_skip_step (S f) off st (c :: g) _ Hgm ltac:(discriminate) Hbl).
        -- rewrite Htok. reflexivity.
        -- specialize (Hnb Hgm). destruct (g_b p); [contradiction|exact Hnb].
      * cbn [tokens_of]. rewrite tokens_of_app, Htk. reflexivity.
Qed.

(* ---- fuel does not matter once the run is Done ---------------------------------- *)

Lemma run_fuel_mono : forall f off s st its, run M0 f off s st = (its, Done) ->
  forall f', (f <= f')%nat -> run M0 f' off s st = (its, Done).
Proof.
  induction f as [|f IH]; intros off s st its H f' Hle; [simpl in H; discriminate|].
  destruct f' as [|f']; [lia|]. rewrite run_S in *. destruct s as [|c s']; [exact H|].
  destruct (pick (m_rules M0 (l_cur st)) (c :: s') None) as [[[r lk] n]|]; [|exact H].
  cbv zeta in *. destruct (r_act r st _) as [[e st']|]; [|exact H].
  destruct (run M0 f _ _ st') as [its1 fin1] eqn:E1. inversion H; subst its fin1.
  rewrite (IH _ _ _ _ E1 f') by lia. reflexivity.
Qed.

Lemma run_scan_agree : forall f data its, run M0 f 0 data (init_state MMain) = (its, Done) ->
  hcl_scan MMain data = (its, Done).
Proof.
  intros f data its H. destruct (hcl_scan_done MMain data (or_introl eq_refl)) as (its' & H').
  unfold hcl_scan, scan in H' |- *. fold M0 in H' |- *.
  pose proof (run_fuel_mono _ _ _ _ _ H (Nat.max f (S (length data))) ltac:(lia)) as H1.
  pose proof (run_fuel_mono _ _ _ _ _ H' (Nat.max f (S (length data))) ltac:(lia)) as H2.
  rewrite H1 in H2. inversion H2; subst. exact H'.
Qed.

(* ---- re-spacing a trace ---------------------------------------------------------- *)

Definition set_gap (p : step) (g : list Z) : step :=
  mkStep g (g_rule p) (g_n p) (g_b p) (g_emit p) (g_nst p).

Fixpoint regap (ps : list step) (gs : list (list Z)) : list step :=
  match ps, gs with
  | p :: r, g :: gs' => set_gap p g :: regap r gs'
  | _, _ => []
  end.

(* what the new gaps must satisfy: blank, only where the scanner is in main
   mode, and every match is still won by the same rule with the same token end
   in front of the NEW rest of the input *)
Fixpoint regap_cond (st : hstate) (ps : list step) (tg : list Z)
         (gs : list (list Z)) (tg' : list Z) : Prop :=
  match ps, gs with
  | [], [] => blanks tg' /\ (tg' <> [] -> l_cur st = MMain)
  | p :: r, g :: gs' =>
      blanks g /\ (g <> [] -> l_cur st = MMain) /\
      (tbytes r tg = [] -> tbytes (regap r gs') tg' = []) /\
      (exists lk, pick (hcl_rules (l_cur st)) (g_b p ++ tbytes (regap r gs') tg') None
                  = Some (g_rule p, lk, g_n p)) /\
      regap_cond (g_nst p) r tg gs' tg'
  | _, _ => False
  end.

Lemma firstn_app_stable (b t t' : list Z) k :
  b = firstn k (b ++ t) -> (t = [] -> t' = []) -> b = firstn k (b ++ t').
Proof.
  intros H Ht. destruct (Nat.le_gt_cases k (length b)) as [Hk|Hk].
  - rewrite firstn_app in H |- *. replace (k - length b)%nat with O in * by lia.
    simpl in *. exact H.
  - rewrite firstn_app in H.
    assert (E : firstn (k - length b) t = []).
    { rewrite firstn_all2 in H by lia.
      rewrite <- (app_nil_r b) in H at 1. apply app_inv_head in H. symmetry. exact H. }
    destruct t as [|c t0].
    + rewrite (Ht eq_refl), app_nil_r. rewrite firstn_all2 by lia. reflexivity.
    + destruct (k - length b)%nat eqn:Ek; [lia|]. simpl in E. discriminate.
Qed.

Lemma regap_trace : forall ps st tg gs tg',
  trace_ok st ps tg -> regap_cond st ps tg gs tg' -> trace_ok st (regap ps gs) tg'.
Proof.
  induction ps as [|p r IH]; intros st tg gs tg' Ht Hc; destruct gs as [|g gs']; simpl in Hc; try contradiction.
  - simpl. exact Hc.
  - simpl in Ht. destruct Ht as (Hbl & Hgm & Hne & Hnb & (lk & Hp) & Hb & Ha & He & Htr).
    destruct Hc as (Hbl' & Hgm' & Hnil & (lk' & Hp') & Hc).
    simpl. repeat split; auto.
    + exists lk'. exact Hp'.
    + eapply firstn_app_stable; eassumption.
    + eapply IH; eassumption.
Qed.

(* token types and bytes do not depend on offsets or gaps *)
Lemma rtyb_emit_items e o o' b :
  map rtyb (tokens_of (emit_items e o b)) = map rtyb (tokens_of (emit_items e o' b)).
Proof. destruct e; reflexivity. Qed.

Lemma rtyb_ttoks_regap : forall ps gs tg tg' off off', length gs = length ps ->
  map rtyb (ttoks off (regap ps gs) tg') = map rtyb (ttoks off' ps tg).
Proof.
  induction ps as [|p r IH]; intros gs tg tg' off off' Hl; destruct gs as [|g gs']; simpl in Hl; try lia.
  - reflexivity.
  - simpl. rewrite !map_app. rewrite (IH gs' tg tg' _ (off' + zlen (g_gap p) + zlen (g_b p))) by lia.
    f_equal. apply rtyb_emit_items.
Qed.

(* ==== 4. decidable tail conditions; writer tokens of a trace; writing = re-spacing ==== *)

(* ---- decidable versions of the tail conditions ------------------------------------- *)

(* after `e`/`E`: true = what follows is certainly not an exponent *)

(* after at least one '.' *)


Lemma dots_stop_ok : forall y, dots_stop y = true -> num_stop y.
Proof.
  induction y as [|d z IH]; intros H acc good; [reflexivity|]. cbn [dots_stop] in H. cbn [num_cont].
  destruct (d =? 46) eqn:E46.
  { apply Z.eqb_eq in E46. subst d. simpl. apply IH. exact H. }
  destruct (is_digit d); [discriminate|].
  destruct ((d =? 101) || (d =? 69)); [|reflexivity].
  destruct z as [|f w]; [reflexivity|]. cbn [exp_fail] in H.
  destruct (is_digit f); [discriminate|].
  destruct ((f =? 43) || (f =? 45)); [|reflexivity].
  destruct w as [|h w']; [reflexivity|]. destruct (is_digit h); [discriminate|reflexivity].
Qed.

Lemma num_stopb_ok t : num_stopb t = true -> num_stop t.
Proof.
  destruct t as [|c y]; [intros _; apply num_stop_nil|]. cbn [num_stopb].
  destruct (c =? 46) eqn:E.
  - apply Z.eqb_eq in E. subst c. intro H. apply num_stop_dot. apply dots_stop_ok. exact H.
  - intro H. apply num_stop_other. apply negb_true_iff. exact H.
Qed.

(* ASCII bytes in front of which an identifier ends *)

Lemma id_stoppers_ok : Forall (fun k => forall y, id_stop (k :: y)) id_stoppers.
Proof. unfold id_stoppers. repeat constructor; intros y acc; vm_compute; reflexivity. Qed.


Lemma id_stopb_ok t : id_stopb t = true -> id_stop t.
Proof.
  destruct t as [|c y]; [intros _; apply id_stop_nil|]. cbn [id_stopb]. intro H.
  apply existsb_exists in H. destruct H as (k & Hin & Hk). apply Z.eqb_eq in Hk. subst k.
  pose proof id_stoppers_ok as F. rewrite Forall_forall in F. apply (F _ Hin).
Qed.


Lemma hd_okb_ok l t : hd_okb l t = true -> hd_not_in l t.
Proof. destruct t as [|d y]; [intros _; exact I|]. simpl. apply negb_true_iff. Qed.


Lemma tail_okb_ok b t : tail_okb b t = true -> tail_ok b t.
Proof.
  destruct b as [|c b']; [intros _; exact I|]. cbn [tail_okb tail_ok]. intro H.
  apply andb_true_iff in H. destruct H as [H H3]. apply andb_true_iff in H. destruct H as [H1 H2].
  split; [|split].
  - intro Hd. rewrite Hd in H1. simpl in H1. apply num_stopb_ok. exact H1.
  - intro Hi. rewrite Hi in H2. simpl in H2. apply id_stopb_ok. exact H2.
  - intros ->. apply hd_okb_ok. exact H3.
Qed.

(* the fragment: tokens of the main scanner only *)

Definition ty_of (p : step) : Z := match g_emit p with EOne ty => ty | ETwo ty _ _ => ty | ENone => 0 end.

Lemma simple_ty_inv t : simple_ty t = true -> clean_ty t = true /\ t <> TokenOHeredoc /\ t <> TokenOQuote.
Proof.
  unfold simple_ty. intro H. apply andb_true_iff in H. destruct H as [H H3].
  apply andb_true_iff in H. destruct H as [H1 H2].
  apply negb_true_iff in H2, H3. apply Z.eqb_neq in H2, H3. auto.
Qed.

Lemma tokens_emit_types e o b : map k_ty (tokens_of (emit_items e o b)) = emit_types e.
Proof. destruct e; reflexivity. Qed.

(* the writer tokens of a main-mode trace *)
Definition wt_step (g : list Z -> Z) (p : step) : tok :=
  mkTok (ty_of p) (g_b p) (g (g_b p)) (zlen (g_gap p)).
Definition wt_eof (g : list Z -> Z) (tg : list Z) : tok := mkTok TokenEOF [] (g []) (zlen tg).
Definition wt_steps (g : list Z -> Z) (ps : list step) (tg : list Z) : list tok :=
  map (wt_step g) ps ++ [wt_eof g tg].

(* ---- what format does to the final EOF token --------------------------------------- *)

Lemma split_lines_eof_last : forall body cur e,
  forallb (fun t => negb (is (ty t) TokenEOF)) body = true -> is (ty e) TokenEOF = true ->
  snd (split_lines (body ++ [e]) cur) = Some e.
Proof.
  induction body as [|t body IH]; intros cur e Hb He.
  - cbn [app split_lines]. rewrite He. unfold strip_trailing_eof. rewrite rev_app_distr. cbn [rev app].
    rewrite He. reflexivity.
  - cbn [app split_lines]. cbn [forallb] in Hb. apply andb_true_iff in Hb. destruct Hb as [Ht Hb].
    apply negb_true_iff in Ht. rewrite Ht.
    destruct (tok_is_newline t).
    + specialize (IH [] e Hb He). destruct (split_lines (body ++ [e]) []) as [ls o]. exact IH.
    + apply IH; assumption.
Qed.

Lemma format_eof_last body e :
  forallb (fun t => negb (is (ty t) TokenEOF)) body = true -> is (ty e) TokenEOF = true ->
  exists body', format (body ++ [e]) = body' ++ [e] /\ map skel body' = map skel body.
Proof.
  intros Hb He. pose proof (split_lines_eof_last body [] e Hb He) as Hs.
  pose proof (format_only_spaces (body ++ [e])) as Hsk.
  unfold format in *. destruct (body ++ [e]) as [|t0 l0] eqn:El.
  { destruct body; discriminate. }
  rewrite <- El in *. destruct (split_lines (body ++ [e]) []) as [raw o]. cbn [snd] in Hs. subst o.
  cbn [opt_list] in *. eexists. split; [reflexivity|].
  rewrite !map_app in Hsk. apply app_inj_tail in Hsk. tauto.
Qed.

(* ---- writing = re-spacing the trace -------------------------------------------------- *)


Lemma repeatZ_blank n : blanks (repeatZ 32 n).
Proof. unfold blanks. induction n as [|n IH]; [reflexivity|]. simpl. exact IH. Qed.

Lemma repeatZ_length {A} (x : A) n : length (repeatZ x n) = n.
Proof. induction n as [|n IH]; [reflexivity|]. simpl. rewrite IH. reflexivity. Qed.

Lemma zlen_spaces n : 0 <= n -> zlen (spaces n) = n.
Proof. intro H. unfold zlen, spaces. rewrite repeatZ_length. lia. Qed.

Lemma write_cons x f : write (x :: f) = spaces (sp x) ++ bytes x ++ write f.
Proof. unfold write. cbn [map concat]. rewrite <- app_assoc. reflexivity. Qed.

Definition gaps_of (body : list tok) : list (list Z) := map (fun t => spaces (sp t)) body.

Lemma write_regap e : bytes e = [] -> forall ps body, map bytes body = map g_b ps ->
  write (body ++ [e]) = tbytes (regap ps (gaps_of body)) (spaces (sp e)).
Proof.
  intros He. induction ps as [|p r IH]; intros body Hb; destruct body as [|x f]; try discriminate.
  - cbn [app gaps_of map regap tbytes]. rewrite write_cons, He. unfold write. cbn. rewrite !app_nil_r. reflexivity.
  - cbn [map] in Hb. inversion Hb as [[Hx Hf]].
    cbn [app gaps_of map regap tbytes set_gap g_gap g_b]. rewrite write_cons, Hx. f_equal. f_equal.
    apply IH. exact Hf.
Qed.

Lemma tbytes_nonempty p r tg : g_b p <> [] -> tbytes (p :: r) tg <> [].
Proof.
  intros H E. cbn [tbytes] in E. apply app_eq_nil in E. destruct E as [_ E].
  apply app_eq_nil in E. tauto.
Qed.

(* ---- the theorem for the main-scanner fragment ---------------------------------------- *)

Lemma skel_inv a b : skel a = skel b -> ty a = ty b /\ bytes a = bytes b /\ gcols a = gcols b.
Proof. unfold skel. intro H. inversion H. auto. Qed.

Lemma wt_steps_regap g : forall ps body,
  map skel body = map skel (map (wt_step g) ps) ->
  forallb (fun t => 0 <=? sp t) body = true ->
  map (wt_step g) (regap ps (gaps_of body)) = body.
Proof.
  induction ps as [|p r IH]; intros body Hs Hp; destruct body as [|x f]; try discriminate; [reflexivity|].
  cbn [map] in Hs. injection Hs as E1 E2 E3 Hf.
  cbn [forallb] in Hp. apply andb_true_iff in Hp. destruct Hp as [Hpx Hpf]. apply Z.leb_le in Hpx.
  cbn [gaps_of map regap]. fold (gaps_of f). rewrite IH by assumption. f_equal.
  unfold wt_step, set_gap, ty_of in *. cbn [g_gap g_b g_emit ty bytes gcols] in *.
  rewrite zlen_spaces by exact Hpx. destruct x as [tx bx gx sx]. cbn in *. subst. reflexivity.
Qed.

Lemma skel_bytes g : forall ps body,
  map skel body = map skel (map (wt_step g) ps) -> map bytes body = map g_b ps.
Proof.
  induction ps as [|p r IH]; intros body Hsk; destruct body as [|x f]; try discriminate; [reflexivity|].
  cbn [map] in *. injection Hsk as E1 E2 E3 Hf. f_equal; [exact E2|apply IH; exact Hf].
Qed.

(* ==== 4b. the string scanner: a clean match survives a change of what follows ======== *)

(* ---- UTF-8 length ----------------------------------------------------------------------- *)

Lemma utf8_len_need c x m : utf8_len (c :: x) = Some m -> m = utf8_need c /\ (m <= length (c :: x))%nat /\ (1 <= m)%nat.
Proof.
  unfold utf8_len, utf8_need. destruct (c <? 128). { intro H; inversion H; simpl; lia. }
  destruct ((192 <=? c) && (c <=? 223)).
  { destruct x as [|c1 x]; [discriminate|]. destruct (is_cont c1); [|discriminate]. intro H; inversion H; simpl; lia. }
  destruct ((224 <=? c) && (c <=? 239)).
  { destruct x as [|c1 [|c2 x]]; try discriminate. destruct (is_cont c1 && is_cont c2); [|discriminate].
    intro H; inversion H; simpl; lia. }
  destruct ((240 <=? c) && (c <=? 247)); [|discriminate].
  destruct x as [|c1 [|c2 [|c3 x]]]; try discriminate. destruct (is_cont c1 && is_cont c2 && is_cont c3); [|discriminate].
  intro H; inversion H; simpl; lia.
Qed.

(* ---- span_quoted -------------------------------------------------------------------------- *)

Lemma sq_ge : forall s skip acc, (skip <= length s)%nat -> (acc + skip <= span_quoted s skip acc)%nat.
Proof.
  induction s as [|c r IH]; intros skip acc H; cbn [span_quoted length] in *; [lia|].
  destruct skip as [|k]; [|specialize (IH k (S acc) ltac:(lia)); lia].
  destruct (c =? 92).
  { destruct r as [|c2 r']; [lia|]. destruct (is_nlchar c2); [lia|].
    destruct (utf8_len (c2 :: r')) as [a|] eqn:E; [|lia].
    destruct (utf8_len_need _ _ _ E) as (_ & Hl & _). specialize (IH a (S acc) Hl). lia. }
  destruct (is_nlchar c || is_dp c || (c =? 34)); [lia|].
  destruct (utf8_len (c :: r)) as [[|a]|] eqn:E; try lia.
  destruct (utf8_len_need _ _ _ E) as (_ & Hl & _). simpl in Hl. specialize (IH a (S acc) ltac:(lia)). lia.
Qed.

Definition sq_stop (t : list Z) : Prop := forall acc, span_quoted t 0 acc = acc.

Lemma sq_stop_nil : sq_stop [].
Proof. intro; reflexivity. Qed.

Lemma sq_stop_hard c y : (c =? 34) || is_dp c = true -> sq_stop (c :: y).
Proof.
  intros H acc. cbn [span_quoted].
  assert (E92 : (c =? 92) = false).
  { unfold is_dp in H. destruct (c =? 92) eqn:E; [|reflexivity]. apply Z.eqb_eq in E. subst c. discriminate H. }
  rewrite E92. apply orb_true_iff in H. destruct H as [H|H]; rewrite H; rewrite ?orb_true_r; reflexivity.
Qed.

Lemma sq_app : forall b t skip acc, (skip <= length (b ++ t))%nat ->
  span_quoted (b ++ t) skip acc = (acc + length b)%nat ->
  forall t', sq_stop t' -> span_quoted (b ++ t') skip acc = (acc + length b)%nat.
Proof.
  induction b as [|c b IH]; intros t skip acc Hk H t' Hs.
  - cbn [app length] in *. destruct skip as [|k]; [rewrite Hs; lia|].
    pose proof (sq_ge t (S k) acc Hk). lia.
  - cbn [app length] in *. destruct skip as [|k].
    2:{ cbn [span_quoted] in *. rewrite (IH t k (S acc) ltac:(lia) ltac:(lia) t' Hs). lia. }
    cbn [span_quoted] in *. destruct (c =? 92).
    { destruct b as [|c2 b'].
      - exfalso. cbn [app length] in *. destruct t as [|c2 t0]; [lia|]. destruct (is_nlchar c2); [lia|].
        destruct (utf8_len (c2 :: t0)) as [a|] eqn:E; [|lia].
        destruct (utf8_len_need _ _ _ E) as (_ & Hl & Ha). pose proof (sq_ge (c2 :: t0) a (S acc) Hl). lia.
      - cbn [app length] in *. destruct (is_nlchar c2); [lia|].
        destruct (utf8_len (c2 :: b' ++ t)) as [a|] eqn:E; [|lia].
        destruct (utf8_len_need _ _ _ E) as (En & Hl & Ha).
        assert (Hab : (a <= length (c2 :: b'))%nat).
        { destruct (Nat.le_gt_cases a (length (c2 :: b'))); [assumption|].
          pose proof (sq_ge (c2 :: b' ++ t) a (S acc) Hl). cbn [length] in *. lia. }
        assert (E' : utf8_len (c2 :: b' ++ t') = Some a).
        { rewrite <- E. symmetry. apply (utf8_len_app c2 b' t t'). rewrite <- En. exact Hab. }
        rewrite E'.
        rewrite (IH t a (S acc) ltac:(cbn [app length] in *; lia) ltac:(cbn [app length] in *; lia) t' Hs).
        cbn [length]. lia. }
    destruct (is_nlchar c || is_dp c || (c =? 34)); [lia|].
    destruct (utf8_len (c :: b ++ t)) as [[|a]|] eqn:E; try lia.
    destruct (utf8_len_need _ _ _ E) as (En & Hl & _). cbn [length] in Hl.
    assert (Hab : (a <= length b)%nat).
    { destruct (Nat.le_gt_cases a (length b)); [assumption|].
      pose proof (sq_ge (b ++ t) a (S acc) ltac:(lia)). lia. }
    assert (E' : utf8_len (c :: b ++ t') = Some (S a)).
    { rewrite <- E. symmetry. apply (utf8_len_app c b t t'). rewrite <- En. cbn [length]. lia. }
    rewrite E'. rewrite (IH t a (S acc) ltac:(lia) ltac:(lia) t' Hs). lia.
Qed.

(* the first character of a non-empty span lies inside it *)
Lemma sq_first c x k : span_quoted (c :: x) 0 0 = S k ->
  (utf8_need c <= S k)%nat /\ is_nlchar c = false /\ is_dp c = false /\ (c =? 34) = false.
Proof.
  cbn [span_quoted]. destruct (c =? 92) eqn:E92.
  { apply Z.eqb_eq in E92. subst c. intro H. repeat split; try reflexivity. vm_compute. lia. }
  destruct (is_nlchar c) eqn:E1; [discriminate|]. destruct (is_dp c) eqn:E2; [discriminate|].
  destruct (c =? 34) eqn:E3; [discriminate|]. cbn [orb].
  destruct (utf8_len (c :: x)) as [[|a]|] eqn:E; try discriminate.
  destruct (utf8_len_need _ _ _ E) as (En & Hl & _). cbn [length] in Hl.
  intro H. pose proof (sq_ge x a 1%nat ltac:(lia)). repeat split; try reflexivity. lia.
Qed.

Lemma sq_shift : forall s skip acc d, span_quoted s skip (acc + d) = (span_quoted s skip acc + d)%nat.
Proof.
  induction s as [|c r IH]; intros skip acc d; cbn [span_quoted]; [reflexivity|].
  destruct skip as [|k]; [|apply (IH k (S acc) d)].
  destruct (c =? 92).
  { destruct r as [|c2 r']; [reflexivity|]. destruct (is_nlchar c2); [reflexivity|].
    destruct (utf8_len (c2 :: r')); [apply (IH _ (S acc) d)|reflexivity]. }
  destruct (is_nlchar c || is_dp c || (c =? 34)); [reflexivity|].
  destruct (utf8_len (c :: r)) as [[|a]|]; try reflexivity. apply (IH a (S acc) d).
Qed.

Lemma sq_cont : forall b t skip acc, (skip <= length (b ++ t))%nat ->
  span_quoted (b ++ t) skip acc = (acc + length b)%nat -> span_quoted t 0 0 = O.
Proof.
  induction b as [|c b IH]; intros t skip acc Hk H.
  - cbn [app length] in *. destruct skip as [|k].
    + pose proof (sq_shift t 0 0 acc) as E. cbn in E. rewrite E in H. lia.
    + pose proof (sq_ge t (S k) acc Hk). lia.
  - cbn [app length] in *. destruct skip as [|k].
    2:{ cbn [span_quoted] in H. apply (IH t k (S acc)); lia. }
    cbn [span_quoted] in H. destruct (c =? 92).
    { destruct b as [|c2 b'].
      - exfalso. cbn [app length] in *. destruct t as [|c2 t0]; [lia|]. destruct (is_nlchar c2); [lia|].
        destruct (utf8_len (c2 :: t0)) as [a|] eqn:E; [|lia].
        destruct (utf8_len_need _ _ _ E) as (_ & Hl & Ha). pose proof (sq_ge (c2 :: t0) a (S acc) Hl). lia.
      - cbn [app length] in *. destruct (is_nlchar c2); [lia|].
        destruct (utf8_len (c2 :: b' ++ t)) as [a|] eqn:E; [|lia].
        destruct (utf8_len_need _ _ _ E) as (En & Hl & Ha).
        apply (IH t a (S acc)); cbn [app length] in *; lia. }
    destruct (is_nlchar c || is_dp c || (c =? 34)); [lia|].
    destruct (utf8_len (c :: b ++ t)) as [[|a]|] eqn:E; try lia.
    destruct (utf8_len_need _ _ _ E) as (En & Hl & _). cbn [length] in Hl.
    apply (IH t a (S acc)); lia.
Qed.

(* ---- tmpl_not_seq ---------------------------------------------------------------------------- *)

Lemma tns_nodp d x : is_dp d = false -> tmpl_not_seq (d :: x) = TNo.
Proof. intro H. unfold tmpl_not_seq. destruct x as [|c r2]; [reflexivity|]. rewrite H. reflexivity. Qed.

Lemma tns_open d x : tmpl_not_seq (d :: 123 :: x) = TNo.
Proof. unfold tmpl_not_seq. destruct (is_dp d); reflexivity. Qed.

Lemma is_dp_cases d : is_dp d = true -> d = 36 \/ d = 37.
Proof. unfold is_dp. intro H. apply orb_true_iff in H. destruct H as [H|H]; apply Z.eqb_eq in H; auto. Qed.

(* ---- matchers of the string scanner ------------------------------------------------------------ *)

Definition m_tmpl_open' (d : Z) (s : list Z) : option (nat * nat) :=
  match s with
  | c :: c1 :: r => if (c1 =? 123) && (c =? d) then (if starts_with 126 r then same 3 else same 2) else None
  | _ => None
  end.

Lemma m_tmpl_open_eq d s : m_tmpl_open d s = m_tmpl_open' d s.
Proof.
  unfold m_tmpl_open, m_tmpl_open'. destruct s as [|c [|c1 r]]; try reflexivity.
  zcase c1. destruct (c =? d); [|reflexivity]. cbn [andb].
  destruct r as [|c2 r']; [reflexivity|]. unfold starts_with. zcase c2.
Qed.

Lemma gs_open d c x : (c =? d) = false -> m_tmpl_open d (c :: x) = None.
Proof.
  intro H. rewrite m_tmpl_open_eq. unfold m_tmpl_open'. destruct x as [|c1 r]; [reflexivity|].
  rewrite H, andb_false_r. reflexivity.
Qed.

Lemma gs_open2 d c c1 x : (c1 =? 123) = false -> m_tmpl_open d (c :: c1 :: x) = None.
Proof. intro H. rewrite m_tmpl_open_eq. unfold m_tmpl_open'. rewrite H. reflexivity. Qed.

Lemma gs_nlseq c x : is_nlchar c = false -> m_nlseq (c :: x) = None.
Proof. intro H. unfold m_nlseq. cbn [span_nl]. rewrite H. reflexivity. Qed.

Lemma gs_tsl_nodp c x : is_dp c = false ->
  m_tmpl_string_lit (c :: x) = match span_quoted (c :: x) 0 0 with O => None | n => same n end.
Proof. intro H. unfold m_tmpl_string_lit. rewrite (tns_nodp c x H). reflexivity. Qed.

Lemma gs_tsl_open d x : is_dp d = true -> m_tmpl_string_lit (d :: 123 :: x) = None.
Proof.
  intro H. unfold m_tmpl_string_lit. rewrite tns_open. cbn [span_quoted].
  destruct (is_dp_cases d H) as [-> | ->]; reflexivity.
Qed.

Ltac each_string_rule Hin tac :=
  unfold rules_string in Hin; cbn [In] in Hin;
  repeat (destruct Hin as [<-|Hin]; [unfold R; cbn [r_match]; tac|]); try (destruct Hin).

Definition agree2 (t t' : list Z) : Prop :=
  firstn 2 t = firstn 2 t' \/ (exists y y', t = 34 :: y /\ t' = 34 :: y').

Lemma agree2_hd t t' c y : agree2 t t' -> t = c :: y -> exists y', t' = c :: y'.
Proof.
  intros [H|(y0 & y' & E1 & E2)] E.
  - subst t. destruct t' as [|c' y']; [destruct y; discriminate|]. destruct y, y'; inversion H; eauto.
  - subst t'. rewrite E1 in E. inversion E. eauto.
Qed.

Definition tmpl_not_seq' (s : list Z) : tni :=
  match s with
  | d :: c :: r2 =>
      if is_dp d then
        if c =? 123 then TNo
        else if c =? d then
          match r2 with
          | e1 :: r3 => if e1 =? 123 then (if starts_with 126 r3 then TEsc 4 else TEsc 3) else THold r2
          | [] => THold r2
          end
        else THold r2
      else TNo
  | _ => TNo
  end.

Lemma tmpl_not_seq_eq s : tmpl_not_seq s = tmpl_not_seq' s.
Proof.
  unfold tmpl_not_seq, tmpl_not_seq'. destruct s as [|d [|c r2]]; try reflexivity.
  destruct (is_dp d); [|reflexivity]. destruct (c =? 123); [reflexivity|]. destruct (c =? d); [|reflexivity].
  destruct r2 as [|e1 r3]; [reflexivity|]. zcase e1.
  destruct r3 as [|e2 r4]; [reflexivity|]. unfold starts_with. zcase e2.
Qed.

Definition hard_or_nil (t : list Z) : Prop :=
  t = [] \/ exists c y, t = c :: y /\ ((c =? 34) || is_dp c = true).

Definition emits_clean (e : emit) : Prop := forall ty, In ty (emit_types e) -> clean_ty ty = true.

Ltac unclean_s Ha Hok :=
  exfalso; cbn [r_act] in Ha; unfold a_tok in Ha; inversion Ha; subst;
  match type of Hok with emits_clean (EOne ?t) =>
    let H := fresh in assert (H : clean_ty t = true) by (apply Hok; left; reflexivity);
    vm_compute in H; discriminate H end.

(* agreement of the rules that do not depend on the tail once the first byte is known *)
Ltac agree_s :=
  first [ rewrite !gs_open by reflexivity; reflexivity
        | rewrite !g_lit by reflexivity; reflexivity
        | rewrite !gs_nlseq by reflexivity; reflexivity
        | rewrite !g_utf8_ascii by reflexivity; reflexivity
        | rewrite !g_broken by reflexivity; reflexivity
        | reflexivity ].

Lemma string_pick_stable (st : hstate) r lk n b t e st' t' :
  b <> [] ->
  pick rules_string (b ++ t) None = Some (r, lk, n) ->
  b = firstn (Nat.max 1 n) (b ++ t) ->
  r_act r st b = Some (e, st') -> emits_clean e ->
  (t = [] -> t' = []) ->
  (e = EOne TokenQuotedLit -> agree2 t t') ->
  (e = EOne TokenQuotedLit -> span_quoted t 0 0 = O -> hard_or_nil t) ->
  ((e = EOne TokenTemplateInterp \/ e = EOne TokenTemplateControl) ->
     forall d, b = [d; 123] -> starts_with 126 t' = false) ->
  pick rules_string (b ++ t') None = Some (r, lk, n).
Proof.
  intros Hne Hp Hb Ha Hok Ht Hag Hhard Hopen.
  destruct t as [|t0 t1].
  { rewrite (Ht eq_refl). exact Hp. }
  assert (Hlen : length b = Nat.max 1 n) by (eapply firstn_app_len; [exact Hb|discriminate]).
  clear Ht Hb.
  rewrite <- Hp. symmetry. apply pick_ext.
  pose proof Hp as Hp2. apply pick_spec in Hp2. destruct Hp2 as [Hx|(Hin & Hm & Hlk)]; [discriminate|].
  destruct b as [|c b']; [contradiction|]. cbn [app] in *. clear Hne.
  unfold rules_string in Hin; cbn [In] in Hin.
  (* the two openers *)
  assert (Hopener : forall d ty, (d = 36 \/ d = 37) -> (ty = TokenTemplateInterp \/ ty = TokenTemplateControl) ->
            r = R (m_tmpl_open d) (a_begin_tmpl ty) ->
            forall r', In r' rules_string -> r_match r' (c :: b' ++ t0 :: t1) = r_match r' (c :: b' ++ t')).
  { intros d ty Hd Hty -> r' Hin'. unfold R in Hm. cbn [r_match] in Hm. rewrite m_tmpl_open_eq in Hm.
    assert (Hoe : e = EOne TokenTemplateInterp \/ e = EOne TokenTemplateControl).
    { unfold R in Ha. cbn [r_act] in Ha. unfold a_begin_tmpl in Ha. inversion Ha. destruct Hty as [-> | ->]; auto. }
    specialize (Hopen Hoe).
    destruct b' as [|c1 b''].
    { exfalso. cbn [app m_tmpl_open'] in Hm. destruct ((t0 =? 123) && (c =? d)); [|discriminate].
      cbn [length] in Hlen. destruct (starts_with 126 t1); unfold same in Hm; inversion Hm; subst; simpl in Hlen; lia. }
    cbn [app m_tmpl_open'] in Hm.
    destruct ((c1 =? 123) && (c =? d)) eqn:E; [|discriminate].
    apply andb_true_iff in E. destruct E as [E1 E2]. apply Z.eqb_eq in E1, E2. subst c1 c.
    destruct (starts_with 126 (b'' ++ t0 :: t1)) eqn:Es; unfold same in Hm; inversion Hm; subst lk n; cbn [length Nat.max] in Hlen.
    - destruct b'' as [|c2 [|c3 b3]]; simpl in Hlen; try lia. cbn [app starts_with] in Es. apply Z.eqb_eq in Es. subst c2.
      cbn [app]. destruct Hd as [-> | ->]; each_string_rule Hin' ltac:(first
        [ rewrite !m_tmpl_open_eq; reflexivity | rewrite !gs_tsl_open by reflexivity; reflexivity | agree_s ]).
    - destruct b'' as [|c2 b3]; simpl in Hlen; try lia. cbn [app] in *.
      specialize (Hopen d eq_refl).
      destruct Hd as [-> | ->]; each_string_rule Hin' ltac:(first
        [ rewrite !m_tmpl_open_eq; unfold m_tmpl_open'; cbn [Z.eqb andb]; rewrite Es, Hopen; reflexivity
        | rewrite !m_tmpl_open_eq; reflexivity
        | rewrite !gs_tsl_open by reflexivity; reflexivity | agree_s ]). }
  destruct Hin as [<-|Hin]; [eapply Hopener; [left; reflexivity|left; reflexivity|reflexivity]|].
  destruct Hin as [<-|Hin]; [eapply Hopener; [right; reflexivity|right; reflexivity|reflexivity]|].
  clear Hopener.
  destruct Hin as [<-|Hin].
  { (* closing quote *)
    unfold R in Hm. cbn [r_match] in Hm. apply m_lit_inv in Hm. destruct Hm as (Hpre & -> & ->).
    apply is_prefix_hd in Hpre. subst c. cbn [length Nat.max] in Hlen.
    destruct b' as [|x b'']; [|simpl in Hlen; lia]. cbn [app].
    intros r' Hin'. each_string_rule Hin' ltac:(first
      [ rewrite !gs_tsl_nodp by reflexivity; reflexivity | agree_s ]). }
  destruct Hin as [<-|Hin].
  { (* a literal *)
    assert (He : e = EOne TokenQuotedLit) by (cbn [r_act R] in Ha; unfold a_tok in Ha; inversion Ha; reflexivity).
    specialize (Hag He). specialize (Hhard He).
    destruct (agree2_hd _ _ _ _ Hag eq_refl) as (t1' & ->).
    unfold R in Hm. cbn [r_match] in Hm. unfold m_tmpl_string_lit in Hm.
    rewrite tmpl_not_seq_eq in Hm.
    destruct (tmpl_not_seq' (c :: b' ++ t0 :: t1)) as [k|r2|] eqn:Et.
    - (* escape $${ / %%{ *)
      unfold same in Hm. inversion Hm; subst lk n. clear Hm.
      unfold tmpl_not_seq' in Et.
      destruct b' as [|c1 b'']; cbn [app] in Et.
      { exfalso. destruct (is_dp c); [|discriminate]. destruct (t0 =? 123); [discriminate|].
        destruct (t0 =? c); [|discriminate]. destruct t1 as [|e1 r3]; [discriminate|].
        destruct (e1 =? 123); [|discriminate]. cbn [length] in Hlen.
        destruct (starts_with 126 r3); inversion Et; subst k; simpl in Hlen; lia. }
      destruct (is_dp c) eqn:Edp; [|discriminate]. destruct (c1 =? 123) eqn:E123; [discriminate|].
      destruct (c1 =? c) eqn:Ecc; [|discriminate]. apply Z.eqb_eq in Ecc. subst c1.
      destruct b'' as [|c2 b3]; cbn [app] in Et.
      { exfalso. destruct (t0 =? 123); [|discriminate]. cbn [length] in Hlen.
        destruct (starts_with 126 t1); inversion Et; subst k; simpl in Hlen; lia. }
      destruct (c2 =? 123) eqn:E2; [|discriminate]. apply Z.eqb_eq in E2. subst c2.
      assert (Hnew : tmpl_not_seq' (c :: c :: 123 :: b3 ++ t0 :: t1') = TEsc k).
      { unfold tmpl_not_seq'. rewrite Edp, E123, Z.eqb_refl. cbn [Z.eqb].
        destruct (starts_with 126 (b3 ++ t0 :: t1)) eqn:Es; inversion Et; subst k; cbn [length Nat.max] in Hlen.
        - destruct b3 as [|c3 [|c4 b4]]; simpl in Hlen; try lia. cbn [app starts_with] in *. rewrite Es. reflexivity.
        - destruct b3 as [|c3 b4]; simpl in Hlen; try lia. cbn [app starts_with] in *. rewrite Es. reflexivity. }
      assert (Hold : tmpl_not_seq' (c :: c :: 123 :: b3 ++ t0 :: t1) = TEsc k).
      { unfold tmpl_not_seq'. rewrite Edp, E123, Z.eqb_refl. cbn [Z.eqb]. exact Et. }
      intros r' Hin'. cbn [app].
      destruct (is_dp_cases c Edp) as [-> | ->];
        each_string_rule Hin' ltac:(first
          [ rewrite !gs_open2 by reflexivity; reflexivity
          | unfold m_tmpl_string_lit; rewrite !tmpl_not_seq_eq, Hnew, Hold; reflexivity
          | agree_s ]).
    - (* a lone $ or % *)
      inversion Hm; subst lk n. clear Hm. cbn [length Nat.max] in Hlen.
      destruct b' as [|x b'']; [|simpl in Hlen; lia]. cbn [app] in *.
      unfold tmpl_not_seq' in Et.
      destruct (is_dp c) eqn:Edp; [|discriminate]. destruct (t0 =? 123) eqn:E123; [discriminate|].
      assert (Hnew : exists r2', tmpl_not_seq' (c :: t0 :: t1') = THold r2').
      { unfold tmpl_not_seq'. rewrite Edp, E123. destruct (t0 =? c) eqn:Ecc; [|eauto].
        destruct Hag as [Hag|(y & y' & Ey & Ey')].
        - destruct t1 as [|e1 r3]; destruct t1' as [|e1' r3']; cbn in Hag; try discriminate; [eauto|].
          inversion Hag; subst e1'. destruct (e1 =? 123); [|eauto].
          destruct (starts_with 126 r3); discriminate.
        - exfalso. inversion Ey; subst t0. apply Z.eqb_eq in Ecc. subst c. discriminate Edp. }
      destruct Hnew as (r2' & Hnew).
      assert (Hold : tmpl_not_seq' (c :: t0 :: t1) = THold r2).
      { unfold tmpl_not_seq'. rewrite Edp, E123. exact Et. }
      intros r' Hin'.
      destruct (is_dp_cases c Edp) as [-> | ->];
        each_string_rule Hin' ltac:(first
          [ rewrite !gs_open2 by exact E123; reflexivity
          | unfold m_tmpl_string_lit; rewrite !tmpl_not_seq_eq, Hnew, Hold; reflexivity
          | agree_s ]).
    - (* a run of ordinary characters and escapes *)
      destruct (span_quoted (c :: b' ++ t0 :: t1) 0 0) as [|k] eqn:Es; [discriminate|].
      unfold same in Hm. inversion Hm; subst lk n. clear Hm.
      destruct (sq_first _ _ _ Es) as (Hneed & Hnl & Hdp & H34).
      replace (Nat.max 1 (S k)) with (S k) in Hlen by lia.
      assert (Hst : sq_stop (t0 :: t1')).
      { assert (H0 : span_quoted (t0 :: t1) 0 0 = O).
        { apply (sq_cont (c :: b') (t0 :: t1) 0 0 ltac:(lia)). rewrite Hlen. exact Es. }
        destruct (Hhard H0) as [Hx|(c0 & y & Ey & Hc0)]; [discriminate|].
        inversion Ey; subst c0 y. apply sq_stop_hard. exact Hc0. }
      assert (Hnew : span_quoted (c :: b' ++ t0 :: t1') 0 0 = S k).
      { rewrite <- Hlen. apply (sq_app (c :: b') (t0 :: t1) 0 0 ltac:(lia)); [rewrite Hlen; exact Es|exact Hst]. }
      assert (Hu : utf8_len (c :: b' ++ t0 :: t1) = utf8_len (c :: b' ++ t0 :: t1')).
      { apply (utf8_len_app c b' (t0 :: t1) (t0 :: t1')). rewrite Hlen. exact Hneed. }
      assert (E36 : (c =? 36) = false /\ (c =? 37) = false).
      { unfold is_dp in Hdp. apply orb_false_iff in Hdp. exact Hdp. }
      destruct E36 as [E36 E37].
      assert (En : (c =? 10) = false /\ (c =? 13) = false).
      { unfold is_nlchar in Hnl. apply orb_false_iff in Hnl. tauto. }
      intros r' Hin'.
      each_string_rule Hin' ltac:(first
        [ rewrite !gs_open by assumption; reflexivity
        | rewrite !g_lit by (rewrite Z.eqb_sym; exact H34); reflexivity
        | rewrite !gs_tsl_nodp by exact Hdp; rewrite Es, Hnew; reflexivity
        | rewrite !gs_nlseq by exact Hnl; reflexivity
        | unfold m_any_utf8; rewrite Hu; reflexivity
        | reflexivity ]). }
  destruct Hin as [<-|Hin]; [unclean_s Ha Hok|].
  destruct Hin as [<-|Hin]; [unclean_s Ha Hok|].
  destruct Hin as [<-|Hin]; [unclean_s Ha Hok|].
  destruct Hin.
Qed.

(* ==== 4c. the heredoc scanner; heredoc markers ========================================= *)

(* ---- span_chars plain_ok ------------------------------------------------------------------------ *)

Notation spc := (span_chars plain_ok).

Lemma sc_ge : forall s skip acc, (skip <= length s)%nat -> (acc + skip <= spc s skip acc)%nat.
Proof.
  induction s as [|c r IH]; intros skip acc H; cbn [span_chars length] in *; [lia|].
  destruct skip as [|k]; [|specialize (IH k (S acc) ltac:(lia)); lia].
  destruct (plain_ok c); [|lia].
  destruct (utf8_len (c :: r)) as [[|a]|] eqn:E; try lia.
  destruct (utf8_len_need _ _ _ E) as (_ & Hl & _). simpl in Hl. specialize (IH a (S acc) ltac:(lia)). lia.
Qed.

Definition sc_stop (t : list Z) : Prop := forall acc, spc t 0 acc = acc.

Lemma sc_stop_nil : sc_stop [].
Proof. intro; reflexivity. Qed.

Lemma sc_stop_hard c y : plain_ok c = false -> sc_stop (c :: y).
Proof. intros H acc. cbn [span_chars]. rewrite H. reflexivity. Qed.

Lemma sc_app : forall b t skip acc, (skip <= length (b ++ t))%nat ->
  spc (b ++ t) skip acc = (acc + length b)%nat ->
  forall t', sc_stop t' -> spc (b ++ t') skip acc = (acc + length b)%nat.
Proof.
  induction b as [|c b IH]; intros t skip acc Hk H t' Hs.
  - cbn [app length] in *. destruct skip as [|k]; [rewrite Hs; lia|].
    pose proof (sc_ge t (S k) acc Hk). lia.
  - cbn [app length] in *. destruct skip as [|k].
    2:{ cbn [span_chars] in *. rewrite (IH t k (S acc) ltac:(lia) ltac:(lia) t' Hs). lia. }
    cbn [span_chars] in *. destruct (plain_ok c); [|lia].
    destruct (utf8_len (c :: b ++ t)) as [[|a]|] eqn:E; try lia.
    destruct (utf8_len_need _ _ _ E) as (En & Hl & _). cbn [length] in Hl.
    assert (Hab : (a <= length b)%nat).
    { destruct (Nat.le_gt_cases a (length b)); [assumption|].
      pose proof (sc_ge (b ++ t) a (S acc) ltac:(lia)). lia. }
    assert (E' : utf8_len (c :: b ++ t') = Some (S a)).
    { rewrite <- E. symmetry. apply (utf8_len_app c b t t'). rewrite <- En. cbn [length]. lia. }
    rewrite E'. rewrite (IH t a (S acc) ltac:(lia) ltac:(lia) t' Hs). lia.
Qed.

Lemma sc_shift : forall s skip acc d, spc s skip (acc + d) = (spc s skip acc + d)%nat.
Proof.
  induction s as [|c r IH]; intros skip acc d; cbn [span_chars]; [reflexivity|].
  destruct skip as [|k]; [|apply (IH k (S acc) d)].
  destruct (plain_ok c); [|reflexivity].
  destruct (utf8_len (c :: r)) as [[|a]|]; try reflexivity. apply (IH a (S acc) d).
Qed.

Lemma sc_cont : forall b t skip acc, (skip <= length (b ++ t))%nat ->
  spc (b ++ t) skip acc = (acc + length b)%nat -> spc t 0 0 = O.
Proof.
  induction b as [|c b IH]; intros t skip acc Hk H.
  - cbn [app length] in *. destruct skip as [|k].
    + pose proof (sc_shift t 0 0 acc) as E. cbn in E. rewrite E in H. lia.
    + pose proof (sc_ge t (S k) acc Hk). lia.
  - cbn [app length] in *. destruct skip as [|k].
    2:{ cbn [span_chars] in H. apply (IH t k (S acc)); lia. }
    cbn [span_chars] in H. destruct (plain_ok c); [|lia].
    destruct (utf8_len (c :: b ++ t)) as [[|a]|] eqn:E; try lia.
    destruct (utf8_len_need _ _ _ E) as (En & Hl & _). cbn [length] in Hl.
    apply (IH t a (S acc)); lia.
Qed.

Lemma sc_first c x k : spc (c :: x) 0 0 = S k -> (utf8_need c <= S k)%nat /\ plain_ok c = true.
Proof.
  cbn [span_chars]. destruct (plain_ok c); [|discriminate].
  destruct (utf8_len (c :: x)) as [[|a]|] eqn:E; try discriminate.
  destruct (utf8_len_need _ _ _ E) as (En & Hl & _). cbn [length] in Hl.
  intro H. pose proof (sc_ge x a 1%nat ltac:(lia)). split; [lia|reflexivity].
Qed.

Lemma sc_le : forall s skip acc, (spc s skip acc <= acc + length s)%nat.
Proof.
  induction s as [|c r IH]; intros skip acc; cbn [span_chars length]; [lia|].
  destruct skip as [|k]; [|specialize (IH k (S acc)); lia].
  destruct (plain_ok c); [|lia].
  destruct (utf8_len (c :: r)) as [[|a]|]; try lia. specialize (IH a (S acc)). lia.
Qed.

(* newline_len looks at two bytes *)
Lemma newline_len_firstn2 t t' : firstn 2 t = firstn 2 t' -> newline_len t = newline_len t'.
Proof.
  unfold newline_len. destruct t as [|a [|b r]]; destruct t' as [|a' [|b' r']]; cbn; intro H; inversion H; reflexivity.
Qed.

Lemma newline_len_app nb t t' : newline_len (nb ++ t) = length nb -> nb <> [] -> newline_len (nb ++ t') = length nb.
Proof.
  intros H Hne. destruct (newline_len_inv (nb ++ t) ltac:(rewrite H; destruct nb; [contradiction|discriminate])) as [[(y & Ey) E1]|[(y & Ey) E2]].
  - rewrite H in E1. destruct nb as [|c1 [|c2 nb']]; simpl in E1; try lia. cbn [app] in Ey. inversion Ey; subst. reflexivity.
  - rewrite H in E2. destruct nb as [|c1 [|c2 [|c3 nb']]]; simpl in E2; try lia. cbn [app] in Ey. inversion Ey; subst. reflexivity.
Qed.

Lemma newline_len_hd nb : newline_len nb <> O -> exists c y, nb = c :: y /\ plain_ok c = false.
Proof.
  intro H. destruct (newline_len_inv nb H) as [[(y & ->) _]|[(y & ->) _]]; eexists; eexists; split; reflexivity.
Qed.

(* ---- the two literal rules on an input that does not start with '$' / '%' ---------------------- *)

Lemma eol_nodp c x : is_dp c = false ->
  m_heredoc_eol (c :: x) =
  (let k := spc (c :: x) 0 0 in
   match newline_len (skipn k (c :: x)) with O => None | n => same (k + n) end).
Proof. intro H. unfold m_heredoc_eol. rewrite (tns_nodp c x H). reflexivity. Qed.

Lemma mid_nodp c x : is_dp c = false ->
  m_heredoc_mid (c :: x) = match spc (c :: x) 0 0 with O => None | k => same k end.
Proof. intro H. unfold m_heredoc_mid. rewrite (tns_nodp c x H). reflexivity. Qed.

Lemma eol_open d x : is_dp d = true -> m_heredoc_eol (d :: 123 :: x) = None.
Proof.
  intro H. unfold m_heredoc_eol. rewrite tns_open. cbv zeta.
  destruct (is_dp_cases d H) as [-> | ->]; reflexivity.
Qed.

Lemma mid_open d x : is_dp d = true -> m_heredoc_mid (d :: 123 :: x) = None.
Proof.
  intro H. unfold m_heredoc_mid. rewrite tns_open.
  destruct (is_dp_cases d H) as [-> | ->]; reflexivity.
Qed.

(* a line whose newline lies inside the token *)
Lemma line_inside b t k nl :
  spc (b ++ t) 0 0 = k -> newline_len (skipn k (b ++ t)) = nl -> nl <> O -> (k + nl = length b)%nat ->
  forall t', spc (b ++ t') 0 0 = k /\ newline_len (skipn k (b ++ t')) = nl.
Proof.
  intros Hk Hn Hnz Hl t'.
  assert (Hkb : (k <= length b)%nat) by lia.
  set (pre := firstn k b). set (nb := skipn k b).
  assert (Hb : b = pre ++ nb) by (symmetry; apply firstn_skipn).
  assert (Hpre : length pre = k) by (unfold pre; rewrite firstn_length; lia).
  assert (Hnb : length nb = nl) by (unfold nb; rewrite skipn_length; lia).
  assert (Hsk : forall u, skipn k (b ++ u) = nb ++ u).
  { intro u. rewrite skipn_app. replace (k - length b)%nat with O by lia. rewrite skipn_O. reflexivity. }
  rewrite Hsk in Hn.
  assert (Hnb' : newline_len (nb ++ t') = nl).
  { assert (Hne : nb <> []) by (intro E; rewrite E in Hnb; simpl in Hnb; lia).
    rewrite <- Hnb. apply (newline_len_app nb t t'); [rewrite Hnb; exact Hn|exact Hne]. }
  split; [|rewrite Hsk; exact Hnb'].
  destruct (newline_len_hd (nb ++ t') ltac:(rewrite Hnb'; exact Hnz)) as (c & y & Ec & Hc).
  rewrite Hb, <- app_assoc in Hk |- *.
  rewrite <- Hpre. apply (sc_app pre (nb ++ t) 0 0 ltac:(lia)); [rewrite Hpre; exact Hk|].
  rewrite Ec. apply sc_stop_hard. exact Hc.
Qed.

Ltac each_heredoc_rule Hin tac :=
  unfold rules_heredoc in Hin; cbn [In] in Hin;
  repeat (destruct Hin as [<-|Hin]; [unfold R; cbn [r_match]; tac|]); try (destruct Hin).

Lemma a_heredoc_eol_emit (st : hstate) b e st' :
  a_heredoc_eol st b = Some (e, st') ->
  (exists k, e = ETwo TokenCHeredoc k TokenNewline) \/ e = EOne TokenStringLit.
Proof.
  unfold a_heredoc_eol. destruct (l_hdocs st) as [|top rest]; [discriminate|].
  destruct (h_sol top && zlist_eqb (trim_space b) (h_marker top)).
  - destruct (fret _); [|discriminate]. intro H. inversion H. left. eauto.
  - intro H. inversion H. right. reflexivity.
Qed.

Lemma a_heredoc_mid_emit (st : hstate) b e st' : a_heredoc_mid st b = Some (e, st') -> e = EOne TokenStringLit.
Proof. unfold a_heredoc_mid. destruct (set_top_sol false st); [|discriminate]. intro H. inversion H. reflexivity. Qed.

(* ---- literals that start with '$' / '%': decided by a short prefix ------------------------------- *)

Definition dep (s : list Z) : nat :=
  match tmpl_not_seq' s with TEsc n => (n + 2)%nat | THold _ => 3%nat | TNo => 2%nat end.

Lemma firstn_le_eq {A} (s s' : list A) m k : firstn m s = firstn m s' -> (k <= m)%nat -> firstn k s = firstn k s'.
Proof.
  intros H Hk.
  replace (firstn k s) with (firstn k (firstn m s)) by (rewrite firstn_firstn; f_equal; lia).
  replace (firstn k s') with (firstn k (firstn m s')) by (rewrite firstn_firstn; f_equal; lia).
  rewrite H. reflexivity.
Qed.

Lemma firstn_app2 (b t t' : list Z) : firstn 2 t = firstn 2 t' ->
  firstn (length b + 2) (b ++ t) = firstn (length b + 2) (b ++ t').
Proof. intro H. rewrite !firstn_app_2. rewrite H. reflexivity. Qed.

Lemma tmpl_open_prefix d s s' : firstn 3 s = firstn 3 s' -> m_tmpl_open d s = m_tmpl_open d s'.
Proof.
  rewrite !m_tmpl_open_eq. unfold m_tmpl_open'.
  destruct s as [|a [|b [|c r]]]; destruct s' as [|a' [|b' [|c' r']]]; cbn [firstn]; intro H; inversion H; subst; reflexivity.
Qed.

Lemma skipn_firstn_eq {A} (s s' : list A) n m : firstn (n + m) s = firstn (n + m) s' ->
  firstn m (skipn n s) = firstn m (skipn n s').
Proof.
  revert s s'. induction n as [|n IH]; intros s s' H; [exact H|].
  destruct s as [|a s]; destruct s' as [|a' s']; cbn [plus firstn skipn] in *.
  - reflexivity.
  - discriminate.
  - discriminate.
  - inversion H. apply IH. assumption.
Qed.

Lemma dp_prefix_agree s s' :
  firstn (dep s) s = firstn (dep s) s' ->
  tmpl_not_seq' s <> TNo ->
  m_heredoc_eol s = m_heredoc_eol s' /\ m_heredoc_mid s = m_heredoc_mid s'.
Proof.
  unfold dep, m_heredoc_eol, m_heredoc_mid. rewrite !tmpl_not_seq_eq.
  destruct (tmpl_not_seq' s) as [n|r2|] eqn:Et; intros H Hne; [| |contradiction].
  - (* TEsc n: n is 3 or 4 *)
    assert (Hn : (n = 3 \/ n = 4)%nat /\ tmpl_not_seq' s' = TEsc n).
    { unfold tmpl_not_seq' in Et |- *.
      destruct s as [|d [|c [|e1 r3]]]; try discriminate; try (destruct (is_dp d); [destruct (c =? 123); [discriminate|destruct (c =? d); discriminate]|discriminate]).
      destruct (is_dp d) eqn:Ed; [|discriminate]. destruct (c =? 123) eqn:Ec; [discriminate|].
      destruct (c =? d) eqn:Ecd; [|discriminate]. destruct (e1 =? 123) eqn:Ee; [|discriminate].
      destruct s' as [|d' [|c' [|e1' r3']]]; try (destruct (starts_with 126 r3); inversion Et; subst n; cbn in H; discriminate H).
      assert (Hh : d' = d /\ c' = c /\ e1' = e1 /\ firstn 2 r3 = firstn 2 r3').
      { destruct (starts_with 126 r3); inversion Et; subst n; cbn [firstn plus] in H;
          injection H as E1 E2 E3 E4; subst; repeat split; try reflexivity;
          first [exact E4 | apply (firstn_le_eq r3 r3' 3 2 E4); lia]. }
      destruct Hh as (-> & -> & -> & Hr). rewrite Ed, Ec, Ecd, Ee.
      assert (Hs : starts_with 126 r3 = starts_with 126 r3').
      { destruct r3, r3'; cbn in *; congruence. }
      rewrite <- Hs. destruct (starts_with 126 r3); inversion Et; auto. }
    destruct Hn as [Hn Et']. rewrite Et'. split; [|reflexivity].
    assert (Hnl : firstn 2 (skipn n s) = firstn 2 (skipn n s')) by (apply skipn_firstn_eq; exact H).
    rewrite (newline_len_firstn2 _ _ Hnl). reflexivity.
  - (* THold *)
    assert (Ht : exists r2', tmpl_not_seq' s' = THold r2' /\ starts_with 10 r2 = starts_with 10 r2' /\ starts_with 13 r2 = starts_with 13 r2').
    { unfold tmpl_not_seq' in Et |- *.
      destruct s as [|d [|c x]]; try discriminate.
      destruct s' as [|d' [|c' x']]; try (cbn in H; destruct x; discriminate H).
      assert (Hh : d' = d /\ c' = c /\ firstn 1 x = firstn 1 x').
      { cbn [firstn] in H. inversion H; subst. repeat split; try reflexivity. destruct x, x'; cbn in *; congruence. }
      destruct Hh as (-> & -> & Hx).
      destruct (is_dp d); [|discriminate]. destruct (c =? 123); [discriminate|].
      assert (Hs : forall k, starts_with k x = starts_with k x').
      { intro k. destruct x, x'; cbn in *; congruence. }
      destruct (c =? d).
      + destruct x as [|e1 r3]; destruct x' as [|e1' r3']; cbn in Hx; try discriminate.
        * inversion Et; subst r2. exists []. auto.
        * inversion Hx; subst e1'. destruct (e1 =? 123); [destruct (starts_with 126 r3); discriminate|].
          inversion Et; subst r2. exists (e1 :: r3'). cbn. auto.
      + inversion Et; subst r2. exists x'. split; [reflexivity|]. split; apply Hs. }
    destruct Ht as (r2' & Et' & H10 & H13). rewrite Et', H10, H13. split; reflexivity.
Qed.

Lemma dep_le d x lk n : is_dp d = true ->
  (m_heredoc_eol (d :: x) = Some (lk, n) \/ m_heredoc_mid (d :: x) = Some (lk, n)) ->
  (dep (d :: x) <= Nat.max 1 n + 2)%nat /\ tmpl_not_seq' (d :: x) <> TNo.
Proof.
  intros Hd H. unfold dep, m_heredoc_eol, m_heredoc_mid in *. rewrite !tmpl_not_seq_eq in H.
  destruct (tmpl_not_seq' (d :: x)) as [n0|r2|] eqn:Et.
  - split; [|discriminate]. destruct H as [H|H].
    + destruct (newline_len _); [discriminate|]. unfold same in H. inversion H. lia.
    + unfold same in H. inversion H. lia.
  - split; [|discriminate]. destruct H as [H|H].
    + destruct (starts_with 10 r2); [|discriminate]. inversion H. lia.
    + destruct (starts_with 13 r2); unfold same in H; inversion H; lia.
  - exfalso. assert (Hp : plain_ok d = false) by (unfold plain_ok; rewrite Hd; apply andb_false_r).
    cbv zeta in H. cbn [span_chars] in H. rewrite Hp in H. cbn [skipn] in H.
    assert (Hn : newline_len (d :: x) = O).
    { unfold newline_len. destruct (is_dp_cases d Hd) as [-> | ->]; reflexivity. }
    rewrite Hn in H. destruct H; discriminate.
Qed.

Lemma plain_ok_facts c : plain_ok c = true ->
  is_dp c = false /\ (c =? 36) = false /\ (c =? 37) = false /\ is_nlchar c = false.
Proof.
  unfold plain_ok. intro H. apply andb_true_iff in H. destruct H as [H1 H2].
  apply negb_true_iff in H1, H2. unfold is_dp in H2. pose proof H2 as H2'. apply orb_false_iff in H2'. tauto.
Qed.

Lemma heredoc_pick_stable (st : hstate) r lk n b t e st' t' :
  b <> [] ->
  pick rules_heredoc (b ++ t) None = Some (r, lk, n) ->
  b = firstn (Nat.max 1 n) (b ++ t) ->
  r_act r st b = Some (e, st') -> emits_clean e ->
  (t = [] -> t' = []) ->
  (e = EOne TokenStringLit -> firstn 2 t = firstn 2 t') ->
  (e = EOne TokenStringLit -> spc t 0 0 = O ->
     t = [] \/ exists c y, t = c :: y /\ plain_ok c = false) ->
  ((e = EOne TokenTemplateInterp \/ e = EOne TokenTemplateControl) ->
     forall d, b = [d; 123] -> starts_with 126 t' = false) ->
  (forall t1 k t2, e = ETwo t1 k t2 -> exists c b', b = c :: b' /\ is_dp c = false) ->
  pick rules_heredoc (b ++ t') None = Some (r, lk, n).
Proof.
  intros Hne Hp Hb Ha Hok Ht Hag Hhard Hopen Htwo.
  destruct t as [|t0 t1].
  { rewrite (Ht eq_refl). exact Hp. }
  assert (Hlen : length b = Nat.max 1 n) by (eapply firstn_app_len; [exact Hb|discriminate]).
  clear Ht Hb.
  rewrite <- Hp. symmetry. apply pick_ext.
  pose proof (pick_max _ _ _ _ _ _ Hp) as [_ Hmax].
  pose proof Hp as Hp2. apply pick_spec in Hp2. destruct Hp2 as [Hx|(Hin & Hm & Hlk)]; [discriminate|].
  destruct b as [|c b']; [contradiction|]. cbn [app] in *. clear Hne.
  unfold rules_heredoc in Hin; cbn [In] in Hin.
  (* the two openers *)
  assert (Hopener : forall d ty, (d = 36 \/ d = 37) -> (ty = TokenTemplateInterp \/ ty = TokenTemplateControl) ->
            r = R (m_tmpl_open d) (a_begin_tmpl ty) ->
            forall r', In r' rules_heredoc -> r_match r' (c :: b' ++ t0 :: t1) = r_match r' (c :: b' ++ t')).
  { intros d ty Hd Hty -> r' Hin'. unfold R in Hm. cbn [r_match] in Hm. rewrite m_tmpl_open_eq in Hm.
    assert (Hoe : e = EOne TokenTemplateInterp \/ e = EOne TokenTemplateControl).
    { unfold R in Ha. cbn [r_act] in Ha. unfold a_begin_tmpl in Ha. inversion Ha. destruct Hty as [-> | ->]; auto. }
    specialize (Hopen Hoe).
    destruct b' as [|c1 b''].
    { exfalso. cbn [app m_tmpl_open'] in Hm. destruct ((t0 =? 123) && (c =? d)); [|discriminate].
      cbn [length] in Hlen. destruct (starts_with 126 t1); unfold same in Hm; inversion Hm; subst; simpl in Hlen; lia. }
    cbn [app m_tmpl_open'] in Hm.
    destruct ((c1 =? 123) && (c =? d)) eqn:E; [|discriminate].
    apply andb_true_iff in E. destruct E as [E1 E2]. apply Z.eqb_eq in E1, E2. subst c1 c.
    destruct (starts_with 126 (b'' ++ t0 :: t1)) eqn:Es; unfold same in Hm; inversion Hm; subst lk n; cbn [length Nat.max] in Hlen.
    - destruct b'' as [|c2 [|c3 b3]]; simpl in Hlen; try lia. cbn [app starts_with] in Es. apply Z.eqb_eq in Es. subst c2.
      cbn [app]. destruct Hd as [-> | ->]; each_heredoc_rule Hin' ltac:(first
        [ rewrite !m_tmpl_open_eq; reflexivity
        | rewrite !eol_open by reflexivity; reflexivity | rewrite !mid_open by reflexivity; reflexivity | agree_s ]).
    - destruct b'' as [|c2 b3]; simpl in Hlen; try lia. cbn [app] in *.
      specialize (Hopen d eq_refl).
      destruct Hd as [-> | ->]; each_heredoc_rule Hin' ltac:(first
        [ rewrite !m_tmpl_open_eq; unfold m_tmpl_open'; cbn [Z.eqb andb]; rewrite Es, Hopen; reflexivity
        | rewrite !m_tmpl_open_eq; reflexivity
        | rewrite !eol_open by reflexivity; reflexivity | rewrite !mid_open by reflexivity; reflexivity | agree_s ]). }
  destruct Hin as [<-|Hin]; [eapply Hopener; [left; reflexivity|left; reflexivity|reflexivity]|].
  destruct Hin as [<-|Hin]; [eapply Hopener; [right; reflexivity|right; reflexivity|reflexivity]|].
  clear Hopener.
  (* the two literal rules: common part *)
  assert (Hlit : (m_heredoc_eol (c :: b' ++ t0 :: t1) = Some (lk, n) \/ m_heredoc_mid (c :: b' ++ t0 :: t1) = Some (lk, n)) ->
            (is_dp c = true -> e = EOne TokenStringLit) ->
            (e = EOne TokenStringLit \/ (spc (c :: b' ++ t0 :: t1) 0 0 < length (c :: b'))%nat) ->
            forall r', In r' rules_heredoc -> r_match r' (c :: b' ++ t0 :: t1) = r_match r' (c :: b' ++ t')).
  { intros Hwin Hdpe Hcase r' Hin'.
    destruct (is_dp c) eqn:Edp.
    - (* decided by a short prefix *)
      specialize (Hag (Hdpe eq_refl)).
      destruct (dep_le c _ lk n Edp Hwin) as [Hdep Hnot].
      assert (Hpre : firstn (length (c :: b') + 2) ((c :: b') ++ t0 :: t1) = firstn (length (c :: b') + 2) ((c :: b') ++ t'))
        by (apply firstn_app2; exact Hag).
      cbn [app] in Hpre.
      destruct (dp_prefix_agree (c :: b' ++ t0 :: t1) (c :: b' ++ t')) as [He1 He2]; [|exact Hnot|].
      { eapply firstn_le_eq; [exact Hpre|]. rewrite Hlen. exact Hdep. }
      assert (H3 : firstn 3 (c :: b' ++ t0 :: t1) = firstn 3 (c :: b' ++ t')).
      { eapply firstn_le_eq; [exact Hpre|]. simpl. lia. }
      each_heredoc_rule Hin' ltac:(first
        [ apply tmpl_open_prefix; exact H3 | exact He1 | exact He2 | reflexivity ]).
    - (* a run of ordinary characters *)
      assert (Hnew : spc (c :: b' ++ t') 0 0 = spc (c :: b' ++ t0 :: t1) 0 0 /\
                     newline_len (skipn (spc (c :: b' ++ t0 :: t1) 0 0) (c :: b' ++ t')) =
                     newline_len (skipn (spc (c :: b' ++ t0 :: t1) 0 0) (c :: b' ++ t0 :: t1))).
      { rewrite (eol_nodp c _ Edp), (mid_nodp c _ Edp) in Hwin. cbv zeta in Hwin.
        set (k := spc (c :: b' ++ t0 :: t1) 0 0) in *.
        destruct Hwin as [Hw|Hw].
        + (* the newline lies inside the token *)
          destruct (newline_len (skipn k (c :: b' ++ t0 :: t1))) as [|nl'] eqn:En; [discriminate|].
          unfold same in Hw. inversion Hw; subst lk n.
          replace (Nat.max 1 (k + S nl')) with (k + S nl')%nat in Hlen by lia.
          destruct (line_inside (c :: b') (t0 :: t1) k (S nl') eq_refl En ltac:(discriminate) ltac:(lia) t') as [H1 H2].
          cbn [app] in H1, H2. rewrite H1, H2. split; reflexivity.
        + (* the run ends where the token ends *)
          destruct k as [|k'] eqn:Ek; [discriminate|]. unfold same in Hw. inversion Hw; subst lk n.
          replace (Nat.max 1 (S k')) with (S k') in Hlen by lia.
          destruct Hcase as [Hes|Hlt]; [|cbn [length] in *; lia].
          specialize (Hag Hes). specialize (Hhard Hes).
          assert (H0 : spc (t0 :: t1) 0 0 = O).
          { apply (sc_cont (c :: b') (t0 :: t1) 0 0 ltac:(lia)). cbn [app]. fold k. rewrite Ek, Hlen. reflexivity. }
          destruct (Hhard H0) as [Hx|(c0 & y & Ey & Hc0)]; [discriminate|]. inversion Ey; subst c0 y.
          assert (Ht' : exists y', t' = t0 :: y').
          { destruct t' as [|a y']; [cbn in Hag; discriminate|]. cbn in Hag. destruct t1, y'; inversion Hag; eauto. }
          destruct Ht' as (y' & ->).
          assert (Hst : sc_stop (t0 :: y')) by (apply sc_stop_hard; exact Hc0).
          assert (H1 : spc (c :: b' ++ t0 :: y') 0 0 = S k').
          { rewrite <- Hlen. apply (sc_app (c :: b') (t0 :: t1) 0 0 ltac:(lia)); [cbn [app]; fold k; rewrite Ek, Hlen; reflexivity|exact Hst]. }
          split; [exact H1|].
          assert (Hsk : forall u, skipn (S k') (c :: b' ++ u) = u).
          { intro u. change (c :: b' ++ u) with ((c :: b') ++ u). rewrite skipn_app.
            rewrite skipn_all2 by lia. replace (S k' - length (c :: b'))%nat with O by lia. reflexivity. }
          rewrite !Hsk. apply newline_len_firstn2. symmetry. exact Hag. }
      destruct Hnew as [Hn1 Hn2].
      assert (E36 : (c =? 36) = false /\ (c =? 37) = false) by (unfold is_dp in Edp; apply orb_false_iff in Edp; exact Edp).
      destruct E36 as [E36 E37].
      each_heredoc_rule Hin' ltac:(first
        [ rewrite !gs_open by assumption; reflexivity
        | rewrite !(eol_nodp c _ Edp); cbv zeta; rewrite Hn1, Hn2; reflexivity
        | rewrite !(mid_nodp c _ Edp); rewrite Hn1; reflexivity
        | reflexivity ]). }
  destruct Hin as [<-|Hin].
  { (* a line or the rest of a line up to its newline *)
    cbn [r_act R] in Ha. destruct (a_heredoc_eol_emit _ _ _ _ Ha) as [(k2 & He)|He].
    - (* the closing line *)
      destruct (Htwo _ _ _ He) as (c0 & b0 & Eb & Hc0). inversion Eb; subst c0 b0.
      apply Hlit.
      + left. exact Hm.
      + intro Hx. congruence.
      + right. unfold R in Hm. cbn [r_match] in Hm. rewrite (eol_nodp c _ Hc0) in Hm. cbv zeta in Hm.
        set (k := spc (c :: b' ++ t0 :: t1) 0 0) in *.
        destruct (newline_len _) as [|nl']; [discriminate|]. unfold same in Hm. inversion Hm; subst lk n.
        rewrite Hlen. lia.
    - apply Hlit; [left; exact Hm|intros _; exact He|left; exact He]. }
  destruct Hin as [<-|Hin].
  { cbn [r_act R] in Ha. pose proof (a_heredoc_mid_emit _ _ _ _ Ha) as He.
    apply Hlit; [right; exact Hm|intros _; exact He|left; exact He]. }
  destruct Hin as [<-|Hin]; [unclean_s Ha Hok|].
  destruct Hin.
Qed.

(* ---- heredoc markers ---------------------------------------------------------------------------- *)

(* a marker never starts with '$' or '%' *)
Definition mk_ok (m : list Z) : Prop := match m with c :: _ => is_dp c = false | [] => False end.
Definition mkinv (st : hstate) : Prop := Forall (fun h => mk_ok (h_marker h)) (l_hdocs st).

Lemma first_prefix_some : forall ps s n, first_prefix ps s = Some n ->
  exists p, In p ps /\ is_prefix p s = true /\ n = length p.
Proof.
  induction ps as [|p ps IH]; intros s n H; cbn [first_prefix] in H; [discriminate|].
  destruct (is_prefix p s) eqn:E.
  - inversion H; subst. exists p. split; [left; reflexivity|auto].
  - destruct (IH _ _ H) as (q & Hq & H1 & H2). exists q. split; [right; exact Hq|auto].
Qed.

Lemma is_prefix_notin (d : Z) : forall p l, is_prefix p (l ++ [d]) = true -> ~ In d p -> (length p <= length l)%nat.
Proof.
  induction p as [|a p IH]; intros l H Hn; [simpl; lia|].
  destruct l as [|c l].
  - exfalso. cbn in H. apply andb_true_iff in H. destruct H as [H _]. apply Z.eqb_eq in H. subst a.
    apply Hn. left. reflexivity.
  - cbn [app is_prefix] in H. apply andb_true_iff in H. destruct H as [_ H].
    apply IH in H; [simpl; lia|]. intro Hx. apply Hn. right. exact Hx.
Qed.

Lemma trim_left_keep_last (d : Z) ps : Forall (fun p => ~ In d p) ps ->
  forall l skip, (skip <= length l)%nat -> exists l', trim_left ps (l ++ [d]) skip = l' ++ [d].
Proof.
  intros Hps. induction l as [|c l IH]; intros skip Hk.
  - destruct skip; [|simpl in Hk; lia]. cbn [app trim_left].
    destruct (first_prefix ps [d]) as [[|a]|] eqn:E; try (exists []; reflexivity).
    exfalso. destruct (first_prefix_some _ _ _ E) as (p & Hp & Hpre & Hl).
    rewrite Forall_forall in Hps. pose proof (is_prefix_notin d p [] Hpre (Hps p Hp)). simpl in *. lia.
  - cbn [app trim_left]. destruct skip as [|k].
    + destruct (first_prefix ps (c :: l ++ [d])) as [[|a]|] eqn:E; try (exists (c :: l); reflexivity).
      destruct (first_prefix_some _ _ _ E) as (p & Hp & Hpre & Hl).
      rewrite Forall_forall in Hps.
      pose proof (is_prefix_notin d p (c :: l) Hpre (Hps p Hp)). simpl in *. apply IH. lia.
    + apply IH. simpl in Hk. lia.
Qed.

Definition notin_all (d : Z) (ps : list (list Z)) : bool :=
  forallb (fun p => negb (existsb (Z.eqb d) p)) ps.

Lemma notin_all_ok d ps : notin_all d ps = true -> Forall (fun p => ~ In d p) ps.
Proof.
  unfold notin_all. rewrite forallb_forall, Forall_forall. intros H p Hp Hin.
  specialize (H p Hp). apply negb_true_iff in H.
  assert (X : existsb (Z.eqb d) p = true) by (apply existsb_exists; exists d; split; [exact Hin|apply Z.eqb_refl]).
  congruence.
Qed.

Lemma trim_dp d x : is_dp d = true -> exists y, trim_space (d :: x) = d :: y.
Proof.
  intro Hd. unfold trim_space.
  assert (H1 : trim_left space_seqs (d :: x) 0 = d :: x).
  { cbn [trim_left]. destruct (is_dp_cases d Hd) as [-> | ->].
    - replace (first_prefix space_seqs (36 :: x)) with (@None nat) by (vm_compute; reflexivity). reflexivity.
    - replace (first_prefix space_seqs (37 :: x)) with (@None nat) by (vm_compute; reflexivity). reflexivity. }
  rewrite H1. cbn [rev].
  assert (Hps : Forall (fun p => ~ In d p) (map (@rev Z) space_seqs)).
  { apply notin_all_ok. destruct (is_dp_cases d Hd) as [-> | ->]; vm_compute; reflexivity. }
  destruct (trim_left_keep_last d _ Hps (rev x) 0 ltac:(lia)) as (l' & ->).
  rewrite rev_app_distr. cbn. eauto.
Qed.

Lemma close_not_dp (st : hstate) b t1 k t2 st' :
  mkinv st -> a_heredoc_eol st b = Some (ETwo t1 k t2, st') -> b <> [] ->
  exists c b', b = c :: b' /\ is_dp c = false.
Proof.
  intros Hmk Ha Hne. unfold a_heredoc_eol in Ha. destruct (l_hdocs st) as [|top rest] eqn:Eh; [discriminate|].
  destruct (h_sol top && zlist_eqb (trim_space b) (h_marker top)) eqn:E; [|discriminate].
  apply andb_true_iff in E. destruct E as [_ E]. apply zlist_eqb_eq in E.
  unfold mkinv in Hmk. rewrite Eh in Hmk. inversion Hmk as [|? ? Hm _]; subst.
  destruct b as [|c b']; [contradiction|]. exists c, b'. split; [reflexivity|].
  destruct (is_dp c) eqn:Ec; [|reflexivity]. exfalso.
  destruct (trim_dp c b' Ec) as (y & Ey). rewrite Ey in E. rewrite <- E in Hm. cbn in Hm. congruence.
Qed.

Lemma heredoc_begin_decomp b t : m_heredoc_begin (b ++ t) = same (length b) ->
  exists dash ic ib nb, b = 60 :: 60 :: dash ++ (ic :: ib) ++ nb /\
    ((dash = [] /\ ic <> 45) \/ dash = [45]) /\ ident_len ((ic :: ib) ++ nb ++ t) = S (length ib) /\
    (nb = [10] \/ nb = [13; 10]).
Proof.
  intro H. destruct (heredoc_begin_hd b t _ H eq_refl) as (b2 & ->).
  cbn [app length] in *. unfold m_heredoc_begin in *. cbn [Z.eqb andb] in *. cbv zeta in *.
  destruct b2 as [|x b3].
  { exfalso. cbn [app] in H. destruct (ident_len _); [discriminate|]. destruct (newline_len _); [discriminate|].
    unfold same in H. inversion H. lia. }
  cbn [app starts_with] in *.
  set (d := if x =? 45 then 1%nat else O) in *.
  assert (Hsk : forall u, skipn d (x :: b3 ++ u) = skipn d (x :: b3) ++ u).
  { intro u. unfold d. destruct (x =? 45); reflexivity. }
  rewrite Hsk in *. set (b4 := skipn d (x :: b3)) in *.
  assert (Hb4 : length b4 = (S (length b3) - d)%nat) by (unfold b4; rewrite skipn_length; reflexivity).
  assert (Hd : (d <= 1)%nat) by (unfold d; destruct (x =? 45); lia).
  destruct (ident_len (b4 ++ t)) as [|k'] eqn:Ek; [discriminate|].
  destruct (newline_len (skipn (S k') (b4 ++ t))) as [|nl'] eqn:En; [discriminate|].
  unfold same in H. assert (Hn : (2 + d + S k' + S nl' = S (S (S (length b3))))%nat) by (inversion H; reflexivity).
  assert (Hk : (S k' <= length b4)%nat) by lia.
  rewrite skipn_app in En. replace (S k' - length b4)%nat with O in En by lia. rewrite skipn_O in En.
  set (ib := firstn (S k') b4). set (nb := skipn (S k') b4) in *.
  assert (Hsplit : b4 = ib ++ nb) by (symmetry; apply firstn_skipn).
  assert (Hib : length ib = S k') by (unfold ib; rewrite firstn_length; lia).
  assert (Hnb : length nb = S nl') by (unfold nb; rewrite skipn_length; lia).
  assert (Hnbv : nb = [10] \/ nb = [13; 10]).
  { destruct (newline_len_inv (nb ++ t) ltac:(rewrite En; discriminate)) as [[(y & Ey) E1]|[(y & Ey) E2]].
    - rewrite En in E1. inversion E1; subst nl'. destruct nb as [|c1 [|c2 nb']]; simpl in Hnb; try lia.
      cbn [app] in Ey. inversion Ey; subst c1. left. reflexivity.
    - rewrite En in E2. inversion E2; subst nl'. destruct nb as [|c1 [|c2 [|c3 nb']]]; simpl in Hnb; try lia.
      cbn [app] in Ey. inversion Ey; subst c1 c2. right. reflexivity. }
  assert (Hib2 : exists ic ib', ib = ic :: ib').
  { destruct ib as [|ic ib'] eqn:Eib; [simpl in Hib; lia|]. eauto. }
  destruct Hib2 as (ic & ib' & Eib). clearbody ib nb. subst ib.
  exists (firstn d (x :: b3)), ic, ib', nb.
  split.
  { f_equal. f_equal. change (ic :: ib' ++ nb) with ((ic :: ib') ++ nb). rewrite <- Hsplit. unfold b4. symmetry. apply firstn_skipn. }
  split.
  { unfold d in *. destruct (x =? 45) eqn:E45.
    - right. apply Z.eqb_eq in E45. subst x. reflexivity.
    - left. split; [reflexivity|]. cbn [skipn] in b4. subst b4. cbn [app] in Hsplit. inversion Hsplit; subst ic.
      apply Z.eqb_neq. exact E45. }
  split; [|exact Hnbv].
  rewrite Hsplit, <- app_assoc in Ek. simpl in Hib. inversion Hib as [H1]. rewrite H1. exact Ek.
Qed.

Lemma removelast_app_single {A} (l : list A) a : removelast (l ++ [a]) = l.
Proof. apply removelast_last. Qed.

Lemma begin_marker_ok b t m : m_heredoc_begin (b ++ t) = same (length b) ->
  heredoc_marker b = Some m -> mk_ok m.
Proof.
  intros H Hmk. destruct (heredoc_begin_decomp b t H) as (dash & ic & ib & nb & -> & Hdash & Hid & Hnb).
  assert (Hic : is_dp ic = false).
  { pose proof (ident_first_ne ic (ib ++ nb ++ t)) as F. cbn [app] in Hid. rewrite Hid in F.
    specialize (F ltac:(discriminate)). destruct (nonident_facts ic F) as (_ & _ & _ & Fk).
    unfold is_dp. rewrite (existsb_false_ne ic nonident 36 F), (existsb_false_ne ic nonident 37 F); [reflexivity|..];
      unfold nonident; cbn [In]; tauto. }
  assert (Hic13 : ic <> 13).
  { intro E. subst ic. cbn [app] in Hid. vm_compute in Hic. pose proof (ident_first_ne 13 (ib ++ nb ++ t)) as F.
    rewrite Hid in F. specialize (F ltac:(discriminate)). vm_compute in F. discriminate. }
  unfold heredoc_marker in Hmk. cbn [skipn] in Hmk.
  (* removelast of the part after "<<" *)
  assert (Hrl : exists rn, (rn = [] \/ rn = [13]) /\ removelast (dash ++ (ic :: ib) ++ nb) = dash ++ (ic :: ib) ++ rn).
  { destruct Hnb as [-> | ->].
    - exists []. split; [left; reflexivity|]. rewrite app_nil_r, app_assoc. apply removelast_last.
    - exists [13]. split; [right; reflexivity|].
      change [13; 10] with ([13] ++ [10]). rewrite !app_assoc. rewrite removelast_last. rewrite <- app_assoc. reflexivity. }
  destruct Hrl as (rn & Hrn & Erl). rewrite Erl in Hmk.
  assert (Hm1 : exists rest, m = ic :: rest).
  { assert (X : forall m1, m1 = ic :: ib ++ rn ->
       Some (if last m1 0 =? 13 then removelast m1 else m1) = Some m -> exists rest, m = ic :: rest).
    { intros m1 -> Hx. destruct (last (ic :: ib ++ rn) 0 =? 13) eqn:El; inversion Hx; [|eauto].
      destruct (ib ++ rn) as [|c2 l2] eqn:E2.
      - exfalso. cbn in El. apply Z.eqb_eq in El. contradiction.
      - cbn [removelast]. eauto. }
    destruct Hdash as [[-> Hn45]| ->]; cbn [app] in Hmk.
    - apply Z.eqb_neq in Hn45. rewrite Hn45 in Hmk. eapply X; [reflexivity|exact Hmk].
    - change (45 =? 45) with true in Hmk. cbv iota in Hmk. eapply X; [reflexivity|exact Hmk]. }
  destruct Hm1 as (rest & ->). exact Hic.
Qed.

(* ---- the closing line of a heredoc ------------------------------------------------------------------ *)

Lemma eol_line_last c b' t lk n : is_dp c = false ->
  m_heredoc_eol ((c :: b') ++ t) = Some (lk, n) -> length (c :: b') = n -> last (c :: b') 0 = 10.
Proof.
  intros Hc Hm Hl. cbn [app] in Hm. rewrite (eol_nodp c _ Hc) in Hm. cbv zeta in Hm.
  set (k := spc (c :: b' ++ t) 0 0) in *.
  destruct (newline_len (skipn k (c :: b' ++ t))) as [|nl'] eqn:En; [discriminate|].
  unfold same in Hm. inversion Hm; subst lk n.
  set (b := c :: b') in *. change (c :: b' ++ t) with (b ++ t) in *.
  assert (Hsk : skipn k (b ++ t) = skipn k b ++ t).
  { rewrite skipn_app. replace (k - length b)%nat with O by lia. rewrite skipn_O. reflexivity. }
  rewrite Hsk in En. set (nb := skipn k b) in *.
  assert (Hnb : length nb = S nl') by (unfold nb; rewrite skipn_length; lia).
  assert (Hb : b = firstn k b ++ nb) by (symmetry; apply firstn_skipn).
  rewrite Hb.
  destruct (newline_len_inv (nb ++ t) ltac:(rewrite En; discriminate)) as [[(y & Ey) E1]|[(y & Ey) E2]].
  - rewrite En in E1. inversion E1; subst nl'. destruct nb as [|c1 [|c2 nb']]; simpl in Hnb; try lia.
    cbn [app] in Ey. inversion Ey; subst c1. apply last_last.
  - rewrite En in E2. inversion E2; subst nl'. destruct nb as [|c1 [|c2 [|c3 nb']]]; simpl in Hnb; try lia.
    cbn [app] in Ey. inversion Ey; subst c1 c2. change [13; 10] with ([13] ++ [10]). rewrite app_assoc. apply last_last.
Qed.

(* the Newline token split off the closing line *)
Lemma close_tok2 (b : list Z) : b <> [] -> last b 0 = 10 ->
  let k := if last (removelast b) 0 =? 13 then 2%nat else 1%nat in
  skipn (length b - k) b = [10] \/ skipn (length b - k) b = [13; 10].
Proof.
  intros Hne Hl. cbv zeta. pose proof (app_removelast_last 0 Hne) as Hb. rewrite Hl in Hb.
  set (rl := removelast b) in *. destruct (last rl 0 =? 13) eqn:E.
  - right. apply Z.eqb_eq in E.
    assert (Hr : rl <> []) by (intro Hx; rewrite Hx in E; discriminate E).
    pose proof (app_removelast_last 0 Hr) as Hr2. rewrite E in Hr2.
    rewrite Hb, Hr2, <- app_assoc. cbn [app]. rewrite app_length. cbn [length].
    replace (length (removelast rl) + 2 - 2)%nat with (length (removelast rl) + 0)%nat by lia.
    rewrite skipn_app, skipn_all2 by lia. replace (length (removelast rl) + 0 - length (removelast rl))%nat with O by lia. reflexivity.
  - left. rewrite Hb at 2. rewrite Hb at 1. rewrite app_length. cbn [length].
    replace (length rl + 1 - 1)%nat with (length rl + 0)%nat by lia.
    rewrite skipn_app, skipn_all2 by lia. replace (length rl + 0 - length rl)%nat with O by lia. reflexivity.
Qed.

(* the closing line has at least two bytes *)
Lemma close_len2 (st : hstate) b t1 k t2 st' :
  mkinv st -> a_heredoc_eol st b = Some (ETwo t1 k t2, st') -> last b 0 = 10 -> (2 <= length b)%nat.
Proof.
  intros Hmk Ha Hl. destruct b as [|c [|c2 b']]; [discriminate Hl| |simpl; lia].
  exfalso. cbn in Hl. subst c.
  unfold a_heredoc_eol in Ha. destruct (l_hdocs st) as [|top rest] eqn:Eh; [discriminate|].
  destruct (h_sol top && zlist_eqb (trim_space [10]) (h_marker top)) eqn:E; [|discriminate].
  apply andb_true_iff in E. destruct E as [_ E]. apply zlist_eqb_eq in E.
  unfold mkinv in Hmk. rewrite Eh in Hmk. inversion Hmk as [|? ? Hm _]; subst.
  assert (Et : trim_space [10] = []) by (vm_compute; reflexivity). rewrite Et in E. rewrite <- E in Hm. exact Hm.
Qed.

(* ==== 5. steps of the three scanners; re-spacing with templates; layout => relex ===== *)

(* token types that only the string / heredoc scanners emit (lexed without skipping blanks) *)

(* the fragment without heredocs *)

Definition okm (m : hmode) : Prop := m = MMain \/ m = MString \/ m = MHeredoc.
Definition okmodes (st : hstate) : Prop := Forall okm (l_cur st :: l_stack st).
Definition Inv (st : hstate) : Prop := hinv st /\ okmodes st /\ mkinv st.

Lemma nohd_ty_inv t : nohd_ty t = true -> clean_ty t = true /\ t <> TokenOHeredoc.
Proof.
  unfold nohd_ty. intro H. apply andb_true_iff in H. destruct H as [H1 H2].
  apply negb_true_iff in H2. apply Z.eqb_neq in H2. auto.
Qed.

Lemma okmodes_fcall m (st : hstate) : okm m -> okmodes st -> okmodes (fcall m st).
Proof. intros Hm H. unfold okmodes, fcall. cbn. constructor; assumption. Qed.

Lemma okmodes_fret (st st' : hstate) : fret st = Some st' -> okmodes st -> okmodes st'.
Proof.
  unfold fret, okmodes. destruct (l_stack st) as [|m r] eqn:E; [discriminate|]. intro H. inversion H; subst.
  cbn. intro Ho. inversion Ho; subst. assumption.
Qed.

Lemma okmodes_same (st st' : hstate) : l_cur st' = l_cur st -> l_stack st' = l_stack st -> okmodes st -> okmodes st'.
Proof. unfold okmodes. intros -> ->. auto. Qed.

Lemma mkinv_same (st st' : hstate) : l_hdocs st' = l_hdocs st -> mkinv st -> mkinv st'.
Proof. unfold mkinv. intros ->. auto. Qed.

Lemma fret_hdocs (st st' : hstate) : fret st = Some st' -> l_hdocs st' = l_hdocs st.
Proof. unfold fret. destruct (l_stack st); [discriminate|]. intro H. inversion H. reflexivity. Qed.

Lemma set_top_sol_markers v (st st' : hstate) : set_top_sol v st = Some st' ->
  map h_marker (l_hdocs st') = map h_marker (l_hdocs st) /\ l_cur st' = l_cur st /\ l_stack st' = l_stack st.
Proof.
  unfold set_top_sol. destruct (l_hdocs st) as [|h r] eqn:E; [discriminate|]. intro H. inversion H; subst. cbn.
  auto.
Qed.

Lemma mkinv_markers (st st' : hstate) : map h_marker (l_hdocs st') = map h_marker (l_hdocs st) -> mkinv st -> mkinv st'.
Proof.
  unfold mkinv. intros H Hm. rewrite Forall_forall in *. intros h Hh.
  assert (In (h_marker h) (map h_marker (l_hdocs st))) by (rewrite <- H; apply in_map; exact Hh).
  apply in_map_iff in H0. destruct H0 as (h0 & E & Hh0). rewrite <- E. apply Hm. exact Hh0.
Qed.

Definition mode3 (st : hstate) : Prop := l_cur st = MMain \/ l_cur st = MString \/ l_cur st = MHeredoc.

Lemma okmodes_mode3 (st : hstate) : okmodes st -> mode3 st.
Proof. intro H. inversion H; subst. assumption. Qed.

(* types after which the scanner is inside a template *)
Definition tl_before : list Z :=
  [TokenOQuote; TokenQuotedLit; TokenTemplateSeqEnd; TokenOHeredoc; TokenStringLit].

(* ---- one step of the main scanner, any state ------------------------------------------------ *)

Lemma self_not_tl c : existsb (Z.eqb c) self_chars = true -> tl_ty c = false.
Proof.
  intro H. apply self_chars_cases in H. unfold self_chars in H. cbn [In] in H.
  repeat (destruct H as [<-|H]; [reflexivity|]). destruct H.
Qed.

Lemma heredoc_begin_bound s n : m_heredoc_begin s = Some (n, n) -> (n <= length s)%nat /\ (1 <= n)%nat.
Proof.
  unfold m_heredoc_begin. destruct s as [|c0 [|c1 r]]; try discriminate.
  destruct ((c0 =? 60) && (c1 =? 60)); [|discriminate]. cbv zeta.
  set (d := if starts_with 45 r then 1%nat else O). set (r1 := skipn d r).
  destruct (ident_len r1) as [|k'] eqn:Ek; [discriminate|].
  destruct (newline_len (skipn (S k') r1)) as [|nl'] eqn:En; [discriminate|].
  unfold same. intro H. assert (Hn : n = (2 + d + S k' + S nl')%nat) by (inversion H; reflexivity).
  pose proof (ident_len_le r1) as Hk. rewrite Ek in Hk.
  pose proof (newline_len_le (skipn (S k') r1)) as Hnl. rewrite En in Hnl. rewrite skipn_length in Hnl.
  assert (Hr1 : length r1 = (length r - d)%nat) by (unfold r1; apply skipn_length).
  cbn [length]. lia.
Qed.

Lemma main_step3 (st : hstate) r s lk n e st' :
  Inv st -> l_cur st = MMain -> In r rules_main -> r_match r s = Some (lk, n) ->
  r_act r st (firstn (Nat.max 1 n) s) = Some (e, st') -> e <> ENone ->
  exists ty, e = EOne ty /\ tl_ty ty = false /\ okmodes st' /\ mkinv st' /\
             (l_cur st' <> MMain -> In ty tl_before).
Proof.
  intros (Hh & Ho & Hmk) Hc Hin Hm Ha He.
  assert (Keep : forall ty, e = EOne ty -> tl_ty ty = false -> l_cur st' = l_cur st -> l_stack st' = l_stack st ->
            l_hdocs st' = l_hdocs st ->
            exists ty0, e = EOne ty0 /\ tl_ty ty0 = false /\ okmodes st' /\ mkinv st' /\
                        (l_cur st' <> MMain -> In ty0 tl_before)).
  { intros ty -> Ht Hc' Hk Hd. exists ty. split; [reflexivity|]. split; [exact Ht|]. split.
    - eapply okmodes_same; eassumption.
    - split; [eapply mkinv_same; eassumption|]. rewrite Hc', Hc. intro X. contradiction. }
  unfold rules_main, rule_spaces in Hin; cbn [In] in Hin.
  do 19 (destruct Hin as [<-|Hin];
    [ cbn [r_act R] in Ha;
      first
        [ unfold a_skip in Ha; inversion Ha; subst; contradiction
        | unfold a_tok in Ha; inversion Ha; subst; eapply Keep; reflexivity
        | cbn [r_match R] in Hm; apply m_self_inv in Hm; destruct Hm as (-> & -> & c0 & y0 & -> & Hself);
          unfold a_self in Ha; simpl in Ha; inversion Ha; subst;
          eapply Keep; [reflexivity|apply self_not_tl; exact Hself|reflexivity|reflexivity|reflexivity]
        | unfold a_open_brace in Ha; inversion Ha; subst; eapply Keep; reflexivity
        | unfold a_close in Ha; destruct (ret_matches st);
          [ destruct (fret _) as [st1|] eqn:Ef; [|discriminate]; inversion Ha; subst;
            exists TokenTemplateSeqEnd; split; [reflexivity|]; split; [reflexivity|];
            split; [eapply okmodes_fret; [exact Ef|eapply okmodes_same; [| |exact Ho]; reflexivity]|];
            split; [eapply mkinv_same; [|exact Hmk]; rewrite (fret_hdocs _ _ Ef); reflexivity|];
            intro; unfold tl_before; cbn [In]; tauto
          | inversion Ha; subst; eapply Keep; reflexivity ]
        | unfold a_begin_string in Ha; inversion Ha; subst;
          exists TokenOQuote; split; [reflexivity|]; split; [reflexivity|];
          split; [apply okmodes_fcall; [right; left; reflexivity|exact Ho]|];
          split; [exact Hmk|]; intro; unfold tl_before; cbn [In]; tauto ]
    |]).
  (* the heredoc opener *)
  destruct Hin as [<-|Hin].
  2:{ repeat (destruct Hin as [<-|Hin];
        [cbn [r_act R] in Ha; unfold a_tok in Ha; inversion Ha; subst; eapply Keep; reflexivity|]). destruct Hin. }
  cbn [r_act R r_match] in Ha, Hm. pose proof (m_heredoc_begin_same _ _ _ Hm) as ->.
  destruct (heredoc_begin_bound _ _ Hm) as [Hb1 Hb2].
  unfold a_begin_heredoc in Ha. destruct (heredoc_marker _) as [m|] eqn:Emk; [|discriminate].
  inversion Ha; subst e st'. exists TokenOHeredoc. split; [reflexivity|]. split; [reflexivity|].
  split; [apply okmodes_fcall; [right; right; reflexivity|eapply okmodes_same; [| |exact Ho]; reflexivity]|].
  split; [|intro; unfold tl_before; cbn [In]; tauto].
  unfold mkinv. cbn. constructor; [|exact Hmk]. cbn.
  replace (Nat.max 1 n) with n in Emk by lia.
  apply (begin_marker_ok (firstn n s) (skipn n s)); [|exact Emk].
  rewrite firstn_skipn. rewrite firstn_length. replace (Nat.min n (length s)) with n by lia. exact Hm.
Qed.

(* ---- one step of the string scanner ------------------------------------------------------------ *)

Lemma string_top_main (st : hstate) : hinv st -> l_cur st = MString -> exists l, l_stack st = MMain :: l.
Proof.
  intros (W & _) E. rewrite E in W. inversion W; subst;
    try (match goal with H : _ \/ _ |- _ => destruct H as [H|[H|H]]; discriminate end); eauto.
Qed.

Lemma heredoc_top_main (st : hstate) : hinv st -> l_cur st = MHeredoc -> exists l, l_stack st = MMain :: l.
Proof.
  intros (W & _) E. rewrite E in W. inversion W; subst;
    try (match goal with H : _ \/ _ |- _ => destruct H as [H|[H|H]]; discriminate end); eauto.
Qed.

Lemma m_tmpl_open_inv d s lk n : m_tmpl_open d s = Some (lk, n) ->
  lk = n /\ (2 <= n)%nat /\ exists x, s = d :: 123 :: x.
Proof.
  rewrite m_tmpl_open_eq. unfold m_tmpl_open'. destruct s as [|c [|c1 r]]; try discriminate.
  destruct ((c1 =? 123) && (c =? d)) eqn:E; [|discriminate]. apply andb_true_iff in E. destruct E as [E1 E2].
  apply Z.eqb_eq in E1, E2. subst. unfold same. destruct (starts_with 126 r); intro H; inversion H; subst; repeat split; eauto.
Qed.

(* what a step of a template scanner can be *)
Definition tstep (st : hstate) (s : list Z) (n : nat) (e : emit) (st' : hstate) : Prop :=
  ((exists ty, e = EOne ty /\ (ty = TokenTemplateInterp \/ ty = TokenTemplateControl)) /\ l_cur st' = MMain /\
     (2 <= length (firstn (Nat.max 1 n) s))%nat /\ exists d x, s = d :: 123 :: x)
  \/ (e = EOne TokenCQuote /\ l_cur st' = MMain /\ exists x, s = 34 :: x /\ n = 1%nat)
  \/ (e = EOne TokenQuotedLit /\ st' = st)
  \/ (e = EOne TokenStringLit /\ l_cur st' = l_cur st)
  \/ ((exists k, e = ETwo TokenCHeredoc k TokenNewline) /\ l_cur st' = MMain /\
      (2 <= length (firstn (Nat.max 1 n) s))%nat /\
      (exists c b', firstn (Nat.max 1 n) s = c :: b' /\ is_dp c = false) /\
      (forall t1 k t2, e = ETwo t1 k t2 ->
         let b := firstn (Nat.max 1 n) s in
         skipn (length b - k) b = [10] \/ skipn (length b - k) b = [13; 10])).

Lemma begin_tmpl_step (st : hstate) d ty s lk n e st' :
  Inv st -> (l_cur st = MString \/ l_cur st = MHeredoc) ->
  (ty = TokenTemplateInterp \/ ty = TokenTemplateControl) ->
  m_tmpl_open d s = Some (lk, n) -> a_begin_tmpl ty st (firstn (Nat.max 1 n) s) = Some (e, st') ->
  okmodes st' /\ mkinv st' /\ tstep st s n e st'.
Proof.
  intros (Hh & Ho & Hmk) Hc Hty Hm' Ha'. apply m_tmpl_open_inv in Hm'. destruct Hm' as (-> & Hn & x & ->).
  unfold a_begin_tmpl in Ha'. inversion Ha'; subst e st'. clear Ha'.
  split.
  { apply okmodes_fcall; [left; reflexivity|].
    destruct (set_top_sol _ _) eqn:Es.
    - destruct (set_top_sol_markers _ _ _ Es) as (_ & E1 & E2). eapply okmodes_same; [exact E1|exact E2|].
      eapply okmodes_same; [| |exact Ho]; reflexivity.
    - eapply okmodes_same; [| |exact Ho]; reflexivity. }
  split.
  { unfold fcall, mkinv. cbn [l_hdocs].
    destruct (set_top_sol _ _) eqn:Es.
    - destruct (set_top_sol_markers _ _ _ Es) as (E0 & _ & _). eapply mkinv_markers; [exact E0|]. exact Hmk.
    - exact Hmk. }
  left. split; [exists ty; auto|]. split; [reflexivity|]. split.
  - replace (Nat.max 1 n) with n by lia. rewrite firstn_length. simpl. lia.
  - eauto.
Qed.

Lemma string_step3 (st : hstate) r s lk n e st' :
  Inv st -> l_cur st = MString -> In r rules_string -> r_match r s = Some (lk, n) ->
  r_act r st (firstn (Nat.max 1 n) s) = Some (e, st') -> emits_clean e ->
  okmodes st' /\ mkinv st' /\ tstep st s n e st'.
Proof.
  intros Hi Hc Hin Hm Ha Hok. pose proof Hi as (Hh & Ho & Hmk).
  unfold rules_string in Hin; cbn [In] in Hin.
  destruct Hin as [<-|Hin]; [exact (begin_tmpl_step st 36 _ s lk n e st' Hi (or_introl Hc) (or_introl eq_refl) Hm Ha)|].
  destruct Hin as [<-|Hin]; [exact (begin_tmpl_step st 37 _ s lk n e st' Hi (or_introl Hc) (or_intror eq_refl) Hm Ha)|].
  destruct Hin as [<-|Hin].
  { cbn [r_act R] in Ha. unfold a_end_string in Ha. destruct (fret st) as [st1|] eqn:Ef; [|discriminate].
    inversion Ha; subst e st1. split; [eapply okmodes_fret; eassumption|].
    split; [eapply mkinv_same; [apply (fret_hdocs _ _ Ef)|exact Hmk]|].
    right. left. split; [reflexivity|].
    destruct (string_top_main st Hh Hc) as (l & El). unfold fret in Ef. rewrite El in Ef. inversion Ef; subst st'.
    split; [reflexivity|]. cbn [r_match R] in Hm. apply m_lit_inv in Hm. destruct Hm as (Hp & _ & ->).
    destruct s as [|c x]; [discriminate|]. apply is_prefix_hd in Hp. subst c. eauto. }
  destruct Hin as [<-|Hin].
  { cbn [r_act R] in Ha. unfold a_tok in Ha. inversion Ha; subst e st'.
    split; [exact Ho|]. split; [exact Hmk|]. right. right. left. auto. }
  destruct Hin as [<-|Hin]; [unclean_s Ha Hok|].
  destruct Hin as [<-|Hin]; [unclean_s Ha Hok|].
  destruct Hin as [<-|Hin]; [unclean_s Ha Hok|].
  destruct Hin.
Qed.

Lemma string_no_two (st : hstate) r b e st' t1 k t2 :
  In r rules_string -> r_act r st b = Some (e, st') -> e <> ETwo t1 k t2.
Proof.
  intros Hin Ha He. subst e. unfold rules_string in Hin. cbn [In] in Hin.
  repeat (destruct Hin as [<-|Hin];
    [cbn [r_act R] in Ha; unfold a_begin_tmpl, a_end_string, a_tok in Ha; try (destruct (fret st)); discriminate Ha|]).
  destruct Hin.
Qed.

(* ---- one step of the heredoc scanner ------------------------------------------------------------- *)

Lemma heredoc_step3 (st : hstate) r s lk n e st' :
  Inv st -> l_cur st = MHeredoc -> In r rules_heredoc -> r_match r s = Some (lk, n) -> (0 < lk)%nat ->
  r_act r st (firstn (Nat.max 1 n) s) = Some (e, st') -> emits_clean e ->
  okmodes st' /\ mkinv st' /\ tstep st s n e st'.
Proof.
  intros Hi Hc Hin Hm Hlk Ha Hok. pose proof Hi as (Hh & Ho & Hmk).
  unfold rules_heredoc in Hin; cbn [In] in Hin.
  destruct Hin as [<-|Hin]; [exact (begin_tmpl_step st 36 _ s lk n e st' Hi (or_intror Hc) (or_introl eq_refl) Hm Ha)|].
  destruct Hin as [<-|Hin]; [exact (begin_tmpl_step st 37 _ s lk n e st' Hi (or_intror Hc) (or_intror eq_refl) Hm Ha)|].
  destruct Hin as [<-|Hin].
  { cbn [r_act R r_match] in Ha, Hm.
    destruct (a_heredoc_eol_emit _ _ _ _ Ha) as [(k & He)|He].
    - (* the closing line *)
      subst e. pose proof Ha as Ha0. unfold a_heredoc_eol in Ha.
      destruct (l_hdocs st) as [|top rest] eqn:Eh; [discriminate|].
      destruct (h_sol top && zlist_eqb (trim_space _) (h_marker top)); [|discriminate].
      destruct (fret _) as [st1|] eqn:Ef; [|discriminate]. inversion Ha; subst st1. clear Ha.
      assert (Ho' : okmodes st') by (eapply okmodes_fret; [exact Ef|eapply okmodes_same; [| |exact Ho]; reflexivity]).
      assert (Hmk' : mkinv st').
      { unfold mkinv. rewrite (fret_hdocs _ _ Ef). cbn. unfold mkinv in Hmk. rewrite Eh in Hmk. inversion Hmk; assumption. }
      split; [exact Ho'|]. split; [exact Hmk'|].
      right. right. right. right.
      set (b := firstn (Nat.max 1 n) s) in *.
      assert (Hbne : b <> []).
      { unfold b. destruct s; [discriminate Hm|]. destruct (Nat.max 1 n) eqn:E; [lia|]. discriminate. }
      destruct (close_not_dp st b _ _ _ _ Hmk Ha0 Hbne) as (c & b' & Eb & Hcdp).
      assert (Hn1 : (1 <= n <= length s)%nat).
      { destruct s as [|c0 x]; [discriminate Hm|]. unfold b in Eb. destruct (Nat.max 1 n) eqn:E; [lia|]. cbn in Eb. inversion Eb; subst c0.
        rewrite (eol_nodp c x Hcdp) in Hm. cbv zeta in Hm.
        pose proof (sc_le (c :: x) 0 0) as Hk.
        pose proof (newline_len_le (skipn (spc (c :: x) 0 0) (c :: x))) as Hnl. rewrite skipn_length in Hnl.
        set (k0 := spc (c :: x) 0 0) in *. clearbody k0.
        destruct (newline_len _) as [|n1]; [discriminate|]. unfold same in Hm.
        assert (En : n = (k0 + S n1)%nat) by (injection Hm as _ Hx; symmetry; exact Hx).
        cbn [length] in *. lia. }
      assert (Hbl : length b = n) by (unfold b; rewrite firstn_length; lia).
      assert (Hs : s = b ++ skipn (Nat.max 1 n) s) by (unfold b; symmetry; apply firstn_skipn).
      assert (Hlast : last b 0 = 10).
      { rewrite Eb. rewrite Hs, Eb in Hm. apply (eol_line_last c b' _ lk n Hcdp Hm). rewrite <- Eb. exact Hbl. }
      split; [eauto|]. split.
      { destruct (heredoc_top_main st Hh Hc) as (l & El). unfold fret in Ef. cbn in Ef. rewrite El in Ef. inversion Ef. reflexivity. }
      split; [apply (close_len2 st b _ _ _ _ Hmk Ha0 Hlast)|].
      split; [eauto|].
      intros t1 k0 t2 He. inversion He; subst t1 k0 t2.
      (* k is the one the action computed *)
      unfold a_heredoc_eol in Ha0. rewrite Eh in Ha0.
      destruct (h_sol top && zlist_eqb (trim_space b) (h_marker top)); [|discriminate].
      rewrite Ef in Ha0. injection Ha0 as Hk. cbv zeta. subst k.
      apply (close_tok2 b Hbne Hlast).
    - subst e. unfold a_heredoc_eol in Ha. destruct (l_hdocs st) as [|top rest] eqn:Eh; [discriminate|].
      destruct (h_sol top && zlist_eqb (trim_space _) (h_marker top)); [destruct (fret _); discriminate|].
      inversion Ha; subst st'. split; [eapply okmodes_same; [| |exact Ho]; reflexivity|].
      split.
      { unfold mkinv in *. cbn. rewrite Eh in Hmk. inversion Hmk; subst. constructor; assumption. }
      right. right. right. left. split; reflexivity. }
  destruct Hin as [<-|Hin].
  { cbn [r_act R] in Ha. pose proof (a_heredoc_mid_emit _ _ _ _ Ha) as ->.
    unfold a_heredoc_mid in Ha. destruct (set_top_sol false st) as [st1|] eqn:Es; [|discriminate].
    inversion Ha; subst st1. destruct (set_top_sol_markers _ _ _ Es) as (E0 & E1 & E2).
    split; [eapply okmodes_same; eassumption|]. split; [eapply mkinv_markers; eassumption|].
    right. right. right. left. split; [reflexivity|exact E1]. }
  destruct Hin as [<-|Hin]; [unclean_s Ha Hok|].
  destruct Hin.
Qed.

(* ---- traces of clean sources ------------------------------------------------------------------------ *)

Definition emits_clean_neof (e : emit) : Prop :=
  forall ty, In ty (emit_types e) -> clean_ty ty = true /\ ty <> TokenEOF.

(* the Newline split off the closing line of a heredoc *)
Definition tok2_ok (p : step) : Prop :=
  forall t1 k t2, g_emit p = ETwo t1 k t2 ->
    skipn (length (g_b p) - k) (g_b p) = [10] \/ skipn (length (g_b p) - k) (g_b p) = [13; 10].

Fixpoint gen_trace (st : hstate) (ps : list step) : Prop :=
  Inv st /\ mode3 st /\
  match ps with
  | [] => True
  | p :: r =>
      emits_clean_neof (g_emit p) /\
      ((g_emit p = EOne (ty_of p) /\ ty_of p <> TokenCHeredoc) \/
       ((exists k, g_emit p = ETwo TokenCHeredoc k TokenNewline) /\ l_cur (g_nst p) = MMain /\
        (2 <= length (g_b p))%nat /\ (exists c b', g_b p = c :: b' /\ is_dp c = false) /\ tok2_ok p)) /\
      (if tl_ty (ty_of p) then l_cur st <> MMain else l_cur st = MMain) /\
      ((ty_of p = TokenQuotedLit \/ ty_of p = TokenStringLit) -> l_cur (g_nst p) = l_cur st) /\
      (l_cur (g_nst p) <> MMain -> In (ty_of p) tl_before) /\
      gen_trace (g_nst p) r
  end.

Lemma gen_trace_inv st ps : gen_trace st ps -> Inv st /\ mode3 st.
Proof. destruct ps; cbn [gen_trace]; tauto. Qed.

Lemma gen_trace_of : forall ps st tg off,
  trace_ok st ps tg -> Inv st ->
  forallb (fun k => clean_ty (k_ty k)) (ttoks off ps tg) = true -> gen_trace st ps.
Proof.
  induction ps as [|p r IH]; intros st tg off Ht Hi Hs; cbn [gen_trace].
  { split; [exact Hi|]. split; [apply okmodes_mode3; apply Hi|exact I]. }
  pose proof Hi as (Hh & Ho & Hmk). pose proof (okmodes_mode3 _ Ho) as Hmode.
  split; [exact Hi|]. split; [exact Hmode|].
  cbn [trace_ok] in Ht. destruct Ht as (Hbl & Hgm & Hne & Hnb & (lk & Hp) & Hb & Ha & He & Htr).
  cbn [ttoks] in Hs. rewrite forallb_app in Hs. apply andb_true_iff in Hs. destruct Hs as [Hs1 Hs2].
  pose proof Hp as Hp2. apply pick_spec in Hp2. destruct Hp2 as [Hx|(Hin & Hm & Hlk)]; [discriminate|].
  rewrite Hb in Ha.
  assert (Hty : emits_clean_neof (g_emit p)).
  { intros ty Hty. split.
    - rewrite <- (tokens_emit_types (g_emit p) (off + zlen (g_gap p)) (g_b p)) in Hty.
      apply in_map_iff in Hty. destruct Hty as (k & <- & Hk). rewrite forallb_forall in Hs1. apply (Hs1 k Hk).
    - eapply (hcl_emitted_types (l_cur st)); [exact Hin|exact Hm|exact Ha|exact Hty]. }
  assert (Hcl : emits_clean (g_emit p)) by (intros ty Hx; apply Hty; exact Hx).
  split; [exact Hty|].
  destruct (hcl_step_ok st _ _ _ _ Hh Hin Hm Hlk) as (e0 & st0 & Ha0 & Hh').
  rewrite Ha in Ha0. inversion Ha0; subst e0 st0. clear Ha0.
  destruct Hmode as [Hc|[Hc|Hc]].
  - (* main *)
    rewrite Hc in Hin. change (hcl_rules MMain) with rules_main in Hin.
    destruct (main_step3 st _ _ _ _ _ _ Hi Hc Hin Hm Ha He) as (ty & Ee & Htl & Ho' & Hmk' & Hq).
    unfold ty_of. rewrite Ee in *. rewrite Htl.
    split. { left. split; [reflexivity|]. intro Hx. rewrite Hx in Htl. discriminate. }
    split; [exact Hc|]. split.
    { intros [Hx|Hx]; rewrite Hx in Htl; discriminate. }
    split; [exact Hq|].
    eapply IH; [exact Htr|split; [exact Hh'|split; assumption]|exact Hs2].
  - (* string *)
    rewrite Hc in Hin. change (hcl_rules MString) with rules_string in Hin.
    destruct (string_step3 st _ _ _ _ _ _ Hi Hc Hin Hm Ha Hcl) as (Ho' & Hmk' & Hcase).
    assert (Hnext : gen_trace (g_nst p) r) by (eapply IH; [exact Htr|split; [exact Hh'|split; assumption]|exact Hs2]).
    destruct Hcase as [((ty & Ee & Hty2) & Hm1 & _)|[(Ee & Hm1 & _)|[(Ee & Hst)|[(Ee & Hst)|((k & Ee) & _)]]]].
    + unfold ty_of. rewrite Ee. split; [left; split; [reflexivity|destruct Hty2 as [-> | ->]; discriminate]|].
      replace (tl_ty ty) with true by (destruct Hty2 as [-> | ->]; reflexivity).
      split; [rewrite Hc; discriminate|]. split; [intros [Hx|Hx]; destruct Hty2 as [-> | ->]; discriminate|].
      split; [intro Hx; contradiction|exact Hnext].
    + unfold ty_of. rewrite Ee. cbn [tl_ty Z.eqb orb]. split; [left; split; [reflexivity|discriminate]|].
      split; [rewrite Hc; discriminate|]. split; [intros [Hx|Hx]; discriminate|].
      split; [intro Hx; contradiction|exact Hnext].
    + unfold ty_of. rewrite Ee. split; [left; split; [reflexivity|discriminate]|].
      split; [cbn; rewrite Hc; discriminate|]. split; [intros _; rewrite Hst; reflexivity|].
      split; [intros _; unfold tl_before; cbn [In]; tauto|exact Hnext].
    + (* a StringLit cannot come from the string scanner, but the shape is harmless *)
      unfold ty_of. rewrite Ee. split; [left; split; [reflexivity|discriminate]|].
      split; [cbn; rewrite Hc; discriminate|]. split; [intros _; exact Hst|].
      split; [intros _; unfold tl_before; cbn [In]; tauto|exact Hnext].
    + exfalso. exact (string_no_two st _ _ _ _ _ _ _ Hin Ha Ee).
  - (* heredoc *)
    rewrite Hc in Hin. change (hcl_rules MHeredoc) with rules_heredoc in Hin.
    destruct (heredoc_step3 st _ _ _ _ _ _ Hi Hc Hin Hm Hlk Ha Hcl) as (Ho' & Hmk' & Hcase).
    assert (Hnext : gen_trace (g_nst p) r) by (eapply IH; [exact Htr|split; [exact Hh'|split; assumption]|exact Hs2]).
    unfold tstep in Hcase. rewrite <- Hb in Hcase.
    destruct Hcase as [((ty & Ee & Hty2) & Hm1 & _)|[(Ee & Hm1 & _)|[(Ee & Hst)|[(Ee & Hst)|((k & Ee) & Hm1 & Hl2 & Hdp & Ht2)]]]].
    + unfold ty_of. rewrite Ee. split; [left; split; [reflexivity|destruct Hty2 as [-> | ->]; discriminate]|].
      replace (tl_ty ty) with true by (destruct Hty2 as [-> | ->]; reflexivity).
      split; [rewrite Hc; discriminate|]. split; [intros [Hx|Hx]; destruct Hty2 as [-> | ->]; discriminate|].
      split; [intro Hx; contradiction|exact Hnext].
    + unfold ty_of. rewrite Ee. cbn [tl_ty Z.eqb orb]. split; [left; split; [reflexivity|discriminate]|].
      split; [rewrite Hc; discriminate|]. split; [intros [Hx|Hx]; discriminate|].
      split; [intro Hx; contradiction|exact Hnext].
    + unfold ty_of. rewrite Ee. split; [left; split; [reflexivity|discriminate]|].
      split; [cbn; rewrite Hc; discriminate|]. split; [intros _; rewrite Hst; reflexivity|].
      split; [intros _; unfold tl_before; cbn [In]; tauto|exact Hnext].
    + unfold ty_of. rewrite Ee. split; [left; split; [reflexivity|discriminate]|].
      split; [cbn; rewrite Hc; discriminate|]. split; [intros _; exact Hst|].
      split; [intros _; unfold tl_before; cbn [In]; tauto|exact Hnext].
    + unfold ty_of. rewrite Ee. split.
      { right. split; [eauto|]. split; [exact Hm1|]. split; [exact Hl2|]. split; [exact Hdp|].
        unfold tok2_ok. intros t1 k0 t2 He'.
        assert (Hx : g_emit p = ETwo t1 k0 t2) by (first [exact He' | rewrite Ee; exact He']).
        specialize (Ht2 t1 k0 t2 Hx). cbv zeta in Ht2. exact Ht2. }
      split; [cbn; rewrite Hc; discriminate|]. split; [intros [Hx|Hx]; discriminate|].
      split; [intro Hx; contradiction|exact Hnext].
Qed.

(* ---- the layout condition ------------------------------------------------------------------------- *)

(* "${" / "%{" written without "~": the next byte must not be "~" *)

(* tokens of the template scanners carry no space before them, nor does the Newline that
   ends the closing line of a heredoc; after every other token the following bytes must not
   continue it (tail_okb) *)

Lemma layout_cons x f : layout_okb (x :: f) = true ->
  0 <= sp x /\
  (tl_ty (ty x) = true -> sp x = 0 /\ (is_tmpl_open (ty x) = true -> opener_okb (bytes x) (write f) = true)) /\
  (tl_ty (ty x) = false -> tail_okb (bytes x) (write f) = true) /\
  (ty x = TokenCHeredoc -> match f with y :: _ => sp y = 0 | [] => True end) /\
  layout_okb f = true.
Proof.
  cbn [layout_okb]. intro H. apply andb_true_iff in H. destruct H as [H H4].
  apply andb_true_iff in H. destruct H as [H H3].
  apply andb_true_iff in H. destruct H as [H1 H2]. apply Z.leb_le in H1.
  split; [exact H1|]. split; [|split; [|split; [|exact H4]]].
  - intro Ht. rewrite Ht in H2. apply andb_true_iff in H2. destruct H2 as [Ha Hb]. apply Z.eqb_eq in Ha.
    split; [exact Ha|]. intro Ho. rewrite Ho in Hb. exact Hb.
  - intro Ht. rewrite Ht in H2. exact H2.
  - intro Ht. rewrite Ht, Z.eqb_refl in H3. cbn in H3. destruct f as [|y f']; [exact I|]. apply Z.eqb_eq. exact H3.
Qed.

(* the closing line of a heredoc and its newline, seen as one token (as the scanner matches them) *)
Fixpoint merge2 (body : list tok) : list tok :=
  match body with
  | [] => []
  | x :: r =>
      match r with
      | y :: f => if ty x =? TokenCHeredoc then mkTok (ty x) (bytes x ++ bytes y) (gcols x) (sp x) :: merge2 f
                  else x :: merge2 r
      | [] => [x]
      end
  end.

Lemma merge2_cons2 x y f :
  merge2 (x :: y :: f) =
  if ty x =? TokenCHeredoc then mkTok (ty x) (bytes x ++ bytes y) (gcols x) (sp x) :: merge2 f
  else x :: merge2 (y :: f).
Proof. reflexivity. Qed.

Section Tails.
  Variable e : tok.
  Hypothesis He : bytes e = [].
  Hypothesis Hspe : 0 <= sp e.

  (* the layout facts, per scanner step *)
  Fixpoint LO (mb : list tok) : Prop :=
    match mb with
    | [] => True
    | x :: f =>
        0 <= sp x /\
        (tl_ty (ty x) = true -> sp x = 0 /\ (is_tmpl_open (ty x) = true -> opener_okb (bytes x) (write (f ++ [e])) = true)) /\
        (tl_ty (ty x) = false -> tail_okb (bytes x) (write (f ++ [e])) = true) /\
        LO f
    end.

  Lemma write_merge2 : forall n body, (length body <= n)%nat -> layout_okb (body ++ [e]) = true ->
    write (merge2 body ++ [e]) = write (body ++ [e]).
  Proof.
    induction n as [|n IH]; intros body Hn Hl; [destruct body; [reflexivity|simpl in Hn; lia]|].
    destruct body as [|x [|y f]]; [reflexivity|reflexivity|].
    rewrite merge2_cons2. cbn [app] in Hl. destruct (layout_cons _ _ Hl) as (_ & _ & _ & Hch & Hl').
    destruct (ty x =? TokenCHeredoc) eqn:E.
    - apply Z.eqb_eq in E. specialize (Hch E). cbn in Hch.
      destruct (layout_cons _ _ Hl') as (_ & _ & _ & _ & Hl'').
      cbn [app]. rewrite !write_cons. cbn [sp bytes]. rewrite Hch. change (spaces 0) with (@nil Z). cbn [app].
      rewrite <- app_assoc. f_equal. f_equal. f_equal. apply IH; [simpl in Hn; lia|exact Hl''].
    - cbn [app]. rewrite (write_cons x), (write_cons x). f_equal. f_equal.
      change (y :: f ++ [e]) with ((y :: f) ++ [e]). apply IH; [simpl in *; lia|exact Hl'].
  Qed.

  Lemma layout_LO : forall n body, (length body <= n)%nat -> layout_okb (body ++ [e]) = true -> LO (merge2 body).
  Proof.
    induction n as [|n IH]; intros body Hn Hl; [destruct body; [exact I|simpl in Hn; lia]|].
    destruct body as [|x [|y f]]; [exact I| |].
    - cbn [merge2 LO]. cbn [app] in Hl. destruct (layout_cons _ _ Hl) as (H1 & H2 & H3 & _ & _). auto.
    - rewrite merge2_cons2. cbn [app] in Hl. destruct (layout_cons _ _ Hl) as (H1 & H2 & H3 & Hch & Hl').
      destruct (ty x =? TokenCHeredoc) eqn:E.
      + apply Z.eqb_eq in E. destruct (layout_cons _ _ Hl') as (_ & _ & _ & _ & Hl'').
        cbn [LO ty sp bytes]. split; [exact H1|]. split.
        { intro Ht. destruct (H2 Ht) as [Hs _]. split; [exact Hs|]. intro Ho. rewrite E in Ho. discriminate. }
        split; [intro Ht; rewrite E in Ht; discriminate|].
        apply IH; [simpl in Hn; lia|exact Hl''].
      + cbn [LO]. change (y :: f ++ [e]) with ((y :: f) ++ [e]) in *.
        rewrite (write_merge2 (length (y :: f)) (y :: f) ltac:(lia) Hl').
        split; [exact H1|]. split; [exact H2|]. split; [exact H3|].
        apply IH; [simpl in *; lia|exact Hl'].
  Qed.

  Definition aligned (ps : list step) (mb : list tok) : Prop :=
    map bytes mb = map g_b ps /\ map ty mb = map ty_of ps.

  Lemma aligned_cons p r x f : aligned (p :: r) (x :: f) ->
    bytes x = g_b p /\ ty x = ty_of p /\ aligned r f.
  Proof. intros [H1 H2]. cbn [map] in *. inversion H1. inversion H2. repeat split; assumption. Qed.

  Lemma aligned_nil_l body : aligned [] body -> body = [].
  Proof. intros [H _]. destruct body; [reflexivity|discriminate]. Qed.

  Lemma aligned_nil_r ps : aligned ps [] -> ps = [].
  Proof. intros [H _]. destruct ps; [reflexivity|discriminate]. Qed.

  (* inside a template: both tails are empty or start with the same byte *)
  Lemma tmpl_tail_hd st ps tg body :
    trace_ok st ps tg -> gen_trace st ps -> l_cur st <> MMain -> aligned ps body ->
    (tg = [] -> sp e = 0) -> LO body ->
    (tbytes ps tg = [] /\ tbytes (regap ps (gaps_of body)) (spaces (sp e)) = []) \/
    (exists c y y', tbytes ps tg = c :: y /\ tbytes (regap ps (gaps_of body)) (spaces (sp e)) = c :: y').
  Proof.
    intros Ht Hg Hc Hal Htg Hl. destruct ps as [|p r].
    - left. cbn [trace_ok] in Ht. destruct Ht as [_ Hm].
      assert (tg = []). { destruct tg; [reflexivity|]. specialize (Hm ltac:(discriminate)). contradiction. }
      subst tg. rewrite (aligned_nil_l _ Hal). cbn. rewrite (Htg eq_refl). split; reflexivity.
    - right. destruct body as [|x f]; [apply aligned_nil_r in Hal; discriminate|].
      destruct (aligned_cons _ _ _ _ Hal) as (Hbx & Htx & Hal').
      cbn [trace_ok] in Ht. destruct Ht as (Hbl & Hgm & Hne & _).
      cbn [gen_trace] in Hg. destruct Hg as (_ & _ & _ & _ & Htl & _).
      assert (Hgap : g_gap p = []). { destruct (g_gap p); [reflexivity|]. specialize (Hgm ltac:(discriminate)). contradiction. }
      destruct (tl_ty (ty_of p)) eqn:Et; [|contradiction].
      cbn [LO] in Hl. destruct Hl as (_ & Hs0 & _). rewrite Htx in Hs0. destruct (Hs0 Et) as [Hs0' _].
      cbn [tbytes gaps_of map regap set_gap g_gap g_b]. rewrite Hgap, Hs0'. change (spaces 0) with (@nil Z). cbn [app].
      destruct (g_b p) as [|c y]; [contradiction|]. cbn [app]. eauto.
  Qed.
End Tails.

Lemma heredoc_no_cquote (st : hstate) r b e st' :
  In r rules_heredoc -> r_act r st b = Some (e, st') -> e <> EOne TokenCQuote.
Proof.
  intros Hin Ha He. subst e. unfold rules_heredoc in Hin. cbn [In] in Hin.
  destruct Hin as [<-|Hin]; [cbn [r_act R] in Ha; unfold a_begin_tmpl in Ha; discriminate Ha|].
  destruct Hin as [<-|Hin]; [cbn [r_act R] in Ha; unfold a_begin_tmpl in Ha; discriminate Ha|].
  destruct Hin as [<-|Hin]; [cbn [r_act R] in Ha; destruct (a_heredoc_eol_emit _ _ _ _ Ha) as [(k & H)|H]; discriminate H|].
  destruct Hin as [<-|Hin]; [cbn [r_act R] in Ha; pose proof (a_heredoc_mid_emit _ _ _ _ Ha) as H; discriminate H|].
  destruct Hin as [<-|Hin]; [cbn [r_act R] in Ha; unfold a_tok in Ha; discriminate Ha|].
  destruct Hin.
Qed.

(* a clean token of the string scanner in front of which such a run ended starts with
   the closing quote, '$' or '%' *)
Lemma string_next_hard (st : hstate) r s lk n e st' :
  In r rules_string -> r_match r s = Some (lk, n) -> (0 < lk)%nat ->
  r_act r st (firstn (Nat.max 1 n) s) = Some (e, st') -> emits_clean e ->
  span_quoted s 0 0 = O -> hard_or_nil s.
Proof.
  intros Hin Hm Hlk Ha Hok Hs.
  unfold rules_string in Hin; cbn [In] in Hin.
  destruct Hin as [<-|Hin].
  { cbn [r_match R] in Hm. apply m_tmpl_open_inv in Hm. destruct Hm as (_ & _ & x & ->). right. exists 36, (123 :: x). auto. }
  destruct Hin as [<-|Hin].
  { cbn [r_match R] in Hm. apply m_tmpl_open_inv in Hm. destruct Hm as (_ & _ & x & ->). right. exists 37, (123 :: x). auto. }
  destruct Hin as [<-|Hin].
  { cbn [r_match R] in Hm. apply m_lit_inv in Hm. destruct Hm as (Hp & _).
    destruct s as [|c x]; [discriminate|]. apply is_prefix_hd in Hp. subst c. right. exists 34, x. auto. }
  destruct Hin as [<-|Hin].
  { cbn [r_match R] in Hm. unfold m_tmpl_string_lit in Hm. rewrite tmpl_not_seq_eq in Hm.
    destruct s as [|d x]; [cbn in Hm; discriminate|].
    destruct (is_dp d) eqn:Edp.
    - right. exists d, x. split; [reflexivity|]. rewrite Edp. apply orb_true_r.
    - exfalso. rewrite <- tmpl_not_seq_eq, (tns_nodp d x Edp), Hs in Hm. discriminate. }
  destruct Hin as [<-|Hin]; [unclean_s Ha Hok|].
  destruct Hin as [<-|Hin]; [unclean_s Ha Hok|].
  destruct Hin as [<-|Hin]; [unclean_s Ha Hok|].
  destruct Hin.
Qed.


(* the same for the heredoc scanner: the next clean token starts with '$', '%' or a newline *)
Lemma heredoc_next_hard (st : hstate) r s lk n e st' :
  In r rules_heredoc -> r_match r s = Some (lk, n) -> (0 < lk)%nat ->
  r_act r st (firstn (Nat.max 1 n) s) = Some (e, st') -> emits_clean e ->
  spc s 0 0 = O -> s = [] \/ exists c y, s = c :: y /\ plain_ok c = false.
Proof.
  intros Hin Hm Hlk Ha Hok Hs.
  assert (Hdp : forall d x, s = d :: x -> is_dp d = true -> s = [] \/ exists c y, s = c :: y /\ plain_ok c = false).
  { intros d x -> Hd. right. exists d, x. split; [reflexivity|]. unfold plain_ok. rewrite Hd. apply andb_false_r. }
  unfold rules_heredoc in Hin; cbn [In] in Hin.
  destruct Hin as [<-|Hin].
  { cbn [r_match R] in Hm. apply m_tmpl_open_inv in Hm. destruct Hm as (_ & _ & x & ->). eapply Hdp; reflexivity. }
  destruct Hin as [<-|Hin].
  { cbn [r_match R] in Hm. apply m_tmpl_open_inv in Hm. destruct Hm as (_ & _ & x & ->). eapply Hdp; reflexivity. }
  destruct s as [|c x]; [left; reflexivity|].
  destruct (is_dp c) eqn:Edp; [eapply Hdp; [reflexivity|exact Edp]|].
  destruct Hin as [<-|Hin].
  { cbn [r_match R] in Hm. rewrite (eol_nodp c x Edp) in Hm. cbv zeta in Hm. rewrite Hs in Hm. cbn [skipn] in Hm.
    destruct (newline_len (c :: x)) eqn:En; [discriminate|].
    destruct (newline_len_hd (c :: x) ltac:(rewrite En; discriminate)) as (c0 & y & Ey & Hc0). inversion Ey; subst.
    right. eauto. }
  destruct Hin as [<-|Hin].
  { cbn [r_match R] in Hm. rewrite (mid_nodp c x Edp), Hs in Hm. discriminate. }
  destruct Hin as [<-|Hin]; [unclean_s Ha Hok|].
  destruct Hin.
Qed.

Section Tails2.
  Variable e : tok.
  Hypothesis He : bytes e = [].
  Hypothesis Hspe : 0 <= sp e.

  Lemma firstn2_app (b x y : list Z) : (2 <= length b)%nat -> firstn 2 (b ++ x) = firstn 2 (b ++ y).
  Proof. destruct b as [|c1 [|c2 b]]; simpl; try lia. reflexivity. Qed.

  (* the classification of a template-mode step of a trace *)
  Lemma trace_tmpl_step st p r tg :
    trace_ok st (p :: r) tg -> gen_trace st (p :: r) -> l_cur st <> MMain ->
    g_gap p = [] /\ tstep st (g_b p ++ tbytes r tg) (g_n p) (g_emit p) (g_nst p) /\
    exists lk, In (g_rule p) (hcl_rules (l_cur st)) /\ r_match (g_rule p) (g_b p ++ tbytes r tg) = Some (lk, g_n p) /\
               (0 < lk)%nat /\ r_act (g_rule p) st (g_b p) = Some (g_emit p, g_nst p) /\ emits_clean (g_emit p).
  Proof.
    intros Ht Hg Hc. cbn [trace_ok] in Ht. destruct Ht as (Hbl & Hgm & Hne & Hnb & (lk & Hp) & Hb & Ha & Hen & Htr).
    cbn [gen_trace] in Hg. destruct Hg as (Hi & Hmode & Hcl & _).
    split. { destruct (g_gap p); [reflexivity|]. specialize (Hgm ltac:(discriminate)). contradiction. }
    pose proof Hp as Hp2. apply pick_spec in Hp2. destruct Hp2 as [Hx|(Hin & Hm & Hlk)]; [discriminate|].
    assert (Hcl' : emits_clean (g_emit p)) by (intros ty Hx; apply Hcl; exact Hx).
    pose proof Ha as Ha'. rewrite Hb in Ha'.
    split; [|exists lk; auto].
    destruct Hmode as [Hm0|[Hm0|Hm0]]; [contradiction| |].
    - pose proof Hin as Hin'. rewrite Hm0 in Hin'. change (hcl_rules MString) with rules_string in Hin'.
      destruct (string_step3 st _ _ _ _ _ _ Hi Hm0 Hin' Hm Ha' Hcl') as (_ & _ & Hcase). exact Hcase.
    - pose proof Hin as Hin'. rewrite Hm0 in Hin'. change (hcl_rules MHeredoc) with rules_heredoc in Hin'.
      destruct (heredoc_step3 st _ _ _ _ _ _ Hi Hm0 Hin' Hm Hlk Ha' Hcl') as (_ & _ & Hcase). exact Hcase.
  Qed.

  (* two bytes of agreement, or both tails start with the closing quote *)
  Lemma tmpl_tail_agree2 st ps tg body :
    trace_ok st ps tg -> gen_trace st ps -> l_cur st <> MMain -> aligned ps body ->
    (tg = [] -> sp e = 0) -> LO e body ->
    agree2 (tbytes ps tg) (tbytes (regap ps (gaps_of body)) (spaces (sp e))) /\
    (l_cur st = MHeredoc -> firstn 2 (tbytes ps tg) = firstn 2 (tbytes (regap ps (gaps_of body)) (spaces (sp e)))).
  Proof.
    intros Ht Hg Hc Hal Htg Hl.
    destruct ps as [|p r].
    { destruct (tmpl_tail_hd e st [] tg body Ht Hg Hc Hal Htg Hl) as [[-> ->]|(c & y & y' & E1 & E2)]; [split; [left|]; reflexivity|].
      exfalso. cbn [trace_ok] in Ht. destruct Ht as [_ Hm]. cbn [tbytes] in E1. subst tg.
      specialize (Hm ltac:(discriminate)). contradiction. }
    destruct body as [|x f]; [apply aligned_nil_r in Hal; discriminate|].
    destruct (aligned_cons _ _ _ _ Hal) as (Hbx & Htx & Hal').
    destruct (trace_tmpl_step st p r tg Ht Hg Hc) as (Hgap & Hcase & (lk0 & Hin0 & _ & _ & Ha0 & _)).
    pose proof Ht as Ht0. cbn [trace_ok] in Ht. destruct Ht as (_ & _ & Hne & _ & _ & Hb & _ & _ & Htr).
    pose proof Hg as Hg0. cbn [gen_trace] in Hg. destruct Hg as (_ & _ & _ & _ & Htl & Hq & _ & Hg').
    destruct (tl_ty (ty_of p)) eqn:Et; [|contradiction].
    cbn [LO] in Hl. destruct Hl as (_ & Hs0 & _ & Hl'). rewrite Htx in Hs0. destruct (Hs0 Et) as [Hs0' _].
    cbn [tbytes gaps_of map regap set_gap g_gap g_b]. rewrite Hgap, Hs0'. change (spaces 0) with (@nil Z). cbn [app].
    fold (gaps_of f).
    destruct (g_b p) as [|c [|c2 b3]] eqn:Eb; [contradiction| |split; [left|intros _]; apply (firstn2_app (c :: c2 :: b3)); simpl; lia].
    unfold tstep in Hcase. rewrite <- Hb in Hcase.
    destruct Hcase as [(_ & _ & Hlen & _)|[(Ee & Hm1 & x0 & Hs & Hn)|[(Ee & Hst)|[(Ee & Hst)|(_ & _ & Hlen & _)]]]].
    - simpl in Hlen. lia.
    - (* the closing quote *)
      cbn [app] in Hs. inversion Hs; subst c. split; [right; cbn [app]; eauto|].
      intro Hh. exfalso. rewrite Hh in Hin0. change (hcl_rules MHeredoc) with rules_heredoc in Hin0.
      exact (heredoc_no_cquote st _ _ _ _ Hin0 Ha0 Ee).
    - assert (Hmode : l_cur (g_nst p) <> MMain) by (rewrite Hst; exact Hc).
      rewrite Hst in Htr, Hg'.
      destruct (tmpl_tail_hd e st r tg f Htr Hg' Hc Hal' Htg Hl') as [[-> ->]|(c1 & y & y' & -> & ->)]; split; try left; reflexivity.
    - assert (Hmode : l_cur (g_nst p) <> MMain) by (rewrite Hst; exact Hc).
      destruct (tmpl_tail_hd e (g_nst p) r tg f Htr Hg' Hmode Hal' Htg Hl') as [[-> ->]|(c1 & y & y' & -> & ->)]; split; try left; reflexivity.
    - simpl in Hlen. lia.
  Qed.
End Tails2.

Section Regap.
  Variable e : tok.
  Hypothesis He : bytes e = [].
  Hypothesis Hspe : 0 <= sp e.

  (* after a literal the scanner is still inside the template; where a run of ordinary
     characters ended the next token starts with a byte that ends such a run *)
  Lemma tmpl_tail_hard st ps tg :
    trace_ok st ps tg -> gen_trace st ps ->
    (l_cur st = MString -> span_quoted (tbytes ps tg) 0 0 = O -> hard_or_nil (tbytes ps tg)) /\
    (l_cur st = MHeredoc -> spc (tbytes ps tg) 0 0 = O ->
       tbytes ps tg = [] \/ exists c y, tbytes ps tg = c :: y /\ plain_ok c = false).
  Proof.
    intros Ht Hg.
    destruct ps as [|p r].
    { cbn [trace_ok] in Ht. destruct Ht as [_ Hm]. cbn [tbytes].
      split; intros Hc _; (destruct tg; [left; reflexivity|]; specialize (Hm ltac:(discriminate)); congruence). }
    split; intros Hc Hs.
    - destruct (trace_tmpl_step st p r tg Ht Hg ltac:(rewrite Hc; discriminate)) as (Hgap & _ & (lk & Hin & Hm & Hlk & Ha & Hcl)).
      cbn [trace_ok] in Ht. destruct Ht as (_ & _ & _ & _ & _ & Hb & _).
      cbn [tbytes] in *. rewrite Hgap in *. cbn [app] in *.
      rewrite Hc in Hin. change (hcl_rules MString) with rules_string in Hin. rewrite Hb in Ha.
      eapply string_next_hard; eassumption.
    - destruct (trace_tmpl_step st p r tg Ht Hg ltac:(rewrite Hc; discriminate)) as (Hgap & _ & (lk & Hin & Hm & Hlk & Ha & Hcl)).
      cbn [trace_ok] in Ht. destruct Ht as (_ & _ & _ & _ & _ & Hb & _).
      cbn [tbytes] in *. rewrite Hgap in *. cbn [app] in *.
      rewrite Hc in Hin. change (hcl_rules MHeredoc) with rules_heredoc in Hin. rewrite Hb in Ha.
      eapply heredoc_next_hard; eassumption.
  Qed.

  Lemma regap_cond_gen : forall ps st tg body,
    trace_ok st ps tg -> gen_trace st ps -> aligned ps body ->
    (tg = [] -> sp e = 0) -> LO e body ->
    regap_cond st ps tg (gaps_of body) (spaces (sp e)).
  Proof.
    induction ps as [|p r IH]; intros st tg body Ht Hg Hal Htg Hl.
    - rewrite (aligned_nil_l _ Hal). cbn. split; [apply repeatZ_blank|].
      intro Hne. cbn [trace_ok] in Ht. destruct Ht as [_ Hm]. apply Hm. intros ->.
      rewrite (Htg eq_refl) in Hne. apply Hne. reflexivity.
    - destruct body as [|x f]; [apply aligned_nil_r in Hal; discriminate|].
      destruct (aligned_cons _ _ _ _ Hal) as (Hbx & Htx & Hal').
      pose proof Ht as Ht0. pose proof Hg as Hg0.
      cbn [trace_ok] in Ht. destruct Ht as (Hbl & Hgm & Hne & Hnb & (lk & Hp) & Hbf & Ha & Hen & Htr).
      cbn [gen_trace] in Hg. destruct Hg as (Hi & Hmode & Hcl & Hshape & Htl & Hq & _ & Hg').
      cbn [LO] in Hl. destruct Hl as (Hsx & Hl1 & Hl2 & Hl').
      rewrite Htx in Hl1, Hl2.
      cbn [gaps_of map regap_cond]. fold (gaps_of f).
      assert (Hcl' : emits_clean (g_emit p)) by (intros ty Hx; apply Hcl; exact Hx).
      assert (Hw : tbytes (regap r (gaps_of f)) (spaces (sp e)) = write (f ++ [e])).
      { symmetry. apply write_regap; [exact He|]. destruct Hal' as [H1 _]. exact H1. }
      assert (Hnil : tbytes r tg = [] -> tbytes (regap r (gaps_of f)) (spaces (sp e)) = []).
      { intro E. destruct r as [|p' r'].
        - cbn [tbytes] in E. rewrite (aligned_nil_l _ Hal'). cbn. rewrite (Htg E). reflexivity.
        - exfalso. cbn [trace_ok] in Htr. destruct Htr as (_ & _ & Hne' & _).
          exact (tbytes_nonempty p' r' tg Hne' E). }
      destruct (tl_ty (ty_of p)) eqn:Et.
      + (* a token of a template scanner: no gap *)
        destruct (Hl1 eq_refl) as [Hs0 Hop]. rewrite Hs0. change (spaces 0) with (@nil Z).
        split; [reflexivity|]. split; [intro Hx; contradiction|]. split; [exact Hnil|]. split; [|apply IH; auto].
        assert (Hopen : (g_emit p = EOne TokenTemplateInterp \/ g_emit p = EOne TokenTemplateControl) ->
                  forall d, g_b p = [d; 123] -> starts_with 126 (tbytes (regap r (gaps_of f)) (spaces (sp e))) = false).
        { intros Hoe d Eb. rewrite Hw.
          assert (Hio : is_tmpl_open (ty_of p) = true).
          { unfold ty_of. destruct Hoe as [Hoe|Hoe]; rewrite Hoe; reflexivity. }
          specialize (Hop Hio). rewrite Hbx, Eb in Hop. cbn in Hop.
          apply negb_true_iff in Hop. exact Hop. }
        assert (Hstay : forall ty, g_emit p = EOne ty -> ty = TokenQuotedLit \/ ty = TokenStringLit ->
                  l_cur (g_nst p) = l_cur st).
        { intros ty Ee Hty. apply Hq. unfold ty_of. rewrite Ee. exact Hty. }
        exists lk. destruct Hmode as [Hm0|[Hm0|Hm0]]; [contradiction| |].
        * (* string scanner *)
          rewrite Hm0 in Hp |- *. change (hcl_rules MString) with rules_string in *.
          apply (string_pick_stable st (g_rule p) lk (g_n p) (g_b p) (tbytes r tg) (g_emit p) (g_nst p)); auto.
          -- intro Eq. pose proof (Hstay _ Eq (or_introl eq_refl)) as Hst.
             apply (proj1 (tmpl_tail_agree2 e (g_nst p) r tg f Htr Hg' ltac:(rewrite Hst, Hm0; discriminate) Hal' Htg Hl')).
          -- intros Eq Hs. pose proof (Hstay _ Eq (or_introl eq_refl)) as Hst.
             destruct (tmpl_tail_hard (g_nst p) r tg Htr Hg') as [Hh _]. apply Hh; [rewrite Hst; exact Hm0|exact Hs].
        * (* heredoc scanner *)
          rewrite Hm0 in Hp |- *. change (hcl_rules MHeredoc) with rules_heredoc in *.
          apply (heredoc_pick_stable st (g_rule p) lk (g_n p) (g_b p) (tbytes r tg) (g_emit p) (g_nst p)); auto.
          -- intro Eq. pose proof (Hstay _ Eq (or_intror eq_refl)) as Hst.
             apply (proj2 (tmpl_tail_agree2 e (g_nst p) r tg f Htr Hg' ltac:(rewrite Hst, Hm0; discriminate) Hal' Htg Hl')).
             rewrite Hst. exact Hm0.
          -- intros Eq Hs. pose proof (Hstay _ Eq (or_intror eq_refl)) as Hst.
             destruct (tmpl_tail_hard (g_nst p) r tg Htr Hg') as [_ Hh]. apply Hh; [rewrite Hst; exact Hm0|exact Hs].
          -- intros t1 k t2 Ee. destruct Hshape as [[Hx _]|(_ & _ & _ & Hdp & _)]; [rewrite Hx in Ee; discriminate|exact Hdp].
      + (* a token of the main scanner *)
        split; [apply repeatZ_blank|]. split; [intros _; exact Htl|]. split; [exact Hnil|]. split.
        * exists lk. rewrite Htl in Hp |- *. change (hcl_rules MMain) with rules_main in *.
          rewrite Hw.
          apply (main_pick_stable st (g_rule p) lk (g_n p) (g_b p) (tbytes r tg) (g_emit p) (g_nst p)); auto.
          -- intro E. rewrite <- Hw. apply Hnil. exact E.
          -- rewrite <- Hbx. apply tail_okb_ok. apply Hl2. reflexivity.
        * apply IH; auto.
  Qed.
End Regap.

(* ---- writer tokens of a trace; the theorem --------------------------------------------------------- *)

Definition wt_step_l (g : list Z -> Z) (p : step) : list tok :=
  match g_emit p with
  | ENone => []
  | EOne ty => [mkTok ty (g_b p) (g (g_b p)) (zlen (g_gap p))]
  | ETwo t1 k t2 =>
      let n1 := (length (g_b p) - k)%nat in
      [mkTok t1 (firstn n1 (g_b p)) (g (firstn n1 (g_b p))) (zlen (g_gap p));
       mkTok t2 (skipn n1 (g_b p)) (g (skipn n1 (g_b p))) 0]
  end.

Definition eshape (ps : list step) : Prop :=
  Forall (fun p => (g_emit p = EOne (ty_of p) /\ ty_of p <> TokenCHeredoc) \/
                   (exists k, g_emit p = ETwo TokenCHeredoc k TokenNewline)) ps.

Lemma gen_trace_eshape : forall ps st, gen_trace st ps ->
  eshape ps /\ Forall (fun p => emits_clean_neof (g_emit p)) ps.
Proof.
  induction ps as [|p r IH]; intros st H; [split; constructor|].
  cbn [gen_trace] in H. destruct H as (_ & _ & Hcl & Hsh & _ & _ & _ & H).
  destruct (IH _ H) as [H1 H2]. split; constructor; try assumption.
  destruct Hsh as [Hx|(Hx & _)]; [left; exact Hx|right; exact Hx].
Qed.

Lemma wt_ttoks_gen g : forall ps tg off, eshape ps ->
  writer_tokens g off (ttoks off ps tg) = flat_map (wt_step_l g) ps ++ [wt_eof g tg].
Proof.
  induction ps as [|p r IH]; intros tg off Hm.
  - cbn. unfold wt_eof. f_equal. f_equal. lia.
  - inversion Hm as [|? ? Hp Hm']; subst. cbn [ttoks flat_map]. unfold wt_step_l.
    destruct Hp as [[Ee _]|(k & Ee)]; rewrite Ee.
    + cbn [emit_items tokens_of app writer_tokens k_ty k_bytes k_s k_e].
      rewrite IH by exact Hm'. cbn [app]. f_equal. f_equal. lia.
    + cbn [emit_items tokens_of app writer_tokens k_ty k_bytes k_s k_e].
      replace (off + zlen (g_gap p) + zlen (g_b p)) with (off + zlen (g_gap p) + zlen (g_b p)) by reflexivity.
      rewrite IH by exact Hm'. cbn [app]. f_equal; [f_equal; lia|]. f_equal. f_equal. lia.
Qed.

Lemma eshape_regap : forall ps gs, length gs = length ps -> eshape ps -> eshape (regap ps gs).
Proof.
  induction ps as [|p r IH]; intros gs Hl Hm; destruct gs as [|g gs']; simpl in Hl; try lia; [constructor|].
  inversion Hm; subst. cbn [regap]. constructor; [unfold ty_of in *; cbn [set_gap g_emit]; assumption|].
  apply IH; [lia|assumption].
Qed.

Lemma merge2_cons_ne x r : ty x <> TokenCHeredoc -> merge2 (x :: r) = x :: merge2 r.
Proof.
  intro H. destruct r as [|y f]; [reflexivity|]. rewrite merge2_cons2.
  apply Z.eqb_neq in H. rewrite H. reflexivity.
Qed.

Lemma aligned_merge g : forall ps body, eshape ps ->
  map skel body = map skel (flat_map (wt_step_l g) ps) -> aligned ps (merge2 body).
Proof.
  induction ps as [|p r IH]; intros body Hm Hsk.
  - destruct body; [split; reflexivity|discriminate].
  - inversion Hm as [|? ? Hp Hm']; subst. cbn [flat_map] in Hsk. unfold wt_step_l in Hsk.
    destruct Hp as [[Ee Hne]|(k & Ee)]; rewrite Ee in Hsk.
    + destruct body as [|x body']; [discriminate|]. cbn [app map] in Hsk. injection Hsk as E1 E2 E3 Hr.
      rewrite merge2_cons_ne by (rewrite E1; exact Hne).
      destruct (IH body' Hm' Hr) as [Ha Hb]. split; cbn [map]; [rewrite E2, Ha|rewrite E1, Hb]; reflexivity.
    + destruct body as [|x1 [|x2 body']]; try discriminate. cbn [app map] in Hsk.
      injection Hsk as E1 E2 E3 F1 F2 F3 Hr.
      rewrite merge2_cons2. rewrite E1. cbn [Z.eqb]. rewrite Z.eqb_refl.
      destruct (IH body' Hm' Hr) as [Ha Hb]. split; cbn [map bytes ty].
      * rewrite E2, F2, firstn_skipn, Ha. reflexivity.
      * rewrite Hb. unfold ty_of. rewrite Ee. reflexivity.
Qed.

Lemma wt_regap_body g : forall ps body, eshape ps ->
  map skel body = map skel (flat_map (wt_step_l g) ps) ->
  forallb (fun t => 0 <=? sp t) body = true ->
  (forall x y f0 f1, body = f0 ++ x :: y :: f1 -> ty x = TokenCHeredoc -> sp y = 0) ->
  flat_map (wt_step_l g) (regap ps (gaps_of (merge2 body))) = body.
Proof.
  induction ps as [|p r IH]; intros body Hm Hsk Hnn Hch.
  - destruct body; [reflexivity|discriminate].
  - inversion Hm as [|? ? Hp Hm']; subst. cbn [flat_map] in Hsk. unfold wt_step_l in Hsk.
    destruct Hp as [[Ee Hne]|(k & Ee)]; rewrite Ee in Hsk.
    + destruct body as [|x body']; [discriminate|]. cbn [app map] in Hsk. injection Hsk as E1 E2 E3 Hr.
      rewrite merge2_cons_ne by (rewrite E1; exact Hne).
      cbn [forallb] in Hnn. apply andb_true_iff in Hnn. destruct Hnn as [Hx Hnn]. apply Z.leb_le in Hx.
      cbn [gaps_of map regap flat_map]. fold (gaps_of (merge2 body')).
      rewrite IH; auto.
      * unfold wt_step_l. cbn [set_gap g_emit g_b g_gap]. rewrite Ee. cbn [app]. f_equal.
        rewrite zlen_spaces by exact Hx. destruct x as [tx bx gx sx]. cbn in *. subst. reflexivity.
      * intros x0 y f0 f1 Eb. apply (Hch x0 y (x :: f0) f1). rewrite Eb. reflexivity.
    + destruct body as [|x1 [|x2 body']]; try discriminate. cbn [app map] in Hsk.
      injection Hsk as E1 E2 E3 F1 F2 F3 Hr.
      rewrite merge2_cons2. rewrite E1. cbn [Z.eqb]. rewrite Z.eqb_refl.
      cbn [forallb] in Hnn. apply andb_true_iff in Hnn. destruct Hnn as [Hx1 Hnn].
      apply andb_true_iff in Hnn. destruct Hnn as [Hx2 Hnn]. apply Z.leb_le in Hx1.
      assert (Hs2 : sp x2 = 0) by (apply (Hch x1 x2 [] body'); [reflexivity|exact E1]).
      cbn [gaps_of map regap flat_map sp]. fold (gaps_of (merge2 body')).
      rewrite IH; auto.
      * unfold wt_step_l. cbn [set_gap g_emit g_b g_gap]. rewrite Ee. cbn [app]. f_equal; [|f_equal].
        -- rewrite zlen_spaces by exact Hx1. destruct x1 as [tx bx gx sx]. cbn in *. subst. reflexivity.
        -- destruct x2 as [tx bx gx sx]. cbn in *. subst. reflexivity.
      * intros x0 y f0 f1 Eb. apply (Hch x0 y (x1 :: x2 :: f0) f1). rewrite Eb. reflexivity.
Qed.

Lemma layout_ch : forall f0 out x y f1, layout_okb out = true -> out = f0 ++ x :: y :: f1 ->
  ty x = TokenCHeredoc -> sp y = 0.
Proof.
  induction f0 as [|a f0 IH]; intros out x y f1 Hl -> Hx.
  - cbn [app] in Hl. destruct (layout_cons _ _ Hl) as (_ & _ & _ & Hch & _). exact (Hch Hx).
  - cbn [app] in Hl. destruct (layout_cons _ _ Hl) as (_ & _ & _ & _ & Hl'). eapply IH; [exact Hl'|reflexivity|exact Hx].
Qed.

Lemma Inv_init : Inv (init_state MMain).
Proof.
  split; [apply hinv_init; left; reflexivity|]. split.
  - unfold okmodes, init_state. cbn. constructor; [left; reflexivity|constructor].
  - unfold mkinv, init_state. cbn. constructor.
Qed.

Lemma layout_nonneg : forall out, layout_okb out = true -> forallb (fun t => 0 <=? sp t) out = true.
Proof.
  induction out as [|x f IH]; intro H; [reflexivity|]. destruct (layout_cons _ _ H) as (H1 & _ & _ & _ & H4).
  cbn [forallb]. rewrite IH by exact H4. rewrite andb_true_r. apply Z.leb_le. exact H1.
Qed.

(* every source that lexes cleanly: the local layout condition on format's output suffices *)
Theorem relex_exact_clean g data ks :
  lex_main data = Some ks -> lexes_clean ks = true ->
  layout_okb (format (writer_tokens g 0 ks)) = true ->
  exists ks', relex (format (writer_tokens g 0 ks)) = Some ks' /\
              writer_tokens g 0 ks' = format (writer_tokens g 0 ks).
Proof.
  intros Hlex Hclean Hlay. unfold lex_main in Hlex.
  destruct (hcl_scan MMain data) as [its fin] eqn:Hscan. destruct fin; try discriminate.
  inversion Hlex; subst ks. clear Hlex.
  unfold hcl_scan, scan in Hscan. fold M0 in Hscan. unfold lexes_clean in Hclean.
  destruct (run_trace _ _ _ _ _ Hscan Hclean) as (ps & tg & Hdata & Htr & Htk).
  rewrite Htk in Hclean.
  pose proof (gen_trace_of ps _ tg 0 Htr Inv_init Hclean) as Hg.
  destruct (gen_trace_eshape _ _ Hg) as [Hesh Hneof].
  rewrite Htk in *. rewrite (wt_ttoks_gen g ps tg 0 Hesh) in *.
  set (body0 := flat_map (wt_step_l g) ps) in *. set (e := wt_eof g tg) in *.
  assert (Hnoeof : forallb (fun t => negb (is (ty t) TokenEOF)) body0 = true).
  { subst body0. clear -Hneof Hesh. induction ps as [|p r IH]; [reflexivity|].
    inversion Hneof as [|? ? Hp Hn']; subst. inversion Hesh as [|? ? Hs Hs']; subst.
    cbn [flat_map]. rewrite forallb_app, (IH Hs' Hn'), andb_true_r. unfold wt_step_l.
    destruct Hs as [[Ee _]|(k & Ee)]; rewrite Ee in *; cbn [forallb ty]; unfold is.
    - destruct (Hp _ (or_introl eq_refl)) as [_ H]. apply Z.eqb_neq in H. rewrite H. reflexivity.
    - reflexivity. }
  destruct (format_eof_last body0 e Hnoeof eq_refl) as (body & Hfmt & Hsk).
  rewrite Hfmt in *.
  pose proof (aligned_merge g ps body Hesh Hsk) as Hal.
  assert (Hspe : 0 <= sp e) by (unfold e, wt_eof; cbn [sp]; apply zlen_nonneg).
  assert (Htg0 : tg = [] -> sp e = 0) by (intros ->; reflexivity).
  pose proof (layout_LO e (length body) body (le_n _) Hlay) as HLO.
  pose proof (regap_cond_gen e eq_refl ps _ tg (merge2 body) Htr Hg Hal Htg0 HLO) as Hcond.
  pose proof (regap_trace _ _ _ _ _ Htr Hcond) as Htr'.
  destruct (trace_run _ _ _ 0 Htr') as (fuel & its' & Hrun & Htk').
  rewrite <- (write_regap e eq_refl ps (merge2 body) (proj1 Hal)) in Hrun.
  rewrite (write_merge2 e (length body) body (le_n _) Hlay) in Hrun.
  apply run_scan_agree in Hrun.
  exists (tokens_of its'). split.
  - unfold relex, lex_main. rewrite Hrun. reflexivity.
  - rewrite Htk'.
    assert (Hlen : length (gaps_of (merge2 body)) = length ps).
    { unfold gaps_of. rewrite map_length. destruct Hal as [Hb _]. apply (f_equal (@length _)) in Hb. rewrite !map_length in Hb. exact Hb. }
    rewrite (wt_ttoks_gen g _ _ 0 (eshape_regap ps _ Hlen Hesh)).
    pose proof (layout_nonneg _ Hlay) as Hnn. rewrite forallb_app in Hnn.
    apply andb_true_iff in Hnn. destruct Hnn as [Hnn _].
    rewrite (wt_regap_body g ps body Hesh Hsk Hnn).
    + f_equal. f_equal. unfold e, wt_eof. cbn [sp]. rewrite zlen_spaces by apply zlen_nonneg. reflexivity.
    + intros x y f0 f1 Eb Hx. apply (layout_ch f0 (body ++ [e]) x y (f1 ++ [e]) Hlay); [|exact Hx].
      rewrite Eb, <- app_assoc. reflexivity.
Qed.

(* ==== 6. the formatter establishes the layout condition ======================== *)

Definition b2z (b : bool) : Z := if b then 1 else 0.

(* inside one cell every token but the first carries the verdict of space_after *)
Fixpoint go_fine (bf s : tok) (rest : list tok) : Prop :=
  match rest with
  | [] => True
  | a :: r => sp a = b2z (space_after s bf a) /\ go_fine s a r
  end.
Definition cell_fine (c : list tok) : Prop :=
  match c with [] => True | t :: r => go_fine nil_tok t r end.

Lemma sk_set_sp t n : sk_eq (set_sp t n) t.
Proof. reflexivity. Qed.

Lemma go_fine_spaces_go : forall rest bf s, go_fine bf s (spaces_go bf s rest).
Proof.
  induction rest as [|a r IH]; intros bf s; cbn [spaces_go go_fine]; [exact I|]. split; [|apply IH].
  cbn [set_sp sp].
  rewrite (space_after_sk s s bf bf (set_sp a (if space_after s bf a then 1 else 0)) a
             (sk_eq_refl s) (sk_eq_refl bf) (sk_set_sp a _)).
  reflexivity.
Qed.

Lemma cell_fine_spaces_cell l : cell_fine (spaces_cell l).
Proof. destruct l as [|t r]; [exact I|]. cbn [spaces_cell cell_fine]. apply go_fine_spaces_go. Qed.

Lemma go_fine_sk : forall r bf bf' s s', sk_eq bf bf' -> sk_eq s s' -> go_fine bf s r -> go_fine bf' s' r.
Proof.
  induction r as [|a r IH]; intros bf bf' s s' Hb Hs H; [exact I|]. cbn [go_fine] in *.
  destruct H as [H1 H2]. split.
  - rewrite H1. rewrite (space_after_sk s s' bf bf' a a Hs Hb (sk_eq_refl a)). reflexivity.
  - eapply IH; [exact Hs|apply sk_eq_refl|exact H2].
Qed.

Lemma cell_fine_set_first c n : cell_fine c -> cell_fine (set_first_sp c n).
Proof.
  destruct c as [|t r]; [auto|]. cbn [set_first_sp cell_fine]. intro H.
  eapply go_fine_sk; [apply sk_eq_refl| |exact H]. unfold sk_eq. reflexivity.
Qed.

Definition first_sp_ge (n : Z) (c : list tok) : Prop :=
  match c with [] => True | t :: _ => n <= sp t end.

Definition line_shape (l : line) : Prop :=
  (match assign l with t :: _ => ty t = TokenEqual | [] => True end) /\
  (match comment l with [] => True | [t] => ty t = TokenComment | _ => False end).

(* ---- mk_line --------------------------------------------------------------------------- *)

Lemma find_assign_shape : forall l pre ld asg,
  find_assign pre l = Some (ld, asg) -> exists t r, asg = t :: r /\ ty t = TokenEqual.
Proof.
  induction l as [|t l IH]; intros pre ld asg H; cbn [find_assign] in H; [discriminate|].
  destruct pre as [|p pre']; [eapply IH; exact H|].
  destruct (is (ty t) TokenEqual) eqn:E.
  - destruct (net_brackets (t :: l) =? 0); [|discriminate]. inversion H; subst.
    exists t, l. split; [reflexivity|]. apply Z.eqb_eq. exact E.
  - eapply IH; exact H.
Qed.

Lemma mk_line_shape l : line_shape (mk_line l).
Proof.
  rewrite mk_line_eq. destruct (split_comment l) as [l1 c] eqn:E.
  assert (Hc : match c with [] => True | [t] => ty t = TokenComment | _ => False end).
  { unfold split_comment in E. destruct (rev l) as [|t [|t' r]]; try (inversion E; subst; exact I).
    destruct (is (ty t) TokenComment) eqn:Et; inversion E; subst; [apply Z.eqb_eq; exact Et|exact I]. }
  destruct (find_assign [] l1) as [[ld asg]|] eqn:F; unfold line_shape; cbn [lead assign comment].
  - destruct (find_assign_shape _ _ _ _ F) as (t & r & -> & Ht). split; [exact Ht|exact Hc].
  - split; [exact I|exact Hc].
Qed.

(* ---- the passes, line by line --------------------------------------------------------------- *)

(* invariant of a line w.r.t. the raw tokens it was made from *)
Definition LI1 (raw : list tok) (l : line) : Prop :=
  map skel (line_toks l) = map skel raw /\ line_shape l /\ first_sp_ge 0 (lead l).
Definition LI2 (raw : list tok) (l : line) : Prop :=
  LI1 raw l /\ cell_fine (lead l) /\ cell_fine (assign l) /\ first_sp_ge 1 (assign l).
Definition LI4 (raw : list tok) (l : line) : Prop :=
  LI2 raw l /\ first_sp_ge 1 (comment l).

Lemma indent_line_LI1 ind raw l :
  map skel (line_toks l) = map skel raw -> line_shape l -> LI1 raw (snd (indent_line ind l)).
Proof.
  intros Hs Hsh. unfold LI1. rewrite msk_indent_line. split; [exact Hs|].
  unfold indent_line. destruct (lead l) as [|t0 r0] eqn:E.
  { cbn [snd]. split; [exact Hsh|]. rewrite E. exact I. }
  assert (X : forall n, 0 <= n -> line_shape (with_lead l (set_first_sp (t0 :: r0) n)) /\
                                  first_sp_ge 0 (lead (with_lead l (set_first_sp (t0 :: r0) n)))).
  { intros n Hn. split; [exact Hsh|]. cbn. exact Hn. }
  destruct (is (ty t0) TokenNewline); [apply X; lia|].
  match goal with |- context [0 <? ?x] => destruct (0 <? x); [apply X; lia|] end.
  match goal with |- context [?x <? 0] => destruct (x <? 0); apply X; lia end.
Qed.

Lemma format_indent_LI1 : forall raws ls ind,
  Forall2 (fun raw l => map skel (line_toks l) = map skel raw /\ line_shape l) raws ls ->
  Forall2 LI1 raws (format_indent ind ls).
Proof.
  induction raws as [|raw raws IH]; intros ls ind H; inversion H; subst; cbn [format_indent]; [constructor|].
  match goal with Hy : _ /\ _, Hr : Forall2 _ raws _ |- context [indent_line ind ?y] =>
    destruct (indent_line ind y) as [ind2 l2] eqn:E; constructor;
    [ replace l2 with (snd (indent_line ind y)) by (rewrite E; reflexivity);
      destruct Hy as [Ha Hb]; apply indent_line_LI1; assumption
    | apply IH; exact Hr ] end.
Qed.

Lemma format_spaces_LI2 raw l : LI1 raw l -> LI2 raw (format_spaces l).
Proof.
  intros (Hs & (Ha & Hc) & Hl). unfold LI2, LI1. rewrite msk_format_spaces.
  unfold format_spaces, line_shape. cbn [lead assign comment].
  repeat split; auto; try apply cell_fine_spaces_cell.
  - destruct (assign l) as [|t r]; [exact I|]. cbn. exact Ha.
  - destruct (lead l) as [|t r]; [exact I|]. cbn in *. exact Hl.
  - destruct (assign l) as [|t r]; [exact I|]. cbn. lia.
Qed.

(* cells: every line that has the cell gets a value >= 1 *)
Lemma maxZ0_ge : forall l z, In z l -> z <= maxZ0 l.
Proof.
  induction l as [|a l IH]; intros z Hz; [destruct Hz|].
  unfold maxZ0 in *. cbn [fold_right]. destruct Hz as [->|H]; [lia|]. specialize (IH z H). lia.
Qed.

Lemma take_chain_has has : forall ls c rest, take_chain has ls = (c, rest) -> Forall (fun l => has l = true) c.
Proof.
  induction ls as [|l r IH]; intros c rest H; cbn [take_chain] in H.
  - inversion H; subst. constructor.
  - destruct (has l) eqn:E.
    + destruct (take_chain has r) as [c' rest'] eqn:E'. inversion H; subst.
      constructor; [exact E|eapply IH; reflexivity].
    + inversion H; subst. constructor.
Qed.

Section CellsSpec.
  Variables (has : line -> bool) (width : line -> Z) (setc : line -> Z -> line).

  Definition cell_set (l l' : line) : Prop :=
    if has l then exists n, 1 <= n /\ l' = setc l n else l' = l.

  Lemma cells_spec : forall f ls, (length ls <= f)%nat -> Forall2 cell_set ls (cells f has width setc ls).
  Proof.
    induction f as [|f IH]; intros ls Hl.
    - destruct ls; [constructor|simpl in Hl; lia].
    - cbn [cells]. destruct ls as [|l r]; [constructor|].
      destruct (has l) eqn:E.
      + destruct (take_chain has (l :: r)) as [c rest] eqn:Et.
        pose proof (take_chain_app _ _ _ _ Et) as Happ. pose proof (take_chain_has _ _ _ _ Et) as Hhas.
        rewrite <- Happ. apply Forall2_app.
        * clear -Hhas. set (m := maxZ0 (map width c)).
          assert (Hm : forall x, In x c -> width x <= m).
          { intros x Hx. apply maxZ0_ge. apply in_map. exact Hx. }
          clearbody m. induction c as [|x c IHc]; [constructor|]. inversion Hhas; subst. constructor.
          -- unfold cell_set. rewrite H1. exists (m - width x + 1). split; [|reflexivity].
             specialize (Hm x (or_introl eq_refl)). lia.
          -- apply IHc; [assumption|]. intros y Hy. apply Hm. right. exact Hy.
        * apply IH. cbn [take_chain] in Et. rewrite E in Et.
          destruct (take_chain has r) as [c' rest'] eqn:E'. inversion Et; subst.
          apply (f_equal (@length _)) in Happ. rewrite app_length in Happ. simpl in *. lia.
      + constructor; [unfold cell_set; rewrite E; reflexivity|]. apply IH. simpl in Hl. lia.
  Qed.
End CellsSpec.

Lemma Forall2_chain {A B} (P P' : A -> B -> Prop) (Q : B -> B -> Prop) :
  (forall x y z, P x y -> Q y z -> P' x z) ->
  forall a b c, Forall2 P a b -> Forall2 Q b c -> Forall2 P' a c.
Proof.
  intros H a. induction a as [|x a IH]; intros b c Hab Hbc; inversion Hab; subst; inversion Hbc; subst; constructor.
  - eapply H; eassumption.
  - eapply IH; eassumption.
Qed.

Lemma set_assign_LI2 raw l n : 1 <= n -> LI2 raw l -> LI2 raw (set_assign_sp l n).
Proof.
  intros Hn ((Hs & (Ha & Hc) & Hl) & Hcl & Hca & Hg). unfold LI2, LI1.
  rewrite msk_set_assign_sp. unfold set_assign_sp, line_shape. cbn [lead assign comment].
  repeat split; auto.
  - destruct (assign l) as [|t r]; [exact I|]. cbn. exact Ha.
  - apply cell_fine_set_first. exact Hca.
  - destruct (assign l) as [|t r]; [exact I|]. cbn. exact Hn.
Qed.

Lemma set_comment_LI4 raw l n : 1 <= n -> LI2 raw l -> LI4 raw (set_comment_sp l n).
Proof.
  intros Hn ((Hs & (Ha & Hc) & Hl) & Hcl & Hca & Hg). unfold LI4, LI2, LI1.
  rewrite msk_set_comment_sp. unfold set_comment_sp, line_shape. cbn [lead assign comment].
  repeat split; auto.
  - destruct (comment l) as [|t [|t' r]]; cbn; auto.
  - destruct (comment l) as [|t r]; [exact I|]. cbn. exact Hn.
Qed.

Lemma pipeline_LI4 raws :
  Forall2 LI4 raws (pipeline raws).
Proof.
  unfold pipeline, format_cells.
  set (l0 := map mk_line raws).
  assert (H0 : Forall2 (fun raw l => map skel (line_toks l) = map skel raw /\ line_shape l) raws l0).
  { subst l0. induction raws as [|r raws IH]; cbn [map]; constructor; [|exact IH].
    split; [rewrite mk_line_tile; reflexivity|apply mk_line_shape]. }
  pose proof (format_indent_LI1 raws l0 [] H0) as H1.
  set (l1 := format_indent [] l0) in *.
  assert (H2 : Forall2 LI2 raws (map format_spaces l1)).
  { clear -H1. induction H1; cbn [map]; constructor; [apply format_spaces_LI2; assumption|assumption]. }
  set (l2 := map format_spaces l1) in *.
  set (l3 := cells (S (length l2)) has_assign (fun l => columns (lead l)) set_assign_sp l2).
  assert (H3 : Forall2 LI2 raws l3).
  { eapply (Forall2_chain LI2 LI2 (cell_set has_assign set_assign_sp)); [|exact H2|apply cells_spec; lia].
    intros raw y z Hy Hz. unfold cell_set in Hz. destruct (has_assign y).
    - destruct Hz as (n & Hn & ->). apply set_assign_LI2; assumption.
    - subst z. exact Hy. }
  assert (Hlen : length l3 = length l2) by (subst l3; apply cells_length).
  rewrite <- Hlen.
  eapply (Forall2_chain LI2 LI4 (cell_set has_comment set_comment_sp)); [|exact H3|apply cells_spec; lia].
  intros raw y z Hy Hz. unfold cell_set in Hz. destruct (has_comment y) eqn:Ec.
  - destruct Hz as (n & Hn & ->). apply set_comment_LI4; assumption.
  - subst z. split; [exact Hy|]. unfold has_comment in Ec. destruct (comment y); [exact I|discriminate].
Qed.

(* ---- the flat output, pair by pair ---------------------------------------------------------- *)

(* why a token may have been treated as the first of its cell (before = nil) *)
Definition just (prev t : tok) : Prop :=
  tok_is_newline prev = true \/ ty prev = TokenNil \/ ty t = TokenEqual \/ ty t = TokenComment.

Definition bf_ok (prev x bf : tok) : Prop := bf = prev \/ (bf = nil_tok /\ just prev x).

(* the first token of an assign or comment cell *)
Definition cellfirst (y : tok) : Prop := 1 <= sp y /\ (ty y = TokenEqual \/ ty y = TokenComment).

(* y directly after x: y starts a line (x is newline-like), or starts a cell, or carries
   exactly the verdict of space_after *)
Definition pairP (prev x y : tok) : Prop :=
  0 <= sp y /\
  (tok_is_newline x = true \/ cellfirst y \/
   exists bf, bf_ok prev x bf /\ sp y = b2z (space_after x bf y)).

Fixpoint fine (prev : tok) (l : list tok) : Prop :=
  match l with
  | x :: ((y :: _) as r) => pairP prev x y /\ fine x r
  | _ => True
  end.

Definition link (x y : tok) : Prop := 0 <= sp y /\ (tok_is_newline x = true \/ cellfirst y).

Lemma link_pairP p x y : link x y -> pairP p x y.
Proof. intros [H1 [H2|H2]]; split; auto. Qed.

Lemma fine_go : forall r bf s prev, go_fine bf s r ->
  (bf = prev \/ (bf = nil_tok /\ just prev s)) -> fine prev (s :: r).
Proof.
  induction r as [|a r IH]; intros bf s prev H Hb; [exact I|].
  cbn [go_fine] in H. destruct H as [H1 H2]. cbn [fine]. split.
  - split; [rewrite H1; destruct (space_after s bf a); cbn; lia|].
    right. right. exists bf. split; [exact Hb|exact H1].
  - eapply IH; [exact H2|left; reflexivity].
Qed.

Lemma fine_app_link : forall l1 prev d y l2, l1 <> [] ->
  fine prev l1 -> link (last l1 d) y -> fine (last l1 d) (y :: l2) -> fine prev (l1 ++ y :: l2).
Proof.
  induction l1 as [|x l1 IH]; intros prev d y l2 Hne Hf Hl Hr; [contradiction|].
  destruct l1 as [|x2 l1'].
  - cbn [app last] in *. cbn [fine]. split; [apply link_pairP; exact Hl|exact Hr].
  - cbn [fine] in Hf. destruct Hf as [Hp Hf]. change ((x :: x2 :: l1') ++ y :: l2) with (x :: (x2 :: l1') ++ y :: l2).
    cbn [app fine]. split; [exact Hp|].
    change (x2 :: l1' ++ y :: l2) with ((x2 :: l1') ++ y :: l2).
    apply (IH x d y l2); [discriminate|exact Hf| |].
    + exact Hl.
    + exact Hr.
Qed.

Lemma fine_single_any prev x : fine prev [x].
Proof. exact I. Qed.

(* one formatted line, given what precedes it *)
Definition lead_just (prev : tok) : Prop := tok_is_newline prev = true \/ ty prev = TokenNil.

Lemma fine_cell_first prev c :
  cell_fine c -> (match c with t :: _ => just prev t | [] => True end) -> fine prev c.
Proof.
  destruct c as [|t r]; [intros; exact I|]. cbn [cell_fine]. intros H Hj.
  eapply fine_go; [exact H|right; split; [reflexivity|exact Hj]].
Qed.

Lemma cell_link x y : cellfirst y -> link x y.
Proof. intros [H1 H2]. split; [lia|]. right. split; assumption. Qed.

Lemma pairP_zero prev x y : pairP prev x y -> sp y = 0 ->
  tok_is_newline x = true \/ space_after x prev y = false \/ (space_after x nil_tok y = false /\ just prev x).
Proof.
  intros [_ [H|[[H _]|(bf & Hb & H)]]] H0; [left; exact H|lia|].
  rewrite H0 in H. destruct (space_after x bf y) eqn:E; [discriminate|].
  destruct Hb as [->|[-> Hj]]; [right; left; exact E|right; right; split; assumption].
Qed.

Lemma fine_line raw l prev : LI4 raw l -> lead_just prev -> fine prev (line_toks l).
Proof.
  intros (((Hs & (Ha & Hc) & Hl) & Hcl & Hca & Hg) & Hgc) Hj. unfold line_toks.
  (* the comment cell: at most one token *)
  assert (Hcom : forall p, fine p (comment l)).
  { intro p. destruct (comment l) as [|t [|t' r]]; try exact I. contradiction. }
  (* assign ++ comment *)
  assert (Hac : forall p, fine p (assign l ++ comment l)).
  { intro p. destruct (assign l) as [|ta ra] eqn:Ea; [apply Hcom|].
    assert (Hfa : fine p (ta :: ra)).
    { apply fine_cell_first; [exact Hca|]. right. right. left. exact Ha. }
    destruct (comment l) as [|tc rc] eqn:Ec; [rewrite app_nil_r; exact Hfa|].
    apply (fine_app_link (ta :: ra) p nil_tok tc rc); [discriminate|exact Hfa| |].
    - apply cell_link. split; [exact Hgc|]. right. destruct rc; [exact Hc|contradiction].
    - apply Hcom. }
  destruct (lead l) as [|tl rl] eqn:El; [apply Hac|].
  assert (Hfl : fine prev (tl :: rl)).
  { apply fine_cell_first; [exact Hcl|]. destruct Hj as [Hj|Hj]; [left; exact Hj|right; left; exact Hj]. }
  destruct (assign l ++ comment l) as [|y r2] eqn:E2; [rewrite app_nil_r; exact Hfl|].
  apply (fine_app_link (tl :: rl) prev nil_tok y r2); [discriminate|exact Hfl| |].
  - apply cell_link. destruct (assign l) as [|ta ra]; cbn [app] in E2.
    + destruct (comment l) as [|tc rc]; [discriminate|].
      assert (Htc : ty tc = TokenComment) by (destruct rc; [exact Hc|contradiction]).
      inversion E2; subst. split; [exact Hgc|]. right. exact Htc.
    + inversion E2; subst. split; [exact Hg|]. left. exact Ha.
  - apply Hac.
Qed.

Lemma line_first_nonneg raw l : LI4 raw l ->
  match line_toks l with t :: _ => 0 <= sp t | [] => True end.
Proof.
  intros (((Hs & (Ha & Hc) & Hl) & Hcl & Hca & Hg) & Hgc). unfold line_toks.
  destruct (lead l) as [|tl rl]; [|exact Hl]. cbn [app].
  destruct (assign l) as [|ta ra]; [|cbn in *; lia]. cbn [app].
  destruct (comment l) as [|tc rc]; [exact I|cbn in *; lia].
Qed.

(* ---- lines end with a newline token ----------------------------------------------------------- *)

Definition ends_nl_line (r : list tok) : Prop :=
  match rev r with t :: _ => tok_is_newline t = true | [] => False end.

Lemma ends_nl_rev_cons t cur : tok_is_newline t = true -> ends_nl_line (rev (t :: cur)).
Proof. intro H. unfold ends_nl_line. rewrite rev_involutive. exact H. Qed.

Lemma split_lines_ends : forall ts cur raws e, split_lines ts cur = (raws, e) ->
  Forall ends_nl_line (removelast raws).
Proof.
  induction ts as [|t ts IH]; intros cur raws e H; cbn [split_lines] in H.
  - inversion H; subst. constructor.
  - destruct (is (ty t) TokenEOF).
    + destruct (strip_trailing_eof (rev cur ++ t :: ts)) as [l e0]. inversion H; subst. constructor.
    + destruct (tok_is_newline t) eqn:En.
      * destruct (split_lines ts []) as [ls e0] eqn:Er. inversion H; subst.
        specialize (IH [] ls _ Er).
        destruct ls as [|l1 ls'].
        { (* split_lines never returns no line *) exfalso. clear -Er.
          revert Er. generalize (@nil tok) as c. induction ts as [|t' ts' IHt]; intros c Er; cbn [split_lines] in Er.
          - discriminate.
          - destruct (is (ty t') TokenEOF).
            + destruct (strip_trailing_eof _). discriminate.
            + destruct (tok_is_newline t').
              * destruct (split_lines ts' []). discriminate.
              * eapply IHt. exact Er. }
        cbn [removelast]. constructor; [|exact IH].
        apply ends_nl_rev_cons. exact En.
      * eapply IH. exact H.
Qed.

Lemma last_sk : forall (a b : list tok) d, map skel a = map skel b -> a <> [] -> sk_eq (last a d) (last b d).
Proof.
  induction a as [|x a IH]; intros b d H Hne; [contradiction|]. destruct b as [|y b]; [discriminate|].
  cbn [map] in H. injection H as E1 E2 E3 Hr.
  destruct a as [|x2 a']; destruct b as [|y2 b']; try discriminate.
  - cbn. unfold sk_eq, skel. rewrite E1, E2, E3. reflexivity.
  - change (last (x :: x2 :: a') d) with (last (x2 :: a') d).
    change (last (y :: y2 :: b') d) with (last (y2 :: b') d). apply IH; [exact Hr|discriminate].
Qed.

Lemma ends_nl_last r : ends_nl_line r -> r <> [] /\ tok_is_newline (last r nil_tok) = true.
Proof.
  unfold ends_nl_line. destruct (rev r) as [|t r'] eqn:E; [contradiction|]. intro H.
  assert (Er : r = rev r' ++ [t]) by (rewrite <- (rev_involutive r), E; reflexivity).
  split; [rewrite Er; destruct (rev r'); discriminate|]. rewrite Er, last_last. exact H.
Qed.

Lemma fine_flat : forall raws lines prev,
  Forall2 LI4 raws lines -> Forall ends_nl_line (removelast raws) -> lead_just prev ->
  fine prev (flatten lines) /\ match flatten lines with t :: _ => 0 <= sp t | [] => True end.
Proof.
  induction raws as [|raw raws IH]; intros lines prev H Hn Hj; inversion H; subst.
  - split; exact I.
  - rename y into l. rename l' into ls. rewrite flatten_cons.
    pose proof (fine_line raw l prev H2 Hj) as Hfl.
    pose proof (line_first_nonneg raw l H2) as Hnn.
    destruct raws as [|raw2 raws'].
    + inversion H4; subst. unfold flatten. cbn [map concat]. rewrite app_nil_r. split; assumption.
    + cbn [removelast] in Hn. inversion Hn as [|? ? Hend Hn']; subst.
      destruct (ends_nl_last _ Hend) as [Hne Hlast].
      assert (Hs : map skel (line_toks l) = map skel raw) by (destruct H2 as (((Hs & _) & _) & _); exact Hs).
      assert (Hne' : line_toks l <> []).
      { intro E. rewrite E in Hs. destruct raw; [contradiction|discriminate]. }
      pose proof (last_sk (line_toks l) raw nil_tok Hs Hne') as Hsk.
      assert (Hnl : tok_is_newline (last (line_toks l) nil_tok) = true).
      { rewrite (tok_is_newline_sk _ _ Hsk). exact Hlast. }
      destruct (IH ls (last (line_toks l) nil_tok) H4 Hn' (or_introl Hnl)) as [Hfr Hfn].
      split.
      * destruct (flatten ls) as [|y r2] eqn:Ef; [rewrite app_nil_r; exact Hfl|].
        apply (fine_app_link (line_toks l) prev nil_tok y r2 Hne' Hfl); [|exact Hfr].
        split; [exact Hfn|]. left. exact Hnl.
      * destruct (line_toks l) as [|t r]; [contradiction|]. cbn [app]. exact Hnn.
Qed.


(* ---- first bytes of the tokens of the main scanner --------------------------------------- *)

Definition digits : list Z := [48; 49; 50; 51; 52; 53; 54; 55; 56; 57].

(* the types a simple main-scanner token can have *)
Definition mtypes : list Z :=
  [TokenNumberLit; TokenIdent; TokenComment; TokenNewline; TokenEqualOp; TokenNotEqual;
   TokenGreaterThanEq; TokenLessThanEq; TokenAnd; TokenOr; TokenDoubleColon; TokenEllipsis;
   TokenFatArrow; TokenOBrack; TokenCBrack; TokenOParen; TokenCParen; TokenDot; TokenComma;
   TokenStar; TokenSlash; TokenPercent; TokenPlus; TokenMinus; TokenEqual; TokenLessThan;
   TokenGreaterThan; TokenBang; TokenQuestion; TokenColon; TokenOBrace; TokenCBrace;
   TokenTemplateSeqEnd; TokenOQuote; TokenOHeredoc].

(* possible first bytes, by type (identifiers: everything outside [nonident]) *)
Definition fbl (t : Z) : list Z :=
  if t =? TokenNumberLit then digits
  else if t =? TokenComment then [35; 47]
  else if t =? TokenNewline then [10; 13]
  else if t =? TokenEqualOp then [61] else if t =? TokenNotEqual then [33]
  else if t =? TokenGreaterThanEq then [62] else if t =? TokenLessThanEq then [60]
  else if t =? TokenAnd then [38] else if t =? TokenOr then [124]
  else if t =? TokenDoubleColon then [58] else if t =? TokenEllipsis then [46]
  else if t =? TokenFatArrow then [61]
  else if t =? TokenOBrace then [123] else if t =? TokenCBrace then [125]
  else if t =? TokenTemplateSeqEnd then [125; 126]
  else if t =? TokenOQuote then [34]
  else if t =? TokenOHeredoc then [60]
  else if existsb (Z.eqb t) self_chars then [t]
  else [].

Definition first_ok (t : Z) (c : Z) : Prop :=
  if t =? TokenIdent then existsb (Z.eqb c) nonident = false else In c (fbl t).


Lemma firstn_hd {A} n (c : A) y : firstn (Nat.max 1 n) (c :: y) = c :: firstn (Nat.max 1 n - 1) y.
Proof. destruct (Nat.max 1 n) eqn:E; [lia|]. simpl. rewrite Nat.sub_0_r. reflexivity. Qed.

Lemma main_shape (st : hstate) r s lk n ty st' :
  In r rules_main -> r_match r s = Some (lk, n) -> (0 < lk)%nat ->
  r_act r st (firstn (Nat.max 1 n) s) = Some (EOne ty, st') -> clean_ty ty = true ->
  In ty mtypes /\ exists c b', firstn (Nat.max 1 n) s = c :: b' /\ first_ok ty c.
Proof.
  intros Hin Hm Hlk Ha Hs.
  destruct s as [|c y].
  { exfalso. unfold rules_main, rule_spaces in Hin; cbn [In] in Hin.
    repeat (destruct Hin as [<-|Hin]; [cbn [r_match R] in Hm; try discriminate Hm|]); try destruct Hin.
    all: try (unfold m_lit in Hm; simpl in Hm; discriminate Hm).
    all: try (unfold m_ident in Hm; simpl in Hm; discriminate Hm).
    all: try (unfold m_any_utf8 in Hm; simpl in Hm; discriminate Hm). }
  rewrite firstn_hd in *. set (b' := firstn (Nat.max 1 n - 1) y) in *.
  assert (X : forall t, ty = t -> In t mtypes -> first_ok t c -> In ty mtypes /\ exists c0 b0, c :: b' = c0 :: b0 /\ first_ok ty c0).
  { intros t -> H1 H2. split; [exact H1|]. exists c, b'. split; [reflexivity|exact H2]. }
  unfold rules_main, rule_spaces in Hin; cbn [In] in Hin.
  destruct Hin as [<-|Hin]. { cbn [r_act] in Ha. unfold a_skip in Ha. discriminate. }
  destruct Hin as [<-|Hin].
  { cbn [r_act R] in Ha. unfold a_tok in Ha. inversion Ha; subst ty.
    cbn [r_match R] in Hm. apply m_number_inv in Hm. destruct Hm as (d & r0 & Es & Hd & _). inversion Es; subst.
    apply (X TokenNumberLit eq_refl); [vm_compute; tauto|]. unfold first_ok. cbn. unfold is_digit in Hd.
    assert (48 = d \/ 49 = d \/ 50 = d \/ 51 = d \/ 52 = d \/ 53 = d \/ 54 = d \/ 55 = d \/ 56 = d \/ 57 = d) by lia.
    unfold fbl, digits. cbn. tauto. }
  destruct Hin as [<-|Hin].
  { cbn [r_act R] in Ha. unfold a_tok in Ha. inversion Ha; subst ty.
    cbn [r_match R] in Hm. apply m_ident_inv in Hm. destruct Hm as (_ & Hil & Hn0).
    apply (X TokenIdent eq_refl); [vm_compute; tauto|]. unfold first_ok. cbn.
    apply (ident_first_ne c y). rewrite Hil. exact Hn0. }
  destruct Hin as [<-|Hin].
  { cbn [r_act R] in Ha. unfold a_tok in Ha. inversion Ha; subst ty.
    cbn [r_match R] in Hm. apply m_comment_first in Hm.
    apply (X TokenComment eq_refl); [vm_compute; tauto|]. unfold first_ok. cbn. destruct Hm as [->| ->]; auto. }
  destruct Hin as [<-|Hin].
  { cbn [r_act R] in Ha. unfold a_tok in Ha. inversion Ha; subst ty.
    cbn [r_match R] in Hm. apply m_newline_inv in Hm.
    apply (X TokenNewline eq_refl); [vm_compute; tauto|]. unfold first_ok. cbn.
    destruct Hm as (_ & [[(y0 & Ey) _]|[(y0 & Ey) _]]); inversion Ey; auto. }
  (* nine operator literals *)
  do 9 (destruct Hin as [<-|Hin];
    [ cbn [r_act R] in Ha; unfold a_tok in Ha; inversion Ha; subst ty;
      cbn [r_match R] in Hm; apply m_lit_inv in Hm; destruct Hm as (Hp & _);
      apply is_prefix_hd in Hp; subst c;
      match goal with |- In ?t _ /\ _ => apply (X t eq_refl); [vm_compute; tauto|vm_compute; tauto] end |]).
  destruct Hin as [<-|Hin].
  { cbn [r_match R] in Hm. apply m_self_inv in Hm. destruct Hm as (-> & -> & c0 & y0 & Ey & Hself).
    inversion Ey; subst c0 y0. cbn [r_act R] in Ha. unfold a_self in Ha.
    subst b'. simpl in Ha. inversion Ha; subst ty.
    apply self_chars_cases in Hself. unfold self_chars in Hself. cbn [In] in Hself.
    repeat (destruct Hself as [<-|Hself]); try contradiction;
      try (vm_compute in Hs; discriminate Hs);
      match goal with |- In ?t _ /\ _ => apply (X t eq_refl); [vm_compute; tauto|vm_compute; tauto] end. }
  destruct Hin as [<-|Hin].
  { cbn [r_act R] in Ha. unfold a_open_brace in Ha. inversion Ha; subst ty.
    cbn [r_match R] in Hm. apply m_lit_inv in Hm. destruct Hm as (Hp & _). apply is_prefix_hd in Hp. subst c.
    apply (X TokenOBrace eq_refl); vm_compute; tauto. }
  destruct Hin as [<-|Hin].
  { cbn [r_match R] in Hm. apply m_lit_inv in Hm. destruct Hm as (Hp & _). apply is_prefix_hd in Hp. subst c.
    cbn [r_act R] in Ha. unfold a_close in Ha. destruct (ret_matches st).
    - destruct (fret _); [|discriminate]. inversion Ha; subst ty. apply (X TokenTemplateSeqEnd eq_refl); vm_compute; tauto.
    - inversion Ha; subst ty. apply (X TokenCBrace eq_refl); vm_compute; tauto. }
  destruct Hin as [<-|Hin].
  { cbn [r_match R] in Hm. apply m_lit_inv in Hm. destruct Hm as (Hp & _). apply is_prefix_hd in Hp. subst c.
    cbn [r_act R] in Ha. unfold a_close in Ha. destruct (ret_matches st).
    - destruct (fret _); [|discriminate]. inversion Ha; subst ty. apply (X TokenTemplateSeqEnd eq_refl); vm_compute; tauto.
    - inversion Ha; subst ty. apply (X TokenTemplateSeqEnd eq_refl); vm_compute; tauto. }
  destruct Hin as [<-|Hin].
  { cbn [r_act R] in Ha. unfold a_begin_string in Ha. inversion Ha; subst ty.
    cbn [r_match R] in Hm. apply m_lit_inv in Hm. destruct Hm as (Hp & _). apply is_prefix_hd in Hp. subst c.
    apply (X TokenOQuote eq_refl); vm_compute; tauto. }
  destruct Hin as [<-|Hin].
  { cbn [r_act R] in Ha. apply a_begin_heredoc_emit in Ha. inversion Ha; subst ty.
    cbn [r_match R] in Hm. unfold m_heredoc_begin in Hm. destruct y as [|c1 y']; [discriminate|].
    destruct ((c =? 60) && (c1 =? 60)) eqn:E; [|discriminate]. apply andb_true_iff in E. destruct E as [E _].
    apply Z.eqb_eq in E. subst c. apply (X TokenOHeredoc eq_refl); vm_compute; tauto. }
  destruct Hin as [<-|Hin].
  { exfalso. cbn [r_act R] in Ha. unfold a_tok in Ha. inversion Ha; subst ty. vm_compute in Hs. discriminate. }
  destruct Hin as [<-|Hin].
  { exfalso. cbn [r_act R] in Ha. unfold a_tok in Ha. inversion Ha; subst ty. vm_compute in Hs. discriminate. }
  destruct Hin.
Qed.


(* ---- the space_after table over the types of the fragment (finite exploration) ----------- *)

Lemma space_after_ext s1 s2 b1 b2 a1 a2 :
  ty s1 = ty s2 -> is_in_kw s1 = is_in_kw s2 -> ty b1 = ty b2 -> ty a1 = ty a2 ->
  ident_continues_number a1 = ident_continues_number a2 ->
  space_after s1 b1 a1 = space_after s2 b2 a2.
Proof.
  intros H1 H2 H3 H4 H5. unfold space_after, bracket_change. rewrite H1, H2, H3, H4, H5. reflexivity.
Qed.

Definition mk0 (t : Z) (bs : list Z) : tok := mkTok t bs 0 0.

(* can the formatter put no space between a token of type x and a following one
   of type y (any token before, any bytes)? *)
(* all token types of the fragment (and Nil for "no token before") *)
Definition tltypes : list Z :=
  [TokenQuotedLit; TokenCQuote; TokenTemplateInterp; TokenTemplateControl; TokenStringLit; TokenCHeredoc].
Definition atypes : list Z := TokenNil :: mtypes ++ tltypes.

Definition zero_possible (x y : Z) : bool :=
  existsb (fun bt => existsb (fun sb => existsb (fun ab =>
     negb (space_after (mk0 x sb) (mk0 bt []) (mk0 y ab))) [[122]; [101; 53]]) [[120]; [105; 110]])
    atypes.

Lemma is_in_kw_canon s : is_in_kw (mk0 (ty s) (if is_in_kw s then [105; 110] else [120])) = is_in_kw s.
Proof.
  destruct (is_in_kw s) eqn:E.
  - unfold is_in_kw in *. cbn [ty bytes mk0]. apply andb_true_iff in E. destruct E as [E _]. rewrite E. reflexivity.
  - unfold is_in_kw. cbn [ty bytes mk0]. destruct (is (ty s) TokenIdent); reflexivity.
Qed.

Lemma icn_canon a :
  ident_continues_number (mk0 (ty a) (if ident_continues_number a then [101; 53] else [122]))
  = ident_continues_number a.
Proof.
  unfold ident_continues_number at 1. cbn [ty bytes mk0].
  destruct (ident_continues_number a) eqn:E.
  - unfold ident_continues_number in E. apply andb_true_iff in E. destruct E as [E _]. rewrite E. reflexivity.
  - destruct (is (ty a) TokenIdent); reflexivity.
Qed.

Lemma zero_possible_of x bf y :
  In (ty bf) atypes -> space_after x bf y = false -> zero_possible (ty x) (ty y) = true.
Proof.
  intros Hb H. unfold zero_possible. apply existsb_exists. exists (ty bf). split; [exact Hb|].
  apply existsb_exists. exists (if is_in_kw x then [105; 110] else [120]).
  split; [destruct (is_in_kw x); cbn; tauto|].
  apply existsb_exists. exists (if ident_continues_number y then [101; 53] else [122]).
  split; [destruct (ident_continues_number y); cbn; tauto|].
  apply negb_true_iff. rewrite <- H. symmetry. apply space_after_ext; cbn [ty mk0]; try reflexivity.
  - symmetry. apply is_in_kw_canon.
  - symmetry. apply icn_canon.
Qed.

Definition all_fb (P : Z -> bool) (t : Z) : bool := forallb P (fbl t).

(* first bytes of the one-byte tokens of a type *)
Definition fbl1 (t : Z) : list Z :=
  if t =? TokenTemplateSeqEnd then [125] else if t =? TokenOHeredoc then [] else fbl t.

Definition pair_ok (x y : Z) : bool :=
  if y =? TokenIdent then negb (x =? TokenNumberLit) && negb (x =? TokenIdent)
  else
    ((negb (x =? TokenNumberLit)) || is_dots y || all_fb (fun c => negb (num_byte c)) y) &&
    ((negb (x =? TokenIdent)) || all_fb (fun c => existsb (Z.eqb c) id_stoppers) y) &&
    (forallb (fun cx => all_fb (fun c => negb (existsb (Z.eqb c) (forbidden_next cx))) y) (fbl1 x)).

Definition hazard_pair (x y : Z) : bool :=
  ((x =? TokenBang) && (existsb (Z.eqb 61) (fbl y))) || (is_dots x && is_dots y).

(* finite exploration: all 35 x 35 pairs of main-scanner types, all 42 types before, both
   byte variants of subject and after *)
Lemma pair_table :
  forallb (fun x => forallb (fun y =>
     implb (zero_possible x y) (hazard_pair x y || pair_ok x y)) mtypes) mtypes = true.
Proof. vm_compute. reflexivity. Qed.

(* type-level facts about first bytes *)
Lemma fb_tables :
  forallb (fun t =>
     (* only numbers start with a digit, only names with a name byte *)
     ((t =? TokenNumberLit) || all_fb (fun c => negb (is_digit c)) t) &&
     ((t =? TokenIdent) || all_fb (fun c => negb (id_first c)) t) &&
     (* a type that can start with '=' always does *)
     (negb (existsb (Z.eqb 61) (fbl t)) || all_fb (fun c => c =? 61) t) &&
     (* after "<number>." / "<number>...": nothing but a number, a name or a dot token
        starts with a byte that continues a number *)
     ((t =? TokenNumberLit) || (t =? TokenIdent) || is_dots t || all_fb (fun c => negb (num_byte c)) t) &&
     (* newline-like tokens *)
     (negb ((t =? TokenNewline) || (t =? TokenComment))
      || all_fb (fun c => negb (is_digit c) && negb (id_first c)) t))
    mtypes = true.
Proof. vm_compute. reflexivity. Qed.

Lemma ellipsis_table :
  forallb (fun z => implb (zero_possible TokenEllipsis z)
                          (is_dots z || (negb (z =? TokenIdent) && negb (z =? TokenNumberLit)))) mtypes = true.
Proof. vm_compute. reflexivity. Qed.

(* only the closing "~}" starts with '~' *)
Lemma tilde_table :
  forallb (fun t => implb (existsb (Z.eqb 126) (fbl t)) (t =? TokenTemplateSeqEnd)) mtypes = true.
Proof. vm_compute. reflexivity. Qed.

(* finite exploration: after an opening quote, a literal or a closing "}" of a template
   sequence, a token of the string scanner never gets a space (any token before, any bytes) *)
Lemma tl_table :
  forallb (fun x => forallb (fun y => forallb (fun bt => forallb (fun sb => forallb (fun ab =>
     negb (space_after (mk0 x sb) (mk0 bt []) (mk0 y ab))) [[122]; [101; 53]]) [[120]; [105; 110]])
    atypes) tltypes) tl_before = true.
Proof. vm_compute. reflexivity. Qed.

Lemma tl_space x bf y :
  In (ty x) tl_before -> In (ty y) tltypes -> In (ty bf) atypes -> space_after x bf y = false.
Proof.
  intros Hx Hy Hb. pose proof tl_table as T. rewrite forallb_forall in T. specialize (T _ Hx).
  rewrite forallb_forall in T. specialize (T _ Hy). rewrite forallb_forall in T. specialize (T _ Hb).
  rewrite forallb_forall in T.
  specialize (T (if is_in_kw x then [105; 110] else [120]) ltac:(destruct (is_in_kw x); cbn; tauto)).
  rewrite forallb_forall in T.
  specialize (T (if ident_continues_number y then [101; 53] else [122]) ltac:(destruct (ident_continues_number y); cbn; tauto)).
  apply negb_true_iff in T. rewrite <- T. apply space_after_ext; cbn [ty mk0]; try reflexivity.
  - symmetry. apply is_in_kw_canon.
  - symmetry. apply icn_canon.
Qed.

Lemma forbidden_nonident : forall cx k, In k (forbidden_next cx) -> In k nonident.
Proof.
  intros cx k. unfold forbidden_next.
  repeat match goal with |- context [if ?b then _ else _] => destruct b end;
    unfold nonident; cbn [In]; intuition.
Qed.

Lemma forbidden_of_ident c : existsb (Z.eqb c) nonident = false -> forbidden_next c = [].
Proof.
  intro H. assert (F : forall k, In k nonident -> (c =? k) = false) by (intros; eapply existsb_false_ne; eassumption).
  unfold forbidden_next.
  rewrite (F 61), (F 33), (F 62), (F 60), (F 58), (F 46), (F 47), (F 38), (F 124), (F 126);
    try reflexivity; unfold nonident; cbn [In]; tauto.
Qed.



(* ---- shapes of the tokens of a main-scanner trace -------------------------------------------- *)

Definition tok_shape (t : tok) : Prop :=
  In (ty t) mtypes /\ (exists c b', bytes t = c :: b' /\ first_ok (ty t) c) /\
  (ty t = TokenDot -> bytes t = [46]) /\ (ty t = TokenEllipsis -> bytes t = [46; 46; 46]) /\
  (ty t = TokenTemplateSeqEnd -> forall c, bytes t = [c] -> c = 125) /\
  (ty t = TokenOHeredoc -> (2 <= length (bytes t))%nat).

Lemma is_prefix_firstn p : forall s, is_prefix p s = true -> firstn (length p) s = p.
Proof.
  induction p as [|a p IH]; intros s H; [reflexivity|]. destruct s as [|c s]; [discriminate|].
  simpl in H. apply andb_true_iff in H. destruct H as [H1 H2]. apply Z.eqb_eq in H1. subst c.
  simpl. f_equal. apply IH. exact H2.
Qed.

Lemma main_dots (st : hstate) r s lk n ty st' :
  In r rules_main -> r_match r s = Some (lk, n) ->
  r_act r st (firstn (Nat.max 1 n) s) = Some (EOne ty, st') ->
  (ty = TokenDot -> firstn (Nat.max 1 n) s = [46]) /\
  (ty = TokenEllipsis -> firstn (Nat.max 1 n) s = [46; 46; 46]).
Proof.
  intros Hin Hm Ha.
  unfold rules_main, rule_spaces in Hin; cbn [In] in Hin.
  repeat (destruct Hin as [<-|Hin];
    [ cbn [r_act R] in Ha;
      first
        [ unfold a_skip in Ha; discriminate Ha
        | unfold a_tok in Ha; inversion Ha; subst ty; split; intro Hx; try discriminate Hx;
          cbn [r_match R] in Hm; apply m_lit_inv in Hm; destruct Hm as (Hp & _ & ->);
          apply (is_prefix_firstn [46; 46; 46]); exact Hp
        | cbn [r_match R] in Hm; apply m_self_inv in Hm; destruct Hm as (-> & -> & c0 & y0 & -> & Hself);
          unfold a_self in Ha; simpl in Ha; inversion Ha; subst ty; split; intro Hx;
          [subst c0; reflexivity|subst c0; vm_compute in Hself; discriminate Hself]
        | unfold a_open_brace in Ha; inversion Ha; subst ty; split; intro Hx; discriminate Hx
        | unfold a_close in Ha; destruct (ret_matches st); [destruct (fret _); [|discriminate]|];
          inversion Ha; subst ty; split; intro Hx; discriminate Hx
        | unfold a_begin_string in Ha; inversion Ha; subst ty; split; intro Hx; discriminate Hx
        | apply a_begin_heredoc_emit in Ha; inversion Ha; subst ty; split; intro Hx; discriminate Hx ]
    |]).
  destruct Hin.
Qed.

(* "~}" is two bytes: a one-byte closer is "}" *)
Lemma main_seqend (st : hstate) r s lk n ty st' :
  In r rules_main -> r_match r s = Some (lk, n) ->
  r_act r st (firstn (Nat.max 1 n) s) = Some (EOne ty, st') ->
  ty = TokenTemplateSeqEnd -> forall c, firstn (Nat.max 1 n) s = [c] -> c = 125.
Proof.
  intros Hin Hm Ha.
  unfold rules_main, rule_spaces in Hin; cbn [In] in Hin.
  repeat (destruct Hin as [<-|Hin];
    [ cbn [r_act R] in Ha;
      first
        [ unfold a_skip in Ha; discriminate Ha
        | unfold a_tok in Ha; inversion Ha; subst ty; intro Hx; discriminate Hx
        | cbn [r_match R] in Hm; apply m_self_inv in Hm; destruct Hm as (-> & -> & c0 & y0 & -> & Hself);
          unfold a_self in Ha; simpl in Ha; inversion Ha; subst ty; intro Hx; subst c0;
          vm_compute in Hself; discriminate Hself
        | unfold a_open_brace in Ha; inversion Ha; subst ty; intro Hx; discriminate Hx
        | cbn [r_match R] in Hm; apply m_lit_inv in Hm; destruct Hm as (Hp & _ & ->);
          intros _ c Hc; apply is_prefix_firstn in Hp; cbn [length Nat.max] in *; rewrite Hp in Hc;
          inversion Hc; reflexivity
        | cbn [r_match R] in Hm; apply m_lit_inv in Hm; destruct Hm as (Hp & _ & ->);
          intros _ c Hc; apply is_prefix_firstn in Hp; cbn [length Nat.max] in *; rewrite Hp in Hc;
          discriminate Hc
        | unfold a_begin_string in Ha; inversion Ha; subst ty; intro Hx; discriminate Hx
        | apply a_begin_heredoc_emit in Ha; inversion Ha; subst ty; intro Hx; discriminate Hx ]
    |]).
  destruct Hin.
Qed.

(* tokens of the main scanner have a shape; those of the string scanner are only typed *)
Definition gshape (t : tok) : Prop :=
  if tl_ty (ty t) then In (ty t) tltypes else tok_shape t.

Lemma tl_in t : tl_ty t = true -> In t tltypes.
Proof.
  unfold tl_ty, tltypes. intro H. repeat (apply orb_true_iff in H; destruct H as [H|H]);
    apply Z.eqb_eq in H; subst; cbn [In]; tauto.
Qed.

Lemma main_ohd_len (st : hstate) r s lk n ty st' :
  In r rules_main -> r_match r s = Some (lk, n) ->
  r_act r st (firstn (Nat.max 1 n) s) = Some (EOne ty, st') ->
  ty = TokenOHeredoc -> (2 <= length (firstn (Nat.max 1 n) s))%nat.
Proof.
  intros Hin Hm Ha.
  unfold rules_main, rule_spaces in Hin; cbn [In] in Hin.
  do 19 (destruct Hin as [<-|Hin];
    [ cbn [r_act R] in Ha;
      first
        [ unfold a_skip in Ha; discriminate Ha
        | unfold a_tok in Ha; inversion Ha; subst ty; intro Hx; discriminate Hx
        | cbn [r_match R] in Hm; apply m_self_inv in Hm; destruct Hm as (-> & -> & c0 & y0 & -> & Hself);
          unfold a_self in Ha; simpl in Ha; inversion Ha; subst ty; intro Hx; subst c0;
          vm_compute in Hself; discriminate Hself
        | unfold a_open_brace in Ha; inversion Ha; subst ty; intro Hx; discriminate Hx
        | unfold a_close in Ha; destruct (ret_matches st); [destruct (fret _); [|discriminate]|];
          inversion Ha; subst ty; intro Hx; discriminate Hx
        | unfold a_begin_string in Ha; inversion Ha; subst ty; intro Hx; discriminate Hx ]
    |]).
  destruct Hin as [<-|Hin].
  { intros _. cbn [r_match R] in Hm. pose proof (m_heredoc_begin_same _ _ _ Hm) as ->.
    destruct (heredoc_begin_bound _ _ Hm) as [H1 H2].
    assert (Hn4 : (4 <= n)%nat).
    { unfold m_heredoc_begin in Hm. destruct s as [|c0 [|c1 r0]]; try discriminate.
      destruct ((c0 =? 60) && (c1 =? 60)); [|discriminate]. cbv zeta in Hm.
      destruct (ident_len _); [discriminate|]. destruct (newline_len _); [discriminate|].
      unfold same in Hm. inversion Hm. lia. }
    rewrite firstn_length. lia. }
  repeat (destruct Hin as [<-|Hin];
    [cbn [r_act R] in Ha; unfold a_tok in Ha; inversion Ha; subst ty; intro Hx; discriminate Hx|]).
  destruct Hin.
Qed.

(* the types a step emits *)
Definition stys (p : step) : list Z := emit_types (g_emit p).

Lemma wt_step_tys g p : map ty (wt_step_l g p) = stys p.
Proof. unfold wt_step_l, stys. destruct (g_emit p); reflexivity. Qed.

Lemma shapes_trace g : forall ps st tg,
  trace_ok st ps tg -> gen_trace st ps -> Forall gshape (flat_map (wt_step_l g) ps).
Proof.
  induction ps as [|p r IH]; intros st tg Ht Hg; [constructor|].
  cbn [trace_ok] in Ht. destruct Ht as (Hbl & Hgm & Hne & Hnb & (lk & Hp) & Hb & Ha & He & Htr).
  cbn [gen_trace] in Hg. destruct Hg as (Hi & _ & Hcl & Hsh & Htl & _ & _ & Hg').
  cbn [flat_map]. apply Forall_app. split; [|eapply IH; eassumption].
  unfold wt_step_l. destruct Hsh as [[Ee Hnc]|((k & Ee) & _ & _ & _ & Ht2)].
  - rewrite Ee. constructor; [|constructor].
    unfold gshape. cbn [ty bytes]. destruct (tl_ty (ty_of p)) eqn:Et; [apply tl_in; exact Et|].
    rewrite Htl in Hp. change (hcl_rules MMain) with rules_main in Hp.
    pose proof Hp as Hp2. apply pick_spec in Hp2. destruct Hp2 as [Hx|(Hin & Hmt & Hlk)]; [discriminate|].
    rewrite Ee in Ha. rewrite Hb in Ha.
    assert (Hs : clean_ty (ty_of p) = true) by (apply Hcl; rewrite Ee; left; reflexivity).
    destruct (main_shape st _ _ _ _ _ _ Hin Hmt Hlk Ha Hs) as (Hty & c & b' & Eb & Hf).
    destruct (main_dots st _ _ _ _ _ _ Hin Hmt Ha) as (Hd & Hel).
    pose proof (main_seqend st _ _ _ _ _ _ Hin Hmt Ha) as Hse.
    pose proof (main_ohd_len st _ _ _ _ _ _ Hin Hmt Ha) as Hoh.
    rewrite <- Hb in *.
    unfold tok_shape. cbn [ty bytes]. split; [exact Hty|]. split; [exists c, b'; auto|].
    split; [assumption|]. split; [assumption|]. split; assumption.
  - rewrite Ee. constructor; [|constructor; [|constructor]].
    + unfold gshape. cbn [ty]. cbn. tauto.
    + unfold gshape. cbn [ty bytes]. cbn [tl_ty Z.eqb orb].
      unfold tok_shape. cbn [ty bytes].
      split; [vm_compute; tauto|]. split.
      { destruct (Ht2 _ _ _ Ee) as [E|E]; rewrite E; eexists; eexists; (split; [reflexivity|]); vm_compute; tauto. }
      split; [intro Hx; discriminate Hx|]. split; [intro Hx; discriminate Hx|].
      split; [intro Hx; discriminate Hx|intro Hx; discriminate Hx].
Qed.

Lemma tok_shape_sk a b : sk_eq a b -> tok_shape a -> tok_shape b.
Proof.
  intros H. destruct (sk_eq_inv _ _ H) as (E1 & E2 & _). unfold tok_shape. rewrite E1, E2. auto.
Qed.

(* ---- byte-level consequences ---------------------------------------------------------------------- *)

Lemma forb32 c : existsb (Z.eqb 32) (forbidden_next c) = false.
Proof.
  unfold forbidden_next.
  repeat match goal with |- context [if ?b then _ else _] => destruct b end; reflexivity.
Qed.

Lemma tail_okb_blank b y : tail_okb b (32 :: y) = true.
Proof.
  destruct b as [|c b']; [reflexivity|]. unfold tail_okb.
  replace (num_stopb (32 :: y)) with true by reflexivity.
  replace (id_stopb (32 :: y)) with true by reflexivity.
  rewrite !orb_true_r. cbn [andb]. destruct b'; [|reflexivity]. unfold hd_okb. rewrite forb32. reflexivity.
Qed.

Lemma tail_okb_nil b : tail_okb b [] = true.
Proof.
  destruct b as [|c b']; [reflexivity|]. unfold tail_okb. cbn [num_stopb id_stopb hd_okb].
  rewrite !orb_true_r. destruct b'; reflexivity.
Qed.

Lemma spaces_pos n : 1 <= n -> exists y, spaces n = 32 :: y.
Proof.
  intro H. unfold spaces. destruct (Z.to_nat n) eqn:E; [lia|]. cbn. eauto.
Qed.

Lemma spaces_zero : spaces 0 = [].
Proof. reflexivity. Qed.

Lemma tail_okb_spaces b n w : 0 <= n -> (n = 0 -> tail_okb b w = true) -> tail_okb b (spaces n ++ w) = true.
Proof.
  intros Hn H. destruct (Z.eq_dec n 0) as [->|Hne]; [rewrite spaces_zero; apply H; reflexivity|].
  destruct (spaces_pos n ltac:(lia)) as (y & ->). apply tail_okb_blank.
Qed.

Lemma dots_stop_blank y : dots_stop (32 :: y) = true.
Proof. reflexivity. Qed.

(* a token that neither starts like a number nor like a name, and alone forbids nothing *)
Lemma tail_okb_plain c b' w :
  is_digit c = false -> id_first c = false -> (b' = [] -> hd_okb (forbidden_next c) w = true) ->
  tail_okb (c :: b') w = true.
Proof.
  intros H1 H2 H3. unfold tail_okb. rewrite H1, H2. cbn [negb orb andb].
  destruct b'; [apply H3; reflexivity|reflexivity].
Qed.

(* ---- reading the tables --------------------------------------------------------------------- *)

Lemma fb_facts t : In t mtypes ->
  (t <> TokenNumberLit -> forall c, In c (fbl t) -> is_digit c = false) /\
  (t <> TokenIdent -> forall c, In c (fbl t) -> id_first c = false) /\
  (existsb (Z.eqb 61) (fbl t) = true -> forall c, In c (fbl t) -> c = 61) /\
  (t <> TokenNumberLit -> t <> TokenIdent -> is_dots t = false ->
     forall c, In c (fbl t) -> num_byte c = false).
Proof.
  intro Hin. pose proof fb_tables as F. rewrite forallb_forall in F. specialize (F t Hin).
  apply andb_true_iff in F. destruct F as [F _].
  apply andb_true_iff in F. destruct F as [F F4].
  apply andb_true_iff in F. destruct F as [F F3].
  apply andb_true_iff in F. destruct F as [F1 F2].
  unfold all_fb in *. split; [|split; [|split]].
  - intros Hn c Hc. apply orb_true_iff in F1. destruct F1 as [F1|F1]; [apply Z.eqb_eq in F1; contradiction|].
    rewrite forallb_forall in F1. apply negb_true_iff. apply F1. exact Hc.
  - intros Hn c Hc. apply orb_true_iff in F2. destruct F2 as [F2|F2]; [apply Z.eqb_eq in F2; contradiction|].
    rewrite forallb_forall in F2. apply negb_true_iff. apply F2. exact Hc.
  - intros He c Hc. rewrite He in F3. cbn in F3. rewrite forallb_forall in F3. apply Z.eqb_eq. apply F3. exact Hc.
  - intros H1 H2 H3 c Hc. rewrite H3 in F4.
    apply Z.eqb_neq in H1, H2. rewrite H1, H2 in F4. cbn in F4.
    rewrite forallb_forall in F4. apply negb_true_iff. apply F4. exact Hc.
Qed.

Lemma first_not_digit t c : In t mtypes -> first_ok t c -> t <> TokenNumberLit -> is_digit c = false.
Proof.
  intros Hin Hf Hn. unfold first_ok in Hf. destruct (t =? TokenIdent) eqn:E.
  - destruct (nonident_facts c Hf) as (_ & Hd & _). exact Hd.
  - destruct (fb_facts t Hin) as (H1 & _). apply H1; assumption.
Qed.

Lemma first_not_idfirst t c : In t mtypes -> first_ok t c -> t <> TokenIdent -> id_first c = false.
Proof.
  intros Hin Hf Hn. unfold first_ok in Hf. apply Z.eqb_neq in Hn. rewrite Hn in Hf.
  destruct (fb_facts t Hin) as (_ & H2 & _). apply H2; [apply Z.eqb_neq; exact Hn|exact Hf].
Qed.

Lemma num_byte_false c : num_byte c = false -> is_digit c = false /\ (c =? 46) = false /\ is_e c = false.
Proof.
  unfold num_byte, is_e. intro H. apply orb_false_iff in H. destruct H as [H H3].
  apply orb_false_iff in H. destruct H as [H H2]. apply orb_false_iff in H. destruct H as [H0 H1].
  rewrite H2, H3. auto.
Qed.

Lemma dots_stop_plain c w : num_byte c = false -> dots_stop (c :: w) = true.
Proof.
  intro H. destruct (num_byte_false c H) as (H1 & H2 & H3). unfold is_e in H3.
  cbn [dots_stop]. rewrite H2, H1, H3. reflexivity.
Qed.

Lemma dots_stop_spaces n w : 0 <= n -> (n = 0 -> dots_stop w = true) -> dots_stop (spaces n ++ w) = true.
Proof.
  intros Hn H. destruct (Z.eq_dec n 0) as [->|Hne]; [rewrite spaces_zero; apply H; reflexivity|].
  destruct (spaces_pos n ltac:(lia)) as (y & ->). reflexivity.
Qed.

(* a name that is neither exponent-like nor too short: after `e` the scan stops *)
Lemma exp_fail_of t c r w :
  ty t = TokenIdent -> bytes t = c :: r -> is_e c = true ->
  ident_continues_number t = false -> short_exp (bytes t) = false -> exp_fail (r ++ w) = true.
Proof.
  intros Hty Hb He Hi Hs. unfold ident_continues_number in Hi. rewrite Hty, Hb in Hi.
  unfold is in Hi. rewrite Z.eqb_refl in Hi. cbn [andb] in Hi. unfold is_e in He. rewrite He in Hi. cbn [andb] in Hi.
  rewrite Hb in Hs. unfold short_exp in Hs. unfold is_e in Hs. rewrite He in Hs. cbn [andb] in Hs.
  destruct r as [|d r']; [discriminate Hs|].
  cbn [app exp_fail]. unfold is_digit.
  destruct r' as [|d2 r''].
  - apply orb_false_iff in Hs. destruct Hs as [H45 H43].
    assert (Hd : (48 <=? d) && (d <=? 57) = false).
    { destruct (d =? 45) eqn:E; [discriminate|]. zcase d; try exact Hi; try reflexivity. all: try discriminate E. }
    rewrite Hd, H43, H45. reflexivity.
  - destruct (d =? 43) eqn:E43; [discriminate Hs|].
    destruct (d =? 45) eqn:E45.
    + apply Z.eqb_eq in E45. subst d. cbn in Hi |- *. unfold is_digit. rewrite Hi. reflexivity.
    + assert (Hd : (48 <=? d) && (d <=? 57) = false).
      { zcase d; try exact Hi; try reflexivity. all: try discriminate E45. }
      rewrite Hd. cbn [orb]. reflexivity.
Qed.

(* ---- one pair of adjacent tokens written without a space ------------------------------------ *)

Lemma pair_tail x y w :
  tok_shape x -> tok_shape y -> pair_ok (ty x) (ty y) = true ->
  (ty x = TokenNumberLit -> is_dots (ty y) = true -> dots_stop w = true) ->
  tail_okb (bytes x) (bytes y ++ w) = true.
Proof.
  intros (Hxt & (cx & bx & Ebx & Hfx) & _ & _ & Hxse & Hxoh) (Hyt & (cy & by' & Eby & Hfy) & Hyd & Hye & _) Hp Hdots.
  rewrite Ebx, Eby. cbn [app]. unfold tail_okb.
  unfold pair_ok in Hp.
  apply andb_true_iff. split; [apply andb_true_iff; split|].
  - (* numbers *)
    destruct (Z.eq_dec (ty x) TokenNumberLit) as [En|En].
    2:{ rewrite (first_not_digit _ _ Hxt Hfx En). reflexivity. }
    apply orb_true_iff. right.
    destruct (ty y =? TokenIdent) eqn:Ei.
    { rewrite En in Hp. cbn in Hp. discriminate. }
    apply andb_true_iff in Hp. destruct Hp as [Hp _]. apply andb_true_iff in Hp. destruct Hp as [Hp _].
    rewrite En in Hp. cbn [Z.eqb negb orb] in Hp. rewrite Z.eqb_refl in Hp. cbn [negb orb] in Hp.
    destruct (is_dots (ty y)) eqn:Ed.
    + specialize (Hdots En eq_refl). unfold is_dots in Ed. apply orb_true_iff in Ed.
      destruct Ed as [Ed|Ed]; apply Z.eqb_eq in Ed.
      * rewrite (Hyd Ed) in Eby. inversion Eby; subst. cbn. exact Hdots.
      * rewrite (Hye Ed) in Eby. inversion Eby; subst. cbn. exact Hdots.
    + cbn [orb] in Hp. unfold all_fb in Hp. rewrite forallb_forall in Hp.
      unfold first_ok in Hfy. rewrite Ei in Hfy. specialize (Hp cy Hfy). apply negb_true_iff in Hp.
      destruct (num_byte_false cy Hp) as (_ & H46 & _). cbn [num_stopb]. rewrite H46, Hp. reflexivity.
  - (* names *)
    destruct (Z.eq_dec (ty x) TokenIdent) as [En|En].
    2:{ rewrite (first_not_idfirst _ _ Hxt Hfx En). reflexivity. }
    apply orb_true_iff. right.
    destruct (ty y =? TokenIdent) eqn:Ei.
    { rewrite En in Hp. cbn in Hp. discriminate. }
    apply andb_true_iff in Hp. destruct Hp as [Hp _]. apply andb_true_iff in Hp. destruct Hp as [_ Hp].
    rewrite En in Hp. rewrite Z.eqb_refl in Hp. cbn [negb orb] in Hp.
    unfold all_fb in Hp. rewrite forallb_forall in Hp.
    unfold first_ok in Hfy. rewrite Ei in Hfy. cbn [id_stopb]. apply Hp. exact Hfy.
  - (* a one-byte token *)
    destruct bx as [|bx0 bx']; [|reflexivity]. cbn [hd_okb]. apply negb_true_iff.
    destruct (ty x =? TokenIdent) eqn:Exi.
    { unfold first_ok in Hfx. rewrite Exi in Hfx. rewrite (forbidden_of_ident _ Hfx). reflexivity. }
    unfold first_ok in Hfx. rewrite Exi in Hfx.
    destruct (ty y =? TokenIdent) eqn:Ei.
    + unfold first_ok in Hfy. rewrite Ei in Hfy.
      destruct (existsb (Z.eqb cy) (forbidden_next cx)) eqn:E; [|reflexivity]. exfalso.
      apply existsb_exists in E. destruct E as (k & Hk & Ek). apply Z.eqb_eq in Ek. subst k.
      apply forbidden_nonident in Hk.
      assert (X : existsb (Z.eqb cy) nonident = true) by (apply existsb_exists; exists cy; split; [exact Hk|apply Z.eqb_refl]).
      congruence.
    + apply andb_true_iff in Hp. destruct Hp as [_ Hp].
      assert (Hfx1 : In cx (fbl1 (ty x))).
      { unfold fbl1. destruct (ty x =? TokenTemplateSeqEnd) eqn:Ese.
        - apply Z.eqb_eq in Ese. rewrite (Hxse Ese cx Ebx). left. reflexivity.
        - destruct (ty x =? TokenOHeredoc) eqn:Eoh; [|exact Hfx].
          apply Z.eqb_eq in Eoh. specialize (Hxoh Eoh). rewrite Ebx in Hxoh. simpl in Hxoh. lia. }
      rewrite forallb_forall in Hp. specialize (Hp cx Hfx1). unfold all_fb in Hp. rewrite forallb_forall in Hp.
      unfold first_ok in Hfy. rewrite Ei in Hfy. specialize (Hp cy Hfy). apply negb_true_iff in Hp. exact Hp.
Qed.

(* hz on suffixes and windows *)
Lemma hz_tail a l : hz (a :: l) = true -> hz l = true.
Proof.
  destruct l as [|b r]; [reflexivity|]. cbn [hz]. intro H.
  repeat (apply andb_true_iff in H; destruct H as [H ?]). assumption.
Qed.

Lemma hz_pair x y r : hz (x :: y :: r) = true ->
  ((fst x =? TokenBang) && (hd0 (snd y) =? 61) = false) /\
  (is_dots (fst x) && is_dots (fst y) = false).
Proof.
  cbn [hz]. intro H. repeat (apply andb_true_iff in H; destruct H as [H ?]).
  split; apply negb_true_iff; assumption.
Qed.

Lemma hz_triple x y z r : hz (x :: y :: z :: r) = true ->
  (fst x =? TokenNumberLit) && (fst y =? TokenDot) && ((fst z =? TokenIdent) && short_exp (snd z)) = false.
Proof.
  cbn [hz]. intro H. repeat (apply andb_true_iff in H; destruct H as [H ?]).
  apply negb_true_iff. assumption.
Qed.

Lemma tok_is_newline_types x : tok_is_newline x = true -> ty x = TokenNewline \/ ty x = TokenComment.
Proof.
  unfold tok_is_newline, is. destruct (ty x =? TokenNewline) eqn:E1; [left; apply Z.eqb_eq; exact E1|].
  destruct (ty x =? TokenComment) eqn:E2; [right; apply Z.eqb_eq; exact E2|discriminate].
Qed.

Lemma newline_tail x w : tok_shape x -> tok_is_newline x = true -> tail_okb (bytes x) w = true.
Proof.
  intros (Hxt & (cx & bx & Ebx & Hfx) & _) Hn. rewrite Ebx.
  pose proof (tok_is_newline_types x Hn) as Hty.
  assert (Hni : ty x <> TokenIdent /\ ty x <> TokenNumberLit) by (destruct Hty as [-> | ->]; split; discriminate).
  destruct Hni as [Hni Hnn].
  apply tail_okb_plain.
  - apply (first_not_digit _ _ Hxt Hfx Hnn).
  - apply (first_not_idfirst _ _ Hxt Hfx Hni).
  - intros ->. unfold first_ok in Hfx. destruct Hty as [Hty|Hty]; rewrite Hty in Hfx; cbn in Hfx.
    + destruct Hfx as [<-|[<-|[]]]; vm_compute forbidden_next; destruct w; reflexivity.
    + destruct Hfx as [<-|[<-|[]]]; [vm_compute forbidden_next; destruct w; reflexivity|].
      exfalso. unfold tok_is_newline, is in Hn. rewrite Hty, Ebx in Hn. cbn in Hn. discriminate.
Qed.

Lemma dot_after_number y x z :
  ty y = TokenDot -> ty x = TokenNumberLit -> space_after y x z = false ->
  ty z <> TokenNumberLit /\ ident_continues_number z = false.
Proof.
  intros Hy Hx H. unfold space_after in H. rewrite Hy, Hx in H. unfold is in H.
  destruct (ty z =? TokenNewline) eqn:E1.
  { apply Z.eqb_eq in E1. split; [rewrite E1; discriminate|].
    unfold ident_continues_number, is. rewrite E1. reflexivity. }
  destruct (ty z =? TokenNil) eqn:E2.
  { apply Z.eqb_eq in E2. split; [rewrite E2; discriminate|].
    unfold ident_continues_number, is. rewrite E2. reflexivity. }
  cbn in H.
  destruct (ty z =? TokenNumberLit) eqn:E3; [cbn in H; discriminate|].
  destruct (ident_continues_number z); [cbn in H; discriminate|].
  split; [apply Z.eqb_neq; exact E3|reflexivity].
Qed.


(* ---- the layout of format's output ---------------------------------------------------------- *)

Lemma tok_is_newline_dots y : is_dots (ty y) = true -> tok_is_newline y = false.
Proof.
  unfold is_dots, tok_is_newline, is. intro H. apply orb_true_iff in H.
  destruct H as [H|H]; apply Z.eqb_eq in H; rewrite H; reflexivity.
Qed.

Lemma shape_ty_in x : gshape x -> In (ty x) atypes.
Proof.
  unfold gshape, atypes. destruct (tl_ty (ty x)).
  - intro H. right. apply in_or_app. right. exact H.
  - intros (H & _). right. apply in_or_app. left. exact H.
Qed.

(* a token of the string scanner comes directly after an opening quote, a literal, or
   the "}" that closes a template sequence *)
Fixpoint tlchainT (tx : Z) (l : list Z) : Prop :=
  match l with
  | [] => True
  | ty' :: l' => (tl_ty ty' = true -> In tx tl_before) /\ tlchainT ty' l'
  end.
Definition tlchain (x : tok) (f : list tok) : Prop := tlchainT (ty x) (map ty f).

Lemma tl_before_not_newline x : In (ty x) tl_before -> tok_is_newline x = false.
Proof.
  unfold tl_before, tok_is_newline, is. cbn [In]. intros [H|[H|[H|[H|[H|[]]]]]]; rewrite <- H; reflexivity.
Qed.

Lemma tl_not_cellfirst y : tl_ty (ty y) = true -> ~ cellfirst y.
Proof.
  intros Ht [_ [H|H]]; rewrite H in Ht; discriminate.
Qed.

Lemma sw126_spaces n w : 0 <= n -> (n = 0 -> starts_with 126 w = false) -> starts_with 126 (spaces n ++ w) = false.
Proof.
  intros Hn H. destruct (Z.eq_dec n 0) as [->|Hne]; [rewrite spaces_zero; apply H; reflexivity|].
  destruct (spaces_pos n ltac:(lia)) as (y & ->). reflexivity.
Qed.

Lemma opener_okb_of b w : starts_with 126 w = false -> opener_okb b w = true.
Proof.
  intro H. unfold opener_okb. destruct b as [|a [|c1 [|c2 b']]]; try reflexivity.
  rewrite H, andb_false_r. reflexivity.
Qed.

Lemma quote_close_tail x w : tok_shape x ->
  (ty x = TokenOQuote \/ ty x = TokenTemplateSeqEnd \/ ty x = TokenOHeredoc) ->
  tail_okb (bytes x) w = true.
Proof.
  intros (Hxt & (cx & bx & Ebx & Hfx) & _ & _ & Hse & Hoh) Hty. rewrite Ebx.
  assert (Hn : ty x <> TokenIdent /\ ty x <> TokenNumberLit) by (destruct Hty as [-> |[-> | ->]]; split; discriminate).
  destruct Hn as [Hni Hnn].
  apply tail_okb_plain.
  - apply (first_not_digit _ _ Hxt Hfx Hnn).
  - apply (first_not_idfirst _ _ Hxt Hfx Hni).
  - intros ->. destruct Hty as [Hty|[Hty|Hty]].
    + unfold first_ok in Hfx. rewrite Hty in Hfx. cbn in Hfx. destruct Hfx as [<-|[]].
      vm_compute forbidden_next. destruct w; reflexivity.
    + rewrite (Hse Hty cx Ebx). vm_compute forbidden_next. destruct w; reflexivity.
    + specialize (Hoh Hty). rewrite Ebx in Hoh. simpl in Hoh. lia.
Qed.

(* what follows "<number>." or "<number>..." does not continue the number *)
Lemma after_number_dots e x y f :
  bytes e = [] -> 0 <= sp e ->
  tok_shape x -> ty x = TokenNumberLit -> tok_shape y -> is_dots (ty y) = true ->
  fine x (y :: f) -> Forall gshape f -> tlchain y f -> hz (map tyb (x :: y :: f)) = true ->
  dots_stop (write (f ++ [e])) = true.
Proof.
  intros He Hspe Hsx Hx Hsy Hd Hf Hsf Htc Hz.
  destruct f as [|z f'].
  { cbn [app]. rewrite write_cons, He. unfold write. cbn [map concat]. rewrite !app_nil_r.
    rewrite <- (app_nil_r (spaces (sp e))). apply dots_stop_spaces; [exact Hspe|reflexivity]. }
  cbn [fine] in Hf. destruct Hf as [Hp _]. pose proof Hp as [Hnn _].
  cbn [app]. rewrite write_cons. apply dots_stop_spaces; [exact Hnn|]. intro H0.
  pose proof (pairP_zero _ _ _ Hp H0) as Hp0.
  inversion Hsf as [|? ? Hgz _]; subst.
  (* z is a token of the main scanner *)
  assert (Hsz : tok_shape z).
  { unfold gshape in Hgz. destruct (tl_ty (ty z)) eqn:Etz; [|exact Hgz]. exfalso.
    unfold tlchain in Htc. cbn [map tlchainT] in Htc. destruct Htc as [Htc _]. specialize (Htc Etz).
    unfold is_dots in Hd. apply orb_true_iff in Hd. unfold tl_before in Htc. cbn [In] in Htc.
    destruct Hd as [Hd|Hd]; apply Z.eqb_eq in Hd; rewrite Hd in Htc;
      destruct Htc as [H|[H|[H|[H|[H|[]]]]]]; discriminate H. }
  assert (Hsa : space_after y x z = false).
  { destruct Hp0 as [Hq|[Hq|[_ Hj]]]; [|exact Hq|].
    - rewrite (tok_is_newline_dots y Hd) in Hq. discriminate.
    - exfalso. unfold just in Hj. unfold is_dots in Hd. apply orb_true_iff in Hd.
      destruct Hj as [Hj|[Hj|[Hj|Hj]]].
      + unfold tok_is_newline, is in Hj. rewrite Hx in Hj. discriminate.
      + rewrite Hx in Hj. discriminate.
      + destruct Hd as [Hd|Hd]; apply Z.eqb_eq in Hd; rewrite Hd in Hj; discriminate.
      + destruct Hd as [Hd|Hd]; apply Z.eqb_eq in Hd; rewrite Hd in Hj; discriminate. }
  cbn [map] in Hz.
  pose proof (hz_triple _ _ _ _ Hz) as HN. pose proof (hz_pair _ _ _ (hz_tail _ _ Hz)) as [_ HD].
  cbn [tyb fst snd] in HN, HD. rewrite Hd in HD. cbn [andb] in HD.
  destruct Hsz as (Hzt & (cz & bz & Ebz & Hfz) & _). rewrite Ebz. cbn [app].
  assert (Hxin : In (ty x) atypes) by (apply shape_ty_in; unfold gshape; rewrite Hx; exact Hsx).
  assert (Hzn : ty z <> TokenNumberLit /\ (ty z = TokenIdent -> ident_continues_number z = false /\ ty y = TokenDot)).
  { unfold is_dots in Hd. apply orb_true_iff in Hd. destruct Hd as [Hd|Hd]; apply Z.eqb_eq in Hd.
    - destruct (dot_after_number y x z Hd Hx Hsa) as [H1 H2]. split; [exact H1|]. intros _. split; assumption.
    - pose proof (zero_possible_of y x z Hxin Hsa) as Hzp. rewrite Hd in Hzp.
      pose proof ellipsis_table as T. rewrite forallb_forall in T. specialize (T (ty z) Hzt).
      rewrite Hzp, HD in T. cbn in T. apply andb_true_iff in T. destruct T as [T1 T2].
      apply negb_true_iff in T1, T2. apply Z.eqb_neq in T1, T2. split; [exact T2|]. intro. contradiction. }
  destruct Hzn as [Hzn Hzi].
  destruct (ty z =? TokenIdent) eqn:Ei.
  - apply Z.eqb_eq in Ei. destruct (Hzi Ei) as [Hicn Hyd].
    unfold first_ok in Hfz. rewrite Ei in Hfz. cbn in Hfz.
    destruct (nonident_facts cz Hfz) as (_ & Hdg & _ & Fk).
    cbn [dots_stop]. rewrite (Fk 46 ltac:(cbn [In]; tauto)), Hdg.
    destruct ((cz =? 101) || (cz =? 69)) eqn:Ee; [|reflexivity].
    apply (exp_fail_of z cz bz _ Ei Ebz Ee Hicn).
    rewrite Hx, Hyd in HN. cbn in HN. exact HN.
  - apply Z.eqb_neq in Ei. unfold first_ok in Hfz. apply Z.eqb_neq in Ei. rewrite Ei in Hfz.
    destruct (fb_facts (ty z) Hzt) as (_ & _ & _ & H4).
    apply dots_stop_plain. apply H4; auto. apply Z.eqb_neq. exact Ei.
Qed.

(* after the closing marker of a heredoc comes its Newline *)
Fixpoint chainNT (tx : Z) (l : list Z) : Prop :=
  match l with
  | [] => tx <> TokenCHeredoc
  | ty' :: l' => (tx = TokenCHeredoc -> ty' = TokenNewline) /\ chainNT ty' l'
  end.
Definition chainN (x : tok) (f : list tok) : Prop := chainNT (ty x) (map ty f).

Lemma space_after_newline s b a : ty a = TokenNewline -> space_after s b a = false.
Proof. intro H. unfold space_after. rewrite H. reflexivity. Qed.

Lemma layout_eof e : bytes e = [] -> ty e = TokenEOF -> layout_okb [e] = (0 <=? sp e).
Proof. intros H1 H2. cbn [layout_okb]. rewrite H1, H2. cbn. rewrite !andb_true_r. reflexivity. Qed.

Lemma layout_flat e : bytes e = [] -> ty e = TokenEOF -> 0 <= sp e -> forall body prev,
  fine prev body -> Forall gshape body -> In (ty prev) atypes ->
  hz (map tyb body) = true ->
  (match body with
   | x :: f => 0 <= sp x /\ (tl_ty (ty x) = true -> sp x = 0) /\ tlchain x f /\ chainN x f
   | [] => True end) ->
  layout_okb (body ++ [e]) = true.
Proof.
  intros He Hte Hspe. induction body as [|x f IH]; intros prev Hf Hs Hprev Hz H0.
  - cbn [app]. rewrite (layout_eof e He Hte). apply Z.leb_le. exact Hspe.
  - inversion Hs as [|? ? Hsx Hsf]; subst. destruct H0 as (Hx0 & Hxtl & Hchain & HchN).
    cbn [app layout_okb]. apply andb_true_iff. split; [apply andb_true_iff; split; [apply andb_true_iff; split|]|].
    + apply Z.leb_le. exact Hx0.
    + destruct (tl_ty (ty x)) eqn:Etx.
      * (* a token of the string scanner *)
        rewrite (Hxtl eq_refl). cbn [Z.eqb andb].
        destruct (is_tmpl_open (ty x)) eqn:Eo; [|reflexivity]. cbn [negb orb].
        apply opener_okb_of.
        destruct f as [|y f'].
        { cbn [app]. rewrite write_cons, He. unfold write. cbn [map concat]. rewrite !app_nil_r.
          rewrite <- (app_nil_r (spaces (sp e))). apply sw126_spaces; [exact Hspe|reflexivity]. }
        cbn [fine] in Hf. destruct Hf as [Hp _]. pose proof Hp as [Hnn _].
        inversion Hsf as [|? ? Hgy _]; subst.
        cbn [app]. rewrite write_cons. apply sw126_spaces; [exact Hnn|]. intros _.
        unfold tlchain in Hchain. cbn [map tlchainT] in Hchain. destruct Hchain as [Hc1 _].
        unfold gshape in Hgy. destruct (tl_ty (ty y)) eqn:Ety.
        { exfalso. specialize (Hc1 eq_refl). unfold tl_before in Hc1. cbn [In] in Hc1.
          unfold is_tmpl_open in Eo. apply orb_true_iff in Eo.
          destruct Eo as [Eo|Eo]; apply Z.eqb_eq in Eo; rewrite Eo in Hc1;
            destruct Hc1 as [H|[H|[H|[H|[H|[]]]]]]; discriminate H. }
        destruct Hgy as (Hyt & (cy & by' & Eby & Hfy) & _). rewrite Eby. cbn [app starts_with].
        destruct (cy =? 126) eqn:E126; [|reflexivity]. exfalso. apply Z.eqb_eq in E126. subst cy.
        cbn [map] in Hz. cbn [hz] in Hz.
        repeat (apply andb_true_iff in Hz; destruct Hz as [Hz ?]).
        match goal with H : negb (is_tmpl_open _ && _) = true |- _ => rename H into HT end.
        cbn [tyb fst snd] in HT. rewrite Eo in HT. cbn [andb] in HT. apply negb_true_iff in HT.
        unfold first_ok in Hfy. destruct (ty y =? TokenIdent) eqn:Ei.
        -- destruct (nonident_facts 126 Hfy) as (_ & _ & _ & Fk). specialize (Fk 126 ltac:(cbn [In]; tauto)). discriminate Fk.
        -- pose proof tilde_table as T. rewrite forallb_forall in T. specialize (T (ty y) Hyt).
           assert (E : existsb (Z.eqb 126) (fbl (ty y)) = true) by (apply existsb_exists; exists 126; split; [exact Hfy|reflexivity]).
           rewrite E in T. cbn [implb] in T. congruence.
      * (* a token of the main scanner *)
        unfold gshape in Hsx. rewrite Etx in Hsx.
        destruct f as [|y f'].
        { cbn [app]. rewrite write_cons, He. unfold write. cbn [map concat]. rewrite !app_nil_r.
          rewrite <- (app_nil_r (spaces (sp e))). apply tail_okb_spaces; [exact Hspe|]. intros _. apply tail_okb_nil. }
        cbn [fine] in Hf. destruct Hf as [Hp Hf']. pose proof Hp as [Hnn _].
        inversion Hsf as [|? ? Hgy Hsf']; subst.
        cbn [app]. rewrite write_cons. apply tail_okb_spaces; [exact Hnn|]. intro Hy0.
        pose proof (pairP_zero _ _ _ Hp Hy0) as Hp0.
        unfold tlchain in Hchain. cbn [map tlchainT] in Hchain. destruct Hchain as [Hc1 Hc2].
        unfold gshape in Hgy. destruct (tl_ty (ty y)) eqn:Ety.
        { (* x opens the template or closes a sequence inside it *)
          apply quote_close_tail; [exact Hsx|]. specialize (Hc1 eq_refl). unfold tl_before in Hc1. cbn [In] in Hc1.
          destruct Hc1 as [H|[H|[H|[H|[H|[]]]]]]; [left; auto| |right; left; auto|right; right; auto|];
            exfalso; rewrite <- H in Etx; discriminate Etx. }
        destruct Hp0 as [Hq|Hq].
        { apply newline_tail; assumption. }
        assert (Hxin : In (ty x) atypes) by (apply shape_ty_in; unfold gshape; rewrite Etx; exact Hsx).
        assert (Hzp : zero_possible (ty x) (ty y) = true).
        { destruct Hq as [Hq|[Hq _]].
          - eapply zero_possible_of; [exact Hprev|exact Hq].
          - eapply (zero_possible_of x nil_tok y); [left; reflexivity|exact Hq]. }
        pose proof pair_table as T. rewrite forallb_forall in T.
        destruct Hsx as (Hxt & Hx2). destruct Hgy as (Hyt & Hy2).
        specialize (T (ty x) Hxt). rewrite forallb_forall in T. specialize (T (ty y) Hyt).
        rewrite Hzp in T. cbn [implb] in T.
        cbn [map] in Hz. pose proof (hz_pair _ _ _ Hz) as [HB HD]. cbn [tyb fst snd] in HB, HD.
        assert (Hnh : hazard_pair (ty x) (ty y) = false).
        { unfold hazard_pair. rewrite HD, orb_false_r.
          destruct (ty x =? TokenBang) eqn:Eb; [|reflexivity]. cbn [andb] in HB |- *.
          destruct (existsb (Z.eqb 61) (fbl (ty y))) eqn:E61; [|reflexivity]. exfalso.
          destruct Hy2 as ((cy & by' & Eby & Hfy) & _).
          unfold first_ok in Hfy. destruct (ty y =? TokenIdent) eqn:Ei.
          { apply Z.eqb_eq in Ei. rewrite Ei in E61. discriminate E61. }
          destruct (fb_facts (ty y) Hyt) as (_ & _ & H3 & _). rewrite (H3 E61 cy Hfy) in Eby.
          rewrite Eby in HB. cbn in HB. discriminate. }
        rewrite Hnh in T. cbn [orb] in T.
        apply pair_tail; [split; assumption|split; assumption|exact T|].
        intros Hxn Hyd. apply (after_number_dots e x y f' He Hspe); auto; try (split; assumption).
    + (* the Newline that ends the closing line of a heredoc *)
      destruct (ty x =? TokenCHeredoc) eqn:Ech; [|reflexivity]. cbn [negb orb]. apply Z.eqb_eq in Ech.
      destruct f as [|y f'].
      { exfalso. unfold chainN in HchN. cbn in HchN. contradiction. }
      cbn [app]. apply Z.eqb_eq.
      unfold chainN in HchN. cbn [map chainNT] in HchN. destruct HchN as [HyN _]. specialize (HyN Ech).
      cbn [fine] in Hf. destruct Hf as [[_ Hcase] _].
      destruct Hcase as [Hq|[Hq|(bf & _ & Hq)]].
      * unfold tok_is_newline, is in Hq. rewrite Ech in Hq. discriminate.
      * destruct Hq as [_ [Hq|Hq]]; rewrite HyN in Hq; discriminate.
      * rewrite Hq. rewrite (space_after_newline x bf y HyN). reflexivity.
    + destruct f as [|y f'].
      * cbn [app]. rewrite (layout_eof e He Hte). apply Z.leb_le. exact Hspe.
      * cbn [fine] in Hf. destruct Hf as [Hp Hf']. pose proof Hp as [Hnn Hcase].
        unfold tlchain in Hchain. cbn [map tlchainT] in Hchain. destruct Hchain as [Hc1 Hc2].
        unfold chainN in HchN. cbn [map chainNT] in HchN. destruct HchN as [_ HchN2].
        assert (Hxin : In (ty x) atypes) by (apply shape_ty_in; exact Hsx).
        apply (IH x); auto.
        -- cbn [map] in Hz |- *. eapply hz_tail. exact Hz.
        -- split; [exact Hnn|]. split; [|split; [exact Hc2|exact HchN2]].
           intro Ety. specialize (Hc1 Ety).
           destruct Hcase as [Hq|[Hq|(bf & Hbf & Hq)]].
           ++ rewrite (tl_before_not_newline x Hc1) in Hq. discriminate.
           ++ exfalso. exact (tl_not_cellfirst y Ety Hq).
           ++ rewrite Hq. rewrite (tl_space x bf y Hc1 (tl_in _ Ety)); [reflexivity|].
              destruct Hbf as [->|[-> _]]; [exact Hprev|left; reflexivity].
Qed.

Lemma hz_init : forall l a, hz (l ++ [a]) = true -> hz l = true.
Proof.
  induction l as [|x l IH]; intros a H; [reflexivity|].
  destruct l as [|y r]; [reflexivity|].
  specialize (IH a). cbn [app] in *. cbn [hz] in H |- *.
  repeat (apply andb_true_iff in H; destruct H as [H ?]).
  repeat (apply andb_true_iff; split); auto.
  destruct r as [|z r']; [|assumption].
  rewrite andb_false_r. reflexivity.
Qed.

Lemma tyb_of_skel : forall a b : list tok, map skel a = map skel b -> map tyb a = map tyb b.
Proof.
  induction a as [|x a IH]; intros b H; destruct b as [|y b]; try discriminate; [reflexivity|].
  cbn [map] in *. injection H as E1 E2 E3 H. unfold tyb at 1 3. rewrite E1, E2. f_equal. apply IH. exact H.
Qed.

Lemma tyb_wt g : forall ks o, map tyb (writer_tokens g o ks) = map rtyb ks.
Proof. induction ks as [|k r IH]; intro o; [reflexivity|]. cbn [writer_tokens map]. rewrite IH. reflexivity. Qed.


Lemma gshape_sk a b : sk_eq a b -> gshape a -> gshape b.
Proof.
  intros H. destruct (sk_eq_inv _ _ H) as (E1 & E2 & _). unfold gshape, tok_shape. rewrite E1, E2. auto.
Qed.

Lemma Forall_gshape_sk : forall a b, map skel a = map skel b -> Forall gshape b -> Forall gshape a.
Proof.
  induction a as [|x a IH]; intros b H Hb; destruct b as [|y b]; try discriminate; [constructor|].
  cbn [map] in H. inversion Hb; subst. constructor.
  - eapply gshape_sk; [|eassumption]. unfold sk_eq. injection H as E1 E2 E3 _. unfold skel. congruence.
  - eapply IH; [|eassumption]. injection H as _ _ _ Hr. exact Hr.
Qed.

(* the chain properties of a trace, on the flattened token types *)
Lemma chains_flat : forall ps st tprev, gen_trace st ps ->
  (l_cur st <> MMain -> In tprev tl_before) -> tprev <> TokenCHeredoc ->
  tlchainT tprev (flat_map stys ps) /\ chainNT tprev (flat_map stys ps).
Proof.
  induction ps as [|p r IH]; intros st tprev Hg Hpv Hne; [split; [exact I|exact Hne]|].
  cbn [gen_trace] in Hg. destruct Hg as (_ & _ & _ & Hsh & Htl & _ & Hprev & Hg').
  cbn [flat_map]. unfold stys at 1 3.
  destruct Hsh as [[Ee Hnc]|((k & Ee) & Hm1 & _)].
  - rewrite Ee. cbn [emit_types app tlchainT chainNT].
    destruct (IH (g_nst p) (ty_of p) Hg' Hprev Hnc) as [H1 H2].
    split; (split; [|assumption]).
    + intro Et. rewrite Et in Htl. exact (Hpv Htl).
    + intro Hx. contradiction.
  - rewrite Ee. cbn [emit_types app tlchainT chainNT].
    assert (Hnl : TokenNewline <> TokenCHeredoc) by discriminate.
    destruct (IH (g_nst p) TokenNewline Hg' ltac:(intro Hx; contradiction) Hnl) as [H1 H2].
    assert (Etl : tl_ty (ty_of p) = true) by (unfold ty_of; rewrite Ee; reflexivity).
    rewrite Etl in Htl.
    split.
    + split; [intros _; exact (Hpv Htl)|]. split; [intro Hx; discriminate Hx|exact H1].
    + split; [intro Hx; contradiction|]. split; [intros _; reflexivity|exact H2].
Qed.

Lemma tys_of_skel : forall a b : list tok, map skel a = map skel b -> map ty a = map ty b.
Proof.
  induction a as [|x a IH]; intros b H; destruct b as [|y b]; try discriminate; [reflexivity|].
  cbn [map] in *. injection H as E1 E2 E3 H. rewrite E1. f_equal. apply IH. exact H.
Qed.

Lemma flat_tys g ps : map ty (flat_map (wt_step_l g) ps) = flat_map stys ps.
Proof.
  induction ps as [|p r IH]; [reflexivity|]. cbn [flat_map]. rewrite map_app, IH, wt_step_tys. reflexivity.
Qed.

(* the formatter's output satisfies the layout condition: every source that lexes cleanly
   and has no hazard pattern *)
Theorem layout_of_format_clean g data ks :
  lex_main data = Some ks -> lexes_clean ks = true -> hazard_free ks = true ->
  layout_okb (format (writer_tokens g 0 ks)) = true.
Proof.
  intros Hlex Hclean Hhz. unfold lex_main in Hlex.
  destruct (hcl_scan MMain data) as [its fin] eqn:Hscan. destruct fin; try discriminate.
  inversion Hlex; subst ks. clear Hlex.
  unfold hcl_scan, scan in Hscan. fold M0 in Hscan. unfold lexes_clean in Hclean.
  destruct (run_trace _ _ _ _ _ Hscan Hclean) as (ps & tg & Hdata & Htr & Htk).
  rewrite Htk in Hclean.
  pose proof (gen_trace_of ps _ tg 0 Htr Inv_init Hclean) as Hg.
  destruct (gen_trace_eshape _ _ Hg) as [Hesh Hneof].
  unfold hazard_free in Hhz. rewrite <- (tyb_wt g _ 0) in Hhz.
  rewrite Htk in *. rewrite (wt_ttoks_gen g ps tg 0 Hesh) in *.
  set (body0 := flat_map (wt_step_l g) ps) in *. set (e := wt_eof g tg) in *.
  assert (Hnoeof : forallb (fun t => negb (is (ty t) TokenEOF)) body0 = true).
  { subst body0. clear -Hneof Hesh. induction ps as [|p r IH]; [reflexivity|].
    inversion Hneof as [|? ? Hp Hn']; subst. inversion Hesh as [|? ? Hs Hs']; subst.
    cbn [flat_map]. rewrite forallb_app, (IH Hs' Hn'), andb_true_r. unfold wt_step_l.
    destruct Hs as [[Ee _]|(k & Ee)]; rewrite Ee in *; cbn [forallb ty]; unfold is.
    - destruct (Hp _ (or_introl eq_refl)) as [_ H]. apply Z.eqb_neq in H. rewrite H. reflexivity.
    - reflexivity. }
  pose proof (split_lines_eof_last body0 [] e Hnoeof eq_refl) as Hse.
  rewrite format_unfold. destruct (split_lines (body0 ++ [e]) []) as [raws o] eqn:Esl.
  cbn [snd] in Hse. subst o. cbn [opt_list].
  pose proof (split_lines_tile _ _ _ _ Esl) as Htile. cbn [rev app opt_list] in Htile.
  apply app_inj_tail in Htile. destruct Htile as [Hcat _].
  pose proof (pipeline_LI4 raws) as HL.
  pose proof (split_lines_ends _ _ _ _ Esl) as Hends.
  destruct (fine_flat raws (pipeline raws) nil_tok HL Hends (or_intror eq_refl)) as [Hfine Hfirst].
  assert (Hsk : map skel (flatten (pipeline raws)) = map skel body0).
  { unfold pipeline. rewrite msk_format_cells, msk_map_format_spaces, msk_format_indent, flatten_mk_line, Hcat.
    reflexivity. }
  assert (Htys : map ty (flatten (pipeline raws)) = flat_map stys ps).
  { rewrite (tys_of_skel _ _ Hsk). subst body0. apply flat_tys. }
  apply (layout_flat e eq_refl eq_refl (zlen_nonneg tg) _ nil_tok Hfine).
  - eapply Forall_gshape_sk; [exact Hsk|]. subst body0. eapply shapes_trace; eassumption.
  - left. reflexivity.
  - rewrite (tyb_of_skel _ _ Hsk). rewrite map_app in Hhz. eapply hz_init. exact Hhz.
  - destruct (flatten (pipeline raws)) as [|x f] eqn:Ef; [exact I|].
    split; [exact Hfirst|].
    assert (Hnil : TokenNil <> TokenCHeredoc) by discriminate.
    destruct (chains_flat ps _ TokenNil Hg ltac:(intro Hx; exfalso; apply Hx; reflexivity) Hnil) as [H1 H2].
    rewrite <- Htys in H1, H2. cbn [map tlchainT chainNT] in H1, H2.
    destruct H1 as [H1a H1b]. destruct H2 as [_ H2b].
    split; [|split; assumption].
    intro Et. exfalso. specialize (H1a Et). unfold tl_before in H1a. cbn [In] in H1a.
    destruct H1a as [H|[H|[H|[H|[H|[]]]]]]; discriminate H.
Qed.

(* ==== 7. the theorems; refutations ============================================= *)

Lemma noheredoc_clean ks : noheredoc ks = true -> lexes_clean ks = true.
Proof.
  unfold noheredoc, lexes_clean. rewrite !forallb_forall. intros H k Hk. specialize (H k Hk).
  apply nohd_ty_inv in H. tauto.
Qed.

Lemma simple_noheredoc ks : simple ks = true -> noheredoc ks = true.
Proof.
  unfold simple, noheredoc. rewrite !forallb_forall. intros H k Hk. specialize (H k Hk).
  apply simple_ty_inv in H. destruct H as (H1 & H2 & _). unfold nohd_ty. rewrite H1.
  apply Z.eqb_neq in H2. rewrite H2. reflexivity.
Qed.

(* ---- every source that lexes cleanly (templates and heredocs included) ----------------------- *)

(* (A+) the statement FormatBytes.relex_exact_hazard_free_stmt: the formatter's output lexes
   back to exactly the formatted writer tokens *)
Theorem relex_exact_hazard_free : relex_exact_hazard_free_stmt.
Proof.
  intros g data ks H1 H2 H3. apply (relex_exact_clean g data ks H1 H2).
  apply (layout_of_format_clean g data ks H1 H2 H3).
Qed.

Lemma stable_of_exact g ks ks' :
  writer_tokens g 0 ks' = format (writer_tokens g 0 ks) -> map rtyb ks' = map rtyb ks.
Proof.
  intro Hw. rewrite <- (tyb_wt g ks' 0), Hw, <- (tyb_wt g ks 0).
  apply tyb_of_skel. apply format_only_spaces.
Qed.

(* (A) ... hence to the same token types and bytes as the source *)
Theorem relex_stable_hazard_free g data ks :
  lex_main data = Some ks -> lexes_clean ks = true -> hazard_free ks = true ->
  exists ks', relex (format (writer_tokens g 0 ks)) = Some ks' /\ map rtyb ks' = map rtyb ks.
Proof.
  intros H1 H2 H3. destruct (relex_exact_hazard_free g data ks H1 H2 H3) as (ks' & Hr & Hw).
  exists ks'. split; [exact Hr|]. eapply stable_of_exact; exact Hw.
Qed.

Lemma idempotent_of_exact g data ks out :
  lex_main data = Some ks ->
  (exists ks', relex (format (writer_tokens g 0 ks)) = Some ks' /\
               writer_tokens g 0 ks' = format (writer_tokens g 0 ks)) ->
  format_bytes g data = Some out -> format_bytes g out = Some out.
Proof.
  intros H1 (ks' & Hr & Hw) Hf. unfold format_bytes in Hf. rewrite H1 in Hf. inversion Hf; subst out. clear Hf.
  unfold format_bytes. unfold relex in Hr. rewrite Hr, Hw, format_idempotent. reflexivity.
Qed.

(* (B) ... and formatting the formatted bytes again returns them unchanged *)
Theorem bytes_idempotent_hazard_free g data ks out :
  lex_main data = Some ks -> lexes_clean ks = true -> hazard_free ks = true ->
  format_bytes g data = Some out -> format_bytes g out = Some out.
Proof.
  intros H1 H2 H3. apply (idempotent_of_exact g data ks out H1). apply (relex_exact_hazard_free g data ks H1 H2 H3).
Qed.

(* ---- corollaries: sources without heredocs, sources of main-scanner tokens --------------------- *)

Theorem relex_exact_nohd g data ks :
  lex_main data = Some ks -> noheredoc ks = true ->
  layout_okb (format (writer_tokens g 0 ks)) = true ->
  exists ks', relex (format (writer_tokens g 0 ks)) = Some ks' /\
              writer_tokens g 0 ks' = format (writer_tokens g 0 ks).
Proof. intros H1 H2 H3. apply (relex_exact_clean g data ks H1 (noheredoc_clean ks H2) H3). Qed.

Theorem relex_exact_quoted g data ks :
  lex_main data = Some ks -> noheredoc ks = true -> hazard_free ks = true ->
  exists ks', relex (format (writer_tokens g 0 ks)) = Some ks' /\
              writer_tokens g 0 ks' = format (writer_tokens g 0 ks).
Proof. intros H1 H2 H3. apply (relex_exact_hazard_free g data ks H1 (noheredoc_clean ks H2) H3). Qed.

Theorem relex_stable_quoted g data ks :
  lex_main data = Some ks -> noheredoc ks = true -> hazard_free ks = true ->
  exists ks', relex (format (writer_tokens g 0 ks)) = Some ks' /\ map rtyb ks' = map rtyb ks.
Proof. intros H1 H2 H3. apply (relex_stable_hazard_free g data ks H1 (noheredoc_clean ks H2) H3). Qed.

Theorem bytes_idempotent_quoted g data ks out :
  lex_main data = Some ks -> noheredoc ks = true -> hazard_free ks = true ->
  format_bytes g data = Some out -> format_bytes g out = Some out.
Proof. intros H1 H2 H3. apply (bytes_idempotent_hazard_free g data ks out H1 (noheredoc_clean ks H2) H3). Qed.

Theorem relex_exact_main g data ks :
  lex_main data = Some ks -> simple ks = true ->
  layout_okb (format (writer_tokens g 0 ks)) = true ->
  exists ks', relex (format (writer_tokens g 0 ks)) = Some ks' /\
              writer_tokens g 0 ks' = format (writer_tokens g 0 ks).
Proof. intros H1 H2 H3. apply (relex_exact_nohd g data ks H1 (simple_noheredoc ks H2) H3). Qed.

Theorem layout_of_format g data ks :
  lex_main data = Some ks -> simple ks = true -> hazard_free ks = true ->
  layout_okb (format (writer_tokens g 0 ks)) = true.
Proof. intros H1 H2 H3. apply (layout_of_format_clean g data ks H1 (noheredoc_clean ks (simple_noheredoc ks H2)) H3). Qed.

Theorem relex_exact_simple g data ks :
  lex_main data = Some ks -> simple ks = true -> hazard_free ks = true ->
  exists ks', relex (format (writer_tokens g 0 ks)) = Some ks' /\
              writer_tokens g 0 ks' = format (writer_tokens g 0 ks).
Proof. intros H1 H2 H3. apply (relex_exact_quoted g data ks H1 (simple_noheredoc ks H2) H3). Qed.

Theorem relex_stable_simple g data ks :
  lex_main data = Some ks -> simple ks = true -> hazard_free ks = true ->
  exists ks', relex (format (writer_tokens g 0 ks)) = Some ks' /\ map rtyb ks' = map rtyb ks.
Proof. intros H1 H2 H3. apply (relex_stable_quoted g data ks H1 (simple_noheredoc ks H2) H3). Qed.

Theorem bytes_idempotent_simple g data ks out :
  lex_main data = Some ks -> simple ks = true -> hazard_free ks = true ->
  format_bytes g data = Some out -> format_bytes g out = Some out.
Proof. intros H1 H2 H3. apply (bytes_idempotent_quoted g data ks out H1 (simple_noheredoc ks H2) H3). Qed.

(* ---- refutations of the statement without the hazard conditions -------------------- *)

Fixpoint bytes_of_string (s : string) : list Z :=
  match s with EmptyString => [] | String c r => Z.of_nat (nat_of_ascii c) :: bytes_of_string r end.

(* "x = ! = 1\n": Bang then Equal are glued into NotEqual *)
(* "x = a. . .b\n": three dots are glued into an Ellipsis *)
(* "x = \"${ ~}\"\n": "${" and "~}" are glued into "${~" "}" *)

Lemma refute_at data : stable_b glen data = false ->
  (exists ks, lex_main data = Some ks /\ lexes_clean ks = true) -> ~ relex_stable_at glen data.
Proof.
  intros Hs (ks & Hl & Hc) H. destruct (H ks Hl Hc) as (ks' & Hr & Hm).
  unfold stable_b, relex_ok_b in Hs. rewrite Hl, Hr in Hs.
  assert (X : same_tokens_b ks' (writer_tokens glen 0 ks) = true).
  { unfold same_tokens_b. rewrite (tyb_wt glen ks 0), Hm.
    apply list_eqb_eq; [|reflexivity]. intros [a1 b1] [a2 b2]. cbn [fst snd]. split.
    - intro E. apply andb_true_iff in E. destruct E as [E1 E2]. apply Z.eqb_eq in E1.
      apply zlist_eqb_eq in E2. subst. reflexivity.
    - intro E. inversion E; subst. rewrite Z.eqb_refl. cbn. apply zlist_eqb_eq. reflexivity. }
  congruence.
Qed.

Theorem relex_stable_refuted : exists data, ~ relex_stable_at glen data.
Proof.
  exists w_bang_eq. apply refute_at; [vm_compute; reflexivity|].
  eexists. split; vm_compute; reflexivity.
Qed.

Theorem relex_stable_refuted_dots : ~ relex_stable_at glen w_dots.
Proof. apply refute_at; [vm_compute; reflexivity|]. eexists. split; vm_compute; reflexivity. Qed.

Theorem relex_stable_refuted_tilde : ~ relex_stable_at glen w_tilde.
Proof. apply refute_at; [vm_compute; reflexivity|]. eexists. split; vm_compute; reflexivity. Qed.
