(* Props/C20.v — Static analysis of an expression agrees with its evaluation and
   round-trips.  Only the property theorems, each closed by [exact], with Print
   Assumptions.
   Models: Eval/Impl.v (evaluator, Traversal.TraverseAbs/TraverseRel), Eval/Static.v
   (AsTraversal / ExprList / ExprMap / ExprCall providers and their hcl front ends),
   Ext/TypeExpr.v (typeexpr.TypeString, getType, the AST of a rendered type).
   Proofs: Eval/StaticProofs.v, Ext/TypeExprProofs.v.
   Tied to the Go code by harness/cmd/c20 + Eval/StaticCheck.v + Ext/TypeExprCheck.v.
   The parts of the property that speak about TEXT (the stand-alone traversal parser, the
   text of a rendered type in native and JSON syntax) need the parser model; they are stated
   here as Props over an abstract parser and checked on the real code by the harness. *)
From Coq Require Import QArith.
From HclV Require Import Base.Prelude Cty.Values Cty.Convert Cty.Ops Eval.Impl Eval.Funcs Eval.Vars
  Eval.Static Eval.StaticProofs Lex.HclLex Ext.TypeExpr Ext.TypeExprProofs.
Open Scope Z_scope.

(* ---- (a) a static traversal is what evaluation does ------------------------------------- *)

(* For every expression that hcl.AbsTraversalForExpr accepts and whose chain of traversal
   nodes ends in a variable reference (ShPlain: ScopeTraversalExpr, possibly under
   RelativeTraversalExpr nodes), for every scope, every binding of the anonymous symbol and
   enough fuel: evaluating the expression and applying the static traversal to the scope
   give the same value and are both errors or both not. *)
Theorem C20_traversal_agrees :
  forall e root steps,
  abs_traversal_for_expr e = Some (root, steps) ->
  trav_shape_of e = Some ShPlain ->
  keys_unmarked steps = true ->   (* index keys of a static traversal are unmarked literals *)
  forall (c : ctx) (anon : option val) (fuel : nat),
  (trav_depth e < fuel)%nat ->
  fst (eval fuel c anon e) = fst (traverse_abs c root steps) /\
  has_errors (snd (eval fuel c anon e)) = has_errors (snd (traverse_abs c root steps)).
Proof. exact traversal_agrees_abs. Qed.
Print Assumptions C20_traversal_agrees.

(* the same for hcl.Expression.Value *)
Theorem C20_traversal_agrees_value :
  forall e root steps,
  abs_traversal_for_expr e = Some (root, steps) ->
  trav_shape_of e = Some ShPlain ->
  keys_unmarked steps = true ->
  forall c : ctx,
  fst (value c e) = fst (traverse_abs c root steps) /\
  has_errors (snd (value c e)) = has_errors (snd (traverse_abs c root steps)).
Proof. exact traversal_agrees_value_abs. Qed.
Print Assumptions C20_traversal_agrees_value.

(* every expression with a static traversal has one of the three shapes *)
Theorem C20_traversal_shapes :
  forall e t, abs_traversal_for_expr e = Some t -> exists sh, trav_shape_of e = Some sh.
Proof. exact traversal_shapes_abs. Qed.
Print Assumptions C20_traversal_shapes.

(* Documented deviation 1 (LiteralValueExpr.AsTraversal): the literals true, false, null
   have the root-only static traversals true/false/null; they evaluate to the literal in
   every scope, while the traversal reads a variable of that name. *)
Theorem C20_keyword_evaluates_to_literal :
  forall v root steps, as_traversal (ELit v) = Some (root, steps) ->
  steps = [] /\ In root [kw_null; kw_true; kw_false] /\
  forall c anon f, eval (S f) c anon (ELit v) = (v, []).
Proof. exact keyword_evaluates_to_literal. Qed.
Print Assumptions C20_keyword_evaluates_to_literal.

Theorem C20_as_traversal_keyword_deviation :
  exists e c root steps,
    as_traversal e = Some (root, steps) /\ trav_shape_of e = Some ShKeyword /\
    ~ agrees (value c e) (traverse_abs c root steps).
Proof. exact as_traversal_keyword_deviation. Qed.
Print Assumptions C20_as_traversal_keyword_deviation.

(* Documented deviation 2 (ObjectConsKeyExpr.Value): an object key that is a bare name
   evaluates to that name as a string; one that is a multi-step traversal is the error
   "Ambiguous attribute key"; the static traversal exists in both cases. *)
Theorem C20_objkey_evaluates_to_name :
  forall root c anon f,
  as_traversal (EObjKey (EScopeTrav root []) false) = Some (root, []) /\
  eval (S f) c anon (EObjKey (EScopeTrav root []) false) = (VStr root, []).
Proof. exact objkey_evaluates_to_name. Qed.
Print Assumptions C20_objkey_evaluates_to_name.

Theorem C20_objkey_traversal_is_ambiguous :
  forall root s steps c anon f,
  as_traversal (EObjKey (EScopeTrav root (s :: steps)) false) = Some (root, s :: steps) /\
  eval (S f) c anon (EObjKey (EScopeTrav root (s :: steps)) false) = (dyn_val, [derr S_AmbiguousKey []]).
Proof. exact objkey_traversal_is_ambiguous. Qed.
Print Assumptions C20_objkey_traversal_is_ambiguous.

(* ---- (b) stand-alone traversal parser: statement only ----------------------------------- *)

(* for parsers parse_traversal_abs / parse_expression (Some = no error diagnostics): every
   text the stand-alone parser accepts is an expression with that static traversal *)
Definition C20_standalone_traversal_agrees
  (parse_traversal_abs : list Z -> option traversal)
  (parse_expression : list Z -> option expr) : Prop :=
  forall src t, parse_traversal_abs src = Some t ->
  exists e, parse_expression src = Some e /\ abs_traversal_for_expr e = Some t.

Example C20_standalone_statement_is_the_proofs_one :
  C20_standalone_traversal_agrees = standalone_traversal_agrees.
Proof. reflexivity. Qed.

(* ---- (c) static list / map / call parts evaluate to the parts of the whole ----------------- *)

Theorem C20_static_list_agrees :
  forall e es, expr_list e = Some es ->
  forall c anon f,
  eval (S f) c anon e =
  (VTuple (map (fun x => fst (eval f c anon x)) es),
   concat (map (fun x => snd (eval f c anon x)) es)).
Proof. exact static_list_agrees. Qed.
Print Assumptions C20_static_list_agrees.

(* the object is a function (obj_of_pairs: the loop of ObjectConsExpr.Value) of the results
   of evaluating the static (key, value) pairs, in order *)
Theorem C20_static_map_agrees :
  forall e kvs, expr_map e = Some kvs ->
  forall c anon f,
  eval (S f) c anon e =
  obj_of_pairs (map (fun kv => (eval f c anon (fst kv), eval f c anon (snd kv))) kvs).
Proof. exact static_map_agrees. Qed.
Print Assumptions C20_static_map_agrees.

(* when every key evaluates to an unmarked known string without diagnostics: the pairs
   folded left to right into a map, diagnostics of the values in order *)
Theorem C20_static_map_plain_keys :
  forall ps : list pair_res,
  Forall (fun p => exists s, fst p = (VStr s, [])) ps ->
  obj_of_pairs ps =
  (VObj (fold_left (fun acc p => assoc_set (key_of p) (fst (snd p)) acc) ps []),
   concat (map (fun p => snd (snd p)) ps)).
Proof. exact static_map_plain_keys. Qed.
Print Assumptions C20_static_map_plain_keys.

(* ... in which a later pair with the same key wins *)
Theorem C20_static_map_later_key_wins :
  forall (ps : list pair_res) k vals,
  assoc_get k (fold_left (fun acc p => assoc_set (key_of p) (fst (snd p)) acc) ps vals) =
  last_binding k ps (assoc_get k vals).
Proof. exact static_map_later_key_wins. Qed.
Print Assumptions C20_static_map_later_key_wins.

(* a static call is a call node with that name and those arguments; without `...` its value
   is the function applied (apply_fn: conversion to the parameter types, then
   function.Call) to the results of evaluating the static arguments, in order *)
Theorem C20_static_call_agrees :
  forall e name args, expr_call e = Some (name, args) ->
  (exists expand, e = ECall name args expand) /\
  (e = ECall name args false ->
   forall c anon f,
   eval (S f) c anon e =
   match lookup_fn c name false with
   | (None, false) => (dyn_val, [derr S_FuncsNotAllowed []])
   | (None, true) => (dyn_val, [derr S_UnknownFunc [FStr name []]])
   | (Some fnv, _) => apply_fn name fnv (map (eval f c anon) args)
   end).
Proof. exact static_call_agrees. Qed.
Print Assumptions C20_static_call_agrees.

(* REFUTED part: hcl.StaticCall does not record `...`; f(a...) and f(a) have the same static
   call and different values (witness: first([1, 2]...) = 1, first([1, 2]) = [1, 2]) *)
Theorem C20_static_call_expand_refuted :
  exists name args c,
    expr_call (ECall name args true) = Some (name, args) /\
    fst (value c (ECall name args true)) <> fst (value c (ECall name args false)).
Proof. exact static_call_expand_deviation. Qed.
Print Assumptions C20_static_call_expand_refuted.

(* ---- (d) type round trip --------------------------------------------------------------------- *)

(* For every type of the constraint language — primitives, any, list/set/map, tuple, object
   whose attribute names are identifiers, sorted and distinct, nested arbitrarily (ty_lang) —
   getType in constraint mode reads the AST of the rendered type (type_expr) back to the
   identical type, with no diagnostics and no optional attribute. *)
Theorem C20_type_roundtrip :
  forall t, ty_lang t = true -> get_type true (type_expr t) = mkTres t [] false.
Proof. exact type_roundtrip. Qed.
Print Assumptions C20_type_roundtrip.

(* the text-level statement (needs the parser; checked on the real code by the harness) *)
Definition C20_type_text_roundtrip (parse : list Z -> option expr) : Prop :=
  forall t s, ty_lang t = true -> first_attr_for t = false ->
  type_string t = Some s -> parse s = Some (type_expr t).

(* the known exception: object({for=string}) is in the language and round-trips as an AST;
   its text is "object({for=string})", which the real parser reads as a for-expression *)
Theorem C20_type_for_witness :
  ty_lang ty_for_witness = true /\
  first_attr_for ty_for_witness = true /\
  type_string ty_for_witness =
    Some [111;98;106;101;99;116;40;123;102;111;114;61;115;116;114;105;110;103;125;41] /\
  get_type true (type_expr ty_for_witness) = mkTres ty_for_witness [] false.
Proof. exact ty_for_witness_facts. Qed.
Print Assumptions C20_type_for_witness.

(* ---- the hypotheses are satisfiable on non-trivial instances ---------------------------------- *)

(* o.name[0] in a scope where o = {name = ["x"]}: the static traversal and evaluation both
   give "x" *)
Example C20_traversal_instance :
  let e := ERelTrav (EScopeTrav [111] [SAttr [110;97;109;101]]) [SIndex (VNum (nz 0))] in
  let c := [mkFrame (Some [([111], VObj [([110;97;109;101], VTuple [VStr [120]])])]) None] in
  abs_traversal_for_expr e = Some ([111], [SAttr [110;97;109;101]; SIndex (VNum (nz 0))]) /\
  trav_shape_of e = Some ShPlain /\
  value c e = (VStr [120], []) /\
  traverse_abs c [111] [SAttr [110;97;109;101]; SIndex (VNum (nz 0))] = (VStr [120], []).
Proof. vm_compute. repeat split. Qed.

(* object({a=list(string),null=tuple([any,set(number)])}) is in the language *)
Example C20_type_instance :
  let t := TObj [([97], TList TStr); (kw_null, TTuple [TDyn; TSet TNum])] in
  ty_lang t = true /\ get_type true (type_expr t) = mkTres t [] false.
Proof. vm_compute. split; reflexivity. Qed.
