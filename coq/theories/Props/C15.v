(* Props/C15.v — All front ends are total, deterministic and report well-formed diagnostics.
   Only the property theorems, each closed by [exact], with Print Assumptions.

   NATIVE-SYNTAX PARSER (this file's own part).  Model: Parse/Peeker.v, Parse/TemplateParser.v,
   Parse/ExprParser.v, Parse/BodyParser.v, Parse/Traversal.v — hclsyntax/peeker.go, parser.go,
   parser_template.go, parser_traversal.go and the five entry points of public.go, over the
   implementation's own token stream; every Go panic site that matters is an explicit `Panic`
   outcome (empty token slice, empty include-newlines stack, AssertEmptyIncludeNewlinesStack,
   the "called with unsupported next token" guards, "passthru set with len(exprs) != 1", a
   Block with a nil Body and no error, FunctionCallExpr{ExpandFinal} without arguments), and
   running out of fuel is the distinct outcome `OutOfFuel`.
   Proofs: Parse/PeekerProofs.v, TemplateParserProofs.v, ExprParserProofs.v, ExprConsProofs.v,
   BodyParserProofs.v, PlaceholderProofs.v.  The model is tied to the Go code by
   harness/cmd/cparse + Parse/ParseCheck.v (ASTs, and the exact sequence of diagnostic kinds,
   on valid, mutated and truncated inputs).

   Quantified over ALL token lists: any type codes (also ones the scanner never emits), any
   bytes, any oracle fields, comments and newlines anywhere.  The only side conditions are
   `ts <> []` and, for termination, `ends_with_eof ts` — the scanner always ends the stream
   with one EOF token (C14_hcl_tokens_tile below); on a stream that does not end with EOF Go's
   own loops do not terminate either (Read keeps returning the last token), and on an empty
   slice Go indexes Tokens[-1] (C15_empty_token_list_panics: the stated boundary).
   "Deterministic": the model is a function; that the Go code is one too is a run-time fact
   checked by the byte-level harness (cmd/c15), not by these theorems.

   The other front ends are cited at the end from the models of C14 (scanner), C13 (JSON),
   C09 (formatter) and C10 (writer loader); their proofs live with those properties. *)
From HclV Require Lex.Scanner Lex.ScannerProofs Lex.HclLex Lex.HclLexProofs
  Json.Scanner Json.ScannerProofs Json.Parser Json.ParserProofs
  Write.Format Write.FormatProofs Write.Loader Write.LoaderProofs.
From HclV Require Import Base.Prelude Gen.TokenTypes Cty.Values Cty.Ops Eval.Impl
  Parse.Peeker Parse.TemplateParser Parse.ExprParser Parse.BodyParser Parse.Traversal
  Parse.PeekerProofs Parse.ExprParserProofs Parse.ExprConsProofs Parse.BodyParserProofs
  Parse.PlaceholderProofs.

(* ---- (a) totality ----------------------------------------------------------------------------------
   With fuel = (number of tokens + 1) * fuel_factor, fuel_factor = 8 (Peeker.fuel_for), no entry
   point runs out of fuel: every recursive call and every loop iteration either consumes a
   token or runs at EOF, where every loop of parser.go tests for EOF and stops (recover,
   recoverOver, recoverAfterBodyItem included). *)
Theorem C15_front_ends_total :
  forall ts, ends_with_eof ts ->
  parse_config ts <> EOutOfFuel /\
  parse_expression_entry ts <> EOutOfFuel /\
  parse_template_entry ts <> EOutOfFuel /\
  parse_traversal_abs ts <> EOutOfFuel /\
  parse_traversal_partial ts <> EOutOfFuel.
Proof. exact front_ends_total. Qed.
Print Assumptions C15_front_ends_total.

(* ---- (c) no modelled panic ---------------------------------------------------------------------------
   For every non-empty token list (EOF-terminated or not) no entry point reaches any of the
   modelled panics. *)
Theorem C15_no_modelled_panic :
  forall ts, ts <> [] -> forall p,
  parse_config ts <> EPanic p /\
  parse_expression_entry ts <> EPanic p /\
  parse_template_entry ts <> EPanic p /\
  parse_traversal_abs ts <> EPanic p /\
  parse_traversal_partial ts <> EPanic p.
Proof. exact no_modelled_panic. Qed.
Print Assumptions C15_no_modelled_panic.

(* the boundary: an empty token slice (never produced by the scanner) makes the first Peek index
   Tokens[-1] *)
Theorem C15_empty_token_list_panics :
  parse_config [] = EPanic P_EmptyTokens /\ parse_expression_entry [] = EPanic P_EmptyTokens.
Proof. exact empty_token_list_panics. Qed.
Print Assumptions C15_empty_token_list_panics.

(* ---- (b) the include-newlines stack -------------------------------------------------------------------
   Every parser function returns with the peeker's IncludeNewlinesStack exactly as it found it,
   on every path — recover, recoverOver, recoverAfterBodyItem and all early error returns
   included — for every fuel, every token list and every state with a non-empty stack. *)
Theorem C15_newline_stack_balanced :
  forall fuel,
  (forall e, balanced (parse_body fuel e)) /\
  (forall i, balanced (finish_parsing_body_block fuel i)) /\
  (forall e, balanced (parse_single_attr_body fuel e)) /\
  balanced (parse_expression fuel) /\
  balanced (parse_expression_with_traversals fuel) /\
  balanced (parse_expression_term fuel) /\
  (forall e, balanced (parse_expression_traversals fuel e)) /\
  (forall e fl, balanced (parse_template (parse_expression fuel) fuel e fl)) /\
  (forall e fl, balanced (parse_template_inner (parse_expression fuel) fuel e fl)) /\
  balanced (parse_quoted_string_literal fuel) /\
  (forall sp, balanced (parse_traversal fuel sp)) /\
  (forall e, balanced (recover fuel e)) /\
  (forall e, balanced (recover_over fuel e)) /\
  balanced (recover_after_body_item fuel).
Proof. exact newline_stack_balanced. Qed.
Print Assumptions C15_newline_stack_balanced.

(* ... and the functions Go only calls with a particular token next (they panic otherwise; the
   precondition says what Peek shows): ParseBodyItem, finishParsingBodyAttribute,
   finishParsingFunctionCall, parseTupleCons, parseObjectCons, finishParsingForExpr. *)
Theorem C15_newline_stack_balanced_pre :
  forall fuel,
  balanced_pre (peeks is_ident) (parse_body_item fuel) /\
  (forall i sl, balanced_pre (peeks is_equal) (finish_parsing_body_attribute fuel i sl)) /\
  (forall name, balanced_pre (peeks is_call_open) (finish_parsing_function_call fuel name)) /\
  balanced_pre (peeks is_obrack) (parse_tuple_cons fuel) /\
  balanced_pre (peeks is_obrace) (parse_object_cons fuel) /\
  (forall o, balanced_pre (for_pre o) (finish_parsing_for_expr fuel o)).
Proof. exact newline_stack_balanced_pre. Qed.
Print Assumptions C15_newline_stack_balanced_pre.

(* Hence AssertEmptyIncludeNewlinesStack never fires at the five public entry points, for ALL
   token lists (the empty one included). *)
Theorem C15_assert_stack_never_fires :
  forall ts,
  parse_config ts <> EPanic P_AssertStack /\
  parse_expression_entry ts <> EPanic P_AssertStack /\
  parse_template_entry ts <> EPanic P_AssertStack /\
  parse_traversal_abs ts <> EPanic P_AssertStack /\
  parse_traversal_partial ts <> EPanic P_AssertStack.
Proof. exact assert_stack_never_fires. Qed.
Print Assumptions C15_assert_stack_never_fires.

(* ---- (f) result non-nil / unusable implies error --------------------------------------------------------
   "Non-nil": the model's results are total values; the one nil the Go code could hand out — a
   Block whose Body is nil without any error — is the panic P_NilBody of (c), and
   ExpandFinal without arguments is P_ExpandNoArgs of (c).
   "Unusable implies error": `clean e` says that the AST holds NO placeholder anywhere — no
   unknown-value literal (errPlaceholderExpr, the "Invalid expression" placeholder, an
   unparsable number literal), no ExprSyntaxError node, no unknown index key; `clean_pbody`
   says it of every attribute expression of a body at every depth, `clean_trav` of every index
   key of a traversal.  For ALL token lists: a result returned without any diagnostic (the
   lexer's checkInvalidTokens diagnostics included) is clean; contrapositive: whenever a
   placeholder is returned, an error diagnostic is returned with it.  Proved in full
   (Parse/PlaceholderProofs.v), via the invariant "recovery off at entry and no diagnostic
   returned => recovery still off and the result clean" of every parser function.
   Not covered: that diagnostics carry a severity / summary / in-bounds ranges (ranges are not
   modelled; the byte-level harness cmd/c15 checks them on the Go code). *)
Theorem C15_unusable_implies_error :
  (forall ts e, parse_expression_entry ts = EOk e [] -> clean e = true) /\
  (forall ts e, parse_template_entry ts = EOk e [] -> clean e = true) /\
  (forall ts b, parse_config ts = EOk b [] -> forallb clean_item b = true) /\
  (forall ts t, parse_traversal_abs ts = EOk t [] -> forallb clean_tstep t = true) /\
  (forall ts t, parse_traversal_partial ts = EOk t [] -> forallb clean_tstep t = true).
Proof. exact unusable_implies_error. Qed.
Print Assumptions C15_unusable_implies_error.

(* what counts as a placeholder *)
Theorem C15_placeholders_are_not_clean :
  clean e_syntax_error = false /\ clean (ELit dyn_val) = false /\
  clean (EScopeTrav [97] [SIndex dyn_val]) = false /\ clean (ELit (VUnk TNum rf_none)) = false.
Proof. exact placeholders_are_not_clean. Qed.

(* ---- the other front ends (cited; proofs with C14 / C13 / C09 / C10) ------------------------------------- *)

(* Scanner (LexConfig / LexExpression / LexTemplate / ValidIdentifier): for every byte string the
   scan ends normally — no panic in an action, never out of fuel — ... *)
Theorem C15_hcl_scan_done :
  forall (entry : Lex.HclLex.hmode) (data : list Z),
  entry = Lex.HclLex.MMain \/ entry = Lex.HclLex.MBare \/ entry = Lex.HclLex.MIdentOnly ->
  exists its, Lex.HclLex.hcl_scan entry data = (its, Lex.Scanner.Done).
Proof. exact Lex.HclLexProofs.hcl_scan_done. Qed.
Print Assumptions C15_hcl_scan_done.

(* ... for any rule set the engine never runs out of fuel ... *)
Theorem C15_scanner_total :
  forall (mode : Type) (M : Lex.Scanner.machine mode) (m0 : mode) (data : list Z),
  snd (Lex.Scanner.scan M m0 data) <> Lex.Scanner.OutOfFuel.
Proof. exact Lex.ScannerProofs.scanner_total. Qed.
Print Assumptions C15_scanner_total.

(* JSON syntax: scanner and parser are total on every byte string (fuel = length + 1 resp.
   number of tokens + 1 suffices, no out-of-range index). *)
Theorem C15_jscan_total :
  forall bs, exists ts, Json.Scanner.jscan_opt bs = Some ts.
Proof. exact Json.ScannerProofs.jscan_total. Qed.
Print Assumptions C15_jscan_total.

Theorem C15_jparse_total :
  forall bs, exists v ds, Json.Parser.jparse bs = Json.Parser.JRes v ds.
Proof. exact Json.ParserProofs.jparse_total. Qed.
Print Assumptions C15_jparse_total.

(* Formatter (hclwrite.Format on tokens): a total function of ANY token list that keeps the
   number of tokens. *)
Theorem C15_format_total :
  forall ts, length (Write.Format.format ts) = length ts.
Proof. exact Write.FormatProofs.format_length. Qed.
Print Assumptions C15_format_total.

(* Writer loader (hclwrite.ParseConfig after the native parse): on well-formed ranges it reaches
   no panic and loses no token. (Its refuted/partial cases are C10's.) *)
Theorem C15_load_total :
  forall toks f, Write.Loader.ranges_wf toks f = true ->
    exists tree, Write.Loader.load toks f = Write.Loader.Ok tree /\
                 Write.Loader.build_tokens tree = Write.Loader.tokens toks.
Proof. exact Write.LoaderProofs.load_flatten. Qed.
Print Assumptions C15_load_total.

(* ---- non-vacuity -------------------------------------------------------------------------------------------
   A damaged input taking recovery paths with nested newline contexts:  a = f( [1, { b = (  EOF
   — terminates, no panic, diagnostics reported, a partial body returned. *)
Definition ex15 : list ptok :=
  [mkTok TokenIdent [97] None 0 0; mkTok TokenEqual [61] None 0 0; mkTok TokenIdent [102] None 0 0;
   mkTok TokenOParen [40] None 0 0; mkTok TokenOBrack [91] None 0 0; mkTok TokenNumberLit [49] None 0 0;
   mkTok TokenComma [44] None 0 0; mkTok TokenOBrace [123] None 0 0; mkTok TokenIdent [98] None 0 0;
   mkTok TokenEqual [61] None 0 0; mkTok TokenOParen [40] None 0 0; mkTok TokenEOF [] None 0 0].

Example C15_example_hypotheses : ends_with_eof ex15 /\ ex15 <> [].
Proof.
  split; [|discriminate].
  exists (firstn 11 ex15), (mkTok TokenEOF [] None 0 0). split; reflexivity.
Qed.

Example C15_example :
  exists body ds, parse_config ex15 = EOk body ds /\ ds <> [] /\ length body = 1%nat.
Proof. eexists _, _. split; [vm_compute; reflexivity|]. split; [discriminate | reflexivity]. Qed.

(* (f) on an instance: `a = (` EOF — the attribute's expression is the unknown placeholder, and a
   diagnostic ("Missing expression") comes with it *)
Example C15_example_placeholder :
  parse_config [mkTok TokenIdent [97] None 0 0; mkTok TokenEqual [61] None 0 0; mkTok TokenOParen [40] None 0 0;
                mkTok TokenEOF [] None 0 0]
  = EOk [PAttr [97] (ELit dyn_val)] [D_MissingExpr].
Proof. vm_compute. reflexivity. Qed.

(* a stream that does not end with EOF: the model (like Go) does not terminate — it reports
   OutOfFuel, it never invents a result *)
Example C15_example_no_eof :
  parse_config [mkTok TokenIdent [97] None 0 0; mkTok TokenIdent [98] None 0 0] = EOutOfFuel.
Proof. vm_compute. reflexivity. Qed.
