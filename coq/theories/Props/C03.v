(* Props/C03.v — Native and JSON syntaxes denote the same configuration.
   Only the property theorems, each closed by [exact], with Print Assumptions.

   Models: Body/Native.v (hclsyntax/structure.go), Body/Json.v (json/structure.go:
   body.Content, PartialContent, JustAttributes, unpackBlock, collectDeepAttrs),
   Body/JsonEncodes.v (abstract configurations [cfg], [native_of], schema trees
   [stree], the admissible JSON encodings [json_encodes] after json/spec.md, the
   literal mappings [lit_val] / [jexpr_val] (expression.Value with a nil context),
   [content_equiv] over the C04 interface), Body/DecBridge.v (from the C04
   interface to the abstract body of Dec/Decode.v), Dec/Decode.v (hcldec).
   Proofs: Body/JsonEncodesProofs.v, Body/DecBridge.v.

   Vocabulary.  [json_sem] / [native_sem]: the two body implementations with
   their child-body and attribute-evaluation functions.  [jroot j]: the body
   json.Parse yields for the JSON value j; [native_of c]: the body
   hclsyntax.ParseConfig yields for the native rendering of c.  A schema tree
   [SNode sa sb kid] gives the attribute schemata, the block header schemata
   (type, number of labels) and per block type the tree for the bodies of such
   blocks; [SJust] is a body read with JustAttributes (hcldec.BlockAttrsSpec).
   Diagnostics are (kind, name) pairs, all of severity Error. *)
From HclV Require Import Base.Prelude Cty.Values Dec.Spec Dec.Decode.
From HclV Require Import Body.Laws Body.Native Body.Json Body.JsonEncodes Body.JsonEncodesProofs
  Body.DecBridge.
From Coq Require Import String.
Open Scope list_scope.
Open Scope Z_scope.

(* The JSON literal mapping agrees with the native one: for every literal value
   whose object values have unique keys (at every depth), evaluating its JSON
   rendering (json/structure.go expression.Value, nil context) yields the value
   of the native literal expression, without error. *)
Theorem C03_literal_values_equal :
  forall l : lit, lit_ok l = true -> jexpr_val (enc_lit l) = (lit_val l, false).
Proof. exact jexpr_enc_lit. Qed.
Print Assumptions C03_literal_values_equal.

(* json_native_content_equiv (full).  For EVERY schema tree S, configuration c
   and JSON value j that is an admissible encoding of c under S: the JSON body
   and the native body are content_equiv under S, i.e. (unfolding content_equiv)
   at every level, with s the level schema of S:
     - Content returns the same attribute names, with equal literal values and
       equal evaluation error-ness;
     - Content returns the same block sequence — type and labels, in the same
       order — and the bodies of corresponding blocks are content_equiv under the
       child tree of their type;
     - PartialContent returns the same content as Content, on both sides;
     - Content reports a diagnostic in JSON iff it does natively, and so does
       PartialContent;
     - at a JustAttributes level: the same attributes in the same order with
       equal values, and JustAttributes reports a diagnostic in JSON iff natively.
   By induction on the derivation of json_encodes. *)
Theorem C03_json_native_content_equiv :
  forall (S : stree) (c : cfg) (j : jvalue),
    json_encodes S c j ->
    content_equiv json_sem native_sem S (jroot j) (native_of c).
Proof. exact json_native_content_equiv. Qed.
Print Assumptions C03_json_native_content_equiv.

(* schema_violation_iff (partial): under the level schema the encoding was made
   for, the diagnostics agree KIND BY KIND, for Content and for PartialContent:
   "Missing required argument" for the same names; JSON's "Extraneous JSON object
   property" n iff the native body reports "Unsupported argument" n or
   "Unsupported block type" n; nothing else is reported on either side (no
   label-count diagnostics, no "Incorrect JSON value type", no duplicates). *)
Theorem C03_schema_violation_iff_partial :
  forall sa sb kid (c : cfg) (j : jvalue),
    json_encodes (SNode sa sb kid) c j ->
    let s := level_schema_of sa sb in
    let agree (dj dn : list diag) :=
      (forall n, In (MissingRequired, n) dj <-> In (MissingRequired, n) dn) /\
      (forall n, In (ExtraneousProp, n) dj <->
                 In (UnsupportedAttr, n) dn \/ In (UnsupportedBlock, n) dn) /\
      (forall x, In x dj -> fst x = MissingRequired \/ fst x = ExtraneousProp) /\
      (forall x, In x dn -> fst x = MissingRequired \/ fst x = UnsupportedAttr \/
                            fst x = UnsupportedBlock) in
    agree (snd (jcontent s (jroot j))) (snd (ncontent s (native_of c))) /\
    agree (snd (jpartial s (jroot j))) (snd (npartial s (native_of c))).
Proof. exact schema_violation_iff_partial. Qed.
Print Assumptions C03_schema_violation_iff_partial.

(* The full statement — error-ness agrees under EVERY schema, not only the one
   the encoding was made for — is false, and inherently so (json/spec.md: "the
   schema is crucial to allow differentiation of attribute definitions and block
   definitions").  Witness: native  b { c {} } , JSON {"b": {"c": {}}} (encoded for
   b without labels), read with a schema asking for ONE label on b: JSON takes
   "c" for the label and reports nothing; the native body reports the missing
   label.  The kind-confusion case (schema says attribute, configuration has a
   block of that name) is [kind_confusion_outside] in JsonEncodesProofs.v. *)
Theorem C03_schema_violation_iff_refuted :
  ~ (forall sa sb kid c j (s : schema),
       json_encodes (SNode sa sb kid) c j ->
       (snd (jcontent s (jroot j)) = [] <-> snd (ncontent s (native_of c)) = [])).
Proof. exact schema_violation_iff_refuted. Qed.
Print Assumptions C03_schema_violation_iff_refuted.

(* decode_respects_content_equiv.  For ANY two body implementations (of the C04
   interface): bodies that are content_equiv under the schema tree S decode to
   equal values with equal error-ness under EVERY hcldec spec and context, for
   Decode and PartialDecode.  Decoding a body b of implementation X is, per the
   bridging assumption stated in Body/DecBridge.v (hcldec observes a body only
   through Content / PartialContent / JustAttributes with the implied schemata):
   the hcldec model run on [abody_of X S b] (what Content returns at every level
   of S), with an error iff the model reports one or some level of b reported a
   diagnostic ([tree_clean]). *)
Theorem C03_decode_respects_content_equiv :
  forall (V1 B1 V2 B2 : Type) (X1 : BodySem V1 B1) (X2 : BodySem V2 B2) S b1 b2,
    content_equiv X1 X2 S b1 b2 ->
    forall (s : spec) (c : Impl.ctx),
      fst (decode s (abody_of X1 S b1) c) = fst (decode s (abody_of X2 S b2) c) /\
      ((has_err (snd (decode s (abody_of X1 S b1) c)) = true \/ ~ tree_clean X1 S b1) <->
       (has_err (snd (decode s (abody_of X2 S b2) c)) = true \/ ~ tree_clean X2 S b2)) /\
      fst (partial_decode s (abody_of X1 S b1) c) = fst (partial_decode s (abody_of X2 S b2) c) /\
      ((has_err (snd (partial_decode s (abody_of X1 S b1) c)) = true \/ ~ tree_clean_partial X1 S b1) <->
       (has_err (snd (partial_decode s (abody_of X2 S b2) c)) = true \/ ~ tree_clean_partial X2 S b2)).
Proof. exact (@decode_respects_content_equiv). Qed.
Print Assumptions C03_decode_respects_content_equiv.

(* json_native_decode_equal: every admissible JSON encoding of a configuration
   decodes, under every spec and context, to the value the native rendering
   decodes to, with the same error-ness. *)
Theorem C03_json_native_decode_equal :
  forall (S : stree) (c : cfg) (j : jvalue),
    json_encodes S c j ->
    forall (s : spec) (ctx : Impl.ctx),
      decode_val json_sem S s (jroot j) ctx = decode_val native_sem S s (native_of c) ctx /\
      (decode_errs json_sem S s (jroot j) ctx <-> decode_errs native_sem S s (native_of c) ctx) /\
      partial_decode_val json_sem S s (jroot j) ctx = partial_decode_val native_sem S s (native_of c) ctx /\
      (partial_decode_errs json_sem S s (jroot j) ctx <-> partial_decode_errs native_sem S s (native_of c) ctx).
Proof. exact json_native_decode_equal. Qed.
Print Assumptions C03_json_native_decode_equal.

(* The decision procedure run by the correspondence checker on every generated
   case is sound: whenever it accepts, the case is an instance of the theorems
   above. *)
Theorem C03_json_encodes_b_sound :
  forall S c j, json_encodes_b S c j = true -> json_encodes S c j.
Proof. exact json_encodes_b_sound. Qed.
Print Assumptions C03_json_encodes_b_sound.

(* ---- the hypotheses are satisfiable on a non-trivial instance --------------------------- *)
Open Scope string_scope.
(* json/spec.md, block type "foo" with two labels, fourth spelling (duplicate
   property names, an array of bodies), plus an attribute, a comment, an
   array-of-objects body and a degenerate "no blocks" property *)
Definition ex_S : stree :=
  SNode [("name", true)] [("foo", 2%nat); ("bar", 0%nat)]
        (fun t => if String.eqb t "foo" then SNode [("child_attr", false)] [] (fun _ => SJust)
                  else SJust).
Definition ex_cfg : cfg :=
  [CAttr "name" (LObj [("k", LArr [LLeaf 3002; LNull; LLeaf 1])]);
   CBlock "foo" ["bar"; "baz"] [CAttr "child_attr" (LStr "baz")];
   CBlock "foo" ["bar"; "boz"] [CAttr "child_attr" (LStr "baz")];
   CBlock "foo" ["bar"; "baz"] [CAttr "child_attr" (LStr "baz")];
   CBlock "foo" ["bar"; "baz"] [CAttr "child_attr" (LStr "boz")]].
Definition ex_json : jvalue :=
  JArr [JObj [("name", JObj [("k", JArr [JLeaf 3002; JNull; JLeaf 1])]); ("//", JStr "comment")];
        JObj [("foo", JObj [("bar", JObj [("baz", JObj [("child_attr", JStr "baz")]);
                                          ("boz", JObj [("child_attr", JStr "baz")])]);
                            ("bar", JObj [("baz", JArr [JObj [("child_attr", JStr "baz")];
                                                        JObj [("child_attr", JStr "boz")]])])]);
              ("bar", JNull)]].

Example C03_example :
  json_encodes ex_S ex_cfg ex_json /\
  map (fun bl => (btype bl, blabels bl))
      (cblocks (fst (jcontent (level_schema ex_S) (jroot ex_json))))
  = [("foo", ["bar"; "baz"]); ("foo", ["bar"; "boz"]); ("foo", ["bar"; "baz"]); ("foo", ["bar"; "baz"])] /\
  map (fun bl => (btype bl, blabels bl))
      (cblocks (fst (ncontent (level_schema ex_S) (native_of ex_cfg))))
  = [("foo", ["bar"; "baz"]); ("foo", ["bar"; "boz"]); ("foo", ["bar"; "baz"]); ("foo", ["bar"; "baz"])] /\
  snd (jcontent (level_schema ex_S) (jroot ex_json)) = [] /\
  abody_of json_sem ex_S (jroot ex_json) = abody_of native_sem ex_S (native_of ex_cfg).
Proof.
  split; [apply json_encodes_b_sound; vm_compute; reflexivity|].
  repeat split; vm_compute; reflexivity.
Qed.

(* five labels; siblings that share the first 4, 3 and 2 labels meet in one innermost
   label object, in an array of objects at the innermost level, and in a label array;
   an identical label tuple is given as an array of two bodies *)
Definition deep_S : stree :=
  SNode [] [("foo", 5%nat)] (fun _ => SNode [("v", false)] [] (fun _ => SJust)).
Definition deep_cfg : cfg :=
  [CBlock "foo" ["a"; "b"; "c"; "d"; "e1"] [CAttr "v" (LLeaf 4002)];
   CBlock "foo" ["a"; "b"; "c"; "d"; "e2"] [CAttr "v" (LLeaf 6002)];
   CBlock "foo" ["a"; "b"; "c"; "x"; "e3"] [];
   CBlock "foo" ["a"; "b"; "y"; "d"; "e1"] [];
   CBlock "foo" ["a"; "b"; "y"; "d"; "e1"] []].
Definition deep_json : jvalue :=
  JObj [("foo", JObj [("a", JObj [("b",
     JObj [("c", JObj [("d", JArr [JObj [("e1", JObj [("v", JLeaf 4002)])];
                                   JObj [("e2", JObj [("v", JLeaf 6002)])]]);
                       ("x", JObj [("e3", JObj [])])]);
           ("y", JArr [JObj [("d", JObj [("e1", JArr [JObj []; JObj []])])]])])])])].

Example C03_example_deep :
  json_encodes deep_S deep_cfg deep_json /\
  map (fun bl => blabels bl) (cblocks (fst (jcontent (level_schema deep_S) (jroot deep_json))))
  = map (fun bl => blabels bl) (cblocks (fst (ncontent (level_schema deep_S) (native_of deep_cfg)))) /\
  map (fun bl => blabels bl) (cblocks (fst (jcontent (level_schema deep_S) (jroot deep_json))))
  = [["a"; "b"; "c"; "d"; "e1"]; ["a"; "b"; "c"; "d"; "e2"]; ["a"; "b"; "c"; "x"; "e3"];
     ["a"; "b"; "y"; "d"; "e1"]; ["a"; "b"; "y"; "d"; "e1"]].
Proof.
  split; [apply json_encodes_b_sound; vm_compute; reflexivity|].
  split; vm_compute; reflexivity.
Qed.
Close Scope string_scope.
