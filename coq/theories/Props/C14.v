(* Props/C14.v — Tokens tile the source and every reported position is faithful.
   Only the property theorems, each closed by [exact], with Print Assumptions.
   Models: Lex/Scanner.v (generic Ragel-style scanner engine), Lex/HclLex.v (rule
   sets of hclsyntax/scan_tokens.rl, LexConfig/LexExpression/LexTemplate),
   Lex/Positions.v (tokenAccum.emitToken, RangeScanner.Scan, pos_at).
   Proofs: Lex/ScannerProofs.v, Lex/HclLexProofs.v, Lex/PositionsProofs.v.
   The generated DFA hclsyntax/scan_tokens.go is tied to the model by
   differential testing only (harness/cmd/c14 + Lex/LexCheck.v). *)
From HclV Require Import Base.Prelude Gen.TokenTypes Gen.UnicodeDerived
  Lex.Scanner Lex.ScannerProofs Lex.Positions Lex.PositionsProofs Lex.HclLex Lex.HclLexProofs Lex.LexCheck.

(* ---- (a) tiling: generic over ANY rule set, ANY start mode, ANY input ------------- *)

(* The trace of a scan (tokens and skipped matches, in order) is a chain of
   consecutive byte ranges starting at 0 whose bytes concatenate to the input;
   it ends with exactly the EOF token at offset length data; every skipped
   piece is the match of a rule whose action emitted nothing. *)
Theorem C14_scanner_tiles :
  forall (mode : Type) (M : machine mode) (m0 : mode) (data : list Z) (its : list item),
  scan M m0 data = (its, Done) ->
  chain 0 its /\
  bytes_of its = data /\
  (exists body, its = body ++ [eof_item M (zlen data)]) /\
  (forall s0 e0 b, In (ISkip s0 e0 b) its -> skip_is_match M b).
Proof. exact scanner_tiles. Qed.
Print Assumptions C14_scanner_tiles.

(* On the token list: data = gap ++ bytes t1 ++ gap ++ bytes t2 ++ … with
   consecutive offsets and every gap a concatenation of skipped matches
   (tiled); starts and ends are monotone (ordered: source order, no overlap);
   each token's bytes are the source slice of its range; the list ends with the
   EOF token at length data and every other token is the error-state token or
   was emitted by a rule. *)
Theorem C14_scanner_tokens_tile :
  forall (mode : Type) (M : machine mode) (m0 : mode) (data : list Z) (its : list item),
  scan M m0 data = (its, Done) ->
  let toks := tokens_of its in
  tiled (gap_of (skip_is_match M)) 0 data toks /\
  ordered 0 toks /\
  (forall t, In t toks -> k_bytes t = slice data (k_s t) (k_e t)) /\
  (exists body, toks = body ++ [mkTok (m_eof_ty M) (zlen data) (zlen data) []] /\
                forall t, In t body -> token_origin M t).
Proof. exact scanner_tokens_tile. Qed.
Print Assumptions C14_scanner_tokens_tile.

(* Every iteration consumes at least one byte: length data + 1 iterations
   always suffice, the scan never ends with OutOfFuel. *)
Theorem C14_scanner_total :
  forall (mode : Type) (M : machine mode) (m0 : mode) (data : list Z),
  snd (scan M m0 data) <> OutOfFuel.
Proof. exact scanner_total. Qed.
Print Assumptions C14_scanner_total.

(* ---- the HCL rule sets ------------------------------------------------------------ *)

(* In the HCL machine (whatever the entry mode) a skipped match consists of
   spaces and tabs only: the only rule that emits nothing is Spaces. *)
Theorem C14_hcl_gaps_are_blank :
  forall (entry : hmode) (b : list Z),
  skip_is_match (hcl_machine entry) b -> forallb is_blank b = true.
Proof. exact hcl_gaps_are_blank. Qed.
Print Assumptions C14_hcl_gaps_are_blank.

(* For every input, in every scanning mode: tokens in source order, no overlap,
   token bytes = source bytes of the range, gaps only spaces/tabs, one EOF
   token at the end of input and no other token of type EOF. *)
Theorem C14_hcl_tokens_tile :
  forall (entry : hmode) (data : list Z) (its : list item),
  hcl_scan entry data = (its, Done) ->
  let toks := tokens_of its in
  tiled (blank_gap is_blank) 0 data toks /\
  ordered 0 toks /\
  (forall t, In t toks -> k_bytes t = slice data (k_s t) (k_e t)) /\
  (exists body, toks = body ++ [mkTok TokenEOF (zlen data) (zlen data) []] /\
                forall t, In t body -> k_ty t <> TokenEOF).
Proof. exact hcl_tokens_tile. Qed.
Print Assumptions C14_hcl_tokens_tile.

(* … and the premise always holds: for EVERY input and each of the three entry
   scanners (LexConfig/LexExpression: MMain, LexTemplate: MBare,
   ValidIdentifier: MIdentOnly) no action panics and the scan ends normally. *)
Theorem C14_hcl_scan_done :
  forall (entry : hmode) (data : list Z),
  entry = MMain \/ entry = MBare \/ entry = MIdentOnly ->
  exists its, hcl_scan entry data = (its, Done).
Proof. exact hcl_scan_done. Qed.
Print Assumptions C14_hcl_scan_done.

(* The fast identifier-class test (first-byte buckets in a search tree) returns
   what the alternation of hclsyntax/unicode_derived.rl returns, for every
   first byte 0..255 and every continuation. *)
Theorem C14_id_start_fast_ok :
  forall b s, 0 <= b < 256 -> id_start_len (b :: s) = match_alts ID_Start (b :: s).
Proof. exact id_start_fast_ok. Qed.
Print Assumptions C14_id_start_fast_ok.
Theorem C14_id_continue_fast_ok :
  forall b s, 0 <= b < 256 -> id_continue_len (b :: s) = match_alts ID_Continue (b :: s).
Proof. exact id_continue_fast_ok. Qed.
Print Assumptions C14_id_continue_fast_ok.

(* ---- (b) positions ------------------------------------------------------------------ *)

(* For any start position, any input, any cluster list gcs and any token list:
   if the tokens tile the input with blank gaps (blank bytes are not line
   breaks) and every byte offset from the end of one token to the start of the
   next, and every token end, is a cluster boundary of gcs, then emitToken's
   arithmetic succeeds and every Start/End equals pos_at: the position
   obtained by counting "\n"/"\r\n" clusters and grapheme clusters from the
   start position up to the byte offset. *)
Theorem C14_positions_faithful :
  forall (blank : Z -> bool),
  (forall c, blank c = true -> is_nl_lexer [c] = false) ->
  forall (start : pos) (data gcs : list Z) (toks : list rtok),
  tiled (blank_gap blank) 0 data toks ->
  aligned gcs 0 toks ->
  exists out,
    emit_all_gcs (mkAcc start (p_byte start)) gcs toks = Some out /\
    Forall2 (fun (t : rtok) (tk : token) =>
               t_ty tk = k_ty t /\ t_bytes tk = k_bytes t /\
               pos_at is_nl_lexer start data gcs (p_byte start + k_s t) = Some (r_start (t_range tk)) /\
               pos_at is_nl_lexer start data gcs (p_byte start + k_e t) = Some (r_end (t_range tk)))
            toks out.
Proof. exact positions_faithful. Qed.
Print Assumptions C14_positions_faithful.

(* The whole of scanTokens (BOM stripping, scanner, emitToken) in any mode. *)
Theorem C14_lex_positions_faithful :
  forall (mode : hmode) (src : list Z) (start : pos) (gcs : list Z) (its : list item),
  hcl_scan mode (fst (scan_start src start)) = (its, Done) ->
  aligned gcs 0 (tokens_of its) ->
  exists out,
    scan_tokens src start mode gcs = LexOk out /\
    Forall2 (tok_faithful (snd (scan_start src start)) (fst (scan_start src start)) gcs)
            (tokens_of its) out.
Proof. exact lex_positions_faithful. Qed.
Print Assumptions C14_lex_positions_faithful.

(* The incremental walk used by the Coq-side position oracle
   (LexCheck.check_posat_cases) is pos_at. *)
Theorem C14_walk_to_pos_at :
  forall nl start data gcs off w,
  walk_to nl gcs start data off = Some w -> pos_at nl start data gcs off = Some (w_pos w).
Proof. exact walk_to_pos_at. Qed.
Print Assumptions C14_walk_to_pos_at.
Theorem C14_walk_to_compose :
  forall nl cl p b a off w,
  walk_to nl cl p b a = Some w -> a <= off ->
  walk_to nl (w_cl w) (w_pos w) (w_data w) off = walk_to nl cl p b off.
Proof. exact walk_to_compose. Qed.
Print Assumptions C14_walk_to_compose.

(* The walk over the Start / End positions of every range of a parsed tree
   (LexCheck.check_posat_node_cases; the positions are found by a reflective
   walk over the real AST, node fields, computed ranges and diagnostic ranges):
   when it accepts a list of positions, each one IS the canonical position of its
   byte offset — line = 1 + line-break clusters before it, column = 1 + clusters
   since the start of its line. *)
Theorem C14_points_walk_pos_at :
  forall (start : pos) (data gcs : list Z) (pts : list pos),
  points_walk (mkWalk start data gcs) pts = true ->
  Forall (fun p => pos_at is_nl_lexer start data gcs (p_byte p) = Some p) pts.
Proof. exact points_walk_sound. Qed.
Print Assumptions C14_points_walk_pos_at.

(* RangeScanner.Scan (pos_scanner.go after 52c61bf / 6be209f). For any start
   position, any buffer b (whole file or fragment — all of b is scanned, the
   start position only offsets what is reported), any segmentation gcs of b in
   which a cluster ending in '\n' is "\n" or "\r\n" (clusters_agree: the code
   tests the last byte of the cluster, the lexer tests the whole cluster), and
   any split function whose advances and tokens end on cluster boundaries:
   Start = pos_at is_nl_lexer (offset), End = pos_at is_nl_lexer (offset +
   len(token)) — the same canonical position as for the lexer. *)
Theorem C14_range_scanner_faithful :
  forall (start : pos) (b gcs : list Z) (results : list (Z * Z)),
  Forall (fun n => 0 < n) gcs -> sumZ gcs = zlen b ->
  clusters_agree is_nl_rs is_nl_lexer b gcs ->
  rs_aligned gcs results ->
  exists out, range_scanner_gcs start b results gcs = Some out /\
              rs_faithful is_nl_lexer start b gcs (p_byte start) results out.
Proof. exact range_scanner_faithful. Qed.
Print Assumptions C14_range_scanner_faithful.

(* AGREEMENT of RangeScanner with the lexer: same buffer, start position and
   segmentation; a token's Start/End and a range's Start/End with the same byte
   offset are the same position. *)
Theorem C14_range_scanner_agrees_with_lexer :
  forall (blank : Z -> bool), (forall c, blank c = true -> is_nl_lexer [c] = false) ->
  forall (start : pos) (b gcs : list Z) (toks : list rtok) (results : list (Z * Z)),
  tiled (blank_gap blank) 0 b toks -> aligned gcs 0 toks ->
  Forall (fun n => 0 < n) gcs -> sumZ gcs = zlen b ->
  clusters_agree is_nl_rs is_nl_lexer b gcs -> rs_aligned gcs results ->
  exists outT outR,
    emit_all_gcs (mkAcc start (p_byte start)) gcs toks = Some outT /\
    range_scanner_gcs start b results gcs = Some outR /\
    forall tk rg p q, In tk outT -> In rg outR ->
      (p = r_start (t_range tk) \/ p = r_end (t_range tk)) ->
      (q = r_start rg \/ q = r_end rg) ->
      p_byte p = p_byte q -> p = q.
Proof. exact range_scanner_agrees_with_lexer. Qed.
Print Assumptions C14_range_scanner_agrees_with_lexer.

(* the former divergence witness "a\rb\nc\n" (DESIGN §9 #13): both now put the
   byte 'c' at 2:1 *)
Theorem C14_lexer_and_range_scanner_agree_on_lone_cr :
  let src := [97; 13; 98; 10; 99; 10] in
  (exists toks tk,
     lex_config src initial_pos [1; 1; 1; 1; 1; 1] = LexOk toks /\ In tk toks /\
     t_bytes tk = [99] /\ r_start (t_range tk) = mkPos 2 1 4) /\
  range_scanner initial_pos src [(4, 3); (2, 1)] [[1; 1; 1; 1]; [1; 1]] =
    [mkRange (mkPos 1 1 0) (mkPos 1 4 3); mkRange (mkPos 2 1 4) (mkPos 2 2 5)].
Proof. exact lexer_and_range_scanner_agree_on_lone_cr. Qed.
Print Assumptions C14_lexer_and_range_scanner_agree_on_lone_cr.

(* ---- non-vacuity -------------------------------------------------------------------- *)

(* BOM, then  a = "é́${b}"\r\n  (é́ = e + two combining marks, one cluster of
   5 bytes), lexed from start position 7:3 byte 100. Every token boundary is a
   cluster boundary, the scan succeeds, and the tokens carry these positions. *)
Example C14_example :
  let src := [239; 187; 191; 97; 32; 61; 32; 34; 101; 204; 129; 204; 163; 36; 123; 98; 125; 34; 13; 10] in
  let gcs := [1; 1; 1; 1; 1; 5; 1; 1; 1; 1; 1; 2] in
  match lex_config src (mkPos 7 3 100) gcs with
  | LexOk toks =>
      map (fun tk => (t_ty tk, p_line (r_start (t_range tk)), p_col (r_start (t_range tk)),
                      p_byte (r_start (t_range tk)), p_byte (r_end (t_range tk)))) toks
      = [(TokenIdent, 7, 3, 103, 104); (TokenEqual, 7, 5, 105, 106); (TokenOQuote, 7, 7, 107, 108);
         (TokenQuotedLit, 7, 8, 108, 113); (TokenTemplateInterp, 7, 9, 113, 115);
         (TokenIdent, 7, 11, 115, 116); (TokenTemplateSeqEnd, 7, 12, 116, 117);
         (TokenCQuote, 7, 13, 117, 118); (TokenNewline, 7, 14, 118, 120); (TokenEOF, 8, 1, 120, 120)]
      /\ forallb (fun tk =>
            match pos_at is_nl_lexer (mkPos 7 3 103) (strip_bom src) gcs (p_byte (r_end (t_range tk))) with
            | Some p => (p_line p =? p_line (r_end (t_range tk))) && (p_col p =? p_col (r_end (t_range tk)))
            | None => false
            end) toks = true
  | _ => False
  end.
Proof. vm_compute. split; reflexivity. Qed.

(* points_walk accepts the node positions of  a = "é́${b}"  (attribute 1:1@0,
   `=` 1:3@2, template 1:5@4 .. 1:12@15, the literal 1:6@5 .. 1:7@10 — one
   5-byte cluster —, the variable 1:9@12 .. 1:10@13) and rejects a column that
   counts the literal's bytes instead of its clusters. *)
Example C14_points_example :
  let data := [97; 32; 61; 32; 34; 101; 204; 129; 204; 163; 36; 123; 98; 125; 34] in
  let gcs := [1; 1; 1; 1; 1; 5; 1; 1; 1; 1; 1] in
  points_walk (mkWalk initial_pos data gcs)
    [mkPos 1 1 0; mkPos 1 2 1; mkPos 1 3 2; mkPos 1 5 4; mkPos 1 6 5; mkPos 1 7 10; mkPos 1 9 12; mkPos 1 10 13; mkPos 1 12 15] = true /\
  points_walk (mkWalk initial_pos data gcs) [mkPos 1 6 5; mkPos 1 11 10] = false.
Proof. vm_compute. split; reflexivity. Qed.
