(* Props/C18.v — Dynamic blocks expand to exactly the blocks they describe.
   Only the property theorems, each closed by [exact], with Print Assumptions.
   Model: Dyn/Expand.v (ext/dynblock/*.go); reference: Dyn/Unroll.v (README.md);
   proofs: Dyn/CtxEquivProofs.v, Dyn/ExpandProofs.v, Dyn/ExpandFactsProofs.v.

   Vocabulary.  [Expand b c] is the body dynblock.Expand returns for the body b and the
   context c.  [unroll b c] is the static body obtained by writing out one block per
   element of every for_each (iterator bound in the environment of the written-out
   expressions).  [observe_x S rho x] / [observe_u S rho u] is everything a decoder can
   read from the expanded / static body under the schemata S of a specification and the
   decoding context rho: per level the error-ness of Content, the attributes with the
   value and diagnostics of their expressions in rho, the blocks (type, labels, body
   observation) in order, the body's value marks and unknown-ness.  [clean (unroll b c)]:
   the unrolling exists — every for_each evaluates without errors to a known, non-null,
   unmarked collection and every label to a known unmarked string, at every depth.
   [conforms S b]: dynamic blocks are used only for block types the schema of their level
   asks for, with as many labels; block types of a schema are distinct and none is called
   "dynamic"; bodies read with JustAttributes contain no dynamic block. *)
From HclV Require Import Dec.Spec Dec.Decode.
From HclV Require Import Base.Prelude Cty.Values Cty.Convert Cty.Ops Eval.Impl.
From HclV Require Import Eval.Vars Eval.VarsProofs.
From HclV Require Import Dyn.Expand Dyn.Unroll Dyn.CtxEquivProofs Dyn.ExpandProofs Dyn.ExpandFactsProofs
  Dyn.DecodeBridge Dyn.ExpandVarsProofs.
Open Scope Z_scope.

(* ---- the README's equation --------------------------------------------------------------------- *)
(* For EVERY schemata, body (any nesting depth, static and dynamic blocks interleaved,
   custom iterators, labels and for_each computed from outer iterators), context given
   to Expand and decoding context. *)
Theorem C18_expand_equals_unroll :
  forall (S : sch) (b : dbody) (c rho : ctx),
    clean (unroll b c) = true ->
    conforms S b = true ->
    observe_x S rho (Expand b c) = observe_u S rho (unroll b c).
Proof. exact expand_equals_unroll. Qed.
Print Assumptions C18_expand_equals_unroll.

(* ... hence for decoding, given that hcldec reads a body only through the content it
   exposes under the specification's schemata (premise [Hdec], the fact owned by C08). *)
Theorem C18_expand_decode_equals_unroll_decode :
  forall (spec : Type) (schema_of : spec -> sch) (result : Type)
         (decode : spec -> hbody -> ctx -> result)
         (Hdec : forall s b1 b2 rho,
                   content_of (schema_of s) rho b1 = content_of (schema_of s) rho b2 ->
                   decode s b1 rho = decode s b2 rho)
         s b c rho,
    clean (unroll b c) = true ->
    conforms (schema_of s) b = true ->
    decode s (inl (Expand b c)) rho = decode s (inr (unroll b c)) rho.
Proof. exact expand_decode_equals_unroll_decode. Qed.
Print Assumptions C18_expand_decode_equals_unroll_decode.

(* ... and with the premise discharged for the hcldec model (Dec/Spec.v, Dec/Decode.v):
   [sch_of_spec s] are the schemata hcldec applies level by level for the spec s
   (ImpliedSchema and the nested specs' schemata; JustAttributes under BlockAttrsSpec),
   [decode_hcldec s b rho] is Dec.decode run on the abstract body made of everything
   observed of b under these schemata in the decoding context rho (attributes evaluated,
   blocks with labels, Unknown(), BodyValueMarks()), [decode_hcldec_errs] adds the
   error-ness of the body's own Content calls.  Value, decoder diagnostics and error-ness
   agree for every specification. *)
Theorem C18_expand_decode_equals_unroll_decode_hcldec :
  forall (s : spec) (b : dbody) (c rho : ctx),
    clean (unroll b c) = true ->
    conforms (sch_of_spec s) b = true ->
    decode_hcldec s (inl (Expand b c)) rho = decode_hcldec s (inr (unroll b c)) rho
    /\ decode_hcldec_errs s (inl (Expand b c)) rho = decode_hcldec_errs s (inr (unroll b c)) rho.
Proof. exact expand_decode_equals_unroll_decode_hcldec. Qed.
Print Assumptions C18_expand_decode_equals_unroll_decode_hcldec.

(* the instance of the premise: this decoder reads a body only through its content *)
Theorem C18_decode_hcldec_respects_content :
  forall s b1 b2 rho,
    content_of (sch_of_spec s) rho b1 = content_of (sch_of_spec s) rho b2 ->
    decode_hcldec_all s b1 rho = decode_hcldec_all s b2 rho.
Proof. exact decode_hcldec_respects_content. Qed.
Print Assumptions C18_decode_hcldec_respects_content.

(* the schemata are those of the hcldec model: attributes exactly, block headers as sets *)
Theorem C18_sch_of_spec_is_implied_schema :
  forall s,
    sch_of_spec s = Sch (sch_attrs (implied_schema s)) (block_tree s)
    /\ (forall h, In h (map hdrZ (sch_blocks (implied_schema s))) <-> In h (headers (block_tree s))).
Proof. intro s. split; [reflexivity|exact (block_tree_headers s)]. Qed.
Print Assumptions C18_sch_of_spec_is_implied_schema.

(* The lemma everything rests on: expression evaluation depends on the context chain
   only through the variable and function searches. *)
Theorem C18_value_ctx_equiv :
  forall c c' e,
    (forall x, lookup_var c x false = lookup_var c' x false /\ lookup_fn c x false = lookup_fn c' x false) ->
    value c e = value c' e.
Proof. exact value_ctx_equiv. Qed.
Print Assumptions C18_value_ctx_equiv.

(* ---- unknown for_each ----------------------------------------------------------------------------- *)
Theorem C18_unknown_for_each_single_unknown_block :
  forall s pre post fctx i m0 t fe it les content n v ds ls,
    afind_last t (s_blocks s) = Some n ->
    (lenZ les =? n) = true ->
    value fctx fe = (v, ds) ->
    has_errors ds = false -> has_unsupported ds = false ->
    is_known v = false ->
    (can_iterate (fst (unmark v)) = true \/ ty_eqb (type_of (fst (unmark v))) TDyn = true) ->
    let iname := match it with Some x => x | None => t end in
    let child_it := make_child i iname dyn_val dyn_val in
    eval_labels (iter_ctx (Some child_it) fctx) les = LOk ls ->
    let eb := fresh (pre ++ DDynamic t fe it les content :: post) fctx i m0 in
    let m := snd (unmark v) in
    let ub := XU (XE (expand_child eb content (Some child_it) m)) m in
    xc_blocks (eb_content s eb) =
      flat_map (item_blocks eb s) pre ++ [mkXB t ls ub] ++ flat_map (item_blocks eb s) post
    /\ item_err eb s (DDynamic t fe it les content) = false
    /\ xb_unknown ub = true
    /\ (forall s' rho a, In a (xc_attrs (xb_content s' ub)) -> xvalue rho (snd a) = (with_marks dyn_val m, []))
    /\ (forall s' blk, In blk (xc_blocks (xb_content s' ub)) -> xb_unknown (xb_body blk) = true).
Proof. exact unknown_for_each_single_unknown_block. Qed.
Print Assumptions C18_unknown_for_each_single_unknown_block.

(* ---- empty for_each, iteration order ------------------------------------------------------------------ *)
Theorem C18_empty_for_each_no_blocks :
  forall s b fctx i m0 t fe it les content n v ds,
    afind_last t (s_blocks s) = Some n ->
    (lenZ les =? n) = true ->
    value fctx fe = (v, ds) ->
    has_errors ds = false -> has_unsupported ds = false ->
    is_known v = true -> is_null v = false -> can_iterate (fst (unmark v)) = true ->
    is_marked (fst (unmark v)) = false ->
    elements (fst (unmark v)) = [] ->
    let eb := fresh b fctx i m0 in
    item_blocks eb s (DDynamic t fe it les content) = []
    /\ item_err eb s (DDynamic t fe it les content) = false.
Proof. exact empty_for_each_no_blocks. Qed.
Print Assumptions C18_empty_for_each_no_blocks.

Theorem C18_iteration_order :
  forall s b fctx i m0 t fe it les content n v ds,
    afind_last t (s_blocks s) = Some n ->
    (lenZ les =? n) = true ->
    value fctx fe = (v, ds) ->
    has_errors ds = false -> has_unsupported ds = false ->
    is_known v = true -> is_null v = false -> can_iterate (fst (unmark v)) = true ->
    is_marked (fst (unmark v)) = false ->
    let eb := fresh b fctx i m0 in
    let iname := match it with Some x => x | None => t end in
    let m := snd (unmark v) in
    let child kv := make_child i iname (fst kv) (snd kv) in
    forall lbls : val * val -> list (list Z),
    (forall kv, In kv (elements (fst (unmark v))) ->
        eval_labels (iter_ctx (Some (child kv)) fctx) les = LOk (lbls kv)) ->
    item_blocks eb s (DDynamic t fe it les content) =
      map (fun kv => mkXB t (lbls kv) (XE (expand_child eb content (Some (child kv)) m)))
          (elements (fst (unmark v)))
    /\ item_err eb s (DDynamic t fe it les content) = false.
Proof. exact iteration_order. Qed.
Print Assumptions C18_iteration_order.

(* The hypothesis above is the SHALLOW [is_known] (Go: forEachVal.IsKnown(), not
   IsWhollyKnown()): a collection whose length and keys are known but which contains unknown
   values is expanded like any other.  Instance: for_each = ["a", <unknown string>]
   (wholly_known = false) gives two ordinary blocks (Unknown() = false), the attribute
   x = b.value of the second one evaluating to the unknown string. *)
Example C18_example_partially_unknown_for_each_expands :
  wholly_known pu_val = false /\ is_known pu_val = true /\ is_null pu_val = false
  /\ can_iterate (fst (unmark pu_val)) = true /\ is_marked (fst (unmark pu_val)) = false
  /\ value [] (ELit pu_val) = (pu_val, [])
  /\ item_err (fresh [pu_item] [] None []) pu_schema pu_item = false
  /\ map (fun blk => (xb_unknown (xb_body blk),
                      map (fun a => fst (xvalue [] (snd a)))
                          (xc_attrs (xb_content (mkSchema [(str_x, false)] []) (xb_body blk)))))
         (item_blocks (fresh [pu_item] [] None []) pu_schema pu_item)
     = [(false, [VStr str_a]); (false, [VUnk TStr rf_none])].
Proof. exact partially_unknown_for_each_expands. Qed.

(* the order of [elements]: index order, (sorted) key order, set order as given *)
Theorem C18_elements_order :
  (forall t l, map fst (elements (VList t l)) = map (fun k => VNum (nz (Z.of_nat k))) (seq 0 (length l))
               /\ map snd (elements (VList t l)) = l)
  /\ (forall l, map fst (elements (VTuple l)) = map (fun k => VNum (nz (Z.of_nat k))) (seq 0 (length l))
                /\ map snd (elements (VTuple l)) = l)
  /\ (forall t l, map fst (elements (VMap t l)) = map (fun p => VStr (fst p)) l
                  /\ map snd (elements (VMap t l)) = map snd l)
  /\ (forall l, map fst (elements (VObj l)) = map (fun p => VStr (fst p)) l
                /\ map snd (elements (VObj l)) = map snd l)
  /\ (forall t l, map fst (elements (VSet t l)) = l /\ map snd (elements (VSet t l)) = l).
Proof.
  exact (conj elements_list_order (conj elements_tuple_order (conj elements_map_order
          (conj elements_obj_order elements_set_order)))).
Qed.
Print Assumptions C18_elements_order.

(* ---- iterator scoping ------------------------------------------------------------------------------------ *)
Theorem C18_iterator_scoping :
  (forall st rho n k v m,
     xvalue rho (XWrap (EScopeTrav n []) (iter_of (mkIB n k v :: st)) m) = (with_marks (iter_object k v) m, [])
     /\ xvalue rho (XWrap (EScopeTrav n [SAttr s_key]) (iter_of (mkIB n k v :: st)) m) = (with_marks k m, [])
     /\ xvalue rho (XWrap (EScopeTrav n [SAttr s_value]) (iter_of (mkIB n k v :: st)) m) = (with_marks v m, []))
  /\ (forall st rho n k v x o m,
        str_eqb x n = false -> stack_find x st = Some o ->
        xvalue rho (XWrap (EScopeTrav x []) (iter_of (mkIB n k v :: st)) m) = (with_marks o m, []))
  /\ (forall st rho x,
        stack_find x st = None ->
        fst (lookup_var (iter_ctx (iter_of st) rho) x false) = fst (lookup_var rho x false)).
Proof. exact iterator_scoping. Qed.
Print Assumptions C18_iterator_scoping.

Theorem C18_content_attrs_wrapped :
  forall s b fctx it m a,
    In a (xc_attrs (eb_content s (fresh b fctx (Some it) m))) ->
    exists e, snd a = XWrap e (Some it) m.
Proof. exact content_attrs_wrapped. Qed.
Print Assumptions C18_content_attrs_wrapped.

(* ---- marks; findings ------------------------------------------------------------------------------------------ *)
Theorem C18_generated_block_marks :
  forall s b fctx it m a rho,
    In a (xc_attrs (eb_content s (fresh b fctx (Some it) m))) ->
    exists v, fst (xvalue rho (snd a)) = with_marks v m.
Proof. exact generated_block_marks. Qed.
Print Assumptions C18_generated_block_marks.

(* everything Content exposes of an expandBody carries the body's value marks *)
Theorem C18_content_attrs_marked :
  forall s eb a rho,
    In a (xc_attrs (eb_content s eb)) -> exists v, fst (xvalue rho (snd a)) = with_marks v (eb_marks eb).
Proof. exact content_attrs_marked. Qed.
Print Assumptions C18_content_attrs_marked.

(* DESIGN §9 #18 (repaired in /repo): static blocks nested in generated content inherit the marks *)
Theorem C18_static_child_inherits_marks :
  forall eb s t ls body blk,
    In blk (item_blocks eb s (DBlock t ls body)) ->
    xb_marks (xb_body blk) = eb_marks eb
    /\ (forall s' a rho, In a (xc_attrs (xb_content s' (xb_body blk))) ->
          exists v, fst (xvalue rho (snd a)) = with_marks v (eb_marks eb)).
Proof. exact static_child_inherits_marks. Qed.
Print Assumptions C18_static_child_inherits_marks.

(* DESIGN §9 #9 (open, inherent): a marked EMPTY for_each leaves no trace *)
Theorem C18_marked_empty_for_each_leaves_trace_refuted :
  exists b S rho c c',
    c = [mkFrame (Some [(str_l, VMark m1 (VList TStr []))]) None]
    /\ c' = [mkFrame (Some [(str_l, VList TStr [])]) None]
    /\ b = [DDynamic str_b (EScopeTrav str_l []) None [] [DAttr str_a (ELit (VStr str_x))]]
    /\ observe_x S rho (Expand b c) = observe_x S rho (Expand b c').
Proof. exact marked_empty_for_each_leaves_trace_refuted. Qed.
Print Assumptions C18_marked_empty_for_each_leaves_trace_refuted.

(* DESIGN §9 #10 (repaired in /repo): the remaining body of PartialContent keeps the marks *)
Theorem C18_partial_remain_keeps_marks :
  (forall s eb, eb_marks (snd (eb_partial_content s eb)) = eb_marks eb)
  /\ (forall s x, xb_marks (snd (xb_partial_content s x)) = xb_marks x)
  /\ (forall s s2 eb a rho, In a (xc_attrs (eb_content s2 (snd (eb_partial_content s eb)))) ->
         exists v, fst (xvalue rho (snd a)) = with_marks v (eb_marks eb)).
Proof. exact partial_remain_keeps_marks. Qed.
Print Assumptions C18_partial_remain_keeps_marks.

(* decoding in several steps: a block returned by Content or PartialContent of ANY expandBody —
   the remaining body of an earlier PartialContent included — has a body with NOTHING hidden
   (expandChild passes on forEachCtx, iteration and marks, never hiddenAttrs / hiddenBlocks):
   a name consumed at an outer level does not hide a nested attribute or block of that name,
   in static children and in generated blocks alike *)
Theorem C18_blocks_of_remaining_body_have_nothing_hidden :
  (forall s b child i m,
     expand_child (snd (eb_partial_content s b)) child i m = expand_child b child i m)
  /\ (forall s eb blk,
        In blk (xc_blocks (eb_content s eb)) \/ In blk (xc_blocks (fst (eb_partial_content s eb))) ->
        match xb_body blk with
        | XE e => eb_hattrs e = [] /\ eb_hblocks e = []
        | XU (XE e) _ => eb_hattrs e = [] /\ eb_hblocks e = []
        | XU (XU _ _) _ => False
        end).
Proof. exact (conj expand_child_of_remaining_body returned_blocks_have_nothing_hidden). Qed.
Print Assumptions C18_blocks_of_remaining_body_have_nothing_hidden.

(* `name = "x"  b { name = "x" }  dynamic "b" { for_each = ["a"]  content { name = b.value } }`:
   PartialContent takes the outer `name`; the remaining body no longer has it, its blocks —
   the static and the generated one — still expose theirs *)
Example C18_example_nested_name_survives_outer_partial_content :
  let s_name := mkSchema [(ms_name, false)] [] in
  let '(c1, r) := xb_partial_content s_name (Expand ms_body []) in
  map fst (xc_attrs c1) = [ms_name]
  /\ map fst (xc_attrs (xb_content s_name r)) = []
  /\ map (fun blk => map (fun a => (fst a, fst (xvalue [] (snd a)))) (xc_attrs (xb_content s_name (xb_body blk))))
         (xc_blocks (xb_content (mkSchema [] [(str_b, 0)]) r))
     = [[(ms_name, VStr str_x)]; [(ms_name, VStr str_a)]].
Proof. exact nested_name_survives_outer_partial_content. Qed.

(* the side condition [conforms] is needed *)
Theorem C18_expand_equals_unroll_without_conforms_refuted :
  exists b c S rho,
    clean (unroll b c) = true /\ observe_x S rho (Expand b c) <> observe_u S rho (unroll b c).
Proof. exact expand_equals_unroll_without_conforms_refuted. Qed.
Print Assumptions C18_expand_equals_unroll_without_conforms_refuted.

(* ---- non-vacuity: the README example, two levels, labels from the iterator ------------------------------------------ *)
Definition ex_l : list Z := [108].        (* "l" *)
Definition ex_a : list Z := [97].         (* block type "a", also the default iterator *)
Definition ex_b : list Z := [98].
Definition ex_p : list Z := [112].
Definition ex_ctx : ctx :=
  [mkFrame (Some [(ex_l, VMap (TList TStr) [([107;49], VList TStr [VStr [120]; VStr [121]]);
                                             ([107;50], VList TStr [])])]) None].
(* a { p = "s" }
   dynamic "a" { for_each = l  content { p = a.key
       dynamic "b" { for_each = a.value  labels = ["${a.key}-${b.key}"]  content { p = b.value } } } } *)
Definition ex_body : dbody :=
  [DBlock ex_a [] [DAttr ex_p (ELit (VStr [115]))];
   DDynamic ex_a (EScopeTrav ex_l []) None []
     [DAttr ex_p (EScopeTrav ex_a [SAttr s_key]);
      DDynamic ex_b (EScopeTrav ex_a [SAttr s_value]) None
        [ETmpl [EScopeTrav ex_a [SAttr s_key]; ELit (VStr [45]); EScopeTrav ex_b [SAttr s_key]]]
        [DAttr ex_p (EScopeTrav ex_b [SAttr s_value])]]].
Definition ex_sch : sch := Sch [] [(ex_a, 0, Sch [(ex_p, true)] [(ex_b, 1, Sch [(ex_p, true)] [])])].

Example C18_example_hypotheses : clean (unroll ex_body ex_ctx) = true /\ conforms ex_sch ex_body = true.
Proof. split; vm_compute; reflexivity. Qed.

Example C18_example_observation :
  observe_x ex_sch [] (Expand ex_body ex_ctx) =
  ONode false []
    [(ex_a, [], ONode false [(ex_p, (VStr [115], []))] [] [] false false);
     (ex_a, [], ONode false [(ex_p, (VStr [107;49], []))]
                  [(ex_b, [[107;49;45;48]], ONode false [(ex_p, (VStr [120], []))] [] [] false false);
                   (ex_b, [[107;49;45;49]], ONode false [(ex_p, (VStr [121], []))] [] [] false false)]
                  [] false false);
     (ex_a, [], ONode false [(ex_p, (VStr [107;50], []))] [] [] false false)]
    [] false false.
Proof. vm_compute. reflexivity. Qed.

(* the same body decoded by the hcldec model: ObjectSpec{ a = BlockListSpec "a" {
   b = BlockMapSpec "b" ["key"] { p = AttrSpec p string required }, p = AttrSpec p string required } } *)
Definition ex_leaf : spec := SObject [(ex_p, Spec.SAttr ex_p TStr true)].
Definition ex_spec : spec :=
  SObject [(ex_a, SBlockList ex_a (SObject [(ex_b, SBlockMap ex_b [[107;101;121]] ex_leaf);
                                              (ex_p, Spec.SAttr ex_p TStr true)]) 0 0)].

Example C18_example_hcldec_hypotheses :
  sch_of_spec ex_spec = ex_sch /\ conforms (sch_of_spec ex_spec) ex_body = true.
Proof. split; vm_compute; reflexivity. Qed.

Example C18_example_hcldec_decode :
  decode_hcldec ex_spec (inl (Expand ex_body ex_ctx)) [] =
    (VObj [(ex_a, VList (TObj [(ex_b, TMap (TObj [(ex_p, TStr)])); (ex_p, TStr)])
              [VObj [(ex_b, VMap (TObj [(ex_p, TStr)]) []); (ex_p, VStr [115])];
               VObj [(ex_b, VMap (TObj [(ex_p, TStr)])
                              [([107;49;45;48], VObj [(ex_p, VStr [120])]);
                               ([107;49;45;49], VObj [(ex_p, VStr [121])])]);
                     (ex_p, VStr [107;49])];
               VObj [(ex_b, VMap (TObj [(ex_p, TStr)]) []); (ex_p, VStr [107;50])]])], [])
  /\ decode_hcldec ex_spec (inr (unroll ex_body ex_ctx)) [] = decode_hcldec ex_spec (inl (Expand ex_body ex_ctx)) []
  /\ decode_hcldec_errs ex_spec (inl (Expand ex_body ex_ctx)) [] = false.
Proof. repeat split; vm_compute; reflexivity. Qed.

(* an error of a nested body's own Content call (an argument the schema does not name)
   is an error of the decode, for the expanded and for the written-out body alike *)
Example C18_example_hcldec_nested_error :
  let b := [DBlock ex_a [] [DAttr ex_p (ELit (VStr [115])); DAttr [122] (ELit (VStr [115]))]] in
  decode_hcldec_errs ex_spec (inl (Expand b ex_ctx)) [] = true
  /\ decode_hcldec_errs ex_spec (inr (unroll b ex_ctx)) [] = true.
Proof. split; vm_compute; reflexivity. Qed.

(* ---- the variables reported for expansion are sufficient to perform it ----------------------------------- *)
(* [walk_vars false S None b]: the root names dynblock.ExpandVariablesHCLDec reports for the
   body b under the schemata S; [walk_vars true …]: those of VariablesHCLDec (model of
   WalkVariablesNode.Visit + walkVariablesWithHCLDec in Dyn/Expand.v, compared with the
   code on every generated case).  [same_funcs c c']: every function name resolves alike;
   [agree_names l c c']: every name of l resolves alike (value found, or not found with the
   "Unknown variable" / "Variables not allowed" flag); [body_keys_ok b]: the parser's
   guarantee about object-constructor keys, for every expression of the body (the side
   condition of C07_coincidence). *)
Theorem C18_expand_vars_sufficient :
  forall S b c1 c2 rho,
    body_keys_ok b = true ->
    same_funcs c1 c2 ->
    agree_names (walk_vars false S None b) c1 c2 ->
    observe_x S rho (Expand b c1) = observe_x S rho (Expand b c2).
Proof. exact expand_vars_sufficient. Qed.
Print Assumptions C18_expand_vars_sufficient.

(* a context pruned to the reported roots expands to the same content, and decodes (hcldec
   model) to the same value, diagnostics and error-ness *)
Theorem C18_expand_pruned_context :
  forall S b c rho,
    body_keys_ok b = true ->
    observe_x S rho (Expand b (prune (walk_vars false S None b) c)) = observe_x S rho (Expand b c).
Proof. exact expand_pruned_context. Qed.
Print Assumptions C18_expand_pruned_context.

Theorem C18_expand_decode_pruned_context :
  forall (s : spec) b c rho,
    body_keys_ok b = true ->
    decode_hcldec_all s (inl (Expand b (prune (walk_vars false (sch_of_spec s) None b) c))) rho
    = decode_hcldec_all s (inl (Expand b c)) rho.
Proof. exact expand_decode_pruned_context. Qed.
Print Assumptions C18_expand_decode_pruned_context.

(* all reported variables (expansion and content): sufficient for schemata without bodies
   read by JustAttributes ... *)
Theorem C18_all_vars_sufficient_partial :
  forall S b c1 c2 rho1 rho2,
    no_just S = true ->
    body_keys_ok b = true ->
    same_funcs c1 c2 -> same_funcs rho1 rho2 ->
    agree_names (walk_vars false S None b) c1 c2 ->
    agree_names (walk_vars true S None b) rho1 rho2 ->
    observe_x S rho1 (Expand b c1) = observe_x S rho2 (Expand b c2).
Proof. exact all_vars_sufficient_partial. Qed.
Print Assumptions C18_all_vars_sufficient_partial.

(* ... and NOT in general: known finding reported-variables-omit-blockattrs-body *)
Theorem C18_all_vars_sufficient_refuted :
  exists S b c rho1 rho2,
    S = Sch [] [(vx_a, 0, SJust)]
    /\ b = [DBlock vx_a [] [DAttr vx_u (EScopeTrav vx_foo [])]]
    /\ body_keys_ok b = true
    /\ walk_vars true S None b = []
    /\ same_funcs rho1 rho2
    /\ observe_x S rho1 (Expand b c) <> observe_x S rho2 (Expand b c).
Proof. exact all_vars_sufficient_refuted. Qed.
Print Assumptions C18_all_vars_sufficient_refuted.

(* the scoping fact the two seeded walker bugs violated: the own iterator is not bound in
   for_each, so a root of that name is reported, and needed *)
Theorem C18_own_iterator_in_for_each_is_needed :
  exists S b c1 c2 rho,
    S = Sch [] [(vx_a, 0, Sch [] [])]
    /\ b = [DDynamic vx_a (EScopeTrav vx_a []) None [] []]
    /\ walk_vars false S None b = [vx_a]
    /\ same_funcs c1 c2
    /\ (forall x, x <> vx_a -> lookup_var c1 x false = lookup_var c2 x false)
    /\ observe_x S rho (Expand b c1) <> observe_x S rho (Expand b c2).
Proof. exact own_iterator_in_for_each_is_needed. Qed.
Print Assumptions C18_own_iterator_in_for_each_is_needed.
