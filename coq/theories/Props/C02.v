(* Props/C02.v — Native-syntax structure parses to exactly the written attributes and blocks.
   Only the property theorems, each closed by [exact], with Print Assumptions.
   Model: Parse/Peeker.v, Parse/BodyParser.v, Parse/ExprParser.v (ParseBody, ParseBodyItem,
   finishParsingBodyAttribute, finishParsingBodyBlock, parseSingleAttrBody,
   parseQuotedStringLiteral, the peeker's comment -> newline conversion, ParseConfig).
   Proofs: Parse/BodyRoundtripProofs.v (on top of Parse/BinopsProofs.v).
   The model works on the implementation's own TOKEN stream and is tied to hclsyntax.ParseConfig
   by harness/cmd/cparse (cparse-body: correspondence on generated/mutated files, and the direct
   oracle on abstract trees rendered as BYTES in random layouts) + Parse/ParseCheck.v.

   QUANTIFIED OVER
   * every abstract body tree `list aitem`: attributes (any name bytes) whose expressions are
     operator trees of Parse/BinopsProofs.v (variables, unary, binary operators of the generated
     table — the stated expression fragment, token printer `pr 0`), blocks with any number of
     labels, bare or quoted, any nesting depth, one-line blocks holding one attribute, empty
     blocks (`{}` on one line or over several lines);
   * every token sequence `ts` related to the tree by `r_file`, i.e. EVERY choice of
       - inline comments (Comment tokens not ending a line, /* */) in any number before every
         structural token (names, `=`, labels, `{`, `}`), before the expression of an attribute
         and before the line end;
       - the line terminator at each line end independently: a Newline token (whatever its
         bytes: LF and CR LF both lex to TokenNewline, so both line-ending styles are IN the
         relation) or a single-line comment `#`/`//` (which the peeker turns into a newline);
       - blank lines and comment-only lines in any number before, between and after the items
         of every body, and inline comments before the final EOF;
       - the way the text of a quoted label is split into QuotedLit tokens (the scanner splits
         at `$`/`%`); the label's value is the concatenation of the decoded tokens, the
         decoding of one token (escape processing) being the ORACLE carried by the token
         (ParseStringLiteralToken; its codec is the subject of C11's string-literal proofs).

   NOT IN THE RELATION (covered by the correspondence runs and the byte-level oracle of
   cparse-body only):
   * a file whose last item is not followed by a line terminator (missing final newline);
   * indentation and the BOM: they never reach the token stream (the scanner drops blanks and
     strips the BOM — C14); invalid bytes, tabs-as-tokens etc. are C15's;
   * comments or newlines INSIDE an attribute expression, and any expression outside the
     operator-tree fragment (literals, templates, heredocs, collections, calls, ...);
   * label escape processing itself (oracle, see above). *)
From HclV Require Import Base.Prelude Gen.TokenTypes Gen.BinaryOps Cty.Values Cty.Ops Eval.Impl
  Parse.Peeker Parse.ExprParser Parse.BodyParser Parse.BinopsProofs Parse.BodyRoundtripProofs.

(* body_roundtrip: every rendering of a tree whose bodies define each attribute once parses,
   WITHOUT ANY DIAGNOSTIC, to exactly that tree: items in source order, attribute names and
   expression ASTs, block types, label sequences, nested bodies. *)
Theorem C02_body_roundtrip :
  forall items ts, r_file items ts -> names_unique items ->
  parse_config ts = EOk (map to_pitem items) [].
Proof. exact body_roundtrip. Qed.
Print Assumptions C02_body_roundtrip.

(* The same, read without the expressions: the parsed body exposes exactly the written
   attribute names, block types, label sequences, nesting and order, whatever the layout. *)
Theorem C02_body_structure_exposed :
  forall items ts, r_file items ts -> names_unique items ->
  exists b, parse_config ts = EOk b [] /\ map pitem_skel b = map aitem_skel items.
Proof. exact body_structure_exposed. Qed.
Print Assumptions C02_body_structure_exposed.

(* Independence of layout, comments and line-ending style: two renderings of one tree give the
   same body and the same diagnostics (also when the tree has redefinitions). *)
Theorem C02_layout_independent :
  forall items ts1 ts2, r_file items ts1 -> r_file items ts2 -> parse_config ts1 = parse_config ts2.
Proof. exact layout_independent. Qed.
Print Assumptions C02_layout_independent.

(* What every rendering of ANY tree parses to: the first definition of an attribute name in a
   body is kept, each later one is dropped and reported once ("Attribute redefined"), blocks
   are kept in order, recursively; nothing else is reported. *)
Theorem C02_parse_file :
  forall items ts, r_file items ts ->
  parse_config ts = EOk (fst (sem_items [] items)) (snd (sem_items [] items)).
Proof. exact parse_file. Qed.
Print Assumptions C02_parse_file.

(* dup_attr_rejected: if some body of the tree, at any depth, defines an attribute twice, every
   rendering is reported with an "Attribute redefined" error. *)
Theorem C02_dup_attr_rejected :
  forall items ts, r_file items ts -> has_dup items ->
  exists body ds, parse_config ts = EOk body ds /\ ds <> [] /\ In D_AttrRedefined ds.
Proof. exact dup_attr_rejected. Qed.
Print Assumptions C02_dup_attr_rejected.

(* ---- non-vacuity ------------------------------------------------------------------------------------
   b "l" /*c*/ x { a = p + q }  # c
   (blank)
   a = r
   t {
   }
   as a tree, with one of its renderings. *)
Definition ex_tree : list aitem :=
  [ABlock [98] [[108]; [120]] [AAttr [97] (OBin 4 TokenPlus OpAdd (OLeaf [112]) (OLeaf [113]))];
   AAttr [97] (OLeaf [114]);
   ABlock [116] [] []].

Definition ex_nl : ptok := tk TokenNewline [10].
Definition ex_crlf : ptok := tk TokenNewline [13; 10].
Definition ex_line_comment : ptok := mkTok TokenComment [35; 32; 99; 10] None 0 0.
Definition ex_inline_comment : ptok := mkTok TokenComment [47; 42; 99; 42; 47] None 0 0.

Definition ex_tokens : list ptok :=
  [ident [98]; oquote; qlit [108] [108]; cquote; ex_inline_comment; ident [120]; obrace;
   ident [97]; equal_tok; ident [112]; tk TokenPlus []; ident [113]; cbrace; ex_line_comment;
   ex_crlf;
   ident [97]; equal_tok; ident [114]; ex_nl;
   ident [116]; obrace; ex_nl; cbrace; ex_nl;
   eof_tok].

Example C02_example_hypotheses : r_file ex_tree ex_tokens /\ names_unique ex_tree.
Proof.
  assert (G0 : gap_ok []) by constructor.
  assert (G1 : gap_ok [ex_inline_comment]) by (repeat constructor).
  assert (Enl : is_eol ex_nl) by (left; reflexivity).
  assert (Ecr : is_eol ex_crlf) by (left; reflexivity).
  assert (Ecm : is_eol ex_line_comment) by (right; split; reflexivity).
  assert (W1 : wf_tree (OBin 4 TokenPlus OpAdd (OLeaf [112]) (OLeaf [113])))
    by (cbn; repeat split; try reflexivity; lia).
  assert (W2 : wf_tree (OLeaf [114])) by (repeat split; reflexivity).
  split.
  - exists (firstn 24 ex_tokens), []. split; [|split; [exact G0 | reflexivity]].
    refine (ri_block [] [98] [[108]; [120]] [oquote; qlit [108] [108]; cquote; ex_inline_comment; ident [120]]
              [] _ [ident [97]; equal_tok; ident [112]; tk TokenPlus []; ident [113]; cbrace] [] ex_line_comment
              _ _ G0 _ G0 _ G0 Ecm _).
    + refine (rls_cons [108] [[120]] [oquote; qlit [108] [108]; cquote] [ex_inline_comment; ident [120]] _ _).
      * exact (rl_quoted [] [([108], [108])] G0).
      * refine (rls_cons [120] [] [ex_inline_comment; ident [120]] [] _ rls_nil).
        exact (rl_bare [ex_inline_comment] [120] G1).
    + exact (rb_one [] [97] [] [] _ [] G0 G0 G0 G0 W1).
    + refine (ri_blank [] ex_crlf _ _ G0 Ecr _).
      refine (ri_attr [] [97] [] [] (OLeaf [114]) [] ex_nl _ _ G0 G0 G0 G0 Enl W2 _).
      refine (ri_block [] [116] [] [] [] [] [ex_nl; cbrace] [] ex_nl _ _ G0 rls_nil G0 _ G0 Enl ri_nil).
      exact (rb_multi [] ex_nl [] [] [] G0 Enl ri_nil G0).
  - cbn. repeat split; repeat constructor; cbn; intuition discriminate.
Qed.

Example C02_example :
  parse_config ex_tokens
  = EOk [PBlock [98] [[108]; [120]]
           [PAttr [97] (EBin OpAdd (EScopeTrav [112] []) (EScopeTrav [113] []))];
         PAttr [97] (EScopeTrav [114] []);
         PBlock [116] [] []] [].
Proof. vm_compute. reflexivity. Qed.

(* the same file with the attribute `a` written twice at top level is rejected *)
Example C02_example_duplicate :
  parse_config
    [ident [97]; equal_tok; ident [114]; ex_nl; ident [97]; equal_tok; ident [115]; ex_line_comment; eof_tok]
  = EOk [PAttr [97] (EScopeTrav [114] [])] [D_AttrRedefined].
Proof. vm_compute. reflexivity. Qed.
