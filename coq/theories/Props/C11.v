(* Props/C11.v — Generated source reads back as the value it was generated from.
   Only the property theorems, each closed by [exact], with Print Assumptions.
   Model: Write/Generate.v (hclwrite/generate.go, blockLabels.Replace),
   Write/StringLit.v (scan_tokens.rl stringTemplate, scan_string_lit.rl,
   ParseStringLiteralToken, blockLabels.Current, the `for` look-ahead of
   parseObjectCons); proofs: Write/StringLitProofs.v, Write/GenerateProofs.v.

   [is_print] (unicode.IsPrint) and [valid_ident] (hclsyntax.ValidIdentifier)
   are universally quantified parameters of every statement, not axioms. *)
From Coq Require Import String.
From HclV Require Import Base.Prelude Base.Utf8 Gen.TokenTypes Write.Generate Write.StringLit
  Write.StringLitProofs Write.GenerateProofs.
Open Scope list_scope.
Open Scope Z_scope.

(* ---- string codec ------------------------------------------------------------- *)
(* For EVERY is_print with is_print '{' = true and every string s of Unicode
   scalar values, followed by the closing quote and any further bytes: the
   escaped text holds no raw newline; the template scanner closes the string
   exactly at that quote having produced literal tokens only (no "${" / "%{"
   introducer, no unescaped quote, no invalid token); un-escaping the tokens
   (ParseStringLiteralToken) and joining them gives back UTF-8(s). *)
Theorem C11_string_codec :
  forall is_print, is_print 123 = true ->
  forall s rest, Forall valid_scalar s ->
    (forall b, In b (escape is_print s) -> b <> 10 /\ b <> 13) /\
    (exists ps, lex_quoted (escape is_print s ++ 34 :: rest) = (ps, LClosed rest) /\
                Forall (fun p => exists bs, p = PLit bs) ps /\
                read_pieces ps = Some (utf8 s)) /\
    read_quoted (escape is_print s ++ 34 :: rest) = ROk (utf8 s) rest.
Proof. exact string_codec. Qed.
Print Assumptions C11_string_codec.

(* The hypothesis on '{' is necessary: were '{' not printable, "${" would be
   written  $${  and read back as "$${". *)
Theorem C11_string_codec_needs_printable_brace :
  forall is_print, is_print 123 = false ->
    read_quoted (escape is_print [36; 123] ++ [34]) = ROk [36; 36; 123] [].
Proof. exact string_codec_needs_printable_brace. Qed.
Print Assumptions C11_string_codec_needs_printable_brace.

(* ParseStringLiteralToken on the WHOLE escaped text as one token (what
   blockLabels.Current does with the tokens Replace built) is the inverse of
   escaping for strings without "$$" / "%%". *)
Theorem C11_unescape_escape_no_double :
  forall is_print, is_print 123 = true ->
  forall s, Forall valid_scalar s -> no_double s ->
    unescape (escape is_print s) = UOk (utf8 s) [].
Proof. exact unescape_escape_no_double. Qed.
Print Assumptions C11_unescape_escape_no_double.

(* ---- token shapes of generated values ----------------------------------------- *)
Theorem C11_value_tokens_balanced :
  forall is_print valid_ident v, balanced (gen_value is_print valid_ident v).
Proof. exact gen_value_balanced. Qed.
Print Assumptions C11_value_tokens_balanced.

Theorem C11_value_leaf_tokens :
  forall is_print valid_ident,
    gen_value is_print valid_ident VNull = [(TokenIdent, b_null)] /\
    (forall b, gen_value is_print valid_ident (VBool b) = [(TokenIdent, if b then b_true else b_false)]) /\
    (forall t, gen_value is_print valid_ident (VNum t) = [(TokenNumberLit, t)]).
Proof. exact gen_value_leaf. Qed.
Print Assumptions C11_value_leaf_tokens.

Theorem C11_string_tokens_shape :
  forall is_print s,
    (gen_string is_print s = [t_oquote; t_cquote] /\ escape is_print s = []) \/
    (gen_string is_print s = [t_oquote; (TokenQuotedLit, escape is_print s); t_cquote] /\ escape is_print s <> []).
Proof. exact gen_string_shape. Qed.
Print Assumptions C11_string_tokens_shape.

(* a generated string, wherever it stands, reads back as its content and the
   reader stops at its closing quote *)
Theorem C11_string_tokens_read_back :
  forall is_print, is_print 123 = true ->
  forall s rest, Forall valid_scalar s ->
    exists body, tok_bytes (gen_string is_print s) ++ rest = 34 :: body /\
                 read_quoted body = ROk (utf8 s) rest.
Proof. exact gen_string_reads_back. Qed.
Print Assumptions C11_string_tokens_read_back.

Theorem C11_key_tokens_shape :
  forall is_print valid_ident k,
    (valid_ident k = true /\ utf8 k <> b_for /\ gen_key is_print valid_ident k = [(TokenIdent, utf8 k)]) \/
    ((valid_ident k = false \/ utf8 k = b_for) /\ gen_key is_print valid_ident k = gen_string is_print k).
Proof. exact gen_key_shape. Qed.
Print Assumptions C11_key_tokens_shape.

(* ---- the `for` look-ahead (DESIGN §9 #5, fixed in /repo) ----------------------- *)
(* For EVERY is_print, valid_ident, every mapping (map or object, any keys, any
   element values) and whatever tokens follow: the generated tokens are never
   taken for a for-expression by parseObjectCons' look-ahead. Nested mappings
   are instances of the same statement at their own position. *)
Theorem C11_mapping_never_reads_as_for :
  forall is_print valid_ident kvs rest,
    reads_as_for_expr (gen_value is_print valid_ident (VMap kvs) ++ rest) = false.
Proof. exact mapping_never_reads_as_for. Qed.
Print Assumptions C11_mapping_never_reads_as_for.

(* the key `for` is written as the quoted string "for", whatever ValidIdentifier says *)
Theorem C11_key_for_is_quoted :
  forall is_print valid_ident,
    gen_key is_print valid_ident [102; 111; 114] = gen_string is_print [102; 111; 114].
Proof. exact key_for_is_quoted. Qed.
Print Assumptions C11_key_for_is_quoted.

(* ---- traversals ---------------------------------------------------------------- *)
Theorem C11_traversal_shape :
  forall is_print valid_ident t,
    (Forall (fun st => st <> TSplat) t ->
       gen_traversal is_print valid_ident t = Some (flat_map (step_tokens is_print valid_ident) t)) /\
    (In TSplat t -> gen_traversal is_print valid_ident t = None).
Proof. exact traversal_shape. Qed.
Print Assumptions C11_traversal_shape.

Theorem C11_traversal_index_shape :
  forall is_print valid_ident,
    (forall s, step_tokens is_print valid_ident (TIndex (VStr s)) = t_obrack :: gen_string is_print s ++ [t_cbrack]) /\
    (forall n, step_tokens is_print valid_ident (TIndex (VNum n)) = [t_obrack; (TokenNumberLit, n); t_cbrack]).
Proof. exact traversal_index_shape. Qed.
Print Assumptions C11_traversal_index_shape.

Theorem C11_traversal_balanced :
  forall is_print valid_ident t ts,
    gen_traversal is_print valid_ident t = Some ts -> balanced ts.
Proof. exact traversal_balanced. Qed.
Print Assumptions C11_traversal_balanced.

(* ---- block labels ---------------------------------------------------------------- *)
(* hclsyntax reads every written label back *)
Theorem C11_label_roundtrip_syntax :
  forall is_print, is_print 123 = true ->
  forall l, Forall valid_scalar l ->
    tok_bytes (gen_string is_print l) = 34 :: escape is_print l ++ [34] /\
    read_quoted (escape is_print l ++ [34]) = ROk (utf8 l) [].
Proof. exact label_roundtrip_syntax. Qed.
Print Assumptions C11_label_roundtrip_syntax.

(* hclwrite: blockLabels.Replace (generate, re-scan) then blockLabels.Current
   (join the literal tokens). For EVERY is_print with is_print '{' = true and all
   labels of Unicode scalar values: the re-scan succeeds for every label,
   Labels() of the block as built returns the labels supplied, and writing the
   file out and loading it again (Bytes() + hclwrite.ParseConfig) yields the
   same label tokens, hence the same Labels(). *)
Theorem C11_label_roundtrip :
  forall is_print, is_print 123 = true ->
  forall ls, Forall (Forall valid_scalar) ls ->
    exists nodes, replace_labels is_print ls = map Some nodes /\
                  current_labels (map LQuoted nodes) = map utf8 ls /\
                  map relex_quoted nodes = map Some nodes.
Proof. exact labels_roundtrip. Qed.
Print Assumptions C11_label_roundtrip.

(* per label, with the bytes that Bytes() writes for it *)
Theorem C11_label_replace_roundtrip :
  forall is_print, is_print 123 = true ->
  forall l, Forall valid_scalar l ->
    exists ts, replace_label is_print l = Some ts /\
               tok_bytes ts = 34 :: escape is_print l ++ [34] /\
               current_label (LQuoted ts) = [utf8 l].
Proof. exact label_replace_roundtrip. Qed.
Print Assumptions C11_label_replace_roundtrip.

(* the scanner tokens of a closed quoted string tile its bytes *)
Theorem C11_quoted_tokens_tile :
  forall bs ps rest, lex_quoted bs = (ps, LClosed rest) ->
    bs = flat_map piece_bytes ps ++ 34 :: rest.
Proof. exact (fun bs => lexq_tiles bs MG). Qed.
Print Assumptions C11_quoted_tokens_tile.

(* a label without '$' and '%' is lexed as at most one literal token *)
Theorem C11_label_relex_plain :
  forall is_print l,
  Forall valid_scalar l -> Forall plain l -> (lit_count is_print l <= 1)%nat.
Proof. exact label_relex_plain. Qed.
Print Assumptions C11_label_relex_plain.

(* HISTORICAL (DESIGN §9 #3 and the "$${" finding, both fixed in /repo): why
   Current must join the literal tokens and Replace must re-scan *)
Theorem C11_label_single_token_reader_refuted :
  forall is_print, is_print 97 = true -> is_print 98 = true ->
    exists l ts, Forall valid_scalar l /\ replace_label is_print l = Some ts /\
                 current_label_single_token ts = [] /\ lit_count is_print l = 3%nat /\
                 current_label (LQuoted ts) = [utf8 l].
Proof. exact label_single_token_reader_refuted. Qed.
Print Assumptions C11_label_single_token_reader_refuted.

Theorem C11_label_whole_token_unescape_refuted :
  forall is_print, is_print 123 = true ->
    exists l, Forall valid_scalar l /\ utf8 l = [36; 36; 123] /\
              unescape (escape is_print l) = UOk [36; 36; 36; 123] [] /\
              exists ts, replace_label is_print l = Some ts /\ current_label (LQuoted ts) = [utf8 l].
Proof. exact label_whole_token_unescape_refuted. Qed.
Print Assumptions C11_label_whole_token_unescape_refuted.

(* Non-vacuity: a concrete is_print (printable ASCII and U+1F600) and the string
   a, dollar, open brace, double quote, newline, U+0001, U+1F600, U+E0001, percent *)
Definition ex_print (r : Z) : bool := ((32 <=? r) && (r <? 127)) || (r =? 128512).
Example C11_example :
  escape ex_print [97; 36; 123; 34; 10; 1; 128512; 917505; 37]
    = unhex "6124247b5c225c6e5c7530303031f09f98805c55303030653030303125"%string
  /\ read_quoted (escape ex_print [97; 36; 123; 34; 10; 1; 128512; 917505; 37] ++ [34; 32])
    = ROk (utf8 [97; 36; 123; 34; 10; 1; 128512; 917505; 37]) [32].
Proof. vm_compute. split; reflexivity. Qed.
