(* Props/C01.v — Expression evaluation conforms to the language specification.

   Specification side: Eval/Spec.v ([spec_eval], written from hclsyntax/spec.md and spec.md).
   Implementation side: Eval/Impl.v ([eval], [value], calibrated against the Go code).
   Proofs: Eval/SpecRefines*.v, Eval/SpecMdRules.v.  Property theorems only. *)
From Coq Require Import QArith String.
From HclV Require Import Base.Prelude Cty.Values Cty.Convert Cty.Ops Eval.Impl Eval.Funcs Eval.Spec
  Eval.SpecRefines_Base Eval.SpecRefines_Defs Eval.SpecRefines Eval.SpecMdRules Eval.EvalCheck Eval.SpecCheck.
Open Scope Z_scope.
Open Scope list_scope.

(* Main theorem.  For every expression e of the modelled AST (all 18 node kinds), every context c
   whose variables are wholly known and unmarked and whose functions satisfy the contract fn_ok,
   every fuel >= expr_size e: if e is free of the excluded deviation shapes (dev_free) and the
   evaluation stays inside the model's universe (no "unsupported" marker), then the implementation's
   outcome — the value if there is no error diagnostic, "error" otherwise — is the specification's. *)
Theorem C01_impl_refines_spec :
  forall (e : expr) (c : ctx) (fuel : nat) (v : val) (ds : list diag),
    known_unmarked_ctx c = true -> funcs_ok c -> lits_ok e = true ->
    (expr_size e <= fuel)%nat -> dev_free fuel c None e = true ->
    eval fuel c None e = (v, ds) -> has_unsupported ds = false ->
    (if has_errors ds then SErr else SOk v) = spec_eval (env_of c None) e.
Proof. exact impl_refines_spec. Qed.
Print Assumptions C01_impl_refines_spec.

(* the same for hcl.Expression.Value *)
Theorem C01_value_refines_spec :
  forall (e : expr) (c : ctx),
    known_unmarked_ctx c = true -> funcs_ok c -> lits_ok e = true ->
    dev_free (S (expr_size e)) c None e = true ->
    has_unsupported (snd (value c e)) = false ->
    result_of (value c e) = spec_eval (env_of c None) e.
Proof. exact value_refines_spec. Qed.
Print Assumptions C01_value_refines_spec.

(* spec.md "Unknown Values": no unknown (and no mark) comes out of known, unmarked inputs *)
Theorem C01_result_known_unmarked :
  forall (e : expr) (c : ctx) (fuel : nat) (v : val) (ds : list diag),
    known_unmarked_ctx c = true -> funcs_ok c -> lits_ok e = true ->
    (expr_size e <= fuel)%nat -> dev_free fuel c None e = true ->
    eval fuel c None e = (v, ds) -> has_unsupported ds = false -> has_errors ds = false ->
    wholly_known v = true /\ contains_marked v = false.
Proof. exact impl_result_known_unmarked. Qed.
Print Assumptions C01_result_known_unmarked.

(* the function-table contract holds for the table used by the correspondence runs *)
Theorem C01_harness_funcs_ok : forall vars, funcs_ok [mkFrame vars (Some harness_funcs)].
Proof. exact harness_ctx_funcs_ok. Qed.
Print Assumptions C01_harness_funcs_ok.

(* Each exclusion of dev_free is a real difference between implementation and specification. *)
Theorem C01_specdev_logic_and_shortcircuit_refuted :
  deviates wctx (EBin OpAnd wF (wV "nosuchvar")) (SOk (VBool false)) SErr.
Proof. exact specdev_logic_and_shortcircuit_refuted. Qed.
Theorem C01_specdev_logic_or_shortcircuit_refuted :
  deviates wctx (EBin OpOr wT (wV "nosuchvar")) (SOk (VBool true)) SErr.
Proof. exact specdev_logic_or_shortcircuit_refuted. Qed.
Theorem C01_specdev_logic_and_null_refuted :
  deviates wctx (EBin OpAnd wT wNull) (SOk (VBool false)) SErr.
Proof. exact specdev_logic_and_null_refuted. Qed.
Theorem C01_specdev_logic_or_null_refuted :
  deviates wctx (EBin OpOr wNull wT) (SOk (VBool true)) SErr.
Proof. exact specdev_logic_or_null_refuted. Qed.
Theorem C01_specdev_objcons_dupkey_refuted :
  deviates wctx (EObj [(wK "a", wN 1); (wK "a", wN 2)]) (SOk (VObj [(bytes "a", VNum (nz 2))])) SErr.
Proof. exact specdev_objcons_dupkey_refuted. Qed.
Theorem C01_specdev_objkey_traversal_refuted :
  deviates wctx (EObj [(EObjKey (EScopeTrav (bytes "o") [SAttr (bytes "a")]) false, wN 1)])
           SErr (SOk (VObj [(bytes "1", VNum (nz 1))])).
Proof. exact specdev_objkey_traversal_refuted. Qed.
Theorem C01_specdev_getattr_map_refuted :
  deviates wctx (EScopeTrav (bytes "m") [SAttr (bytes "a")]) (SOk (VNum (nz 1))) SErr.
Proof. exact specdev_getattr_map_refuted. Qed.
Theorem C01_specdev_splat_list_refuted :
  deviates wctx (ESplat (wV "l") EAnon)
           (SOk (VList TNum [VNum (nz 1); VNum (nz 2)])) (SOk (VTuple [VNum (nz 1); VNum (nz 2)])).
Proof. exact specdev_splat_list_refuted. Qed.
Theorem C01_specdev_cond_typed_error_arm_refuted :
  deviates wctx (ECond wT (wN 1) (EUn OpNot (wS "x"))) SErr (SOk (VNum (nz 1))).
Proof. exact specdev_cond_typed_error_arm_refuted. Qed.
Theorem C01_specdev_cond_typed_error_arm_conv_refuted :
  deviates wctx (ECond wT (wN 1) (ETmpl [wNull; wS "x"])) (SOk (VStr (bytes "1"))) (SOk (VNum (nz 1))).
Proof. exact specdev_cond_typed_error_arm_conv_refuted. Qed.
Theorem C01_specdev_for_probe_refuted :
  deviates wctx (EFor [] (bytes "v") (ETuple []) None (wV "v") (Some wNull) false) SErr (SOk (VTuple [])).
Proof. exact specdev_for_probe_refuted. Qed.
Theorem C01_specdev_expand_set_refuted :
  deviates wctx (ECall (bytes "sum") [wV "st"] true) (SOk (VNum (nz 3))) SErr.
Proof. exact specdev_expand_set_refuted. Qed.
Print Assumptions C01_specdev_expand_set_refuted.

(* spec.md prose versus go-cty rules: FINITE EXPLORATION over the 69 types of small_types
   (not an unbounded theorem) *)
Theorem C01_rules_agree_or_listed :
  forall a b, In a small_types -> In b small_types ->
    (unify_agree a b = true /\ conv_agree a b = true) \/ listed a b = true.
Proof. exact rules_agree_or_listed. Qed.
Print Assumptions C01_rules_agree_or_listed.

(* The hypotheses are satisfiable on non-trivial instances: every construct, in the scope of the
   witnesses (a list, a map, an object, a set) with the harness functions. *)
Definition c01_examples : list expr :=
  [ EBin OpAdd (wN 1) (EBin OpMul (wN 2) (wN 3));
    ETmpl [wS "a"; wN 1; wS "b"];
    ECond wT (wN 1) (wS "a");
    EFor [] (bytes "v") (ETuple [wN 1; wN 2; wN 3]) None (EBin OpMul (wV "v") (wN 2))
         (Some (EBin OpNe (wV "v") (wN 2))) false;
    EFor (bytes "k") (bytes "v") (EObj [(wK "a", wN 1); (wK "b", wN 2)]) (Some (wV "v")) (wV "k") None true;
    ESplat (ETuple [EObj [(wK "a", wN 1)]; EObj [(wK "a", wN 2)]]) (ERelTrav EAnon [SAttr (bytes "a")]);
    ECall (bytes "sum") [wN 1; wN 2; wN 3] false;
    ECall (bytes "first") [ETuple [wN 1; wN 2]] true;
    ETmpl [EJoin (EFor [] (bytes "x") (ETuple [wN 1; wN 2]) None (ETmpl [wV "x"]) None false)];
    EIndex (wV "l") (wN 1);
    EScopeTrav (bytes "o") [SAttr (bytes "a")];
    EBin OpOr (EUn OpNot wT) (EBin OpAnd wF wT);
    ECond wF (EIndex (wV "l") (wN 7)) (wN 0);
    EBin OpAdd (wS "a") (wN 1) ].
Example C01_hypotheses_satisfiable :
  known_unmarked_ctx wctx = true /\ funcs_ok wctx /\
  forallb (fun e => lits_ok e && dev_free (S (expr_size e)) wctx None e
                    && negb (has_unsupported (snd (value wctx e)))) c01_examples = true /\
  Forall (fun e => result_of (value wctx e) = spec_eval (env_of wctx None) e) c01_examples.
Proof.
  assert (forallb (fun e => lits_ok e && dev_free (S (expr_size e)) wctx None e
                    && negb (has_unsupported (snd (value wctx e)))) c01_examples = true) as H
    by (vm_compute; reflexivity).
  split; [vm_compute; reflexivity|]. split; [apply harness_ctx_funcs_ok|]. split; [exact H|].
  rewrite forallb_forall in H. apply Forall_forall. intros e He. specialize (H e He).
  apply andb_true_iff in H as [H H3]. apply andb_true_iff in H as [H1 H2]. apply negb_true_iff in H3.
  apply C01_value_refines_spec; auto. apply harness_ctx_funcs_ok.
Qed.

(* The run-time oracle (Eval/SpecCheck.v): dev_code names the exclusion that dev_free hits. *)
Theorem C01_dev_code_free :
  forall fuel c anon e, dev_code fuel c anon e = 0 <-> dev_free fuel c anon e = true.
Proof. exact dev_code_free. Qed.
Print Assumptions C01_dev_code_free.

(* every refuted witness gets the code of its own shape; the examples get none *)
Example C01_dev_codes_of_witnesses :
  map (fun e => dev_code (S (expr_size e)) wctx None e)
    [ EBin OpAnd wF (wV "nosuchvar"); EBin OpOr wT (wV "nosuchvar"); EBin OpAnd wT wNull; EBin OpOr wNull wT;
      EObj [(wK "a", wN 1); (wK "a", wN 2)];
      EObj [(EObjKey (EScopeTrav (bytes "o") [SAttr (bytes "a")]) false, wN 1)];
      EScopeTrav (bytes "m") [SAttr (bytes "a")]; ESplat (wV "l") EAnon;
      ECond wT (wN 1) (EUn OpNot (wS "x")); ECond wT (wN 1) (ETmpl [wNull; wS "x"]);
      EFor [] (bytes "v") (ETuple []) None (wV "v") (Some wNull) false;
      ECall (bytes "sum") [wV "st"] true ]
  = [DC_LogicAndShortCircuit; DC_LogicOrShortCircuit; DC_LogicNullOperand; DC_LogicNullOperand;
     DC_ObjConsDupKey; DC_ObjKeyTraversal; DC_GetAttrMap; DC_SplatListSet;
     DC_CondTypedErrorArm; DC_CondTypedErrorArm; DC_ForProbe; DC_ExpandSet]
  /\ ctx_params_ok [mkFrame (Some []) (Some [(bytes "probe", fn_probe)])] = false
  /\ forallb (fun e => dev_code (S (expr_size e)) wctx None e =? 0) c01_examples = true.
Proof. vm_compute. repeat split; reflexivity. Qed.
