(* Props/C01Parse.v — parser part of C01: binary operators parse by the precedence table.
   Only the property theorems, each closed by [exact], with Print Assumptions.
   Model: Parse/ExprParser.v (parseBinaryOps, parseExpressionWithTraversals, parseExpressionTerm,
   ParseExpression of hclsyntax/parser.go) over Gen/BinaryOps.v, the table GENERATED from the
   `binaryOps` literal of hclsyntax/expression_ops.go.  Proofs: Parse/BinopsProofs.v.
   The model is tied to the Go parser by harness/cmd/cparse (cparse-expr) + Parse/ParseCheck.v.

   Quantified: EVERY operator tree `otree` (any size, any nesting) whose binary nodes carry an
   operator token of the generated table at its own level, whose unary nodes are `-` / `!`, and
   whose leaves are variables (identifiers other than true/false/null).  `pr 0 t` prints it
   with MINIMAL parentheses: a binary node gets parentheses exactly when its level is lower
   than its context requires (left operand: same level allowed; right operand: next level;
   operand of a unary operator: always).  Go keeps a ParenthesesExpr for every written pair of
   parentheses; `ex 0 t` is the tree with EParen exactly there, `strip_parens` removes them.
   Excluded: other term forms as leaves (literals, calls, templates, traversals), comments and
   newlines between the tokens (BinopsProofs.parse_expression_tree allows a leading comment gap
   and any continuation), the conditional operator. *)
From HclV Require Import Base.Prelude Gen.TokenTypes Gen.BinaryOps Cty.Values Cty.Ops Eval.Impl
  Parse.Peeker Parse.ExprParser Parse.BinopsProofs.

(* The generated levels are the six levels of hclsyntax/spec.md "Operations", lowest first:
   ||, &&, == !=, > >= < <=, + -, * / %. (Fails to compile if the Go table changes.) *)
Theorem C01_binary_ops_levels :
  map (map snd) binary_ops =
  [[OpOr]; [OpAnd]; [OpEq; OpNe]; [OpGt; OpGe; OpLt; OpLe]; [OpAdd; OpSub]; [OpMul; OpDiv; OpMod]]
  /\ map (map fst) binary_ops =
  [[TokenOr]; [TokenAnd]; [TokenEqualOp; TokenNotEqual];
   [TokenGreaterThan; TokenGreaterThanEq; TokenLessThan; TokenLessThanEq];
   [TokenPlus; TokenMinus]; [TokenStar; TokenSlash; TokenPercent]].
Proof. exact binary_ops_levels. Qed.
Print Assumptions C01_binary_ops_levels.

(* Printing any well-formed operator tree with minimal parentheses and parsing the tokens with
   ParseExpression gives the tree back, without diagnostics. *)
Theorem C01_binops_parse_by_precedence :
  forall t, wf_tree t ->
  parse_expression_entry (pr 0 t ++ [eof_tok]) = EOk (ex 0 t) [] /\
  strip_parens (ex 0 t) = tree_expr t.
Proof. exact binops_parse_by_precedence. Qed.
Print Assumptions C01_binops_parse_by_precedence.

(* x op1 y op2 z with both operators of one level is (x op1 y) op2 z. *)
Theorem C01_same_level_left_assoc :
  forall l ty1 op1 ty2 op2 x y z,
  (l < nlev)%nat -> lookup_op ty1 (level l) = Some op1 -> lookup_op ty2 (level l) = Some op2 ->
  name_ok x -> name_ok y -> name_ok z ->
  parse_expression_entry [tk TokenIdent x; tk ty1 []; tk TokenIdent y; tk ty2 []; tk TokenIdent z; eof_tok]
  = EOk (EBin op2 (EBin op1 (EScopeTrav x []) (EScopeTrav y [])) (EScopeTrav z [])) [].
Proof. exact same_level_left_assoc. Qed.
Print Assumptions C01_same_level_left_assoc.

(* An operator of a higher level binds tighter, on either side. *)
Theorem C01_higher_level_binds_tighter :
  forall l1 l2 ty1 op1 ty2 op2 x y z,
  (l1 < l2)%nat -> (l2 < nlev)%nat ->
  lookup_op ty1 (level l1) = Some op1 -> lookup_op ty2 (level l2) = Some op2 ->
  name_ok x -> name_ok y -> name_ok z ->
  parse_expression_entry [tk TokenIdent x; tk ty1 []; tk TokenIdent y; tk ty2 []; tk TokenIdent z; eof_tok]
  = EOk (EBin op1 (EScopeTrav x []) (EBin op2 (EScopeTrav y []) (EScopeTrav z []))) [] /\
  parse_expression_entry [tk TokenIdent x; tk ty2 []; tk TokenIdent y; tk ty1 []; tk TokenIdent z; eof_tok]
  = EOk (EBin op1 (EBin op2 (EScopeTrav x []) (EScopeTrav y [])) (EScopeTrav z [])) [].
Proof. exact higher_level_binds_tighter. Qed.
Print Assumptions C01_higher_level_binds_tighter.

(* Unary - and ! bind tighter than every binary operator of the table. *)
Theorem C01_unary_binds_tighter :
  forall l ty op o x y,
  (l < nlev)%nat -> lookup_op ty (level l) = Some op -> name_ok x -> name_ok y ->
  parse_expression_entry [tk (un_tok o) []; tk TokenIdent x; tk ty []; tk TokenIdent y; eof_tok]
  = EOk (EBin op (EUn o (EScopeTrav x [])) (EScopeTrav y [])) [] /\
  parse_expression_entry [tk TokenIdent x; tk ty []; tk (un_tok o) []; tk TokenIdent y; eof_tok]
  = EOk (EBin op (EScopeTrav x []) (EUn o (EScopeTrav y []))) [].
Proof. exact unary_binds_tighter. Qed.
Print Assumptions C01_unary_binds_tighter.

(* Non-vacuity: a + b * c - d on the generated table, and a tree that needs parentheses. *)
Example C01Parse_example :
  parse_expression_entry
    [tk TokenIdent [97]; tk TokenPlus []; tk TokenIdent [98]; tk TokenStar []; tk TokenIdent [99];
     tk TokenMinus []; tk TokenIdent [100]; eof_tok]
  = EOk (EBin OpSub (EBin OpAdd (EScopeTrav [97] []) (EBin OpMul (EScopeTrav [98] []) (EScopeTrav [99] [])))
                    (EScopeTrav [100] [])) [].
Proof. exact binops_example. Qed.

Example C01Parse_example_parens :
  let t := OBin 5 TokenStar OpMul (OBin 4 TokenPlus OpAdd (OLeaf [97]) (OLeaf [98])) (OUn OpNeg (OLeaf [99])) in
  wf_tree t /\
  map pty (pr 0 t) = [TokenOParen; TokenIdent; TokenPlus; TokenIdent; TokenCParen; TokenStar; TokenMinus; TokenIdent] /\
  ex 0 t = EBin OpMul (EParen (EBin OpAdd (EScopeTrav [97] []) (EScopeTrav [98] []))) (EUn OpNeg (EScopeTrav [99] [])).
Proof. vm_compute. repeat split; try reflexivity; lia. Qed.
