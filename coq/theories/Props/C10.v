(* Props/C10.v — Loading a file into the writer AST and saving it loses nothing.
   Only the property theorems, each closed by [exact], with Print Assumptions.
   Model: Write/Loader.v (hclwrite/parser.go, native_node_sorter.go, accessors of
   ast_*.go); proofs: Write/LoaderProofs.v; formatter: Write/Format.v (C09).

   Reading guide. [toks] are Go's tokens with byte ranges, [f] is Go's native
   AST reduced to the ranges parser.go reads, [load toks f] is the tree
   hclwrite.ParseConfig builds (or the Go panic it would raise),
   [build_tokens] is BuildTokens, [ranges_wf toks f] says what an error-free
   native parse guarantees: token starts strictly increasing; ranges nested and
   ordered; name/type ranges cover one token; an item is followed by comments
   and a newline/EOF (or the end of its one-line block); an attribute ends with
   its expression; nothing stands between a block's type and its first label;
   every traversal step covers the tokens of its syntax; every index key is a
   string or a number. The last two clauses are NOT guaranteed by the parser:
   see C10_load_flatten_refuted and the harness finding
   "comment-before-first-label-dropped". *)
From HclV Require Import Base.Prelude Write.Format Write.Loader Write.LoaderProofs.

(* Every way the loader cuts a token slice gives the slice back: nothing is
   lost or duplicated by Partition, PartitionIncludingComments,
   PartitionBlockItem, PartitionLeadComments, PartitionLineEndTokens, for ANY
   token list and ANY range. *)
Theorem C10_partition_conserves :
  (forall it r b w a, partition it r = (b, w, a) -> b ++ w ++ a = it) /\
  (forall it r b w a, partition_including_comments it r = Ok (b, w, a) -> b ++ w ++ a = it) /\
  (forall it r b l w c n a, partition_block_item it r = Ok (b, l, w, c, n, a) ->
      b ++ l ++ w ++ c ++ n ++ a = it) /\
  (forall it b w, partition_lead_comments it = (b, w) -> b ++ w = it) /\
  (forall it c n a, partition_line_end it = Ok (c, n, a) -> c ++ n ++ a = it).
Proof. exact partition_conserves. Qed.
Print Assumptions C10_partition_conserves.

(* On well-formed ranges loading reaches no panic and the unmodified tree
   flattens to exactly the source's token sequence. *)
Theorem C10_load_flatten :
  forall toks f, ranges_wf toks f = true ->
    exists tree, load toks f = Ok tree /\ build_tokens tree = tokens toks.
Proof. exact load_flatten. Qed.
Print Assumptions C10_load_flatten.

(* The hypothesis on index key kinds cannot be dropped: for the tokens and
   ranges Go produces for  a = foo[true]  every other clause of ranges_wf
   holds, loading succeeds, and the tree has 7 of the 8 tokens (the key is
   gone). parseTraversalStep has no case for bool/null keys. *)
Theorem C10_load_flatten_refuted :
  exists toks f tree,
    ranges_wf_anykey toks f = true /\ ranges_wf toks f = false /\
    load toks f = Ok tree /\ build_tokens tree <> tokens toks /\
    length (build_tokens tree) = 7%nat /\ length toks = 8%nat.
Proof. exact load_flatten_refuted. Qed.
Print Assumptions C10_load_flatten_refuted.

(* What Attributes()/Blocks()/Type()/label nodes/Variables() expose, read off
   the tree in order ([summ_of]), is what the ranges-AST says ([ast_summ]:
   the bytes under NameRange/TypeRange, one label node holding exactly the
   tokens under each LabelRange, one traversal per native variable with one
   step per native step holding exactly the tokens under the step's range);
   and Labels() returns the source's label texts for every block whose labels
   are identifiers, "" or single-literal strings. *)
Theorem C10_accessors_complete_partial :
  forall toks f tree, ranges_wf toks f = true -> load toks f = Ok tree ->
    summ_of tree = map (ast_summ toks) (f_items (sort_file f))
    /\ (forall rs, forallb (fun r => label_simple (tokens (sel_r toks r))) rs = true ->
          labels_api (map (fun r => label_node (sel_r toks r)) rs)
          = map (fun r => label_source (tokens (sel_r toks r))) rs).
Proof. exact accessors_complete_partial. Qed.
Print Assumptions C10_accessors_complete_partial.

(* Without the side condition on labels the statement is false: for
   b "a$b" {}  (the label lexes into three QuotedLit tokens) the tree is
   well-formed and loses no token, but Labels() is empty while the source has
   the label a$b. *)
Theorem C10_accessors_labels_refuted :
  exists toks f tree,
    ranges_wf toks f = true /\ load toks f = Ok tree /\
    build_tokens tree = tokens toks /\
    exists t ls b, In (SumBlock t ls b) (summ_of tree) /\
      labels_api ls = [] /\ map (fun n => label_source (build_tokens n)) ls = [[97; 36; 98]].
Proof. exact accessors_labels_refuted. Qed.
Print Assumptions C10_accessors_labels_refuted.

(* File.Bytes() of the unmodified tree is the formatter applied to the source's
   tokens, i.e. hclwrite.Format(src) (format/write: Write/Format.v, C09). *)
Theorem C10_bytes_equal_format :
  forall toks f tree, ranges_wf toks f = true -> load toks f = Ok tree ->
    file_bytes tree = write (format (tokens toks)).
Proof. exact bytes_equal_format. Qed.
Print Assumptions C10_bytes_equal_format.

(* native_node_sorter.go as modelled is a sort: a permutation ordered by start. *)
Theorem C10_sort_items_sorts :
  forall l, Permutation.Permutation (sort_items l) l
            /\ Sorted.StronglySorted (fun a b => r_s (item_range a) <= r_s (item_range b)) (sort_items l).
Proof. exact sort_items_sorts. Qed.
Print Assumptions C10_sort_items_sorts.

(* Non-vacuity: the ranges Go produces for
     b "l" {\n  a = f.g[0] #c\n}\n
   satisfy ranges_wf (block, label, nested attribute, three-step traversal,
   line comment serving as the newline). *)
Example C10_example : ranges_wf ex_toks ex_file = true.
Proof. exact ex_wf. Qed.
