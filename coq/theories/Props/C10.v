(* Props/C10.v — Loading a file into the writer AST and saving it loses nothing.
   Only the property theorems, each closed by [exact], with Print Assumptions.
   Model: Write/Loader.v (hclwrite/parser.go, native_node_sorter.go, accessors of
   ast_*.go, after the fixes d13351c / 1b2807b / 984f1c6); proofs:
   Write/LoaderProofs.v; formatter: Write/Format.v (C09).

   Reading guide. [toks] are Go's tokens with byte ranges, [f] is Go's native
   AST reduced to the ranges parser.go reads, [load toks f] is the tree
   hclwrite.ParseConfig builds (or the Go panic it would raise),
   [build_tokens] is BuildTokens, [ranges_wf toks f] says what an error-free
   native parse guarantees: token starts strictly increasing; ranges nested and
   ordered; name/type ranges cover one token; an item is followed by comments
   and a newline/EOF (or the end of its one-line block); an attribute ends with
   its expression; every traversal step covers the tokens of its syntax (an
   identifier; a dot and a number; brackets, with a number token inside for a
   number key). Index keys may be of any literal kind (string, number, bool,
   null); anything may stand between a block's type and its first label.
   The correspondence run checks on every error-free case that ranges_wf holds
   exactly when the real loader lost nothing. *)
From HclV Require Import Base.Prelude Write.Format Write.Loader Write.LoaderProofs.

(* Every way the loader cuts a token slice gives the slice back: nothing is
   lost or duplicated by Partition, PartitionIncludingComments,
   PartitionBlockItem, PartitionLeadComments, PartitionLineEndTokens, for ANY
   token list and ANY range. *)
Theorem C10_partition_conserves :
  (forall it r b w a, partition it r = (b, w, a) -> b ++ w ++ a = it) /\
  (forall it r b w a, partition_including_comments it r = Ok (b, w, a) -> b ++ w ++ a = it) /\
  (forall it r b l w c n a, partition_block_item it r = Ok (b, l, w, c, n, a) ->
      b ++ l ++ w ++ c ++ n ++ a = it) /\
  (forall it b w, partition_lead_comments it = (b, w) -> b ++ w = it) /\
  (forall it c n a, partition_line_end it = Ok (c, n, a) -> c ++ n ++ a = it).
Proof. exact partition_conserves. Qed.
Print Assumptions C10_partition_conserves.

(* On well-formed ranges — with index keys of ANY literal kind — loading
   reaches no panic and the unmodified tree flattens to exactly the source's
   token sequence. *)
Theorem C10_load_flatten :
  forall toks f, ranges_wf toks f = true ->
    exists tree, load toks f = Ok tree /\ build_tokens tree = tokens toks.
Proof. exact load_flatten. Qed.
Print Assumptions C10_load_flatten.

(* The tree read in order ([summ_of]) is the ranges-AST ([ast_summ]): per
   attribute the bytes under NameRange and one traversal per native variable
   with one step per native step holding exactly the tokens under the step's
   range; per block the bytes under TypeRange, one label node holding exactly
   the tokens under each LabelRange, and the same for its body. *)
Theorem C10_accessors_tree :
  forall toks f tree, ranges_wf toks f = true -> load toks f = Ok tree ->
    summ_of tree = map (ast_summ toks) (f_items (sort_file f)).
Proof. exact accessors_summ. Qed.
Print Assumptions C10_accessors_tree.

(* What the accessors return — Attributes() names, Blocks(), Type(), Labels(),
   Variables() — equals what the native AST says, at every depth, for labels
   of any number of literal tokens ("a$b" lexes into three). [file_labels_ok]:
   every label is an identifier or OQuote QuotedLit* CQuote, which an
   error-free parse guarantees (checked on every case of the correspondence
   run). Label TEXT is the raw literal bytes on both sides: the unescaping by
   hclsyntax.ParseStringLiteralToken (backslash escapes, $${, %%{) is not
   modelled. *)
Theorem C10_accessors_complete :
  forall toks f tree,
    ranges_wf toks f = true -> file_labels_ok toks f = true -> load toks f = Ok tree ->
    map summ_api (summ_of tree) = map (ast_api toks) (f_items (sort_file f)).
Proof. exact accessors_complete. Qed.
Print Assumptions C10_accessors_complete.

(* File.Bytes() of the unmodified tree is the formatter applied to the source's
   tokens, i.e. hclwrite.Format(src) (format/write: Write/Format.v, C09). *)
Theorem C10_bytes_equal_format :
  forall toks f tree, ranges_wf toks f = true -> load toks f = Ok tree ->
    file_bytes tree = write (format (tokens toks)).
Proof. exact bytes_equal_format. Qed.
Print Assumptions C10_bytes_equal_format.

(* native_node_sorter.go as modelled is a sort: a permutation ordered by start. *)
Theorem C10_sort_items_sorts :
  forall l, Permutation.Permutation (sort_items l) l
            /\ Sorted.StronglySorted (fun a b => r_s (item_range a) <= r_s (item_range b)) (sort_items l).
Proof. exact sort_items_sorts. Qed.
Print Assumptions C10_sort_items_sorts.

(* Non-vacuity: the ranges Go produces for
     b /*c*/ "a$b" {\n  a = f.g[true] #c\n}\n
   satisfy ranges_wf and file_labels_ok (comment before the first label,
   multi-literal label, nested attribute, three-step traversal with a bool
   key, line comment serving as the newline). *)
Example C10_example : ranges_wf ex_toks ex_file = true /\ file_labels_ok ex_toks ex_file = true.
Proof. exact ex_wf. Qed.

(* ... and on that instance the loader keeps all 21 tokens (the /*c*/ before the
   label and the bool key included), Labels() reads the joined label a$b and
   Variables() exposes f.g[true] step by step. *)
Example C10_example_load :
  exists tree, load ex_toks ex_file = Ok tree
  /\ build_tokens tree = tokens ex_toks
  /\ map summ_api (summ_of tree)
     = [ABlock [98] [[97; 36; 98]]
          [AAttr [97] [[ [mkTok 73 [102] 1 1]; [mkTok 46 [46] 1 0; mkTok 73 [103] 1 0];
                         [mkTok 91 [91] 1 0; mkTok 73 [116;114;117;101] 4 0; mkTok 93 [93] 1 0] ]]]].
Proof. exact ex_load. Qed.
