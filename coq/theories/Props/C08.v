(* Props/C08.v — Decoding always yields a value of the specification's implied type.
   Only the property theorems, each closed by [exact], with Print Assumptions.
   Model: Dec/Spec.v (hcldec/spec.go: spec kinds, impliedType, ImpliedSchema,
   documented preconditions [wf_spec]), Dec/Decode.v (hcldec/decode.go, public.go,
   the decode method of every spec kind, over an abstract body), Dec/Denote.v (the
   value a specification describes); proofs: Dec/TypeProofs.v, Dec/DecodeProofs.v,
   Dec/ValueProofs.v.

   Flags of a run (Dec/Decode.v): [has_err] = the Go diagnostics contain an error;
   [panicked] = the Go code panics; [noted] = the run went through one of three
   marked places of the current code (BlockList/BlockSet returning cty.DynamicVal;
   BlockList/BlockSet elements converted to a type chosen by convert.UnifyUnsafe;
   BlockMapSpec with >= 2 labels and no block); [unsupported] = a go-cty result
   the Cty model does not reproduce.  The unrestricted statements are FALSE of the
   current code: see the _refuted theorems, each with its witness. *)
From HclV Require Import Base.Prelude Cty.Values Cty.Convert Eval.Impl
  Dec.Spec Dec.Decode Dec.Denote Dec.TypeProofs Dec.DecodeProofs Dec.ValueProofs.

(* For EVERY specification within the documented preconditions, EVERY body
   (conforming or not: items absent, duplicated, mistyped, with wrong label
   counts, unknown, marked) and EVERY context: the type of the value returned by
   hcldec.Decode conforms to ImpliedType(spec) — equal except where the implied
   type is dynamic — provided the run is not one of the three noted shapes. *)
Theorem C08_decode_conforms :
  forall s b c, wf_spec s ->
    noted (snd (decode s b c)) = false -> unsupported (snd (decode s b c)) = false ->
    panicked (snd (decode s b c)) = false ->
    type_conforms (type_of (fst (decode s b c))) (implied_type s) = true.
Proof. exact decode_conforms. Qed.
Print Assumptions C08_decode_conforms.

Theorem C08_partial_decode_conforms :
  forall s b c, wf_spec s ->
    noted (snd (partial_decode s b c)) = false -> unsupported (snd (partial_decode s b c)) = false ->
    panicked (snd (partial_decode s b c)) = false ->
    type_conforms (type_of (fst (partial_decode s b c))) (implied_type s) = true.
Proof. exact partial_decode_conforms. Qed.
Print Assumptions C08_partial_decode_conforms.

(* No modelled panic (BlockLabelSpec out of range, label slicing in
   BlockMap/BlockObject, the deliberate BlockMapSpec panic, cty.MapVal in
   BlockMapSpec's ctyMap on inconsistent element types, refinement of a
   contradicting value) is reachable, for every body and context, outside the
   noted shapes.  (cty.ListVal/SetVal in BlockList/BlockSet and cty.MapVal in
   BlockAttrsSpec are guarded by CanListVal/CanSetVal/CanMapVal since fixes
   7c5f679 and cb48ded: no premise about BlockAttrsSpec element types is needed.) *)
Theorem C08_decode_no_panic :
  forall s b c, wf_spec s ->
    noted (snd (decode s b c)) = false -> unsupported (snd (decode s b c)) = false ->
    panicked (snd (decode s b c)) = false.
Proof. exact decode_no_panic. Qed.
Print Assumptions C08_decode_no_panic.

Theorem C08_partial_decode_no_panic :
  forall s b c, wf_spec s ->
    noted (snd (partial_decode s b c)) = false -> unsupported (snd (partial_decode s b c)) = false ->
    panicked (snd (partial_decode s b c)) = false.
Proof. exact partial_decode_no_panic. Qed.
Print Assumptions C08_partial_decode_no_panic.

(* so the panic premise of C08_decode_conforms follows from the others *)
Theorem C08_decode_ok :
  forall s b c, wf_spec s ->
    noted (snd (decode s b c)) = false -> unsupported (snd (decode s b c)) = false ->
    panicked (snd (decode s b c)) = false /\
    type_conforms (type_of (fst (decode s b c))) (implied_type s) = true.
Proof. exact decode_ok. Qed.
Print Assumptions C08_decode_ok.

(* When decoding reports no error the value is exactly the one the specification
   describes for the body's content ([denote], defined without Content, schemata
   or diagnostics).  No precondition on the specification is needed. *)
Theorem C08_decode_value_correct :
  forall s b c,
    has_err (snd (decode s b c)) = false -> panicked (snd (decode s b c)) = false ->
    multilabel_empty (snd (decode s b c)) = false ->
    fst (decode s b c) = denote s c b [].
Proof. exact decode_value_correct. Qed.
Print Assumptions C08_decode_value_correct.

Theorem C08_partial_decode_value_correct :
  forall s b c,
    has_err (snd (partial_decode s b c)) = false -> panicked (snd (partial_decode s b c)) = false ->
    multilabel_empty (snd (partial_decode s b c)) = false ->
    fst (partial_decode s b c) = denote s c b [].
Proof. exact partial_decode_value_correct. Qed.
Print Assumptions C08_partial_decode_value_correct.

(* PartialDecode and Decode return the same value, for every specification,
   body and context; Decode's diagnostics are PartialDecode's plus one error per
   leftover attribute and block, inserted after the Content diagnostics. *)
Theorem C08_partial_decode_same_value :
  forall s b c,
    fst (partial_decode s b c) = fst (decode s b c) /\
    exists cds vds,
      snd (partial_decode s b c) = cds ++ vds /\
      snd (decode s b c) = (cds ++ leftover_diags (implied_schema s) b) ++ vds.
Proof. exact partial_decode_same_value. Qed.
Print Assumptions C08_partial_decode_same_value.

(* Supporting fact about the Cty model: a successful conversion returns a value
   whose type conforms to the requested type. *)
Theorem C08_conv_conforms :
  forall v want r, conv v want = COk r -> type_conforms (type_of r) want = true.
Proof. exact conv_conforms. Qed.
Print Assumptions C08_conv_conforms.

(* ---- refutations of the unrestricted statements (witnesses in Dec/DecodeProofs.v) ---- *)

(* DESIGN §9 #12.  BlockListSpec{b, ObjectSpec{a: AttrSpec{a, dynamic}}} with
   blocks  b { a = "x" }  b { a = [1] }  returns cty.DynamicVal; the implied type
   is list(object({a = dynamic})). *)
Theorem C08_decode_conforms_blocklist_refuted :
  wf_spec w12_spec /\
  fst (decode w12_spec w12_body []) = dyn_val /\
  implied_type w12_spec = TList (TObj [(nm_a, TDyn)]) /\
  type_conforms (type_of (fst (decode w12_spec w12_body []))) (implied_type w12_spec) = false.
Proof. exact decode_conforms_blocklist_refuted. Qed.
Print Assumptions C08_decode_conforms_blocklist_refuted.

(* BlockMapSpec{b, LabelNames: [k, j], AttrSpec{a, string}} on the EMPTY body
   reports no error and returns an empty map(string); the implied type is
   map(map(string)). *)
Theorem C08_decode_conforms_blockmap_refuted :
  wf_spec wmm_spec /\
  has_err (snd (decode wmm_spec wmm_body [])) = false /\
  type_of (fst (decode wmm_spec wmm_body [])) = TMap TStr /\
  implied_type wmm_spec = TMap (TMap TStr) /\
  type_conforms (type_of (fst (decode wmm_spec wmm_body []))) (implied_type wmm_spec) = false.
Proof. exact decode_conforms_blockmap_refuted. Qed.
Print Assumptions C08_decode_conforms_blockmap_refuted.

Theorem C08_decode_conforms_full_refuted :
  ~ (forall s b c, wf_spec s -> type_conforms (type_of (fst (decode s b c))) (implied_type s) = true).
Proof. exact decode_conforms_full_refuted. Qed.
Print Assumptions C08_decode_conforms_full_refuted.

(* ... and the same specification is not decoded to the value it describes. *)
Theorem C08_decode_value_correct_blockmap_refuted :
  has_err (snd (decode wmm_spec wmm_body [])) = false /\
  panicked (snd (decode wmm_spec wmm_body [])) = false /\
  fst (decode wmm_spec wmm_body []) = VMap TStr [] /\
  denote wmm_spec [] wmm_body [] = VMap (TMap TStr) [].
Proof. exact decode_value_correct_blockmap_refuted. Qed.
Print Assumptions C08_decode_value_correct_blockmap_refuted.

(* BlockMapSpec{o, [k], BlockMapSpec{i, [x, y], AttrSpec{a, string}}} with
   o "k1" { i "p" "q" { a = "1" } }  o "k2" { }  panics in cty.MapVal. *)
Theorem C08_decode_no_panic_nested_blockmap_refuted :
  wf_spec wnp_spec /\ panicked (snd (decode wnp_spec wnp_body [])) = true.
Proof. exact decode_no_panic_nested_blockmap_refuted. Qed.
Print Assumptions C08_decode_no_panic_nested_blockmap_refuted.

(* BlockAttrsSpec{b, ElementType: dynamic} with  b { x = 1  y = "s" }  (a panic
   in cty.MapVal before fix cb48ded): an error and an unknown of the implied type. *)
Theorem C08_blockattrs_dynamic_mixed_types :
  wf_spec wba_spec /\ panicked (snd (decode wba_spec wba_body [])) = false /\
  has_err (snd (decode wba_spec wba_body [])) = true /\
  fst (decode wba_spec wba_body []) = VUnk (TMap TDyn) rf_none.
Proof. exact blockattrs_dynamic_mixed_types. Qed.
Print Assumptions C08_blockattrs_dynamic_mixed_types.

Theorem C08_decode_no_panic_full_refuted :
  ~ (forall s b c, wf_spec s -> panicked (snd (decode s b c)) = false).
Proof. exact decode_no_panic_full_refuted. Qed.
Print Assumptions C08_decode_no_panic_full_refuted.

(* ---- non-vacuity: the hypotheses hold on a non-trivial instance --------------------------
   spec:  object({ name = attr name:string (required),
                   svc  = blockmap "service" [k] object({ port = default(attr port:number, literal 80) }),
                   tags = blocklist "tag" object({ l = label 0, v = attr v:string }), min 1 })
   body:  name = "web"
          service "a" { port = 8080 }
          service "b" { }
          tag "t1" { v = "x" }
          tag "t2" { v = "y" } *)
Definition ex_spec : spec :=
  SObject [ ([110;97;109;101], SAttr [110;97;109;101] TStr true);
            ([115;118;99], SBlockMap [115;101;114;118;105;99;101] [[107]]
                (SObject [ ([112;111;114;116], SDefault (SAttr [112;111;114;116] TNum false) (SLiteral (VNum (nz 80)))) ]));
            ([116;97;103;115], SBlockList [116;97;103]
                (SObject [ ([108], SBlockLabel 0 [108]); ([118], SAttr [118] TStr false) ]) 1 0) ].
Definition ex_body : abody :=
  ABody [ ([110;97;109;101], AVal (VStr [119;101;98]) false) ]
        [ ([115;101;114;118;105;99;101], [[97]], ABody [([112;111;114;116], AVal (VNum (nz 8080)) false)] [] false []);
          ([115;101;114;118;105;99;101], [[98]], ABody [] [] false []);
          ([116;97;103], [[116;49]], ABody [([118], AVal (VStr [120]) false)] [] false []);
          ([116;97;103], [[116;50]], ABody [([118], AVal (VStr [121]) false)] [] false []) ] false [].

Example C08_example :
  wf_spec ex_spec /\
  has_err (snd (decode ex_spec ex_body [])) = false /\ noted (snd (decode ex_spec ex_body [])) = false /\
  unsupported (snd (decode ex_spec ex_body [])) = false /\ panicked (snd (decode ex_spec ex_body [])) = false /\
  fst (decode ex_spec ex_body []) =
    VObj [ ([110;97;109;101], VStr [119;101;98]);
           ([115;118;99], VMap (TObj [([112;111;114;116], TNum)])
              [ ([97], VObj [([112;111;114;116], VNum (nz 8080))]);
                ([98], VObj [([112;111;114;116], VNum (nz 80))]) ]);
           ([116;97;103;115], VList (TObj [([108], TStr); ([118], TStr)])
              [ VObj [([108], VStr [116;49]); ([118], VStr [120])];
                VObj [([108], VStr [116;50]); ([118], VStr [121])] ]) ] /\
  fst (decode ex_spec ex_body []) = denote ex_spec [] ex_body [] /\
  type_conforms (type_of (fst (decode ex_spec ex_body []))) (implied_type ex_spec) = true.
Proof.
  split; [|vm_compute; repeat split].
  - repeat split; try reflexivity; try discriminate; try lia;
      intros t1 n1 t2 n2 I1 I2 Q; cbn in I1, I2;
      repeat match goal with
             | H : _ \/ _ |- _ => destruct H
             | H : (_, _) = (_, _) |- _ => inversion H; clear H; subst
             | H : False |- _ => destruct H
             end; try reflexivity; vm_compute in Q; discriminate.
Qed.
