(* Props/C13.v — The JSON syntax accepts exactly JSON and maps literals faithfully.
   Only the property theorems, each closed by [exact], with Print Assumptions.
   Reference : Json/Rfc8259.v (RFC 8259 as the relation JsonText, recogniser json_text_dec)
   Models    : Json/Scanner.v (json/scanner.go), Json/Parser.v (json/parser.go,
               encoding/json and big.ParseFloat acceptance), Json/Literal.v (json/spec.md)
   Proofs    : Json/Rfc8259Proofs.v, Json/ScannerProofs.v, Json/ParserProofs.v, Json/LiteralProofs.v

   jparse bs = JRes v ds  is json.ParseExpression: node v, diagnostics ds
   ([] = accepted).  "Accepted => JSON" holds in full (since /repo 0784545).
   "JSON => accepted" is still FALSE of the faithful model (= of the code) for
   numbers whose exponent big.ParseFloat refuses (pinned dependency): see
   C13_accept_complete_refuted_exponent; the repaired statement carries the
   hypothesis go_numbers_ok. *)
From HclV Require Import Base.Prelude Json.Rfc8259 Json.Rfc8259Proofs Json.Scanner Json.ScannerProofs
  Json.Parser Json.ParserProofs Json.Literal Json.LiteralProofs.

(* ---- the reference recogniser decides RFC 8259 ----------------------------------- *)

Theorem C13_json_text_dec_sound :
  forall bs v, json_text_dec bs = Some v -> JsonText bs v.
Proof. exact json_text_dec_sound. Qed.
Print Assumptions C13_json_text_dec_sound.

Theorem C13_json_text_dec_complete :
  forall bs v, JsonText bs v -> json_text_dec bs = Some v.
Proof. exact json_text_dec_complete. Qed.
Print Assumptions C13_json_text_dec_complete.

(* ---- accepted => JSON (full) -------------------------------------------------------- *)

(* Whatever is accepted is a JSON text, and the node is the value the grammar
   assigns to it (duplicates in order, numbers exact, strings unescaped). *)
Theorem C13_accept_sound :
  forall bs v, jparse bs = JRes v [] -> JsonText bs v.
Proof. exact accept_sound. Qed.
Print Assumptions C13_accept_sound.

(* in particular every accepted text is valid UTF-8 *)
Theorem C13_json_text_is_utf8 :
  forall bs v, JsonText bs v -> utf8_valid bs = true.
Proof. exact JsonText_utf8_valid. Qed.
Print Assumptions C13_json_text_is_utf8.

(* ---- JSON => accepted -------------------------------------------------------------- *)

(* As stated in the property: REFUTED.  Witness: 1e99999999999 is a JSON text
   and is rejected ("Invalid JSON number") because big.ParseFloat reports
   exponent overflow. *)
Theorem C13_accept_complete_refuted_exponent :
  ~ (forall bs v, JsonText bs v -> jparse bs = JRes v []).
Proof. exact accept_complete_refuted_exponent. Qed.
Print Assumptions C13_accept_complete_refuted_exponent.

(* Repaired: a JSON text all of whose number tokens are within big.Float's
   exponent range is accepted, with exactly the value the grammar assigns. *)
Theorem C13_accept_complete_partial :
  forall bs v, JsonText bs v -> go_numbers_ok bs = true -> jparse bs = JRes v [].
Proof. exact accept_complete_partial. Qed.
Print Assumptions C13_accept_complete_partial.

(* together: on such input acceptance is exactly JSON *)
Theorem C13_accept_iff :
  forall bs v, go_numbers_ok bs = true -> (jparse bs = JRes v [] <-> JsonText bs v).
Proof. exact accept_iff. Qed.
Print Assumptions C13_accept_iff.

(* ---- scanner: total, and the tokens tile the input --------------------------------- *)

Theorem C13_jscan_total :
  forall bs, exists ts, jscan_fuel (S (length bs)) 0 bs = Some ts.
Proof. exact jscan_total. Qed.
Print Assumptions C13_jscan_total.

(* gaps(i) = the bytes between token i-1 and token i.  The tokens cover the
   input in order without overlap, the gaps are JSON whitespace only, every
   token's byte range is where its bytes are; input is left over only behind an
   Invalid token. *)
Theorem C13_jscan_tiling :
  forall bs, exists gaps tail,
    length gaps = length (jscan bs) /\ Forall WS gaps /\
    bs = cover gaps (jscan bs) ++ tail /\ ranges_ok 0 gaps (jscan bs) /\
    (tail = [] \/ has_invalid (jscan bs)).
Proof. exact jscan_tiling. Qed.
Print Assumptions C13_jscan_tiling.

(* ---- parser: fuel = number of tokens + 1 suffices, no out-of-range index ----------- *)

Theorem C13_jparse_total :
  forall bs, exists v ds, jparse bs = JRes v ds.
Proof. exact jparse_total. Qed.
Print Assumptions C13_jparse_total.

(* ---- literal-only mapping ------------------------------------------------------------ *)

Theorem C13_literal_mapping :
  forall bs v, jparse bs = JRes v [] ->
    exists vref, JsonText bs vref /\ value_of v = value_of vref.
Proof. exact literal_mapping. Qed.
Print Assumptions C13_literal_mapping.

Theorem C13_literal_string_verbatim :
  forall s, value_of (JStr s) = LOk (LString s).
Proof. exact literal_string_verbatim. Qed.
Print Assumptions C13_literal_string_verbatim.

(* 36 123 = dollar brace, 37 123 = percent brace *)
Theorem C13_template_sequences_untouched :
  forall pre post,
    value_of (JStr (pre ++ [36; 123] ++ post)) = LOk (LString (pre ++ [36; 123] ++ post)) /\
    value_of (JStr (pre ++ [37; 123] ++ post)) = LOk (LString (pre ++ [37; 123] ++ post)).
Proof. exact (fun pre post => conj (template_interp_untouched pre post) (template_control_untouched pre post)). Qed.
Print Assumptions C13_template_sequences_untouched.

Theorem C13_literal_number_exact :
  forall m e, value_of (JNum m e) = LOk (LNumber m e).
Proof. exact literal_number_exact. Qed.
Print Assumptions C13_literal_number_exact.

Theorem C13_literal_array_tuple :
  forall vs l, value_of (JArr vs) = LOk (LTuple l) ->
    length l = length vs /\ map value_of vs = map LOk l.
Proof. exact literal_array_tuple. Qed.
Print Assumptions C13_literal_array_tuple.

Theorem C13_literal_object :
  forall ms attrs, value_of (JObj ms) = LOk (LObject attrs) ->
    map fst attrs = map fst ms /\ NoDup (map fst ms) /\
    map (fun kv => value_of (snd kv)) ms = map (fun kv => LOk (snd kv)) attrs.
Proof. exact literal_object. Qed.
Print Assumptions C13_literal_object.

Theorem C13_duplicate_names_error :
  forall ms, has_dup (map fst ms) = true -> value_of (JObj ms) = LError.
Proof. exact duplicate_names_error. Qed.
Print Assumptions C13_duplicate_names_error.

(* Property names are HCL strings: json/structure.go makes a cty string of every name before
   the duplicate check, with or without an evaluation context, and cty strings are equal
   when their NFC normal forms are.  value_of_nf nf is the mapping with names compared
   through nf; the statements hold for EVERY nf (NFC is the instance the code uses; the
   checker is given it per case).  value_of is the instance nf = identity. *)
Theorem C13_value_of_is_identity_normalisation :
  forall j, value_of_nf (fun k => k) j = value_of j.
Proof. exact value_of_nf_id. Qed.
Print Assumptions C13_value_of_is_identity_normalisation.

(* two members anywhere in an object whose names are the same HCL string: an error *)
Theorem C13_equivalent_names_error :
  forall (nf : list Z -> list Z) pre mid post k1 v1 k2 v2, nf k1 = nf k2 ->
    value_of_nf nf (JObj (pre ++ (k1, v1) :: mid ++ (k2, v2) :: post)) = LError.
Proof. exact equivalent_names_error. Qed.
Print Assumptions C13_equivalent_names_error.

(* an object that evaluates keeps one attribute per member (nothing merged or dropped) and
   its names are pairwise different HCL strings *)
Theorem C13_literal_object_names_distinct :
  forall (nf : list Z -> list Z) ms attrs, value_of_nf nf (JObj ms) = LOk (LObject attrs) ->
    map fst attrs = map fst ms /\ NoDup (map nf (map fst ms)) /\ length attrs = length ms /\
    map (fun kv => value_of_nf nf (snd kv)) ms = map (fun kv => LOk (snd kv)) attrs.
Proof. exact literal_object_nf. Qed.
Print Assumptions C13_literal_object_names_distinct.

(* comparing names as HCL strings only adds errors to the byte-wise mapping *)
Theorem C13_normalisation_only_adds_errors :
  forall (nf : list Z -> list Z) j, value_of j = LError -> value_of_nf nf j = LError.
Proof. exact value_of_nf_error_mono. Qed.
Print Assumptions C13_normalisation_only_adds_errors.

Theorem C13_literal_null : value_of JNull = LOk LNullDyn.
Proof. exact literal_null. Qed.
Print Assumptions C13_literal_null.

(* ---- non-vacuity: the hypotheses hold on a non-trivial text ------------------------- *)

(* the text  { a : [1, 2.5e3, x \u00e9 dollar-brace y brace], a : null }  with its quotes *)
Example C13_example :
  let sample : list Z :=
    [123; 34; 97; 34; 58; 91; 49; 44; 50; 46; 53; 101; 51; 44; 34; 120; 92; 117; 48; 48; 101; 57;
     36; 123; 121; 125; 34; 93; 44; 34; 97; 34; 58; 110; 117; 108; 108; 125] in
  let arr := JArr [JNum 1 0; JNum 25 2; JStr [120; 195; 169; 36; 123; 121; 125]] in
  JsonText sample (JObj [([97], arr); ([97], JNull)]) /\
  go_numbers_ok sample = true /\
  jparse sample = JRes (JObj [([97], arr); ([97], JNull)]) [] /\
  value_of (JObj [([97], arr); ([97], JNull)]) = LError /\
  value_of arr = LOk (LTuple [LNumber 1 0; LNumber 25 2; LString [120; 195; 169; 36; 123; 121; 125]]).
Proof.
  cbv zeta. split; [apply json_text_dec_sound; vm_compute; reflexivity|].
  repeat split; vm_compute; reflexivity.
Qed.

(* U+00E9 and U+0065 U+0301 as names of one object: different byte strings, hence no error of
   the byte-wise mapping, but the same HCL string: an error once names are compared through a
   normalisation that identifies them (here: the one mapping the second spelling to the first) *)
Example C13_example_equivalent_names :
  let nf := fun k : list Z => if zlist_eqb k [101; 204; 129] then [195; 169] else k in
  let obj := JObj [([195; 169], JNum 1 0); ([107], JBool true); ([101; 204; 129], JNum 2 0)] in
  value_of obj = LOk (LObject [([195; 169], LNumber 1 0); ([107], LBool true); ([101; 204; 129], LNumber 2 0)]) /\
  value_of_nf nf obj = LError /\
  value_of_nf nf (JArr [obj]) = LError.
Proof. cbv zeta. repeat split; vm_compute; reflexivity. Qed.
