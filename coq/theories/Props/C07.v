(* Props/C07.v — Reported variable references are a complete dependency set.
   Only the property theorems, each closed by [exact], with Print Assumptions.
   Models: Eval/Impl.v (hclsyntax Value methods, hcl.Index/GetAttr, Traversal),
   Eval/Vars.v (hclsyntax.Variables: variablesWalker + every walkChildNodes);
   proofs: Eval/VarsProofs.v.

   Scope of the Coq part: native-syntax expressions and templates (the whole
   expression language of the model: literals, traversals, calls, conditionals, index,
   tuple/object constructors and their keys, for expressions, splat and the anonymous
   symbol, operators, templates, template join, template wrap, parentheses).  JSON
   expressions, hcldec.Variables and the dynblock walkers are covered by the Go-side
   oracle of harness/cmd/c07 only.

   Contexts are chains of frames, innermost first; [lookup_var c x false] is the result
   of Traversal.TraverseAbs' search for the root name x: the value found, or "none"
   together with the flag "some frame had a non-nil Variables map".

   Side condition [forced_keys_nonliteral e]: every ObjectConsKeyExpr with
   ForceNonLiteral set wraps an expression that is not a bare name/keyword.  The parser
   guarantees it (ForceNonLiteral is set iff the key starts with "(", and ExprAsKeyword of
   a ParenthesesExpr is ""); harness/cmd/c07 checks it on every parsed case.  Without it
   the statement is false: C07_coincidence_refuted. *)
From HclV Require Import Base.Prelude Cty.Values Cty.Ops Eval.Impl Eval.Vars Eval.VarsProofs.

(* Two context chains that resolve every function name alike and every REPORTED root name
   alike give the identical value and the identical diagnostics (summary ids and the
   dynamic fragments of their detail texts, in order) — for every fuel, every value of the
   anonymous symbol, every implementation [idx] of hcl.Index.  The model has no "Did you
   mean" suggestion text: Go computes it from all names in scope. *)
Theorem C07_coincidence :
  forall (idx : val -> val -> val * list diag) (fuel : nat) (e : expr) (c c' : ctx) (anon : option val),
    forced_keys_nonliteral e = true ->
    (forall n, lookup_fn c n false = lookup_fn c' n false) ->
    (forall x, In x (var_roots e) -> lookup_var c x false = lookup_var c' x false) ->
    eval_with idx fuel c anon e = eval_with idx fuel c' anon e.
Proof. exact coincidence. Qed.
Print Assumptions C07_coincidence.

Theorem C07_value_coincidence :
  forall e c c',
    forced_keys_nonliteral e = true ->
    (forall n, lookup_fn c n false = lookup_fn c' n false) ->
    (forall x, In x (var_roots e) -> lookup_var c x false = lookup_var c' x false) ->
    value c e = value c' e.
Proof. exact value_coincidence. Qed.
Print Assumptions C07_value_coincidence.

(* the structural sufficient condition for the function tables *)
Theorem C07_same_shape_same_funcs :
  forall c c', Forall2 (fun f f' => ffuncs f = ffuncs f') c c' ->
    forall n, lookup_fn c n false = lookup_fn c' n false.
Proof. exact same_shape_funcs. Qed.
Print Assumptions C07_same_shape_same_funcs.

(* Restricting every frame's Variables map to any superset R of the reported roots (each
   frame KEEPS its map, possibly empty) changes neither value nor diagnostics. *)
Theorem C07_pruned_scope_same :
  forall (idx : val -> val -> val * list diag) fuel e R c anon,
    forced_keys_nonliteral e = true ->
    incl (var_roots e) R ->
    eval_with idx fuel
      (map (fun f => mkFrame (option_map (filter (fun kv => existsb (str_eqb (fst kv)) R)) (fvars f)) (ffuncs f)) c)
      anon e
    = eval_with idx fuel c anon e.
Proof. exact pruned_scope_same. Qed.
Print Assumptions C07_pruned_scope_same.

(* ... but a pruning that turns an emptied map into a nil map is observable
   ("Unknown variable" becomes "Variables not allowed"). *)
Theorem C07_pruned_dropping_maps_refuted :
  exists e c, forced_keys_nonliteral e = true /\
              value (map (prune_frame_dropping (var_roots e)) c) e <> value c e.
Proof. exact pruned_dropping_maps_refuted. Qed.
Print Assumptions C07_pruned_dropping_maps_refuted.

(* Overwriting, in every frame that defines it, a variable whose name is not reported
   never changes the outcome. *)
Theorem C07_unreported_irrelevant :
  forall (idx : val -> val -> val * list diag) fuel e y w c anon,
    forced_keys_nonliteral e = true ->
    ~ In y (var_roots e) ->
    eval_with idx fuel
      (map (fun f => mkFrame (option_map (map (fun kv : list Z * val =>
                                                 if str_eqb (fst kv) y then (fst kv, w) else kv)) (fvars f))
                             (ffuncs f)) c)
      anon e
    = eval_with idx fuel c anon e.
Proof. exact unreported_irrelevant. Qed.
Print Assumptions C07_unreported_irrelevant.

(* the general form: the chains may differ in any way on the lookup of y *)
Theorem C07_unreported_irrelevant_gen :
  forall (idx : val -> val -> val * list diag) fuel e y c c' anon,
    forced_keys_nonliteral e = true ->
    ~ In y (var_roots e) ->
    (forall n, lookup_fn c n false = lookup_fn c' n false) ->
    (forall x, x <> y -> lookup_var c x false = lookup_var c' x false) ->
    eval_with idx fuel c anon e = eval_with idx fuel c' anon e.
Proof. exact unreported_irrelevant_gen. Qed.
Print Assumptions C07_unreported_irrelevant_gen.

(* The walker never reports a name that is in one of its local scopes ... *)
Theorem C07_bound_names_not_reported :
  forall f scopes e x steps,
    In (x, steps) (vars_in f scopes e) -> localized scopes x = false.
Proof. exact bound_names_not_reported. Qed.
Print Assumptions C07_bound_names_not_reported.

(* ... ForExpr puts its non-empty iterator names into a local scope for the key, value and
   condition expressions, and walks the collection expression OUTSIDE that scope ... *)
Theorem C07_for_vars_equation :
  forall f scopes kv vv coll key vl cond group,
    vars_in (S f) scopes (EFor kv vv coll key vl cond group) =
    let names := (if str_eqb kv [] then [] else [kv]) ++ (if str_eqb vv [] then [] else [vv]) in
    vars_in f scopes coll
    ++ match key with Some k => vars_in f (scopes ++ [names]) k | None => [] end
    ++ vars_in f (scopes ++ [names]) vl
    ++ match cond with Some c => vars_in f (scopes ++ [names]) c | None => [] end.
Proof. exact for_vars_equation. Qed.
Print Assumptions C07_for_vars_equation.

(* ... hence, at the level of Expression.Variables(), an iterator name is reported only
   through a free occurrence in the collection expression (for expressions, and the
   template directive %{ for }, which is TemplateJoinExpr over ForExpr). *)
Theorem C07_for_iterator_only_via_collection :
  forall kv vv coll key vl cond group x steps,
    x <> [] -> (x = kv \/ x = vv) ->
    In (x, steps) (variables (EFor kv vv coll key vl cond group)) ->
    In (x, steps) (variables coll).
Proof. exact for_iterator_only_via_collection. Qed.
Print Assumptions C07_for_iterator_only_via_collection.

Theorem C07_template_for_iterator_only_via_collection :
  forall kv vv coll key vl cond group x steps,
    x <> [] -> (x = kv \/ x = vv) ->
    In (x, steps) (variables (EJoin (EFor kv vv coll key vl cond group))) ->
    In (x, steps) (variables coll).
Proof. exact template_for_iterator_only_via_collection. Qed.
Print Assumptions C07_template_for_iterator_only_via_collection.

(* FINDING (hand-built ASTs only): ObjectConsKeyExpr.walkChildNodes decides by literalName()
   alone, ObjectConsKeyExpr.Value by ForceNonLiteral first.  For the object constructor whose
   key node is {Wrapped: x, ForceNonLiteral: true} nothing is reported although x is read. *)
Theorem C07_coincidence_refuted :
  exists e c c', Forall2 (fun f f' => ffuncs f = ffuncs f') c c' /\
                 var_roots e = [] /\ value c e <> value c' e.
Proof. exact coincidence_refuted. Qed.
Print Assumptions C07_coincidence_refuted.

(* Non-vacuity: [for v in l : v + n if v != m] ++ a shadowing use, in two chains that differ
   in an unreported variable z, in the value of the shadowed outer v, and in frame layout. *)
Example C07_example :
  let l := [108] in let n := [110] in let m := [109] in let v := [118] in let z := [122] in
  let e := EFor [] v (EScopeTrav l []) None
                (EBin OpAdd (EScopeTrav v []) (EScopeTrav n []))
                (Some (EBin OpNe (EScopeTrav v []) (EScopeTrav m []))) false in
  let c  := [mkFrame (Some [(l, VTuple [VNum (nz 1); VNum (nz 2)]); (m, VNum (nz 2)); (n, VNum (nz 10));
                            (v, VStr [97]); (z, VBool true)]) (Some [])] in
  let c' := [mkFrame None None;
             mkFrame (Some [(l, VTuple [VNum (nz 1); VNum (nz 2)]); (n, VNum (nz 10))]) None;
             mkFrame (Some [(m, VNum (nz 2)); (v, VNull TStr)]) (Some [])] in
  forced_keys_nonliteral e = true
  /\ var_roots e = [l; n; m]
  /\ (forall x, In x (var_roots e) -> lookup_var c x false = lookup_var c' x false)
  /\ value c e = (VTuple [VNum (nz 11)], [])
  /\ value c' e = value c e.
Proof.
  cbv zeta. split; [reflexivity|]. split; [reflexivity|]. split.
  - intros x Hx. vm_compute in Hx. destruct Hx as [E|[E|[E|[]]]]; subst x; reflexivity.
  - split; vm_compute; reflexivity.
Qed.

(* ---- dynblock: the variables reported by the walkers are a complete dependency set ---------------
   Model: walk_vars in Dyn/Expand.v (WalkVariablesNode.Visit + walkVariablesWithHCLDec; compared with
   the code on every case of C18); proofs: Dyn/ExpandVarsProofs.v. agree_names l c c' = the two contexts
   resolve every name of l alike; body_keys_ok = forced_keys_nonliteral for every expression of the body
   (the side condition of C07_coincidence); no_just S = no level of the schema tree is read with
   JustAttributes (no BlockAttrsSpec). *)
From HclV Require Dyn.Expand Dyn.ExpandVarsProofs.

(* WalkExpandVariables / ExpandVariablesHCLDec: contexts that agree on the reported roots expand alike *)
Theorem C07_dynblock_expand_vars_sufficient :
  forall (S : Dyn.Expand.sch) (b : Dyn.Expand.dbody) (c1 c2 rho : ctx),
    ExpandVarsProofs.body_keys_ok b = true -> same_funcs c1 c2 ->
    ExpandVarsProofs.agree_names (Dyn.Expand.walk_vars false S None b) c1 c2 ->
    Dyn.Expand.observe_x S rho (Dyn.Expand.Expand b c1) = Dyn.Expand.observe_x S rho (Dyn.Expand.Expand b c2).
Proof. exact ExpandVarsProofs.expand_vars_sufficient. Qed.
Print Assumptions C07_dynblock_expand_vars_sufficient.

(* WalkVariables / VariablesHCLDec: ... and decode alike, when no level is read with JustAttributes *)
Theorem C07_dynblock_all_vars_sufficient_partial :
  forall (S : Dyn.Expand.sch) (b : Dyn.Expand.dbody) (c1 c2 rho1 rho2 : ctx),
    ExpandVarsProofs.no_just S = true -> ExpandVarsProofs.body_keys_ok b = true ->
    same_funcs c1 c2 -> same_funcs rho1 rho2 ->
    ExpandVarsProofs.agree_names (Dyn.Expand.walk_vars false S None b) c1 c2 ->
    ExpandVarsProofs.agree_names (Dyn.Expand.walk_vars true S None b) rho1 rho2 ->
    Dyn.Expand.observe_x S rho1 (Dyn.Expand.Expand b c1) = Dyn.Expand.observe_x S rho2 (Dyn.Expand.Expand b c2).
Proof. exact ExpandVarsProofs.all_vars_sufficient_partial. Qed.
Print Assumptions C07_dynblock_all_vars_sufficient_partial.

(* the pruned scope of the property text *)
Theorem C07_dynblock_pruned_scope_same :
  forall (S : Dyn.Expand.sch) (b : Dyn.Expand.dbody) (c : ctx),
    ExpandVarsProofs.no_just S = true -> ExpandVarsProofs.body_keys_ok b = true ->
    let c' := prune (Dyn.Expand.walk_vars true S None b) c in
    Dyn.Expand.observe_x S c' (Dyn.Expand.Expand b c') = Dyn.Expand.observe_x S c (Dyn.Expand.Expand b c).
Proof. exact ExpandVarsProofs.all_pruned_context. Qed.
Print Assumptions C07_dynblock_pruned_scope_same.

(* without no_just the statement is false: the known finding C07-blockattrs-variables, `a { u = foo }`
   under BlockAttrsSpec a *)
Theorem C07_dynblock_all_vars_sufficient_refuted : ~ ExpandVarsProofs.all_vars_sufficient.
Proof. exact ExpandVarsProofs.all_vars_sufficient_false. Qed.
Print Assumptions C07_dynblock_all_vars_sufficient_refuted.
