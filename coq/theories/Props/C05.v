(* Props/C05.v — Evaluation with unknown values soundly approximates every concrete evaluation.
   Only the property theorems, each closed by [exact], with Print Assumptions.
   Model: Eval/Impl.v (hclsyntax/expression*.go, ops.go), Cty/*.v (go-cty, modelled not verified).
   Proofs: Eval/UnknownSound_*.v (Fn: function contract; Frag: fragment, clean, related contexts; Inv, Core,
   Call, Join, Splat, For: one lemma per construct), Eval/UnknownSound.v. *)
From Coq Require Import QArith.
From HclV Require Import Base.Prelude Cty.Values Cty.Convert Cty.Ops Eval.Impl Eval.Funcs
                         Eval.UnknownSound_Base Eval.UnknownSound_Known Eval.UnknownSound_Gamma
                         Eval.UnknownSound_Ops Eval.UnknownSound_Eq Eval.UnknownSound_Fn Eval.UnknownSound_Frag
                         Eval.UnknownSound.
Open Scope Z_scope.

(* ---- converse part: no unknown out of nothing (WHOLE language) ------------------------------------------
   If every variable of every frame (and the anonymous symbol, when bound) is wholly known and
   mark-normal ([good] = [wholly_known] && [mwf]), the functions of the context map such
   arguments to such results ([fn_known]), the literals of the expression are wholly known
   ([expr_ok]), and the evaluation raises no error and stays inside the model, then the
   result is wholly known. *)
Theorem C05_known_in_known_out :
  forall fuel c anon e v ds,
    ctx_good c -> anon_good anon -> expr_ok (is_some anon) e = true ->
    eval fuel c anon e = (v, ds) -> has_errors ds = false -> has_unsupported ds = false ->
    wholly_known v = true.
Proof. exact known_in_known_out. Qed.
Print Assumptions C05_known_in_known_out.

(* hcl.Expression.Value (no anonymous symbol bound) *)
Theorem C05_value_known_in_known_out :
  forall c e v ds,
    ctx_good c -> expr_ok false e = true ->
    value c e = (v, ds) -> has_errors ds = false -> has_unsupported ds = false -> wholly_known v = true.
Proof. exact value_known_in_known_out. Qed.
Print Assumptions C05_value_known_in_known_out.

(* the six functions of the harness satisfy the contract *)
Theorem C05_harness_functions_known :
  fn_known fn_upper /\ fn_known fn_sum /\ fn_known fn_first /\ fn_known fn_fail /\
  fn_known fn_isnull /\ fn_known fn_pair.
Proof.
  exact (conj fn_upper_known (conj fn_sum_known (conj fn_first_known (conj fn_fail_known
        (conj fn_isnull_known fn_pair_known))))).
Qed.
Print Assumptions C05_harness_functions_known.

(* what the hypotheses exclude: an unbound anonymous symbol; a function parameter of dynamic
   type that allows null but not dynamically typed arguments *)
Theorem C05_anon_unbound_unknown : value [] EAnon = (dyn_val, []).
Proof. exact anon_unbound_unknown. Qed.
Theorem C05_fn_null_dyn_refuted :
  value [mkFrame (Some []) (Some [([102], fn_null_nodyn)])] (ECall [102] [ELit (VNull TDyn)] false)
  = (dyn_val, []).
Proof. exact fn_null_dyn_refuted. Qed.

(* ---- the contract for functions, and function.Call under it ---------------------------------------------------
   [fn_ok f] (Eval/UnknownSound_Fn.v): [fn_known f] (the contract of the converse part); parameters
   declared with a primitive type or cty.DynamicPseudoType; the implementation preserves the side
   invariant, returns a value of the declared return type ([fo_type]), the declared return type of
   the concrete arguments conforms to the one of the abstract arguments ([fo_rt]), and the
   implementation is monotone for [gsb] on the argument lists for which go-cty RUNS it ([fo_impl]).
   go-cty runs it only when no argument of dynamic type meets a parameter without AllowDynamicType
   (otherwise the call returns DynamicVal) and no unknown argument meets a parameter without
   AllowUnknown (otherwise the call returns UnknownVal(declared return type)); so [fo_impl] speaks
   about unknown arguments only for AllowUnknown parameters, and the two short-cuts are proved sound
   from [fn_known], [fo_type] and [fo_rt] alone.
   [arg_ok]: the concrete arguments are wholly known, and one of dynamic type (a null) is passed
   only to a parameter declared dynamic (cf. C05_fn_null_dyn_refuted above). *)
Theorem C05_fn_contract_mono :
  forall f, fn_ok f ->
  forall argsA argsC vA vC,
    Forall (fun a => inv a = true) argsA -> Forall (fun a => inv a = true) argsC ->
    Forall2 (fun a c => gsb a c = true) argsA argsC ->
    Forall2 (arg_ok f) (seq 0 (length argsC)) argsC ->
    fn_call f argsA = CallOk vA -> fn_call f argsC = CallOk vC -> gsb vA vC = true.
Proof. exact fn_contract_mono. Qed.
Print Assumptions C05_fn_contract_mono.

(* the six functions of the harness satisfy it *)
Theorem C05_harness_functions_ok :
  fn_ok fn_upper /\ fn_ok fn_sum /\ fn_ok fn_first /\ fn_ok fn_fail /\ fn_ok fn_isnull /\ fn_ok fn_pair.
Proof. exact (conj fn_upper_ok (conj fn_sum_ok (conj fn_first_ok (conj fn_fail_ok (conj fn_isnull_ok fn_pair_ok))))). Qed.
Print Assumptions C05_harness_functions_ok.

(* ---- soundness for the whole expression language, on clean evaluations -----------------------------------------
   [in_fragment]: every constructor of [expr] — literals, scope and relative traversals, index,
   tuple and object constructors, object keys, the anonymous symbol (bound), unary and binary
   operators (the short-circuit table of && and ||, arithmetic, comparison, == and !=),
   conditional, templates and template joins, parentheses/template wrap, function calls (with and
   without expansion of the last argument), splat (known and unknown sources, length refinements,
   auto-upgrade of non-sequences incl. the possibly-null unknown), for expressions (tuple and
   object form, condition, key, grouping; unknown collection, condition, key).  The only syntactic
   restrictions: literals are wholly known, unmarked, canonical ([lit_ok]); traversal steps carry
   such keys ([step_inv]).
   [ctx_rel cA cC]: same frames and names, same function tables, every function satisfies
   [fn_ok]; every abstract variable is concretised by the concrete one ([gsb]); all values
   unmarked, well typed, numbers canonical.
   [clean]: the evaluation and every sub-evaluation it performs is free of errors and of
   S_Unsupported (diagnostics that Go discards are not allowed either); at every conditional
   both results are a literal null or have a type without dynamic part; at a splat over a list
   or set the source is not empty and the per-element result type has no dynamic part (see
   C05_splat_list_dyn_elem_strict_refuted); the tuple of a template join is not null.
   Conclusion: strict concretisation (known parts equal, type tags included; an unknown is
   concretised by a wholly known value of conforming type satisfying every refinement). *)
Theorem C05_unknown_sound_partial :
  forall fuel e cA cC anA anC,
    in_fragment e -> ctx_rel cA cC -> anon_rel anA anC ->
    clean fuel cA anA e = true -> clean fuel cC anC e = true ->
    gamma_strict (fst (eval fuel cA anA e)) (fst (eval fuel cC anC e)).
Proof. exact unknown_sound_partial. Qed.
Print Assumptions C05_unknown_sound_partial.

Theorem C05_unknown_sound_partial_gamma :
  forall fuel e cA cC anA anC,
    in_fragment e -> ctx_rel cA cC -> anon_rel anA anC ->
    clean fuel cA anA e = true -> clean fuel cC anC e = true ->
    gamma (fst (eval fuel cA anA e)) (fst (eval fuel cC anC e)).
Proof. exact unknown_sound_partial_gamma. Qed.
Print Assumptions C05_unknown_sound_partial_gamma.

(* without conditional and without && / || every diagnostic reaches the result: the plain form *)
Theorem C05_unknown_sound_accum :
  forall fuel e cA cC vA dA vC dC,
    in_fragment_acc e -> ctx_rel cA cC ->
    eval fuel cA None e = (vA, dA) -> eval fuel cC None e = (vC, dC) ->
    has_errors dA = false -> has_unsupported dA = false ->
    has_errors dC = false -> has_unsupported dC = false ->
    gamma_strict vA vC.
Proof. exact unknown_sound_accum. Qed.
Print Assumptions C05_unknown_sound_accum.

(* ---- the full statement is FALSE for the faithful model (and for the Go code) ------------------------------ *)
Theorem C05_unknown_sound_refuted : ~ unknown_sound_stmt.
Proof. exact unknown_sound_stmt_refuted. Qed.
Print Assumptions C05_unknown_sound_refuted.

(* (false ? x : 1) == 1 : true with x unknown(dynamic), false with x = "a" *)
Theorem C05_cond_dyn_arm_eq_refuted :
  value w1_ctxA w1_expr_eq = (VBool true, []) /\ value w1_ctxC w1_expr_eq = (VBool false, []) /\
  gammab (VBool true) (VBool false) = false.
Proof. exact cond_dyn_arm_eq_refuted. Qed.
(* (true ? 1 : m[x]) == "1" : true with x unknown(string), false with x = "z" (missing key) *)
Theorem C05_cond_unselected_arm_eq_refuted :
  value w2_ctxA w2_expr_eq = (VBool true, []) /\ value w2_ctxC w2_expr_eq = (VBool false, []) /\
  gammab (VBool true) (VBool false) = false.
Proof. exact cond_unselected_arm_eq_refuted. Qed.
Print Assumptions C05_cond_unselected_arm_eq_refuted.

(* why [clean] restricts splat over lists/sets: the strict relation fails on the list's element type tag
   (list(dynamic) abstractly, list(number) concretely); the relation with conversion holds.
     x = [] : list(list(number)):  x[*][y]  with y unknown(dynamic) / 0
     x = [[1]]                  :  x[*][y]  with y unknown(dynamic) / 0 *)
Theorem C05_splat_list_dyn_elem_strict_refuted :
  value (w3_ctx w3_empty dyn_val) w3_expr = (VList TDyn [], []) /\
  value (w3_ctx w3_empty (VNum (nz 0))) w3_expr = (VList TNum [], []) /\
  gsb (VList TDyn []) (VList TNum []) = false /\ gammab (VList TDyn []) (VList TNum []) = true /\
  value (w3_ctx w3_one dyn_val) w3_expr = (VList TDyn [dyn_val], []) /\
  value (w3_ctx w3_one (VNum (nz 0))) w3_expr = (VList TNum [VNum (nz 1)], []) /\
  gsb (VList TDyn [dyn_val]) (VList TNum [VNum (nz 1)]) = false /\
  gammab (VList TDyn [dyn_val]) (VList TNum [VNum (nz 1)]) = true.
Proof. exact splat_list_dyn_elem_strict_refuted. Qed.
Print Assumptions C05_splat_list_dyn_elem_strict_refuted.
(* model gap (Go panics; not reachable from HCL text): template join over a null tuple of dynamic type *)
Theorem C05_join_null_tuple_model_gap :
  value [mkFrame (Some [(w_x, VNull TDyn)]) None] w5_expr = (VUnk TStr rf_none, []) /\
  clean 3 [mkFrame (Some [(w_x, VNull TDyn)]) None] None w5_expr = false.
Proof. exact join_null_tuple_model_gap. Qed.
Print Assumptions C05_join_null_tuple_model_gap.

(* ---- non-vacuity ------------------------------------------------------------------------------------------------
   u : unknown bool / true,  s : unknown string / "ab",  n : unknown number in [2,3] not null / 3
   [ u ? 1 : 5,  "x-${s}",  u && false,  u ? n : 7,  -n ]  *)
Definition ex_u : list Z := [117].
Definition ex_s : list Z := [115].
Definition ex_n : list Z := [110].
Definition ex_ctxA : ctx :=
  [mkFrame (Some [(ex_n, VUnk TNum (RExact (mkRefn true [] (Some (nz 2, true)) (Some (nz 3, true)) 0 None)));
                  (ex_s, VUnk TStr rf_none); (ex_u, VUnk TBool rf_none)]) None].
Definition ex_ctxC : ctx :=
  [mkFrame (Some [(ex_n, VNum (nz 3)); (ex_s, VStr [97; 98]); (ex_u, VBool true)]) None].
Definition ex_expr : expr :=
  ETuple [ ECond (EScopeTrav ex_u []) (ELit (VNum (nz 1))) (ELit (VNum (nz 5)));
           ETmpl [ELit (VStr [120; 45]); EScopeTrav ex_s []];
           EBin OpAnd (EScopeTrav ex_u []) (ELit (VBool false));
           ECond (EScopeTrav ex_u []) (EScopeTrav ex_n []) (ELit (VNum (nz 7)));
           EUn OpNeg (EScopeTrav ex_n []) ].

Example C05_example_hypotheses :
  in_fragment ex_expr /\ ctx_rel ex_ctxA ex_ctxC /\
  clean 4 ex_ctxA None ex_expr = true /\ clean 4 ex_ctxC None ex_expr = true.
Proof.
  split; [repeat constructor|]. split.
  - apply CR_cons; [|apply CR_nil]. split; [|split; [reflexivity|intros fs E; discriminate]]. simpl.
    repeat constructor; vm_compute; reflexivity.
  - split; vm_compute; reflexivity.
Qed.

Example C05_example_values :
  fst (eval 4 ex_ctxA None ex_expr) =
    VTuple [ VUnk TNum (RExact (mkRefn true [] (Some (nz 1, true)) (Some (nz 5, true)) 0 None));
             VUnk TStr (RExact (mkRefn true [120; 45] None None 0 None));
             VBool false;
             VUnk TNum (RExact (mkRefn true [] (Some (nz 2, true)) (Some (nz 7, true)) 0 None));
             VUnk TNum rf_notnull ] /\
  fst (eval 4 ex_ctxC None ex_expr) =
    VTuple [ VNum (nz 1); VStr [120; 45; 97; 98]; VBool false; VNum (nz 3); VNum (nq (-3)) ].
Proof. split; vm_compute; reflexivity. Qed.

Example C05_example_conclusion :
  gamma_strict (fst (eval 4 ex_ctxA None ex_expr)) (fst (eval 4 ex_ctxC None ex_expr)).
Proof.
  destruct C05_example_hypotheses as [F [R [KA KC]]].
  exact (C05_unknown_sound_partial 4 ex_expr ex_ctxA ex_ctxC None None F R I KA KC).
Qed.

(* calls, splat, for, template join:  l : [unknown number, 2] / [1, 2],  s : unknown string / "ab"
   [ upper(s),  sum(l...),  l[*] + 1 (splat),  [for v in l : v + 1 if v > 1],
     {for k, v in l : "k${k}" => v...},  "${join of [for v in l : v]}" ]  *)
Definition ex2_l : list Z := [108].
Definition ex2_v : list Z := [118].
Definition ex2_k : list Z := [107].
Definition ex2_funcs := Some harness_funcs.
Definition ex2_ctxA : ctx :=
  [mkFrame (Some [(ex2_l, VList TNum [VUnk TNum rf_none; VNum (nz 2)]); (ex_s, VUnk TStr rf_none)]) ex2_funcs].
Definition ex2_ctxC : ctx :=
  [mkFrame (Some [(ex2_l, VList TNum [VNum (nz 1); VNum (nz 2)]); (ex_s, VStr [97; 98])]) ex2_funcs].
Definition ex2_L := EScopeTrav ex2_l [].
Definition ex2_V := EScopeTrav ex2_v [].
Definition ex2_one := ELit (VNum (nz 1)).
Definition ex2_expr : expr :=
  ETuple [ ECall [117; 112; 112; 101; 114] [EScopeTrav ex_s []] false;
           ECall [115; 117; 109] [ex2_L] true;
           ESplat ex2_L (EBin OpAdd EAnon ex2_one);
           EFor [] ex2_v ex2_L None (EBin OpAdd ex2_V ex2_one) (Some (EBin OpGt ex2_V ex2_one)) false;
           EFor ex2_k ex2_v ex2_L (Some (ETmpl [ELit (VStr [107]); EScopeTrav ex2_k []])) ex2_V None true;
           EJoin (EFor [] ex2_v ex2_L None ex2_V None false) ].

Example C05_example2_hypotheses :
  in_fragment ex2_expr /\ ctx_rel ex2_ctxA ex2_ctxC /\
  clean 6 ex2_ctxA None ex2_expr = true /\ clean 6 ex2_ctxC None ex2_expr = true.
Proof.
  split.
  { apply F_tuple. repeat (apply Forall_cons || apply Forall_nil).
    - apply F_call. repeat constructor.
    - apply F_call. repeat constructor.
    - apply F_splat; repeat constructor.
    - apply F_for; [repeat constructor|intros k E; discriminate E|repeat constructor|].
      intros ce E. injection E as <-. repeat constructor.
    - apply F_for; [repeat constructor| |repeat constructor|intros ce E; discriminate E].
      intros k E. injection E as <-. repeat constructor.
    - apply F_join. apply F_for; [repeat constructor|intros k E; discriminate E|repeat constructor|intros ce E; discriminate E]. }
  split.
  - apply CR_cons; [|apply CR_nil]. split; [|split; [reflexivity|]].
    + simpl. repeat constructor; vm_compute; reflexivity.
    + intros fs E. injection E as <-. exact harness_funcs_ok.
  - split; vm_compute; reflexivity.
Qed.

Example C05_example2_values :
  fst (eval 6 ex2_ctxA None ex2_expr) =
    VTuple [ VUnk TStr rf_none;
             VUnk TNum rf_none;
             VList TNum [VUnk TNum rf_notnull; VNum (nz 3)];
             dyn_val;
             VObj [([107; 48], VTuple [VUnk TNum rf_none]); ([107; 49], VTuple [VNum (nz 2)])];
             VUnk TStr rf_none ] /\
  fst (eval 6 ex2_ctxC None ex2_expr) =
    VTuple [ VStr [65; 66]; VNum (nz 3); VList TNum [VNum (nz 2); VNum (nz 3)];
             VTuple [VNum (nz 3)];
             VObj [([107; 48], VTuple [VNum (nz 1)]); ([107; 49], VTuple [VNum (nz 2)])];
             VStr [49; 50] ].
Proof. split; vm_compute; reflexivity. Qed.

Example C05_example2_conclusion :
  gamma_strict (fst (eval 6 ex2_ctxA None ex2_expr)) (fst (eval 6 ex2_ctxC None ex2_expr)).
Proof.
  destruct C05_example2_hypotheses as [F [R [KA KC]]].
  exact (C05_unknown_sound_partial 6 ex2_expr ex2_ctxA ex2_ctxC None None F R I KA KC).
Qed.
