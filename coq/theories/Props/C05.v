(* Props/C05.v — Evaluation with unknown values soundly approximates every concrete evaluation.
   Only the property theorems, each closed by [exact], with Print Assumptions.
   Model: Eval/Impl.v (hclsyntax/expression*.go, ops.go), Cty/*.v (go-cty, modelled not verified).
   Proofs: Eval/UnknownSound_*.v, Eval/UnknownSound.v. *)
From Coq Require Import QArith.
From HclV Require Import Base.Prelude Cty.Values Cty.Convert Cty.Ops Eval.Impl Eval.Funcs
                         Eval.UnknownSound_Base Eval.UnknownSound_Known Eval.UnknownSound_Gamma
                         Eval.UnknownSound_Ops Eval.UnknownSound_Eq Eval.UnknownSound.
Open Scope Z_scope.

(* ---- converse part: no unknown out of nothing (WHOLE language) ------------------------------------------
   If every variable of every frame (and the anonymous symbol, when bound) is wholly known and
   mark-normal ([good] = [wholly_known] && [mwf]), the functions of the context map such
   arguments to such results ([fn_known]), the literals of the expression are wholly known
   ([expr_ok]), and the evaluation raises no error and stays inside the model, then the
   result is wholly known. *)
Theorem C05_known_in_known_out :
  forall fuel c anon e v ds,
    ctx_good c -> anon_good anon -> expr_ok (is_some anon) e = true ->
    eval fuel c anon e = (v, ds) -> has_errors ds = false -> has_unsupported ds = false ->
    wholly_known v = true.
Proof. exact known_in_known_out. Qed.
Print Assumptions C05_known_in_known_out.

(* hcl.Expression.Value (no anonymous symbol bound) *)
Theorem C05_value_known_in_known_out :
  forall c e v ds,
    ctx_good c -> expr_ok false e = true ->
    value c e = (v, ds) -> has_errors ds = false -> has_unsupported ds = false -> wholly_known v = true.
Proof. exact value_known_in_known_out. Qed.
Print Assumptions C05_value_known_in_known_out.

(* the six functions of the harness satisfy the contract *)
Theorem C05_harness_functions_known :
  fn_known fn_upper /\ fn_known fn_sum /\ fn_known fn_first /\ fn_known fn_fail /\
  fn_known fn_isnull /\ fn_known fn_pair.
Proof.
  exact (conj fn_upper_known (conj fn_sum_known (conj fn_first_known (conj fn_fail_known
        (conj fn_isnull_known fn_pair_known))))).
Qed.
Print Assumptions C05_harness_functions_known.

(* what the hypotheses exclude: an unbound anonymous symbol; a function parameter of dynamic
   type that allows null but not dynamically typed arguments *)
Theorem C05_anon_unbound_unknown : value [] EAnon = (dyn_val, []).
Proof. exact anon_unbound_unknown. Qed.
Theorem C05_fn_null_dyn_refuted :
  value [mkFrame (Some []) (Some [([102], fn_null_nodyn)])] (ECall [102] [ELit (VNull TDyn)] false)
  = (dyn_val, []).
Proof. exact fn_null_dyn_refuted. Qed.

(* ---- soundness for the expression core ---------------------------------------------------------------------
   [in_fragment]: literals, scope and relative traversals, index, tuple and object constructors,
   object keys, the anonymous symbol (bound), unary operators, all binary operators (the
   short-circuit table of && and ||, arithmetic, comparison, == and !=), conditional, templates,
   parentheses/template wrap.
   [ctx_rel cA cC]: same frames and names, same function tables; every abstract variable is
   concretised by the concrete one ([gsb]); all values unmarked, well typed, numbers canonical.
   [clean]: the evaluation and every sub-evaluation it performs is free of errors and of
   S_Unsupported (diagnostics that Go discards are not allowed either), and at every
   conditional both results are a literal null or have a type without dynamic part.
   Conclusion: strict concretisation (known parts equal, type tags included; an unknown is
   concretised by a wholly known value of conforming type satisfying every refinement). *)
Theorem C05_unknown_sound_partial :
  forall fuel e cA cC anA anC,
    in_fragment e -> ctx_rel cA cC -> anon_rel anA anC ->
    clean fuel cA anA e = true -> clean fuel cC anC e = true ->
    gamma_strict (fst (eval fuel cA anA e)) (fst (eval fuel cC anC e)).
Proof. exact unknown_sound_partial. Qed.
Print Assumptions C05_unknown_sound_partial.

Theorem C05_unknown_sound_partial_gamma :
  forall fuel e cA cC anA anC,
    in_fragment e -> ctx_rel cA cC -> anon_rel anA anC ->
    clean fuel cA anA e = true -> clean fuel cC anC e = true ->
    gamma (fst (eval fuel cA anA e)) (fst (eval fuel cC anC e)).
Proof. exact unknown_sound_partial_gamma. Qed.
Print Assumptions C05_unknown_sound_partial_gamma.

(* without conditional and without && / || every diagnostic reaches the result: the plain form *)
Theorem C05_unknown_sound_accum :
  forall fuel e cA cC vA dA vC dC,
    in_fragment_acc e -> ctx_rel cA cC ->
    eval fuel cA None e = (vA, dA) -> eval fuel cC None e = (vC, dC) ->
    has_errors dA = false -> has_unsupported dA = false ->
    has_errors dC = false -> has_unsupported dC = false ->
    gamma_strict vA vC.
Proof. exact unknown_sound_accum. Qed.
Print Assumptions C05_unknown_sound_accum.

(* ---- the full statement is FALSE for the faithful model (and for the Go code) ------------------------------ *)
Theorem C05_unknown_sound_refuted : ~ unknown_sound_stmt.
Proof. exact unknown_sound_stmt_refuted. Qed.
Print Assumptions C05_unknown_sound_refuted.

(* (false ? x : 1) == 1 : true with x unknown(dynamic), false with x = "a" *)
Theorem C05_cond_dyn_arm_eq_refuted :
  value w1_ctxA w1_expr_eq = (VBool true, []) /\ value w1_ctxC w1_expr_eq = (VBool false, []) /\
  gammab (VBool true) (VBool false) = false.
Proof. exact cond_dyn_arm_eq_refuted. Qed.
(* (true ? 1 : m[x]) == "1" : true with x unknown(string), false with x = "z" (missing key) *)
Theorem C05_cond_unselected_arm_eq_refuted :
  value w2_ctxA w2_expr_eq = (VBool true, []) /\ value w2_ctxC w2_expr_eq = (VBool false, []) /\
  gammab (VBool true) (VBool false) = false.
Proof. exact cond_unselected_arm_eq_refuted. Qed.
Print Assumptions C05_cond_unselected_arm_eq_refuted.

(* ---- non-vacuity ------------------------------------------------------------------------------------------------
   u : unknown bool / true,  s : unknown string / "ab",  n : unknown number in [2,3] not null / 3
   [ u ? 1 : 5,  "x-${s}",  u && false,  u ? n : 7,  -n ]  *)
Definition ex_u : list Z := [117].
Definition ex_s : list Z := [115].
Definition ex_n : list Z := [110].
Definition ex_ctxA : ctx :=
  [mkFrame (Some [(ex_n, VUnk TNum (RExact (mkRefn true [] (Some (nz 2, true)) (Some (nz 3, true)) 0 None)));
                  (ex_s, VUnk TStr rf_none); (ex_u, VUnk TBool rf_none)]) None].
Definition ex_ctxC : ctx :=
  [mkFrame (Some [(ex_n, VNum (nz 3)); (ex_s, VStr [97; 98]); (ex_u, VBool true)]) None].
Definition ex_expr : expr :=
  ETuple [ ECond (EScopeTrav ex_u []) (ELit (VNum (nz 1))) (ELit (VNum (nz 5)));
           ETmpl [ELit (VStr [120; 45]); EScopeTrav ex_s []];
           EBin OpAnd (EScopeTrav ex_u []) (ELit (VBool false));
           ECond (EScopeTrav ex_u []) (EScopeTrav ex_n []) (ELit (VNum (nz 7)));
           EUn OpNeg (EScopeTrav ex_n []) ].

Example C05_example_hypotheses :
  in_fragment ex_expr /\ ctx_rel ex_ctxA ex_ctxC /\
  clean 4 ex_ctxA None ex_expr = true /\ clean 4 ex_ctxC None ex_expr = true.
Proof.
  split; [repeat constructor|]. split.
  - constructor; [|constructor]. split; [|reflexivity]. simpl.
    repeat constructor; vm_compute; reflexivity.
  - split; vm_compute; reflexivity.
Qed.

Example C05_example_values :
  fst (eval 4 ex_ctxA None ex_expr) =
    VTuple [ VUnk TNum (RExact (mkRefn true [] (Some (nz 1, true)) (Some (nz 5, true)) 0 None));
             VUnk TStr (RExact (mkRefn true [120; 45] None None 0 None));
             VBool false;
             VUnk TNum (RExact (mkRefn true [] (Some (nz 2, true)) (Some (nz 7, true)) 0 None));
             VUnk TNum rf_notnull ] /\
  fst (eval 4 ex_ctxC None ex_expr) =
    VTuple [ VNum (nz 1); VStr [120; 45; 97; 98]; VBool false; VNum (nz 3); VNum (nq (-3)) ].
Proof. split; vm_compute; reflexivity. Qed.

Example C05_example_conclusion :
  gamma_strict (fst (eval 4 ex_ctxA None ex_expr)) (fst (eval 4 ex_ctxC None ex_expr)).
Proof.
  destruct C05_example_hypotheses as [F [R [KA KC]]].
  exact (C05_unknown_sound_partial 4 ex_expr ex_ctxA ex_ctxC None None F R I KA KC).
Qed.
