(* Props/C09.v — Formatting changes only inter-token spacing and is idempotent.
   Only the property theorems, each closed by [exact], with Print Assumptions.
   Model: Write/Format.v (hclwrite/format.go); proofs: Write/FormatProofs.v. *)
From HclV Require Import Base.Prelude Write.Format Write.FormatProofs.

(* For EVERY token sequence (valid configuration or not), formatting changes
   nothing but SpacesBefore: types, bytes (comments, string and heredoc
   content) and grapheme counts of all tokens are preserved, in order. *)
Theorem C09_format_only_spaces :
  forall ts, map skel (format ts) = map skel ts.
Proof. exact format_only_spaces. Qed.
Print Assumptions C09_format_only_spaces.

Theorem C09_format_preserves_token_count :
  forall ts, length (format ts) = length ts.
Proof. exact format_length. Qed.
Print Assumptions C09_format_preserves_token_count.

(* Formatting the output again returns it unchanged (token level, all inputs). *)
Theorem C09_format_idempotent :
  forall ts, format (format ts) = format ts.
Proof. exact format_idempotent. Qed.
Print Assumptions C09_format_idempotent.

(* The result depends only on the token skeletons (and on the final EOF token,
   which is passed through): the input layout is irrelevant to the output. *)
Theorem C09_format_layout_independent :
  forall ts1 ts2, map skel ts1 = map skel ts2 ->
    snd (split_lines ts1 []) = snd (split_lines ts2 []) -> format ts1 = format ts2.
Proof. exact format_skel_determined. Qed.
Print Assumptions C09_format_layout_independent.

(* Non-vacuity / sanity: a concrete instance, "a   =     1\nbb=-1\n". *)
Example C09_example :
  map sp (format [ mkTok 73 [97] 1 3; mkTok 61 [61] 1 0; mkTok 78 [49] 1 5; mkTok 10 [10] 1 2;
                   mkTok 73 [98;98] 2 0; mkTok 61 [61] 1 0; mkTok 45 [45] 1 0; mkTok 78 [49] 1 1;
                   mkTok 10 [10] 1 0; mkTok 9220 [] 0 0 ])
  = [0; 2; 1; 0; 0; 1; 1; 0; 0; 0].
Proof. vm_compute. reflexivity. Qed.

(* ---- byte level: the written bytes lex back to the formatted tokens ----------------------------
   Model of the scanner: Lex/HclLex.v (C14); composition and proofs: Write/FormatBytes*.v. *)
From HclV Require Import Base.Prelude Gen.TokenTypes Lex.Scanner Lex.HclLex Write.Format Write.FormatProofs
  Write.FormatBytes Write.FormatBytesProofs.

(* Byte level, sources made of main-scanner tokens (identifiers, numbers, operators and
   punctuation, brackets and braces, newlines, comments; no quoted or heredoc templates)
   that contain none of the hazard patterns of FormatBytes.hazard_free ("! =", two adjacent
   dot tokens, "${" followed directly by its closer; and "<number> . e"): for every
   grapheme-count oracle g, scanning the bytes written for the formatted tokens gives back
   exactly the formatted writer tokens — same types, same bytes, same SpacesBefore. *)
Theorem C09_bytes_relex_exact_simple :
  forall (g : list Z -> Z) (data : list Z) (ks : list rtok),
    lex_main data = Some ks -> simple ks = true -> hazard_free ks = true ->
    exists ks', lex_main (write (format (writer_tokens g 0 ks))) = Some ks' /\
                writer_tokens g 0 ks' = format (writer_tokens g 0 ks).
Proof. exact relex_exact_simple. Qed.
Print Assumptions C09_bytes_relex_exact_simple.

(* ... in particular the output has the same token sequence (types and bytes) as the input *)
Theorem C09_bytes_same_tokens_simple :
  forall g data ks,
    lex_main data = Some ks -> simple ks = true -> hazard_free ks = true ->
    exists ks', lex_main (write (format (writer_tokens g 0 ks))) = Some ks' /\
                map rtyb ks' = map rtyb ks.
Proof. exact relex_stable_simple. Qed.
Print Assumptions C09_bytes_same_tokens_simple.

(* ... and Format(Format(src)) = Format(src) on bytes *)
Theorem C09_bytes_idempotent_simple :
  forall g data ks out,
    lex_main data = Some ks -> simple ks = true -> hazard_free ks = true ->
    format_bytes g data = Some out -> format_bytes g out = Some out.
Proof. exact bytes_idempotent_simple. Qed.
Print Assumptions C09_bytes_idempotent_simple.

(* For ANY source of main-scanner tokens (hazard patterns included): a local check of
   the first bytes after every token of the formatted list — no scanner run — suffices. *)
Theorem C09_bytes_relex_exact_of_layout :
  forall g data ks,
    lex_main data = Some ks -> simple ks = true ->
    layout_okb (format (writer_tokens g 0 ks)) = true ->
    exists ks', lex_main (write (format (writer_tokens g 0 ks))) = Some ks' /\
                writer_tokens g 0 ks' = format (writer_tokens g 0 ks).
Proof. exact relex_exact_main. Qed.
Print Assumptions C09_bytes_relex_exact_of_layout.

(* The hazard conditions are necessary: without them the statement is false
   ("x = ! = 1\n", "x = a. . .b\n", "x = \"${ ~}\"\n"; none of them parses). *)
Theorem C09_bytes_relex_stable_refuted : exists data, ~ relex_stable_at glen data.
Proof. exact relex_stable_refuted. Qed.
Print Assumptions C09_bytes_relex_stable_refuted.

(* Non-vacuity: "x = a.0.e5 - -1 # c\ny=[1 ,2]\n" satisfies the hypotheses. *)
Example C09_bytes_example :
  let data := [120;32;61;32;97;46;48;46;101;53;32;45;32;45;49;32;35;32;99;10;121;61;91;49;32;44;50;93;10] in
  exists ks, lex_main data = Some ks /\ simple ks = true /\ hazard_free ks = true /\
             format_bytes glen data
             = Some [120;32;61;32;97;46;48;46;101;53;32;45;32;45;49;32;35;32;99;10;121;32;61;32;91;49;44;32;50;93;10].
Proof. eexists. split; [vm_compute; reflexivity|]. split; [vm_compute; reflexivity|]. split; vm_compute; reflexivity. Qed.

(* Byte level, every source that lexes cleanly and contains no heredoc — quoted templates
   with "$"/"%" chunks, "$${"/"%%{" escapes and ${ … } / %{ … } sequences (nested to any
   depth) included — and none of the hazard patterns of FormatBytes.hazard_free. *)
Theorem C09_bytes_relex_exact_quoted :
  forall (g : list Z -> Z) (data : list Z) (ks : list rtok),
    lex_main data = Some ks -> noheredoc ks = true -> hazard_free ks = true ->
    exists ks', lex_main (write (format (writer_tokens g 0 ks))) = Some ks' /\
                writer_tokens g 0 ks' = format (writer_tokens g 0 ks).
Proof. exact relex_exact_quoted. Qed.
Print Assumptions C09_bytes_relex_exact_quoted.

Theorem C09_bytes_same_tokens_quoted :
  forall g data ks,
    lex_main data = Some ks -> noheredoc ks = true -> hazard_free ks = true ->
    exists ks', lex_main (write (format (writer_tokens g 0 ks))) = Some ks' /\ map rtyb ks' = map rtyb ks.
Proof. exact relex_stable_quoted. Qed.
Print Assumptions C09_bytes_same_tokens_quoted.

Theorem C09_bytes_idempotent_quoted :
  forall g data ks out,
    lex_main data = Some ks -> noheredoc ks = true -> hazard_free ks = true ->
    format_bytes g data = Some out -> format_bytes g out = Some out.
Proof. exact bytes_idempotent_quoted. Qed.
Print Assumptions C09_bytes_idempotent_quoted.

(* any clean source without heredocs, hazard patterns included: the local layout check suffices *)
Theorem C09_bytes_relex_exact_of_layout_quoted :
  forall g data ks,
    lex_main data = Some ks -> noheredoc ks = true ->
    layout_okb (format (writer_tokens g 0 ks)) = true ->
    exists ks', lex_main (write (format (writer_tokens g 0 ks))) = Some ks' /\
                writer_tokens g 0 ks' = format (writer_tokens g 0 ks).
Proof. exact relex_exact_nohd. Qed.
Print Assumptions C09_bytes_relex_exact_of_layout_quoted.

(* the five theorems already in Props/C09.v still hold with the same statements *)
Check relex_exact_simple. Check relex_stable_simple. Check bytes_idempotent_simple. Check relex_exact_main. Check relex_stable_refuted.

(* Non-vacuity: x = "a${ b }c%{ if d }$${e} 100%%{%{ endif }" (newline) y="${ {a=1} }$" *)
Example C09_bytes_example_quoted :
  let data := [120;32;61;32;34;97;36;123;32;98;32;125;99;37;123;32;105;102;32;100;32;125;36;36;123;101;125;32;49;48;48;37;37;123;37;123;32;101;110;100;105;102;32;125;34;10;
               121;61;34;36;123;32;123;97;61;49;125;32;125;36;34;10] in
  exists ks, lex_main data = Some ks /\ noheredoc ks = true /\ hazard_free ks = true /\ simple ks = false.
Proof. eexists. split; [vm_compute; reflexivity|]. split; [vm_compute; reflexivity|]. split; vm_compute; reflexivity. Qed.

(* Byte level, EVERY source that lexes cleanly (no Invalid/BadUTF8/… token; quoted templates,
   template sequences nested to any depth and heredocs included) and contains none of the
   hazard patterns of FormatBytes.hazard_free: scanning the bytes written for the formatted
   tokens gives back exactly the formatted writer tokens. *)
Theorem C09_bytes_relex_exact :
  forall (g : list Z -> Z) (data : list Z) (ks : list rtok),
    lex_main data = Some ks -> lexes_clean ks = true -> hazard_free ks = true ->
    exists ks', lex_main (write (format (writer_tokens g 0 ks))) = Some ks' /\
                writer_tokens g 0 ks' = format (writer_tokens g 0 ks).
Proof. exact relex_exact_hazard_free. Qed.
Print Assumptions C09_bytes_relex_exact.

Theorem C09_bytes_same_tokens :
  forall g data ks,
    lex_main data = Some ks -> lexes_clean ks = true -> hazard_free ks = true ->
    exists ks', lex_main (write (format (writer_tokens g 0 ks))) = Some ks' /\ map rtyb ks' = map rtyb ks.
Proof. exact relex_stable_hazard_free. Qed.
Print Assumptions C09_bytes_same_tokens.

Theorem C09_bytes_idempotent :
  forall g data ks out,
    lex_main data = Some ks -> lexes_clean ks = true -> hazard_free ks = true ->
    format_bytes g data = Some out -> format_bytes g out = Some out.
Proof. exact bytes_idempotent_hazard_free. Qed.
Print Assumptions C09_bytes_idempotent.

(* hazard patterns allowed: the local layout check on the formatted list suffices *)
Theorem C09_bytes_relex_exact_of_layout_clean :
  forall g data ks,
    lex_main data = Some ks -> lexes_clean ks = true ->
    layout_okb (format (writer_tokens g 0 ks)) = true ->
    exists ks', lex_main (write (format (writer_tokens g 0 ks))) = Some ks' /\
                writer_tokens g 0 ks' = format (writer_tokens g 0 ks).
Proof. exact relex_exact_clean. Qed.
Print Assumptions C09_bytes_relex_exact_of_layout_clean.

Check relex_exact_quoted. Check relex_stable_quoted. Check bytes_idempotent_quoted. Check relex_exact_nohd.
Check relex_exact_simple. Check relex_stable_simple. Check bytes_idempotent_simple. Check relex_exact_main.
Check relex_stable_refuted.

(* Non-vacuity: x = <<-EOT (nl)   a ${ b } $$ {c} %%{ d(nl)   $x(nl)   EOT(nl) y = [<<E(nl)E(nl),"q${1}"](nl) *)
Example C09_bytes_example_heredoc :
  let data := [120;32;61;32;60;60;45;69;79;84;10;32;32;97;32;36;123;32;98;32;125;32;36;36;32;123;99;125;32;37;37;123;32;100;10;
               32;32;36;120;10;32;32;69;79;84;10;121;32;61;32;91;60;60;69;10;69;10;44;34;113;36;123;49;125;34;93;10] in
  exists ks, lex_main data = Some ks /\ lexes_clean ks = true /\ hazard_free ks = true /\ noheredoc ks = false.
Proof. eexists. split; [vm_compute; reflexivity|]. split; [vm_compute; reflexivity|]. split; vm_compute; reflexivity. Qed.
