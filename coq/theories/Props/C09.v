(* Props/C09.v — Formatting changes only inter-token spacing and is idempotent.
   Only the property theorems, each closed by [exact], with Print Assumptions.
   Model: Write/Format.v (hclwrite/format.go); proofs: Write/FormatProofs.v. *)
From HclV Require Import Base.Prelude Write.Format Write.FormatProofs.

(* For EVERY token sequence (valid configuration or not), formatting changes
   nothing but SpacesBefore: types, bytes (comments, string and heredoc
   content) and grapheme counts of all tokens are preserved, in order. *)
Theorem C09_format_only_spaces :
  forall ts, map skel (format ts) = map skel ts.
Proof. exact format_only_spaces. Qed.
Print Assumptions C09_format_only_spaces.

Theorem C09_format_preserves_token_count :
  forall ts, length (format ts) = length ts.
Proof. exact format_length. Qed.
Print Assumptions C09_format_preserves_token_count.

(* Formatting the output again returns it unchanged (token level, all inputs). *)
Theorem C09_format_idempotent :
  forall ts, format (format ts) = format ts.
Proof. exact format_idempotent. Qed.
Print Assumptions C09_format_idempotent.

(* The result depends only on the token skeletons (and on the final EOF token,
   which is passed through): the input layout is irrelevant to the output. *)
Theorem C09_format_layout_independent :
  forall ts1 ts2, map skel ts1 = map skel ts2 ->
    snd (split_lines ts1 []) = snd (split_lines ts2 []) -> format ts1 = format ts2.
Proof. exact format_skel_determined. Qed.
Print Assumptions C09_format_layout_independent.

(* Non-vacuity / sanity: a concrete instance, "a   =     1\nbb=-1\n". *)
Example C09_example :
  map sp (format [ mkTok 73 [97] 1 3; mkTok 61 [61] 1 0; mkTok 78 [49] 1 5; mkTok 10 [10] 1 2;
                   mkTok 73 [98;98] 2 0; mkTok 61 [61] 1 0; mkTok 45 [45] 1 0; mkTok 78 [49] 1 1;
                   mkTok 10 [10] 1 0; mkTok 9220 [] 0 0 ])
  = [0; 2; 1; 0; 0; 1; 1; 0; 0; 0].
Proof. vm_compute. reflexivity. Qed.
