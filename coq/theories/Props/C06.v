(* Props/C06.v — Value marks propagate to everything they influence (marks non-interference).
   Only the property theorems, each closed by [exact], with Print Assumptions.
   Model: Cty/Values.v, Cty/Convert.v, Cty/Ops.v, Eval/Impl.v, Eval/Funcs.v (hclsyntax/expression*.go,
   ops.go).  Definitions: Eval/MarksNI.v (erase, leq, low_eq, wf), Eval/MarksNI_Funcs.v (fn_ni, fn_ok,
   funcs_ni), Eval/MarksNI_Eval.v (idx_ni, in_fragment and its side conditions), Eval/MarksNI_Main.v
   (index_repaired, ctx_ok).  Proofs: Eval/MarksNI_*.v.  Witnesses: Eval/MarksNI_Refuted.v.

   OBSERVATION.  [erase m v] replaces every subtree [VMark ms x] with m ∈ ms by the token ★ and
   keeps everything else (structure, declared types, all other marks, refinements).  ★ is opaque:
   keeping the type or the other marks of a hidden subtree visible is refuted for benign reasons
   (C06_star_type_not_stable, C06_star_marks_not_stable).  [low_eq m c1 c2]: same frames, same
   variable names, values equal after [erase m], the very same function tables.

   FRAGMENT ([in_fragment m idx Cx e], Eval/MarksNI_Eval.v): ALL 19 expression constructors, with these
   side conditions (each is forced by a witness below, or marked as a restriction of the proof):
     - literals and context values: well-formed (wf): mark sets non-empty, no mark directly under a
       mark, elements of a list / set / map of element type t have type t — the invariants of go-cty
       values; eval_wf proves the evaluator preserves them.
     - coll[key]: [key_ok]: idx is non-interfering (index_repaired), OR the key is a literal, OR coll
       never evaluates to a value of object type (nonobj).  Forced by C06_index_ni_refuted (object
       indexed by a marked KNOWN key; known finding object-index-marked-key).
     - [&&], [||]: both operands never fail (nofail).           MARK-ONLY witness C06_shortcircuit_refuted
     - [c ? t : f] (cond_side): (1) t and f never fail          C06_cond_refuted_dropped_diags (known
       finding cond-unselected-arm-error-dropped); (2) neither result carries m below its top level,
       OR both have static types                               TYPE-ONLY witness C06_cond_refuted_elem_type
     - f(a, xs...): the expanded collection xs is never marked m at its top (expand_side)
                                                               MARK-ONLY witness C06_call_expand_refuted_first
     - for: the condition and key expressions never evaluate to null (nonnull)
                                                               MARK-ONLY witness C06_for_refuted_null_cond
     - src[*]each (splat_side): the source is never a list / set / unknown tuple, OR the type of
       each(item) depends only on the type of the item (each_ty_stable; holds for attribute and
       literal-index traversals of the item: C06_each_ty_stable_trav)
                                                               TYPE-ONLY witness C06_splat_refuted_elem_type
     - functions (funcs_ni): fn_ni (the contract), well-formed results, and no parameter type contains
       an OBJECT type — the last is the only remaining restriction of the PROOF (conversion to an
       object type looks attributes up by name; when the two argument types differ under a mark the
       proof would need "attribute names are unique", which is not threaded through the evaluator).
       Conversions to every other target, and to object targets when the two source types are equal,
       are covered (C06_conv_leq).
   [Cx] is any class of contexts with well-formed values and functions with well-formed results that
   is closed under the child contexts of for and splat expressions; [ctx_ok] is the largest one.
   MARK-ONLY: the two results have equal content, one lacks the mark.  TYPE-ONLY: both results
   contain the mark, a visible declared type differs.
   Eval/MarksNI_Check.v: [in_fragmentb], a sound syntactic recogniser of the fragment
   (C06_in_fragmentb_sound), and the case checker used by harness/cmd/c06. *)
From Coq Require Import QArith.
From HclV Require Import Base.Prelude Cty.Values Cty.Convert Cty.Ops Eval.Impl Eval.Funcs
     Eval.MarksNI Eval.MarksNI_Ops Eval.MarksNI_Index Eval.MarksNI_Conv Eval.MarksNI_Funcs Eval.MarksNI_Steps
     Eval.MarksNI_Eval Eval.MarksNI_Wf Eval.MarksNI_Main Eval.MarksNI_Refuted Eval.MarksNI_Check.
Open Scope Z_scope.

(* ---- the theorem --------------------------------------------------------------------------------
   For every mark label m, every implementation idx of hcl.Index that preserves well-formedness,
   every class Cx of contexts as above: two evaluations (same fuel, same expression of the
   fragment) in low-equivalent contexts that both end without error (and inside the universe of
   the model) yield results that are equal after erasing everything under mark m.
   Contrapositive = the property: if the error-free results differ, the difference lies under
   mark m, in both. *)
Theorem C06_marks_noninterference_partial :
  forall (m : Z) (idx : val -> val -> val * list diag) (Cx : ctx -> Prop),
    (forall c, Cx c -> wf_ctx c) ->
    (forall c, Cx c -> funcs_wf c) ->
    (forall c vars, Cx c -> (forall k v, In (k, v) vars -> wf v) -> Cx (child_ctx c vars)) ->
    (forall c, Cx c -> Cx (mkFrame None None :: c)) ->
    (forall c k, wf c -> wf k -> wf (fst (idx c k))) ->
  forall fuel c1 c2 a1 a2 e v1 ds1 v2 ds2,
    in_fragment m idx Cx e ->
    low_eq m c1 c2 -> leq_opt m a1 a2 -> funcs_ni m c1 ->
    Cx c1 -> Cx c2 -> wf_opt a1 -> wf_opt a2 ->
    eval_with idx fuel c1 a1 e = (v1, ds1) -> eval_with idx fuel c2 a2 e = (v2, ds2) ->
    has_errors ds1 = false -> has_errors ds2 = false ->
    has_unsupported ds1 = false -> has_unsupported ds2 = false ->
    erase m v1 = erase m v2.
Proof. exact marks_noninterference_partial. Qed.
Print Assumptions C06_marks_noninterference_partial.

(* The implementation as it is: eval = eval_with index.  In the fragment for [index] every index
   expression has a literal key or a collection that is never an object (C06_key_ok_index_lit,
   C06_key_ok_index_nonobj). *)
Theorem C06_marks_noninterference_eval :
  forall (m : Z) fuel c1 c2 a1 a2 e v1 ds1 v2 ds2,
    in_fragment m index ctx_ok e ->
    low_eq m c1 c2 -> leq_opt m a1 a2 -> funcs_ni m c1 ->
    ctx_ok c1 -> ctx_ok c2 -> wf_opt a1 -> wf_opt a2 ->
    eval fuel c1 a1 e = (v1, ds1) -> eval fuel c2 a2 e = (v2, ds2) ->
    has_errors ds1 = false -> has_errors ds2 = false ->
    has_unsupported ds1 = false -> has_unsupported ds2 = false ->
    erase m v1 = erase m v2.
Proof. exact marks_noninterference_eval_ok. Qed.
Print Assumptions C06_marks_noninterference_eval.

(* hcl.Expression.Value *)
Theorem C06_marks_noninterference_value :
  forall (m : Z) c1 c2 e v1 ds1 v2 ds2,
    in_fragment m index ctx_ok e ->
    low_eq m c1 c2 -> funcs_ni m c1 -> ctx_ok c1 -> ctx_ok c2 ->
    value c1 e = (v1, ds1) -> value c2 e = (v2, ds2) ->
    has_errors ds1 = false -> has_errors ds2 = false ->
    has_unsupported ds1 = false -> has_unsupported ds2 = false ->
    erase m v1 = erase m v2.
Proof. exact marks_noninterference_value_ok. Qed.
Print Assumptions C06_marks_noninterference_value.

(* With hcl.Index repaired (the key's marks re-applied to every result): index expressions with
   arbitrary keys (C06_key_ok_repaired). *)
Theorem C06_marks_noninterference_repaired :
  forall (m : Z) fuel c1 c2 a1 a2 e v1 ds1 v2 ds2,
    in_fragment m index_repaired ctx_ok e ->
    low_eq m c1 c2 -> leq_opt m a1 a2 -> funcs_ni m c1 ->
    ctx_ok c1 -> ctx_ok c2 -> wf_opt a1 -> wf_opt a2 ->
    eval_with index_repaired fuel c1 a1 e = (v1, ds1) -> eval_with index_repaired fuel c2 a2 e = (v2, ds2) ->
    has_errors ds1 = false -> has_errors ds2 = false ->
    has_unsupported ds1 = false -> has_unsupported ds2 = false ->
    erase m v1 = erase m v2.
Proof. exact marks_noninterference_repaired_ok. Qed.
Print Assumptions C06_marks_noninterference_repaired.

Theorem C06_key_ok_index_lit : forall m Cx coll k, key_ok m index Cx coll (ELit k).
Proof. exact key_ok_index_lit. Qed.
Print Assumptions C06_key_ok_index_lit.

Theorem C06_key_ok_index_nonobj : forall m Cx coll key, nonobj index Cx coll -> key_ok m index Cx coll key.
Proof. exact key_ok_index_nonobj. Qed.
Print Assumptions C06_key_ok_index_nonobj.

Theorem C06_key_ok_repaired : forall m Cx coll key, key_ok m index_repaired Cx coll key.
Proof. exact key_ok_repaired. Qed.
Print Assumptions C06_key_ok_repaired.

(* ---- side conditions that hold syntactically ------------------------------------------------------ *)
(* Each = the item itself, or an attribute / literal-index traversal of it *)
Theorem C06_each_ty_stable_anon : forall m idx Cx, each_ty_stable m idx Cx EAnon.
Proof. exact each_ty_stable_anon. Qed.
Print Assumptions C06_each_ty_stable_anon.

Theorem C06_each_ty_stable_trav : forall m idx Cx steps, each_ty_stable m idx Cx (ERelTrav EAnon steps).
Proof. exact each_ty_stable_trav. Qed.
Print Assumptions C06_each_ty_stable_trav.

(* the boolean recogniser used by the harness is sound *)
Theorem C06_in_fragmentb_sound : forall m e, in_fragmentb m e = true -> in_fragment m index ctx_ok e.
Proof. exact in_fragmentb_sound. Qed.
Print Assumptions C06_in_fragmentb_sound.

(* convert.Convert respects low-equivalence for every target type (element-wise for structural
   targets), provided the two source types are equal or the target contains no object type *)
Theorem C06_conv_leq :
  forall m v1 v2 w r1 r2,
    leq m v1 v2 -> wf v1 -> wf v2 -> (type_of v1 = type_of v2 \/ noobj w = true) ->
    conv v1 w = COk r1 -> conv v2 w = COk r2 -> leq m r1 r2.
Proof. exact conv_leq. Qed.
Print Assumptions C06_conv_leq.

(* ---- hcl.Index ------------------------------------------------------------------------------------ *)
(* The real hcl.Index is NOT non-interfering: {a = "x", b = "y"} indexed by the marked known keys
   "a" / "b" returns the unmarked "x" / "y" (pinned by ops_test.go "marked object key"). *)
Theorem C06_index_ni_refuted : ~ idx_ni 1 index.
Proof. exact index_ni_refuted. Qed.
Print Assumptions C06_index_ni_refuted.

(* On every collection that is NOT of object type it is non-interfering, whatever the key
   (list, tuple, map, dynamic; since f033bd0 / dd4fa25 the dynamic and unknown-key exits keep the key's marks). *)
Theorem C06_index_ni_nonobj :
  forall m c1 c2 k1 k2 r1 r2 ds1 ds2,
    leq m c1 c2 -> leq m k1 k2 -> wf c1 -> wf c2 -> wf k1 -> wf k2 ->
    is_obj (type_of c1) = false -> is_obj (type_of c2) = false ->
    index c1 k1 = (r1, ds1) -> index c2 k2 = (r2, ds2) ->
    has_errors ds1 = false -> has_errors ds2 = false ->
    has_unsupported ds1 = false -> has_unsupported ds2 = false ->
    leq m r1 r2.
Proof. exact index_ni_nonobj. Qed.
Print Assumptions C06_index_ni_nonobj.

(* On any collection (objects included) it is non-interfering when the key does not carry m (at any depth). *)
Theorem C06_index_ni_partial :
  forall m c1 c2 k1 k2 r1 r2 ds1 ds2,
    leq m c1 c2 -> leq m k1 k2 -> wf c1 ->
    mark_mem m (deep_marks k1) = false ->
    index c1 k1 = (r1, ds1) -> index c2 k2 = (r2, ds2) ->
    has_errors ds1 = false -> has_errors ds2 = false ->
    has_unsupported ds1 = false -> has_unsupported ds2 = false ->
    erase m r1 = erase m r2.
Proof. exact index_ni_partial. Qed.
Print Assumptions C06_index_ni_partial.

(* index_repaired = index followed by re-applying the key's marks; it is non-interfering and
   coincides with index whenever the key carries no marks. *)
Theorem C06_index_repaired_ni : forall m, idx_ni m index_repaired.
Proof. exact index_repaired_ni. Qed.
Print Assumptions C06_index_repaired_ni.

Theorem C06_index_repaired_agree :
  forall coll key, deep_marks key = [] -> index_repaired coll key = index coll key.
Proof. exact index_repaired_agree. Qed.
Print Assumptions C06_index_repaired_agree.

(* ---- functions -------------------------------------------------------------------------------------- *)
(* Every function whose parameters do not AllowMarked is non-interfering, whatever it computes:
   function.Call strips the marks deeply and re-applies them to the result. *)
Theorem C06_all_unmarked_ni : forall m f, all_unmarked f = true -> fn_ni m f.
Proof. exact all_unmarked_ni. Qed.
Print Assumptions C06_all_unmarked_ni.

(* The six functions of the harness table satisfy the contract (fn_ni, primitive / dynamic
   parameter types, well-formed results). *)
Theorem C06_harness_funcs_ok :
  forall m name f, assoc_get name harness_funcs = Some f -> fn_ok m f.
Proof. exact harness_funcs_ok. Qed.
Print Assumptions C06_harness_funcs_ok.

(* ---- what is false of the faithful model (witnesses checked by computation) --------------------------- *)
Theorem C06_stmt_refuted : ~ marks_noninterference_stmt.
Proof. exact marks_noninterference_stmt_refuted. Qed.
Print Assumptions C06_stmt_refuted.

Theorem C06_shortcircuit_refuted :
  witness e_sc (ctx_of [(n_s, mk1 (num 0)); (n_t, VTuple [VBool false])])
               (ctx_of [(n_s, mk1 (num 5)); (n_t, VTuple [VBool false])]).
Proof. exact shortcircuit_refuted. Qed.
Print Assumptions C06_shortcircuit_refuted.

Theorem C06_cond_refuted_dropped_diags :
  witness e_cd (ctx_of [(n_s, mk1 (num 0)); (n_t, VTuple [num 7])])
               (ctx_of [(n_s, mk1 (num 5)); (n_t, VTuple [num 7])]).
Proof. exact cond_refuted_dropped_diags. Qed.
Print Assumptions C06_cond_refuted_dropped_diags.

Theorem C06_cond_refuted_elem_type : witness e_ce (c_ce 0) (c_ce 1).
Proof. exact cond_refuted_elem_type. Qed.
Print Assumptions C06_cond_refuted_elem_type.

Theorem C06_call_expand_refuted_first :
  witness e_ef (ctx_of [(n_s, mk1 (VList TNum []))]) (ctx_of [(n_s, mk1 (VList TNum [num 5]))]).
Proof. exact call_expand_refuted_first. Qed.
Print Assumptions C06_call_expand_refuted_first.

Theorem C06_for_refuted_null_cond : witness e_fn (c_fn (VNull TBool)) (c_fn (VBool true)).
Proof. exact for_refuted_null_cond. Qed.
Print Assumptions C06_for_refuted_null_cond.

Theorem C06_splat_refuted_elem_type : witness e_sp (c_sp 0) (c_sp 1).
Proof. exact splat_refuted_elem_type. Qed.
Print Assumptions C06_splat_refuted_elem_type.

Theorem C06_star_type_not_stable :
  exists v1 v2,
    value (ctx_of [(n_s, mk1 (VList TNum [num 1]))]) e_for = (v1, []) /\
    value (ctx_of [(n_s, mk1 (VList TNum [num 1; num 2]))]) e_for = (v2, []) /\
    is_star 1 v1 = true /\ is_star 1 v2 = true /\ type_of v1 <> type_of v2.
Proof. exact star_type_not_stable. Qed.
Print Assumptions C06_star_type_not_stable.

Theorem C06_star_marks_not_stable :
  exists v1 v2,
    value (ctx_of [(n_s, mk1 (VTuple [VMark [2] (num 1)]))]) e_eq = (v1, []) /\
    value (ctx_of [(n_s, mk1 (VTuple [num 2]))]) e_eq = (v2, []) /\
    is_star 1 v1 = true /\ is_star 1 v2 = true /\ marks_of v1 <> marks_of v2.
Proof. exact star_marks_not_stable. Qed.
Print Assumptions C06_star_marks_not_stable.

(* ---- non-vacuity --------------------------------------------------------------------------------------
   { for x in s : "${x}" => [upper(x), l["k"]] } evaluated with s = marked ["a"] and
   s = marked ["b", "c"] (l = { k = 7 }): the expression is in the fragment for the REAL index,
   the contexts satisfy every hypothesis of C06_marks_noninterference_value, both evaluations
   are error-free, the results differ — and are equal after erasure. *)
Example C06_example :
  exists v1 v2,
    in_fragment 1 index ctx_ok ex_expr /\
    low_eq 1 (ex_ctx (mk1 (VList TStr [VStr [97]]))) (ex_ctx (mk1 (VList TStr [VStr [98]; VStr [99]]))) /\
    funcs_ni 1 (ex_ctx (mk1 (VList TStr [VStr [97]]))) /\
    ctx_ok (ex_ctx (mk1 (VList TStr [VStr [97]]))) /\ ctx_ok (ex_ctx (mk1 (VList TStr [VStr [98]; VStr [99]]))) /\
    value (ex_ctx (mk1 (VList TStr [VStr [97]]))) ex_expr = (v1, []) /\
    value (ex_ctx (mk1 (VList TStr [VStr [98]; VStr [99]]))) ex_expr = (v2, []) /\
    v1 <> v2 /\ erase 1 v1 = erase 1 v2.
Proof. exact example_nonvacuous. Qed.
